import EaselModel.Msa.Model3
import EaselModel.Random.Samplers
import EaselModel.Msa.SampleConsts
/-!
`esl_msa_Sample(rng, abc, max_nseq, max_alen, &msa)` (esl_msa.c), line by line, over an arbitrary source of 32-bit words
(`next : σ → UInt32 × σ`; the driver passes the Mersenne Twister of C09, bit-identical to `esl_random.c`).
Rejection loops (`esl_rnd_Roll`, the `do … while (ispunct(buf[0]))` of the names) take fuel. Core Lean only.
-/
namespace EaselModel.Msa
open EaselModel.Random

variable {σ : Type}

/-! `esl_random(rng) < p` (`pgap = 0.1`, `pdegen = 0.02`, `pcons = 0.7` in the source) is a comparison of `x / 2^32`, exact in
    binary64, with the binary64 `p`: `x < ceil(p * 2^32)` on the raw word `x`. The three thresholds and `maxn` are read from
    the working tree on every run (`SampleConsts.lean`). -/
def thrGap : Nat := Gen.thrGap
def thrDegen : Nat := Gen.thrDegen
def thrCons : Nat := Gen.thrCons

/-- `k` calls of `f`, results in call order -/
def repeatS {α : Type} (f : σ → SRes (α × σ)) : Nat → σ → SRes (List α × σ)
  | 0, s => .ok ([], s)
  | k+1, s => (f s).bind fun r => (repeatS f k r.2).bind fun rs => .ok (r.1 :: rs.1, rs.2)

/-- one aligned cell: `if (esl_random(rng) < pgap) K; else if (esl_random(rng) < pdegen) (K+1) + Roll(Kp-K-3); else Roll(K)` -/
def sampleCell (next : σ → UInt32 × σ) (fu : Nat) (a : Abc) (s : σ) : SRes (UInt8 × σ) :=
  if (next s).1.toNat < thrGap then .ok (UInt8.ofNat a.K, (next s).2)
  else if (next (next s).2).1.toNat < thrDegen then
    (rollS next (a.Kp - a.K - 3) (next (next s).2).2 fu).bind fun r => .ok (UInt8.ofNat (a.K + 1 + r.1), r.2)
  else (rollS next a.K (next (next s).2).2 fu).bind fun r => .ok (UInt8.ofNat r.1, r.2)

/-- `isgraph` in the C locale: 0x21 … 0x7e, in increasing order: `c[k] = 0x21 + k`, 94 characters -/
def graphChar (k : Nat) : UInt8 := UInt8.ofNat (0x21 + k)
def isPunct (c : UInt8) : Bool := (0x21 ≤ c && c ≤ 0x7e) && !(isAlpha c || isDigit c)

/-- `esl_rsq_Sample(rng, eslRSQ_SAMPLE_GRAPH, n, &buf)` -/
def sampleGraph (next : σ → UInt32 × σ) (fu : Nat) (n : Nat) (s : σ) : SRes (Bytes × σ) :=
  repeatS (fun s => (rollS next 94 s fu).bind fun r => .ok (graphChar r.1, r.2)) n s

/-- `do { n = 1 + Roll(maxn); esl_rsq_Sample(GRAPH, n, &buf); } while (ispunct(buf[0]));` -/
def sampleName (next : σ → UInt32 × σ) (fu : Nat) : Nat → σ → SRes (Bytes × σ)
  | 0, _ => .nofuel
  | f+1, s =>
    (rollS next Gen.sampleMaxName s fu).bind fun r =>
      (sampleGraph next fu (1 + r.1) r.2).bind fun b =>
        if isPunct (b.1.getD 0 0) then sampleName next fu f b.2 else .ok b

/-- what `esl_msa_Sample` assembles: `esl_msa_CreateDigital(abc, nseq, alen)` + rows + names + RF + default weights -/
def sampledMsa (a : Abc) (nseq alen : Nat) (rows names : List Bytes) (rf : Bytes) : Msa :=
  { Msa.create nseq alen with flags := flagDigital, abc := some a, rows := rows, sqname := names, rf := some rf }

/-- `esl_msa_Sample`: `nseq = 1 + Roll(max_nseq)`, `alen = 1 + Roll(max_alen)`, the rows (row by row, column by column), the
    names, the reference line, default weights -/
def sampleMsa (next : σ → UInt32 × σ) (fu : Nat) (a : Abc) (maxNseq maxAlen : Nat) (s : σ) : SRes (Msa × σ) :=
  (rollS next maxNseq s fu).bind fun rn =>
  (rollS next maxAlen rn.2 fu).bind fun ra =>
  let nseq := 1 + rn.1
  let alen := 1 + ra.1
  (repeatS (repeatS (sampleCell next fu a) alen) nseq ra.2).bind fun rows =>
  (repeatS (sampleName next fu fu) nseq rows.2).bind fun names =>
  (repeatS (fun s => .ok (if (next s).1.toNat < thrCons then (0x78 : UInt8) else 0x2e, (next s).2)) alen names.2).bind fun rf =>
  .ok (sampledMsa a nseq alen rows.1 names.1 rf.1, rf.2)

end EaselModel.Msa
