import EaselModel.Msa.Spec
import EaselModel.Msa.AbcTables
/-! Lemmas: text <-> digital conversion, reverse complement, over alphabet tables regenerated from the tree. -/
namespace EaselModel.Msa

theorem flags_digital (m : Msa) (wf : m.WF) (hd : m.isDigital = true) : m.flags = 2 ∨ m.flags = 3 := by
  have := wf.flags_lt
  simp only [Msa.isDigital, beq_iff_eq] at hd
  omega

theorem flags_text (m : Msa) (wf : m.WF) (hd : m.isDigital = false) : m.flags = 0 ∨ m.flags = 1 := by
  have := wf.flags_lt
  simp only [Msa.isDigital, beq_eq_false_iff_ne, ne_eq] at hd
  omega

theorem map_id_of_forall {α : Type} (f : α → α) : ∀ (l : List α), (∀ x ∈ l, f x = x) → l.map f = l
  | [], _ => rfl
  | x :: xs, h => by
    simp [List.map, h x (by simp), map_id_of_forall f xs (fun y hy => h y (by simp [hy]))]

/-- code -> symbol -> code is the identity on valid codes -/
theorem digit_sym (a : Abc) (ht : a.symInmapOk) (x : UInt8) (hx : x.toNat < a.Kp) :
    a.digit (a.sym.getD x.toNat 0) = x ∧ a.cIsValid (a.sym.getD x.toNat 0) = true := by
  have h := ht x.toNat hx
  constructor
  · apply UInt8.toNat_inj.mp
    simpa [Abc.digit] using h.1
  · have h1 : (a.inmap.getD (a.sym.getD x.toNat 0).toNat 254).toNat < a.Kp := by rw [h.1]; exact hx
    show (decide ((a.sym.getD x.toNat 0).toNat < 128) && decide ((a.digit (a.sym.getD x.toNat 0)).toNat < a.Kp)) = true
    rw [Bool.and_eq_true]; exact ⟨decide_eq_true h.2, decide_eq_true h1⟩

/-- digital -> text -> digital is the identity -/
theorem digitize_textize (a : Abc) (m : Msa) (wf : m.WF) (hd : m.isDigital = true) (habc : m.abc = some a)
    (hc : m.codesOk a) (ht : a.symInmapOk) :
    (textize m).st = .ok ∧ digitize a (textize m).msa = { msa := m, st := .ok } := by
  have hrow : ∀ r ∈ m.rows, r.take m.alen = r := fun r hr =>
    List.take_of_length_le (by rw [(wf.rows_ok r hr).1]; exact Nat.le_refl _)
  have hrows : m.rows.map (fun r => (r.take m.alen).map (fun x => a.sym.getD x.toNat 0)) =
      m.rows.map (fun r => r.map (fun x => a.sym.getD x.toNat 0)) := by
    apply List.map_congr_left
    intro r hr; rw [hrow r hr]
  have hback : (m.rows.map (fun r => r.map (fun x => a.sym.getD x.toNat 0))).map (fun r => r.map a.digit) = m.rows := by
    rw [List.map_map]
    apply map_id_of_forall
    intro r hr
    simp only [Function.comp, List.map_map]
    apply map_id_of_forall
    intro x hx
    exact (digit_sym a ht x (hc r hr x hx)).1
  have hvalid : ((m.rows.map (fun r => r.map (fun x => a.sym.getD x.toNat 0))).all
      fun r => (r.take m.alen).all a.cIsValid) = true := by
    simp only [List.all_eq_true, List.mem_map]
    rintro _ ⟨r, hr, rfl⟩ c hc'
    have hc'' := List.mem_of_mem_take hc'
    simp only [List.mem_map] at hc''
    obtain ⟨x, hx, rfl⟩ := hc''
    exact (digit_sym a ht x (hc r hr x hx)).2
  have e1 : textize m = { msa := { m with rows := m.rows.map (fun r => r.map (fun x => a.sym.getD x.toNat 0)),
                                          abc := none, flags := m.flags - flagDigital }, st := .ok } := by
    simp only [textize, hd, habc, hrows, Bool.not_true, Bool.false_eq_true, if_false]
  have hnd : Msa.isDigital { m with rows := m.rows.map (fun r => r.map (fun x => a.sym.getD x.toNat 0)),
                                    abc := none, flags := m.flags - flagDigital } = false := by
    rcases flags_digital m wf hd with hf | hf <;> simp [Msa.isDigital, hf, flagDigital]
  have hfl : (m.flags - flagDigital) ||| flagDigital = m.flags := by
    rcases flags_digital m wf hd with hf | hf <;> simp [hf, flagDigital]
  constructor
  · rw [e1]
  · rw [e1]
    simp only [digitize, hnd, hvalid, hback, hfl, ← habc]
    simp

/-- text -> digital -> text maps every character `c` to `sym[inmap[c]]` and touches nothing else -/
theorem textize_digitize (a : Abc) (m : Msa) (wf : m.WF) (hd : m.isDigital = false) (habc : m.abc = none)
    (hv : (m.rows.all fun r => r.all a.cIsValid) = true) :
    (digitize a m).st = .ok ∧
    textize (digitize a m).msa =
      { msa := { m with rows := m.rows.map (fun r => r.map (fun c => a.sym.getD (a.digit c).toNat 0)) }, st := .ok } := by
  have hrow : ∀ r ∈ m.rows, r.take m.alen = r := fun r hr =>
    List.take_of_length_le (by rw [(wf.rows_ok r hr).1]; exact Nat.le_refl _)
  have hvalid : (m.rows.all fun r => (r.take m.alen).all a.cIsValid) = true := by
    simp only [List.all_eq_true] at hv ⊢
    intro r hr c hc
    exact hv r hr c (List.mem_of_mem_take hc)
  have hrows : (m.rows.map (fun r => r.map a.digit)).map (fun r => (r.take m.alen).map (fun x => a.sym.getD x.toNat 0))
      = m.rows.map (fun r => r.map (fun c => a.sym.getD (a.digit c).toNat 0)) := by
    rw [List.map_map]
    apply List.map_congr_left
    intro r hr
    have : (r.map a.digit).take m.alen = r.map a.digit := by
      apply List.take_of_length_le; simp [(wf.rows_ok r hr).1]
    simp [Function.comp, this]
  have e1 : digitize a m = { msa := { m with rows := m.rows.map (fun r => r.map a.digit), abc := some a,
                                             flags := m.flags ||| flagDigital }, st := .ok } := by
    simp [digitize, hd, hvalid]
  have hdg : Msa.isDigital { m with rows := m.rows.map (fun r => r.map a.digit), abc := some a,
                                    flags := m.flags ||| flagDigital } = true := by
    rcases flags_text m wf hd with hf | hf <;> simp [Msa.isDigital, hf, flagDigital]
  have hfl : (m.flags ||| flagDigital) - flagDigital = m.flags := by
    rcases flags_text m wf hd with hf | hf <;> simp [hf, flagDigital]
  constructor
  · rw [e1]
  · rw [e1]
    simp only [textize, hdg, hrows, hfl, ← habc]
    simp

/-! ## reverse complement -/

theorem wussComplChar_involutive_nat : ∀ n, n < 256 →
    wussComplChar (wussComplChar (UInt8.ofNat n)) = UInt8.ofNat n := by decide +kernel

theorem wussComplChar_involutive (c : UInt8) : wussComplChar (wussComplChar c) = c := by
  have h := wussComplChar_involutive_nat c.toNat (UInt8.toNat_lt c)
  simpa using h

theorem wussReverse_wussReverse (ss : Bytes) : wussReverse (wussReverse ss) = ss := by
  simp only [wussReverse, List.map_reverse, List.reverse_reverse, List.map_map]
  apply map_id_of_forall
  intro c _
  exact wussComplChar_involutive c

theorem revcompRow_twice (a : Abc) (compl : List UInt8) (hc : a.complInvolutive compl) (r : Bytes)
    (hr : ∀ x ∈ r, x.toNat < a.Kp) : revcompRow compl (revcompRow compl r) = r := by
  simp only [revcompRow, List.map_reverse, List.reverse_reverse, List.map_map]
  apply map_id_of_forall
  intro x hx
  have := (hc x.toNat (hr x hx)).2
  simpa [Function.comp] using this

theorem optmap_rev_rev (s : Option Bytes) : (s.map List.reverse).map List.reverse = s := by
  cases s <;> simp

theorem optmap_wrev_wrev (s : Option Bytes) : (s.map wussReverse).map wussReverse = s := by
  cases s <;> simp [wussReverse_wussReverse]

/-- reverse-complementing a digital nucleic alignment twice is the identity -/
theorem reverseComplement_twice' (a : Abc) (compl : List UInt8) (m : Msa) (hd : m.isDigital = true)
    (habc : m.abc = some a) (hcompl : a.complement = some compl) (hinv : a.complInvolutive compl) (hc : m.codesOk a) :
    (reverseComplement m).st = .ok ∧ reverseComplement (reverseComplement m).msa = { msa := m, st := .ok } := by
  have hrows : (m.rows.map (revcompRow compl)).map (revcompRow compl) = m.rows := by
    rw [List.map_map]
    apply map_id_of_forall
    intro r hr
    exact revcompRow_twice a compl hinv r (hc r hr)
  have hl : ∀ (l : List (Option Bytes)), (l.map (fun s => s.map List.reverse)).map (fun s => s.map List.reverse) = l := by
    intro l; rw [List.map_map]; apply map_id_of_forall; intro s _; exact optmap_rev_rev s
  have hw : ∀ (l : List (Option Bytes)), (l.map (fun s => s.map wussReverse)).map (fun s => s.map wussReverse) = l := by
    intro l; rw [List.map_map]; apply map_id_of_forall; intro s _; exact optmap_wrev_wrev s
  have hgc : (m.gc.map (fun t => (t.1, t.2.reverse))).map (fun t => (t.1, t.2.reverse)) = m.gc := by
    rw [List.map_map]; apply map_id_of_forall; intro t _; simp
  have hgr : (m.gr.map (fun t => (t.1, t.2.map (fun s => s.map List.reverse)))).map
      (fun t => (t.1, t.2.map (fun s => s.map List.reverse))) = m.gr := by
    rw [List.map_map]; apply map_id_of_forall; intro t _
    simp only [Function.comp, hl]
  have e1 : ∀ (m' : Msa), m'.isDigital = true → m'.abc = some a →
      reverseComplement m' = { msa := rcMsa compl m', st := .ok } := by
    intro m' h1 h2
    simp only [reverseComplement, h1, h2, hcompl, Bool.not_true, Bool.false_eq_true, if_false]
  have e2 : rcMsa compl (rcMsa compl m) = m := by
    simp only [rcMsa, hrows, hgc, hgr, hl, hw, optmap_rev_rev, optmap_wrev_wrev]
  constructor
  · rw [e1 m hd habc]
  · rw [e1 m hd habc]
    show reverseComplement (rcMsa compl m) = _
    rw [e1 (rcMsa compl m) hd habc, e2]

/-! ## the three generated alphabets -/

theorem rna_symInmapOk : Gen.rnaAbc.symInmapOk := by unfold Abc.symInmapOk; decide
theorem dna_symInmapOk : Gen.dnaAbc.symInmapOk := by unfold Abc.symInmapOk; decide
theorem amino_symInmapOk : Gen.aminoAbc.symInmapOk := by unfold Abc.symInmapOk; decide

theorem rna_complInvolutive : ∃ compl, Gen.rnaAbc.complement = some compl ∧ Gen.rnaAbc.complInvolutive compl :=
  ⟨_, rfl, by unfold Abc.complInvolutive; decide⟩
theorem dna_complInvolutive : ∃ compl, Gen.dnaAbc.complement = some compl ∧ Gen.dnaAbc.complInvolutive compl :=
  ⟨_, rfl, by unfold Abc.complInvolutive; decide⟩

end EaselModel.Msa
