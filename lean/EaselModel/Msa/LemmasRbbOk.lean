import EaselModel.Msa.LemmasSsCols
import EaselModel.Msa.LemmasNoPk
import EaselModel.Msa.LemmasRbb
/-! Lemmas: on an alignment whose SS lines are balanced and letter-free, `esl_msa_RemoveBrokenBasepairs` cannot fail. -/
namespace EaselModel.Msa

theorem removeBrokenFromSS_ok_plain (s : Bytes) (useme : List Bool) (h : PlainSS s) :
    ∃ s', removeBrokenFromSS s useme = .ok s' := by
  obtain ⟨hnl, ct, hct⟩ := h
  obtain ⟨s', h1, _⟩ := removeBroken_nested' s useme ct hct (wuss2ct_nopk_nested' s hnl ct hct)
  exact ⟨s', h1⟩

theorem rbbSeqs_ok_plain (useme : List Bool) : ∀ (l : List (Option Bytes)),
    (∀ s b, s ∈ l → s = some b → PlainSS b) → (rbbSeqs useme l).2 = none
  | [], _ => rfl
  | none :: rest, h => by
    simp only [rbbSeqs]
    exact rbbSeqs_ok_plain useme rest (fun s b hs hb => h s b (by simp [hs]) hb)
  | some s0 :: rest, h => by
    obtain ⟨s', hs'⟩ := removeBrokenFromSS_ok_plain s0 useme (h (some s0) s0 (by simp) rfl)
    simp only [rbbSeqs, hs']
    exact rbbSeqs_ok_plain useme rest (fun s b hs hb => h s b (by simp [hs]) hb)

/-- `esl_msa_RemoveBrokenBasepairs` returns `eslOK` when SS_cons and every per-sequence SS line is balanced WUSS
    without pseudoknot letters -/
theorem removeBrokenBasepairs_ok_plain (m : Msa) (useme : List Bool)
    (hc : ∀ b, m.ss_cons = some b → PlainSS b) (hs : ∀ s b, s ∈ m.ss → s = some b → PlainSS b) :
    (removeBrokenBasepairs m useme).st = .ok := by
  unfold removeBrokenBasepairs
  cases hcons : m.ss_cons with
  | none =>
    simp only
    have := rbbSeqs_ok_plain useme m.ss hs
    cases hr : rbbSeqs useme m.ss with
    | mk ss' e => rw [hr] at this; simp only at this; subst this; rfl
  | some s0 =>
    obtain ⟨s', hs'⟩ := removeBrokenFromSS_ok_plain s0 useme (hc s0 hcons)
    simp only [hs', Except.map]
    have := rbbSeqs_ok_plain useme m.ss hs
    cases hr : rbbSeqs useme m.ss with
    | mk ss' e => rw [hr] at this; simp only at this; subst this; rfl

end EaselModel.Msa
