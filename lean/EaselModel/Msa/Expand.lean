import EaselModel.Msa.Model
/-!
`esl_msa_Expand(msa)` (esl_msa.c) on a growable alignment (`alen == -1`, as `esl_msa_Create(nseq, -1)` hands to the parsers):
every per-sequence array is reallocated to `2 * sqalloc` slots, the old slots keep their content, the new ones are
initialised (`NULL`, weight `-1.0`, length `0`); optional arrays that do not exist are not created; every `#=GS` / `#=GR`
row is widened the same way. Core Lean only.
-/
namespace EaselModel.Msa

/-- the per-sequence part of a growable `ESL_MSA` -/
structure Grow where
  sqalloc : Nat
  sqname : List (Option Bytes)
  wgt : List UInt64                               -- bit patterns
  sqlen : List Nat
  rows : List (Option Bytes)                      -- `aseq[i]` / `ax[i]`
  ss : Option (List (Option Bytes × Nat))         -- `ss[i]`, `sslen[i]`
  sa : Option (List (Option Bytes × Nat))
  pp : Option (List (Option Bytes × Nat))
  sqacc : Option (List (Option Bytes))
  sqdesc : Option (List (Option Bytes))
  gs : TagTable
  gr : TagTable
  deriving Repr, DecidableEq, Inhabited

/-- `-1.0`: "unset so far" -/
def wgtUnset : UInt64 := 0xbff0000000000000

/-- `esl_msa_Create(nseq, -1)` -/
def Grow.create (nseq : Nat) : Grow :=
  { sqalloc := nseq, sqname := List.replicate nseq none, wgt := List.replicate nseq wgtUnset, sqlen := List.replicate nseq 0,
    rows := List.replicate nseq none, ss := none, sa := none, pp := none, sqacc := none, sqdesc := none, gs := [], gr := [] }

/-- `ESL_REALLOC(arr, … * new_size); for (i = old; i < new_size; i++) arr[i] = d;` -/
def padTo {α : Type} (old new : Nat) (d : α) (l : List α) : List α := l ++ List.replicate (new - old) d

/-- `esl_msa_Expand` on a growable alignment -/
def expandG (g : Grow) : Grow :=
  let old := g.sqalloc
  let new := 2 * old
  { sqalloc := new,
    sqname := padTo old new none g.sqname, wgt := padTo old new wgtUnset g.wgt, sqlen := padTo old new 0 g.sqlen,
    rows := padTo old new none g.rows,
    ss := g.ss.map (padTo old new (none, 0)), sa := g.sa.map (padTo old new (none, 0)), pp := g.pp.map (padTo old new (none, 0)),
    sqacc := g.sqacc.map (padTo old new none), sqdesc := g.sqdesc.map (padTo old new none),
    gs := g.gs.map (fun t => (t.1, padTo old new none t.2)), gr := g.gr.map (fun t => (t.1, padTo old new none t.2)) }

def expandN : Nat → Grow → Grow
  | 0, g => g
  | k+1, g => expandN k (expandG g)

/-- every array of the object has exactly `sqalloc` slots -/
structure Grow.Wf (g : Grow) : Prop where
  sqname : g.sqname.length = g.sqalloc
  wgt : g.wgt.length = g.sqalloc
  sqlen : g.sqlen.length = g.sqalloc
  rows : g.rows.length = g.sqalloc
  ss : ∀ l, g.ss = some l → l.length = g.sqalloc
  sa : ∀ l, g.sa = some l → l.length = g.sqalloc
  pp : ∀ l, g.pp = some l → l.length = g.sqalloc
  sqacc : ∀ l, g.sqacc = some l → l.length = g.sqalloc
  sqdesc : ∀ l, g.sqdesc = some l → l.length = g.sqalloc
  gs : ∀ t ∈ g.gs, t.2.length = g.sqalloc
  gr : ∀ t ∈ g.gr, t.2.length = g.sqalloc

theorem padTo_length {α : Type} (old : Nat) (d : α) (l : List α) (h : l.length = old) : (padTo old (2 * old) d l).length = 2 * old := by
  simp [padTo, h]; omega

theorem padTo_take {α : Type} (old new : Nat) (d : α) (l : List α) (h : l.length = old) : (padTo old new d l).take old = l := by
  simp [padTo, ← h]

theorem padTo_drop {α : Type} (old new : Nat) (d : α) (l : List α) (h : l.length = old) :
    (padTo old new d l).drop old = List.replicate (new - old) d := by
  simp [padTo, ← h]

theorem expandG_wf (g : Grow) (wf : g.Wf) : (expandG g).Wf := by
  constructor
  · exact padTo_length _ _ _ wf.sqname
  · exact padTo_length _ _ _ wf.wgt
  · exact padTo_length _ _ _ wf.sqlen
  · exact padTo_length _ _ _ wf.rows
  · intro l hl
    simp only [expandG, Option.map_eq_some_iff] at hl
    obtain ⟨l0, h0, rfl⟩ := hl
    exact padTo_length _ _ _ (wf.ss l0 h0)
  · intro l hl
    simp only [expandG, Option.map_eq_some_iff] at hl
    obtain ⟨l0, h0, rfl⟩ := hl
    exact padTo_length _ _ _ (wf.sa l0 h0)
  · intro l hl
    simp only [expandG, Option.map_eq_some_iff] at hl
    obtain ⟨l0, h0, rfl⟩ := hl
    exact padTo_length _ _ _ (wf.pp l0 h0)
  · intro l hl
    simp only [expandG, Option.map_eq_some_iff] at hl
    obtain ⟨l0, h0, rfl⟩ := hl
    exact padTo_length _ _ _ (wf.sqacc l0 h0)
  · intro l hl
    simp only [expandG, Option.map_eq_some_iff] at hl
    obtain ⟨l0, h0, rfl⟩ := hl
    exact padTo_length _ _ _ (wf.sqdesc l0 h0)
  · intro t ht
    simp only [expandG, List.mem_map] at ht
    obtain ⟨t0, h0, rfl⟩ := ht
    exact padTo_length _ _ _ (wf.gs t0 h0)
  · intro t ht
    simp only [expandG, List.mem_map] at ht
    obtain ⟨t0, h0, rfl⟩ := ht
    exact padTo_length _ _ _ (wf.gr t0 h0)

theorem expandN_wf : ∀ (k : Nat) (g : Grow), g.Wf → (expandN k g).Wf
  | 0, _, wf => wf
  | k+1, g, wf => expandN_wf k (expandG g) (expandG_wf g wf)

theorem expandN_sqalloc : ∀ (k : Nat) (g : Grow), (expandN k g).sqalloc = 2 ^ k * g.sqalloc
  | 0, g => by simp [expandN]
  | k+1, g => by
    rw [expandN, expandN_sqalloc k (expandG g)]
    simp only [expandG, Nat.pow_succ]
    rw [Nat.mul_assoc]

theorem Grow.create_wf (n : Nat) : (Grow.create n).Wf := by
  constructor <;> simp [Grow.create]

end EaselModel.Msa
