/-! # Model of the matrices of esl_matrixops.c (C20)

`esl_mat_{D,F,I,C}Create (M, N)` allocates ONE block of `M*N` cells and a vector of `M` row pointers with
`A[i] = A[0] + i*N`; every other routine (`Set`, `Scale`, `Copy`, `Max`, `Clone`) works on the flat block `A[0]` with length
`M*N`.  The model is the flat list plus the row-pointer arithmetic, with the bounds-checked cell access of DESIGN §3.2.
Core Lean only. -/
namespace EaselModel.Mat

/-- flat index of `A[i][j]` (`none` = the access leaves the allocated block: a fault) -/
def cell (M N i j : Nat) : Option Nat := if i * N + j < M * N then some (i * N + j) else none

/-- `for i < M, for j < N: A[i][j] = x[i*N+j]` starting from the block `flat`; `none` = fault -/
def writeRows {α : Type} (M N : Nat) (x : List α) (z : α) (flat : List α) : Option (List α) :=
  (List.range M).foldlM (fun f i => (List.range N).foldlM (fun f j =>
    match cell M N i j with
    | some k => some (f.set k (x.getD (i * N + j) z))
    | none => none) f) flat

/-- `for i < M, for j < N: out[i*N+j] = A[i][j]` -/
def readRows {α : Type} (M N : Nat) (flat : List α) (z : α) : Option (List α) :=
  (List.range M).foldlM (fun out i => (List.range N).foldlM (fun out j =>
    match cell M N i j with
    | some k => some (out ++ [flat.getD k z])
    | none => none) out) []

/-- `esl_mat_*Sizeof`: the block plus the row pointers (8-byte pointers) -/
def sizeof (elem M N : Nat) : Nat := elem * M * N + 8 * M

/-- `esl_mat_*GrowTo (M2, N2)`: realloc keeps the first `min (M*N) (M2*N2)` cells of the block (their row/column meaning changes
    when `N2 ≠ N`: the routine does not move data); rows are re-pointed at `i*N2` -/
def growKept {α : Type} (M N M2 N2 : Nat) (flat : List α) : List α := flat.take (min (M * N) (M2 * N2))

/-! the row pointers tile the block exactly -/
theorem cell_some (M N i j : Nat) (hi : i < M) (hj : j < N) : cell M N i j = some (i * N + j) := by
  unfold cell
  have : i * N + j < M * N := by
    have h1 : (i + 1) * N ≤ M * N := Nat.mul_le_mul_right N hi
    have h2 : (i + 1) * N = i * N + N := Nat.succ_mul i N
    omega
  simp [this]

theorem cell_inj (N i j i' j' : Nat) (hj : j < N) (hj' : j' < N) (h : i * N + j = i' * N + j') : i = i' ∧ j = j' := by
  have hN : 0 < N := by omega
  have e1 : (i * N + j) / N = i := by rw [Nat.mul_comm, Nat.mul_add_div hN, Nat.div_eq_of_lt hj]; simp
  have e2 : (i' * N + j') / N = i' := by rw [Nat.mul_comm, Nat.mul_add_div hN, Nat.div_eq_of_lt hj']; simp
  have e3 : (i * N + j) % N = j := by rw [Nat.mul_comm, Nat.mul_add_mod, Nat.mod_eq_of_lt hj]
  have e4 : (i' * N + j') % N = j' := by rw [Nat.mul_comm, Nat.mul_add_mod, Nat.mod_eq_of_lt hj']
  constructor
  · rw [← e1, ← e2, h]
  · rw [← e3, ← e4, h]

theorem cell_surj (M N k : Nat) (hk : k < M * N) : ∃ i j, i < M ∧ j < N ∧ cell M N i j = some k := by
  have hN : 0 < N := by
    rcases Nat.eq_zero_or_pos N with h | h
    · subst h; simp at hk
    · exact h
  refine ⟨k / N, k % N, ?_, Nat.mod_lt _ hN, ?_⟩
  · exact Nat.div_lt_of_lt_mul (by rw [Nat.mul_comm]; exact hk)
  · have e : k / N * N + k % N = k := by rw [Nat.mul_comm]; exact Nat.div_add_mod k N
    unfold cell; rw [e]; simp [hk]

end EaselModel.Mat
