import EaselModel.Vec.GenMix
/-! # The REGENERATED `esl_vec_{D,F}RelEntropy` (a loop with an early `return eslINFINITY`) is the hand model `relEntropyGo` (C20, part C).
    Core Lean only. -/
namespace EaselModel.Vec
open Gen VOrd VNum VInf

/-- a loop over two arrays of equal length whose body, on every in-range index, neither faults nor depends on anything but the two
    cells and the state, is the fold over the zipped cells -/
theorem loop_fold2 {α σ : Type} (a b : Array α) (hab : a.size = b.size) (s : σ) (body : Int → σ → Option σ) (G : σ → α → α → σ)
    (hb : ∀ (j : Nat) (s : σ) (h : j < a.size), body (0 + (j : Int)) s = some (G s a[j] (b[j]'(hab ▸ h)))) :
    loop 0 (a.size : Int) s body = some ((a.toList.zip b.toList).foldl (fun s pq => G s pq.1 pq.2) s) := by
  obtain ⟨r, hr, hP⟩ := loop_inv 0 (a.size : Int) body
    (fun j s' => s' = ((a.toList.zip b.toList).take j).foldl (fun s pq => G s pq.1 pq.2) s) s (by simp) (by
      intro j s' hj hs'
      have hj' : j < a.size := by omega
      refine ⟨_, hb j s' hj', ?_⟩
      have hlen : j < (a.toList.zip b.toList).length := by simp [List.length_zip, ← hab]; exact hj'
      rw [List.take_succ_eq_append_getElem hlen, List.foldl_append, ← hs']
      simp [List.getElem_zip])
  rw [hr, hP]
  have : ((a.size : Int) - 0).toNat = a.size := by omega
  rw [this, List.take_of_length_le (by simp [List.length_zip, ← hab])]

section rel
variable {α : Type} [VInf α]

/-- one iteration of the `RelEntropy` loop on the state (value already returned) ⊕ (`kl` so far) -/
def relStep (acc : α ⊕ α) (x y : α) : α ⊕ α :=
  match acc with
  | Sum.inl r => Sum.inl r
  | Sum.inr kl => if lt (ofNat 0) x then (if VNum.eq y (ofNat 0) then Sum.inl inf else Sum.inr (klAdd kl x y)) else Sum.inr kl

theorem relStep_inr (kl x y : α) : relStep (Sum.inr kl) x y =
    if lt (ofNat 0) x then (if VNum.eq y (ofNat 0) then Sum.inl inf else Sum.inr (klAdd kl x y)) else Sum.inr kl := rfl
theorem relStep_inl (r x y : α) : relStep (Sum.inl r) x y = Sum.inl r := rfl

theorem relFold_inl (l : List (α × α)) (r : α) : l.foldl (fun a pq => relStep a pq.1 pq.2) (Sum.inl r) = Sum.inl r := by
  induction l with
  | nil => rfl
  | cons x xs ih => rw [List.foldl_cons, relStep_inl]; exact ih

theorem relFold_eq (p q : List α) (kl : α) :
    (p.zip q).foldl (fun a pq => relStep a pq.1 pq.2) (Sum.inr kl) =
      match relEntropyGo p q kl with | none => Sum.inl inf | some k => Sum.inr k := by
  induction p generalizing q kl with
  | nil => simp [relEntropyGo]
  | cons x xs ih =>
    cases q with
    | nil => simp [relEntropyGo]
    | cons y ys =>
      rw [List.zip_cons_cons, List.foldl_cons, relStep_inr]
      unfold relEntropyGo
      cases hx : lt (ofNat 0 : α) x
      · simpa using ih ys kl
      · cases hy : VNum.eq y (ofNat 0 : α)
        · simpa using ih ys (klAdd kl x y)
        · simpa using relFold_inl (xs.zip ys) inf

/-- `esl_vec_DRelEntropy` as regenerated: `eslINFINITY` as soon as some `p[i] > 0` meets `q[i] == 0`, else the accumulated
    `kl += p[i] * log2(p[i]/q[i])` over the cells with `p[i] > 0` — the hand model's `relEntropyGo`; never a fault on equal-length vectors -/
theorem gen_DRelEntropy (hk : ∀ kl x y : α, klAdd kl x y = kl + x * log2 (x / y)) (p q : Array α) (h : p.size = q.size) :
    esl_vec_DRelEntropy p q p.size = some ((relEntropyGo p.toList q.toList (ofNat 0)).getD inf) := by
  unfold esl_vec_DRelEntropy loopRet
  simp only [bind, pure, celem_ofNat]
  rw [loop_fold2 p q h _ _ relStep (by
    intro j acc hj
    have hj' : j < q.size := h ▸ hj
    cases acc with
    | inl r => rfl
    | inr kl =>
      simp only [zero_add_cast, bind, pure, rd_lt p j hj, rd_lt q j hj', Option.bind_some, relStep_inr, hk, celem_ofNat, celem_eq, celem_mul, celem_add]
      cases lt (ofNat 0 : α) p[j] <;> cases VNum.eq q[j] (ofNat 0 : α) <;> simp)]
  simp only [Option.bind_some]
  rw [relFold_eq]
  cases relEntropyGo p.toList q.toList (ofNat 0 : α) <;> rfl

attribute [local instance] VMix.same
/-- the `float` routine (`p[i]/q[i]` in binary32, `log2`, the product and the accumulation in double, one rounding per iteration):
    over exact arithmetic the same function -/
theorem gen_FRelEntropy (hk : ∀ kl x y : α, klAdd kl x y = kl + x * log2 (x / y)) (p q : Array α) (h : p.size = q.size) :
    esl_vec_FRelEntropy p q p.size = some ((relEntropyGo p.toList q.toList (ofNat 0)).getD inf) := by
  unfold esl_vec_FRelEntropy loopRet
  simp only [bind, pure, celem_ofNat]
  rw [loop_fold2 p q h _ _ relStep (by
    intro j acc hj
    have hj' : j < q.size := h ▸ hj
    cases acc with
    | inl r => rfl
    | inr kl =>
      simp only [zero_add_cast, bind, pure, rd_lt p j hj, rd_lt q j hj', Option.bind_some, relStep_inr, hk, celem_ofNat, celem_eq, celem_mul, celem_add,
        widen_same, narrow_same]
      cases lt (ofNat 0 : α) p[j] <;> cases VNum.eq q[j] (ofNat 0 : α) <;> simp)]
  simp only [Option.bind_some]
  rw [relFold_eq]
  cases relEntropyGo p.toList q.toList (ofNat 0 : α) <;> rfl

end rel
end EaselModel.Vec
