import EaselModel.Vec.GenMix
/-! # The REGENERATED `esl_vec_{D,F}RelEntropy` (a loop with an early `return eslINFINITY`) is the hand model `relEntropyGo` (C20, part C).
    Core Lean only. -/
namespace EaselModel.Vec
open Gen VOrd VNum VInf

/-- a loop over two arrays of equal length whose body, on every in-range index, neither faults nor depends on anything but the two
    cells and the state, is the fold over the zipped cells -/
theorem loop_fold2 {α σ : Type} (a b : Array α) (hab : a.size = b.size) (s : σ) (body : Int → σ → Option σ) (G : σ → α → α → σ)
    (hb : ∀ (j : Nat) (s : σ) (h : j < a.size), body (0 + (j : Int)) s = some (G s a[j] (b[j]'(hab ▸ h)))) :
    loop 0 (a.size : Int) s body = some ((a.toList.zip b.toList).foldl (fun s pq => G s pq.1 pq.2) s) := by
  obtain ⟨r, hr, hP⟩ := loop_inv 0 (a.size : Int) body
    (fun j s' => s' = ((a.toList.zip b.toList).take j).foldl (fun s pq => G s pq.1 pq.2) s) s (by simp) (by
      intro j s' hj hs'
      have hj' : j < a.size := by omega
      refine ⟨_, hb j s' hj', ?_⟩
      have hlen : j < (a.toList.zip b.toList).length := by simp [List.length_zip, ← hab]; exact hj'
      rw [List.take_succ_eq_append_getElem hlen, List.foldl_append, ← hs']
      simp [List.getElem_zip])
  rw [hr, hP]
  have : ((a.size : Int) - 0).toNat = a.size := by omega
  rw [this, List.take_of_length_le (by simp [List.length_zip, ← hab])]

section rel
variable {α : Type} [VInf α]

/-- one iteration of the `RelEntropy` loop on the state (value already returned) ⊕ (`kl` so far) -/
def relStep (acc : α ⊕ α) (x y : α) : α ⊕ α :=
  match acc with
  | Sum.inl r => Sum.inl r
  | Sum.inr kl => if lt (ofNat 0) x then (if VNum.eq y (ofNat 0) then Sum.inl inf else Sum.inr (klAdd kl x y)) else Sum.inr kl

theorem relStep_inr (kl x y : α) : relStep (Sum.inr kl) x y =
    if lt (ofNat 0) x then (if VNum.eq y (ofNat 0) then Sum.inl inf else Sum.inr (klAdd kl x y)) else Sum.inr kl := rfl
theorem relStep_inl (r x y : α) : relStep (Sum.inl r) x y = Sum.inl r := rfl

theorem relFold_inl (l : List (α × α)) (r : α) : l.foldl (fun a pq => relStep a pq.1 pq.2) (Sum.inl r) = Sum.inl r := by
  induction l with
  | nil => rfl
  | cons x xs ih => rw [List.foldl_cons, relStep_inl]; exact ih

theorem relFold_eq (p q : List α) (kl : α) :
    (p.zip q).foldl (fun a pq => relStep a pq.1 pq.2) (Sum.inr kl) =
      match relEntropyGo p q kl with | none => Sum.inl inf | some k => Sum.inr k := by
  induction p generalizing q kl with
  | nil => simp [relEntropyGo]
  | cons x xs ih =>
    cases q with
    | nil => simp [relEntropyGo]
    | cons y ys =>
      rw [List.zip_cons_cons, List.foldl_cons, relStep_inr]
      unfold relEntropyGo
      cases hx : lt (ofNat 0 : α) x
      · simpa using ih ys kl
      · cases hy : VNum.eq y (ofNat 0 : α)
        · simpa using ih ys (klAdd kl x y)
        · simpa using relFold_inl (xs.zip ys) inf

/-- `esl_vec_DRelEntropy` as regenerated: `eslINFINITY` as soon as some `p[i] > 0` meets `q[i] == 0`, else the accumulated
    `kl += p[i] * log2(p[i]/q[i])` over the cells with `p[i] > 0` — the hand model's `relEntropyGo`; never a fault on equal-length vectors -/
theorem gen_DRelEntropy (hk : ∀ kl x y : α, klAdd kl x y = kl + x * log2 (x / y)) (p q : Array α) (h : p.size = q.size) :
    esl_vec_DRelEntropy p q p.size = some ((relEntropyGo p.toList q.toList (ofNat 0)).getD inf) := by
  unfold esl_vec_DRelEntropy loopRet
  simp only [bind, pure, celem_ofNat]
  rw [loop_fold2 p q h _ _ relStep (by
    intro j acc hj
    have hj' : j < q.size := h ▸ hj
    cases acc with
    | inl r => rfl
    | inr kl =>
      simp only [zero_add_cast, bind, pure, rd_lt p j hj, rd_lt q j hj', Option.bind_some, relStep_inr, hk, celem_ofNat, celem_eq, celem_mul, celem_add]
      cases lt (ofNat 0 : α) p[j] <;> cases VNum.eq q[j] (ofNat 0 : α) <;> simp)]
  simp only [Option.bind_some]
  rw [relFold_eq]
  cases relEntropyGo p.toList q.toList (ofNat 0 : α) <;> rfl

attribute [local instance] VMix.same
/-- the `float` routine (`p[i]/q[i]` in binary32, `log2`, the product and the accumulation in double, one rounding per iteration):
    over exact arithmetic the same function -/
theorem gen_FRelEntropy (hk : ∀ kl x y : α, klAdd kl x y = kl + x * log2 (x / y)) (p q : Array α) (h : p.size = q.size) :
    esl_vec_FRelEntropy p q p.size = some ((relEntropyGo p.toList q.toList (ofNat 0)).getD inf) := by
  unfold esl_vec_FRelEntropy loopRet
  simp only [bind, pure, celem_ofNat]
  rw [loop_fold2 p q h _ _ relStep (by
    intro j acc hj
    have hj' : j < q.size := h ▸ hj
    cases acc with
    | inl r => rfl
    | inr kl =>
      simp only [zero_add_cast, bind, pure, rd_lt p j hj, rd_lt q j hj', Option.bind_some, relStep_inr, hk, celem_ofNat, celem_eq, celem_mul, celem_add,
        widen_same, narrow_same]
      cases lt (ofNat 0 : α) p[j] <;> cases VNum.eq q[j] (ofNat 0 : α) <;> simp)]
  simp only [Option.bind_some]
  rw [relFold_eq]
  cases relEntropyGo p.toList q.toList (ofNat 0 : α) <;> rfl

end rel
/-- one array: a loop whose body, on every in-range index, neither faults nor depends on anything but the cell and the state -/
theorem loop_fold1 {α σ : Type} (a : Array α) (s : σ) (body : Int → σ → Option σ) (G : σ → α → σ)
    (hb : ∀ (j : Nat) (s : σ) (h : j < a.size), body (0 + (j : Int)) s = some (G s a[j])) :
    loop 0 (a.size : Int) s body = some (a.toList.foldl G s) := by
  obtain ⟨r, hr, hP⟩ := loop_inv 0 (a.size : Int) body
    (fun j s' => s' = (a.toList.take j).foldl G s) s (by simp) (by
      intro j s' hj hs'
      have hj' : j < a.size := by omega
      refine ⟨_, hb j s' hj', ?_⟩
      have hlen : j < a.toList.length := by simpa using hj'
      rw [List.take_succ_eq_append_getElem hlen, List.foldl_append, ← hs']
      simp)
  rw [hr, hP]
  have : ((a.size : Int) - 0).toNat = a.size := by omega
  rw [this, List.take_of_length_le (by simp)]

section validate
variable {α : Type} [VNum α]

/-- one iteration of the `Validate` loop on the state (status already returned) ⊕ (`sum` so far) -/
def valStep (acc : Int ⊕ α) (x : α) : Int ⊕ α :=
  match acc with
  | Sum.inl r => Sum.inl r
  | Sum.inr s => if notProb x then Sum.inl 1 else Sum.inr (s + x)
/-- what the routine returns after the loop -/
def valOut (tol : α) : Int ⊕ α → Int
  | Sum.inl r => r
  | Sum.inr s => if offOne s tol then 1 else 0

theorem valStep_inr (s x : α) : valStep (Sum.inr s) x = if notProb x then Sum.inl 1 else Sum.inr (s + x) := rfl
theorem valStep_inl (r : Int) (x : α) : valStep (Sum.inl r) x = Sum.inl r := rfl
theorem valFold_inl (l : List α) (r : Int) : l.foldl valStep (Sum.inl r) = Sum.inl r := by
  induction l with
  | nil => rfl
  | cons x xs ih => rw [List.foldl_cons, valStep_inl]; exact ih
theorem valFold_eq (tol : α) (v : List α) (s : α) :
    valOut tol (v.foldl valStep (Sum.inr s)) = if validateGo tol v s then 0 else 1 := by
  induction v generalizing s with
  | nil => simp only [List.foldl_nil, valOut, validateGo]; by_cases h : offOne s tol = true <;> simp [h]
  | cons x xs ih =>
    rw [List.foldl_cons, valStep_inr]
    unfold validateGo
    cases hx : notProb x
    · simpa using ih (s + x)
    · simp [valFold_inl, valOut]

variable [VFin α]
/-- `esl_vec_DValidate` as regenerated (`errbuf` aside): `eslOK` (0) for `n = 0`; `eslFAIL` (1) at the first cell with
    `!isfinite(x) || x < 0.0 || x > 1.0`; else `eslFAIL` iff `fabs(sum - 1.0) > tol` — the hand model's `validate`; never a fault -/
theorem gen_DValidate (hn : ∀ x : α, notProb x = (!(VFin.isFinite x) || lt x (ofNat 0) || lt (ofNat 1) x))
    (ho : ∀ s tol : α, offOne s tol = lt tol (VFin.abs (s - ofNat 1))) (v : Array α) (tol : α) :
    esl_vec_DValidate v v.size tol = some (if validate v.toList tol then 0 else 1) := by
  unfold esl_vec_DValidate loopRet validate
  simp only [bind, pure, celem_ofNat, celem_sub]
  by_cases hz : v.size = 0
  · have e : v = #[] := Array.eq_empty_of_size_eq_zero hz
    subst e; rfl
  · have h1 : ¬ ((v.size : Int) = 0) := by omega
    have h2 : v.toList.isEmpty = false := by
      rw [List.isEmpty_eq_false_iff]; intro e; apply hz; simpa using congrArg List.length e
    simp only [h1, decide_false, Bool.false_eq_true, if_false, h2]
    rw [loop_fold1 v _ _ valStep (by
      intro j acc hj
      cases acc with
      | inl r => rfl
      | inr s =>
        simp only [zero_add_cast, bind, pure, rd_lt v j hj, Option.bind_some, valStep_inr, hn, celem_ofNat, celem_add]
        cases VFin.isFinite v[j] <;> cases lt v[j] (ofNat 0 : α) <;> cases lt (ofNat 1 : α) v[j] <;> simp)]
    simp only [Option.bind_some]
    rw [← valFold_eq tol v.toList (ofNat 0)]
    cases v.toList.foldl valStep (Sum.inr (ofNat 0 : α)) with
    | inl r => rfl
    | inr s => simp only [valOut, ho, Option.bind_some]; cases h : lt tol (VFin.abs (s - ofNat 1 : α)) <;> simp

attribute [local instance] VMix.same
/-- the `float` routine (range tests and `fabs(sum - 1.0) > tol` promoted to double): over exact arithmetic the same function -/
theorem gen_FValidate (hn : ∀ x : α, notProb x = (!(VFin.isFinite x) || lt x (ofNat 0) || lt (ofNat 1) x))
    (ho : ∀ s tol : α, offOne s tol = lt tol (VFin.abs (s - ofNat 1))) (v : Array α) (tol : α) :
    esl_vec_FValidate v v.size tol = some (if validate v.toList tol then 0 else 1) := by
  unfold esl_vec_FValidate loopRet validate
  simp only [bind, pure, celem_ofNat, celem_sub, widen_same]
  by_cases hz : v.size = 0
  · have e : v = #[] := Array.eq_empty_of_size_eq_zero hz
    subst e; rfl
  · have h1 : ¬ ((v.size : Int) = 0) := by omega
    have h2 : v.toList.isEmpty = false := by
      rw [List.isEmpty_eq_false_iff]; intro e; apply hz; simpa using congrArg List.length e
    simp only [h1, decide_false, Bool.false_eq_true, if_false, h2]
    rw [loop_fold1 v _ _ valStep (by
      intro j acc hj
      cases acc with
      | inl r => rfl
      | inr s =>
        simp only [zero_add_cast, bind, pure, rd_lt v j hj, Option.bind_some, valStep_inr, hn, celem_ofNat, celem_add, widen_same]
        cases VFin.isFinite v[j] <;> cases lt v[j] (ofNat 0 : α) <;> cases lt (ofNat 1 : α) v[j] <;> simp)]
    simp only [Option.bind_some]
    rw [← valFold_eq tol v.toList (ofNat 0)]
    cases v.toList.foldl valStep (Sum.inr (ofNat 0 : α)) with
    | inl r => rfl
    | inr s => simp only [valOut, ho, Option.bind_some]; cases h : lt tol (VFin.abs (s - ofNat 1 : α)) <;> simp

end validate
/-! ## `esl_vec_{D,F}Log{,2}Validate`: ESL_ALLOC a scratch copy, Copy, Exp / Exp2, Validate -/
section logvalidate
variable {α : Type} [VInf α] [VFin α]

theorem logValidate_core (hn : ∀ x : α, notProb x = (!(VFin.isFinite x) || lt x (ofNat 0) || lt (ofNat 1) x))
    (ho : ∀ s tol : α, offOne s tol = lt tol (VFin.abs (s - ofNat 1))) (v : Array α) (tol : α) (hz : v.size ≠ 0)
    (E : Array α → Int → Option (Array α)) (f : α → α) (hE : ∀ w : Array α, ∃ r, E w w.size = some r ∧ r.toList = w.toList.map f)
    (V : Array α → Int → α → Option Int) (hV : ∀ w : Array α, V w w.size tol = some (if validate w.toList tol then 0 else 1)) :
    ((allocM (v.size : Int) (CElem.ofNat 0 : α)).bind fun e => (esl_vec_DCopy v v.size e).bind fun e => (E e v.size).bind fun e =>
      (V e v.size tol).bind fun st => if decide (st ≠ 0) then some st else some 0) =
      some (if validate (v.toList.map f) tol then 0 else 1) := by
  have hpos : (0 : Int) < v.size := by omega
  simp only [allocM, if_pos hpos, Option.bind_some]
  rw [copy_DI]
  obtain ⟨r1, h1, l1⟩ := gen_copy v (Array.replicate (v.size : Int).toNat (CElem.ofNat 0 : α)) (by simp)
  have e1 : r1 = v := Array.toList_inj.mp l1
  rw [h1, e1]; simp only [Option.bind_some]
  obtain ⟨r2, h2, l2⟩ := hE v
  have s2 : r2.size = v.size := by have := congrArg List.length l2; simpa using this
  rw [h2]; simp only [Option.bind_some]
  rw [← s2, hV r2, l2]; simp only [Option.bind_some]
  cases validate (v.toList.map f) tol <;> simp

/-- `esl_vec_DLogValidate` / `esl_vec_DLog2Validate` as regenerated = the hand model's `logValidate` / `log2Validate` -/
theorem gen_DLogValidate (hn : ∀ x : α, notProb x = (!(VFin.isFinite x) || lt x (ofNat 0) || lt (ofNat 1) x))
    (ho : ∀ s tol : α, offOne s tol = lt tol (VFin.abs (s - ofNat 1))) (v : Array α) (tol : α) :
    esl_vec_DLogValidate v v.size tol = some (if logValidate v.toList tol then 0 else 1) ∧
    esl_vec_DLog2Validate v v.size tol = some (if log2Validate v.toList tol then 0 else 1) := by
  by_cases hz : v.size = 0
  · have e : v = #[] := Array.eq_empty_of_size_eq_zero hz
    subst e; exact ⟨rfl, rfl⟩
  · have h1 : ¬ ((v.size : Int) = 0) := by omega
    have h2 : v.toList.isEmpty = false := by
      rw [List.isEmpty_eq_false_iff]; intro e; apply hz; simpa using congrArg List.length e
    constructor
    · unfold esl_vec_DLogValidate logValidate
      simp only [bind, pure, h1, decide_false, Bool.false_eq_true, if_false, h2]
      exact logValidate_core hn ho v tol hz (fun w n => esl_vec_DExp w n) exp (fun w => gen_DExp w) (fun w n t => esl_vec_DValidate w n t)
        (fun w => gen_DValidate hn ho w tol)
    · unfold esl_vec_DLog2Validate log2Validate
      simp only [bind, pure, h1, decide_false, Bool.false_eq_true, if_false, h2]
      exact logValidate_core hn ho v tol hz (fun w n => esl_vec_DExp2 w n) exp2 (fun w => gen_DExp2 w) (fun w n t => esl_vec_DValidate w n t)
        (fun w => gen_DValidate hn ho w tol)

attribute [local instance] VMix.same
theorem copy_FD' : @esl_vec_FCopy = @esl_vec_DCopy := rfl
theorem gen_FLogValidate (hn : ∀ x : α, notProb x = (!(VFin.isFinite x) || lt x (ofNat 0) || lt (ofNat 1) x))
    (ho : ∀ s tol : α, offOne s tol = lt tol (VFin.abs (s - ofNat 1))) (v : Array α) (tol : α) :
    esl_vec_FLogValidate v v.size tol = some (if logValidate v.toList tol then 0 else 1) ∧
    esl_vec_FLog2Validate v v.size tol = some (if log2Validate v.toList tol then 0 else 1) := by
  by_cases hz : v.size = 0
  · have e : v = #[] := Array.eq_empty_of_size_eq_zero hz
    subst e; exact ⟨rfl, rfl⟩
  · have h1 : ¬ ((v.size : Int) = 0) := by omega
    have h2 : v.toList.isEmpty = false := by
      rw [List.isEmpty_eq_false_iff]; intro e; apply hz; simpa using congrArg List.length e
    constructor
    · unfold esl_vec_FLogValidate logValidate
      simp only [bind, pure, h1, decide_false, Bool.false_eq_true, if_false, h2, copy_FD']
      exact logValidate_core hn ho v tol hz (fun w n => esl_vec_FExp w n) exp (fun w => by rw [exp_FD]; exact gen_DExp w)
        (fun w n t => esl_vec_FValidate w n t) (fun w => gen_FValidate hn ho w tol)
    · unfold esl_vec_FLog2Validate log2Validate
      simp only [bind, pure, h1, decide_false, Bool.false_eq_true, if_false, h2, copy_FD']
      exact logValidate_core hn ho v tol hz (fun w n => esl_vec_FExp2 w n) exp2 (fun w => by rw [exp2_FD]; exact gen_DExp2 w)
        (fun w n t => esl_vec_FValidate w n t) (fun w => gen_FValidate hn ho w tol)
end logvalidate

/-! ## the conversion routines `esl_vec_D2F / F2D / I2F / I2D`: `dst[i] = src[i]` with C's implicit conversion, cell by cell -/
/-- a loop `dst[i] = f(src[i])` over a source of another cell type is `map f` -/
theorem loop_convert {α β : Type} (src : Array β) (dst : Array α) (hd : dst.size = src.size) (f : β → α) (body : Int → Array α → Option (Array α))
    (hb : ∀ (j : Nat) (a : Array α), j < src.size → body (0 + (j : Int)) a = (rd src j).bind fun x => wr a j (f x)) :
    ∃ r, loop 0 (src.size : Int) dst body = some r ∧ r.toList = src.toList.map f := by
  by_cases h0 : src.size = 0
  · have e : src = #[] := Array.eq_empty_of_size_eq_zero h0
    have e' : dst = #[] := Array.eq_empty_of_size_eq_zero (by omega)
    subst e; subst e'; exact ⟨#[], rfl, rfl⟩
  · have d : α := dst[0]'(by omega)
    refine (fun ⟨r, hr, hs, hP⟩ => ⟨r, hr, list_of_pointwise src r f (by omega) (fun k hk => by rw [hP k, if_pos (by omega), dif_pos hk])⟩)
      (loop_pointwise dst src.size (by omega) body (fun k => if h : k < src.size then f src[k] else d) ?_)
    intro j a hj hsz haj
    have e1 : src[j]? = some src[j] := by simp [hj]
    rw [hb j a hj, rd_nat, e1]; simp only [Option.bind_some, dif_pos hj]

theorem gen_D2F {α ω : Type} [CElem α] [VMix α ω] [VNum ω] (src : Array ω) (dst : Array α) (hd : dst.size = src.size) :
    ∃ r, esl_vec_D2F src src.size dst = some r ∧ r.toList = src.toList.map VMix.narrow := by
  unfold esl_vec_D2F; simp only [bind, pure]
  exact loop_convert src dst hd VMix.narrow _ (fun j a hj => by rw [zero_add_cast])
theorem gen_F2D {α ω : Type} [CElem α] [VMix α ω] [VNum ω] (src : Array α) (dst : Array ω) (hd : dst.size = src.size) :
    ∃ r, esl_vec_F2D src src.size dst = some r ∧ r.toList = src.toList.map VMix.widen := by
  unfold esl_vec_F2D; simp only [bind, pure]
  exact loop_convert src dst hd VMix.widen _ (fun j a hj => by rw [zero_add_cast])
theorem gen_I2F {α ι : Type} [CElem α] [VInt α ι] (src : Array ι) (dst : Array α) (hd : dst.size = src.size) :
    (∃ r, esl_vec_I2F src src.size dst = some r ∧ r.toList = src.toList.map VInt.ofInt) ∧
    (∃ r, esl_vec_I2D src src.size dst = some r ∧ r.toList = src.toList.map VInt.ofInt) := by
  constructor
  · unfold esl_vec_I2F; simp only [bind, pure]
    exact loop_convert src dst hd VInt.ofInt _ (fun j a hj => by rw [zero_add_cast])
  · unfold esl_vec_I2D; simp only [bind, pure]
    exact loop_convert src dst hd VInt.ofInt _ (fun j a hj => by rw [zero_add_cast])

end EaselModel.Vec
