import EaselModel.Vec.Real
import Mathlib.Analysis.SpecialFunctions.Log.Basic
import Mathlib.Analysis.SpecialFunctions.Pow.Real
import Mathlib.Order.WithBot
/-! # Log-space routines over the extended reals (C20, part C)

`LogSum`, `LogNorm` take log-probabilities, where `-∞` (= probability 0) is an ordinary input and `+∞`, NaN can arise.
`XR` is the reals with `-∞`, `+∞` and one NaN, with IEEE-754-like total operations; it instantiates the SAME model
functions of `Vec/Model.lean` that run against the C code at `Float`. -/
namespace EaselModel.Vec

inductive XR where
  | nan | ninf | fin (x : ℝ) | pinf

namespace XR
open Classical in
noncomputable def add : XR → XR → XR
  | fin a, fin b => fin (a + b)
  | ninf, ninf => ninf | ninf, fin _ => ninf | fin _, ninf => ninf
  | pinf, pinf => pinf | pinf, fin _ => pinf | fin _, pinf => pinf
  | _, _ => nan
def neg : XR → XR
  | fin a => fin (-a) | ninf => pinf | pinf => ninf | nan => nan
noncomputable def sub (a b : XR) : XR := add a (neg b)
open Classical in
noncomputable def mul : XR → XR → XR
  | fin a, fin b => fin (a * b)
  | fin a, pinf => if 0 < a then pinf else if a < 0 then ninf else nan
  | fin a, ninf => if 0 < a then ninf else if a < 0 then pinf else nan
  | pinf, fin a => if 0 < a then pinf else if a < 0 then ninf else nan
  | ninf, fin a => if 0 < a then ninf else if a < 0 then pinf else nan
  | pinf, pinf => pinf | ninf, ninf => pinf | pinf, ninf => ninf | ninf, pinf => ninf
  | _, _ => nan
open Classical in
noncomputable def div : XR → XR → XR
  | fin a, fin b => if b = 0 then (if 0 < a then pinf else if a < 0 then ninf else nan) else fin (a / b)
  | fin _, pinf => fin 0 | fin _, ninf => fin 0
  | _, _ => nan
open Classical in
noncomputable def lt : XR → XR → Bool
  | fin a, fin b => decide (a < b)
  | ninf, fin _ => true | ninf, pinf => true | fin _, pinf => true
  | _, _ => false
open Classical in
noncomputable def eq : XR → XR → Bool
  | fin a, fin b => decide (a = b) | pinf, pinf => true | ninf, ninf => true | _, _ => false
noncomputable def exp : XR → XR
  | fin a => fin (Real.exp a) | ninf => fin 0 | pinf => pinf | nan => nan
open Classical in
noncomputable def log : XR → XR
  | fin a => if 0 < a then fin (Real.log a) else if a = 0 then ninf else nan
  | pinf => pinf | _ => nan
noncomputable def exp2 : XR → XR
  | fin a => fin ((2 : ℝ) ^ a) | ninf => fin 0 | pinf => pinf | nan => nan
open Classical in
noncomputable def log2 : XR → XR
  | fin a => if 0 < a then fin (Real.logb 2 a) else if a = 0 then ninf else nan
  | pinf => pinf | _ => nan
end XR

/-- the window constant of `LogSum` (500 in the double routines, 50 in the float ones) -/
class Window where
  W : ℝ
  pos : 0 < W

open Classical in
/-- the extended-real instance, for a given window constant -/
noncomputable instance instVInfXR [Window] : VInf XR where
  lt := XR.lt
  add := XR.add
  sub := XR.sub
  mul := XR.mul
  div := XR.div
  ofNat n := XR.fin n
  eq := XR.eq
  log2 := XR.log2
  uniform n := XR.div (XR.fin 1) (XR.fin n)
  notProb x := match x with | XR.fin a => decide (a < 0 ∨ a > 1) | _ => true
  offOne s tol := match s, tol with | XR.fin a, XR.fin t => decide (|a - 1| > t) | XR.nan, _ => false | _, XR.nan => false | _, _ => true
  klAdd kl p q := XR.add kl (XR.mul p (XR.log2 (XR.div p q)))
  inf := XR.pinf
  neg := XR.neg
  exp := XR.exp
  log := XR.log
  exp2 := XR.exp2
  inWindow m x := XR.lt (XR.sub m (XR.fin Window.W)) x

section window
variable [Window]
local notation "W" => Window.W

/-- a log-probability: `-∞` or a real -/
def XR.isLogP : XR → Prop
  | XR.ninf => True | XR.fin _ => True | _ => False

/-- the finite entries of a vector -/
def finites : List XR → List ℝ
  | [] => []
  | XR.fin a :: xs => a :: finites xs
  | _ :: xs => finites xs

@[simp] theorem x_lt (a b : XR) : VOrd.lt a b = XR.lt a b := rfl
@[simp] theorem x_eq (a b : XR) : VNum.eq a b = XR.eq a b := rfl
@[simp] theorem x_ofNat (n : Nat) : (VNum.ofNat n : XR) = XR.fin n := rfl
@[simp] theorem x_inf : (VInf.inf : XR) = XR.pinf := rfl
@[simp] theorem x_exp (a : XR) : VInf.exp a = XR.exp a := rfl
@[simp] theorem x_log (a : XR) : VInf.log a = XR.log a := rfl
@[simp] theorem x_inWindow (m x : XR) : VInf.inWindow m x = XR.lt (XR.sub m (XR.fin W)) x := rfl
@[simp] theorem x_add (a b : XR) : a + b = XR.add a b := rfl
@[simp] theorem x_sub (a b : XR) : a - b = XR.sub a b := rfl

@[simp] theorem lt_nn : XR.lt XR.ninf XR.ninf = false := rfl
@[simp] theorem lt_nf (a : ℝ) : XR.lt XR.ninf (XR.fin a) = true := rfl
@[simp] theorem lt_fn (a : ℝ) : XR.lt (XR.fin a) XR.ninf = false := rfl
@[simp] theorem lt_ff (a b : ℝ) : XR.lt (XR.fin a) (XR.fin b) = decide (a < b) := rfl

/-- result of the `Max` loop on log-probabilities -/
theorem foldl_max_logp (xs : List XR) (b : XR) (hb : b.isLogP) (hxs : ∀ x ∈ xs, x.isLogP) :
    let r := xs.foldl (fun best y => if VOrd.lt best y then y else best) b
    (r = XR.ninf ∧ b = XR.ninf ∧ finites xs = []) ∨
    (∃ M, r = XR.fin M ∧ (b = XR.fin M ∨ M ∈ finites xs) ∧ (∀ a, b = XR.fin a → a ≤ M) ∧ ∀ a ∈ finites xs, a ≤ M) := by
  induction xs generalizing b with
  | nil =>
    cases b with
    | ninf => left; simp [finites]
    | fin a => right; exact ⟨a, by simp [finites]⟩
    | nan => exact absurd hb (by simp [XR.isLogP])
    | pinf => exact absurd hb (by simp [XR.isLogP])
  | cons x xs ih =>
    have hx : x.isLogP := hxs x List.mem_cons_self
    have hxs' : ∀ y ∈ xs, y.isLogP := fun y hy => hxs y (List.mem_cons_of_mem _ hy)
    simp only [List.foldl_cons, x_lt]
    cases b with
    | nan => exact absurd hb (by simp [XR.isLogP])
    | pinf => exact absurd hb (by simp [XR.isLogP])
    | ninf =>
      cases x with
      | nan => exact absurd hx (by simp [XR.isLogP])
      | pinf => exact absurd hx (by simp [XR.isLogP])
      | ninf =>
        simp only [lt_nn, Bool.false_eq_true, ↓reduceIte]
        rcases ih XR.ninf hb hxs' with h | ⟨M, h1, h2, h3, h4⟩
        · left; simpa [finites] using h
        · right
          refine ⟨M, h1, ?_, by simp, by simpa [finites] using h4⟩
          rcases h2 with h2 | h2
          · cases h2
          · right; simpa [finites] using h2
      | fin a =>
        simp only [lt_nf, ↓reduceIte]
        rcases ih (XR.fin a) hx hxs' with h | ⟨M, h1, h2, h3, h4⟩
        · exact absurd h.2.1 (by simp)
        · right
          refine ⟨M, h1, ?_, by simp, ?_⟩
          · right
            rcases h2 with h2 | h2
            · have : a = M := by injection h2
              simp [finites, this]
            · simp [finites, h2]
          · intro c hc
            simp only [finites, List.mem_cons] at hc
            rcases hc with hc | hc
            · rw [hc]; exact h3 a rfl
            · exact h4 c hc
    | fin b0 =>
      cases x with
      | nan => exact absurd hx (by simp [XR.isLogP])
      | pinf => exact absurd hx (by simp [XR.isLogP])
      | ninf =>
        simp only [lt_fn, Bool.false_eq_true, ↓reduceIte]
        rcases ih (XR.fin b0) hb hxs' with h | ⟨M, h1, h2, h3, h4⟩
        · exact absurd h.2.1 (by simp)
        · right; exact ⟨M, h1, by simpa [finites] using h2, h3, by simpa [finites] using h4⟩
      | fin a =>
        simp only [lt_ff]
        by_cases hlt : b0 < a
        · simp only [hlt, decide_true, ↓reduceIte]
          rcases ih (XR.fin a) hx hxs' with h | ⟨M, h1, h2, h3, h4⟩
          · exact absurd h.2.1 (by simp)
          · right
            have haM : a ≤ M := h3 a rfl
            refine ⟨M, h1, ?_, ?_, ?_⟩
            · right
              rcases h2 with h2 | h2
              · have : a = M := by injection h2
                simp [finites, this]
              · simp [finites, h2]
            · intro c hc
              have : b0 = c := by injection hc
              rw [← this]; exact le_trans (le_of_lt hlt) haM
            · intro c hc
              simp only [finites, List.mem_cons] at hc
              rcases hc with hc | hc
              · rw [hc]; exact haM
              · exact h4 c hc
        · simp only [hlt, decide_false, Bool.false_eq_true, ↓reduceIte]
          rcases ih (XR.fin b0) hb hxs' with h | ⟨M, h1, h2, h3, h4⟩
          · exact absurd h.2.1 (by simp)
          · right
            have hbM : b0 ≤ M := h3 b0 rfl
            refine ⟨M, h1, ?_, h3, ?_⟩
            · rcases h2 with h2 | h2
              · left; exact h2
              · right; simp [finites, h2]
            · intro c hc
              simp only [finites, List.mem_cons] at hc
              rcases hc with hc | hc
              · rw [hc]; exact le_trans (not_lt.mp hlt) hbM
              · exact h4 c hc

/-- `Max` on a non-empty vector of log-probabilities: `-∞` if every entry is `-∞`, else the largest finite entry -/
theorem vmax_logp (v : List XR) (hne : v ≠ []) (hv : ∀ x ∈ v, x.isLogP) :
    (vmax v = some XR.ninf ∧ finites v = []) ∨
    (∃ M, vmax v = some (XR.fin M) ∧ M ∈ finites v ∧ ∀ a ∈ finites v, a ≤ M) := by
  cases v with
  | nil => exact absurd rfl hne
  | cons b xs =>
    have hb := hv b List.mem_cons_self
    have hxs : ∀ y ∈ xs, y.isLogP := fun y hy => hv y (List.mem_cons_of_mem _ hy)
    rcases foldl_max_logp xs b hb hxs with ⟨h1, h2, h3⟩ | ⟨M, h1, h2, h3, h4⟩
    · left
      refine ⟨by simp only [vmax]; exact congrArg some h1, ?_⟩
      subst h2; simpa [finites] using h3
    · right
      refine ⟨M, by simp only [vmax]; exact congrArg some h1, ?_, ?_⟩
      · rcases h2 with h2 | h2
        · subst h2; simp [finites]
        · cases b <;> simp [finites, h2]
      · intro a ha
        cases b with
        | fin b0 =>
          simp only [finites, List.mem_cons] at ha
          rcases ha with ha | ha
          · rw [ha]; exact h3 b0 rfl
          · exact h4 a ha
        | ninf => exact h4 a (by simpa [finites] using ha)
        | nan => exact absurd hb (by simp [XR.isLogP])
        | pinf => exact absurd hb (by simp [XR.isLogP])

/-! ### LogSum -/
/-- the sum the code forms: terms within 500 log units of the maximum, shifted by the maximum -/
noncomputable def keptSum (M : ℝ) (l : List ℝ) : ℝ := ((l.filter fun a => decide (M - W < a)).map fun a => Real.exp (a - M)).sum
noncomputable def shiftedSum (M : ℝ) (l : List ℝ) : ℝ := (l.map fun a => Real.exp (a - M)).sum

theorem window_fold (M : ℝ) (xs : List XR) (hxs : ∀ x ∈ xs, x.isLogP) (c : ℝ) :
    xs.foldl (fun s x => if VInf.inWindow (XR.fin M) x then s + VInf.exp (x - XR.fin M) else s) (XR.fin c)
      = XR.fin (c + keptSum M (finites xs)) := by
  induction xs generalizing c with
  | nil => simp [keptSum, finites]
  | cons x xs ih =>
    have hx : x.isLogP := hxs x List.mem_cons_self
    have hxs' : ∀ y ∈ xs, y.isLogP := fun y hy => hxs y (List.mem_cons_of_mem _ hy)
    rw [List.foldl_cons]
    cases x with
    | nan => exact absurd hx (by simp [XR.isLogP])
    | pinf => exact absurd hx (by simp [XR.isLogP])
    | ninf =>
      have : VInf.inWindow (XR.fin M) XR.ninf = false := rfl
      simp only [this, Bool.false_eq_true, ↓reduceIte]
      rw [ih hxs' c]; simp [finites]
    | fin a =>
      have e1 : VInf.inWindow (XR.fin M) (XR.fin a) = decide (M + -W < a) := rfl
      have e2 : (XR.fin c + VInf.exp (XR.fin a - XR.fin M)) = XR.fin (c + Real.exp (a + -M)) := rfl
      rw [e1, e2]
      by_cases h : M - W < a
      · have h' : M + -W < a := by linarith
        simp only [h', decide_true, ↓reduceIte]
        rw [ih hxs' _]
        simp only [finites, keptSum, List.filter_cons, h, decide_true, ↓reduceIte, List.map_cons, List.sum_cons]
        congr 1; rw [show a + -M = a - M from by ring]; ring
      · have h' : ¬ M + -W < a := by intro hh; apply h; linarith
        simp only [h', decide_false, Bool.false_eq_true, ↓reduceIte]
        rw [ih hxs' _]
        simp [finites, keptSum, List.filter_cons, h]

theorem keptSum_nonneg (M : ℝ) (l : List ℝ) : 0 ≤ keptSum M l := by
  unfold keptSum
  apply List.sum_nonneg
  intro x hx
  simp only [List.mem_map] at hx
  obtain ⟨a, _, rfl⟩ := hx
  exact le_of_lt (Real.exp_pos _)

theorem keptSum_ge_one (M : ℝ) (l : List ℝ) (h : M ∈ l) : 1 ≤ keptSum M l := by
  induction l with
  | nil => cases h
  | cons a l ih =>
    unfold keptSum
    rcases List.mem_cons.mp h with e | e
    · subst e
      have : M - W < M := by linarith [Window.pos]
      simp only [List.filter_cons, this, decide_true, ↓reduceIte, List.map_cons, List.sum_cons, sub_self, Real.exp_zero]
      have := keptSum_nonneg M l
      unfold keptSum at this; linarith
    · have := ih e
      unfold keptSum at this
      by_cases hh : M - W < a
      · simp only [List.filter_cons, hh, decide_true, ↓reduceIte, List.map_cons, List.sum_cons]
        have := Real.exp_pos (a - M); linarith
      · simp only [List.filter_cons, hh, decide_false, Bool.false_eq_true, ↓reduceIte]; exact this

theorem shifted_bounds (M : ℝ) (l : List ℝ) :
    keptSum M l ≤ shiftedSum M l ∧ shiftedSum M l ≤ keptSum M l + l.length * Real.exp (-W) := by
  induction l with
  | nil => simp [keptSum, shiftedSum]
  | cons a l ih =>
    obtain ⟨h1, h2⟩ := ih
    unfold keptSum shiftedSum at *
    by_cases hh : M - W < a
    · simp only [List.filter_cons, hh, decide_true, ↓reduceIte, List.map_cons, List.sum_cons, List.length_cons, Nat.cast_add, Nat.cast_one]
      have := Real.exp_pos (-W : ℝ)
      constructor <;> nlinarith
    · simp only [List.filter_cons, hh, decide_false, Bool.false_eq_true, ↓reduceIte, List.map_cons, List.sum_cons, List.length_cons, Nat.cast_add, Nat.cast_one]
      have hle : Real.exp (a - M) ≤ Real.exp (-W) := Real.exp_le_exp.mpr (by linarith [not_lt.mp hh])
      have hpos := Real.exp_pos (a - M)
      constructor <;> nlinarith

theorem sum_exp_shift (M : ℝ) (l : List ℝ) : (l.map Real.exp).sum = Real.exp M * shiftedSum M l := by
  unfold shiftedSum
  induction l with
  | nil => simp
  | cons a l ih =>
    simp only [List.map_cons, List.sum_cons, ih, mul_add]
    congr 1
    rw [← Real.exp_add]; congr 1; ring

theorem finites_length_le (v : List XR) : (finites v).length ≤ v.length := by
  induction v with
  | nil => simp [finites]
  | cons x xs ih => cases x <;> simp [finites] <;> omega

/-- every entry `-∞` ↦ `-∞` (the code computes `log 0 + (-∞)`) -/
theorem logSum_all_ninf (v : List XR) (hne : v ≠ []) (hv : ∀ x ∈ v, x = XR.ninf) : logSum v = some XR.ninf := by
  have hv' : ∀ x ∈ v, x.isLogP := fun x hx => by rw [hv x hx]; trivial
  have hfin : finites v = [] := by
    clear hne hv'
    induction v with
    | nil => rfl
    | cons x xs ih =>
      have := hv x List.mem_cons_self
      subst this
      simpa [finites] using ih (fun y hy => hv y (List.mem_cons_of_mem _ hy))
  rcases vmax_logp v hne hv' with ⟨h1, _⟩ | ⟨M, _, h2, _⟩
  · unfold logSum
    rw [h1]
    have hfold : ∀ (xs : List XR), (∀ x ∈ xs, x = XR.ninf) → ∀ acc : XR,
        xs.foldl (fun s x => if VInf.inWindow XR.ninf x then s + VInf.exp (x - XR.ninf) else s) acc = acc := by
      intro xs
      induction xs with
      | nil => intros; rfl
      | cons x xs ih =>
        intro h acc
        have := h x List.mem_cons_self
        subst this
        rw [List.foldl_cons]
        have e : VInf.inWindow XR.ninf XR.ninf = false := rfl
        simp only [e, Bool.false_eq_true, ↓reduceIte]
        exact ih (fun y hy => h y (List.mem_cons_of_mem _ hy)) acc
    simp only [x_eq, x_inf, hfold v hv]
    have e1 : XR.eq XR.ninf XR.pinf = false := rfl
    simp only [e1, Bool.false_eq_true, ↓reduceIte, x_ofNat, x_log, x_add]
    have e2 : XR.log (XR.fin ((0 : Nat) : ℝ)) = XR.ninf := by simp [XR.log]
    rw [e2]; rfl
  · rw [hfin] at h2; cases h2

/-- `LogSum` on log-probabilities with at least one finite entry: a real number within `n·e^{-500}` of `log Σ exp` taken over
    the finite entries (`-∞` entries contribute probability 0) -/
theorem logSum_spec (v : List XR) (hv : ∀ x ∈ v, x.isLogP) (hfin : finites v ≠ []) :
    ∃ r : ℝ, logSum v = some (XR.fin r) ∧
      |r - Real.log ((finites v).map Real.exp).sum| ≤ v.length * Real.exp (-W) := by
  have hne : v ≠ [] := by rintro rfl; exact hfin rfl
  rcases vmax_logp v hne hv with ⟨_, h2⟩ | ⟨M, h1, h2, h3⟩
  · exact absurd h2 hfin
  · have hk1 := keptSum_ge_one M (finites v) h2
    have hkpos : 0 < keptSum M (finites v) := by linarith
    obtain ⟨hb1, hb2⟩ := shifted_bounds M (finites v)
    have hSpos : 0 < shiftedSum M (finites v) := by linarith
    refine ⟨Real.log (keptSum M (finites v)) + M, ?_, ?_⟩
    · unfold logSum
      rw [h1]
      have e1 : VNum.eq (XR.fin M) (VInf.inf : XR) = false := rfl
      simp only [e1, Bool.false_eq_true, ↓reduceIte, x_ofNat]
      rw [window_fold M v hv]
      simp only [Nat.cast_zero, zero_add, x_log, x_add]
      have : XR.log (XR.fin (keptSum M (finites v))) = XR.fin (Real.log (keptSum M (finites v))) := by
        simp [XR.log, hkpos]
      rw [this]; rfl
    · rw [sum_exp_shift M, Real.log_mul (ne_of_gt (Real.exp_pos M)) (ne_of_gt hSpos), Real.log_exp]
      have hlog_le : Real.log (keptSum M (finites v)) ≤ Real.log (shiftedSum M (finites v)) := Real.log_le_log hkpos hb1
      have hdiff : Real.log (shiftedSum M (finites v)) - Real.log (keptSum M (finites v)) ≤ (finites v).length * Real.exp (-W) := by
        rw [← Real.log_div (ne_of_gt hSpos) (ne_of_gt hkpos)]
        have hq : shiftedSum M (finites v) / keptSum M (finites v) ≤ 1 + (finites v).length * Real.exp (-W) := by
          rw [div_le_iff₀ hkpos]
          have hnn : 0 ≤ ((finites v).length : ℝ) * Real.exp (-W) := mul_nonneg (Nat.cast_nonneg _) (le_of_lt (Real.exp_pos _))
          nlinarith
        have hqpos : 0 < shiftedSum M (finites v) / keptSum M (finites v) := div_pos hSpos hkpos
        have := Real.log_le_sub_one_of_pos hqpos
        linarith
      have hlen : ((finites v).length : ℝ) ≤ v.length := by exact_mod_cast finites_length_le v
      have hep := Real.exp_pos (-W : ℝ)
      rw [abs_le]
      constructor <;> nlinarith

/-- a `+∞` entry ↦ `+∞` (the guard against `inf - inf`) -/
theorem logSum_of_max_pinf (v : List XR) (h : vmax v = some XR.pinf) : logSum v = some XR.pinf := by
  unfold logSum; rw [h]; rfl

/-! ### LogNorm: exact normalisation (softmax) over the reals -/
@[simp] theorem x_mul (a b : XR) : a * b = XR.mul a b := rfl
@[simp] theorem x_div (a b : XR) : a / b = XR.div a b := rfl
@[simp] theorem x_neg (a : XR) : VInf.neg a = XR.neg a := rfl

theorem kahan_fold_fin (l : List ℝ) (s : ℝ) :
    (l.map XR.fin).foldl kahanStep (XR.fin s, XR.fin 0) = (XR.fin (s + l.sum), XR.fin 0) := by
  induction l generalizing s with
  | nil => simp
  | cons x xs ih =>
    have h : kahanStep (XR.fin s, XR.fin 0) (XR.fin x) = (XR.fin (s + x), XR.fin 0) := by
      simp only [kahanStep, x_sub, x_add, XR.sub, XR.neg, XR.add]
      ext
      · simp
      · simp only [XR.fin.injEq]; ring
    rw [List.map_cons, List.foldl_cons, h, ih, List.sum_cons]; simp only [Prod.mk.injEq, XR.fin.injEq, and_true]; ring

theorem sum_fin (l : List ℝ) : sum (l.map XR.fin) = XR.fin l.sum := by
  unfold sum
  have := kahan_fold_fin l 0
  simp only [x_ofNat, Nat.cast_zero] at *
  rw [this]; simp

theorem norm_fin (l : List ℝ) (h : l.sum ≠ 0) : norm (l.map XR.fin) = (l.map (· / l.sum)).map XR.fin := by
  unfold norm
  simp only [sum_fin, x_eq, x_ofNat, Nat.cast_zero]
  have : XR.eq (XR.fin l.sum) (XR.fin 0) = false := by simp [XR.eq, h]
  simp only [this, Bool.not_false, ↓reduceIte, List.map_map]
  apply List.map_congr_left
  intro a _
  simp [XR.div, h]

/-- probabilities `exp (x - r)` of log-probabilities (`-∞ ↦ 0`) -/
noncomputable def expShift (r : ℝ) : XR → ℝ
  | XR.fin a => Real.exp (a - r) | _ => 0

/-- exact normalisation: `exp x_i / Σ_j exp x_j` (`-∞ ↦ 0`) -/
noncomputable def softmax (v : List XR) : List ℝ :=
  v.map fun x => match x with | XR.fin a => Real.exp a / ((finites v).map Real.exp).sum | _ => 0

theorem expShift_sum (r : ℝ) (v : List XR) (hv : ∀ x ∈ v, x.isLogP) :
    (v.map (expShift r)).sum = Real.exp (-r) * ((finites v).map Real.exp).sum := by
  induction v with
  | nil => simp [finites]
  | cons x xs ih =>
    have hxs : ∀ y ∈ xs, y.isLogP := fun y hy => hv y (List.mem_cons_of_mem _ hy)
    cases x with
    | fin a =>
      simp only [List.map_cons, List.sum_cons, finites, ih hxs, expShift, mul_add]
      congr 1; rw [← Real.exp_add]; congr 1; ring
    | ninf => simp [finites, expShift, ih hxs]
    | nan => exact absurd (hv _ List.mem_cons_self) (by simp [XR.isLogP])
    | pinf => exact absurd (hv _ List.mem_cons_self) (by simp [XR.isLogP])

theorem exp_increment (r : ℝ) (v : List XR) (hv : ∀ x ∈ v, x.isLogP) :
    vexp (increment v (VInf.neg (VNum.ofNat 1) * XR.fin r)) = (v.map (expShift r)).map XR.fin := by
  unfold vexp increment
  rw [List.map_map, List.map_map]
  apply List.map_congr_left
  intro x hx
  have hxr : (VInf.neg (VNum.ofNat 1 : XR) * XR.fin r) = XR.fin (-((1 : Nat) : ℝ) * r) := rfl
  cases x with
  | fin a =>
    simp only [Function.comp, hxr, x_add, XR.add, x_exp, XR.exp, expShift, XR.fin.injEq]
    congr 1; push_cast; ring
  | ninf => simp only [Function.comp, hxr, x_add, XR.add, x_exp, XR.exp, expShift]
  | nan => exact absurd (hv _ hx) (by simp [XR.isLogP])
  | pinf => exact absurd (hv _ hx) (by simp [XR.isLogP])

theorem finites_sum_pos (v : List XR) (h : finites v ≠ []) : 0 < ((finites v).map Real.exp).sum := by
  cases hf : finites v with
  | nil => exact absurd hf h
  | cons a l =>
    simp only [List.map_cons, List.sum_cons]
    have : 0 ≤ (l.map Real.exp).sum := List.sum_nonneg (by
      intro x hx; simp only [List.mem_map] at hx; obtain ⟨y, _, rfl⟩ := hx; exact le_of_lt (Real.exp_pos y))
    linarith [Real.exp_pos a]

/-- `LogNorm` returns exactly `exp x_i / Σ_j exp x_j` over the reals (independently of the rounding of the intermediate
    log-sum), `-∞` entries give probability 0, and the result sums to 1 -/
theorem logNorm_spec (v : List XR) (hv : ∀ x ∈ v, x.isLogP) (hfin : finites v ≠ []) :
    logNorm v = some ((softmax v).map XR.fin) ∧ (softmax v).sum = 1 := by
  obtain ⟨r, hr, _⟩ := logSum_spec v hv hfin
  have hT := finites_sum_pos v hfin
  have hS : (v.map (expShift r)).sum ≠ 0 := by
    rw [expShift_sum r v hv]; exact ne_of_gt (mul_pos (Real.exp_pos _) hT)
  have hsoft : softmax v = (v.map (expShift r)).map (· / (v.map (expShift r)).sum) := by
    unfold softmax
    rw [List.map_map]
    apply List.map_congr_left
    intro x _
    rw [expShift_sum r v hv]
    cases x with
    | fin a =>
      simp only [Function.comp, expShift]
      rw [Real.exp_sub, Real.exp_neg]
      field_simp
    | ninf => simp [expShift]
    | nan => simp [expShift]
    | pinf => simp [expShift]
  constructor
  · unfold logNorm
    rw [hr]
    simp only [Option.map_some, exp_increment r v hv, norm_fin _ hS, hsoft]
  · rw [hsoft, sum_map_div, div_self hS]

/-! ### Log2Sum (base 2) -/
@[simp] theorem x_exp2 (a : XR) : VInf.exp2 a = XR.exp2 a := rfl
@[simp] theorem x_log2 (a : XR) : VNum.log2 a = XR.log2 a := rfl

noncomputable def keptSum2 (M : ℝ) (l : List ℝ) : ℝ := ((l.filter fun a => decide (M - W < a)).map fun a => (2 : ℝ) ^ (a - M)).sum
noncomputable def shiftedSum2 (M : ℝ) (l : List ℝ) : ℝ := (l.map fun a => (2 : ℝ) ^ (a - M)).sum

theorem two_rpow_pos (t : ℝ) : 0 < (2 : ℝ) ^ t := Real.rpow_pos_of_pos (by norm_num) t

theorem window_fold2 (M : ℝ) (xs : List XR) (hxs : ∀ x ∈ xs, x.isLogP) (c : ℝ) :
    xs.foldl (fun s x => if VInf.inWindow (XR.fin M) x then s + VInf.exp2 (x - XR.fin M) else s) (XR.fin c)
      = XR.fin (c + keptSum2 M (finites xs)) := by
  induction xs generalizing c with
  | nil => simp [keptSum2, finites]
  | cons x xs ih =>
    have hx : x.isLogP := hxs x List.mem_cons_self
    have hxs' : ∀ y ∈ xs, y.isLogP := fun y hy => hxs y (List.mem_cons_of_mem _ hy)
    rw [List.foldl_cons]
    cases x with
    | nan => exact absurd hx (by simp [XR.isLogP])
    | pinf => exact absurd hx (by simp [XR.isLogP])
    | ninf =>
      have : VInf.inWindow (XR.fin M) XR.ninf = false := rfl
      simp only [this, Bool.false_eq_true, ↓reduceIte]
      rw [ih hxs' c]; simp [finites]
    | fin a =>
      have e1 : VInf.inWindow (XR.fin M) (XR.fin a) = decide (M + -W < a) := rfl
      have e2 : (XR.fin c + VInf.exp2 (XR.fin a - XR.fin M)) = XR.fin (c + (2 : ℝ) ^ (a + -M)) := rfl
      rw [e1, e2]
      by_cases h : M - W < a
      · have h' : M + -W < a := by linarith
        simp only [h', decide_true, ↓reduceIte]
        rw [ih hxs' _]
        simp only [finites, keptSum2, List.filter_cons, h, decide_true, ↓reduceIte, List.map_cons, List.sum_cons]
        congr 1; rw [show a + -M = a - M from by ring]; ring
      · have h' : ¬ M + -W < a := by intro hh; apply h; linarith
        simp only [h', decide_false, Bool.false_eq_true, ↓reduceIte]
        rw [ih hxs' _]
        simp [finites, keptSum2, h]

theorem keptSum2_nonneg (M : ℝ) (l : List ℝ) : 0 ≤ keptSum2 M l := by
  unfold keptSum2
  apply List.sum_nonneg
  intro x hx
  simp only [List.mem_map] at hx
  obtain ⟨a, _, rfl⟩ := hx
  exact le_of_lt (two_rpow_pos _)

theorem keptSum2_ge_one (M : ℝ) (l : List ℝ) (h : M ∈ l) : 1 ≤ keptSum2 M l := by
  induction l with
  | nil => cases h
  | cons a l ih =>
    unfold keptSum2
    rcases List.mem_cons.mp h with e | e
    · subst e
      have : M - W < M := by linarith [Window.pos]
      simp only [List.filter_cons, this, decide_true, ↓reduceIte, List.map_cons, List.sum_cons, sub_self, Real.rpow_zero]
      have := keptSum2_nonneg M l
      unfold keptSum2 at this; linarith
    · have := ih e
      unfold keptSum2 at this
      by_cases hh : M - W < a
      · simp only [List.filter_cons, hh, decide_true, ↓reduceIte, List.map_cons, List.sum_cons]
        have := two_rpow_pos (a - M); linarith
      · simp only [List.filter_cons, hh, decide_false, Bool.false_eq_true, ↓reduceIte]; exact this

theorem shifted_bounds2 (M : ℝ) (l : List ℝ) :
    keptSum2 M l ≤ shiftedSum2 M l ∧ shiftedSum2 M l ≤ keptSum2 M l + l.length * (2 : ℝ) ^ (-W : ℝ) := by
  induction l with
  | nil => simp [keptSum2, shiftedSum2]
  | cons a l ih =>
    obtain ⟨h1, h2⟩ := ih
    unfold keptSum2 shiftedSum2 at *
    by_cases hh : M - W < a
    · simp only [List.filter_cons, hh, decide_true, ↓reduceIte, List.map_cons, List.sum_cons, List.length_cons, Nat.cast_add, Nat.cast_one]
      have := two_rpow_pos (-W : ℝ)
      constructor <;> nlinarith
    · simp only [List.filter_cons, hh, decide_false, Bool.false_eq_true, ↓reduceIte, List.map_cons, List.sum_cons, List.length_cons, Nat.cast_add, Nat.cast_one]
      have hle : (2 : ℝ) ^ (a - M) ≤ (2 : ℝ) ^ (-W : ℝ) :=
        Real.rpow_le_rpow_of_exponent_le (by norm_num) (by linarith [not_lt.mp hh])
      have hpos := two_rpow_pos (a - M)
      constructor <;> nlinarith

theorem sum_exp2_shift (M : ℝ) (l : List ℝ) : (l.map fun a => (2 : ℝ) ^ a).sum = (2 : ℝ) ^ M * shiftedSum2 M l := by
  unfold shiftedSum2
  induction l with
  | nil => simp
  | cons a l ih =>
    simp only [List.map_cons, List.sum_cons, ih, mul_add]
    congr 1
    rw [← Real.rpow_add (by norm_num : (0 : ℝ) < 2)]; congr 1; ring

/-- `Log2Sum` on log2-probabilities with a finite entry: within `n·2^{-500}/ln 2` of `log2 Σ 2^{x_i}` over the finite entries -/
theorem log2Sum_spec (v : List XR) (hv : ∀ x ∈ v, x.isLogP) (hfin : finites v ≠ []) :
    ∃ r : ℝ, log2Sum v = some (XR.fin r) ∧
      |r - Real.logb 2 ((finites v).map fun a => (2 : ℝ) ^ a).sum| ≤ v.length * (2 : ℝ) ^ (-W : ℝ) / Real.log 2 := by
  have hne : v ≠ [] := by rintro rfl; exact hfin rfl
  rcases vmax_logp v hne hv with ⟨_, h2⟩ | ⟨M, h1, h2, h3⟩
  · exact absurd h2 hfin
  · have hk1 := keptSum2_ge_one M (finites v) h2
    have hkpos : 0 < keptSum2 M (finites v) := by linarith
    obtain ⟨hb1, hb2⟩ := shifted_bounds2 M (finites v)
    have hSpos : 0 < shiftedSum2 M (finites v) := by linarith
    have hl2 : 0 < Real.log 2 := Real.log_pos (by norm_num)
    refine ⟨Real.logb 2 (keptSum2 M (finites v)) + M, ?_, ?_⟩
    · unfold log2Sum
      rw [h1]
      have e1 : VNum.eq (XR.fin M) (VInf.inf : XR) = false := rfl
      simp only [e1, Bool.false_eq_true, ↓reduceIte, x_ofNat]
      rw [window_fold2 M v hv]
      simp only [Nat.cast_zero, zero_add, x_log2, x_add]
      have : XR.log2 (XR.fin (keptSum2 M (finites v))) = XR.fin (Real.logb 2 (keptSum2 M (finites v))) := by
        simp [XR.log2, hkpos]
      rw [this]; rfl
    · rw [sum_exp2_shift M, Real.logb_mul (ne_of_gt (two_rpow_pos M)) (ne_of_gt hSpos),
        Real.logb_rpow (by norm_num) (by norm_num)]
      have hlog_le : Real.log (keptSum2 M (finites v)) ≤ Real.log (shiftedSum2 M (finites v)) := Real.log_le_log hkpos hb1
      have hdiff : Real.log (shiftedSum2 M (finites v)) - Real.log (keptSum2 M (finites v)) ≤ (finites v).length * (2 : ℝ) ^ (-W : ℝ) := by
        rw [← Real.log_div (ne_of_gt hSpos) (ne_of_gt hkpos)]
        have hq : shiftedSum2 M (finites v) / keptSum2 M (finites v) ≤ 1 + (finites v).length * (2 : ℝ) ^ (-W : ℝ) := by
          rw [div_le_iff₀ hkpos]
          have hnn : 0 ≤ ((finites v).length : ℝ) * (2 : ℝ) ^ (-W : ℝ) := mul_nonneg (Nat.cast_nonneg _) (le_of_lt (two_rpow_pos _))
          nlinarith
        have hqpos : 0 < shiftedSum2 M (finites v) / keptSum2 M (finites v) := div_pos hSpos hkpos
        have := Real.log_le_sub_one_of_pos hqpos
        linarith
      have hlen : ((finites v).length : ℝ) ≤ v.length := by exact_mod_cast finites_length_le v
      have hep := two_rpow_pos (-W : ℝ)
      have hbound : Real.log (shiftedSum2 M (finites v)) - Real.log (keptSum2 M (finites v)) ≤ v.length * (2 : ℝ) ^ (-W : ℝ) := by nlinarith
      have e : Real.logb 2 (keptSum2 M (finites v)) + M - (M + Real.logb 2 (shiftedSum2 M (finites v)))
          = -((Real.log (shiftedSum2 M (finites v)) - Real.log (keptSum2 M (finites v))) / Real.log 2) := by
        simp only [Real.logb]; field_simp; ring
      rw [e, abs_neg, abs_of_nonneg (div_nonneg (by linarith) (le_of_lt hl2))]
      exact div_le_div_of_nonneg_right hbound (le_of_lt hl2)

end window

end EaselModel.Vec
