import EaselModel.Vec.Real
import EaselModel.Vec.GenFloat
/-! # The regenerated `esl_vec_{D,F}CDF` over the reals (C20, part C): element `k` of the output is the sum of the first `k+1` inputs,
    into separate storage and in place (`cdf == p`); faults exactly on the empty vector (it reads `p[0]` unconditionally). -/
namespace EaselModel.Vec
open Gen

theorem sum_take_succ_real (l : List ℝ) (k : Nat) (h : k < l.length) : (l.take (k + 1)).sum = l[k] + (l.take k).sum := by
  rw [List.take_succ_eq_append_getElem h, List.sum_append]; simp [add_comm]

theorem gen_dcdf_real (p c : Array ℝ) (hc : c.size = p.size) (h : p.size ≠ 0) :
    ∃ r, esl_vec_DCDF p p.size c = some r ∧ r.size = p.size ∧ ∀ k, k < p.size → r[k]? = some ((p.toList.take (k + 1)).sum) := by
  unfold esl_vec_DCDF
  have hpos : 0 < p.size := Nat.pos_of_ne_zero h
  have e0 : rd p 0 = some p[0] := rd_lt p 0 hpos
  have w0 : wr c 0 p[0] = some (c.set 0 p[0] (by omega)) := wr_lt c 0 _ (by omega)
  simp only [bind, pure, e0, Option.bind_some, w0]
  obtain ⟨r, hr, hP⟩ := loop_inv 1 (p.size : Int)
    (fun i (a : Array ℝ) => (rd p i).bind fun t2 => (rd a (i - 1)).bind fun t3 => (CElem.add t2 t3).bind fun t4 => wr a i t4)
    (fun j a => a.size = p.size ∧ ∀ k, k ≤ j → k < p.size → a[k]? = some ((p.toList.take (k + 1)).sum))
    (c.set 0 p[0] (by omega)) ⟨by simp [hc], fun k hk hk2 => by
      have : k = 0 := by omega
      subst this
      simp [List.take_one, List.head?_eq_getElem?, hpos]⟩ (by
      intro j a hj ⟨hsz, hP⟩
      have hj1 : j + 1 < p.size := by omega
      have i1 : (1 : Int) + (j : Int) = ((j + 1 : Nat) : Int) := by omega
      have i2 : ((j + 1 : Nat) : Int) - 1 = ((j : Nat) : Int) := by omega
      have ep : p[j + 1]? = some p[j + 1] := by simp [hj1]
      rw [i1, i2, rd_nat, rd_nat, ep, hP j (Nat.le_refl _) (by omega)]
      simp only [Option.bind_some]
      have ea : CElem.add p[j + 1] (p.toList.take (j + 1)).sum = some (p[j + 1] + (p.toList.take (j + 1)).sum) := rfl
      rw [ea, Option.bind_some, wr_lt a (j + 1) _ (by omega)]
      refine ⟨_, rfl, by simp [hsz], ?_⟩
      intro k hk hk2
      rw [Array.getElem?_set]
      by_cases e : j + 1 = k
      · subst e
        simp only [if_true]
        rw [sum_take_succ_real p.toList (j + 1) (by simpa using hj1)]
        simp
      · simp only [e, if_false]
        exact hP k (by omega) hk2)
  have hn : ((p.size : Int) - 1).toNat = p.size - 1 := by omega
  rw [hn] at hP
  exact ⟨r, hr, hP.1, fun k hk => hP.2 k (by omega) hk⟩

theorem gen_dcdf_inplace_real (p : Array ℝ) (h : p.size ≠ 0) :
    ∃ r, esl_vec_DCDF_inplace p p.size = some r ∧ r.size = p.size ∧ ∀ k, k < p.size → r[k]? = some ((p.toList.take (k + 1)).sum) := by
  unfold esl_vec_DCDF_inplace
  have hpos : 0 < p.size := Nat.pos_of_ne_zero h
  have e0 : rd p 0 = some p[0] := rd_lt p 0 hpos
  have w0 : wr p 0 p[0] = some (p.set 0 p[0] (by omega)) := wr_lt p 0 _ (by omega)
  simp only [bind, pure, e0, Option.bind_some, w0]
  obtain ⟨r, hr, hP⟩ := loop_inv 1 (p.size : Int)
    (fun i (a : Array ℝ) => (rd a i).bind fun t2 => (rd a (i - 1)).bind fun t3 => (CElem.add t2 t3).bind fun t4 => wr a i t4)
    (fun j a => a.size = p.size ∧ ∀ k, k < p.size → a[k]? = if k ≤ j then some ((p.toList.take (k + 1)).sum) else p[k]?)
    (p.set 0 p[0] (by omega)) ⟨by simp, fun k hk => by
      rw [Array.getElem?_set]
      by_cases e : 0 = k
      · subst e; simp [List.take_one, List.head?_eq_getElem?, hpos]
      · simp only [e, if_false]; rw [if_neg (by omega)]⟩ (by
      intro j a hj ⟨hsz, hP⟩
      have hj1 : j + 1 < p.size := by omega
      have i1 : (1 : Int) + (j : Int) = ((j + 1 : Nat) : Int) := by omega
      have i2 : ((j + 1 : Nat) : Int) - 1 = ((j : Nat) : Int) := by omega
      have ep : a[j + 1]? = some p[j + 1] := by rw [hP (j + 1) hj1, if_neg (by omega)]; simp [hj1]
      have eq' : a[j]? = some ((p.toList.take (j + 1)).sum) := by rw [hP j (by omega), if_pos (Nat.le_refl _)]
      rw [i1, i2, rd_nat, rd_nat, ep, eq']
      simp only [Option.bind_some]
      have ea : CElem.add p[j + 1] (p.toList.take (j + 1)).sum = some (p[j + 1] + (p.toList.take (j + 1)).sum) := rfl
      rw [ea, Option.bind_some, wr_lt a (j + 1) _ (by omega)]
      refine ⟨_, rfl, by simp [hsz], ?_⟩
      intro k hk
      rw [Array.getElem?_set]
      by_cases e : j + 1 = k
      · subst e
        simp only [if_true, Nat.le_refl]
        rw [sum_take_succ_real p.toList (j + 1) (by simpa using hj1)]
        simp
      · simp only [e, if_false]
        rw [hP k hk]
        by_cases c : k ≤ j
        · rw [if_pos c, if_pos (by omega)]
        · rw [if_neg c, if_neg (by omega)])
  have hn : ((p.size : Int) - 1).toNat = p.size - 1 := by omega
  rw [hn] at hP
  exact ⟨r, hr, hP.1, fun k hk => by rw [hP.2 k hk, if_pos (by omega)]⟩

theorem cdf_FD : @esl_vec_FCDF = @esl_vec_DCDF := rfl
theorem cdfip_FD : @esl_vec_FCDF_inplace = @esl_vec_DCDF_inplace := rfl

end EaselModel.Vec
