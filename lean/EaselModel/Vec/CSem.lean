import EaselModel.Vec.Model
/-! # C semantics kit for the REGENERATED vector routines (`Generated/VectorOps.lean`, translate/vec2lean.py)   (C20, part C)

* arrays are `Array α`; every access is bounds-checked: out of bounds = `none` = fault (ASan on the C side);
* element operations may fault: `int` / `int64_t` addition, subtraction, multiplication are `none` on signed overflow (undefined
  behaviour in C; UBSan aborts the C side), and total for `double` / `float` (any `VNum` type: `Float`, `Float32`, `ℝ`, …);
* index arithmetic is on `Int`; a counted loop `for (i = lo; i < hi; i++)` is `loop lo hi state body`.
Core Lean only (the driver imports this file). -/
namespace EaselModel.Vec

/-- element type of a vector routine, with the operations as C performs them (`none` = undefined behaviour) -/
class CElem (α : Type) extends VOrd α where
  /-- an integer-valued literal (`0`, `0.`, `1.`) converted to the element type -/
  ofNat : Nat → α
  add : α → α → Option α
  sub : α → α → Option α
  mul : α → α → Option α
  /-- C `==` -/
  eq : α → α → Bool

/-- `a[i]` as an rvalue -/
def rd {α : Type} (a : Array α) (i : Int) : Option α := if 0 ≤ i then a[i.toNat]? else none
/-- `a[i] = v` -/
def wr {α : Type} (a : Array α) (i : Int) (v : α) : Option (Array α) :=
  if 0 ≤ i ∧ i.toNat < a.size then some (a.setIfInBounds i.toNat v) else none
/-- `for (i = lo; i < hi; i++) s = body i s` -/
def loop {σ : Type} (lo hi : Int) (s : σ) (f : Int → σ → Option σ) : Option σ :=
  (List.range (hi - lo).toNat).foldlM (fun s (k : Nat) => f (lo + (k : Int)) s) s

/-- a search loop `for (i = lo; i < hi; i++) if (c i) return …;` : was the early return taken?  Iterations after the first hit are not
    executed (they cannot fault); `none` = a fault while evaluating `c` before any hit -/
def loopAny (lo hi : Int) (c : Int → Option Bool) : Option Bool :=
  (List.range (hi - lo).toNat).foldlM (fun (found : Bool) (k : Nat) => if found then some true else c (lo + (k : Int))) false

/-- a counted loop whose body may `return e;` (`Sum.inl e`: iterations after it are not executed, they cannot fault) or carry its state
    on (`Sum.inr s`) -/
def loopRet {σ ρ : Type} (lo hi : Int) (s : σ) (f : Int → σ → Option (ρ ⊕ σ)) : Option (ρ ⊕ σ) :=
  loop lo hi (Sum.inr s) fun i acc => match acc with
    | Sum.inl r => some (Sum.inl r)
    | Sum.inr s => f i s

/-- `ESL_ALLOC(p, sizeof(T) * n)`: a fresh array of `n` cells (contents unspecified in C: the translated callers overwrite every cell
    before reading it; the model fills it with `d`).  `n <= 0` is outside the macro's domain (it raises an exception): `none`.
    A failed `malloc` is not modelled. -/
def allocM {α : Type} (n : Int) (d : α) : Option (Array α) := if 0 < n then some (Array.replicate n.toNat d) else none

/-- libc `qsort (a, n, sizeof (T), cmp)`: the first `n` cells are rearranged into an arrangement ordered by `cmp` (modelled by a
    merge sort: for a comparator that is a total preorder the ordered arrangement is unique up to the order of equal keys) -/
def qsortM {α : Type} (a : Array α) (n : Int) (cmp : α → α → Int) : Option (Array α) :=
  if 0 ≤ n ∧ n.toNat ≤ a.size then
    some (((a.extract 0 n.toNat).toList.mergeSort fun x y => decide (cmp x y ≤ 0)).toArray ++ a.extract n.toNat a.size)
  else none

/-- result of a translated routine as the driver sees it: returned element / returned index / arrays written (parameter order) -/
structure Res (α : Type) where
  e : Option α
  i : Option Int
  arrs : List (Array α)

/-- the floating types: every operation is total -/
instance (priority := low) instCElemOfVNum {α : Type} [VNum α] : CElem α where
  ofNat := VNum.ofNat
  add a b := some (a + b)
  sub a b := some (a - b)
  mul a b := some (a * b)
  eq := VNum.eq

/-- `some r` when `lo ≤ r ≤ hi` (the result is representable), else `none` -/
def checked {α : Type} (lo hi : Int) (mk : Int → α) (r : Int) : Option α := if lo ≤ r ∧ r ≤ hi then some (mk r) else none

/-- C `int` -/
instance instCElemInt32 : CElem Int32 where
  lt a b := decide (a < b)
  ofNat n := Int32.ofNat n
  add a b := checked (-2147483648) 2147483647 Int32.ofInt (a.toInt + b.toInt)
  sub a b := checked (-2147483648) 2147483647 Int32.ofInt (a.toInt - b.toInt)
  mul a b := checked (-2147483648) 2147483647 Int32.ofInt (a.toInt * b.toInt)
  eq a b := a == b

/-- C `int64_t` -/
instance instCElemInt64 : CElem Int64 where
  lt a b := decide (a < b)
  ofNat n := Int64.ofNat n
  add a b := checked (-9223372036854775808) 9223372036854775807 Int64.ofInt (a.toInt + b.toInt)
  sub a b := checked (-9223372036854775808) 9223372036854775807 Int64.ofInt (a.toInt - b.toInt)
  mul a b := checked (-9223372036854775808) 9223372036854775807 Int64.ofInt (a.toInt * b.toInt)
  eq a b := a == b

/-- what gcc on x86-64 computes where ISO C leaves the integer element types open: `+ - *` wrap around at the element width (two's
    complement; undefined behaviour in ISO C, UBSan aborts the C side) and the conversion to `int` keeps the low 32 bits
    (implementation-defined).  The translator uses it ONLY for an integer-typed expression returned as `int`, i.e. the comparator idiom
    `return x1 - x2;` — which the present source does not contain: the three-way `if` comparators need none of this. -/
class CWrap (α : Type) where
  wadd : α → α → α
  wsub : α → α → α
  wmul : α → α → α
  toCInt : α → Int
instance : CWrap Int32 := ⟨(· + ·), (· - ·), (· * ·), Int32.toInt⟩
instance : CWrap Int64 := ⟨(· + ·), (· - ·), (· * ·), fun x => x.toInt32.toInt⟩

/-- a `float` routine whose C text evaluates some sub-expressions in `double` (the usual arithmetic conversions: `vec[i] > max - 50.`,
    `1. / (float) n`, `-1.*denom`, `sum != 0.0`): `ω` is the type those sub-expressions are evaluated in; `widen` is the exact conversion
    `(double) x`, `narrow` the rounding conversion `(float) d`.  Binary32 code runs at `VMix Float32 Float`; over the reals (and the
    extended reals) both types coincide and both conversions are the identity (`VMix.same`). -/
class VMix (α : Type) (ω : outParam Type) where
  widen : α → ω
  narrow : ω → α
instance : VMix Float32 Float := ⟨Float32.toFloat, Float.toFloat32⟩
/-- exact arithmetic: one type, no rounding between `float` and `double` -/
@[reducible] def VMix.same (α : Type) : VMix α α := ⟨id, id⟩

/-- `isfinite(x)` and `fabs(x)` as `esl_vec_{D,F}Validate` use them -/
class VFin (α : Type) where
  isFinite : α → Bool
  abs : α → α
instance : VFin Float := ⟨Float.isFinite, Float.abs⟩
instance : VFin Float32 := ⟨Float32.isFinite, Float32.abs⟩

/-- `(T) x` for an `int` cell `x` and a floating element type `T` (`esl_vec_I2F`, `esl_vec_I2D`) -/
class VInt (α ι : Type) where
  ofInt : ι → α
instance : VInt Float32 Int32 := ⟨fun x => Float32.ofInt x.toInt⟩
instance : VInt Float Int32 := ⟨fun x => Float.ofInt x.toInt⟩

/-- a floating literal that is not an integer, `m * 10^-e` (clang's round-trip decimal text of the constant).  The present source has
    none in the translated routines (their constants are `0.`, `1.`, `50.`, `500.`): this exists so that a modified tree with another
    constant still yields a running model, i.e. a concrete failing input rather than a translator failure. -/
class VSci (α : Type) where
  sci : Nat → Nat → α
instance : VSci Float := ⟨fun m e => OfScientific.ofScientific m true e⟩
instance : VSci Float32 := ⟨fun m e => OfScientific.ofScientific m true e⟩

/-- `int16_t` / `int8_t` / `char` cells are only moved (Copy, Reverse): no arithmetic -/
instance instCElemUInt8 : CElem UInt8 where
  lt a b := decide (a < b)
  ofNat n := UInt8.ofNat n
  add _ _ := none
  sub _ _ := none
  mul _ _ := none
  eq a b := a == b
instance instCElemUInt16 : CElem UInt16 where
  lt a b := decide (a < b)
  ofNat n := UInt16.ofNat n
  add _ _ := none
  sub _ _ := none
  mul _ _ := none
  eq a b := a == b

end EaselModel.Vec
