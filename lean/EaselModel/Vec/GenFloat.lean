import EaselModel.Vec.GenMore
/-! # The REGENERATED probability / log-space routines over `double` are the hand model (C20, part C)

`Generated/VectorOps.lean` now contains `esl_vec_D{Norm,Log,Log2,Exp,Exp2,LogSum,Log2Sum,LogNorm,Log2Norm,Entropy,CDF}` as clang parsed
them; this file proves, for EVERY element type with the operations of `VInf`, that they compute the functions of `Vec/Model.lean`
(`norm`, `vlog`, …, `logSum`, `logNorm`, `entropy`, `cdf`) — so the theorems about those functions over ℝ / the extended reals
(`Vec/Real.lean`, `Vec/XReal.lean`) are theorems about the code as regenerated on every run.  Core Lean only. -/
namespace EaselModel.Vec
open Gen VOrd VNum VInf

section vnum
variable {α : Type} [VNum α]

/-- a loop `vec[i] = f(vec[i])` is `map f` -/
theorem loop_map (v : Array α) (body : Int → Array α → Option (Array α)) (f : α → α) (d : α)
    (hb : ∀ (j : Nat) (a : Array α), j < v.size → a.size = v.size → a[j]? = v[j]? → body (0 + (j : Int)) a = (a[j]?).bind fun x => wr a j (f x)) :
    ∃ r, loop 0 (v.size : Int) v body = some r ∧ r.toList = v.toList.map f := by
  refine (fun ⟨r, hr, hs, hP⟩ => ⟨r, hr, list_of_pointwise v r f hs (fun k hk => by rw [hP k, if_pos hk, dif_pos hk])⟩)
    (loop_pointwise v v.size (Nat.le_refl _) body (fun k => if h : k < v.size then f v[k] else d) ?_)
  intro j a hj hsz haj
  have : v[j]? = some v[j] := by simp
  rw [hb j a hj hsz haj, haj, this]; simp only [Option.bind_some, dif_pos hj]

omit [VNum α] in
theorem bind_some_eta {β : Type} (o : Option β) : (o.bind fun x => some x) = o := by cases o <;> rfl
theorem celem_ofNat (n : Nat) : (CElem.ofNat n : α) = VNum.ofNat n := rfl
theorem celem_add (a b : α) : CElem.add a b = some (a + b) := rfl
theorem celem_sub (a b : α) : CElem.sub a b = some (a - b) := rfl
theorem celem_mul (a b : α) : CElem.mul a b = some (a * b) := rfl
theorem celem_eq (a b : α) : CElem.eq a b = VNum.eq a b := rfl

/-- `esl_vec_DEntropy` as regenerated = `entropy` -/
theorem gen_DEntropy (v : Array α) : esl_vec_DEntropy v v.size = some (entropy v.toList) := by
  unfold esl_vec_DEntropy entropy
  simp only [bind, pure, celem_ofNat, celem_mul, celem_sub]
  rw [loop_scan0 v _ _ (fun x (H : α) => some (if lt (ofNat 0) x then H - x * log2 x else H)) (fun i H => by
    cases hx : rd v i with
    | none => rfl
    | some x => cases c : lt (ofNat 0 : α) x <;> simp [c])]
  rw [foldlM_pure]

/-- `esl_vec_DNorm` as regenerated = `norm` (`uniform n` is `1. / (double) n` as the C text writes it) -/
theorem gen_DNorm (hu : ∀ n : Nat, (uniform n : α) = ofNat 1 / ofNat n) (v : Array α) :
    ∃ r, esl_vec_DNorm v v.size = some r ∧ r.toList = norm v.toList := by
  unfold esl_vec_DNorm norm
  rw [gen_dsum v]
  simp only [bind, pure, Option.bind_some, celem_ofNat, celem_eq, bind_some_eta]
  cases hz : VNum.eq (Vec.sum v.toList) (ofNat 0 : α)
  · simp only [Bool.not_false, if_true]
    apply loop_map v _ (fun x => x / Vec.sum v.toList) (ofNat 0)
    intro j a hj hsz haj
    rw [zero_add_cast, rd_nat]
  · simp only [Bool.not_true, Bool.false_eq_true, if_false]
    have hn : ((v.size : Int).toNat) = v.toList.length := by simp
    rw [hn, ← hu]
    apply loop_map v _ (fun _ => uniform v.toList.length) (ofNat 0)
    intro j a hj hsz haj
    have : v[j]? = some v[j] := by simp
    rw [zero_add_cast, haj, this]; rfl

end vnum

section vinf
variable {α : Type} [VInf α]

theorem gen_DExp (v : Array α) : ∃ r, esl_vec_DExp v v.size = some r ∧ r.toList = vexp v.toList := by
  unfold esl_vec_DExp vexp
  simp only [bind, pure]
  apply loop_map v _ exp (ofNat 0)
  intro j a hj hsz haj
  rw [zero_add_cast, rd_nat]
theorem gen_DExp2 (v : Array α) : ∃ r, esl_vec_DExp2 v v.size = some r ∧ r.toList = vexp2 v.toList := by
  unfold esl_vec_DExp2 vexp2
  simp only [bind, pure]
  apply loop_map v _ exp2 (ofNat 0)
  intro j a hj hsz haj
  rw [zero_add_cast, rd_nat]
theorem gen_DLog (v : Array α) : ∃ r, esl_vec_DLog v v.size = some r ∧ r.toList = vlog v.toList := by
  unfold esl_vec_DLog vlog
  simp only [bind, pure, celem_ofNat]
  apply loop_map v _ (fun x => if lt (ofNat 0) x then log x else neg inf) (ofNat 0)
  intro j a hj hsz haj
  rw [zero_add_cast, rd_nat]
  cases hx : a[j]? with
  | none => rfl
  | some x => cases c : lt (ofNat 0 : α) x <;> simp [c, hx]
theorem gen_DLog2 (v : Array α) : ∃ r, esl_vec_DLog2 v v.size = some r ∧ r.toList = vlog2 v.toList := by
  unfold esl_vec_DLog2 vlog2
  simp only [bind, pure, celem_ofNat]
  apply loop_map v _ (fun x => if lt (ofNat 0) x then log2 x else neg inf) (ofNat 0)
  intro j a hj hsz haj
  rw [zero_add_cast, rd_nat]
  cases hx : a[j]? with
  | none => rfl
  | some x => cases c : lt (ofNat 0 : α) x <;> simp [c, hx]

/-- `esl_vec_DLogSum` as regenerated = `logSum` (the window test `x > max - 500.` is the class operation `inWindow`) -/
theorem gen_DLogSum (hw : ∀ m x : α, inWindow m x = lt (m - ofNat 500) x) (v : Array α) :
    esl_vec_DLogSum v v.size = logSum v.toList := by
  unfold esl_vec_DLogSum logSum
  rw [max_DI, gen_max v]
  cases hm : vmax v.toList with
  | none => rfl
  | some m =>
    simp only [bind, pure, Option.bind_some, celem_ofNat, celem_eq, celem_sub, celem_add]
    cases he : VNum.eq m (inf : α)
    · simp only [Bool.false_eq_true, if_false]
      rw [loop_scan0 v _ _ (fun x (s : α) => some (if inWindow m x then s + exp (x - m) else s)) (fun i s => by
        cases hx : rd v i with
        | none => rfl
        | some x => simp only [hw, Option.bind_some]; cases c : lt (m - ofNat 500 : α) x <;> simp [c])]
      rw [foldlM_pure]
      rfl
    · simp
theorem gen_DLog2Sum (hw : ∀ m x : α, inWindow m x = lt (m - ofNat 500) x) (v : Array α) :
    esl_vec_DLog2Sum v v.size = log2Sum v.toList := by
  unfold esl_vec_DLog2Sum log2Sum
  rw [max_DI, gen_max v]
  cases hm : vmax v.toList with
  | none => rfl
  | some m =>
    simp only [bind, pure, Option.bind_some, celem_ofNat, celem_eq, celem_sub, celem_add]
    cases he : VNum.eq m (inf : α)
    · simp only [Bool.false_eq_true, if_false]
      rw [loop_scan0 v _ _ (fun x (s : α) => some (if inWindow m x then s + exp2 (x - m) else s)) (fun i s => by
        cases hx : rd v i with
        | none => rfl
        | some x => simp only [hw, Option.bind_some]; cases c : lt (m - ofNat 500 : α) x <;> simp [c])]
      rw [foldlM_pure]
      rfl
    · simp

/-- `esl_vec_DLogNorm` / `esl_vec_DLog2Norm` as regenerated (LogSum, Increment by `-1.*denom`, Exp, Norm) = `logNorm` / `log2Norm` -/
theorem gen_DLogNorm (hu : ∀ n : Nat, (uniform n : α) = ofNat 1 / ofNat n) (hw : ∀ m x : α, inWindow m x = lt (m - ofNat 500) x) (v : Array α) :
    (esl_vec_DLogNorm v v.size).map Array.toList = logNorm v.toList := by
  unfold esl_vec_DLogNorm logNorm
  rw [gen_DLogSum hw v]
  cases hs : logSum v.toList with
  | none => rfl
  | some denom =>
    simp only [bind, pure, Option.bind_some, celem_ofNat, celem_mul, Option.map_some]
    obtain ⟨r1, h1, l1⟩ := gen_increment v (neg (ofNat 1) * denom)
    have s1 : v.size = r1.size := by have := congrArg List.length l1; simp [increment] at this; omega
    rw [h1]; simp only [Option.bind_some]
    obtain ⟨r2, h2, l2⟩ := gen_DExp r1
    have s2 : r1.size = r2.size := by have := congrArg List.length l2; simp [vexp] at this; omega
    rw [s1, h2]; simp only [Option.bind_some]
    obtain ⟨r3, h3, l3⟩ := gen_DNorm hu r2
    rw [s2, h3]; simp only [Option.bind_some, Option.map_some]
    rw [l3, l2, l1]
theorem gen_DLog2Norm (hu : ∀ n : Nat, (uniform n : α) = ofNat 1 / ofNat n) (hw : ∀ m x : α, inWindow m x = lt (m - ofNat 500) x) (v : Array α) :
    (esl_vec_DLog2Norm v v.size).map Array.toList = log2Norm v.toList := by
  unfold esl_vec_DLog2Norm log2Norm
  rw [gen_DLog2Sum hw v]
  cases hs : log2Sum v.toList with
  | none => rfl
  | some denom =>
    simp only [bind, pure, Option.bind_some, celem_ofNat, celem_mul, Option.map_some]
    obtain ⟨r1, h1, l1⟩ := gen_increment v (neg (ofNat 1) * denom)
    have s1 : v.size = r1.size := by have := congrArg List.length l1; simp [increment] at this; omega
    rw [h1]; simp only [Option.bind_some]
    obtain ⟨r2, h2, l2⟩ := gen_DExp2 r1
    have s2 : r1.size = r2.size := by have := congrArg List.length l2; simp [vexp2] at this; omega
    rw [s1, h2]; simp only [Option.bind_some]
    obtain ⟨r3, h3, l3⟩ := gen_DNorm hu r2
    rw [s2, h3]; simp only [Option.bind_some, Option.map_some]
    rw [l3, l2, l1]; rfl

end vinf
end EaselModel.Vec
