import EaselModel.Generated.VectorOps
/-! # The REGENERATED vector routines (`Generated/VectorOps.lean`) compute the list-level definitions of `Vec/Model.lean`   (C20, part C)

`Gen.esl_vec_*` are produced from the working tree's esl_vectorops.c on every run (translate/vec2lean.py): loops over
bounds-checked arrays in the `Option` monad.  This file proves, for EVERY array and every element type, that they return the
simple list functions (`vmax`, `argmax`, `Vec.sum`, `dot`, `List.reverse`, `List.map …`) and never fault when `n` is the array
length — so every theorem about the list functions (Vec/Real.lean, Vec/Kahan.lean, …) is a theorem about the C code as translated.
A change of the C source changes the generated definitions and these proofs stop checking.  Core Lean only. -/
namespace EaselModel.Vec
open Gen

/-! ## loops -/
theorem foldlM_range_inv {σ : Type} (k : Nat) (g : Nat → σ → Option σ) (P : Nat → σ → Prop) (s : σ)
    (h0 : P 0 s) (hstep : ∀ j s, j < k → P j s → ∃ s', g j s = some s' ∧ P (j + 1) s') :
    ∃ s', (List.range k).foldlM (fun s j => g j s) s = some s' ∧ P k s' := by
  induction k with
  | zero => exact ⟨s, by simp, h0⟩
  | succ k ih =>
    obtain ⟨s1, h1, p1⟩ := ih (fun j s hj hp => hstep j s (by omega) hp)
    obtain ⟨s2, h2, p2⟩ := hstep k s1 (by omega) p1
    refine ⟨s2, ?_, p2⟩
    rw [List.range_succ, List.foldlM_append, h1]
    simp [h2]

/-- Hoare rule for a counted loop: an invariant `P j s` (after `j` iterations) that every iteration preserves without faulting -/
theorem loop_inv {σ : Type} (lo hi : Int) (f : Int → σ → Option σ) (P : Nat → σ → Prop) (s : σ) (h0 : P 0 s)
    (hstep : ∀ (j : Nat) s, (j : Int) < hi - lo → P j s → ∃ s', f (lo + j) s = some s' ∧ P (j + 1) s') :
    ∃ s', loop lo hi s f = some s' ∧ P (hi - lo).toNat s' := by
  unfold loop
  exact foldlM_range_inv (hi - lo).toNat (fun j s => f (lo + (j : Int)) s) P s h0
    (fun j s hj hp => hstep j s (by omega) hp)

theorem rd_nat {α : Type} (a : Array α) (i : Nat) : rd a (i : Int) = a[i]? := by
  unfold rd; simp

theorem rd_lt {α : Type} (a : Array α) (i : Nat) (h : i < a.size) : rd a (i : Int) = some a[i] := by
  rw [rd_nat]; simp [h]

theorem wr_lt {α : Type} (a : Array α) (i : Nat) (v : α) (h : i < a.size) : wr a (i : Int) v = some (a.set i v h) := by
  unfold wr
  have : (0 : Int) ≤ (i : Int) ∧ (i : Int).toNat < a.size := by constructor <;> simp [h]
  rw [if_pos this]; simp [Array.setIfInBounds, h]

/-- a loop that reads `a[i]` and nothing else of `a` is a fold over the list of cells -/
theorem loop_scan {α σ : Type} (a : Array α) (lo : Nat) (s : σ) (F : α → σ → Option σ) :
    loop (lo : Int) (a.size : Int) s (fun i s => do let x ← rd a i; F x s) = (a.toList.drop lo).foldlM (fun s x => F x s) s := by
  unfold loop
  have hk : ((a.size : Int) - (lo : Int)).toNat = a.size - lo := by omega
  rw [hk]
  generalize hn : a.size - lo = k
  induction k generalizing lo s with
  | zero =>
    have : a.toList.drop lo = [] := by apply List.drop_eq_nil_of_le; simp; omega
    simp [this]
  | succ k ih =>
    have hlo : lo < a.size := by omega
    have hd : a.toList.drop lo = a[lo] :: a.toList.drop (lo + 1) := by
      rw [← List.getElem_cons_drop (by simpa using hlo)]; simp
    rw [hd, List.range_succ_eq_map, List.foldlM_cons, List.foldlM_cons]
    have h0 : rd a ((lo : Int) + ((0 : Nat) : Int)) = some a[lo] := by simpa using rd_lt a lo hlo
    simp only [List.foldlM_map, h0]
    show (F a[lo] s).bind _ = (F a[lo] s).bind _
    cases hF : F a[lo] s with
    | none => rfl
    | some s1 =>
      show List.foldlM _ s1 _ = List.foldlM _ s1 _
      rw [← ih (lo + 1) s1 (by omega) (by omega)]
      congr 1
      funext s j
      have : (lo : Int) + ((j.succ : Nat) : Int) = ((lo + 1 : Nat) : Int) + (j : Int) := by omega
      rw [this]

/-- the same, for a body that is only extensionally of that form (e.g. re-reads `a[i]`) -/
theorem loop_scan' {α σ : Type} (a : Array α) (lo : Nat) (s : σ) (body : Int → σ → Option σ) (F : α → σ → Option σ)
    (hb : ∀ i s, body i s = (rd a i).bind fun x => F x s) :
    loop (lo : Int) (a.size : Int) s body = (a.toList.drop lo).foldlM (fun s x => F x s) s := by
  have : body = (fun i s => (rd a i).bind fun x => F x s) := by funext i s; exact hb i s
  rw [this]; exact loop_scan a lo s F

theorem loop_scan0 {α σ : Type} (a : Array α) (s : σ) (body : Int → σ → Option σ) (F : α → σ → Option σ)
    (hb : ∀ i s, body i s = (rd a i).bind fun x => F x s) :
    loop 0 (a.size : Int) s body = a.toList.foldlM (fun s x => F x s) s := by
  have := loop_scan' a 0 s body F hb
  simpa using this
theorem loop_scan1 {α σ : Type} (a : Array α) (s : σ) (body : Int → σ → Option σ) (F : α → σ → Option σ)
    (hb : ∀ i s, body i s = (rd a i).bind fun x => F x s) :
    loop 1 (a.size : Int) s body = (a.toList.drop 1).foldlM (fun s x => F x s) s := by
  have := loop_scan' a 1 s body F hb
  simpa using this

theorem head_rd {α : Type} (v : Array α) (x : α) (xs : List α) (hv : v.toList = x :: xs) :
    rd v 0 = some x ∧ v.toList.drop 1 = xs ∧ 0 < v.size := by
  have hpos : 0 < v.size := by have := congrArg List.length hv; simp at this; omega
  refine ⟨?_, by simp [hv], hpos⟩
  have h := rd_lt v 0 hpos
  have hx : v[0] = x := by
    have : v.toList[0]'(by simpa using hpos) = x := by simp [hv]
    simpa using this
  rw [hx] at h; exact h
theorem nil_rd {α : Type} (v : Array α) (hv : v.toList = []) (i : Int) : rd v i = none := by
  have h0 : v.size = 0 := by simpa using congrArg List.length hv
  unfold rd; split
  · simp; omega
  · rfl

theorem rd_zip {α β : Type} (a : Array α) (b : Array β) (i : Int) :
    rd (a.zip b) i = (rd a i).bind fun x => (rd b i).bind fun y => some (x, y) := by
  unfold rd
  split
  · rw [← Array.getElem?_toList, ← Array.getElem?_toList, ← Array.getElem?_toList, Array.toList_zip]
    simp [List.zip_eq_zipWith, List.getElem?_zipWith]
    cases a[i.toNat]? <;> cases b[i.toNat]? <;> rfl
  · rfl
theorem loop_scan2 {α σ : Type} (a b : Array α) (hab : a.size = b.size) (s : σ) (body : Int → σ → Option σ) (F : α → α → σ → Option σ)
    (hb : ∀ i s, body i s = (rd a i).bind fun x => (rd b i).bind fun y => F x y s) :
    loop 0 (a.size : Int) s body = (a.toList.zip b.toList).foldlM (fun s p => F p.1 p.2 s) s := by
  have := loop_scan0 (a.zip b) s body (fun p s => F p.1 p.2 s) (fun i s => by
    rw [hb, rd_zip]; cases rd a i <;> cases rd b i <;> rfl)
  rw [Array.size_zip, ← hab, Nat.min_self] at this
  rw [this]; simp

theorem foldlM_pure {α σ : Type} (l : List α) (g : σ → α → σ) (s : σ) :
    l.foldlM (fun s x => (some (g s x) : Option σ)) s = some (l.foldl g s) := by
  induction l generalizing s with
  | nil => rfl
  | cons x xs ih => simp [List.foldlM_cons, ih]

/-! ## comparators: the translated three-way comparison, for every element type -/
theorem qsort_IIncreasing_eq {α : Type} [CElem α] (a b : α) :
    qsort_IIncreasing a b = if VOrd.lt a b then -1 else if VOrd.lt b a then 1 else 0 := rfl
theorem qsort_LIncreasing_eq {α : Type} [CElem α] (a b : α) :
    qsort_LIncreasing a b = if VOrd.lt a b then -1 else if VOrd.lt b a then 1 else 0 := rfl
theorem qsort_DIncreasing_eq {α : Type} [CElem α] (a b : α) :
    qsort_DIncreasing a b = if VOrd.lt a b then -1 else if VOrd.lt b a then 1 else 0 := rfl
theorem qsort_FIncreasing_eq {α : Type} [CElem α] (a b : α) :
    qsort_FIncreasing a b = if VOrd.lt a b then -1 else if VOrd.lt b a then 1 else 0 := rfl
theorem qsort_IDecreasing_eq {α : Type} [CElem α] (a b : α) :
    qsort_IDecreasing a b = if VOrd.lt b a then -1 else if VOrd.lt a b then 1 else 0 := rfl
theorem qsort_LDecreasing_eq {α : Type} [CElem α] (a b : α) :
    qsort_LDecreasing a b = if VOrd.lt b a then -1 else if VOrd.lt a b then 1 else 0 := rfl
theorem qsort_DDecreasing_eq {α : Type} [CElem α] (a b : α) :
    qsort_DDecreasing a b = if VOrd.lt b a then -1 else if VOrd.lt a b then 1 else 0 := rfl
theorem qsort_FDecreasing_eq {α : Type} [CElem α] (a b : α) :
    qsort_FDecreasing a b = if VOrd.lt b a then -1 else if VOrd.lt a b then 1 else 0 := rfl

/-! ## the same C text gives the same definition for the four element types -/
theorem max_DI : @esl_vec_DMax = @esl_vec_IMax := rfl
theorem max_FI : @esl_vec_FMax = @esl_vec_IMax := rfl
theorem max_LI : @esl_vec_LMax = @esl_vec_IMax := rfl
theorem min_DI : @esl_vec_DMin = @esl_vec_IMin := rfl
theorem min_FI : @esl_vec_FMin = @esl_vec_IMin := rfl
theorem min_LI : @esl_vec_LMin = @esl_vec_IMin := rfl
theorem argmax_DI : @esl_vec_DArgMax = @esl_vec_IArgMax := rfl
theorem argmax_FI : @esl_vec_FArgMax = @esl_vec_IArgMax := rfl
theorem argmax_LI : @esl_vec_LArgMax = @esl_vec_IArgMax := rfl
theorem argmin_DI : @esl_vec_DArgMin = @esl_vec_IArgMin := rfl
theorem argmin_FI : @esl_vec_FArgMin = @esl_vec_IArgMin := rfl
theorem argmin_LI : @esl_vec_LArgMin = @esl_vec_IArgMin := rfl
theorem sum_LI : @esl_vec_LSum = @esl_vec_ISum := rfl
theorem sum_FD : @esl_vec_FSum = @esl_vec_DSum := rfl
theorem dot_DI : @esl_vec_DDot = @esl_vec_IDot := rfl
theorem dot_FI : @esl_vec_FDot = @esl_vec_IDot := rfl
theorem dot_LI : @esl_vec_LDot = @esl_vec_IDot := rfl
theorem reverse_DI : @esl_vec_DReverse = @esl_vec_IReverse := rfl
theorem reverse_FI : @esl_vec_FReverse = @esl_vec_IReverse := rfl
theorem reverse_LI : @esl_vec_LReverse = @esl_vec_IReverse := rfl
theorem reverse_CI : @esl_vec_CReverse = @esl_vec_IReverse := rfl
theorem reverseip_DI : @esl_vec_DReverse_inplace = @esl_vec_IReverse_inplace := rfl
theorem reverseip_FI : @esl_vec_FReverse_inplace = @esl_vec_IReverse_inplace := rfl
theorem reverseip_LI : @esl_vec_LReverse_inplace = @esl_vec_IReverse_inplace := rfl
theorem set_DI : @esl_vec_DSet = @esl_vec_ISet := rfl
theorem set_FI : @esl_vec_FSet = @esl_vec_ISet := rfl
theorem set_LI : @esl_vec_LSet = @esl_vec_ISet := rfl
theorem copy_DI : @esl_vec_DCopy = @esl_vec_ICopy := rfl
theorem copy_FI : @esl_vec_FCopy = @esl_vec_ICopy := rfl
theorem copy_LI : @esl_vec_LCopy = @esl_vec_ICopy := rfl
theorem copy_WI : @esl_vec_WCopy = @esl_vec_ICopy := rfl
theorem copy_BI : @esl_vec_BCopy = @esl_vec_ICopy := rfl
theorem scale_FD : @esl_vec_FScale = @esl_vec_DScale := rfl
theorem increment_FD : @esl_vec_FIncrement = @esl_vec_DIncrement := rfl
theorem add_FD : @esl_vec_FAdd = @esl_vec_DAdd := rfl
theorem addScaled_FD : @esl_vec_FAddScaled = @esl_vec_DAddScaled := rfl
theorem reverseip_CI : @esl_vec_CReverse_inplace = @esl_vec_IReverse_inplace := rfl

/-! ## Max / Min: the generated loop is `vmax` / `vmin` of the list (fault exactly on the empty vector), for every element type -/
theorem gen_max {α : Type} [CElem α] (v : Array α) : esl_vec_IMax v v.size = vmax v.toList := by
  unfold esl_vec_IMax
  rcases hv : v.toList with _ | ⟨x, xs⟩
  · simp [nil_rd v hv, vmax]
  · obtain ⟨h0, hd, hpos⟩ := head_rd v x xs hv
    rw [h0]
    simp only [Option.bind_some, bind, pure]
    rw [loop_scan1 v x _ (fun t1 best => some (if VOrd.lt best t1 then t1 else best)) ?hb]
    case hb =>
      intro i s
      cases h : rd v i <;> simp
      split <;> rfl
    rw [hd, foldlM_pure]
    simp [vmax]

theorem gen_min {α : Type} [CElem α] (v : Array α) : esl_vec_IMin v v.size = vmin v.toList := by
  unfold esl_vec_IMin
  rcases hv : v.toList with _ | ⟨x, xs⟩
  · simp [nil_rd v hv, vmin]
  · obtain ⟨h0, hd, hpos⟩ := head_rd v x xs hv
    rw [h0]
    simp only [Option.bind_some, bind, pure]
    rw [loop_scan1 v x _ (fun t1 best => some (if VOrd.lt t1 best then t1 else best)) ?hb]
    case hb =>
      intro i s
      cases h : rd v i <;> simp
      split <;> rfl
    rw [hd, foldlM_pure]
    simp [vmin]

/-! ## ArgMax / ArgMin: the generated loop (which re-reads `vec[best]`) is the list function `argmax` / `argmin` -/
theorem rd_cons {α : Type} (v : Array α) (x : α) (xs : List α) (hv : v.toList = x :: xs) (j : Nat) :
    rd v ((1 : Int) + (j : Int)) = xs[j]? := by
  have : (1 : Int) + (j : Int) = ((j + 1 : Nat) : Int) := by omega
  rw [this, rd_nat, ← Array.getElem?_toList, hv]; simp
theorem rd_list {α : Type} (v : Array α) (k : Nat) : rd v (k : Int) = v.toList[k]? := by
  rw [rd_nat, Array.getElem?_toList]

theorem gen_arg_aux {α : Type} (better : α → α → Bool) (v : Array α) (x : α) (xs : List α) (hv : v.toList = x :: xs) :
    loop 1 (v.size : Int) (0 : Int) (fun i best => (rd v i).bind fun t1 => (rd v best).bind fun t2 =>
      if better t1 t2 = true then some i else some best)
      = some (((xs.foldl (argStep better) (0, x, 1)).1 : Nat) : Int) := by
  have hsz : v.size = xs.length + 1 := by have := congrArg List.length hv; simpa using this
  obtain ⟨s', hs, hP⟩ := loop_inv 1 (v.size : Int) (fun i best => (rd v i).bind fun t1 => (rd v best).bind fun t2 =>
      if better t1 t2 = true then some i else some best)
    (fun j best => best = ((((xs.take j).foldl (argStep better) (0, x, 1)).1 : Nat) : Int) ∧
      ((xs.take j).foldl (argStep better) (0, x, 1)).2.2 = j + 1 ∧
      v.toList[((xs.take j).foldl (argStep better) (0, x, 1)).1]? = some ((xs.take j).foldl (argStep better) (0, x, 1)).2.1)
    0 (by simp [hv]) (by
      intro j best hj ⟨hb, hi, hval⟩
      have hjl : j < xs.length := by omega
      generalize hst : (xs.take j).foldl (argStep better) (0, x, 1) = st at hb hi hval
      have e1 : rd v ((1 : Int) + (j : Int)) = some xs[j] := by rw [rd_cons v x xs hv j]; simp [hjl]
      have e2 : rd v best = some st.2.1 := by rw [hb, rd_list]; exact hval
      have ht : xs.take (j + 1) = xs.take j ++ [xs[j]] := by rw [List.take_add_one]; simp [hjl]
      simp only [e1, e2, Option.bind_some, ht, List.foldl_append, hst, List.foldl_cons, List.foldl_nil]
      unfold argStep
      by_cases hc : better xs[j] st.2.1 = true
      · simp only [hc, if_true]
        refine ⟨_, rfl, ?_, ?_, ?_⟩
        · simp only [hi]; omega
        · simp [hi]
        · simp only [hi, hv]; simp [hjl]
      · simp only [hc]
        refine ⟨_, rfl, hb, ?_, hval⟩
        · simp [hi]; )
  rw [hs]
  have hk : ((v.size : Int) - 1).toNat = xs.length := by omega
  rw [hk, List.take_length] at hP
  rw [hP.1]

theorem gen_argmax {α : Type} [CElem α] (v : Array α) : esl_vec_IArgMax v v.size = some (argmax v.toList : Nat) := by
  unfold esl_vec_IArgMax
  simp only [Option.bind_some, bind, pure]
  rcases hv : v.toList with _ | ⟨x, xs⟩
  · have h0 : v.size = 0 := by simpa using congrArg List.length hv
    simp [loop, h0, argmax]
  · rw [gen_arg_aux (fun t1 t2 => VOrd.lt t2 t1) v x xs hv]; rfl
theorem gen_argmin {α : Type} [CElem α] (v : Array α) : esl_vec_IArgMin v v.size = some (argmin v.toList : Nat) := by
  unfold esl_vec_IArgMin
  simp only [Option.bind_some, bind, pure]
  rcases hv : v.toList with _ | ⟨x, xs⟩
  · have h0 : v.size = 0 := by simpa using congrArg List.length hv
    simp [loop, h0, argmin]
  · rw [gen_arg_aux (fun t1 t2 => VOrd.lt t1 t2) v x xs hv]; rfl

/-! ## Sum: the generated loops are the folds of the list -/
/-- `esl_vec_{I,L}Sum`: the checked additions in order -/
theorem gen_isum {α : Type} [CElem α] (v : Array α) :
    esl_vec_ISum v v.size = v.toList.foldlM (fun s x => CElem.add s x) (CElem.ofNat 0) := by
  unfold esl_vec_ISum
  simp only [Option.bind_some, bind, pure]
  exact loop_scan0 v _ _ (fun x s => CElem.add s x) (fun i s => rfl)

/-- `esl_vec_*Dot`: multiply, then accumulate, in order -/
theorem gen_idot {α : Type} [CElem α] (v w : Array α) (h : v.size = w.size) :
    esl_vec_IDot v w v.size = (v.toList.zip w.toList).foldlM (fun s p => (CElem.mul p.1 p.2).bind fun t => CElem.add s t) (CElem.ofNat 0) := by
  unfold esl_vec_IDot
  simp only [Option.bind_some, bind, pure]
  exact loop_scan2 v w h _ _ (fun x y s => (CElem.mul x y).bind fun t => CElem.add s t) (fun i s => rfl)

theorem foldl_zipWith {α β : Type} (f : α → α → β) (g : β → β → β) (l1 l2 : List α) (s : β) :
    (List.zipWith f l1 l2).foldl g s = (l1.zip l2).foldl (fun s p => g s (f p.1 p.2)) s := by
  induction l1 generalizing l2 s with
  | nil => simp
  | cons x xs ih => cases l2 with
    | nil => simp
    | cons y ys => simp [ih]

/-- `esl_vec_{D,F}Dot` is `Vec.dot` (to which `dot_eq_real` and `dot_rounding` apply) -/
theorem gen_ddot {α : Type} [VNum α] (v w : Array α) (h : v.size = w.size) : esl_vec_DDot v w v.size = some (dot v.toList w.toList) := by
  rw [dot_DI, gen_idot v w h]
  show List.foldlM (fun (s : α) (p : α × α) => some (s + p.1 * p.2)) _ _ = _
  rw [foldlM_pure, dot, foldl_zipWith]
  rfl

/-- `esl_vec_{D,F}Sum` is the Kahan recurrence `Vec.sum` (for the total arithmetic of a floating type) -/
theorem gen_dsum {α : Type} [VNum α] (v : Array α) : esl_vec_DSum v v.size = some (Vec.sum v.toList) := by
  unfold esl_vec_DSum
  simp only [bind, pure]
  rw [loop_scan0 v _ _ (fun x (s : α × α) => some (((s.2 + (x - s.1)) - s.2) - (x - s.1), s.2 + (x - s.1))) (fun i s => by
    cases rd v i <;> rfl)]
  rw [foldlM_pure]
  simp only [Option.bind_some, Vec.sum]
  congr 1
  have key : ∀ (l : List α) (c s : α),
      (l.foldl (fun (st : α × α) x => (((st.2 + (x - st.1)) - st.2) - (x - st.1), st.2 + (x - st.1))) (c, s)).2
        = (l.foldl kahanStep (s, c)).1 ∧
      (l.foldl (fun (st : α × α) x => (((st.2 + (x - st.1)) - st.2) - (x - st.1), st.2 + (x - st.1))) (c, s)).1
        = (l.foldl kahanStep (s, c)).2 := by
    intro l
    induction l with
    | nil => intro c s; exact ⟨rfl, rfl⟩
    | cons x xs ih => intro c s; simp only [List.foldl_cons]; exact ih _ _
  exact (key v.toList _ _).1

/-! ## Reverse (into separate storage, and in place) -/
theorem tdiv2 (m : Nat) : Int.tdiv (m : Int) 2 = ((m / 2 : Nat) : Int) := (Int.ofNat_tdiv m 2).symm
theorem tmod2 (m : Nat) : Int.tmod (m : Int) 2 = ((m % 2 : Nat) : Int) := (Int.ofNat_tmod m 2).symm

/-- target of the reversal loop after `j` swaps, as a function of the index -/
def revAt {α : Type} (v : Array α) (j k : Nat) : Option α := if k < j ∨ v.size - j ≤ k then v[v.size - 1 - k]? else v[k]?

theorem rev_list {α : Type} (v r : Array α) (hs : r.size = v.size) (h : ∀ k, k < v.size → r[k]? = v[v.size - 1 - k]?) :
    r.toList = v.toList.reverse := by
  apply List.ext_getElem?
  intro k
  by_cases hk : k < v.size
  · rw [List.getElem?_reverse (by simpa using hk), Array.getElem?_toList, h k hk]; simp
  · have h1 : r.toList[k]? = none := by simp; omega
    have h2 : v.toList.reverse[k]? = none := by simp; omega
    rw [h1, h2]

theorem gen_reverse_inplace {α : Type} [CElem α] (v : Array α) :
    ∃ r, esl_vec_IReverse_inplace v v.size = some r ∧ r.toList = v.toList.reverse := by
  unfold esl_vec_IReverse_inplace
  simp only [bind, pure, tdiv2, tmod2]
  obtain ⟨a, ha, hsz, hP⟩ := loop_inv 0 ((v.size / 2 : Nat) : Int) (fun i vec =>
      (rd vec ((v.size : Int) - i - 1)).bind fun x => (rd vec i).bind fun t1 =>
        (wr vec ((v.size : Int) - i - 1) t1).bind fun vec => wr vec i x)
    (fun j a => a.size = v.size ∧ ∀ k, k < v.size → a[k]? = revAt v j k) v
    ⟨rfl, fun k hk => by simp [revAt]; intro h; omega⟩ (by
      intro j a hj ⟨hsz, hP⟩
      have hj2 : j < v.size / 2 := by omega
      have i1 : (v.size : Int) - ((0 : Int) + (j : Int)) - 1 = ((v.size - 1 - j : Nat) : Int) := by omega
      have i2 : (0 : Int) + (j : Int) = ((j : Nat) : Int) := by omega
      have b1 : v.size - 1 - j < a.size := by omega
      have b2 : j < a.size := by omega
      have r1 : a[v.size - 1 - j]? = v[v.size - 1 - j]? := by rw [hP _ (by omega), revAt, if_neg (by omega)]
      have r2 : a[j]? = v[j]? := by rw [hP _ (by omega), revAt, if_neg (by omega)]
      have g1 : v[v.size - 1 - j]? = some v[v.size - 1 - j] := by simp
      have g2 : v[j]? = some v[j] := by simp
      rw [i1, i2, rd_nat, rd_nat, r1, r2, g1, g2]
      simp only [Option.bind_some]
      rw [wr_lt a _ _ b1]
      simp only [Option.bind_some]
      rw [wr_lt _ _ _ (by simpa using b2)]
      refine ⟨_, rfl, by simp [hsz], ?_⟩
      intro k hk
      rw [Array.getElem?_set, Array.getElem?_set]
      by_cases e1 : j = k
      · subst e1; simp [revAt]
      · by_cases e2 : v.size - 1 - j = k
        · subst e2; simp only [e1, if_false, if_true, revAt]
          rw [if_pos (by omega)]
          have : v.size - 1 - (v.size - 1 - j) = j := by omega
          rw [this]; simp
        · simp only [e1, e2, if_false]
          rw [hP k hk]; unfold revAt
          by_cases c : k < j ∨ v.size - j ≤ k
          · rw [if_pos c, if_pos (by omega)]
          · rw [if_neg c, if_neg (by omega)])
  rw [ha]
  simp only [Option.bind_some]
  have hi : (if (0 : Int) ≤ ((v.size / 2 : Nat) : Int) then ((v.size / 2 : Nat) : Int) else 0) = ((v.size / 2 : Nat) : Int) :=
    if_pos (by omega)
  rw [hi]
  by_cases hodd : v.size % 2 = 1
  · have hd : decide (((v.size % 2 : Nat) : Int) ≠ 0) = true := by simp; omega
    rw [if_pos hd]
    have m : a[v.size / 2]? = some v[v.size / 2] := by rw [hP _ (by omega), revAt, if_neg (by omega)]; simp
    rw [rd_nat, m]; simp only [Option.bind_some]; rw [wr_lt _ _ _ (by omega)]
    refine ⟨_, rfl, rev_list v _ (by simp [hsz]) ?_⟩
    intro k hk; rw [Array.getElem?_set]
    by_cases e : v.size / 2 = k
    · subst e; simp only [if_true]
      have : v.size - 1 - v.size / 2 = v.size / 2 := by omega
      rw [this]; simp
    · simp only [e, if_false]; rw [hP k hk, revAt, if_pos (by omega)]
  · have hd : ¬ (decide (((v.size % 2 : Nat) : Int) ≠ 0) = true) := by simp; omega
    rw [if_neg hd]
    refine ⟨a, rfl, rev_list v a hsz ?_⟩
    intro k hk; rw [hP k hk, revAt, if_pos (by omega)]

theorem gen_reverse {α : Type} [CElem α] (v rev : Array α) (hr : rev.size = v.size) :
    ∃ r, esl_vec_IReverse v rev v.size = some r ∧ r.toList = v.toList.reverse := by
  unfold esl_vec_IReverse
  simp only [bind, pure, tdiv2, tmod2]
  obtain ⟨a, ha, hsz, hP⟩ := loop_inv 0 ((v.size / 2 : Nat) : Int) (fun i rev =>
      (rd v ((v.size : Int) - i - 1)).bind fun x => (rd v i).bind fun t1 =>
        (wr rev ((v.size : Int) - i - 1) t1).bind fun rev => wr rev i x)
    (fun j a => a.size = v.size ∧ ∀ k, k < v.size → (k < j ∨ v.size - j ≤ k) → a[k]? = v[v.size - 1 - k]?) rev
    ⟨hr, fun k hk h => by omega⟩ (by
      intro j a hj ⟨hsz, hP⟩
      have hj2 : j < v.size / 2 := by omega
      have i1 : (v.size : Int) - ((0 : Int) + (j : Int)) - 1 = ((v.size - 1 - j : Nat) : Int) := by omega
      have i2 : (0 : Int) + (j : Int) = ((j : Nat) : Int) := by omega
      have b1 : v.size - 1 - j < a.size := by omega
      have b2 : j < a.size := by omega
      have g1 : v[v.size - 1 - j]? = some v[v.size - 1 - j] := by simp
      have g2 : v[j]? = some v[j] := by simp
      rw [i1, i2, rd_nat, rd_nat, g1, g2]
      simp only [Option.bind_some]
      rw [wr_lt a _ _ b1]
      simp only [Option.bind_some]
      rw [wr_lt _ _ _ (by simpa using b2)]
      refine ⟨_, rfl, by simp [hsz], ?_⟩
      intro k hk hc
      rw [Array.getElem?_set, Array.getElem?_set]
      by_cases e1 : j = k
      · subst e1; simp
      · by_cases e2 : v.size - 1 - j = k
        · subst e2; simp only [e1, if_false, if_true]
          have : v.size - 1 - (v.size - 1 - j) = j := by omega
          rw [this]; simp
        · simp only [e1, e2, if_false]
          exact hP k hk (by omega))
  rw [ha]
  simp only [Option.bind_some]
  have hi : (if (0 : Int) ≤ ((v.size / 2 : Nat) : Int) then ((v.size / 2 : Nat) : Int) else 0) = ((v.size / 2 : Nat) : Int) :=
    if_pos (by omega)
  rw [hi]
  by_cases hodd : v.size % 2 = 1
  · have hd : decide (((v.size % 2 : Nat) : Int) ≠ 0) = true := by simp; omega
    rw [if_pos hd]
    have m : v[v.size / 2]? = some v[v.size / 2] := by simp
    rw [rd_nat, m]; simp only [Option.bind_some]; rw [wr_lt _ _ _ (by omega)]
    refine ⟨_, rfl, rev_list v _ (by simp [hsz]) ?_⟩
    intro k hk; rw [Array.getElem?_set]
    by_cases e : v.size / 2 = k
    · subst e; simp only [if_true]
      have : v.size - 1 - v.size / 2 = v.size / 2 := by omega
      rw [this]; simp
    · simp only [e, if_false]; exact hP k hk (by omega)
  · have hd : ¬ (decide (((v.size % 2 : Nat) : Int) ≠ 0) = true) := by simp; omega
    rw [if_neg hd]
    refine ⟨a, rfl, rev_list v a hsz ?_⟩
    intro k hk; exact hP k hk (by omega)

/-- reversing twice (in place) gives the vector back -/
theorem gen_reverse_involution {α : Type} [CElem α] (v : Array α) :
    ∃ r, esl_vec_IReverse_inplace v v.size = some r ∧ r.size = v.size ∧ esl_vec_IReverse_inplace r r.size = some v := by
  obtain ⟨r, h1, l1⟩ := gen_reverse_inplace v
  obtain ⟨r', h2, l2⟩ := gen_reverse_inplace r
  refine ⟨r, h1, ?_, ?_⟩
  · have := congrArg List.length l1; simpa using this
  · rw [h2]; congr 1
    apply Array.toList_inj.mp
    rw [l2, l1, List.reverse_reverse]

/-! ## element-wise routines: Set, Scale, Increment, Add, AddScaled, Copy -/
/-- a loop whose iteration `i` only writes `a[i]`, with a value that depends on the ORIGINAL cells, computes that value pointwise -/
theorem loop_pointwise {α : Type} (v : Array α) (n : Nat) (hn : n ≤ v.size) (body : Int → Array α → Option (Array α)) (g : Nat → α)
    (hb : ∀ (j : Nat) (a : Array α), j < n → a.size = v.size → a[j]? = v[j]? → body (0 + (j : Int)) a = wr a j (g j)) :
    ∃ r, loop 0 (n : Int) v body = some r ∧ r.size = v.size ∧ ∀ k, r[k]? = if k < n then some (g k) else v[k]? := by
  obtain ⟨r, hr, hs, hP⟩ := loop_inv 0 (n : Int) body
    (fun j a => a.size = v.size ∧ ∀ k, a[k]? = if k < j then some (g k) else v[k]?) v ⟨rfl, fun k => by simp⟩ (by
      intro j a hj ⟨hsz, hP⟩
      have hjn : j < n := by omega
      rw [hb j a hjn hsz (by rw [hP j]; simp), wr_lt a j _ (by omega)]
      refine ⟨_, rfl, by simp [hsz], ?_⟩
      intro k
      rw [Array.getElem?_set]
      by_cases e : j = k
      · subst e; simp
      · simp only [e, if_false]; rw [hP k]
        by_cases c : k < j
        · rw [if_pos c, if_pos (by omega)]
        · rw [if_neg c, if_neg (by omega)])
  have : ((n : Int) - 0).toNat = n := by omega
  rw [this] at hP
  exact ⟨r, hr, hs, hP⟩

theorem list_of_pointwise {α β : Type} (v : Array β) (r : Array α) (f : β → α) (hs : r.size = v.size)
    (h : ∀ k (hk : k < v.size), r[k]? = some (f v[k])) : r.toList = v.toList.map f := by
  apply List.ext_getElem?
  intro k
  rw [Array.getElem?_toList, List.getElem?_map, Array.getElem?_toList]
  by_cases c : k < v.size
  · rw [h k c]; simp [c]
  · have : r[k]? = none := by simp; omega
    rw [this]; simp [Nat.le_of_not_lt c]

theorem zero_add_cast (j : Nat) : (0 : Int) + (j : Int) = ((j : Nat) : Int) := by omega

theorem gen_scale {α : Type} [VNum α] (v : Array α) (s : α) :
    ∃ r, esl_vec_DScale v v.size s = some r ∧ r.toList = scale v.toList s := by
  unfold esl_vec_DScale
  simp only [bind, pure]
  refine (fun ⟨r, hr, hs, hP⟩ => ⟨r, hr, list_of_pointwise v r (· * s) hs (fun k hk => by rw [hP k, if_pos hk, dif_pos hk])⟩)
    (loop_pointwise v v.size (Nat.le_refl _) _ (fun k => if h : k < v.size then v[k] * s else s) ?_)
  intro j a hj hsz haj
  have : v[j]? = some v[j] := by simp
  rw [zero_add_cast, rd_nat, haj, this]; simp only [Option.bind_some, dif_pos hj]; rfl

theorem list_of_pointwise2 {α : Type} (v w r : Array α) (f : α → α → α) (hs : r.size = v.size) (hw : w.size = v.size)
    (h : ∀ k (hk : k < v.size), r[k]? = some (f v[k] (w[k]'(by omega)))) : r.toList = List.zipWith f v.toList w.toList := by
  apply List.ext_getElem?
  intro k
  rw [Array.getElem?_toList, List.getElem?_zipWith, Array.getElem?_toList, Array.getElem?_toList]
  by_cases c : k < v.size
  · rw [h k c]
    have e1 : v[k]? = some v[k] := by simp [c]
    have e2 : w[k]? = some (w[k]'(by omega)) := by simp <;> omega
    rw [e1, e2]
  · have : r[k]? = none := by simp; omega
    have e1 : v[k]? = none := by simp; omega
    rw [this, e1]

theorem gen_set {α : Type} [CElem α] (v : Array α) (c : α) :
    ∃ r, esl_vec_ISet v v.size c = some r ∧ r.toList = v.toList.map fun _ => c := by
  unfold esl_vec_ISet
  refine (fun ⟨r, hr, hs, hP⟩ => ⟨r, hr, list_of_pointwise v r (fun _ => c) hs (fun k hk => by rw [hP k, if_pos hk])⟩)
    (loop_pointwise v v.size (Nat.le_refl _) _ (fun _ => c) ?_)
  intro j a hj hsz haj
  rw [zero_add_cast]

theorem gen_increment {α : Type} [VNum α] (v : Array α) (x : α) :
    ∃ r, esl_vec_DIncrement v v.size x = some r ∧ r.toList = increment v.toList x := by
  unfold esl_vec_DIncrement
  simp only [bind, pure]
  refine (fun ⟨r, hr, hs, hP⟩ => ⟨r, hr, list_of_pointwise v r (· + x) hs (fun k hk => by rw [hP k, if_pos hk, dif_pos hk])⟩)
    (loop_pointwise v v.size (Nat.le_refl _) _ (fun k => if h : k < v.size then v[k] + x else x) ?_)
  intro j a hj hsz haj
  have : v[j]? = some v[j] := by simp
  rw [zero_add_cast, rd_nat, haj, this]; simp only [Option.bind_some, dif_pos hj]; rfl

theorem gen_add {α : Type} [VNum α] (v w : Array α) (hw : w.size = v.size) :
    ∃ r, esl_vec_DAdd v w v.size = some r ∧ r.toList = add v.toList w.toList := by
  unfold esl_vec_DAdd
  simp only [bind, pure]
  refine (fun ⟨r, hr, hs, hP⟩ => ⟨r, hr, list_of_pointwise2 v w r (· + ·) hs hw (fun k hk => by
      rw [hP k, if_pos hk, dif_pos ⟨hk, by omega⟩])⟩)
    (loop_pointwise v v.size (Nat.le_refl _) _ (fun k => if h : k < v.size ∧ k < w.size then v[k] + w[k] else VNum.ofNat 0) ?_)
  intro j a hj hsz haj
  have e1 : v[j]? = some v[j] := by simp
  have e2 : w[j]? = some (w[j]'(by omega)) := by simp <;> omega
  rw [zero_add_cast, rd_nat, rd_nat, haj, e1, e2]; simp only [Option.bind_some, dif_pos (And.intro hj (by omega : j < w.size))]; rfl

theorem gen_addScaled {α : Type} [VNum α] (v w : Array α) (c : α) (hw : w.size = v.size) :
    ∃ r, esl_vec_DAddScaled v w c v.size = some r ∧ r.toList = addScaled v.toList w.toList c := by
  unfold esl_vec_DAddScaled
  simp only [bind, pure]
  refine (fun ⟨r, hr, hs, hP⟩ => ⟨r, hr, list_of_pointwise2 v w r (fun x y => x + y * c) hs hw (fun k hk => by
      rw [hP k, if_pos hk, dif_pos ⟨hk, by omega⟩])⟩)
    (loop_pointwise v v.size (Nat.le_refl _) _ (fun k => if h : k < v.size ∧ k < w.size then v[k] + w[k] * c else c) ?_)
  intro j a hj hsz haj
  have e1 : v[j]? = some v[j] := by simp
  have e2 : w[j]? = some (w[j]'(by omega)) := by simp <;> omega
  rw [zero_add_cast, rd_nat, rd_nat, haj, e1, e2]; simp only [Option.bind_some, dif_pos (And.intro hj (by omega : j < w.size))]; rfl

theorem gen_copy {α : Type} [CElem α] (src dest : Array α) (hd : dest.size = src.size) :
    ∃ r, esl_vec_ICopy src src.size dest = some r ∧ r.toList = src.toList := by
  unfold esl_vec_ICopy
  simp only [bind, pure]
  refine (fun ⟨r, hr, hs, hP⟩ => ⟨r, hr, by
      have := list_of_pointwise src r id (by omega) (fun k hk => by rw [hP k, if_pos (by omega), dif_pos hk]; rfl)
      simpa using this⟩)
    (loop_pointwise dest src.size (by omega) _ (fun k => if h : k < src.size then src[k] else CElem.ofNat 0) ?_)
  intro j a hj hsz haj
  have e1 : src[j]? = some src[j] := by simp
  rw [zero_add_cast, rd_nat, e1]; simp only [Option.bind_some, dif_pos hj]

/-! ## esl_matrixops.c: the flat routines are the vector routines on the `M*N` block -/
theorem gen_mat_flat {α : Type} [CElem α] (A B : Array α) (M N : Int) (c : α) :
    esl_mat_ISet A M N c = esl_vec_ISet A (M * N) c ∧ esl_mat_IScale A M N c = esl_vec_IScale A (M * N) c ∧
    esl_mat_ICopy A M N B = esl_vec_ICopy A (M * N) B ∧ esl_mat_IMax A M N = esl_vec_IMax A (M * N) ∧
    esl_mat_DSet A M N c = esl_vec_DSet A (M * N) c ∧ esl_mat_DScale A M N c = esl_vec_DScale A (M * N) c ∧
    esl_mat_DCopy A M N B = esl_vec_DCopy A (M * N) B ∧ esl_mat_DMax A M N = esl_vec_DMax A (M * N) ∧
    esl_mat_FSet A M N c = esl_vec_FSet A (M * N) c ∧ esl_mat_FScale A M N c = esl_vec_FScale A (M * N) c ∧
    esl_mat_FCopy A M N B = esl_vec_FCopy A (M * N) B ∧ esl_mat_FMax A M N = esl_vec_FMax A (M * N) ∧
    esl_mat_WCopy A M N B = esl_vec_WCopy A (M * N) B ∧ esl_mat_BCopy A M N B = esl_vec_BCopy A (M * N) B := by
  refine ⟨?_, ?_, ?_, ?_, ?_, ?_, ?_, ?_, ?_, ?_, ?_, ?_, ?_, ?_⟩ <;>
    simp [esl_mat_ISet, esl_mat_IScale, esl_mat_ICopy, esl_mat_IMax, esl_mat_DSet, esl_mat_DScale, esl_mat_DCopy, esl_mat_DMax,
      esl_mat_FSet, esl_mat_FScale, esl_mat_FCopy, esl_mat_FMax, esl_mat_WCopy, esl_mat_BCopy]

/-! ## integers: C `int` / `int64_t` as a range of ℤ with checked arithmetic -/
/-- `some r` iff `r` is representable -/
def chk (lo hi r : Int) : Option Int := if lo ≤ r ∧ r ≤ hi then some r else none

/-- an element type that is a range `[lo, hi]` of the integers with C's (overflow = undefined) arithmetic -/
class CInt (α : Type) extends CElem α where
  toInt : α → Int
  lo : Int
  hi : Int
  toInt_inj : ∀ a b, toInt a = toInt b → a = b
  range : ∀ a, lo ≤ toInt a ∧ toInt a ≤ hi
  lt_iff : ∀ a b, VOrd.lt a b = decide (toInt a < toInt b)
  zero : toInt (ofNat 0) = 0
  add_eq : ∀ a b, (add a b).map toInt = chk lo hi (toInt a + toInt b)
  sub_eq : ∀ a b, (sub a b).map toInt = chk lo hi (toInt a - toInt b)
  mul_eq : ∀ a b, (mul a b).map toInt = chk lo hi (toInt a * toInt b)

theorem checked32 (r : Int) : (checked (-2147483648) 2147483647 Int32.ofInt r).map Int32.toInt = chk (-2147483648) 2147483647 r := by
  unfold checked chk
  split
  · rename_i h; simp only [Option.map_some]; rw [Int32.toInt_ofInt_of_le (by omega) (by omega)]
  · rfl
theorem checked64 (r : Int) :
    (checked (-9223372036854775808) 9223372036854775807 Int64.ofInt r).map Int64.toInt = chk (-9223372036854775808) 9223372036854775807 r := by
  unfold checked chk
  split
  · rename_i h; simp only [Option.map_some]; rw [Int64.toInt_ofInt_of_le (by omega) (by omega)]
  · rfl

instance : CInt Int32 where
  toInt := Int32.toInt
  lo := -2147483648
  hi := 2147483647
  toInt_inj a b h := Int32.toInt_inj.mp h
  range a := by have := Int32.le_toInt a; have := Int32.toInt_lt a; omega
  lt_iff a b := by simp [VOrd.lt, Int32.lt_iff_toInt_lt]
  zero := by decide
  add_eq a b := checked32 _
  sub_eq a b := checked32 _
  mul_eq a b := checked32 _

instance : CInt Int64 where
  toInt := Int64.toInt
  lo := -9223372036854775808
  hi := 9223372036854775807
  toInt_inj a b h := Int64.toInt_inj.mp h
  range a := by have := Int64.le_toInt a; have := Int64.toInt_lt a; omega
  lt_iff a b := by simp [VOrd.lt, Int64.lt_iff_toInt_lt]
  zero := by decide
  add_eq a b := checked64 _
  sub_eq a b := checked64 _
  mul_eq a b := checked64 _

section cint
variable {α : Type} [CInt α]
open CInt

theorem add_some_of_range (a b : α) (h : lo α ≤ toInt a + toInt b ∧ toInt a + toInt b ≤ hi α) :
    ∃ r, CElem.add a b = some r ∧ toInt r = toInt a + toInt b := by
  have := add_eq a b
  rw [chk, if_pos h] at this
  cases hr : CElem.add a b with
  | none => rw [hr] at this; simp at this
  | some r => rw [hr] at this; simp at this; exact ⟨r, rfl, this⟩
theorem add_none_of_not_range (a b : α) (h : ¬(lo α ≤ toInt a + toInt b ∧ toInt a + toInt b ≤ hi α)) : CElem.add a b = none := by
  have := add_eq a b
  rw [chk, if_neg h] at this
  cases hr : CElem.add a b with
  | none => rfl
  | some r => rw [hr] at this; simp at this
theorem mul_some_of_range (a b : α) (h : lo α ≤ toInt a * toInt b ∧ toInt a * toInt b ≤ hi α) :
    ∃ r, CElem.mul a b = some r ∧ toInt r = toInt a * toInt b := by
  have := mul_eq a b
  rw [chk, if_pos h] at this
  cases hr : CElem.mul a b with
  | none => rw [hr] at this; simp at this
  | some r => rw [hr] at this; simp at this; exact ⟨r, rfl, this⟩

/-- the additions of `Sum` succeed and give the mathematical sum as long as every partial sum is representable -/
theorem foldlM_add_some (l : List α) (acc : α)
    (h : ∀ k, k ≤ l.length → lo α ≤ toInt acc + ((l.take k).map toInt).sum ∧ toInt acc + ((l.take k).map toInt).sum ≤ hi α) :
    ∃ r, l.foldlM (fun s x => CElem.add s x) acc = some r ∧ toInt r = toInt acc + (l.map toInt).sum := by
  induction l generalizing acc with
  | nil => exact ⟨acc, rfl, by simp⟩
  | cons x xs ih =>
    have h1 := h 1 (by simp)
    simp only [List.take_succ_cons, List.take_zero, List.map_cons, List.map_nil, List.sum_cons, List.sum_nil, Int.add_zero] at h1
    obtain ⟨r1, e1, t1⟩ := add_some_of_range acc x h1
    obtain ⟨r, e, t⟩ := ih r1 (fun k hk => by
      have := h (k + 1) (by simpa using hk)
      simp only [List.take_succ_cons, List.map_cons, List.sum_cons] at this
      rw [t1]; omega)
    refine ⟨r, ?_, ?_⟩
    · simp only [List.foldlM_cons, e1]; exact e
    · rw [t, t1]; simp only [List.map_cons, List.sum_cons]; omega

/-- the first partial sum that is not representable makes `Sum` fault (undefined behaviour in C) -/
theorem foldlM_add_none (l : List α) (acc : α) (k : Nat) (hk : k ≤ l.length)
    (hbad : ¬(lo α ≤ toInt acc + ((l.take k).map toInt).sum ∧ toInt acc + ((l.take k).map toInt).sum ≤ hi α)) :
    l.foldlM (fun s x => CElem.add s x) acc = none := by
  induction l generalizing acc k with
  | nil => exfalso; apply hbad; have := range acc; simp; exact this
  | cons x xs ih =>
    cases k with
    | zero => exfalso; apply hbad; have := range acc; simp; exact this
    | succ k =>
      simp only [List.foldlM_cons]
      cases e1 : CElem.add acc x with
      | none => rfl
      | some r1 =>
        have t1 : toInt r1 = toInt acc + toInt x := by
          have := add_eq acc x; rw [e1] at this; simp [chk] at this; exact this.2
        show List.foldlM _ r1 xs = none
        apply ih r1 k (by simpa using hk)
        simp only [List.take_succ_cons, List.map_cons, List.sum_cons] at hbad
        rw [t1]; intro hc; apply hbad; omega

/-- **`esl_vec_{I,L}Sum` is wrap-free**: when every partial sum is representable the routine returns the mathematical sum -/
theorem gen_isum_exact (v : Array α)
    (h : ∀ k, k ≤ v.size → lo α ≤ ((v.toList.take k).map toInt).sum ∧ ((v.toList.take k).map toInt).sum ≤ hi α) :
    ∃ r, esl_vec_ISum v v.size = some r ∧ toInt r = (v.toList.map toInt).sum := by
  rw [gen_isum]
  obtain ⟨r, e, t⟩ := foldlM_add_some v.toList (CElem.ofNat 0) (fun k hk => by
    have := h k (by simpa using hk); rw [CInt.zero]; omega)
  exact ⟨r, e, by rw [t, CInt.zero]; omega⟩
/-- … and faults (`none`; undefined behaviour in C, UBSan abort) as soon as one partial sum is not representable -/
theorem gen_isum_overflow (v : Array α) (k : Nat) (hk : k ≤ v.size)
    (hbad : ¬(lo α ≤ ((v.toList.take k).map toInt).sum ∧ ((v.toList.take k).map toInt).sum ≤ hi α)) :
    esl_vec_ISum v v.size = none := by
  rw [gen_isum]
  exact foldlM_add_none v.toList _ k (by simpa using hk) (by rw [CInt.zero]; intro hc; apply hbad; omega)

/-- the products and additions of `Dot` succeed and give the mathematical dot product as long as every product and every partial sum is representable -/
theorem foldlM_dot_some (l : List (α × α)) (acc : α)
    (hp : ∀ p ∈ l, lo α ≤ toInt p.1 * toInt p.2 ∧ toInt p.1 * toInt p.2 ≤ hi α)
    (h : ∀ k, k ≤ l.length → lo α ≤ toInt acc + ((l.take k).map fun p => toInt p.1 * toInt p.2).sum ∧
      toInt acc + ((l.take k).map fun p => toInt p.1 * toInt p.2).sum ≤ hi α) :
    ∃ r, l.foldlM (fun s p => (CElem.mul p.1 p.2).bind fun t => CElem.add s t) acc = some r ∧
      toInt r = toInt acc + (l.map fun p => toInt p.1 * toInt p.2).sum := by
  induction l generalizing acc with
  | nil => exact ⟨acc, rfl, by simp⟩
  | cons x xs ih =>
    obtain ⟨t, et, tt⟩ := mul_some_of_range x.1 x.2 (hp x (by simp))
    have h1 := h 1 (by simp)
    simp only [List.take_succ_cons, List.take_zero, List.map_cons, List.map_nil, List.sum_cons, List.sum_nil, Int.add_zero] at h1
    obtain ⟨r1, e1, t1⟩ := add_some_of_range acc t (by rw [tt]; exact h1)
    obtain ⟨r, e, tr⟩ := ih r1 (fun p hpm => hp p (by simp [hpm])) (fun k hk => by
      have := h (k + 1) (by simpa using hk)
      simp only [List.take_succ_cons, List.map_cons, List.sum_cons] at this
      rw [t1, tt]; omega)
    refine ⟨r, ?_, ?_⟩
    · simp only [List.foldlM_cons, et, Option.bind_some, e1]; exact e
    · rw [tr, t1, tt]; simp only [List.map_cons, List.sum_cons]; omega

/-- **`esl_vec_{I,L}Dot` is wrap-free** under the range hypothesis (every product and every partial sum representable) -/
theorem gen_idot_exact (v w : Array α) (hsz : v.size = w.size)
    (hp : ∀ p ∈ v.toList.zip w.toList, lo α ≤ toInt p.1 * toInt p.2 ∧ toInt p.1 * toInt p.2 ≤ hi α)
    (h : ∀ k, k ≤ v.size → lo α ≤ (((v.toList.zip w.toList).take k).map fun p => toInt p.1 * toInt p.2).sum ∧
      (((v.toList.zip w.toList).take k).map fun p => toInt p.1 * toInt p.2).sum ≤ hi α) :
    ∃ r, esl_vec_IDot v w v.size = some r ∧ toInt r = ((v.toList.zip w.toList).map fun p => toInt p.1 * toInt p.2).sum := by
  rw [gen_idot v w hsz]
  obtain ⟨r, e, t⟩ := foldlM_dot_some (v.toList.zip w.toList) (CElem.ofNat 0) hp (fun k hk => by
    have := h k (by simp at hk; omega); rw [CInt.zero]; omega)
  exact ⟨r, e, by rw [t, CInt.zero]; omega⟩

end cint

end EaselModel.Vec
