/-! # Model of the scalar vector routines of esl_vectorops.c / esl_matrixops.c   (C20, part C)

Hand model (kind H), mirroring the C loops statement by statement, written ONCE over a small numeric class:
`Float` (binary64) and `Float32` (binary32, with the places where the C source computes in `double`) instances run in
the driver and are compared bit-for-bit with the C functions; the `ℝ` / extended-real instances (Vec/Real.lean,
Mathlib) carry the theorems.  Vectors are `List α` (index i = position i).  Core Lean only. -/
namespace EaselModel.Vec

/-- the order test the C code uses (`<`; `a > b` is `lt b a`) -/
class VOrd (α : Type) where
  lt : α → α → Bool

/-- arithmetic of the element type `T` ∈ {double, float} as the C source uses it -/
class VNum (α : Type) extends VOrd α, Add α, Sub α, Mul α, Div α where
  /-- `(T) n` for an integer literal or the vector length -/
  ofNat : Nat → α
  /-- C `==` -/
  eq : α → α → Bool
  log2 : α → α
  /-- `1. / (T) n` as written in `esl_vec_{D,F}Norm` (the float version divides in double) -/
  uniform : Nat → α
  /-- `!isfinite(x) || x < 0.0 || x > 1.0`: the element test of `Validate` -/
  notProb : α → Bool
  /-- `fabs(sum - 1.0) > tol` (evaluated in double in both versions) -/
  offOne : α → α → Bool
  /-- `kl + p * log2(p/q)` as written in `RelEntropy` (the float version calls the double `log2`) -/
  klAdd : α → α → α → α

/-- element types that have IEEE infinities and the transcendental functions of the log-space routines -/
class VInf (α : Type) extends VNum α where
  inf : α
  neg : α → α
  exp : α → α
  log : α → α
  exp2 : α → α
  /-- `x > max - 500.` (D) / `x > max - 50.` evaluated in double (F): the window test of `LogSum` -/
  inWindow : α → α → Bool

/-- what `esl_{D,F}Compare_old` (easel.c) needs beyond `VNum` -/
class VCmp (α : Type) extends VNum α where
  isInf : α → Bool
  isNaN : α → Bool
  /-- `isfinite(x)` -/
  isFinite : α → Bool
  /-- `fabs(x) <= tol` (the float version promotes both sides to double: same truth value) -/
  absLe : α → α → Bool
  /-- `2.*fabs(a-b) / fabs(a+b) <= tol` as written: `a-b`, `a+b` in the element type, the rest in double -/
  relLe : α → α → α → Bool

open VOrd VNum VInf

section generic
variable {α : Type}

/-! ### element-wise updates -/
def scale [VNum α] (v : List α) (s : α) : List α := v.map (· * s)
def increment [VNum α] (v : List α) (x : α) : List α := v.map (· + x)
def add [VNum α] (v w : List α) : List α := List.zipWith (· + ·) v w
def addScaled [VNum α] (v w : List α) (a : α) : List α := List.zipWith (fun x y => x + y * a) v w

/-! ### sums -/
/-- one iteration of the Kahan loop: `y = vec[i] - c; t = sum + y; c = (t-sum)-y; sum = t;` ; state `(sum, c)` -/
def kahanStep [VNum α] (s : α × α) (x : α) : α × α :=
  let y := x - s.2
  let t := s.1 + y
  (t, (t - s.1) - y)

/-- `esl_vec_{D,F}Sum` -/
def sum [VNum α] (v : List α) : α := (v.foldl kahanStep (ofNat 0, ofNat 0)).1

/-- `esl_vec_{D,F}Dot`: `result += vec1[i] * vec2[i]` -/
def dot [VNum α] (v w : List α) : α := (List.zipWith (· * ·) v w).foldl (· + ·) (ofNat 0)

/-! ### extrema.  `Max`/`Min` read `vec[0]` unconditionally: the empty vector is a fault (`none`). -/
def vmax [VOrd α] : List α → Option α
  | [] => none
  | x :: xs => some (xs.foldl (fun best y => if lt best y then y else best) x)

def vmin [VOrd α] : List α → Option α
  | [] => none
  | x :: xs => some (xs.foldl (fun best y => if lt y best then y else best) x)

/-- state of the ArgMax loop: (best, vec[best], i) -/
def argStep (better : α → α → Bool) (s : Nat × α × Nat) (y : α) : Nat × α × Nat :=
  if better y s.2.1 then (s.2.2, y, s.2.2 + 1) else (s.1, s.2.1, s.2.2 + 1)

/-- `esl_vec_*ArgMax`: `best = 0; for (i = 1; i < n; i++) if (vec[i] > vec[best]) best = i;` ; 0 for the empty vector -/
def argmax [VOrd α] : List α → Nat
  | [] => 0
  | x :: xs => (xs.foldl (argStep fun y b => lt b y) (0, x, 1)).1

/-- `esl_vec_*ArgMin` -/
def argmin [VOrd α] : List α → Nat
  | [] => 0
  | x :: xs => (xs.foldl (argStep fun y b => lt y b) (0, x, 1)).1

/-! ### sorting (libc `qsort` with the comparators of the source; modelled by a merge sort: the sorted arrangement
    of a total preorder is unique up to the order of equal keys) -/
def sortIncreasing [VOrd α] (v : List α) : List α := v.mergeSort (fun a b => !(lt b a))
def sortDecreasing [VOrd α] (v : List α) : List α := v.mergeSort (fun a b => !(lt a b))

/-- `esl_vec_*Reverse` (into separate storage) -/
def reverse (v : List α) : List α := v.reverse

/-! ### probability vectors -/
/-- `esl_vec_{D,F}Norm` -/
def norm [VNum α] (v : List α) : List α :=
  let s := sum v
  if !(eq s (ofNat 0)) then v.map (· / s) else v.map (fun _ => uniform v.length)

/-- `esl_vec_{D,F}Entropy`: `if (p[i] > 0.) H -= p[i] * log2(p[i]);` -/
def entropy [VNum α] (p : List α) : α :=
  p.foldl (fun H x => if lt (ofNat 0) x then H - x * log2 x else H) (ofNat 0)

/-- `esl_vec_{D,F}RelEntropy` loop from state `kl`; `none` = the early `return eslINFINITY` -/
def relEntropyGo [VNum α] : List α → List α → α → Option α
  | p :: ps, q :: qs, kl =>
    if lt (ofNat 0) p then
      if eq q (ofNat 0) then none else relEntropyGo ps qs (klAdd kl p q)
    else relEntropyGo ps qs kl
  | _, _, kl => some kl

/-- `esl_vec_{D,F}CDF`; reads `p[0]` unconditionally: empty = fault (`none`) -/
def cdf [VNum α] : List α → Option (List α)
  | [] => none
  | x :: xs => some ((xs.foldl (fun (acc : List α × α) y => let c := y + acc.2; (c :: acc.1, c)) ([x], x)).1.reverse)

/-- `esl_vec_{D,F}Validate`: `true` = `eslOK` -/
def validateGo [VNum α] (tol : α) : List α → α → Bool
  | [], s => !(offOne s tol)
  | x :: xs, s => if notProb x then false else validateGo tol xs (s + x)

def validate [VNum α] (v : List α) (tol : α) : Bool :=
  if v.isEmpty then true else validateGo tol v (ofNat 0)

/-! ### log space -/
/-- `esl_vec_{D,F}Log` -/
def vlog [VInf α] (v : List α) : List α := v.map fun x => if lt (ofNat 0) x then log x else neg inf
/-- `esl_vec_{D,F}Exp` -/
def vexp [VInf α] (v : List α) : List α := v.map exp
/-- `esl_vec_{D,F}Log2` -/
def vlog2 [VInf α] (v : List α) : List α := v.map fun x => if lt (ofNat 0) x then log2 x else neg inf
/-- `esl_vec_{D,F}Exp2` -/
def vexp2 [VInf α] (v : List α) : List α := v.map exp2

/-- `esl_vec_{D,F}LogSum`; `none` = fault on the empty vector (through `Max`) -/
def logSum [VInf α] (v : List α) : Option α :=
  match vmax v with
  | none => none
  | some m =>
    if eq m inf then some inf
    else
      let s := v.foldl (fun s x => if inWindow m x then s + exp (x - m) else s) (ofNat 0)
      some (log s + m)

/-- `esl_vec_{D,F}Log2Sum` -/
def log2Sum [VInf α] (v : List α) : Option α :=
  match vmax v with
  | none => none
  | some m =>
    if eq m inf then some inf
    else
      let s := v.foldl (fun s x => if inWindow m x then s + exp2 (x - m) else s) (ofNat 0)
      some (log2 s + m)

/-- `esl_vec_{D,F}LogNorm`: LogSum, Increment by `-1.*denom`, Exp, Norm -/
def logNorm [VInf α] (v : List α) : Option (List α) :=
  (logSum v).map fun denom => norm (vexp (increment v (neg (ofNat 1) * denom)))

def log2Norm [VInf α] (v : List α) : Option (List α) :=
  (log2Sum v).map fun denom => norm ((increment v (neg (ofNat 1) * denom)).map exp2)

/-- `esl_vec_{D,F}LogValidate` as the source intends (Exp, then Validate) -/
def logValidate [VInf α] (v : List α) (tol : α) : Bool :=
  if v.isEmpty then true else validate (vexp v) tol
def log2Validate [VInf α] (v : List α) (tol : α) : Bool :=
  if v.isEmpty then true else validate (v.map exp2) tol

/-! ### approximate equality: `esl_{D,F}Compare_old` (easel.c) and `esl_vec_{D,F}Compare` -/
/-- `esl_{D,F}Compare_old(a, b, tol)`, line by line; `true` = `eslOK`.  (`fabs(a) == 0.` is `a == 0.`: also true for `-0.`.) -/
def compareOld [VCmp α] (a b tol : α) : Bool :=
  if VCmp.isInf a && VCmp.isInf b then true                                  -- if (isinf(a) && isinf(b)) return eslOK;   (any signs!)
  else if VCmp.isNaN a && VCmp.isNaN b then true                             -- if (isnan(a) && isnan(b)) return eslOK;
  else if !(VCmp.isFinite a) || !(VCmp.isFinite b) then false                -- if (!isfinite(a) || !isfinite(b)) return eslFAIL;
  else if eq a b then true                                                   -- if (a == b) return eslOK;
  else if eq a (ofNat 0) && VCmp.absLe b tol then true                       -- if (fabs(a) == 0. && fabs(b) <= tol) return eslOK;
  else if eq b (ofNat 0) && VCmp.absLe a tol then true                       -- if (fabs(b) == 0. && fabs(a) <= tol) return eslOK;
  else if VCmp.relLe a b tol then true                                       -- if (2.*fabs(a-b) / fabs(a+b) <= tol) return eslOK;
  else false                                                                 -- return eslFAIL;
/-- the status code: `eslOK` = 0, `eslFAIL` = 1 -/
def compareOldStatus [VCmp α] (a b tol : α) : Int := if compareOld a b tol then 0 else 1
/-- `esl_vec_{D,F}Compare`: `for (i..) if (Compare_old(vec1[i], vec2[i], tol) == eslFAIL) return eslFAIL; return eslOK;` ; `true` = `eslOK` -/
def vcompare [VCmp α] (v w : List α) (tol : α) : Bool := (List.zip v w).all fun p => compareOld p.1 p.2 tol
/-- `esl_vec_{I,L}Compare` -/
def icompare [BEq α] (v w : List α) : Bool := (List.zip v w).all fun p => p.1 == p.2

end generic

/-! ### integer variants (`int`, `int64_t`; modelled on `Int`, no wrap-around: signed overflow is undefined in C) -/
instance : VOrd Int := ⟨fun a b => decide (a < b)⟩
def isum (v : List Int) : Int := v.foldl (· + ·) 0
def idot (v w : List Int) : Int := (List.zipWith (· * ·) v w).foldl (· + ·) 0

/-! ### binary64 instance -/
instance : VNum Float where
  lt a b := a < b
  ofNat n := Float.ofNat n
  eq a b := a == b
  log2 := Float.log2
  uniform n := 1.0 / Float.ofNat n
  notProb x := !x.isFinite || x < 0.0 || x > 1.0
  offOne s tol := Float.abs (s - 1.0) > tol
  klAdd kl p q := kl + p * Float.log2 (p / q)

instance : VInf Float where
  inf := 1.0 / 0.0
  neg x := -x
  exp := Float.exp
  log := Float.log
  exp2 := Float.exp2
  inWindow m x := x > m - 500.0

instance : VCmp Float where
  isInf := Float.isInf
  isNaN := Float.isNaN
  isFinite := Float.isFinite
  absLe x tol := Float.abs x ≤ tol
  relLe a b tol := 2.0 * Float.abs (a - b) / Float.abs (a + b) ≤ tol

/-! ### binary32 instance (the `F` routines; sub-expressions the C source evaluates in `double` are evaluated in `Float`) -/
instance : VNum Float32 where
  lt a b := a < b
  ofNat n := Float32.ofNat n
  eq a b := a == b
  log2 := Float32.log2
  uniform n := (1.0 / (Float32.ofNat n).toFloat).toFloat32
  notProb x := !x.isFinite || x < 0.0 || x > 1.0
  offOne s tol := Float.abs (s.toFloat - 1.0) > tol.toFloat
  klAdd kl p q := (kl.toFloat + p.toFloat * Float.log2 (p / q).toFloat).toFloat32

instance : VInf Float32 where
  inf := 1.0 / 0.0
  neg x := -x
  exp := Float32.exp
  log := Float32.log
  exp2 := Float32.exp2
  inWindow m x := x.toFloat > m.toFloat - 50.0

instance : VCmp Float32 where
  isInf := Float32.isInf
  isNaN := Float32.isNaN
  isFinite := Float32.isFinite
  absLe x tol := Float.abs x.toFloat ≤ tol.toFloat
  relLe a b tol := 2.0 * Float.abs (a - b).toFloat / Float.abs (a + b).toFloat ≤ tol.toFloat

/-! ### conversions `esl_vec_D2F / F2D / I2F / I2D`: `dst[i] = src[i]` with C's implicit conversion -/
def d2f (v : List Float) : List Float32 := v.map Float.toFloat32
def f2d (v : List Float32) : List Float := v.map Float32.toFloat
def i2f (v : List Int32) : List Float32 := v.map fun x => Float32.ofInt x.toInt
def i2d (v : List Int32) : List Float := v.map fun x => Float.ofInt x.toInt

end EaselModel.Vec
