import EaselModel.Vec.Rounded
/-! # Kahan's compensated summation under the standard model of floating-point arithmetic (C20, part C, layer L0)

With rounding `|fl z - z| ≤ u|z|` after each of the four operations of the loop body of `esl_vec_{D,F}Sum`
(`y = x - c; t = sum + y; c = (t - sum) - y; sum = t`), the result is within `(7u + 19·n·u²)·Σ|x_i|` of the exact sum, provided
`u ≤ 1/64` and `n·u ≤ 1`: the first-order term does not grow with `n` (plain summation has `≈ n·u`). -/
namespace EaselModel.Vec
section
variable [Rnd]
local notation "u" => Rnd.u

/-- one rounded operation: result = exact + error, `|error| ≤ u·|exact|` -/
theorem fl_split (z : ℝ) : ∃ E, Rnd.fl z = z + E ∧ |E| ≤ u * |z| := ⟨Rnd.fl z - z, by ring, Rnd.err z⟩

/-- `|b| ≤ v·|a|` and `|a| ≤ B` give `|b| ≤ v·B` -/
theorem scale_bound {v a b B : ℝ} (hv : 0 ≤ v) (h : |b| ≤ v * |a|) (ha : |a| ≤ B) : |b| ≤ v * B :=
  le_trans h (mul_le_mul_of_nonneg_left ha hv)

theorem small_mul {v a : ℝ} (hv : v ≤ 1 / 64) (ha : 0 ≤ a) : v * a ≤ a / 64 := by
  have := mul_le_mul_of_nonneg_right hv ha; linarith

/-- the arithmetic of one Kahan step on the error terms -/
theorem kahan_step_bound (uu T A k : ℝ) (hu0 : 0 ≤ uu) (hu : uu ≤ 1 / 64) (hT : 0 ≤ T) (hA : 0 ≤ A) (hk0 : 0 ≤ k) (hk : (k + 1) * uu ≤ 1)
    (s c x e X E1 E2 E3 E4 y : ℝ) (hx : |x| = A) (hX : |X| ≤ T)
    (hc : |c| ≤ 5 * uu * T) (hs : |s| ≤ 2 * T) (he : e = s - c - X) (hebound : |e| ≤ (2 * uu + 19 * k * uu ^ 2) * T)
    (hy : y = x - c + E1) (h1 : |E1| ≤ uu * |x - c|) (h2 : |E2| ≤ uu * |s + y|) (h3 : |E3| ≤ uu * |y + E2|) (h4 : |E4| ≤ uu * |E2 + E3|) :
    |E2 + E3 + E4| ≤ 5 * uu * (T + A) ∧ |s + y + E2| ≤ 2 * (T + A) ∧
      |(s + y + E2) - (E2 + E3 + E4) - (X + x)| ≤ (2 * uu + 19 * (k + 1) * uu ^ 2) * (T + A) ∧ |X + x| ≤ T + A := by
  -- atoms: first, second and third order quantities
  obtain ⟨p1, hp1⟩ : ∃ p, p = uu * T := ⟨_, rfl⟩
  obtain ⟨p2, hp2⟩ : ∃ p, p = uu * A := ⟨_, rfl⟩
  obtain ⟨q1, hq1⟩ : ∃ p, p = uu * p1 := ⟨_, rfl⟩
  obtain ⟨q2, hq2⟩ : ∃ p, p = uu * p2 := ⟨_, rfl⟩
  obtain ⟨r1, hr1⟩ : ∃ p, p = uu * q1 := ⟨_, rfl⟩
  obtain ⟨r2, hr2⟩ : ∃ p, p = uu * q2 := ⟨_, rfl⟩
  obtain ⟨w1, hw1⟩ : ∃ p, p = uu * r1 := ⟨_, rfl⟩
  obtain ⟨w2, hw2⟩ : ∃ p, p = uu * r2 := ⟨_, rfl⟩
  have p1n : 0 ≤ p1 := by rw [hp1]; positivity
  have p2n : 0 ≤ p2 := by rw [hp2]; positivity
  have q1n : 0 ≤ q1 := by rw [hq1]; positivity
  have q2n : 0 ≤ q2 := by rw [hq2]; positivity
  have r1n : 0 ≤ r1 := by rw [hr1]; positivity
  have r2n : 0 ≤ r2 := by rw [hr2]; positivity
  have w1n : 0 ≤ w1 := by rw [hw1]; positivity
  have w2n : 0 ≤ w2 := by rw [hw2]; positivity
  have p1s : p1 ≤ T / 64 := by rw [hp1]; exact small_mul hu hT
  have p2s : p2 ≤ A / 64 := by rw [hp2]; exact small_mul hu hA
  have q1s : q1 ≤ p1 / 64 := by rw [hq1]; exact small_mul hu p1n
  have q2s : q2 ≤ p2 / 64 := by rw [hq2]; exact small_mul hu p2n
  have r1s : r1 ≤ q1 / 64 := by rw [hr1]; exact small_mul hu q1n
  have r2s : r2 ≤ q2 / 64 := by rw [hr2]; exact small_mul hu q2n
  have w1s : w1 ≤ r1 / 64 := by rw [hw1]; exact small_mul hu r1n
  have w2s : w2 ≤ r2 / 64 := by rw [hw2]; exact small_mul hu r2n
  -- |x - c|, E1, y
  have hxc : |x - c| ≤ A + 5 * p1 := by
    have := abs_sub x c; rw [hx] at this; rw [hp1]; linarith
  have hE1 : |E1| ≤ p2 + 5 * q1 := by
    have := scale_bound hu0 h1 hxc
    have e : uu * (A + 5 * p1) = p2 + 5 * q1 := by simp only [hp1, hp2, hq1, hq2, hr1, hr2, hw1, hw2]; ring
    linarith
  have hyb : |y| ≤ A + 5 * p1 + p2 + 5 * q1 := by
    rw [hy]; exact le_trans (abs_add_le _ _) (by linarith)
  -- E2
  have hsy : |s + y| ≤ 2 * T + (A + 5 * p1 + p2 + 5 * q1) := le_trans (abs_add_le _ _) (by linarith)
  have hE2 : |E2| ≤ 2 * p1 + p2 + 5 * q1 + q2 + 5 * r1 := by
    have := scale_bound hu0 h2 hsy
    have e : uu * (2 * T + (A + 5 * p1 + p2 + 5 * q1)) = 2 * p1 + p2 + 5 * q1 + q2 + 5 * r1 := by simp only [hp1, hp2, hq1, hq2, hr1, hr2, hw1, hw2]; ring
    linarith
  -- E3
  have hyE2 : |y + E2| ≤ (A + 5 * p1 + p2 + 5 * q1) + (2 * p1 + p2 + 5 * q1 + q2 + 5 * r1) := le_trans (abs_add_le _ _) (by linarith)
  have hE3 : |E3| ≤ p2 + 7 * q1 + 2 * q2 + 10 * r1 + r2 + 5 * w1 := by
    have := scale_bound hu0 h3 hyE2
    have e : uu * ((A + 5 * p1 + p2 + 5 * q1) + (2 * p1 + p2 + 5 * q1 + q2 + 5 * r1))
        = p2 + 7 * q1 + 2 * q2 + 10 * r1 + r2 + 5 * w1 := by simp only [hp1, hp2, hq1, hq2, hr1, hr2, hw1, hw2]; ring
    linarith
  -- E4
  have hE23 : |E2 + E3| ≤ (2 * p1 + p2 + 5 * q1 + q2 + 5 * r1) + (p2 + 7 * q1 + 2 * q2 + 10 * r1 + r2 + 5 * w1) :=
    le_trans (abs_add_le _ _) (by linarith)
  have hE4 : |E4| ≤ 2 * q1 + 2 * q2 + 12 * r1 + 3 * r2 + 15 * w1 + w2 + 5 * (uu * w1) := by
    have := scale_bound hu0 h4 hE23
    have e : uu * ((2 * p1 + p2 + 5 * q1 + q2 + 5 * r1) + (p2 + 7 * q1 + 2 * q2 + 10 * r1 + r2 + 5 * w1))
        = 2 * q1 + 2 * q2 + 12 * r1 + 3 * r2 + 15 * w1 + w2 + 5 * (uu * w1) := by simp only [hp1, hp2, hq1, hq2, hr1, hr2, hw1, hw2]; ring
    linarith
  have hv1 : uu * w1 ≤ w1 / 64 := small_mul hu w1n
  have hv1n : 0 ≤ uu * w1 := mul_nonneg hu0 w1n
  -- c'
  have hc' : |E2 + E3 + E4| ≤ 5 * uu * (T + A) := by
    have h : |E2 + E3 + E4| ≤ |E2| + |E3| + |E4| := le_trans (abs_add_le _ _) (by linarith [abs_add_le E2 E3])
    have e : 5 * uu * (T + A) = 5 * p1 + 5 * p2 := by simp only [hp1, hp2, hq1, hq2, hr1, hr2, hw1, hw2]; ring
    rw [e]
    linarith only [h, hE2, hE3, hE4, p1n, p2n, q1n, q2n, r1n, r2n, w1n, w2n, p1s, p2s, q1s, q2s, r1s, r2s, w1s, w2s, hv1, hv1n]
  -- e'
  have hee : (s + y + E2) - (E2 + E3 + E4) - (X + x) = e + E1 - E3 - E4 := by rw [he, hy]; ring
  have hkq : 0 ≤ k * q1 ∧ 0 ≤ k * q2 := ⟨mul_nonneg hk0 q1n, mul_nonneg hk0 q2n⟩
  have he' : |(s + y + E2) - (E2 + E3 + E4) - (X + x)| ≤ (2 * uu + 19 * (k + 1) * uu ^ 2) * (T + A) := by
    have h : |e + E1 - E3 - E4| ≤ |e| + |E1| + |E3| + |E4| := by
      calc |e + E1 - E3 - E4| ≤ |e + E1 - E3| + |E4| := abs_sub _ _
        _ ≤ |e + E1| + |E3| + |E4| := by linarith [abs_sub (e + E1) E3]
        _ ≤ |e| + |E1| + |E3| + |E4| := by linarith [abs_add_le e E1]
    have e1 : (2 * uu + 19 * k * uu ^ 2) * T = 2 * p1 + 19 * (k * q1) := by simp only [hp1, hp2, hq1, hq2, hr1, hr2, hw1, hw2]; ring
    have e2 : (2 * uu + 19 * (k + 1) * uu ^ 2) * (T + A) = 2 * p1 + 2 * p2 + 19 * (k * q1) + 19 * (k * q2) + 19 * q1 + 19 * q2 := by
      rw [hq1, hq2, hp1, hp2]; ring
    rw [hee, e2]; rw [e1] at hebound
    linarith only [h, hebound, hE1, hE3, hE4, hkq.1, hkq.2, p1n, p2n, q1n, q2n, r1n, r2n, w1n, w2n, p1s, p2s, q1s, q2s, r1s, r2s, w1s, w2s, hv1, hv1n]
  have hXx : |X + x| ≤ T + A := by
    have := abs_add_le X x; rw [hx] at this; linarith
  refine ⟨hc', ?_, he', hXx⟩
  -- s' = X' + e' + c'
  have hs'eq : s + y + E2 = (X + x) + ((s + y + E2) - (E2 + E3 + E4) - (X + x)) + (E2 + E3 + E4) := by ring
  have h : |s + y + E2| ≤ |X + x| + |(s + y + E2) - (E2 + E3 + E4) - (X + x)| + |E2 + E3 + E4| := by
    conv_lhs => rw [hs'eq]
    exact le_trans (abs_add_le _ _) (by linarith only [abs_add_le (X + x) ((s + y + E2) - (E2 + E3 + E4) - (X + x))])
  have e2 : (2 * uu + 19 * (k + 1) * uu ^ 2) * (T + A) = 2 * (p1 + p2) + 19 * ((k + 1) * uu) * (p1 + p2) := by simp only [hp1, hp2, hq1, hq2, hr1, hr2, hw1, hw2]; ring
  have e3 : 5 * uu * (T + A) = 5 * (p1 + p2) := by simp only [hp1, hp2, hq1, hq2, hr1, hr2, hw1, hw2]; ring
  have hkp : 19 * ((k + 1) * uu) * (p1 + p2) ≤ 19 * (p1 + p2) := by
    have hpp : 0 ≤ p1 + p2 := add_nonneg p1n p2n
    have := mul_le_mul_of_nonneg_right hk hpp
    linarith only [this]
  rw [e2] at he'; rw [e3] at hc'
  linarith only [h, he', hc', hXx, hkp, p1n, p2n, p1s, p2s, hT, hA]

/-- exact and absolute sums of the values -/
def exactSum (v : List RR) : ℝ := (v.map RR.val).sum
def absSum (v : List RR) : ℝ := (v.map fun x => |x.val|).sum

theorem absSum_nonneg (v : List RR) : 0 ≤ absSum v := by
  unfold absSum; apply List.sum_nonneg; intro x hx
  simp only [List.mem_map] at hx; obtain ⟨a, _, rfl⟩ := hx; exact abs_nonneg _

/-- the loop invariant of the Kahan loop after `k` elements with exact partial sum `X` and absolute partial sum `T` -/
def KInv (k : ℕ) (st : RR × RR) (X T : ℝ) : Prop :=
  |st.2.val| ≤ 5 * u * T ∧ |st.1.val| ≤ 2 * T ∧ |st.1.val - st.2.val - X| ≤ (2 * u + 19 * k * u ^ 2) * T ∧ |X| ≤ T

theorem kahan_step_inv (k : ℕ) (st : RR × RR) (X T : ℝ) (x : RR) (hu : u ≤ 1 / 64) (hk : ((k : ℝ) + 1) * u ≤ 1) (hT : 0 ≤ T)
    (h : KInv k st X T) : KInv (k + 1) (kahanStep st x) (X + x.val) (T + |x.val|) := by
  obtain ⟨hc, hs, he, hX⟩ := h
  obtain ⟨E1, hy, h1⟩ := fl_split (x.val - st.2.val)
  obtain ⟨E2, ht, h2⟩ := fl_split (st.1.val + (x.val - st.2.val + E1))
  obtain ⟨E3, hd, h3⟩ := fl_split ((st.1.val + (x.val - st.2.val + E1) + E2) - st.1.val)
  obtain ⟨E4, hc', h4⟩ := fl_split (((st.1.val + (x.val - st.2.val + E1) + E2) - st.1.val + E3) - (x.val - st.2.val + E1))
  have hyv : ((x - st.2 : RR)).val = x.val - st.2.val + E1 := hy
  have htv : ((st.1 + (x - st.2) : RR)).val = st.1.val + (x.val - st.2.val + E1) + E2 := by
    show Rnd.fl (st.1.val + (x - st.2 : RR).val) = _; rw [hyv]; exact ht
  have hcv : (((st.1 + (x - st.2)) - st.1 - (x - st.2) : RR)).val = E2 + E3 + E4 := by
    show Rnd.fl (Rnd.fl ((st.1 + (x - st.2) : RR).val - st.1.val) - (x - st.2 : RR).val) = _
    rw [htv, hyv, hd, hc']; ring
  have e3 : (st.1.val + (x.val - st.2.val + E1) + E2) - st.1.val = (x.val - st.2.val + E1) + E2 := by ring
  have e4 : ((st.1.val + (x.val - st.2.val + E1) + E2) - st.1.val + E3) - (x.val - st.2.val + E1) = E2 + E3 := by ring
  rw [e3] at h3; rw [e4] at h4
  have := kahan_step_bound u T |x.val| k Rnd.u_nonneg hu hT (abs_nonneg _) (Nat.cast_nonneg k) hk
    st.1.val st.2.val x.val (st.1.val - st.2.val - X) X E1 E2 E3 E4 (x.val - st.2.val + E1) rfl hX hc hs rfl he rfl h1 h2 h3 h4
  obtain ⟨g1, g2, g3, g4⟩ := this
  unfold KInv kahanStep
  simp only []
  rw [hcv, htv]
  refine ⟨g1, g2, ?_, g4⟩
  push_cast
  exact g3

theorem kahan_fold_inv (v : List RR) (k : ℕ) (st : RR × RR) (X T : ℝ) (hu : u ≤ 1 / 64)
    (hk : ((k : ℝ) + v.length) * u ≤ 1) (hT : 0 ≤ T) (h : KInv k st X T) :
    KInv (k + v.length) (v.foldl kahanStep st) (X + exactSum v) (T + absSum v) := by
  induction v generalizing k st X T with
  | nil => simpa [exactSum, absSum] using h
  | cons x xs ih =>
    have hu0 := Rnd.u_nonneg
    have hlen : ((x :: xs).length : ℝ) = (xs.length : ℝ) + 1 := by simp
    have hk1 : ((k : ℝ) + 1) * u ≤ 1 := by
      rw [hlen] at hk
      have : 0 ≤ (xs.length : ℝ) * u := mul_nonneg (Nat.cast_nonneg _) hu0
      nlinarith
    have step := kahan_step_inv k st X T x hu hk1 hT h
    have hk2 : (((k + 1 : ℕ) : ℝ) + xs.length) * u ≤ 1 := by rw [hlen] at hk; push_cast; linarith
    have := ih (k + 1) (kahanStep st x) (X + x.val) (T + |x.val|) hk2 (by positivity) step
    simp only [List.foldl_cons, List.length_cons, exactSum, absSum, List.map_cons, List.sum_cons] at this ⊢
    have e1 : k + 1 + xs.length = k + (xs.length + 1) := by omega
    rw [e1] at this
    have e2 : X + x.val + (List.map RR.val xs).sum = X + (x.val + (List.map RR.val xs).sum) := by ring
    have e3 : T + |x.val| + (List.map (fun x => |x.val|) xs).sum = T + (|x.val| + (List.map (fun x => |x.val|) xs).sum) := by ring
    rw [e2, e3] at this
    exact this

/-- **Kahan summation under the standard model**: `esl_vec_{D,F}Sum` is within `(7u + 19·n·u²)·Σ|x_i|` of the exact sum
    (`u ≤ 1/64`, `n·u ≤ 1`): the first-order error does not grow with the length. -/
theorem kahan_rounding (v : List RR) (hu : u ≤ 1 / 64) (hn : (v.length : ℝ) * u ≤ 1) :
    |(sum v).val - exactSum v| ≤ (7 * u + 19 * v.length * u ^ 2) * absSum v := by
  have h0 : KInv 0 ((VNum.ofNat 0 : RR), (VNum.ofNat 0 : RR)) 0 0 := by
    unfold KInv; simp [VNum.ofNat]
  have := kahan_fold_inv v 0 _ 0 0 hu (by simpa using hn) (le_refl _) h0
  obtain ⟨hc, _, he, _⟩ := this
  simp only [Nat.zero_add, zero_add] at hc he
  unfold sum
  have hT := absSum_nonneg v
  set st := v.foldl kahanStep ((VNum.ofNat 0 : RR), (VNum.ofNat 0 : RR)) with hst
  have : st.1.val - exactSum v = (st.1.val - st.2.val - exactSum v) + st.2.val := by ring
  rw [this]
  have h := abs_add_le (st.1.val - st.2.val - exactSum v) st.2.val
  nlinarith [mul_nonneg Rnd.u_nonneg hT]

end
end EaselModel.Vec
