import EaselModel.Vec.Real
import EaselModel.Vec.GenMore
/-! # `esl_{D,F}Compare_old` / `esl_vec_{D,F}Compare` over the reals (C20, part C)

The hand model `compareOld` (line by line the C text of easel.c) at the real-number instance: no infinities, no NaNs, and the IEEE
quotient `x / 0 = +inf` for `x > 0` (which is never `<= tol` for a real `tol`) is spelt out in `relLe`. -/
namespace EaselModel.Vec
open VOrd VNum

noncomputable instance instVCmpReal : VCmp ℝ where
  isInf _ := false
  isNaN _ := false
  isFinite _ := true
  absLe x tol := decide (|x| ≤ tol)
  relLe a b tol := decide (a + b ≠ 0 ∧ 2 * |a - b| / |a + b| ≤ tol)

/-- documented meaning of the scalar test: equal, or one of them zero and the other within `tol`, or relative difference
    `2|a-b| / |a+b| <= tol` -/
def closeR (a b tol : ℝ) : Prop :=
  a = b ∨ (a = 0 ∧ |b| ≤ tol) ∨ (b = 0 ∧ |a| ≤ tol) ∨ (a + b ≠ 0 ∧ 2 * |a - b| / |a + b| ≤ tol)

theorem compareOld_real (a b tol : ℝ) : compareOld a b tol = true ↔ closeR a b tol := by
  unfold compareOld closeR
  simp only [VCmp.isInf, VCmp.isNaN, VCmp.isFinite, VCmp.absLe, VCmp.relLe, Bool.false_and, Bool.not_true, Bool.or_false,
    Bool.false_eq_true, if_false, r_eq, r_ofNat, Nat.cast_zero]
  by_cases h1 : a = b <;> by_cases ha : a = 0 <;> by_cases hb : |b| ≤ tol <;> by_cases hb0 : b = 0 <;> by_cases haa : |a| ≤ tol <;>
    by_cases h4 : (a + b ≠ 0 ∧ 2 * |a - b| / |a + b| ≤ tol) <;> simp [h1, ha, hb, hb0, haa, h4]

theorem closeR_refl (a tol : ℝ) : closeR a a tol := Or.inl rfl
theorem closeR_symm (a b tol : ℝ) (h : closeR a b tol) : closeR b a tol := by
  rcases h with h | h | h | ⟨h1, h2⟩
  · exact Or.inl h.symm
  · exact Or.inr (Or.inr (Or.inl h))
  · exact Or.inr (Or.inl h)
  · refine Or.inr (Or.inr (Or.inr ⟨by rwa [add_comm], ?_⟩))
    rwa [abs_sub_comm, add_comm]

/-- `esl_vec_{D,F}Compare` over ℝ: `eslOK` iff every cognate pair is close -/
theorem vcompare_real (v w : List ℝ) (tol : ℝ) : vcompare v w tol = true ↔ ∀ p ∈ v.zip w, closeR p.1 p.2 tol := by
  unfold vcompare
  rw [List.all_eq_true]
  exact forall_congr' fun p => imp_congr_right fun _ => compareOld_real p.1 p.2 tol

theorem vcompare_self (v : List ℝ) (tol : ℝ) : vcompare v v tol = true := by
  rw [vcompare_real]
  intro p hp
  have : p.1 = p.2 := by
    obtain ⟨k, hk, rfl⟩ := List.mem_iff_getElem.mp hp
    simp
  exact Or.inl this

/-- a zero tolerance is exact equality (away from the degenerate `a = -b`… which `a + b ≠ 0` excludes): `closeR a b 0 ↔ a = b` -/
theorem closeR_zero (a b : ℝ) : closeR a b 0 ↔ a = b := by
  constructor
  · rintro (h | ⟨h1, h2⟩ | ⟨h1, h2⟩ | ⟨h1, h2⟩)
    · exact h
    · rw [h1]; exact (abs_nonpos_iff.mp h2).symm
    · rw [h1]; exact abs_nonpos_iff.mp h2
    · have hpos : 0 < |a + b| := abs_pos.mpr h1
      have : 2 * |a - b| ≤ 0 := by
        have := (div_le_iff₀ hpos).mp h2
        simpa using this
      have : |a - b| ≤ 0 := by linarith
      exact sub_eq_zero.mp (abs_nonpos_iff.mp this)
  · intro h; exact Or.inl h

end EaselModel.Vec
