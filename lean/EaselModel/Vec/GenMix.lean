import EaselModel.Vec.GenFloat
/-! # The REGENERATED probability / log-space routines over `float` (C20, part C)

`Generated/VectorOps.lean` contains `esl_vec_F{Norm,Log,Log2,Exp,Exp2,LogSum,Log2Sum,LogNorm,Log2Norm,Entropy}` as clang parsed them: binary32
cells `α`, and every sub-expression the C text evaluates in `double` (`sum != 0.0`, `1. / (float) n`, `vec[i] > 0.`, `vec[i] > max - 50.`,
`-1.*denom`) at a second type `ω` reached through `VMix.widen` / `VMix.narrow`.  The driver runs them at `VMix Float32 Float`
(bit-exact differential run).  Here: over exact arithmetic — one type, both conversions the identity (`VMix.same`) — they compute the
functions of the hand model `Vec/Model.lean` for EVERY element type with the operations of `VInf`; where the C text of the `float`
routine coincides with the `double` routine the two translations are the same term (`rfl`).  Core Lean only. -/
namespace EaselModel.Vec
open Gen VOrd VNum VInf

attribute [local instance] VMix.same

theorem widen_same {α : Type} (x : α) : (VMix.widen x : α) = x := rfl
theorem narrow_same {α : Type} (x : α) : (VMix.narrow x : α) = x := rfl

section vnum
variable {α : Type} [VNum α]
/-- same C text up to the libm suffix `f` and the (here vacuous) promotion of a comparison to `double` -/
theorem entropy_FD (v : Array α) (n : Int) : esl_vec_FEntropy v n = esl_vec_DEntropy v n := rfl
/-- `esl_vec_FNorm`: `vec[i] /= sum` in binary32, `1. / (float) n` in double then rounded — over exact arithmetic the `double` routine -/
theorem norm_FD (v : Array α) (n : Int) : esl_vec_FNorm v n = esl_vec_DNorm v n := rfl
end vnum

section mix
variable {α : Type} [VInf α]

theorem exp_FD (v : Array α) (n : Int) : esl_vec_FExp v n = esl_vec_DExp v n := rfl
theorem exp2_FD (v : Array α) (n : Int) : esl_vec_FExp2 v n = esl_vec_DExp2 v n := rfl
theorem log_FD (v : Array α) (n : Int) : esl_vec_FLog v n = esl_vec_DLog v n := rfl
theorem log2_FD (v : Array α) (n : Int) : esl_vec_FLog2 v n = esl_vec_DLog2 v n := rfl

/-- `esl_vec_FLogSum` as regenerated = `logSum` with the window `x > max - 50.` -/
theorem gen_FLogSum (hw : ∀ m x : α, inWindow m x = lt (m - ofNat 50) x) (v : Array α) :
    esl_vec_FLogSum v v.size = logSum v.toList := by
  unfold esl_vec_FLogSum logSum
  rw [max_FI, gen_max v]
  cases hm : vmax v.toList with
  | none => rfl
  | some m =>
    simp only [bind, pure, Option.bind_some, celem_ofNat, celem_eq, celem_sub, celem_add, widen_same]
    cases he : VNum.eq m (inf : α)
    · simp only [Bool.false_eq_true, if_false]
      rw [loop_scan0 v _ _ (fun x (s : α) => some (if inWindow m x then s + exp (x - m) else s)) (fun i s => by
        cases hx : rd v i with
        | none => rfl
        | some x => simp only [hw, Option.bind_some]; cases c : lt (m - ofNat 50 : α) x <;> simp)]
      rw [foldlM_pure]
      rfl
    · simp
theorem gen_FLog2Sum (hw : ∀ m x : α, inWindow m x = lt (m - ofNat 50) x) (v : Array α) :
    esl_vec_FLog2Sum v v.size = log2Sum v.toList := by
  unfold esl_vec_FLog2Sum log2Sum
  rw [max_FI, gen_max v]
  cases hm : vmax v.toList with
  | none => rfl
  | some m =>
    simp only [bind, pure, Option.bind_some, celem_ofNat, celem_eq, celem_sub, celem_add, widen_same]
    cases he : VNum.eq m (inf : α)
    · simp only [Bool.false_eq_true, if_false]
      rw [loop_scan0 v _ _ (fun x (s : α) => some (if inWindow m x then s + exp2 (x - m) else s)) (fun i s => by
        cases hx : rd v i with
        | none => rfl
        | some x => simp only [hw, Option.bind_some]; cases c : lt (m - ofNat 50 : α) x <;> simp)]
      rw [foldlM_pure]
      rfl
    · simp

/-- `esl_vec_FLogNorm` / `esl_vec_FLog2Norm` as regenerated (LogSum, Increment by `(float)(-1.*(double)denom)`, Exp, Norm) -/
theorem gen_FLogNorm (hu : ∀ n : Nat, (uniform n : α) = ofNat 1 / ofNat n) (hw : ∀ m x : α, inWindow m x = lt (m - ofNat 50) x) (v : Array α) :
    (esl_vec_FLogNorm v v.size).map Array.toList = logNorm v.toList := by
  unfold esl_vec_FLogNorm logNorm
  rw [gen_FLogSum hw v]
  cases hs : logSum v.toList with
  | none => rfl
  | some denom =>
    simp only [bind, pure, Option.bind_some, Option.map_some, widen_same, narrow_same]
    rw [increment_FD]
    obtain ⟨r1, h1, l1⟩ := gen_increment v (neg (ofNat 1) * denom)
    have s1 : v.size = r1.size := by have := congrArg List.length l1; simp [increment] at this; omega
    rw [h1]; simp only [Option.bind_some]
    obtain ⟨r2, h2, l2⟩ := gen_DExp r1
    have s2 : r1.size = r2.size := by have := congrArg List.length l2; simp [vexp] at this; omega
    rw [s1, exp_FD, h2]; simp only [Option.bind_some]
    obtain ⟨r3, h3, l3⟩ := gen_DNorm hu r2
    rw [s2, norm_FD, h3]; simp only [Option.bind_some, Option.map_some]
    rw [l3, l2, l1]
theorem gen_FLog2Norm (hu : ∀ n : Nat, (uniform n : α) = ofNat 1 / ofNat n) (hw : ∀ m x : α, inWindow m x = lt (m - ofNat 50) x) (v : Array α) :
    (esl_vec_FLog2Norm v v.size).map Array.toList = log2Norm v.toList := by
  unfold esl_vec_FLog2Norm log2Norm
  rw [gen_FLog2Sum hw v]
  cases hs : log2Sum v.toList with
  | none => rfl
  | some denom =>
    simp only [bind, pure, Option.bind_some, Option.map_some, widen_same, narrow_same]
    rw [increment_FD]
    obtain ⟨r1, h1, l1⟩ := gen_increment v (neg (ofNat 1) * denom)
    have s1 : v.size = r1.size := by have := congrArg List.length l1; simp [increment] at this; omega
    rw [h1]; simp only [Option.bind_some]
    obtain ⟨r2, h2, l2⟩ := gen_DExp2 r1
    have s2 : r1.size = r2.size := by have := congrArg List.length l2; simp [vexp2] at this; omega
    rw [s1, exp2_FD, h2]; simp only [Option.bind_some]
    obtain ⟨r3, h3, l3⟩ := gen_DNorm hu r2
    rw [s2, norm_FD, h3]; simp only [Option.bind_some, Option.map_some]
    rw [l3, l2, l1]; rfl

end mix
end EaselModel.Vec
