import EaselModel.Vec.Model
import Mathlib.Data.Real.Basic
import Mathlib.Analysis.SpecialFunctions.Log.Base
import Mathlib.Algebra.BigOperators.Group.List.Basic
import Mathlib.Tactic.Ring
import Mathlib.Tactic.Linarith
import Mathlib.Tactic.FieldSimp
/-! # The vector routines as real functions (C20, part C; layers L1/L2 of DESIGN §3.4)

The SAME definitions that run bit-for-bit against the C code (`Vec/Model.lean`, `Float`/`Float32` instances) are here
instantiated at `ℝ` (and, for the order-only routines, at any linear order, e.g. `Int`) and proved to return their
definition for every vector. -/
namespace EaselModel.Vec
open VOrd VNum

/-- the order test of the instance is the order of the type -/
class LawfulVOrd (α : Type) [LinearOrder α] [VOrd α] : Prop where
  lt_iff : ∀ a b : α, VOrd.lt a b = true ↔ a < b

instance : LawfulVOrd Int := ⟨fun a b => by simp [VOrd.lt]⟩

noncomputable instance instVNumReal : VNum ℝ where
  lt a b := decide (a < b)
  add := (· + ·)
  sub := (· - ·)
  mul := (· * ·)
  div := (· / ·)
  ofNat n := (n : ℝ)
  eq a b := decide (a = b)
  log2 x := Real.logb 2 x
  uniform n := 1 / (n : ℝ)
  notProb x := decide (x < 0 ∨ x > 1)
  offOne s tol := decide (|s - 1| > tol)
  klAdd kl p q := kl + p * Real.logb 2 (p / q)

instance : LawfulVOrd ℝ := ⟨fun a b => by simp [VOrd.lt]⟩

@[simp] theorem r_ofNat (n : Nat) : (VNum.ofNat n : ℝ) = (n : ℝ) := rfl
@[simp] theorem r_lt (a b : ℝ) : VOrd.lt a b = decide (a < b) := rfl
@[simp] theorem r_eq (a b : ℝ) : VNum.eq a b = decide (a = b) := rfl
@[simp] theorem r_log2 (x : ℝ) : VNum.log2 x = Real.logb 2 x := rfl
@[simp] theorem r_uniform (n : Nat) : (VNum.uniform n : ℝ) = 1 / (n : ℝ) := rfl
@[simp] theorem r_notProb (x : ℝ) : VNum.notProb x = decide (x < 0 ∨ x > 1) := rfl
@[simp] theorem r_offOne (s t : ℝ) : VNum.offOne s t = decide (|s - 1| > t) := rfl
@[simp] theorem r_klAdd (k p q : ℝ) : VNum.klAdd k p q = k + p * Real.logb 2 (p / q) := rfl

/-! ### sums -/
theorem kahan_fold (v : List ℝ) (s : ℝ) : v.foldl kahanStep (s, 0) = (s + v.sum, 0) := by
  induction v generalizing s with
  | nil => simp
  | cons x xs ih =>
    have h : kahanStep (s, (0 : ℝ)) x = (s + x, 0) := by
      simp only [kahanStep]; ext <;> simp
    rw [List.foldl_cons, h, ih, List.sum_cons]; ext <;> simp; ring

/-- Kahan's compensated loop is the exact sum over the reals (the compensation term is identically zero) -/
theorem sum_eq_real (v : List ℝ) : sum v = v.sum := by
  unfold sum
  have := kahan_fold v 0
  simp only [r_ofNat, Nat.cast_zero] at *
  rw [this]; simp

theorem foldl_add (v : List ℝ) (s : ℝ) : v.foldl (· + ·) s = s + v.sum := by
  induction v generalizing s with
  | nil => simp
  | cons x xs ih => rw [List.foldl_cons, ih, List.sum_cons]; ring

theorem dot_eq_real (v w : List ℝ) : dot v w = (List.zipWith (· * ·) v w).sum := by
  unfold dot; rw [foldl_add]; simp

/-! ### extrema over any linear order -/
section order
variable {α : Type} [LinearOrder α] [VOrd α] [LawfulVOrd α]

theorem lt_eq_decide (a b : α) : VOrd.lt a b = decide (a < b) := by
  rw [Bool.eq_iff_iff]; simp [LawfulVOrd.lt_iff]

theorem foldl_max_spec (xs : List α) (b : α) :
    let r := xs.foldl (fun best y => if VOrd.lt best y then y else best) b
    (r = b ∨ r ∈ xs) ∧ b ≤ r ∧ ∀ x ∈ xs, x ≤ r := by
  induction xs generalizing b with
  | nil => simp
  | cons x xs ih =>
    simp only [List.foldl_cons, lt_eq_decide, decide_eq_true_eq]
    by_cases h : b < x
    · simp only [h, ↓reduceIte]
      have := ih x
      simp only [lt_eq_decide, decide_eq_true_eq] at this
      obtain ⟨h1, h2, h3⟩ := this
      refine ⟨?_, le_trans (le_of_lt h) h2, ?_⟩
      · rcases h1 with h1 | h1
        · right; rw [h1]; exact List.mem_cons_self
        · right; exact List.mem_cons_of_mem _ h1
      · intro y hy
        rcases List.mem_cons.mp hy with e | e
        · rw [e]; exact h2
        · exact h3 y e
    · simp only [h, ↓reduceIte]
      have := ih b
      simp only [lt_eq_decide, decide_eq_true_eq] at this
      obtain ⟨h1, h2, h3⟩ := this
      refine ⟨?_, h2, ?_⟩
      · rcases h1 with h1 | h1
        · left; exact h1
        · right; exact List.mem_cons_of_mem _ h1
      · intro y hy
        rcases List.mem_cons.mp hy with e | e
        · rw [e]; exact le_trans (not_lt.mp h) h2
        · exact h3 y e

/-- `Max` returns an element of the vector that bounds every element -/
theorem vmax_spec (v : List α) (h : v ≠ []) : ∃ m, vmax v = some m ∧ m ∈ v ∧ ∀ x ∈ v, x ≤ m := by
  cases v with
  | nil => exact absurd rfl h
  | cons x xs =>
    have := foldl_max_spec xs x
    obtain ⟨h1, h2, h3⟩ := this
    refine ⟨_, rfl, ?_, ?_⟩
    · rcases h1 with h1 | h1
      · rw [h1]; exact List.mem_cons_self
      · exact List.mem_cons_of_mem _ h1
    · intro y hy
      rcases List.mem_cons.mp hy with e | e
      · rw [e]; exact h2
      · exact h3 y e

theorem foldl_min_spec (xs : List α) (b : α) :
    let r := xs.foldl (fun best y => if VOrd.lt y best then y else best) b
    (r = b ∨ r ∈ xs) ∧ r ≤ b ∧ ∀ x ∈ xs, r ≤ x := by
  induction xs generalizing b with
  | nil => simp
  | cons x xs ih =>
    simp only [List.foldl_cons, lt_eq_decide, decide_eq_true_eq]
    by_cases h : x < b
    · simp only [h, ↓reduceIte]
      have := ih x
      simp only [lt_eq_decide, decide_eq_true_eq] at this
      obtain ⟨h1, h2, h3⟩ := this
      refine ⟨?_, le_trans h2 (le_of_lt h), ?_⟩
      · rcases h1 with h1 | h1
        · right; rw [h1]; exact List.mem_cons_self
        · right; exact List.mem_cons_of_mem _ h1
      · intro y hy
        rcases List.mem_cons.mp hy with e | e
        · rw [e]; exact h2
        · exact h3 y e
    · simp only [h, ↓reduceIte]
      have := ih b
      simp only [lt_eq_decide, decide_eq_true_eq] at this
      obtain ⟨h1, h2, h3⟩ := this
      refine ⟨?_, h2, ?_⟩
      · rcases h1 with h1 | h1
        · left; exact h1
        · right; exact List.mem_cons_of_mem _ h1
      · intro y hy
        rcases List.mem_cons.mp hy with e | e
        · rw [e]; exact le_trans h2 (not_lt.mp h)
        · exact h3 y e

theorem vmin_spec (v : List α) (h : v ≠ []) : ∃ m, vmin v = some m ∧ m ∈ v ∧ ∀ x ∈ v, m ≤ x := by
  cases v with
  | nil => exact absurd rfl h
  | cons x xs =>
    have := foldl_min_spec xs x
    obtain ⟨h1, h2, h3⟩ := this
    refine ⟨_, rfl, ?_, ?_⟩
    · rcases h1 with h1 | h1
      · rw [h1]; exact List.mem_cons_self
      · exact List.mem_cons_of_mem _ h1
    · intro y hy
      rcases List.mem_cons.mp hy with e | e
      · rw [e]; exact h2
      · exact h3 y e

/-! sorting: an ordered permutation -/
theorem sortIncreasing_spec (v : List α) : (sortIncreasing v).Perm v ∧ (sortIncreasing v).Pairwise (· ≤ ·) := by
  unfold sortIncreasing
  refine ⟨List.mergeSort_perm _ _, ?_⟩
  have := List.pairwise_mergeSort (le := fun a b : α => !(VOrd.lt b a))
    (fun a b c h1 h2 => by
      simp only [lt_eq_decide, Bool.not_eq_true', decide_eq_false_iff_not, not_lt] at *; exact le_trans h1 h2)
    (fun a b => by simp only [lt_eq_decide, Bool.or_eq_true, Bool.not_eq_true', decide_eq_false_iff_not, not_lt]; exact le_total a b) v
  refine this.imp ?_
  intro a b hab
  simpa [lt_eq_decide] using hab

theorem sortDecreasing_spec (v : List α) : (sortDecreasing v).Perm v ∧ (sortDecreasing v).Pairwise (· ≥ ·) := by
  unfold sortDecreasing
  refine ⟨List.mergeSort_perm _ _, ?_⟩
  have := List.pairwise_mergeSort (le := fun a b : α => !(VOrd.lt a b))
    (fun a b c h1 h2 => by
      simp only [lt_eq_decide, Bool.not_eq_true', decide_eq_false_iff_not, not_lt] at *; exact le_trans h2 h1)
    (fun a b => by simp only [lt_eq_decide, Bool.or_eq_true, Bool.not_eq_true', decide_eq_false_iff_not, not_lt]; exact le_total b a) v
  refine this.imp ?_
  intro a b hab
  simpa [lt_eq_decide] using hab

/-! ArgMax / ArgMin: the FIRST index attaining the extremum -/
theorem getElem?_snoc_cases (pre : List α) (x : α) (j : Nat) (y : α) (h : (pre ++ [x])[j]? = some y) :
    (j < pre.length ∧ pre[j]? = some y) ∨ (j = pre.length ∧ y = x) := by
  rcases Nat.lt_trichotomy j pre.length with hj | hj | hj
  · left; rw [List.getElem?_append_left hj] at h; exact ⟨hj, h⟩
  · right; subst hj; simp at h; exact ⟨rfl, h.symm⟩
  · exfalso
    have : (pre ++ [x]).length ≤ j := by simp; omega
    rw [List.getElem?_eq_none this] at h; cases h

theorem argmax_fold_spec (xs pre : List α) (best : Nat) (bv : α)
    (hb : pre[best]? = some bv) (hall : ∀ (j : Nat) (y : α), pre[j]? = some y → y ≤ bv)
    (hfirst : ∀ (j : Nat) (y : α), j < best → pre[j]? = some y → y < bv) :
    let s := xs.foldl (argStep fun y b => VOrd.lt b y) (best, bv, pre.length)
    (pre ++ xs)[s.1]? = some s.2.1 ∧ (∀ (j : Nat) (y : α), (pre ++ xs)[j]? = some y → y ≤ s.2.1) ∧
      (∀ (j : Nat) (y : α), j < s.1 → (pre ++ xs)[j]? = some y → y < s.2.1) := by
  induction xs generalizing pre best bv with
  | nil => simpa using ⟨hb, hall, hfirst⟩
  | cons x xs ih =>
    have hbl : best < pre.length := by
      rcases Nat.lt_or_ge best pre.length with h | h
      · exact h
      · rw [List.getElem?_eq_none h] at hb; cases hb
    simp only [List.foldl_cons, argStep, lt_eq_decide, decide_eq_true_eq]
    have happ : pre ++ x :: xs = (pre ++ [x]) ++ xs := by simp
    have hlen : (pre ++ [x]).length = pre.length + 1 := by simp
    by_cases h : bv < x
    · simp only [h, ↓reduceIte]
      rw [happ, ← hlen]
      have := ih (pre ++ [x]) pre.length x (by simp)
        (by
          intro j y hj
          rcases getElem?_snoc_cases pre x j y hj with ⟨_, h2⟩ | ⟨_, h2⟩
          · exact le_of_lt (lt_of_le_of_lt (hall j y h2) h)
          · rw [h2])
        (by
          intro j y hjl hj
          rcases getElem?_snoc_cases pre x j y hj with ⟨_, h2⟩ | ⟨h1, _⟩
          · exact lt_of_le_of_lt (hall j y h2) h
          · omega)
      simpa [lt_eq_decide] using this
    · simp only [h, ↓reduceIte]
      rw [happ, ← hlen]
      have := ih (pre ++ [x]) best bv (by rw [List.getElem?_append_left hbl]; exact hb)
        (by
          intro j y hj
          rcases getElem?_snoc_cases pre x j y hj with ⟨_, h2⟩ | ⟨_, h2⟩
          · exact hall j y h2
          · rw [h2]; exact not_lt.mp h)
        (by
          intro j y hjl hj
          rcases getElem?_snoc_cases pre x j y hj with ⟨_, h2⟩ | ⟨h1, _⟩
          · exact hfirst j y hjl h2
          · omega)
      simpa [lt_eq_decide] using this

/-- `ArgMax` returns the smallest index whose element is the maximum (0 on the empty vector) -/
theorem argmax_spec (v : List α) (h : v ≠ []) :
    ∃ m, v[argmax v]? = some m ∧ (∀ x ∈ v, x ≤ m) ∧ (∀ (j : Nat) (y : α), j < argmax v → v[j]? = some y → y < m) := by
  cases v with
  | nil => exact absurd rfl h
  | cons x xs =>
    have := argmax_fold_spec xs [x] 0 x (by simp) (by
      intro j y hj
      cases j with
      | zero => simp at hj; rw [hj]
      | succ k => simp at hj) (by intro j y hj; omega)
    simp only [List.length_singleton, List.singleton_append] at this
    obtain ⟨h1, h2, h3⟩ := this
    refine ⟨_, h1, ?_, h3⟩
    intro y hy
    obtain ⟨j, hj⟩ := List.getElem?_of_mem hy
    exact h2 j y hj

theorem argmax_nil : argmax ([] : List α) = 0 := rfl

theorem argmin_fold_spec (xs pre : List α) (best : Nat) (bv : α)
    (hb : pre[best]? = some bv) (hall : ∀ (j : Nat) (y : α), pre[j]? = some y → bv ≤ y)
    (hfirst : ∀ (j : Nat) (y : α), j < best → pre[j]? = some y → bv < y) :
    let s := xs.foldl (argStep fun y b => VOrd.lt y b) (best, bv, pre.length)
    (pre ++ xs)[s.1]? = some s.2.1 ∧ (∀ (j : Nat) (y : α), (pre ++ xs)[j]? = some y → s.2.1 ≤ y) ∧
      (∀ (j : Nat) (y : α), j < s.1 → (pre ++ xs)[j]? = some y → s.2.1 < y) := by
  induction xs generalizing pre best bv with
  | nil => simpa using ⟨hb, hall, hfirst⟩
  | cons x xs ih =>
    have hbl : best < pre.length := by
      rcases Nat.lt_or_ge best pre.length with h | h
      · exact h
      · rw [List.getElem?_eq_none h] at hb; cases hb
    simp only [List.foldl_cons, argStep, lt_eq_decide, decide_eq_true_eq]
    have happ : pre ++ x :: xs = (pre ++ [x]) ++ xs := by simp
    have hlen : (pre ++ [x]).length = pre.length + 1 := by simp
    by_cases h : x < bv
    · simp only [h, ↓reduceIte]
      rw [happ, ← hlen]
      have := ih (pre ++ [x]) pre.length x (by simp)
        (by
          intro j y hj
          rcases getElem?_snoc_cases pre x j y hj with ⟨_, h2⟩ | ⟨_, h2⟩
          · exact le_of_lt (lt_of_lt_of_le h (hall j y h2))
          · rw [h2])
        (by
          intro j y hjl hj
          rcases getElem?_snoc_cases pre x j y hj with ⟨_, h2⟩ | ⟨h1, _⟩
          · exact lt_of_lt_of_le h (hall j y h2)
          · omega)
      simpa [lt_eq_decide] using this
    · simp only [h, ↓reduceIte]
      rw [happ, ← hlen]
      have := ih (pre ++ [x]) best bv (by rw [List.getElem?_append_left hbl]; exact hb)
        (by
          intro j y hj
          rcases getElem?_snoc_cases pre x j y hj with ⟨_, h2⟩ | ⟨_, h2⟩
          · exact hall j y h2
          · rw [h2]; exact not_lt.mp h)
        (by
          intro j y hjl hj
          rcases getElem?_snoc_cases pre x j y hj with ⟨_, h2⟩ | ⟨h1, _⟩
          · exact hfirst j y hjl h2
          · omega)
      simpa [lt_eq_decide] using this

theorem argmin_spec (v : List α) (h : v ≠ []) :
    ∃ m, v[argmin v]? = some m ∧ (∀ x ∈ v, m ≤ x) ∧ (∀ (j : Nat) (y : α), j < argmin v → v[j]? = some y → m < y) := by
  cases v with
  | nil => exact absurd rfl h
  | cons x xs =>
    have := argmin_fold_spec xs [x] 0 x (by simp) (by
      intro j y hj
      cases j with
      | zero => simp at hj; rw [hj]
      | succ k => simp at hj) (by intro j y hj; omega)
    simp only [List.length_singleton, List.singleton_append] at this
    obtain ⟨h1, h2, h3⟩ := this
    refine ⟨_, h1, ?_, h3⟩
    intro y hy
    obtain ⟨j, hj⟩ := List.getElem?_of_mem hy
    exact h2 j y hj

end order

/-! ### probability vectors over ℝ -/
theorem sum_map_div (v : List ℝ) (s : ℝ) : (v.map (· / s)).sum = v.sum / s := by
  induction v with
  | nil => simp
  | cons x xs ih => simp only [List.map_cons, List.sum_cons, ih]; ring

/-- `Norm`: when the sum is non-zero every element is divided by it and the result sums to 1 -/
theorem norm_of_sum_ne_zero (v : List ℝ) (h : v.sum ≠ 0) : norm v = v.map (· / v.sum) ∧ (norm v).sum = 1 := by
  have e : norm v = v.map (· / v.sum) := by
    unfold norm
    simp only [sum_eq_real, r_eq, r_ofNat, Nat.cast_zero, h, decide_false, Bool.not_false, ↓reduceIte]
  refine ⟨e, ?_⟩
  rw [e, sum_map_div, div_self h]

/-- `Norm`: when the sum is zero every element is set to `1/n` (and for `n ≥ 1` the result sums to 1) -/
theorem norm_of_sum_zero (v : List ℝ) (h : v.sum = 0) :
    norm v = List.replicate v.length (1 / (v.length : ℝ)) ∧ (v ≠ [] → (norm v).sum = 1) := by
  have e : norm v = List.replicate v.length (1 / (v.length : ℝ)) := by
    unfold norm
    simp only [sum_eq_real, r_eq, r_ofNat, Nat.cast_zero, h, decide_true, Bool.not_true, Bool.false_eq_true, ↓reduceIte, r_uniform]
    exact List.map_const' ..
  refine ⟨e, fun hne => ?_⟩
  rw [e, List.sum_replicate, nsmul_eq_mul]
  have : (v.length : ℝ) ≠ 0 := by
    have : v.length ≠ 0 := fun h0 => hne (List.length_eq_zero_iff.mp h0)
    exact_mod_cast this
  field_simp

/-- `Entropy` = `-Σ_{p_i > 0} p_i log2 p_i` -/
theorem entropy_fold (p : List ℝ) (H : ℝ) :
    p.foldl (fun H x => if VOrd.lt (VNum.ofNat 0) x then H - x * VNum.log2 x else H) H
      = H + (p.map fun x => if 0 < x then -(x * Real.logb 2 x) else 0).sum := by
  induction p generalizing H with
  | nil => simp
  | cons x xs ih =>
    rw [List.foldl_cons, ih]
    by_cases h : (0 : ℝ) < x <;> simp [h] <;> ring

theorem entropy_eq (p : List ℝ) : entropy p = (p.map fun x => if 0 < x then -(x * Real.logb 2 x) else 0).sum := by
  unfold entropy; rw [entropy_fold]; simp

/-- `CDF`: element `i` is the sum of the first `i+1` probabilities -/
theorem cdf_fold (xs : List ℝ) (acc : List ℝ) (c : ℝ) :
    (xs.foldl (fun (a : List ℝ × ℝ) y => let c := y + a.2; (c :: a.1, c)) (acc, c)).1.reverse
      = acc.reverse ++ (List.range xs.length).map (fun i => c + (xs.take (i + 1)).sum) := by
  induction xs generalizing acc c with
  | nil => simp
  | cons x xs ih =>
    rw [List.foldl_cons]
    simp only []
    rw [ih]
    simp only [List.reverse_cons, List.append_assoc, List.singleton_append, List.length_cons, List.range_succ_eq_map,
      List.map_cons, List.map_map, List.take_succ_cons, List.sum_cons]
    congr 1
    simp only [List.take_zero, List.sum_nil, add_zero, List.cons.injEq]
    refine ⟨by ring, ?_⟩
    apply List.map_congr_left
    intro i _
    simp only [Function.comp]
    ring

theorem cdf_spec (v : List ℝ) (h : v ≠ []) :
    cdf v = some ((List.range v.length).map fun i => (v.take (i + 1)).sum) := by
  cases v with
  | nil => exact absurd rfl h
  | cons x xs =>
    show some _ = _
    rw [cdf_fold]
    simp only [List.reverse_cons, List.reverse_nil, List.nil_append, List.singleton_append, List.length_cons,
      List.range_succ_eq_map, List.map_cons, List.map_map, List.take_succ_cons, List.sum_cons, List.take_zero, List.sum_nil, add_zero]
    rfl

/-- `Validate`: `eslOK` exactly for vectors of numbers in [0,1] whose sum is within `tol` of 1 -/
theorem validateGo_spec (tol : ℝ) (xs : List ℝ) (s : ℝ) :
    validateGo tol xs s = true ↔ (∀ x ∈ xs, 0 ≤ x ∧ x ≤ 1) ∧ |s + xs.sum - 1| ≤ tol := by
  induction xs generalizing s with
  | nil => simp [validateGo]
  | cons x xs ih =>
    unfold validateGo
    by_cases hx : x < 0 ∨ x > 1
    · simp only [r_notProb, hx, decide_true, ↓reduceIte, Bool.false_eq_true, List.mem_cons, forall_eq_or_imp, false_iff, not_and]
      intro h; exfalso
      rcases hx with hx | hx <;> linarith [h.1.1, h.1.2]
    · simp only [r_notProb, hx, decide_false, Bool.false_eq_true, ↓reduceIte, ih, List.mem_cons, forall_eq_or_imp, List.sum_cons]
      have : 0 ≤ x ∧ x ≤ 1 := by
        constructor
        · by_contra hh; exact hx (Or.inl (not_le.mp hh))
        · by_contra hh; exact hx (Or.inr (not_le.mp hh))
      have e : s + x + xs.sum = s + (x + xs.sum) := by ring
      simp only [this, true_and, e]

theorem validate_spec (v : List ℝ) (tol : ℝ) (h : v ≠ []) :
    validate v tol = true ↔ (∀ x ∈ v, 0 ≤ x ∧ x ≤ 1) ∧ |v.sum - 1| ≤ tol := by
  unfold validate
  have : v.isEmpty = false := by cases v <;> simp at h ⊢
  simp only [this, Bool.false_eq_true, ↓reduceIte, validateGo_spec, r_ofNat, Nat.cast_zero, zero_add]

theorem validate_nil (tol : ℝ) : validate ([] : List ℝ) tol = true := rfl

/-! ### relative entropy -/
/-- the terms `p_i log2 (p_i / q_i)` over the positions with `p_i > 0` -/
noncomputable def klTerms (p q : List ℝ) : List ℝ :=
  (List.zip p q).map fun ab => if 0 < ab.1 then ab.1 * Real.logb 2 (ab.1 / ab.2) else 0

/-- `RelEntropy`: `+∞` (the early return, `none`) exactly when some `p_i > 0` meets `q_i = 0`; otherwise `Σ p_i log2 (p_i/q_i)` -/
theorem relEntropyGo_spec (p q : List ℝ) (kl : ℝ) :
    relEntropyGo p q kl =
      if (∃ ab ∈ List.zip p q, 0 < ab.1 ∧ ab.2 = 0) then none else some (kl + (klTerms p q).sum) := by
  induction p generalizing q kl with
  | nil => simp [relEntropyGo, klTerms]
  | cons a ps ih =>
    cases q with
    | nil => simp [relEntropyGo, klTerms]
    | cons b qs =>
      unfold relEntropyGo
      simp only [r_lt, r_ofNat, Nat.cast_zero, r_eq, r_klAdd, decide_eq_true_eq, List.zip_cons_cons, List.mem_cons, exists_eq_or_imp]
      by_cases ha : 0 < a
      · by_cases hb : b = 0
        · simp [ha, hb]
        · simp only [ha, ↓reduceIte, hb, false_and, false_or, true_and, ih]
          by_cases hex : ∃ ab ∈ List.zip ps qs, 0 < ab.1 ∧ ab.2 = 0
          · simp [hex]
          · simp only [hex, ↓reduceIte, klTerms, List.zip_cons_cons, List.map_cons, List.sum_cons, ha]
            congr 1; ring
      · simp only [ha, ↓reduceIte, false_and, false_or, ih]
        by_cases hex : ∃ ab ∈ List.zip ps qs, 0 < ab.1 ∧ ab.2 = 0
        · simp [hex]
        · simp only [hex, ↓reduceIte, klTerms, List.zip_cons_cons, List.map_cons, List.sum_cons, ha]
          congr 1; ring

/-! ### integer sums (no wrap-around: the C `int` overflow is undefined behaviour, the generators stay in range) -/
theorem isum_eq (v : List Int) : isum v = v.sum := by
  unfold isum
  have : ∀ (l : List Int) (s : Int), l.foldl (· + ·) s = s + l.sum := by
    intro l; induction l with
    | nil => simp
    | cons x xs ih => intro s; rw [List.foldl_cons, ih, List.sum_cons]; ring
  rw [this]; simp

theorem idot_eq (v w : List Int) : idot v w = (List.zipWith (· * ·) v w).sum := by
  unfold idot
  have : ∀ (l : List Int) (s : Int), l.foldl (· + ·) s = s + l.sum := by
    intro l; induction l with
    | nil => simp
    | cons x xs ih => intro s; rw [List.foldl_cons, ih, List.sum_cons]; ring
  rw [this]; simp

/-! ### element-wise updates -/
theorem scale_eq (v : List ℝ) (s : ℝ) : scale v s = v.map (· * s) := rfl
theorem increment_eq (v : List ℝ) (x : ℝ) : increment v x = v.map (· + x) := rfl
theorem add_eq (v w : List ℝ) : add v w = List.zipWith (· + ·) v w := rfl
theorem addScaled_eq (v w : List ℝ) (a : ℝ) : addScaled v w a = List.zipWith (fun x y => x + y * a) v w := rfl
theorem reverse_eq {α : Type} (v : List α) : reverse v = v.reverse := rfl

end EaselModel.Vec
