import EaselModel.Vec.GenLemmas
/-! # More lemmas about the REGENERATED routines (C20, part C): the search loops of `Compare`, `Swap`, and the integer element-wise
    routines (`Scale`, `Increment`, `Add`, `AddScaled`) with C's overflow-is-undefined arithmetic.  Core Lean only. -/
namespace EaselModel.Vec
open Gen

/-! ## search loops -/
theorem foldlM_any (n : Nat) (c : Nat → Option Bool) (p : Nat → Bool) (h : ∀ k, k < n → c k = some (p k)) (b : Bool) :
    (List.range n).foldlM (fun (found : Bool) (k : Nat) => if found then some true else c k) b = some (b || (List.range n).any p) := by
  induction n with
  | zero => simp
  | succ n ih =>
    rw [List.range_succ, List.foldlM_append, ih (fun k hk => h k (by omega))]
    simp only [List.foldlM_cons, List.foldlM_nil, List.any_append, List.any_cons, List.any_nil, Bool.or_false]
    show (if (b || (List.range n).any p) = true then some true else c n) >>= pure = _
    rw [h n (by omega)]
    cases hb : (b || (List.range n).any p) <;> simp [hb, ← Bool.or_assoc]

theorem loopAny_nat (n : Nat) (c : Int → Option Bool) (p : Nat → Bool) (h : ∀ k : Nat, k < n → c (0 + (k : Int)) = some (p k)) :
    loopAny 0 (n : Int) c = some ((List.range n).any p) := by
  unfold loopAny
  have : ((n : Int) - 0).toNat = n := by omega
  rw [this, foldlM_any n (fun k => c (0 + (k : Int))) p h false]
  simp

theorem any_range_iff (n : Nat) (p : Nat → Bool) : (List.range n).any p = true ↔ ∃ k, k < n ∧ p k = true := by
  simp [List.any_eq_true]

/-- `esl_vec_{I,L}Compare` (any element type whose C `==` is equality): `eslOK` (0) iff the first `n` cells agree -/
theorem gen_icompare {α : Type} [CElem α] (heq : ∀ a b : α, CElem.eq a b = true ↔ a = b) (v w : Array α) (h : v.size = w.size) :
    (v = w → esl_vec_ICompare v w v.size = some 0) ∧ (v ≠ w → esl_vec_ICompare v w v.size = some 1) := by
  unfold esl_vec_ICompare
  have hl := loopAny_nat v.size
    (fun i => (rd v i).bind fun t1 => (rd w i).bind fun t2 => pure (!(CElem.eq t1 t2)))
    (fun k => if hk : k < v.size ∧ k < w.size then !(CElem.eq v[k] w[k]) else false)
    (fun k hk => by
      have e1 : v[k]? = some v[k] := by simp
      have e2 : w[k]? = some (w[k]'(by omega)) := by simp <;> omega
      rw [zero_add_cast, rd_nat, rd_nat, e1, e2]
      simp only [Option.bind_some, dif_pos (And.intro hk (by omega : k < w.size))]; rfl)
  simp only [bind, pure] at hl ⊢
  rw [hl]
  simp only [Option.bind_some]
  constructor
  · intro hvw
    subst hvw
    have : (List.range v.size).any (fun k => if hk : k < v.size ∧ k < v.size then !(CElem.eq v[k] v[k]) else false) = false := by
      rw [Bool.eq_false_iff]; intro hc
      obtain ⟨k, hk, hp⟩ := (any_range_iff _ _).mp hc
      rw [dif_pos ⟨hk, hk⟩] at hp
      have := (heq v[k] v[k]).mpr rfl
      simp [this] at hp
    rw [this]; simp
  · intro hvw
    cases hany : (List.range v.size).any (fun k => if hk : k < v.size ∧ k < w.size then !(CElem.eq v[k] w[k]) else false) with
    | true => simp
    | false =>
      exfalso
      apply hvw
      apply Array.ext h
      intro k hk1 hk2
      cases he : CElem.eq v[k] w[k] with
      | true => exact (heq _ _).mp he
      | false =>
        have : (List.range v.size).any (fun k => if hk : k < v.size ∧ k < w.size then !(CElem.eq v[k] w[k]) else false) = true := by
          rw [any_range_iff]
          exact ⟨k, hk1, by rw [dif_pos ⟨hk1, hk2⟩, he]; rfl⟩
        rw [hany] at this; exact absurd this (by decide)

theorem compare_LI : @esl_vec_LCompare = @esl_vec_ICompare := rfl
theorem compare_FD : @esl_vec_FCompare = @esl_vec_DCompare := rfl

theorem status_eq_one {α : Type} [VCmp α] (a b tol : α) : decide (compareOldStatus a b tol = 1) = !(compareOld a b tol) := by
  unfold compareOldStatus; cases compareOld a b tol <;> simp

theorem zip_all_range {α : Type} (v w : Array α) (h : v.size = w.size) (f : α × α → Bool) :
    (List.zip v.toList w.toList).all f = !((List.range v.size).any fun k => if hk : k < v.size ∧ k < w.size then !(f (v[k], w[k])) else false) := by
  rw [Bool.eq_iff_iff]
  simp only [List.all_eq_true, Bool.not_eq_true', Bool.eq_false_iff, ne_eq, any_range_iff, not_exists, not_and]
  constructor
  · intro hall k hk hp
    rw [dif_pos ⟨hk, by omega⟩] at hp
    have hm : (v[k], w[k]'(by omega)) ∈ List.zip v.toList w.toList := by
      rw [List.mem_iff_getElem]
      refine ⟨k, by simp; omega, ?_⟩
      simp
    have := hall _ hm
    simp [this] at hp
  · intro hnone p hp
    obtain ⟨k, hk, rfl⟩ := List.mem_iff_getElem.mp hp
    have hk1 : k < v.size := by simp at hk; omega
    have := hnone k hk1
    rw [dif_pos ⟨hk1, by omega⟩] at this
    simpa using this

/-- `esl_vec_{D,F}Compare` as regenerated = the element-wise test `vcompare` (`eslOK` = 0, `eslFAIL` = 1), never a fault -/
theorem gen_dcompare {α : Type} [VCmp α] (v w : Array α) (h : v.size = w.size) (tol : α) :
    esl_vec_DCompare v w v.size tol = some (if vcompare v.toList w.toList tol then 0 else 1) := by
  unfold esl_vec_DCompare
  have hl := loopAny_nat v.size
    (fun i => (rd v i).bind fun t1 => (rd w i).bind fun t2 => pure (decide (compareOldStatus t1 t2 tol = 1)))
    (fun k => if hk : k < v.size ∧ k < w.size then !(compareOld v[k] w[k] tol) else false)
    (fun k hk => by
      have e1 : v[k]? = some v[k] := by simp
      have e2 : w[k]? = some (w[k]'(by omega)) := by simp <;> omega
      rw [zero_add_cast, rd_nat, rd_nat, e1, e2]
      simp only [Option.bind_some, dif_pos (And.intro hk (by omega : k < w.size)), status_eq_one]; rfl)
  simp only [bind, pure] at hl ⊢
  rw [hl]
  simp only [Option.bind_some]
  unfold vcompare
  rw [zip_all_range v w h (fun p => compareOld p.1 p.2 tol)]
  cases (List.range v.size).any (fun k => if hk : k < v.size ∧ k < w.size then !(compareOld v[k] w[k] tol) else false) <;> simp

/-- `esl_vec_{I,L}Compare` through the list test `icompare` -/
theorem gen_mat_compare_flat {α : Type} [VCmp α] (A B : Array α) (M N : Int) (tol : α) :
    esl_mat_DCompare A B M N tol = esl_vec_DCompare A B (M * N) tol ∧ esl_mat_FCompare A B M N tol = esl_vec_FCompare A B (M * N) tol := by
  constructor <;> simp only [esl_mat_DCompare, esl_mat_FCompare]
theorem gen_mat_icompare_flat {α : Type} [CElem α] (A B : Array α) (M N : Int) : esl_mat_ICompare A B M N = esl_vec_ICompare A B (M * N) := by
  simp only [esl_mat_ICompare]

/-! ## Swap -/
theorem gen_swap {α : Type} [CElem α] (v w : Array α) (h : w.size = v.size) :
    ∃ r, esl_vec_ISwap v w v.size = some r ∧ r.1 = w ∧ r.2 = v := by
  unfold esl_vec_ISwap
  obtain ⟨r, hr, hP⟩ := loop_inv 0 (v.size : Int)
    (fun i (s : Array α × Array α) => (rd s.1 i).bind fun tmp => (rd s.2 i).bind fun t1 => (wr s.1 i t1).bind fun a => (wr s.2 i tmp).bind fun b => some (a, b))
    (fun j s => s.1.size = v.size ∧ s.2.size = v.size ∧ ∀ k, (s.1[k]? = if k < j then w[k]? else v[k]?) ∧ (s.2[k]? = if k < j then v[k]? else w[k]?))
    (v, w) ⟨rfl, h, fun k => by simp⟩ (by
      intro j s hj ⟨h1, h2, hP⟩
      have hjn : j < v.size := by omega
      have e1 : s.1[j]? = some v[j] := by rw [(hP j).1]; simp
      have e2 : s.2[j]? = some (w[j]'(by omega)) := by rw [(hP j).2]; simp <;> omega
      rw [zero_add_cast, rd_nat, rd_nat, e1, e2]
      simp only [Option.bind_some]
      rw [wr_lt s.1 j _ (by omega), wr_lt s.2 j _ (by omega)]
      simp only [Option.bind_some]
      refine ⟨_, rfl, by simp [h1], by simp [h2], ?_⟩
      intro k
      simp only [Array.getElem?_set]
      by_cases e : j = k
      · subst e; simp
      · simp only [e, if_false]
        rw [(hP k).1, (hP k).2]
        by_cases c : k < j
        · rw [if_pos c, if_pos c, if_pos (by omega), if_pos (by omega)]; exact ⟨rfl, rfl⟩
        · rw [if_neg c, if_neg c, if_neg (by omega), if_neg (by omega)]; exact ⟨rfl, rfl⟩)
  have hn : ((v.size : Int) - 0).toNat = v.size := by omega
  rw [hn] at hP
  obtain ⟨h1, h2, hk⟩ := hP
  simp only [bind, pure] at hr ⊢
  rw [hr]
  refine ⟨r, rfl, ?_, ?_⟩
  · apply Array.ext (by omega)
    intro k hk1 hk2
    have := (hk k).1
    rw [if_pos (by omega)] at this
    simpa [hk1, hk2] using this
  · apply Array.ext (by omega)
    intro k hk1 hk2
    have := (hk k).2
    rw [if_pos (by omega)] at this
    simpa [hk1, hk2] using this

theorem swap_DI : @esl_vec_DSwap = @esl_vec_ISwap := rfl
theorem swap_FI : @esl_vec_FSwap = @esl_vec_ISwap := rfl
theorem swap_LI : @esl_vec_LSwap = @esl_vec_ISwap := rfl

/-! ## integer element-wise routines: exact over ℤ while every result is representable (otherwise `none`: undefined behaviour in C) -/
section cint
variable {α : Type} [CInt α]
open CInt

theorem map_toInt_of_pointwise (v r : Array α) (F : α → Int) (hs : r.size = v.size)
    (h : ∀ k (hk : k < v.size), ∃ y, r[k]? = some y ∧ toInt y = F v[k]) : r.toList.map toInt = v.toList.map F := by
  apply List.ext_getElem?
  intro k
  rw [List.getElem?_map, List.getElem?_map, Array.getElem?_toList, Array.getElem?_toList]
  by_cases c : k < v.size
  · obtain ⟨y, e, t⟩ := h k c
    rw [e]; simp [c, t]
  · have : r[k]? = none := by simp; omega
    rw [this]; simp [Nat.le_of_not_lt c]

theorem gen_iscale_exact (v : Array α) (s : α) (h : ∀ x ∈ v.toList, lo α ≤ toInt x * toInt s ∧ toInt x * toInt s ≤ hi α) :
    ∃ r, esl_vec_IScale v v.size s = some r ∧ r.toList.map toInt = v.toList.map fun x => toInt x * toInt s := by
  unfold esl_vec_IScale
  simp only [bind, pure]
  refine (fun ⟨r, hr, hs, hP⟩ => ⟨r, hr, map_toInt_of_pointwise v r (fun x => toInt x * toInt s) hs (fun k hk => by
      obtain ⟨y, e, t⟩ := mul_some_of_range v[k] s (h _ (by simp))
      exact ⟨y, by rw [hP k, if_pos hk, dif_pos hk, e]; rfl, t⟩)⟩)
    (loop_pointwise v v.size (Nat.le_refl _) _ (fun k => if hk : k < v.size then (CElem.mul v[k] s).getD s else s) ?_)
  intro j a hj hsz haj
  have e0 : v[j]? = some v[j] := by simp
  obtain ⟨y, e, _⟩ := mul_some_of_range v[j] s (h _ (by simp))
  rw [zero_add_cast, rd_nat, haj, e0]; simp only [Option.bind_some, dif_pos hj, e]; rfl

theorem gen_iincrement_exact (v : Array α) (x : α) (h : ∀ y ∈ v.toList, lo α ≤ toInt y + toInt x ∧ toInt y + toInt x ≤ hi α) :
    ∃ r, esl_vec_IIncrement v v.size x = some r ∧ r.toList.map toInt = v.toList.map fun y => toInt y + toInt x := by
  unfold esl_vec_IIncrement
  simp only [bind, pure]
  refine (fun ⟨r, hr, hs, hP⟩ => ⟨r, hr, map_toInt_of_pointwise v r (fun y => toInt y + toInt x) hs (fun k hk => by
      obtain ⟨y, e, t⟩ := add_some_of_range v[k] x (h _ (by simp))
      exact ⟨y, by rw [hP k, if_pos hk, dif_pos hk, e]; rfl, t⟩)⟩)
    (loop_pointwise v v.size (Nat.le_refl _) _ (fun k => if hk : k < v.size then (CElem.add v[k] x).getD x else x) ?_)
  intro j a hj hsz haj
  have e0 : v[j]? = some v[j] := by simp
  obtain ⟨y, e, _⟩ := add_some_of_range v[j] x (h _ (by simp))
  rw [zero_add_cast, rd_nat, haj, e0]; simp only [Option.bind_some, dif_pos hj, e]; rfl

theorem map_toInt_of_pointwise2 (v w r : Array α) (F : α → α → Int) (hs : r.size = v.size) (hw : w.size = v.size)
    (h : ∀ k (hk : k < v.size), ∃ y, r[k]? = some y ∧ toInt y = F v[k] (w[k]'(by omega))) :
    r.toList.map toInt = List.zipWith F v.toList w.toList := by
  apply List.ext_getElem?
  intro k
  rw [List.getElem?_map, List.getElem?_zipWith, Array.getElem?_toList, Array.getElem?_toList, Array.getElem?_toList]
  by_cases c : k < v.size
  · obtain ⟨y, e, t⟩ := h k c
    have e1 : v[k]? = some v[k] := by simp [c]
    have e2 : w[k]? = some (w[k]'(by omega)) := by simp <;> omega
    rw [e, e1, e2]; simp [t]
  · have : r[k]? = none := by simp; omega
    have e1 : v[k]? = none := by simp; omega
    rw [this, e1]; simp

theorem gen_iadd_exact (v w : Array α) (hw : w.size = v.size)
    (h : ∀ p ∈ v.toList.zip w.toList, lo α ≤ toInt p.1 + toInt p.2 ∧ toInt p.1 + toInt p.2 ≤ hi α) :
    ∃ r, esl_vec_IAdd v w v.size = some r ∧ r.toList.map toInt = List.zipWith (fun x y => toInt x + toInt y) v.toList w.toList := by
  have hk : ∀ k (hk : k < v.size), lo α ≤ toInt v[k] + toInt (w[k]'(by omega)) ∧ toInt v[k] + toInt (w[k]'(by omega)) ≤ hi α := by
    intro k hk
    apply h (v[k], w[k]'(by omega))
    rw [List.mem_iff_getElem]; exact ⟨k, by simp; omega, by simp⟩
  unfold esl_vec_IAdd
  simp only [bind, pure]
  refine (fun ⟨r, hr, hs, hP⟩ => ⟨r, hr, map_toInt_of_pointwise2 v w r (fun x y => toInt x + toInt y) hs hw (fun k hk' => by
      obtain ⟨y, e, t⟩ := add_some_of_range v[k] (w[k]'(by omega)) (hk k hk')
      exact ⟨y, by rw [hP k, if_pos hk', dif_pos ⟨hk', by omega⟩, e]; rfl, t⟩)⟩)
    (loop_pointwise v v.size (Nat.le_refl _) _ (fun k => if hk : k < v.size ∧ k < w.size then (CElem.add v[k] w[k]).getD v[k] else CElem.ofNat 0) ?_)
  intro j a hj hsz haj
  have e1 : v[j]? = some v[j] := by simp
  have e2 : w[j]? = some (w[j]'(by omega)) := by simp <;> omega
  obtain ⟨y, e, _⟩ := add_some_of_range v[j] (w[j]'(by omega)) (hk j hj)
  rw [zero_add_cast, rd_nat, rd_nat, haj, e1, e2]; simp only [Option.bind_some, dif_pos (And.intro hj (by omega : j < w.size)), e]; rfl

theorem gen_iaddScaled_exact (v w : Array α) (c : α) (hw : w.size = v.size)
    (hm : ∀ y ∈ w.toList, lo α ≤ toInt y * toInt c ∧ toInt y * toInt c ≤ hi α)
    (h : ∀ p ∈ v.toList.zip w.toList, lo α ≤ toInt p.1 + toInt p.2 * toInt c ∧ toInt p.1 + toInt p.2 * toInt c ≤ hi α) :
    ∃ r, esl_vec_IAddScaled v w c v.size = some r ∧
      r.toList.map toInt = List.zipWith (fun x y => toInt x + toInt y * toInt c) v.toList w.toList := by
  have hk : ∀ k (hk : k < v.size), lo α ≤ toInt v[k] + toInt (w[k]'(by omega)) * toInt c ∧ toInt v[k] + toInt (w[k]'(by omega)) * toInt c ≤ hi α := by
    intro k hk
    apply h (v[k], w[k]'(by omega))
    rw [List.mem_iff_getElem]; exact ⟨k, by simp; omega, by simp⟩
  have step : ∀ k (hk' : k < v.size), ∃ y, ((CElem.mul (w[k]'(by omega)) c).bind fun t3 => CElem.add v[k] t3) = some y ∧
      toInt y = toInt v[k] + toInt (w[k]'(by omega)) * toInt c := by
    intro k hk'
    obtain ⟨t, et, tt⟩ := mul_some_of_range (w[k]'(by omega)) c (hm _ (by simp))
    obtain ⟨y, e, ty⟩ := add_some_of_range v[k] t (by rw [tt]; exact hk k hk')
    exact ⟨y, by rw [et]; exact e, by rw [ty, tt]⟩
  unfold esl_vec_IAddScaled
  simp only [bind, pure]
  refine (fun ⟨r, hr, hs, hP⟩ => ⟨r, hr, map_toInt_of_pointwise2 v w r (fun x y => toInt x + toInt y * toInt c) hs hw (fun k hk' => by
      obtain ⟨y, e, t⟩ := step k hk'
      exact ⟨y, by rw [hP k, if_pos hk', dif_pos ⟨hk', by omega⟩, e]; rfl, t⟩)⟩)
    (loop_pointwise v v.size (Nat.le_refl _) _
      (fun k => if hk : k < v.size ∧ k < w.size then ((CElem.mul w[k] c).bind fun t3 => CElem.add v[k] t3).getD c else c) ?_)
  intro j a hj hsz haj
  have e1 : v[j]? = some v[j] := by simp
  have e2 : w[j]? = some (w[j]'(by omega)) := by simp <;> omega
  obtain ⟨y, e, _⟩ := step j hj
  rw [zero_add_cast, rd_nat, rd_nat, haj, e1, e2]; simp only [Option.bind_some, dif_pos (And.intro hj (by omega : j < w.size))]
  rw [← Option.bind_assoc, e]; rfl

end cint

end EaselModel.Vec
