import EaselModel.Vec.Real
import Mathlib.Tactic.Positivity
/-! # Rounding error of the plain accumulation loops (C20, part C; a step into layer L0 of DESIGN §3.4)

The standard model of floating-point arithmetic: every operation returns `fl (exact result)` with
`|fl x - x| ≤ u·|x|` (no overflow/underflow).  That binary64/binary32 round-to-nearest satisfy it (u = 2^-53, 2^-24) is the
trusted fact (`FloatLike` of DESIGN §3.4); given it, the SAME `dot` of `Vec/Model.lean` is within
`((1+u)^(2n) - 1)·Σ|x_i y_i|` of the exact dot product. -/
namespace EaselModel.Vec

/-- a rounding function obeying the standard model -/
class Rnd where
  fl : ℝ → ℝ
  u : ℝ
  u_nonneg : 0 ≤ u
  err : ∀ x, |fl x - x| ≤ u * |x|

/-- reals whose arithmetic rounds after every operation -/
structure RR where
  val : ℝ

noncomputable instance instVNumRR [Rnd] : VNum RR where
  lt a b := decide (a.val < b.val)
  add a b := ⟨Rnd.fl (a.val + b.val)⟩
  sub a b := ⟨Rnd.fl (a.val - b.val)⟩
  mul a b := ⟨Rnd.fl (a.val * b.val)⟩
  div a b := ⟨Rnd.fl (a.val / b.val)⟩
  ofNat n := ⟨(n : ℝ)⟩
  eq a b := decide (a.val = b.val)
  log2 x := ⟨Rnd.fl (Real.logb 2 x.val)⟩
  uniform n := ⟨Rnd.fl (1 / (n : ℝ))⟩
  notProb x := decide (x.val < 0 ∨ x.val > 1)
  offOne s tol := decide (|Rnd.fl (s.val - 1)| > tol.val)
  klAdd kl p q := ⟨Rnd.fl (kl.val + Rnd.fl (p.val * Rnd.fl (Real.logb 2 (Rnd.fl (p.val / q.val)))))⟩

section
variable [Rnd]
local notation "u" => Rnd.u

theorem rr_add (a b : RR) : (a + b).val = Rnd.fl (a.val + b.val) := rfl
theorem rr_mul (a b : RR) : (a * b).val = Rnd.fl (a.val * b.val) := rfl

/-- exact products and their absolute values -/
def exactDot (v w : List RR) : ℝ := (List.zipWith (fun x y => x.val * y.val) v w).sum
def absDot (v w : List RR) : ℝ := (List.zipWith (fun x y => |x.val * y.val|) v w).sum

theorem absDot_nonneg (v w : List RR) : 0 ≤ absDot v w := by
  unfold absDot
  apply List.sum_nonneg
  intro x hx
  obtain ⟨i, _, rfl⟩ := List.getElem_of_mem hx
  simp only [List.getElem_zipWith]
  exact abs_nonneg _

theorem abs_fl_le (x : ℝ) : |Rnd.fl x| ≤ (1 + u) * |x| := by
  have h := Rnd.err x
  have : |Rnd.fl x| ≤ |Rnd.fl x - x| + |x| := by
    have := abs_add_le (Rnd.fl x - x) x
    simpa using this
  nlinarith [abs_nonneg x]

/-- the accumulation loop, generalised over the accumulator: `A` = exact value of `acc`, error `≤ g·T` -/
theorem dot_fold_err (v w : List RR) (acc : RR) (A T g : ℝ) (hg : 0 ≤ g) (hT : 0 ≤ T) (hA : |A| ≤ T)
    (hacc : |acc.val - A| ≤ g * T) :
    |((List.zipWith (· * ·) v w).foldl (· + ·) acc).val - (A + exactDot v w)|
      ≤ ((1 + u) ^ (2 * (List.zipWith (· * ·) v w).length) * (g + 1) - 1) * (T + absDot v w) := by
  induction v generalizing w acc A T g with
  | nil => simp [exactDot, absDot]; linarith
  | cons x xs ih =>
    cases w with
    | nil => simp [exactDot, absDot]; linarith
    | cons y ys =>
      have hu := Rnd.u_nonneg
      simp only [List.zipWith_cons_cons, List.foldl_cons, List.length_cons]
      set p := x.val * y.val with hp
      have hexact : exactDot (x :: xs) (y :: ys) = p + exactDot xs ys := by simp [exactDot, hp]
      have habs : absDot (x :: xs) (y :: ys) = |p| + absDot xs ys := by simp [absDot, hp]
      -- one step
      set ph := Rnd.fl p with hph
      have e1 : |ph - p| ≤ u * |p| := Rnd.err p
      set z := acc.val + ph with hz
      have e2 : |Rnd.fl z - z| ≤ u * |z| := Rnd.err z
      have hzA : |z - (A + p)| ≤ g * T + u * |p| := by
        have : z - (A + p) = (acc.val - A) + (ph - p) := by simp [hz]; ring
        rw [this]; exact le_trans (abs_add_le _ _) (by linarith)
      have hzabs : |z| ≤ (g + 1) * T + (1 + u) * |p| := by
        have : |z| ≤ |z - (A + p)| + |A + p| := by
          have := abs_add_le (z - (A + p)) (A + p); simpa using this
        have h2 : |A + p| ≤ T + |p| := le_trans (abs_add_le _ _) (by linarith)
        nlinarith [abs_nonneg p]
      have hstep : |Rnd.fl z - (A + p)| ≤ ((1 + u) ^ 2 * (g + 1) - 1) * (T + |p|) := by
        have : |Rnd.fl z - (A + p)| ≤ |Rnd.fl z - z| + |z - (A + p)| := by
          have := abs_add_le (Rnd.fl z - z) (z - (A + p)); simpa using this
        have hp0 := abs_nonneg p
        nlinarith [mul_nonneg hu hp0, mul_nonneg hg hT, mul_nonneg hu hT, mul_nonneg (mul_nonneg hu hu) hp0,
          mul_nonneg (mul_nonneg hu hu) hT, mul_nonneg (mul_nonneg hu hg) hT, mul_nonneg (mul_nonneg (mul_nonneg hu hu) hg) hT,
          mul_nonneg hg hp0, mul_nonneg (mul_nonneg hu hg) hp0, mul_nonneg (mul_nonneg (mul_nonneg hu hu) hg) hp0]
      have hg' : 0 ≤ (1 + u) ^ 2 * (g + 1) - 1 := by nlinarith [mul_nonneg hu hg, mul_nonneg (mul_nonneg hu hu) hg, mul_nonneg hu hu]
      have hT' : 0 ≤ T + |p| := by linarith [abs_nonneg p]
      have hA' : |A + p| ≤ T + |p| := le_trans (abs_add_le _ _) (by linarith)
      have hval : (acc + x * y).val = Rnd.fl z := by simp [rr_add, rr_mul, hz, hph, hp]
      have := ih ys (acc + x * y) (A + p) (T + |p|) ((1 + u) ^ 2 * (g + 1) - 1) hg' hT' hA' (by rw [hval]; exact hstep)
      rw [hexact, habs]
      have e : A + (p + exactDot xs ys) = A + p + exactDot xs ys := by ring
      have e' : T + (|p| + absDot xs ys) = T + |p| + absDot xs ys := by ring
      rw [e, e']
      refine le_trans this (le_of_eq ?_)
      congr 1
      have : 2 * ((List.zipWith (· * ·) xs ys).length + 1) = 2 * (List.zipWith (· * ·) xs ys).length + 2 := by ring
      rw [this, pow_add]; ring

/-- `Dot` under the standard model: within `((1+u)^(2n) - 1)·Σ|x_i y_i|` of the exact dot product -/
theorem dot_rounding (v w : List RR) :
    |(dot v w).val - exactDot v w| ≤ ((1 + u) ^ (2 * min v.length w.length) - 1) * absDot v w := by
  unfold dot
  have := dot_fold_err v w (VNum.ofNat 0) 0 0 0 (le_refl _) (le_refl _) (by simp) (by simp [VNum.ofNat])
  simpa [List.length_zipWith] using this

end

end EaselModel.Vec
