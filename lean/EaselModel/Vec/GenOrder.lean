import EaselModel.Vec.GenLemmas
import EaselModel.Vec.Real
/-! # Order-theoretic specifications of the REGENERATED routines (C20, part C)

`Int32` / `Int64` (C `int` / `int64_t`) are linear orders — the order of their integer values, over the WHOLE range — and the
translated comparators `Gen.qsort_*` are the three-way comparison of that order; so the generated `Sort*` routines return an ordered
permutation, `Max/Min` the extremum, for every vector including entries further apart than 2^31. -/
namespace EaselModel.Vec
open Gen

instance : LinearOrder Int32 where
  le_refl a := Int32.le_iff_toInt_le.mpr (le_refl _)
  le_trans a b c h1 h2 := Int32.le_iff_toInt_le.mpr (le_trans (Int32.le_iff_toInt_le.mp h1) (Int32.le_iff_toInt_le.mp h2))
  le_antisymm a b h1 h2 := Int32.toInt_inj.mp (le_antisymm (Int32.le_iff_toInt_le.mp h1) (Int32.le_iff_toInt_le.mp h2))
  le_total a b := by rcases le_total a.toInt b.toInt with h | h <;> [left; right] <;> exact Int32.le_iff_toInt_le.mpr h
  lt_iff_le_not_ge a b := by rw [Int32.lt_iff_toInt_lt, Int32.le_iff_toInt_le, Int32.le_iff_toInt_le]; omega
  toDecidableLE := inferInstance
  toDecidableLT := inferInstance
  toDecidableEq := inferInstance

instance : LinearOrder Int64 where
  le_refl a := Int64.le_iff_toInt_le.mpr (le_refl _)
  le_trans a b c h1 h2 := Int64.le_iff_toInt_le.mpr (le_trans (Int64.le_iff_toInt_le.mp h1) (Int64.le_iff_toInt_le.mp h2))
  le_antisymm a b h1 h2 := Int64.toInt_inj.mp (le_antisymm (Int64.le_iff_toInt_le.mp h1) (Int64.le_iff_toInt_le.mp h2))
  le_total a b := by rcases le_total a.toInt b.toInt with h | h <;> [left; right] <;> exact Int64.le_iff_toInt_le.mpr h
  lt_iff_le_not_ge a b := by rw [Int64.lt_iff_toInt_lt, Int64.le_iff_toInt_le, Int64.le_iff_toInt_le]; omega
  toDecidableLE := inferInstance
  toDecidableLT := inferInstance
  toDecidableEq := inferInstance

instance : LawfulVOrd Int32 := ⟨fun a b => by simp [VOrd.lt]⟩
instance : LawfulVOrd Int64 := ⟨fun a b => by simp [VOrd.lt]⟩

section order
variable {α : Type} [CElem α] [LinearOrder α] [LawfulVOrd α]

/-- the translated increasing comparator is the three-way comparison of the order: negative / zero / positive exactly when
    `a < b` / `a = b` / `a > b` — on the whole type, no window -/
theorem cmp_incr_spec (a b : α) :
    (qsort_IIncreasing a b < 0 ↔ a < b) ∧ (qsort_IIncreasing a b = 0 ↔ a = b) ∧ (0 < qsort_IIncreasing a b ↔ b < a) := by
  rw [qsort_IIncreasing_eq, lt_eq_decide, lt_eq_decide]
  rcases lt_trichotomy a b with h | h | h
  · have : ¬ b < a := not_lt.mpr h.le
    simp [h, this, h.ne]
  · subst h; simp
  · have : ¬ a < b := not_lt.mpr h.le
    simp [h, this, h.ne']
theorem cmp_decr_spec (a b : α) :
    (qsort_IDecreasing a b < 0 ↔ b < a) ∧ (qsort_IDecreasing a b = 0 ↔ a = b) ∧ (0 < qsort_IDecreasing a b ↔ a < b) := by
  rw [qsort_IDecreasing_eq, lt_eq_decide, lt_eq_decide]
  rcases lt_trichotomy a b with h | h | h
  · have : ¬ b < a := not_lt.mpr h.le
    simp [h, this, h.ne]
  · subst h; simp
  · have : ¬ a < b := not_lt.mpr h.le
    simp [h, this, h.ne']

theorem qsortM_full (v : Array α) (cmp : α → α → Int) :
    qsortM v v.size cmp = some ((v.toList.mergeSort fun x y => decide (cmp x y ≤ 0)).toArray) := by
  unfold qsortM
  have : (0 : Int) ≤ (v.size : Int) ∧ (v.size : Int).toNat ≤ v.size := by constructor <;> simp
  rw [if_pos this]
  simp

theorem gen_sortIncreasing (v : Array α) :
    ∃ w, esl_vec_ISortIncreasing v v.size = some w ∧ w.toList.Perm v.toList ∧ w.toList.Pairwise (· ≤ ·) := by
  unfold esl_vec_ISortIncreasing
  rw [qsortM_full]
  refine ⟨_, rfl, ?_, ?_⟩
  · simpa using List.mergeSort_perm _ _
  · have le_iff : ∀ a b : α, decide (qsort_IIncreasing a b ≤ 0) = true ↔ a ≤ b := by
      intro a b
      have := cmp_incr_spec a b
      rw [decide_eq_true_iff]
      constructor
      · intro h; by_contra hc; have := this.2.2.mpr (not_le.mp hc); omega
      · intro h; by_contra hc; have := this.2.2.mp (by omega); exact absurd h (not_le.mpr this)
    have := List.pairwise_mergeSort (le := fun a b : α => decide (qsort_IIncreasing a b ≤ 0))
      (fun a b c h1 h2 => (le_iff a c).mpr (le_trans ((le_iff a b).mp h1) ((le_iff b c).mp h2)))
      (fun a b => by
        rcases le_total a b with h | h
        · simp [(le_iff a b).mpr h]
        · simp [(le_iff b a).mpr h]) v.toList
    simp only [List.toList_toArray] 
    exact this.imp (fun {a b} hab => (le_iff a b).mp hab)

theorem gen_sortDecreasing (v : Array α) :
    ∃ w, esl_vec_ISortDecreasing v v.size = some w ∧ w.toList.Perm v.toList ∧ w.toList.Pairwise (· ≥ ·) := by
  unfold esl_vec_ISortDecreasing
  rw [qsortM_full]
  refine ⟨_, rfl, ?_, ?_⟩
  · simpa using List.mergeSort_perm _ _
  · have le_iff : ∀ a b : α, decide (qsort_IDecreasing a b ≤ 0) = true ↔ b ≤ a := by
      intro a b
      have := cmp_decr_spec a b
      rw [decide_eq_true_iff]
      constructor
      · intro h; by_contra hc; have := this.2.2.mpr (not_le.mp hc); omega
      · intro h; by_contra hc; have := this.2.2.mp (by omega); exact absurd h (not_le.mpr this)
    have := List.pairwise_mergeSort (le := fun a b : α => decide (qsort_IDecreasing a b ≤ 0))
      (fun a b c h1 h2 => (le_iff a c).mpr (le_trans ((le_iff b c).mp h2) ((le_iff a b).mp h1)))
      (fun a b => by
        rcases le_total a b with h | h
        · simp [(le_iff b a).mpr h]
        · simp [(le_iff a b).mpr h]) v.toList
    simp only [List.toList_toArray]
    exact this.imp (fun {a b} hab => (le_iff a b).mp hab)

/-- `Max` of the generated code: a member of the vector that bounds every entry; faults exactly on the empty vector -/
theorem gen_max_spec (v : Array α) (h : v.size ≠ 0) : ∃ m, esl_vec_IMax v v.size = some m ∧ m ∈ v.toList ∧ ∀ x ∈ v.toList, x ≤ m := by
  rw [gen_max]; exact vmax_spec v.toList (by intro e; apply h; simpa using congrArg List.length e)
theorem gen_min_spec (v : Array α) (h : v.size ≠ 0) : ∃ m, esl_vec_IMin v v.size = some m ∧ m ∈ v.toList ∧ ∀ x ∈ v.toList, m ≤ x := by
  rw [gen_min]; exact vmin_spec v.toList (by intro e; apply h; simpa using congrArg List.length e)

end order

/-! ## the subtraction idiom `return x1 - x2;` (what the translator emits for it: `CWrap.toCInt (CWrap.wsub x1 x2)`)
    It is the difference of the values exactly inside a 2^31-wide window, and has the wrong sign / is zero outside it: a comparator
    written that way breaks `cmp_incr_spec`, and with it every `Sort*` theorem. -/
theorem sub_idiom_window_int (a b : Int32) (h : -2147483648 ≤ a.toInt - b.toInt ∧ a.toInt - b.toInt ≤ 2147483647) :
    CWrap.toCInt (CWrap.wsub a b) = a.toInt - b.toInt := by
  show (a - b).toInt = _
  rw [Int32.toInt_sub]
  simp only [Int.bmod_def]
  omega
theorem sub_idiom_window_int64 (a b : Int64) (h : -2147483648 ≤ a.toInt - b.toInt ∧ a.toInt - b.toInt ≤ 2147483647) :
    CWrap.toCInt (CWrap.wsub a b) = a.toInt - b.toInt := by
  show (a - b).toInt32.toInt = _
  have ha := a.toInt_lt; have hb := b.toInt_lt; have ha' := a.le_toInt; have hb' := b.le_toInt
  rw [Int64.toInt_toInt32, Int64.toInt_sub]
  simp only [Int.bmod_def]
  omega
theorem sub_idiom_wrong_int : ∃ a b : Int32, a < b ∧ 0 < CWrap.toCInt (CWrap.wsub a b) := ⟨-2000000000, 2000000000, by decide, by decide⟩
theorem sub_idiom_wrong_int64 : ∃ a b : Int64, a < b ∧ CWrap.toCInt (CWrap.wsub a b) = 0 := ⟨0, 4294967296, by decide, by decide⟩

/-- entries further apart than 2^31: the comparator is still right (the subtraction idiom `x1 - x2` is not) -/
example : qsort_IIncreasing (-2000000000 : Int32) (2000000000 : Int32) = -1 := by decide
example : qsort_LIncreasing (0 : Int64) (4294967296 : Int64) = -1 := by decide
example : qsort_LDecreasing (-9223372036854775808 : Int64) (9223372036854775807 : Int64) = 1 := by decide

end EaselModel.Vec
