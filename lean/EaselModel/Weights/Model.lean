/-! C16 — executable model of esl_distance.c (PairId), esl_cluster.c / esl_msacluster.c (single linkage),
    esl_quicksort.c, esl_msaweight.c (PB digital + text, BLOSUM, IDFilter(_adv), GSC) and the part of
    esl_tree.c used by GSC (cluster_engine in UPGMA mode, SetCladesizes).

    Core Lean only. Numeric code is written once over the class `WNum`; the `Float` instance is what the driver runs
    (bit-exact against the C code), the `Rat` instance (Weights/Lemmas*.lean) carries the theorems.

    Conventions: alignment rows are `List UInt8` (text: the characters; digital: the residue codes WITHOUT the two
    sentinels, so C's `ax[idx][apos]`, apos = 1..alen, is `row[apos-1]`; all column indices in this file are 0-based and
    the driver prints them 1-based). -/
namespace EaselModel.Weights

/-- the arithmetic the weighting code uses; `Float` = C double, `Rat` = exact -/
class WNum (α : Type) extends Add α, Sub α, Mul α, Div α where
  ofNat : Nat → α
  leb : α → α → Bool
  ltb : α → α → Bool
  isZero : α → Bool

instance : WNum Float where
  ofNat := Float.ofNat
  leb a b := a ≤ b
  ltb a b := a < b
  isZero a := a == 0.0

open WNum

abbrev Row := List UInt8

/-! ## character classes -/

/-- C locale `isalpha` -/
def isAlpha (c : UInt8) : Bool := (65 ≤ c && c ≤ 90) || (97 ≤ c && c ≤ 122)
/-- C locale `toupper` -/
def toUpper (c : UInt8) : UInt8 := if 97 ≤ c && c ≤ 122 then c - 32 else c

structure Abc where
  K : Nat
  Kp : Nat
deriving Repr

def Abc.amino : Abc := ⟨20, 29⟩
def Abc.dna : Abc := ⟨4, 18⟩

/-- `esl_abc_XIsResidue` -/
def Abc.isResidue (abc : Abc) (x : UInt8) : Bool := x.toNat < abc.K || (x.toNat > abc.K && x.toNat < abc.Kp - 2)
/-- `esl_abc_CIsGap` on an RF character (all Easel alphabets: `-`, `_`, `.` map to K) -/
def isGapChar (c : UInt8) : Bool := c == 45 || c == 95 || c == 46

/-- how residues are recognised and compared: text = isalpha / toupper, digital = XIsResidue / exact code -/
structure Mode where
  isRes : UInt8 → Bool
  key : UInt8 → UInt8

def Mode.text : Mode := ⟨isAlpha, toUpper⟩
def Mode.digital (abc : Abc) : Mode := ⟨abc.isResidue, id⟩

/-! ## esl_dst_CPairId / esl_dst_XPairId -/

/-- the loop of `esl_dst_{C,X}PairId`: walks both sequences while neither has ended; `none` = the two ends do not
    coincide (`eslEINVAL`, "strings not same length"). Accumulators `nid len1 len2` as in the C code. -/
def pairCounts (m : Mode) : Row → Row → Nat → Nat → Nat → Option (Nat × Nat × Nat)
  | [], [], nid, l1, l2 => some (nid, l1, l2)
  | x :: xs, y :: ys, nid, l1, l2 =>
    pairCounts m xs ys (if m.isRes x && m.isRes y && m.key x == m.key y then nid + 1 else nid)
      (if m.isRes x then l1 + 1 else l1) (if m.isRes y then l2 + 1 else l2)
  | _, _, _, _, _ => none

/-- `(pid, nid, n)`; `pid = (len1==0 ? 0. : (double) nid / (double) len1)` after `len1 = MIN(len1,len2)` -/
def pairId {α} [WNum α] (m : Mode) (a b : Row) : Option (α × Nat × Nat) :=
  match pairCounts m a b 0 0 0 with
  | none => none
  | some (nid, l1, l2) =>
    let n := if l1 < l2 then l1 else l2
    some (if n == 0 then ofNat 0 else ofNat nid / ofNat n, nid, n)

/-- the value written to `S->mx[i][j]`; on error the C code stores 0 and throws -/
def pid {α} [WNum α] (m : Mode) (a b : Row) : α :=
  match pairId (α := α) m a b with
  | some (p, _, _) => p
  | none => ofNat 0

/-- `msacluster_clinkage` / `msacluster_xlinkage` and the test in IDFilter: `pid >= maxid` -/
def linked {α} [WNum α] (m : Mode) (maxid : α) (a b : Row) : Bool := leb maxid (pid m a b)

/-- `esl_dst_{C,X}PairIdMx`: diagonal 1, upper triangle computed, mirrored -/
def pairIdMx {α} [WNum α] (m : Mode) (rows : List Row) : List (List α) :=
  let n := rows.length
  (List.range n).map fun i => (List.range n).map fun j =>
    if i == j then ofNat 1
    else if i < j then pid m (rows.getD i []) (rows.getD j [])
    else pid m (rows.getD j []) (rows.getD i [])

/-! ## esl_cluster_SingleLinkage

  The C code keeps `a` (unassigned vertices) and `b` (reached, not yet extended) as int stacks in one workspace.
  Here both are lists with the stack top at the head. The scan `for (i = na-1; i >= 0; i--)` with the deletion
  `a[i] = a[na-1]; na--` is `slScan`: `R` = not yet examined part (top first), `K` = examined and kept part (top
  first): deleting the element under examination moves the current top into its slot, which is the far end of `K`. -/

def rot : List Nat → List Nat
  | [] => []
  | k :: ks => ks ++ [k]

/-- returns (new `a`, vertices moved to `b` in push order) -/
def slScan (link : Nat → Nat → Bool) (v : Nat) : List Nat → List Nat → List Nat → List Nat × List Nat
  | [], K, M => (K, M)
  | x :: R, K, M => if link v x then slScan link v R (rot K) (M ++ [x]) else slScan link v R (K ++ [x]) M

theorem rot_length (K : List Nat) : (rot K).length = K.length := by
  cases K <;> simp [rot]

theorem slScan_length (link : Nat → Nat → Bool) (v : Nat) (R K M : List Nat) :
    (slScan link v R K M).1.length + (slScan link v R K M).2.length = R.length + K.length + M.length := by
  induction R generalizing K M with
  | nil => simp [slScan]
  | cons x R ih =>
    simp only [slScan]
    split
    · rw [ih]; simp [rot_length]; omega
    · rw [ih]; simp; omega

/-- the inner `while (nb > 0)` loop: returns (vertices given the current cluster number, in assignment order; new `a`) -/
def slGrow (link : Nat → Nat → Bool) : List Nat → List Nat → List Nat → List Nat × List Nat
  | [], a, done => (done, a)
  | v :: b, a, done =>
    slGrow link ((slScan link v a [] []).2.reverse ++ b) (slScan link v a [] []).1 (done ++ [v])
termination_by b a _ => b.length + a.length
decreasing_by
  have := slScan_length link v a [] []
  simp only [List.length_append, List.length_reverse, List.length_cons, List.length_nil] at *
  omega

theorem slGrow_length (link : Nat → Nat → Bool) (b a done : List Nat) :
    (slGrow link b a done).1.length + (slGrow link b a done).2.length = b.length + a.length + done.length := by
  fun_induction slGrow link b a done with
  | case1 a done => simp only [List.length_nil]; omega
  | case2 v b a done ih =>
    rw [ih]
    have := slScan_length link v a [] []
    simp only [List.length_append, List.length_reverse, List.length_cons, List.length_nil] at *
    omega

theorem slGrow_snd_le (link : Nat → Nat → Bool) (b a done : List Nat) :
    (slGrow link b a done).2.length ≤ a.length := by
  fun_induction slGrow link b a done with
  | case1 a done => simp
  | case2 v b a done ih =>
    have := slScan_length link v a [] []
    simp only [List.length_nil] at this
    omega

/-- the outer `while (na > 0)` loop: clusters in the order they are numbered -/
def slClusters (link : Nat → Nat → Bool) : List Nat → List (List Nat) → List (List Nat)
  | [], acc => acc
  | s :: a, acc => slClusters link (slGrow link [s] a []).2 (acc ++ [(slGrow link [s] a []).1])
termination_by a _ => a.length
decreasing_by
  have h := slGrow_snd_le link [s] a []
  simp only [List.length_cons]
  omega

/-- `esl_cluster_SingleLinkage` on `n` vertices: initial `a` has vertex 0 on top -/
def singleLinkage (link : Nat → Nat → Bool) (n : Nat) : List (List Nat) := slClusters link (List.range n) []

/-- index of the first cluster containing `v` (= `c[v]`); number of clusters if none -/
def clusterIndex (cl : List (List Nat)) (v : Nat) : Nat := cl.findIdx (fun c => c.contains v)

/-- `assignments[0..n-1]` -/
def assignment (cl : List (List Nat)) (n : Nat) : List Nat := (List.range n).map (clusterIndex cl)

/-- `nin[k]` as `esl_msacluster_SingleLinkage` / `esl_msaweight_BLOSUM` count it: number of i with c[i] = k -/
def clusterSizes (asg : List Nat) (nc : Nat) : List Nat := (List.range nc).map fun k => asg.countP (· == k)

/-- `esl_msacluster_SingleLinkage` -/
def msaSingleLinkage {α} [WNum α] (m : Mode) (maxid : α) (rows : List Row) : List (List Nat) :=
  singleLinkage (fun v w => linked m maxid (rows.getD v []) (rows.getD w [])) rows.length

/-! ## esl_vec_DSum / DNorm / DScale -/

/-- one step of the compensated sum: `y = x - c; t = sum + y; c = (t-sum)-y; sum = t` -/
def kahanStep {α} [WNum α] (s : α × α) (x : α) : α × α :=
  let y := x - s.2
  let t := s.1 + y
  (t, (t - s.1) - y)

def dsum {α} [WNum α] (xs : List α) : α := (xs.foldl kahanStep (ofNat 0, ofNat 0)).1

/-- `esl_vec_DNorm` -/
def dnorm {α} [WNum α] (xs : List α) : List α :=
  let s := dsum xs
  if isZero s then xs.map (fun _ => ofNat 1 / ofNat xs.length) else xs.map (· / s)

/-- `esl_vec_DNorm` followed by `esl_vec_DScale(wgt, nseq, (double) nseq)` -/
def normalizeToN {α} [WNum α] (xs : List α) : List α := (dnorm xs).map (· * ofNat xs.length)

/-! ## esl_msaweight_BLOSUM -/

def blosum {α} [WNum α] (m : Mode) (maxid : α) (rows : List Row) : List α :=
  if rows.length == 1 then [ofNat 1] else
  let cl := msaSingleLinkage m maxid rows
  let asg := assignment cl rows.length
  let nmem := clusterSizes asg cl.length
  normalizeToN (asg.map fun c => ofNat 1 / ofNat (nmem.getD c 0))

/-! ## PB weights: msaweight_PB_txt and esl_msaweight_PB_adv

  Both variants are the same computation over a per-column count table; they differ in which cells are residues
  (`sym`), which columns are used and (digital only) which rows count a column at all (fragment rule).
  Two no-ops of the C text are not reproduced: the digital code adds `0.` for a non-canonical cell, and the text code
  guards the bump with `r > 0` (true whenever the cell is a letter). -/

structure PBParams where
  /-- canonical-residue index of a cell, if it is one (text: letter 0..25 case-insensitively; digital: code < K) -/
  sym : UInt8 → Option Nat
  /-- symbols counted for `r` (26 resp. K) -/
  nsym : Nat
  /-- width of the count table (26 resp. Kp) -/
  width : Nat

def PBParams.text : PBParams := ⟨fun c => if isAlpha c then some ((toUpper c).toNat - 65) else none, 26, 26⟩
def PBParams.digital (abc : Abc) : PBParams := ⟨fun c => if c.toNat < abc.K then some c.toNat else none, abc.K, abc.Kp⟩

/-- `ct[a]`, a = 0..width-1, for a column given as the table index each row contributes (or nothing) -/
def colCounts (width : Nat) (col : List (Option Nat)) : List Nat :=
  (List.range width).map fun a => col.countP (· == some a)

structure ColStat where
  apos : Nat
  /-- number of different canonical residues in the column -/
  r : Nat
  ct : List Nat

def mkStat (p : PBParams) (apos : Nat) (col : List (Option Nat)) : ColStat :=
  let ct := colCounts p.width col
  ⟨apos, (List.range p.nsym).countP (fun a => ct.getD a 0 > 0), ct⟩

/-- `wgt[idx] += 1. / (double) (r * ct[a])`, `rlen++` for a canonical residue `a` in this column -/
def pbBump {α} [WNum α] (p : PBParams) (row : Row) (s : α × Nat) (st : ColStat) : α × Nat :=
  match p.sym (row.getD st.apos 0) with
  | none => s
  | some a => (s.1 + ofNat 1 / ofNat (st.r * st.ct.getD a 0), s.2 + 1)

/-- weight of one row before the final normalisation: column sum, `if (rlen > 0) wgt /= (double) rlen` -/
def pbRaw {α} [WNum α] (p : PBParams) (stats : List ColStat) (row : Row) : α :=
  let s := stats.foldl (pbBump p row) (ofNat 0, 0)
  if s.2 > 0 then s.1 / ofNat s.2 else s.1

def pbWeights {α} [WNum α] (p : PBParams) (stats : List ColStat) (rows : List Row) : List α :=
  if rows.length == 1 then [ofNat 1] else normalizeToN (rows.map (pbRaw p stats))

def alenOf (rows : List Row) : Nat := (rows.headD []).length

/-- text mode: every column, every row counts -/
def txtStats (rows : List Row) : List ColStat :=
  (List.range (alenOf rows)).map fun apos => mkStat PBParams.text apos (rows.map fun row => PBParams.text.sym (row.getD apos 0))

/-- `msaweight_PB_txt` -/
def pbText {α} [WNum α] (rows : List Row) : List α := pbWeights PBParams.text (txtStats rows) rows

/-- first residue column (C: `lpos`, 1-based; `alen+1` if none) — here 0-based, `alen` if none -/
def lposOf (abc : Abc) (row : Row) : Nat := row.findIdx abc.isResidue

/-- last residue column (C: `rpos`, 1-based, 0 if none) — here 0-based as an `Int`, -1 if none -/
def rposOf (abc : Abc) (row : Row) : Int := (row.length : Int) - 1 - (row.reverse.findIdx abc.isResidue : Int)

structure RowInfo where
  row : Row
  /-- HMMER fragment rule: span `rpos-lpos+1` below `minspan` -/
  frag : Bool
  lpos : Nat
  rpos : Int

def rowInfo (abc : Abc) (minspan : Int) (row : Row) : RowInfo :=
  ⟨row, decide (rposOf abc row - (lposOf abc row : Int) + 1 < minspan), lposOf abc row, rposOf abc row⟩

/-- a full-length row counts every column, a fragment only `lpos..rpos` -/
def RowInfo.counted (ri : RowInfo) (apos : Nat) : Bool :=
  if ri.frag then decide (ri.lpos ≤ apos) && decide ((apos : Int) ≤ ri.rpos) else true

/-- what `collect_counts` adds to `ct[apos][]` -/
def digCol (infos : List RowInfo) (apos : Nat) : List (Option Nat) :=
  infos.map fun ri => if ri.counted apos then some (ri.row.getD apos 0).toNat else none

/-- `consensus_by_all`: `tot` over symbols 0..Kp-3, rule applied to (gap count, tot) -/
def consByAll (abc : Abc) (rule : Nat → Nat → Bool) (infos : List RowInfo) (alen : Nat) : List Nat :=
  (List.range alen).filter fun apos =>
    let ct := colCounts abc.Kp (digCol infos apos)
    rule (ct.getD abc.K 0) ((ct.take (abc.Kp - 2)).foldl (· + ·) 0)

/-- `consensus_by_rf` -/
def consByRf (rf : Row) (alen : Nat) : List Nat := (List.range alen).filter fun apos => !isGapChar (rf.getD apos 45)

structure ConsInfo where
  byRf : Bool
  byAll : Bool
  allCols : Bool
  cols : List Nat

/-- consensus column selection of `esl_msaweight_PB_adv` (sampling branch not modelled: nseq ≤ sampthresh) -/
def pbConsensus (abc : Abc) (rule : Nat → Nat → Bool) (rf : Option Row) (infos : List RowInfo) (alen : Nat) : ConsInfo :=
  let c1 := match rf with | some r => consByRf r alen | none => []
  let c2 := if c1.isEmpty then consByAll abc rule infos alen else c1
  let c3 := if c2.isEmpty then List.range alen else c2
  ⟨rf.isSome, c1.isEmpty, c2.isEmpty, c3⟩

def digStats (abc : Abc) (infos : List RowInfo) (cols : List Nat) : List ColStat :=
  cols.map fun apos => mkStat (PBParams.digital abc) apos (digCol infos apos)

/-- `esl_msaweight_PB_adv` once the consensus columns are known -/
def pbDigitalWith {α} [WNum α] (abc : Abc) (minspan : Int) (cols : List Nat) (rows : List Row) : List α :=
  pbWeights (PBParams.digital abc) (digStats abc (rows.map (rowInfo abc minspan)) cols) rows

def pbDigital {α} [WNum α] (abc : Abc) (rule : Nat → Nat → Bool) (minspan : Int) (rf : Option Row) (rows : List Row) : List α :=
  pbDigitalWith abc minspan (pbConsensus abc rule rf (rows.map (rowInfo abc minspan)) (alenOf rows)).cols rows

def nFragments (abc : Abc) (minspan : Int) (rows : List Row) : Nat := rows.countP fun row => (rowInfo abc minspan row).frag

/-! ## esl_quicksort -/

def aget (a : Array Nat) (i : Nat) : Nat := a.getD i 0
def aswap (a : Array Nat) (i j : Nat) : Array Nat := a.swapIfInBounds i j

/-- `do { i++; } while (i <= hi && comparison(data, ord[i], ord[lo]) < 0)`; `i` is the value before the first `i++` -/
def qsUp (cmp : Nat → Nat → Int) (ord : Array Nat) (lo hi : Nat) (i : Nat) : Nat → Nat
  | 0 => i + 1
  | fuel + 1 => if i + 1 ≤ hi && cmp (aget ord (i + 1)) (aget ord lo) < 0 then qsUp cmp ord lo hi (i + 1) fuel else i + 1

/-- `do { j--; } while (comparison(data, ord[j], ord[lo]) > 0)`; stops at `lo` at the latest when `cmp x x = 0`
    (the model also stops at 0, where the C code would leave the array) -/
def qsDown (cmp : Nat → Nat → Int) (ord : Array Nat) (lo : Nat) : Nat → Nat
  | 0 => 0
  | j + 1 => if cmp (aget ord j) (aget ord lo) > 0 then qsDown cmp ord lo j else j

/-- the `while (1)` partition loop; returns (ord, j) -/
def qsLoop (cmp : Nat → Nat → Int) (lo hi : Nat) : Nat → Array Nat → Nat → Nat → Array Nat × Nat
  | 0, ord, _, j => (ord, j)
  | fuel + 1, ord, i, j =>
    let i' := qsUp cmp ord lo hi i (hi + 1)
    let j' := qsDown cmp ord lo j
    if j' > i' then qsLoop cmp lo hi fuel (aswap ord j' i') i' j' else (ord, j')

/-- `partition()`; the first statement of the C function (`ord[hi] = ord[lo]; ord[hi] = swap`) changes nothing -/
def qsPartition (cmp : Nat → Nat → Int) : Nat → Array Nat → Nat → Nat → Array Nat
  | 0, ord, _, _ => ord
  | fuel + 1, ord, lo, hi =>
    let mid := lo + (hi - lo) / 2
    let pivot := if cmp (aget ord mid) (aget ord lo) < 0 then lo
                 else if cmp (aget ord mid) (aget ord hi) > 0 then hi else mid
    let ord := aswap ord pivot lo
    let (ord, j) := qsLoop cmp lo hi (hi + 2) ord lo (hi + 1)
    let ord := aswap ord lo j
    if j - lo < hi - j then
      let ord := if j - lo > 1 then qsPartition cmp fuel ord lo (j - 1) else ord
      if hi - j > 1 then qsPartition cmp fuel ord (j + 1) hi else ord
    else
      let ord := if hi - j > 1 then qsPartition cmp fuel ord (j + 1) hi else ord
      if j - lo > 1 then qsPartition cmp fuel ord lo (j - 1) else ord

/-- `esl_quicksort`: `sorted_at[]` -/
def quicksort (cmp : Nat → Nat → Int) (n : Nat) : List Nat :=
  if n > 1 then (qsPartition cmp (n + 1) (Array.range n) 0 (n - 1)).toList else List.range n

/-- `sort_doubles_decreasing` -/
def cmpDecreasing {α} [WNum α] (w : List α) (e1 e2 : Nat) : Int :=
  match w[e1]?, w[e2]? with
  | some x, some y => if ltb y x then -1 else if ltb x y then 1 else 0
  | _, _ => 0

/-! ## esl_msaweight_IDFilter(_adv), msaweight_IDFilter_txt -/

/-- the greedy pass: `list` grows in order; a candidate is dropped at the first listed row it is linked to -/
def filterGreedy (link : Nat → Nat → Bool) : List Nat → List Nat → List Nat
  | [], list => list
  | r :: rest, list => if list.any (fun k => link r k) then filterGreedy link rest list else filterGreedy link rest (list ++ [r])

/-- `set_preference_conscover`: consensus columns inside the row's first..last residue span -/
def conscover (abc : Abc) (cols : List Nat) (row : Row) : Nat :=
  cols.countP fun apos => decide (lposOf abc row ≤ apos) && decide ((apos : Int) ≤ rposOf abc row)

/-- consensus columns as `esl_msaweight_IDFilter_adv` determines them (no consensus_by_all retry after an all-gap RF) -/
def filterConsensus (abc : Abc) (rule : Nat → Nat → Bool) (minspan : Int) (rf : Option Row) (rows : List Row) (alen : Nat) : List Nat :=
  let c := match rf with
    | some r => consByRf r alen
    | none => consByAll abc rule (rows.map (rowInfo abc minspan)) alen
  if c.isEmpty then List.range alen else c

/-- kept row indices in the order they were accepted -/
def idFilterOrder {α} [WNum α] (m : Mode) (maxid : α) (rows : List Row) (order : List Nat) : List Nat :=
  filterGreedy (fun r k => linked m maxid (rows.getD r []) (rows.getD k [])) order []

def idFilterText {α} [WNum α] (maxid : α) (rows : List Row) : List Nat :=
  idFilterOrder Mode.text maxid rows (List.range rows.length)

/-- `sortwgt` is the preference vector (conscover counts / random doubles / nseq-idx) -/
def idFilterDigital {α} [WNum α] (abc : Abc) (maxid : α) (sortwgt : List α) (rows : List Row) : List Nat :=
  idFilterOrder (Mode.digital abc) maxid rows (quicksort (cmpDecreasing sortwgt) rows.length)

/-! ## esl_msaweight_GSC: esl_dst_{C,X}DiffMx, esl_tree.c cluster_engine (UPGMA), esl_tree_SetCladesizes, two traversals

  Representation. The C code keeps the distance matrix compacted in its top-left N×N corner by swapping the two joined
  rows/columns to the end, and addresses clusters by their current POSITION. The model addresses clusters by IDENTITY:
  cluster numbers 0..n-1 are the taxa, n+s is the node created in pass s (the C node index is n-2-s), and the distance
  between two clusters is stored once, in the row of the younger one; rows are only ever appended. What remains of the
  C positions is the table `act` (position → cluster number), which undergoes exactly the C swaps, so that the minimum
  search visits the pairs in the C order (ties: first minimum) and every floating-point operation has the C operands in
  the C order. `D->mx[r][c]` of the C code is `kdist rows act[r] act[c]`. The traversals likewise index by cluster number;
  `x[]` of the preorder pass becomes an association list (each cluster receives its share from its parent exactly once). -/

def vget {α} [WNum α] (x : Array α) (i : Nat) : α := x.getD i (ofNat 0)

/-- `esl_dst_{C,X}DiffMx` (row-major n×n): 0 on the diagonal, `1. - pid` elsewhere (upper triangle mirrored) -/
def diffMx {α} [WNum α] (m : Mode) (rows : List Row) : Array α :=
  let n := rows.length
  ((List.range n).flatMap fun i => (List.range n).map fun j =>
    if i == j then (ofNat 0 : α)
    else if i < j then ofNat 1 - pid m (rows.getD i []) (rows.getD j [])
    else ofNat 1 - pid m (rows.getD j []) (rows.getD i [])).toArray

/-- `ESL_MAX(0., x)` = `((0.) > (x)) ? (0.) : (x)` -/
def max0 {α} [WNum α] (x : α) : α := if ltb x (ofNat 0) then ofNat 0 else x

/-- distance between two different clusters: entry `x` of row `y` for `x < y` -/
def kdist {α} [WNum α] (rows : Array (Array α)) (x y : Nat) : α :=
  if x < y then (rows.getD y #[]).getD x (ofNat 0) else (rows.getD x #[]).getD y (ofNat 0)

/-- the upper-triangle positions in the order the C loops `for row.. for col = row+1..` visit them -/
def upperPairs (N : Nat) : List (Nat × Nat) :=
  (List.range N).flatMap fun row => (List.range' (row + 1) (N - (row + 1))).map fun col => (row, col)

/-- the minimum search: `minD = D[0][1]; i = 0; j = 1;` then strict `<` over the upper triangle in row-major order -/
def kfindMin {α} [WNum α] (rows : Array (Array α)) (act : Array Nat) : α × Nat × Nat :=
  (upperPairs act.size).foldl (fun st rc =>
    if ltb (kdist rows (act.getD rc.1 0) (act.getD rc.2 0)) st.1
    then (kdist rows (act.getD rc.1 0) (act.getD rc.2 0), rc.1, rc.2) else st)
    (kdist rows (act.getD 0 0) (act.getD 1 0), 0, 1)

/-- a tree node: the two clusters joined (left = the one at the lower matrix position) and the branch lengths to them -/
structure KNode (α : Type) where
  I : Nat
  J : Nat
  l : α
  r : α

structure KState (α : Type) where
  /-- `rows[y][x]`, x < y: distance between clusters x and y -/
  rows : Array (Array α)
  /-- `nin[]`, by cluster number -/
  size : Array Nat
  /-- `height[]`, by cluster number (0 for taxa) -/
  hgt : Array α
  /-- position → cluster number, for the N positions still in use -/
  act : Array Nat
  /-- nodes created so far, newest first -/
  nodes : List (KNode α)

/-- `ld`/`rd`: the node's height, minus the child's height (clamped at 0) if the child is an internal node -/
def kbranch {α} [WNum α] (n : Nat) (h : α) (hgt : Array α) (c : Nat) : α :=
  if c ≥ n then max0 (h - vget hgt c) else h

/-- UPGMA rule: `(nin[i] * D[i][col] + nin[j] * D[j][col]) / (double) (nin[i] + nin[j])` -/
def kmerged {α} [WNum α] (rows : Array (Array α)) (nI nJ I J x : Nat) : α :=
  (ofNat nI * kdist rows I x + ofNat nJ * kdist rows J x) / ofNat (nI + nJ)

/-- `if (pos != target) ESL_SWAP(idx[pos], idx[target])` -/
def moveIdx (a : Array Nat) (target pos : Nat) : Array Nat := if pos != target then a.swapIfInBounds pos target else a

section kstep
variable {α : Type} [WNum α] (n : Nat) (st : KState α)
def kMin : α × Nat × Nat := kfindMin st.rows st.act
def kPosI : Nat := (kMin st).2.1
def kPosJ : Nat := (kMin st).2.2
def kI : Nat := st.act.getD (kPosI st) 0
def kJ : Nat := st.act.getD (kPosJ st) 0
/-- `height[N-2] = minD / 2.` -/
def kH : α := (kMin st).1 / ofNat 2
/-- j is moved to position N-1, then i to N-2; the new cluster takes position N-2 and position N-1 falls away -/
def kAct : Array Nat :=
  ((moveIdx (moveIdx st.act (st.act.size - 1) (kPosJ st)) (st.act.size - 2) (kPosI st)).setIfInBounds (st.act.size - 2) st.rows.size).pop
def kRow : Array α :=
  (Array.range st.rows.size).map (kmerged st.rows (st.size.getD (kI st) 0) (st.size.getD (kJ st) 0) (kI st) (kJ st))

/-- one pass of the `for (N = D->n; N >= 2; N--)` loop of `cluster_engine` (mode eslUPGMA) -/
def kstep : KState α :=
  { rows := st.rows.push (kRow st)
    size := st.size.push (st.size.getD (kI st) 0 + st.size.getD (kJ st) 0)
    hgt := st.hgt.push (kH st)
    act := kAct st
    nodes := ⟨kI st, kJ st, kbranch n (kH st) st.hgt (kI st), kbranch n (kH st) st.hgt (kJ st)⟩ :: st.nodes }
end kstep

/-- the state `cluster_engine` starts from: distances of `esl_dst_{C,X}DiffMx` (upper triangle as computed there) -/
def kinit {α} [WNum α] (m : Mode) (rws : List Row) : KState α :=
  { rows := ((List.range rws.length).map fun y =>
      ((List.range y).map fun x => (ofNat 1 : α) - pid m (rws.getD x []) (rws.getD y [])).toArray).toArray
    size := Array.replicate rws.length 1
    hgt := Array.replicate rws.length (ofNat 0)
    act := Array.range rws.length
    nodes := [] }

def krun {α} [WNum α] (n : Nat) (st : KState α) : Nat → KState α
  | 0 => st
  | k + 1 => kstep n (krun n st k)

/-- `esl_tree_SetCladesizes`, by cluster number (taxa: 1); `created` = nodes oldest first -/
def kclades {α} (n : Nat) (created : List (KNode α)) : Array Nat :=
  created.foldl (fun cs nd => cs.push (cs.getD nd.I 0 + cs.getD nd.J 0)) (Array.replicate n 1)

/-- postorder pass: `x[i] = ld[i] + rd[i] (+ x[left]) (+ x[right])`, children before parents -/
def kup {α} [WNum α] (n : Nat) (created : List (KNode α)) : Array α :=
  created.foldl (fun xs nd =>
    let x0 := nd.l + nd.r
    let x1 := if nd.I ≥ n then x0 + vget xs nd.I else x0
    let x2 := if nd.J ≥ n then x1 + vget xs nd.J else x1
    xs.push x2) (Array.replicate n (ofNat 0))

/-- what a cluster received from its parent (`x[child] = ...` / `msa->wgt[taxon] = ...`); 0 for the root (`x[0] = 0`) -/
def lookupD {α} [WNum α] (l : List (Nat × α)) (x : Nat) : α :=
  match l.find? (fun p => p.1 == x) with
  | some p => p.2
  | none => ofNat 0

/-- `lw = T->ld[i]; if (T->left[i] > 0) lw += x[T->left[i]]` -/
def kside {α} [WNum α] (n : Nat) (xs : Array α) (d : α) (child : Nat) : α :=
  if child ≥ n then d + vget xs child else d

/-- the share of `x[i]` passed to one child: in proportion to branch weight `mine/(lw+rw)`, or to clade size when
    `lw+rw == 0.` -/
def kshare {α} [WNum α] (n : Nat) (cs : Array Nat) (child c : Nat) (xi mine total : α) : α :=
  if isZero total then
    (if child ≥ n then xi * (ofNat (cs.getD child 0) / ofNat (cs.getD c 0)) else xi / ofNat (cs.getD c 0))
  else xi * mine / total

/-- one node of the preorder pass (parents before children); state = (shares handed down so far, this node's number) -/
def kdownStep {α} [WNum α] (n : Nat) (cs : Array Nat) (xs : Array α) (st : List (Nat × α) × Nat) (nd : KNode α) :
    List (Nat × α) × Nat :=
  let xi := lookupD st.1 st.2
  let lw := kside n xs nd.l nd.I
  let rw := kside n xs nd.r nd.J
  ((nd.J, kshare n cs nd.J st.2 xi rw (lw + rw) + nd.r) :: (nd.I, kshare n cs nd.I st.2 xi lw (lw + rw) + nd.l) :: st.1,
   st.2 - 1)

/-- `nodes` newest (root) first -/
def kdown {α} [WNum α] (n : Nat) (cs : Array Nat) (xs : Array α) (nodes : List (KNode α)) : List (Nat × α) :=
  (nodes.foldl (kdownStep n cs xs) ([], n + nodes.length - 1)).1

/-- `msa->wgt[0..nseq-1]` before the final normalisation -/
def gscRaw {α} [WNum α] (m : Mode) (rows : List Row) : List α :=
  let n := rows.length
  let st := krun n (kinit (α := α) m rows) (n - 1)
  let created := st.nodes.reverse
  let above := kdown n (kclades n created) (kup n created) st.nodes
  (List.range n).map (lookupD above)

def gsc {α} [WNum α] (m : Mode) (rows : List Row) : List α :=
  if rows.length == 1 then [ofNat 1] else normalizeToN (gscRaw m rows)

end EaselModel.Weights
