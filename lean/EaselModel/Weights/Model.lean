/-! C16 — executable model of esl_distance.c (PairId), esl_cluster.c / esl_msacluster.c (single linkage),
    esl_quicksort.c, esl_msaweight.c (PB digital + text, BLOSUM, IDFilter(_adv), GSC) and the part of
    esl_tree.c used by GSC (cluster_engine in UPGMA mode, SetCladesizes).

    Core Lean only. Numeric code is written once over the class `WNum`; the `Float` instance is what the driver runs
    (bit-exact against the C code), the `Rat` instance (Weights/Lemmas*.lean) carries the theorems.

    Conventions: alignment rows are `List UInt8` (text: the characters; digital: the residue codes WITHOUT the two
    sentinels, so C's `ax[idx][apos]`, apos = 1..alen, is `row[apos-1]`; all column indices in this file are 0-based and
    the driver prints them 1-based). -/
namespace EaselModel.Weights

/-- the arithmetic the weighting code uses; `Float` = C double, `Rat` = exact -/
class WNum (α : Type) extends Add α, Sub α, Mul α, Div α where
  ofNat : Nat → α
  leb : α → α → Bool
  ltb : α → α → Bool
  isZero : α → Bool

instance : WNum Float where
  ofNat := Float.ofNat
  leb a b := a ≤ b
  ltb a b := a < b
  isZero a := a == 0.0

open WNum

abbrev Row := List UInt8

/-! ## character classes -/

/-- C locale `isalpha` -/
def isAlpha (c : UInt8) : Bool := (65 ≤ c && c ≤ 90) || (97 ≤ c && c ≤ 122)
/-- C locale `toupper` -/
def toUpper (c : UInt8) : UInt8 := if 97 ≤ c && c ≤ 122 then c - 32 else c

structure Abc where
  K : Nat
  Kp : Nat
deriving Repr

def Abc.amino : Abc := ⟨20, 29⟩
def Abc.dna : Abc := ⟨4, 18⟩

/-- `esl_abc_XIsResidue` -/
def Abc.isResidue (abc : Abc) (x : UInt8) : Bool := x.toNat < abc.K || (x.toNat > abc.K && x.toNat < abc.Kp - 2)
/-- `esl_abc_CIsGap` on an RF character (all Easel alphabets: `-`, `_`, `.` map to K) -/
def isGapChar (c : UInt8) : Bool := c == 45 || c == 95 || c == 46

/-- how residues are recognised and compared: text = isalpha / toupper, digital = XIsResidue / exact code -/
structure Mode where
  isRes : UInt8 → Bool
  key : UInt8 → UInt8

def Mode.text : Mode := ⟨isAlpha, toUpper⟩
def Mode.digital (abc : Abc) : Mode := ⟨abc.isResidue, id⟩

/-! ## esl_dst_CPairId / esl_dst_XPairId -/

/-- the loop of `esl_dst_{C,X}PairId`: walks both sequences while neither has ended; `none` = the two ends do not
    coincide (`eslEINVAL`, "strings not same length"). Accumulators `nid len1 len2` as in the C code. -/
def pairCounts (m : Mode) : Row → Row → Nat → Nat → Nat → Option (Nat × Nat × Nat)
  | [], [], nid, l1, l2 => some (nid, l1, l2)
  | x :: xs, y :: ys, nid, l1, l2 =>
    pairCounts m xs ys (if m.isRes x && m.isRes y && m.key x == m.key y then nid + 1 else nid)
      (if m.isRes x then l1 + 1 else l1) (if m.isRes y then l2 + 1 else l2)
  | _, _, _, _, _ => none

/-- `(pid, nid, n)`; `pid = (len1==0 ? 0. : (double) nid / (double) len1)` after `len1 = MIN(len1,len2)` -/
def pairId {α} [WNum α] (m : Mode) (a b : Row) : Option (α × Nat × Nat) :=
  match pairCounts m a b 0 0 0 with
  | none => none
  | some (nid, l1, l2) =>
    let n := if l1 < l2 then l1 else l2
    some (if n == 0 then ofNat 0 else ofNat nid / ofNat n, nid, n)

/-- the value written to `S->mx[i][j]`; on error the C code stores 0 and throws -/
def pid {α} [WNum α] (m : Mode) (a b : Row) : α :=
  match pairId (α := α) m a b with
  | some (p, _, _) => p
  | none => ofNat 0

/-- `msacluster_clinkage` / `msacluster_xlinkage` and the test in IDFilter: `pid >= maxid` -/
def linked {α} [WNum α] (m : Mode) (maxid : α) (a b : Row) : Bool := leb maxid (pid m a b)

/-- `esl_dst_{C,X}PairIdMx`: diagonal 1, upper triangle computed, mirrored -/
def pairIdMx {α} [WNum α] (m : Mode) (rows : List Row) : List (List α) :=
  let n := rows.length
  (List.range n).map fun i => (List.range n).map fun j =>
    if i == j then ofNat 1
    else if i < j then pid m (rows.getD i []) (rows.getD j [])
    else pid m (rows.getD j []) (rows.getD i [])

/-! ## esl_cluster_SingleLinkage

  The C code keeps `a` (unassigned vertices) and `b` (reached, not yet extended) as int stacks in one workspace.
  Here both are lists with the stack top at the head. The scan `for (i = na-1; i >= 0; i--)` with the deletion
  `a[i] = a[na-1]; na--` is `slScan`: `R` = not yet examined part (top first), `K` = examined and kept part (top
  first): deleting the element under examination moves the current top into its slot, which is the far end of `K`. -/

def rot : List Nat → List Nat
  | [] => []
  | k :: ks => ks ++ [k]

/-- returns (new `a`, vertices moved to `b` in push order) -/
def slScan (link : Nat → Nat → Bool) (v : Nat) : List Nat → List Nat → List Nat → List Nat × List Nat
  | [], K, M => (K, M)
  | x :: R, K, M => if link v x then slScan link v R (rot K) (M ++ [x]) else slScan link v R (K ++ [x]) M

theorem rot_length (K : List Nat) : (rot K).length = K.length := by
  cases K <;> simp [rot]

theorem slScan_length (link : Nat → Nat → Bool) (v : Nat) (R K M : List Nat) :
    (slScan link v R K M).1.length + (slScan link v R K M).2.length = R.length + K.length + M.length := by
  induction R generalizing K M with
  | nil => simp [slScan]
  | cons x R ih =>
    simp only [slScan]
    split
    · rw [ih]; simp [rot_length]; omega
    · rw [ih]; simp; omega

/-- the inner `while (nb > 0)` loop: returns (vertices given the current cluster number, in assignment order; new `a`) -/
def slGrow (link : Nat → Nat → Bool) : List Nat → List Nat → List Nat → List Nat × List Nat
  | [], a, done => (done, a)
  | v :: b, a, done =>
    slGrow link ((slScan link v a [] []).2.reverse ++ b) (slScan link v a [] []).1 (done ++ [v])
termination_by b a _ => b.length + a.length
decreasing_by
  have := slScan_length link v a [] []
  simp only [List.length_append, List.length_reverse, List.length_cons, List.length_nil] at *
  omega

theorem slGrow_length (link : Nat → Nat → Bool) (b a done : List Nat) :
    (slGrow link b a done).1.length + (slGrow link b a done).2.length = b.length + a.length + done.length := by
  fun_induction slGrow link b a done with
  | case1 a done => simp only [List.length_nil]; omega
  | case2 v b a done ih =>
    rw [ih]
    have := slScan_length link v a [] []
    simp only [List.length_append, List.length_reverse, List.length_cons, List.length_nil] at *
    omega

theorem slGrow_snd_le (link : Nat → Nat → Bool) (b a done : List Nat) :
    (slGrow link b a done).2.length ≤ a.length := by
  fun_induction slGrow link b a done with
  | case1 a done => simp
  | case2 v b a done ih =>
    have := slScan_length link v a [] []
    simp only [List.length_nil] at this
    omega

/-- the outer `while (na > 0)` loop: clusters in the order they are numbered -/
def slClusters (link : Nat → Nat → Bool) : List Nat → List (List Nat) → List (List Nat)
  | [], acc => acc
  | s :: a, acc => slClusters link (slGrow link [s] a []).2 (acc ++ [(slGrow link [s] a []).1])
termination_by a _ => a.length
decreasing_by
  have h := slGrow_snd_le link [s] a []
  simp only [List.length_cons]
  omega

/-- `esl_cluster_SingleLinkage` on `n` vertices: initial `a` has vertex 0 on top -/
def singleLinkage (link : Nat → Nat → Bool) (n : Nat) : List (List Nat) := slClusters link (List.range n) []

/-- index of the first cluster containing `v` (= `c[v]`); number of clusters if none -/
def clusterIndex (cl : List (List Nat)) (v : Nat) : Nat := cl.findIdx (fun c => c.contains v)

/-- `assignments[0..n-1]` -/
def assignment (cl : List (List Nat)) (n : Nat) : List Nat := (List.range n).map (clusterIndex cl)

/-- `nin[k]` as `esl_msacluster_SingleLinkage` / `esl_msaweight_BLOSUM` count it: number of i with c[i] = k -/
def clusterSizes (asg : List Nat) (nc : Nat) : List Nat := (List.range nc).map fun k => asg.countP (· == k)

/-- `esl_msacluster_SingleLinkage` -/
def msaSingleLinkage {α} [WNum α] (m : Mode) (maxid : α) (rows : List Row) : List (List Nat) :=
  singleLinkage (fun v w => linked m maxid (rows.getD v []) (rows.getD w [])) rows.length

/-! ## esl_vec_DSum / DNorm / DScale -/

/-- one step of the compensated sum: `y = x - c; t = sum + y; c = (t-sum)-y; sum = t` -/
def kahanStep {α} [WNum α] (s : α × α) (x : α) : α × α :=
  let y := x - s.2
  let t := s.1 + y
  (t, (t - s.1) - y)

def dsum {α} [WNum α] (xs : List α) : α := (xs.foldl kahanStep (ofNat 0, ofNat 0)).1

/-- `esl_vec_DNorm` -/
def dnorm {α} [WNum α] (xs : List α) : List α :=
  let s := dsum xs
  if isZero s then xs.map (fun _ => ofNat 1 / ofNat xs.length) else xs.map (· / s)

/-- `esl_vec_DNorm` followed by `esl_vec_DScale(wgt, nseq, (double) nseq)` -/
def normalizeToN {α} [WNum α] (xs : List α) : List α := (dnorm xs).map (· * ofNat xs.length)

/-! ## esl_msaweight_BLOSUM -/

def blosum {α} [WNum α] (m : Mode) (maxid : α) (rows : List Row) : List α :=
  if rows.length == 1 then [ofNat 1] else
  let cl := msaSingleLinkage m maxid rows
  let asg := assignment cl rows.length
  let nmem := clusterSizes asg cl.length
  normalizeToN (asg.map fun c => ofNat 1 / ofNat (nmem.getD c 0))

/-! ## PB weights: msaweight_PB_txt and esl_msaweight_PB_adv

  Both variants are the same computation over a per-column count table; they differ in which cells are residues
  (`sym`), which columns are used and (digital only) which rows count a column at all (fragment rule).
  Two no-ops of the C text are not reproduced: the digital code adds `0.` for a non-canonical cell, and the text code
  guards the bump with `r > 0` (true whenever the cell is a letter). -/

structure PBParams where
  /-- canonical-residue index of a cell, if it is one (text: letter 0..25 case-insensitively; digital: code < K) -/
  sym : UInt8 → Option Nat
  /-- symbols counted for `r` (26 resp. K) -/
  nsym : Nat
  /-- width of the count table (26 resp. Kp) -/
  width : Nat

def PBParams.text : PBParams := ⟨fun c => if isAlpha c then some ((toUpper c).toNat - 65) else none, 26, 26⟩
def PBParams.digital (abc : Abc) : PBParams := ⟨fun c => if c.toNat < abc.K then some c.toNat else none, abc.K, abc.Kp⟩

/-- `ct[a]`, a = 0..width-1, for a column given as the table index each row contributes (or nothing) -/
def colCounts (width : Nat) (col : List (Option Nat)) : List Nat :=
  (List.range width).map fun a => col.countP (· == some a)

structure ColStat where
  apos : Nat
  /-- number of different canonical residues in the column -/
  r : Nat
  ct : List Nat

def mkStat (p : PBParams) (apos : Nat) (col : List (Option Nat)) : ColStat :=
  let ct := colCounts p.width col
  ⟨apos, (List.range p.nsym).countP (fun a => ct.getD a 0 > 0), ct⟩

/-- `wgt[idx] += 1. / (double) (r * ct[a])`, `rlen++` for a canonical residue `a` in this column -/
def pbBump {α} [WNum α] (p : PBParams) (row : Row) (s : α × Nat) (st : ColStat) : α × Nat :=
  match p.sym (row.getD st.apos 0) with
  | none => s
  | some a => (s.1 + ofNat 1 / ofNat (st.r * st.ct.getD a 0), s.2 + 1)

/-- weight of one row before the final normalisation: column sum, `if (rlen > 0) wgt /= (double) rlen` -/
def pbRaw {α} [WNum α] (p : PBParams) (stats : List ColStat) (row : Row) : α :=
  let s := stats.foldl (pbBump p row) (ofNat 0, 0)
  if s.2 > 0 then s.1 / ofNat s.2 else s.1

def pbWeights {α} [WNum α] (p : PBParams) (stats : List ColStat) (rows : List Row) : List α :=
  if rows.length == 1 then [ofNat 1] else normalizeToN (rows.map (pbRaw p stats))

def alenOf (rows : List Row) : Nat := (rows.headD []).length

/-- text mode: every column, every row counts -/
def txtStats (rows : List Row) : List ColStat :=
  (List.range (alenOf rows)).map fun apos => mkStat PBParams.text apos (rows.map fun row => PBParams.text.sym (row.getD apos 0))

/-- `msaweight_PB_txt` -/
def pbText {α} [WNum α] (rows : List Row) : List α := pbWeights PBParams.text (txtStats rows) rows

/-- first residue column (C: `lpos`, 1-based; `alen+1` if none) — here 0-based, `alen` if none -/
def lposOf (abc : Abc) (row : Row) : Nat := row.findIdx abc.isResidue

/-- last residue column (C: `rpos`, 1-based, 0 if none) — here 0-based as an `Int`, -1 if none -/
def rposOf (abc : Abc) (row : Row) : Int := (row.length : Int) - 1 - (row.reverse.findIdx abc.isResidue : Int)

structure RowInfo where
  row : Row
  /-- HMMER fragment rule: span `rpos-lpos+1` below `minspan` -/
  frag : Bool
  lpos : Nat
  rpos : Int

def rowInfo (abc : Abc) (minspan : Int) (row : Row) : RowInfo :=
  ⟨row, decide (rposOf abc row - (lposOf abc row : Int) + 1 < minspan), lposOf abc row, rposOf abc row⟩

/-- a full-length row counts every column, a fragment only `lpos..rpos` -/
def RowInfo.counted (ri : RowInfo) (apos : Nat) : Bool :=
  if ri.frag then decide (ri.lpos ≤ apos) && decide ((apos : Int) ≤ ri.rpos) else true

/-- what `collect_counts` adds to `ct[apos][]` -/
def digCol (infos : List RowInfo) (apos : Nat) : List (Option Nat) :=
  infos.map fun ri => if ri.counted apos then some (ri.row.getD apos 0).toNat else none

/-- `consensus_by_all`: `tot` over symbols 0..Kp-3, rule applied to (gap count, tot) -/
def consByAll (abc : Abc) (rule : Nat → Nat → Bool) (infos : List RowInfo) (alen : Nat) : List Nat :=
  (List.range alen).filter fun apos =>
    let ct := colCounts abc.Kp (digCol infos apos)
    rule (ct.getD abc.K 0) ((ct.take (abc.Kp - 2)).foldl (· + ·) 0)

/-- `consensus_by_rf` -/
def consByRf (rf : Row) (alen : Nat) : List Nat := (List.range alen).filter fun apos => !isGapChar (rf.getD apos 45)

structure ConsInfo where
  byRf : Bool
  byAll : Bool
  allCols : Bool
  cols : List Nat

/-- consensus column selection of `esl_msaweight_PB_adv` (sampling branch not modelled: nseq ≤ sampthresh) -/
def pbConsensus (abc : Abc) (rule : Nat → Nat → Bool) (rf : Option Row) (infos : List RowInfo) (alen : Nat) : ConsInfo :=
  let c1 := match rf with | some r => consByRf r alen | none => []
  let c2 := if c1.isEmpty then consByAll abc rule infos alen else c1
  let c3 := if c2.isEmpty then List.range alen else c2
  ⟨rf.isSome, c1.isEmpty, c2.isEmpty, c3⟩

def digStats (abc : Abc) (infos : List RowInfo) (cols : List Nat) : List ColStat :=
  cols.map fun apos => mkStat (PBParams.digital abc) apos (digCol infos apos)

/-- `esl_msaweight_PB_adv` once the consensus columns are known -/
def pbDigitalWith {α} [WNum α] (abc : Abc) (minspan : Int) (cols : List Nat) (rows : List Row) : List α :=
  pbWeights (PBParams.digital abc) (digStats abc (rows.map (rowInfo abc minspan)) cols) rows

def pbDigital {α} [WNum α] (abc : Abc) (rule : Nat → Nat → Bool) (minspan : Int) (rf : Option Row) (rows : List Row) : List α :=
  pbDigitalWith abc minspan (pbConsensus abc rule rf (rows.map (rowInfo abc minspan)) (alenOf rows)).cols rows

def nFragments (abc : Abc) (minspan : Int) (rows : List Row) : Nat := rows.countP fun row => (rowInfo abc minspan row).frag

/-! ## esl_quicksort -/

def aget (a : Array Nat) (i : Nat) : Nat := a.getD i 0
def aswap (a : Array Nat) (i j : Nat) : Array Nat := a.swapIfInBounds i j

/-- `do { i++; } while (i <= hi && comparison(data, ord[i], ord[lo]) < 0)`; `i` is the value before the first `i++` -/
def qsUp (cmp : Nat → Nat → Int) (ord : Array Nat) (lo hi : Nat) (i : Nat) : Nat → Nat
  | 0 => i + 1
  | fuel + 1 => if i + 1 ≤ hi && cmp (aget ord (i + 1)) (aget ord lo) < 0 then qsUp cmp ord lo hi (i + 1) fuel else i + 1

/-- `do { j--; } while (comparison(data, ord[j], ord[lo]) > 0)`; stops at `lo` at the latest when `cmp x x = 0`
    (the model also stops at 0, where the C code would leave the array) -/
def qsDown (cmp : Nat → Nat → Int) (ord : Array Nat) (lo : Nat) : Nat → Nat
  | 0 => 0
  | j + 1 => if cmp (aget ord j) (aget ord lo) > 0 then qsDown cmp ord lo j else j

/-- the `while (1)` partition loop; returns (ord, j) -/
def qsLoop (cmp : Nat → Nat → Int) (lo hi : Nat) : Nat → Array Nat → Nat → Nat → Array Nat × Nat
  | 0, ord, _, j => (ord, j)
  | fuel + 1, ord, i, j =>
    let i' := qsUp cmp ord lo hi i (hi + 1)
    let j' := qsDown cmp ord lo j
    if j' > i' then qsLoop cmp lo hi fuel (aswap ord j' i') i' j' else (ord, j')

/-- `partition()`; the first statement of the C function (`ord[hi] = ord[lo]; ord[hi] = swap`) changes nothing -/
def qsPartition (cmp : Nat → Nat → Int) : Nat → Array Nat → Nat → Nat → Array Nat
  | 0, ord, _, _ => ord
  | fuel + 1, ord, lo, hi =>
    let mid := lo + (hi - lo) / 2
    let pivot := if cmp (aget ord mid) (aget ord lo) < 0 then lo
                 else if cmp (aget ord mid) (aget ord hi) > 0 then hi else mid
    let ord := aswap ord pivot lo
    let (ord, j) := qsLoop cmp lo hi (hi + 2) ord lo (hi + 1)
    let ord := aswap ord lo j
    if j - lo < hi - j then
      let ord := if j - lo > 1 then qsPartition cmp fuel ord lo (j - 1) else ord
      if hi - j > 1 then qsPartition cmp fuel ord (j + 1) hi else ord
    else
      let ord := if hi - j > 1 then qsPartition cmp fuel ord (j + 1) hi else ord
      if j - lo > 1 then qsPartition cmp fuel ord lo (j - 1) else ord

/-- `esl_quicksort`: `sorted_at[]` -/
def quicksort (cmp : Nat → Nat → Int) (n : Nat) : List Nat :=
  if n == 0 then [] else (qsPartition cmp (n + 1) (Array.range n) 0 (n - 1)).toList

/-- `sort_doubles_decreasing` -/
def cmpDecreasing {α} [WNum α] (w : List α) (e1 e2 : Nat) : Int :=
  match w[e1]?, w[e2]? with
  | some x, some y => if ltb y x then -1 else if ltb x y then 1 else 0
  | _, _ => 0

/-! ## esl_msaweight_IDFilter(_adv), msaweight_IDFilter_txt -/

/-- the greedy pass: `list` grows in order; a candidate is dropped at the first listed row it is linked to -/
def filterGreedy (link : Nat → Nat → Bool) : List Nat → List Nat → List Nat
  | [], list => list
  | r :: rest, list => if list.any (fun k => link r k) then filterGreedy link rest list else filterGreedy link rest (list ++ [r])

/-- `set_preference_conscover`: consensus columns inside the row's first..last residue span -/
def conscover (abc : Abc) (cols : List Nat) (row : Row) : Nat :=
  cols.countP fun apos => decide (lposOf abc row ≤ apos) && decide ((apos : Int) ≤ rposOf abc row)

/-- consensus columns as `esl_msaweight_IDFilter_adv` determines them (no consensus_by_all retry after an all-gap RF) -/
def filterConsensus (abc : Abc) (rule : Nat → Nat → Bool) (minspan : Int) (rf : Option Row) (rows : List Row) (alen : Nat) : List Nat :=
  let c := match rf with
    | some r => consByRf r alen
    | none => consByAll abc rule (rows.map (rowInfo abc minspan)) alen
  if c.isEmpty then List.range alen else c

/-- kept row indices in the order they were accepted -/
def idFilterOrder {α} [WNum α] (m : Mode) (maxid : α) (rows : List Row) (order : List Nat) : List Nat :=
  filterGreedy (fun r k => linked m maxid (rows.getD r []) (rows.getD k [])) order []

def idFilterText {α} [WNum α] (maxid : α) (rows : List Row) : List Nat :=
  idFilterOrder Mode.text maxid rows (List.range rows.length)

/-- `sortwgt` is the preference vector (conscover counts / random doubles / nseq-idx) -/
def idFilterDigital {α} [WNum α] (abc : Abc) (maxid : α) (sortwgt : List α) (rows : List Row) : List Nat :=
  idFilterOrder (Mode.digital abc) maxid rows (quicksort (cmpDecreasing sortwgt) rows.length)

/-! ## esl_msaweight_GSC: esl_dst_{C,X}DiffMx, esl_tree.c cluster_engine (UPGMA), esl_tree_SetCladesizes, two traversals -/

def mget {α} [WNum α] (D : Array α) (n r c : Nat) : α := D.getD (r * n + c) (ofNat 0)
def mset {α} (D : Array α) (n r c : Nat) (v : α) : Array α := D.setIfInBounds (r * n + c) v
def vget {α} [WNum α] (x : Array α) (i : Nat) : α := x.getD i (ofNat 0)

/-- `esl_dst_{C,X}DiffMx` (row-major n×n): 0 on the diagonal, `1. - pid` elsewhere (upper triangle mirrored) -/
def diffMx {α} [WNum α] (m : Mode) (rows : List Row) : Array α :=
  let n := rows.length
  ((List.range n).flatMap fun i => (List.range n).map fun j =>
    if i == j then (ofNat 0 : α)
    else if i < j then ofNat 1 - pid m (rows.getD i []) (rows.getD j [])
    else ofNat 1 - pid m (rows.getD j []) (rows.getD i [])).toArray

structure Tree (α : Type) where
  left : Array Int
  right : Array Int
  ld : Array α
  rd : Array α

/-- `ESL_MAX(0., x)` = `((0.) > (x)) ? (0.) : (x)` -/
def max0 {α} [WNum α] (x : α) : α := if ltb x (ofNat 0) then ofNat 0 else x

/-- `for (row = 0; row < N; row++) ESL_SWAP(D->mx[row][a], D->mx[row][b], double)` -/
def swapCols {α} [WNum α] (D : Array α) (n N a b : Nat) : Array α :=
  (List.range N).foldl (fun D row =>
    let t := mget D n row a
    mset (mset D n row a (mget D n row b)) n row b t) D

/-- `for (col = 0; col < N; col++) ESL_SWAP(D->mx[a][col], D->mx[b][col], double)` -/
def swapRows {α} [WNum α] (D : Array α) (n N a b : Nat) : Array α :=
  (List.range N).foldl (fun D col =>
    let t := mget D n a col
    mset (mset D n a col (mget D n b col)) n b col t) D

/-- the minimum search: `minD = D[0][1]; i = 0; j = 1;` then strict `<` over the upper triangle in row-major order -/
def findMin {α} [WNum α] (D : Array α) (n N : Nat) : α × Nat × Nat :=
  (List.range N).foldl (fun st row =>
    (List.range' (row + 1) (N - (row + 1))).foldl (fun st col =>
      if ltb (mget D n row col) st.1 then (mget D n row col, row, col) else st) st) (mget D n 0 1, 0, 1)

structure UState (α : Type) where
  D : Array α
  idx : Array Int
  nin : Array Nat
  height : Array α
  left : Array Int
  right : Array Int
  ld : Array α
  rd : Array α

/-- merging rows/columns i = N-2 and j = N-1 under the UPGMA rule, column by column, mirroring each new value -/
def mergeCols {α} [WNum α] (D : Array α) (n N ni nj : Nat) : Array α :=
  (List.range N).foldl (fun D col =>
    let v := (ofNat ni * mget D n (N - 2) col + ofNat nj * mget D n (N - 1) col) / ofNat (ni + nj)
    mset (mset D n (N - 2) col v) n col (N - 2) v) D

/-- `if (pos != target) { swap columns, swap rows }`: move row/column `pos` to `target` -/
def moveTo {α} [WNum α] (D : Array α) (n N target pos : Nat) : Array α :=
  if pos != target then swapRows (swapCols D n N target pos) n N target pos else D

def moveIdx {β} (a : Array β) (target pos : Nat) : Array β := if pos != target then a.swapIfInBounds pos target else a

/-- `T->ld[N-2]` resp. `T->rd[N-2]`: height, minus the child's height (clamped at 0) if the child is an internal node -/
def branchLen {α} [WNum α] (h : α) (height : Array α) (child : Int) : α :=
  if child > 0 then max0 (h - vget height child.toNat) else h

/-! one pass of the `for (N = D->n; N >= 2; N--)` loop of `cluster_engine` (mode eslUPGMA), `N = n - step`, field by field -/
section step
variable {α : Type} [WNum α] (n : Nat) (st : UState α) (step : Nat)
def stepMin : α × Nat × Nat := findMin st.D n (n - step)
def stepI : Nat := (stepMin n st step).2.1
def stepJ : Nat := (stepMin n st step).2.2
/-- `height[N-2] = minD / 2.` -/
def stepH : α := (stepMin n st step).1 / ofNat 2
def stepHeight : Array α := st.height.setIfInBounds (n - step - 2) (stepH n st step)
def stepLeft : Int := st.idx.getD (stepI n st step) 0
def stepRight : Int := st.idx.getD (stepJ n st step) 0
/-- the matrix after moving j to N-1 and i to N-2 -/
def stepMoved : Array α :=
  moveTo (moveTo st.D n (n - step) (n - step - 1) (stepJ n st step)) n (n - step) (n - step - 2) (stepI n st step)
def stepNin : Array Nat := moveIdx (moveIdx st.nin (n - step - 1) (stepJ n st step)) (n - step - 2) (stepI n st step)
def stepIdx : Array Int := moveIdx (moveIdx st.idx (n - step - 1) (stepJ n st step)) (n - step - 2) (stepI n st step)

def upgmaStep : UState α :=
  { D := mergeCols (stepMoved n st step) n (n - step) ((stepNin n st step).getD (n - step - 2) 0) ((stepNin n st step).getD (n - step - 1) 0)
    idx := (stepIdx n st step).setIfInBounds (n - step - 2) (((n - step : Nat) : Int) - 2)
    nin := (stepNin n st step).setIfInBounds (n - step - 2)
             ((stepNin n st step).getD (n - step - 2) 0 + (stepNin n st step).getD (n - step - 1) 0)
    height := stepHeight n st step
    left := st.left.setIfInBounds (n - step - 2) (stepLeft n st step)
    right := st.right.setIfInBounds (n - step - 2) (stepRight n st step)
    ld := st.ld.setIfInBounds (n - step - 2) (branchLen (stepH n st step) (stepHeight n st step) (stepLeft n st step))
    rd := st.rd.setIfInBounds (n - step - 2) (branchLen (stepH n st step) (stepHeight n st step) (stepRight n st step)) }
end step

def upgmaInit {α} [WNum α] (n : Nat) (D0 : Array α) : UState α :=
  { D := D0
    idx := (Array.range n).map fun (i : Nat) => -(Int.ofNat i)
    nin := Array.replicate n 1
    height := Array.replicate (n - 1) (ofNat 0)
    left := Array.replicate (n - 1) 0
    right := Array.replicate (n - 1) 0
    ld := Array.replicate (n - 1) (ofNat 0)
    rd := Array.replicate (n - 1) (ofNat 0) }

/-- `cluster_engine(D, eslUPGMA, &T)` on an n×n matrix, n ≥ 2 -/
def upgma {α} [WNum α] (n : Nat) (D0 : Array α) : Tree α :=
  let st := (List.range (n - 1)).foldl (upgmaStep n) (upgmaInit n D0)
  ⟨st.left, st.right, st.ld, st.rd⟩

/-- `esl_tree_SetCladesizes`: i = N-2 down to 0 -/
def cladesizes {α} (T : Tree α) (n : Nat) : Array Nat :=
  (List.range (n - 1)).foldl (fun cs k =>
    let i := n - 2 - k
    let l := T.left.getD i 0
    let r := T.right.getD i 0
    let cs := cs.setIfInBounds i (cs.getD i 0 + (if l ≤ 0 then 1 else cs.getD l.toNat 0))
    cs.setIfInBounds i (cs.getD i 0 + (if r ≤ 0 then 1 else cs.getD r.toNat 0))) (Array.replicate (n - 1) 0)

/-- postorder pass: `x[i] = ld[i] + rd[i] (+ x[left]) (+ x[right])`, i = N-2 down to 0 -/
def gscUp {α} [WNum α] (T : Tree α) (n : Nat) : Array α :=
  (List.range (n - 1)).foldl (fun x k =>
    let i := n - 2 - k
    let l := T.left.getD i 0
    let r := T.right.getD i 0
    let x0 := vget T.ld i + vget T.rd i
    let x1 := if l > 0 then x0 + vget x l.toNat else x0
    let x2 := if r > 0 then x1 + vget x r.toNat else x1
    x.setIfInBounds i x2) (Array.replicate (n - 1) (ofNat 0))

/-- `lw = T->ld[i]; if (T->left[i] > 0) lw += x[T->left[i]]` (same for the right side with `rd`, `right`) -/
def sideLen {α} [WNum α] (d : Array α) (child : Array Int) (x : Array α) (i : Nat) : α :=
  if child.getD i 0 > 0 then vget d i + vget x (child.getD i 0).toNat else vget d i

/-- the share of `x[i]` passed to one child: in proportion to branch weight `mine/(lw+rw)`, or to clade size when
    `lw+rw == 0.` -/
def share {α} [WNum α] (cs : Array Nat) (child : Array Int) (xi mine total : α) (i : Nat) : α :=
  if isZero total then
    (if child.getD i 0 > 0 then xi * (ofNat (cs.getD (child.getD i 0).toNat 0) / ofNat (cs.getD i 0))
     else xi / ofNat (cs.getD i 0))
  else xi * mine / total

/-- `if (child <= 0) msa->wgt[-child] = v; else x[child] = v;` -/
def putChild {α} (st : Array α × Array α) (child : Int) (v : α) : Array α × Array α :=
  if child ≤ 0 then (st.1, st.2.setIfInBounds (-child).toNat v) else (st.1.setIfInBounds child.toNat v, st.2)

/-- one node of the preorder pass; state = (`x[]`, `msa->wgt[]`) -/
def gscDownStep {α} [WNum α] (T : Tree α) (cs : Array Nat) (st : Array α × Array α) (i : Nat) : Array α × Array α :=
  let lw := sideLen T.ld T.left st.1 i
  let rw := sideLen T.rd T.right st.1 i
  let xi := vget st.1 i
  let lx := share cs T.left xi lw (lw + rw) i
  let rx := share cs T.right xi rw (lw + rw) i
  putChild (putChild st (T.left.getD i 0) (lx + vget T.ld i)) (T.right.getD i 0) (rx + vget T.rd i)

/-- the two traversals of `esl_msaweight_GSC`; result = `msa->wgt[]` before the final normalisation
    (`msa->wgt[]` holds 1.0 on entry in the harness; every entry is overwritten for a well-formed tree) -/
def gscTraverse {α} [WNum α] (T : Tree α) (n : Nat) : Array α :=
  let cs := cladesizes T n
  let x := (gscUp T n).setIfInBounds 0 (ofNat 0)
  ((List.range (n - 1)).foldl (gscDownStep T cs) (x, Array.replicate n (ofNat 1))).2

/-- `msa->wgt[0..nseq-1]` before the final normalisation -/
def gscRaw {α} [WNum α] (m : Mode) (rows : List Row) : List α :=
  let w := gscTraverse (upgma rows.length (diffMx (α := α) m rows)) rows.length
  (List.range rows.length).map (vget w)

def gsc {α} [WNum α] (m : Mode) (rows : List Row) : List α :=
  if rows.length == 1 then [ofNat 1] else normalizeToN (gscRaw m rows)

end EaselModel.Weights
