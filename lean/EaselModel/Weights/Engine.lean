import EaselModel.Weights.Tree
/-! C16 — `cluster_engine` of esl_tree.c in ALL FOUR modes: `esl_tree_UPGMA`, `esl_tree_WPGMA`, `esl_tree_SingleLinkage`,
    `esl_tree_CompleteLinkage`. Core Lean only. The minimum search, the two swaps and the bookkeeping (`idx`, `nin`, `parent`)
    are those of `kstep` (`Weights/Model.lean`); the modes differ in three places only:
      * the merge rule for the new row/column (`lmerged`),
      * `height[N-2] = minD` for the two linkage trees, `minD / 2.` for the additive ones (`lH`),
      * `ld = rd = height` in a linkage tree, height minus the child's height clamped at 0 in an additive one (`lbranch`).
    `lstep .upgma` IS `kstep` (`lstep_upgma`, by `rfl`), so everything proved about the GSC tree stays about the same code. -/
namespace EaselModel.Weights
open WNum

/-- `mode` of `cluster_engine`: eslUPGMA, eslWPGMA, eslSINGLE_LINKAGE, eslCOMPLETE_LINKAGE -/
inductive Link | upgma | wpgma | single | complete
deriving DecidableEq, Repr

/-- `T->is_linkage_tree` -/
def Link.isLinkage : Link → Bool
  | .single | .complete => true
  | _ => false

/-- `ESL_MIN(a,b)` = `((a)<(b))?(a):(b)` -/
def eslMin {α} [WNum α] (a b : α) : α := if ltb a b then a else b
/-- `ESL_MAX(a,b)` = `((a)>(b))?(a):(b)` -/
def eslMax {α} [WNum α] (a b : α) : α := if ltb b a then a else b

/-- step 3 of the pass, `D->mx[i][col] = …` with `i` the cluster at N-2, `j` the one at N-1, `col` = cluster `x` -/
def lmerged {α} [WNum α] (L : Link) (rows : Array (Array α)) (nI nJ I J x : Nat) : α :=
  match L with
  | .upgma => kmerged rows nI nJ I J x
  | .wpgma => (kdist rows I x + kdist rows J x) / ofNat 2
  | .single => eslMin (kdist rows I x) (kdist rows J x)
  | .complete => eslMax (kdist rows I x) (kdist rows J x)

section lstep
variable {α : Type} [WNum α] (L : Link) (n : Nat) (st : KState α)

def lRow : Array α :=
  (Array.range st.rows.size).map (lmerged L st.rows (st.size.getD (kI st) 0) (st.size.getD (kJ st) 0) (kI st) (kJ st))

/-- `if (T->is_linkage_tree) height[N-2] = minD; else height[N-2] = minD / 2.;` -/
def lH : α := if L.isLinkage then (kMin st).1 else (kMin st).1 / ofNat 2

/-- `T->ld[N-2] = T->rd[N-2] = height[N-2]; if (! T->is_linkage_tree) { if (idx[i] > 0) T->ld[N-2] = ESL_MAX(0., …) … }` -/
def lbranch (h : α) (c : Nat) : α := if L.isLinkage then h else kbranch n h st.hgt c

/-- one pass of the `for (N = D->n; N >= 2; N--)` loop in mode `L` -/
def lstep : KState α :=
  { rows := st.rows.push (lRow L st)
    size := st.size.push (st.size.getD (kI st) 0 + st.size.getD (kJ st) 0)
    hgt := st.hgt.push (lH L st)
    act := kAct st
    nodes := ⟨kI st, kJ st, lbranch L n st (lH L st) (kI st), lbranch L n st (lH L st) (kJ st)⟩ :: st.nodes }
end lstep

theorem lstep_upgma {α} [WNum α] (n : Nat) (st : KState α) : lstep .upgma n st = kstep n st := rfl

def lrun {α} [WNum α] (L : Link) (n : Nat) (st : KState α) : Nat → KState α
  | 0 => st
  | k + 1 => lstep L n (lrun L n st k)

/-- `esl_tree_{UPGMA,WPGMA,SingleLinkage,CompleteLinkage}(D, &T)` for n ≥ 2 taxa: the state after the n−1 passes -/
def linkTree {α} [WNum α] (L : Link) (n : Nat) (d : Nat → Nat → α) : KState α := lrun L n (kinitMx n d) (n - 1)

theorem lrun_upgma {α} [WNum α] (n : Nat) (st : KState α) (k : Nat) : lrun .upgma n st k = krun n st k := by
  induction k with
  | zero => rfl
  | succ k ih => show lstep .upgma n (lrun .upgma n st k) = kstep n (krun n st k); rw [ih]; rfl

theorem linkTree_upgma {α} [WNum α] (n : Nat) (d : Nat → Nat → α) : linkTree .upgma n d = upgma n d :=
  lrun_upgma n _ _

end EaselModel.Weights
