import EaselModel.Weights.Lemmas
/-! C16 helper lemmas, part 9: the identity and difference matrices. -/
namespace EaselModel.Weights
open WNum

theorem pairIdMx_entry (m : Mode) (rows : List Row) (i j : Nat) (hi : i < rows.length) (hj : j < rows.length) :
    ((pairIdMx (α := ℚ) m rows).getD i []).getD j 0 =
      if i = j then 1 else pid (α := ℚ) m (rows.getD i []) (rows.getD j []) := by
  unfold pairIdMx
  simp only [List.getD_eq_getElem?_getD, List.getElem?_map, List.getElem?_range hi, List.getElem?_range hj,
    Option.map_some, Option.getD_some, beq_iff_eq, ofNat_rat, Nat.cast_one]
  by_cases h : i = j
  · simp [h]
  · simp only [h, ↓reduceIte]
    split
    · rfl
    · exact pid_comm m _ _

theorem pairIdMx_symm (m : Mode) (rows : List Row) (i j : Nat) (hi : i < rows.length) (hj : j < rows.length) :
    ((pairIdMx (α := ℚ) m rows).getD i []).getD j 0 = ((pairIdMx (α := ℚ) m rows).getD j []).getD i 0 := by
  rw [pairIdMx_entry m rows i j hi hj, pairIdMx_entry m rows j i hj hi]
  by_cases h : i = j
  · simp [h]
  · have h' : ¬ j = i := fun e => h e.symm
    simp only [h, h', ↓reduceIte]
    exact pid_comm m _ _

end EaselModel.Weights
