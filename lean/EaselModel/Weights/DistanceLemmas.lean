import EaselModel.Weights.Lemmas
import EaselModel.Weights.GSC
import EaselModel.Weights.FindMin
import EaselModel.Weights.Distance
import Mathlib.Data.Real.Basic
import Mathlib.Analysis.SpecialFunctions.Log.Basic
/-! C16 helper lemmas, part 17: `esl_dst_*PairMatch`, `*AverageId/Match` over ℚ; `*JukesCantor` over ℝ. -/
namespace EaselModel.Weights
open WNum

/-! ## PairMatch -/

/-- columns where both cells are residues -/
def nmSpec (m : Mode) (a b : Row) : Nat := (List.zip a b).countP fun p => m.isRes p.1 && m.isRes p.2
/-- columns where at least one cell is a residue -/
def eitherSpec (m : Mode) (a b : Row) : Nat := (List.zip a b).countP fun p => m.isRes p.1 || m.isRes p.2

theorem matchCounts_eq (m : Mode) (a b : Row) (h : a.length = b.length) (nm len : Nat) :
    matchCounts m a b nm len = some (nm + nmSpec m a b, len + eitherSpec m a b) := by
  induction a generalizing b nm len with
  | nil =>
    cases b with
    | nil => simp [matchCounts, nmSpec, eitherSpec]
    | cons y ys => simp at h
  | cons x xs ih =>
    cases b with
    | nil => simp at h
    | cons y ys =>
      simp only [List.length_cons, Nat.add_right_cancel_iff] at h
      rw [matchCounts, ih ys h]
      simp only [nmSpec, eitherSpec, List.zip_cons_cons, List.countP_cons]
      congr 2
      · split <;> simp_all <;> omega
      · split <;> simp_all <;> omega

theorem matchCounts_none (m : Mode) (a b : Row) (h : a.length ≠ b.length) (nm len : Nat) :
    matchCounts m a b nm len = none := by
  induction a generalizing b nm len with
  | nil =>
    cases b with
    | nil => simp at h
    | cons y ys => simp [matchCounts]
  | cons x xs ih =>
    cases b with
    | nil => simp [matchCounts]
    | cons y ys =>
      rw [matchCounts]
      apply ih
      simpa using h

theorem nmSpec_comm (m : Mode) (a b : Row) : nmSpec m a b = nmSpec m b a := by
  induction a generalizing b with
  | nil => cases b <;> simp [nmSpec]
  | cons x xs ih =>
    cases b with
    | nil => simp [nmSpec]
    | cons y ys =>
      have := ih ys
      simp only [nmSpec, List.zip_cons_cons, List.countP_cons] at this ⊢
      rw [this, Bool.and_comm (m.isRes x)]

theorem eitherSpec_comm (m : Mode) (a b : Row) : eitherSpec m a b = eitherSpec m b a := by
  induction a generalizing b with
  | nil => cases b <;> simp [eitherSpec]
  | cons x xs ih =>
    cases b with
    | nil => simp [eitherSpec]
    | cons y ys =>
      have := ih ys
      simp only [eitherSpec, List.zip_cons_cons, List.countP_cons] at this ⊢
      rw [this, Bool.or_comm (m.isRes x)]

theorem nmSpec_le_either (m : Mode) (a b : Row) : nmSpec m a b ≤ eitherSpec m a b := by
  unfold nmSpec eitherSpec
  apply List.countP_mono_left
  intro p _ hp
  simp only [Bool.and_eq_true] at hp
  simp [hp.1]

theorem nidSpec_le_nm (m : Mode) (a b : Row) : nidSpec m a b ≤ nmSpec m a b := by
  unfold nidSpec nmSpec
  apply List.countP_mono_left
  intro p _ hp
  simp only [Bool.and_eq_true] at hp
  simp [hp.1.1, hp.1.2]

/-- the spec value: matched columns over columns with at least one residue, 0 if there is none -/
def pmSpec (m : Mode) (a b : Row) : ℚ := if eitherSpec m a b = 0 then 0 else (nmSpec m a b : ℚ) / eitherSpec m a b

theorem pairMatch_aligned (m : Mode) (a b : Row) (h : a.length = b.length) :
    pairMatch (α := ℚ) m a b = some (pmSpec m a b, nmSpec m a b, eitherSpec m a b) := by
  unfold pairMatch
  rw [matchCounts_eq m a b h]
  simp only [Nat.zero_add, pmSpec, ofNat_rat]
  congr 2
  by_cases h0 : eitherSpec m a b = 0 <;> simp [h0]

theorem pairMatch_unaligned' (m : Mode) (a b : Row) (h : a.length ≠ b.length) : pairMatch (α := ℚ) m a b = none := by
  unfold pairMatch; rw [matchCounts_none m a b h]

theorem pmatch_eq (m : Mode) (a b : Row) (h : a.length = b.length) : pmatch (α := ℚ) m a b = pmSpec m a b := by
  unfold pmatch; rw [pairMatch_aligned m a b h]

theorem pmSpec_comm (m : Mode) (a b : Row) : pmSpec m a b = pmSpec m b a := by
  unfold pmSpec; rw [nmSpec_comm, eitherSpec_comm]

theorem pmSpec_range (m : Mode) (a b : Row) : 0 ≤ pmSpec m a b ∧ pmSpec m a b ≤ 1 := by
  unfold pmSpec
  split
  · exact ⟨le_refl 0, zero_le_one⟩
  · rename_i h0
    have hpos : (0 : ℚ) < eitherSpec m a b := by exact_mod_cast Nat.pos_of_ne_zero h0
    have hle : (nmSpec m a b : ℚ) ≤ eitherSpec m a b := by exact_mod_cast nmSpec_le_either m a b
    exact ⟨by positivity, by rw [div_le_one hpos]; exact hle⟩

theorem pmatch_range' (m : Mode) (a b : Row) : 0 ≤ pmatch (α := ℚ) m a b ∧ pmatch (α := ℚ) m a b ≤ 1 := by
  by_cases h : a.length = b.length
  · rw [pmatch_eq m a b h]; exact pmSpec_range m a b
  · unfold pmatch; rw [pairMatch_unaligned' m a b h]; simp

theorem pmatch_comm (m : Mode) (a b : Row) : pmatch (α := ℚ) m a b = pmatch m b a := by
  by_cases h : a.length = b.length
  · rw [pmatch_eq m a b h, pmatch_eq m b a h.symm, pmSpec_comm]
  · unfold pmatch; rw [pairMatch_unaligned' m a b h, pairMatch_unaligned' m b a (fun e => h e.symm)]

/-! ## Average* -/

/-- the code's test for the exhaustive branch is `N² ≤ 2·max_comparisons` (for N ≥ 2), not `N(N−1)/2 ≤ max_comparisons` -/
theorem exhaustive_iff' (N maxc : Nat) (hN : 2 ≤ N) : exhaustive N maxc = true ↔ N * N ≤ 2 * maxc := by
  unfold exhaustive
  simp only [Bool.and_eq_true, decide_eq_true_eq]
  constructor
  · intro h; exact h.1.2
  · intro h
    refine ⟨⟨?_, h⟩, ?_⟩
    · have : 2 * N ≤ N * N := Nat.mul_le_mul_right N hN
      omega
    · apply Nat.div_le_of_le_mul
      exact le_trans (Nat.mul_le_mul_left N (Nat.sub_le N 1)) h

theorem foldl_add_eq_sum {β : Type} (g : β → ℚ) (l : List β) (init : ℚ) :
    l.foldl (fun acc p => acc + g p) init = init + (l.map g).sum := by
  induction l generalizing init with
  | nil => simp
  | cons x xs ih => rw [List.foldl_cons, ih]; simp [add_assoc]

theorem averageOver_eq (f : Row → Row → ℚ) (rows : List Row) (pairs : List (Nat × Nat)) (denom : Nat) :
    averageOver f rows pairs denom = (pairs.map fun p => f (rows.getD p.1 []) (rows.getD p.2 [])).sum / denom := by
  unfold averageOver
  rw [foldl_add_eq_sum (fun p : Nat × Nat => f (rows.getD p.1 []) (rows.getD p.2 [])) pairs (ofNat 0)]
  simp

theorem sum_map_range01 {β : Type} (g : β → ℚ) (l : List β) (h : ∀ x ∈ l, 0 ≤ g x ∧ g x ≤ 1) :
    0 ≤ (l.map g).sum ∧ (l.map g).sum ≤ l.length := by
  induction l with
  | nil => simp
  | cons x xs ih =>
    have hx := h x (by simp)
    have := ih (fun y hy => h y (by simp [hy]))
    simp only [List.map_cons, List.sum_cons, List.length_cons, Nat.cast_add, Nat.cast_one]
    constructor <;> linarith [hx.1, hx.2, this.1, this.2]

theorem averageOver_range (f : Row → Row → ℚ) (hf : ∀ a b, 0 ≤ f a b ∧ f a b ≤ 1) (rows : List Row)
    (pairs : List (Nat × Nat)) (hne : pairs ≠ []) :
    0 ≤ averageOver f rows pairs pairs.length ∧ averageOver f rows pairs pairs.length ≤ 1 := by
  rw [averageOver_eq]
  have h := sum_map_range01 (fun p : Nat × Nat => f (rows.getD p.1 []) (rows.getD p.2 [])) pairs (fun p _ => hf _ _)
  have hpos : (0 : ℚ) < pairs.length := by exact_mod_cast List.length_pos_iff.mpr hne
  exact ⟨div_nonneg h.1 hpos.le, by rw [div_le_one hpos]; exact h.2⟩

/-- Σ_{r<k} (N − (r+1)), doubled -/
theorem sum_tri (N k : Nat) (hk : k ≤ N) : ((List.range k).map fun r => N - (r + 1)).sum * 2 + k * (k + 1) = 2 * k * N := by
  induction k with
  | zero => simp
  | succ k ih =>
    have ih' := ih (by omega)
    rw [List.range_succ, List.map_append, List.sum_append]
    simp only [List.map_cons, List.map_nil, List.sum_cons, List.sum_nil, Nat.add_zero]
    obtain ⟨t, rfl⟩ : ∃ t, N = t + (k + 1) := ⟨N - (k + 1), by omega⟩
    have e : t + (k + 1) - (k + 1) = t := by omega
    rw [e]
    zify at ih' ⊢
    nlinarith [ih']

theorem allPairs_length (N : Nat) : (allPairs N).length = N * (N - 1) / 2 := by
  unfold allPairs upperPairs
  rw [List.length_flatMap]
  have h1 : ((List.range N).map fun row => ((List.range' (row + 1) (N - (row + 1))).map fun col => (row, col)).length) =
      (List.range N).map fun r => N - (r + 1) := by
    apply List.map_congr_left; intro r _; simp
  have h2 := sum_tri N N (le_refl N)
  rw [h1]
  cases N with
  | zero => simp
  | succ n =>
    simp only [Nat.add_sub_cancel]
    have : (n + 1) * n = 2 * ((List.range (n + 1)).map fun r => n + 1 - (r + 1)).sum := by nlinarith [h2]
    rw [this]; simp

theorem average_single (f : Row → Row → ℚ) (rows : List Row) (maxc : Nat) (sampled : List (Nat × Nat))
    (h : rows.length ≤ 1) : average f rows maxc sampled = 1 := by
  unfold average; simp only []; rw [if_pos h]; simp

theorem average_value (f : Row → Row → ℚ) (rows : List Row) (maxc : Nat) (sampled : List (Nat × Nat))
    (hN : 2 ≤ rows.length) :
    average f rows maxc sampled =
      if rows.length * rows.length ≤ 2 * maxc then
        ((allPairs rows.length).map fun p => f (rows.getD p.1 []) (rows.getD p.2 [])).sum / ((rows.length * (rows.length - 1) / 2 : Nat) : ℚ)
      else (sampled.map fun p => f (rows.getD p.1 []) (rows.getD p.2 [])).sum / (maxc : ℚ) := by
  unfold average
  simp only []
  rw [if_neg (by omega)]
  by_cases h : rows.length * rows.length ≤ 2 * maxc
  · rw [if_pos ((exhaustive_iff' _ _ hN).mpr h), if_pos h, averageOver_eq]
  · have : exhaustive rows.length maxc = false := by
      cases hx : exhaustive rows.length maxc with
      | false => rfl
      | true => exact absurd ((exhaustive_iff' _ _ hN).mp hx) h
    rw [this, if_neg h]
    simp only [Bool.false_eq_true, if_false]
    exact averageOver_eq f rows sampled maxc

theorem allPairs_ne_nil (N : Nat) (hN : 2 ≤ N) : allPairs N ≠ [] := by
  intro h
  have := allPairs_length N
  rw [h] at this
  simp only [List.length_nil] at this
  have h2 : 2 ≤ N * (N - 1) := by
    have : 2 * 1 ≤ N * (N - 1) := Nat.mul_le_mul hN (by omega)
    omega
  have : 1 ≤ N * (N - 1) / 2 := (Nat.le_div_iff_mul_le (by omega)).mpr (by omega)
  omega

theorem average_range (f : Row → Row → ℚ) (hf : ∀ a b, 0 ≤ f a b ∧ f a b ≤ 1) (rows : List Row) (maxc : Nat)
    (sampled : List (Nat × Nat)) (hs : sampled.length = maxc) (hm : 1 ≤ maxc) :
    0 ≤ average f rows maxc sampled ∧ average f rows maxc sampled ≤ 1 := by
  unfold average
  simp only []
  split
  · simp
  · rename_i hN
    split
    · rw [← allPairs_length]
      exact averageOver_range f hf rows _ (allPairs_ne_nil _ (by omega))
    · rw [← hs]
      exact averageOver_range f hf rows _ (by intro h; rw [h] at hs; simp at hs; omega)

/-! ## Jukes-Cantor over ℝ -/

noncomputable instance : WNum ℝ where
  ofNat n := (n : ℝ)
  leb a b := @decide (a ≤ b) (Classical.propDecidable _)
  ltb a b := @decide (a < b) (Classical.propDecidable _)
  isZero a := @decide (a = 0) (Classical.propDecidable _)

noncomputable instance : WLog ℝ where
  log := Real.log
  exp := Real.exp
  neg x := -x

@[simp] theorem ofNat_real (n : Nat) : (WNum.ofNat n : ℝ) = (n : ℝ) := rfl
@[simp] theorem log_real (x : ℝ) : (WLog.log x : ℝ) = Real.log x := rfl
@[simp] theorem exp_real (x : ℝ) : (WLog.exp x : ℝ) = Real.exp x := rfl
@[simp] theorem neg_real (x : ℝ) : (WLog.neg x : ℝ) = -x := rfl
theorem leb_real_iff (a b : ℝ) : WNum.leb a b = true ↔ a ≤ b := by
  show @decide (a ≤ b) (Classical.propDecidable _) = true ↔ _
  simp

theorem jcCounts_comm (j : JCMode) (a b : Row) (n1 n2 : Nat) : jcCounts j a b n1 n2 = jcCounts j b a n1 n2 := by
  induction a generalizing b n1 n2 with
  | nil => cases b <;> simp [jcCounts]
  | cons x xs ih =>
    cases b with
    | nil => simp [jcCounts]
    | cons y ys =>
      simp only [jcCounts]
      have e : (j.key x == j.key y) = (j.key y == j.key x) := BEq.comm
      rw [e, Bool.and_comm (j.ok x), ih, ih, ih]

theorem jcCounts_none (j : JCMode) (a b : Row) (h : a.length ≠ b.length) (n1 n2 : Nat) : jcCounts j a b n1 n2 = none := by
  induction a generalizing b n1 n2 with
  | nil =>
    cases b with
    | nil => simp at h
    | cons y ys => simp [jcCounts]
  | cons x xs ih =>
    cases b with
    | nil => simp [jcCounts]
    | cons y ys =>
      have h' : xs.length ≠ ys.length := by simpa using h
      simp only [jcCounts]
      split
      · split <;> exact ih _ h' _ _
      · exact ih _ h' _ _

theorem jc_x_nonpos_iff (n1 n2 K : Nat) (hK : 2 ≤ K) (hpos : 0 < n1 + n2) :
    (1 : ℝ) - ((n2 : ℝ) / ((n1 + n2 : Nat) : ℝ)) * (K : ℝ) / ((K : ℝ) - 1) ≤ 0 ↔ (n1 + n2) * (K - 1) ≤ n2 * K := by
  have hK1 : (0 : ℝ) < (K : ℝ) - 1 := by
    have : (2 : ℝ) ≤ K := by exact_mod_cast hK
    linarith
  have hN : (0 : ℝ) < ((n1 + n2 : Nat) : ℝ) := by exact_mod_cast hpos
  rw [sub_nonpos, le_div_iff₀ hK1, one_mul, div_mul_eq_mul_div, le_div_iff₀ hN]
  have e : ((K : ℝ) - 1) = ((K - 1 : Nat) : ℝ) := by rw [Nat.cast_sub (by omega)]; simp
  rw [e]
  constructor
  · intro h
    have : (((K - 1) * (n1 + n2) : Nat) : ℝ) ≤ ((n2 * K : Nat) : ℝ) := by push_cast; push_cast at h; linarith
    have := Nat.cast_le.mp this
    rw [Nat.mul_comm]; exact this
  · intro h
    have : (((K - 1) * (n1 + n2) : Nat) : ℝ) ≤ ((n2 * K : Nat) : ℝ) := by
      apply Nat.cast_le.mpr; rw [Nat.mul_comm]; exact h
    push_cast at this ⊢; linarith

/-- `jukescantor()` over ℝ for K ≥ 2 and at least one compared column -/
theorem jukescantor_spec' (n1 n2 K : Nat) (hK : 2 ≤ K) (hpos : 0 < n1 + n2) :
    ((n1 + n2) * (K - 1) ≤ n2 * K → jukescantor (α := ℝ) n1 n2 K = .saturated) ∧
    (n2 * K < (n1 + n2) * (K - 1) → ∃ d v : ℝ, jukescantor (α := ℝ) n1 n2 K = .ok d v ∧
      d = -Real.log (1 - ((n2 : ℝ) / ((n1 + n2 : Nat) : ℝ)) * K / ((K : ℝ) - 1)) * K / ((K : ℝ) - 1) ∧
      v = Real.exp (2 * K * d / ((K : ℝ) - 1)) * ((n2 : ℝ) / ((n1 + n2 : Nat) : ℝ)) *
            (1 - (n2 : ℝ) / ((n1 + n2 : Nat) : ℝ)) / ((n1 + n2 : Nat) : ℝ) ∧
      0 ≤ d ∧ 0 ≤ v ∧ (n2 = 0 → d = 0 ∧ v = 0)) := by
  have hne : (n1 + n2 == 0) = false := by simp; omega
  have hiff := jc_x_nonpos_iff n1 n2 K hK hpos
  have hK1 : (0 : ℝ) < (K : ℝ) - 1 := by
    have : (2 : ℝ) ≤ K := by exact_mod_cast hK
    linarith
  have hKpos : (0 : ℝ) < K := by linarith
  have hN : (0 : ℝ) < ((n1 + n2 : Nat) : ℝ) := by exact_mod_cast hpos
  constructor
  · intro h
    unfold jukescantor
    simp only [hne, Bool.false_eq_true, if_false]
    have hx := hiff.mpr h
    rw [if_pos]
    rw [leb_real_iff]
    simpa using hx
  · intro h
    have hx : ¬ ((1 : ℝ) - ((n2 : ℝ) / ((n1 + n2 : Nat) : ℝ)) * (K : ℝ) / ((K : ℝ) - 1) ≤ 0) := fun hh => by
      have := hiff.mp hh; omega
    set D : ℝ := (n2 : ℝ) / ((n1 + n2 : Nat) : ℝ) with hD
    set x : ℝ := 1 - D * K / ((K : ℝ) - 1) with hxdef
    have hD0 : 0 ≤ D := by rw [hD]; positivity
    have hD1 : D ≤ 1 := by
      rw [hD, div_le_one hN]; exact_mod_cast Nat.le_add_left n2 n1
    have hxpos : 0 < x := not_le.mp hx
    have hxle : x ≤ 1 := by
      have : 0 ≤ D * K / ((K : ℝ) - 1) := by positivity
      rw [hxdef]; linarith
    refine ⟨-Real.log x * K / ((K : ℝ) - 1), _, ?_, rfl, rfl, ?_, ?_, ?_⟩
    · unfold jukescantor
      simp only [hne, Bool.false_eq_true, if_false]
      rw [if_neg]
      · simp only [ofNat_real, log_real, exp_real, neg_real, Nat.cast_one, Nat.cast_ofNat]
        rfl
      · rw [leb_real_iff]
        simp only [ofNat_real, Nat.cast_one, Nat.cast_zero]
        exact hx
    · have : Real.log x ≤ 0 := Real.log_nonpos hxpos.le hxle
      have : 0 ≤ -Real.log x := by linarith
      positivity
    · have : 0 ≤ 1 - D := by linarith
      positivity
    · intro h0
      have hD' : D = 0 := by rw [hD, h0]; simp
      have hx1 : x = 1 := by rw [hxdef, hD']; simp
      constructor
      · rw [hx1]; simp
      · rw [hD']; simp

/-! ### empty sequences -/

theorem nmSpec_le_left (m : Mode) (a b : Row) : nmSpec m a b ≤ lenSpec m a := by
  induction a generalizing b with
  | nil => cases b <;> simp [nmSpec, lenSpec]
  | cons x xs ih =>
    cases b with
    | nil => simp [nmSpec]
    | cons y ys =>
      have := ih ys
      unfold nmSpec lenSpec at this ⊢
      simp only [List.zip_cons_cons, List.countP_cons]
      cases m.isRes x <;> cases m.isRes y <;> simp <;> omega

/-- PairMatch is 0 as soon as one of the two aligned sequences has no residue -/
theorem pmatch_empty (m : Mode) (a b : Row) (hl : a.length = b.length) (h : lenSpec m a = 0 ∨ lenSpec m b = 0) :
    pmatch (α := ℚ) m a b = 0 := by
  have hnm : nmSpec m a b = 0 := by
    rcases h with h | h
    · have := nmSpec_le_left m a b; omega
    · have := nmSpec_le_left m b a; rw [nmSpec_comm] at this; omega
  rw [pmatch_eq m a b hl]; unfold pmSpec
  split
  · rfl
  · rw [hnm]; simp

/-- no column where both cells qualify ⇒ the counts stay as they were -/
theorem jcCounts_no_ok (j : JCMode) (a b : Row) (hl : a.length = b.length) (h : ∀ x ∈ a, j.ok x = false) (n1 n2 : Nat) :
    jcCounts j a b n1 n2 = some (n1, n2) := by
  induction a generalizing b with
  | nil => cases b with
    | nil => rfl
    | cons y ys => simp at hl
  | cons x xs ih =>
    cases b with
    | nil => simp at hl
    | cons y ys =>
      simp only [jcCounts]
      rw [h x (by simp)]
      simp only [Bool.false_and, Bool.false_eq_true, if_false]
      exact ih ys (by simpa using hl) (fun z hz => h z (by simp [hz]))

/-- Jukes-Cantor of an aligned pair one of which has no canonical residue (text: no letter): eslEDIVZERO -/
theorem jukesCantor_empty {α} [WLog α] (j : JCMode) (K : Nat) (a b : Row) (hl : a.length = b.length)
    (h : (∀ x ∈ a, j.ok x = false) ∨ (∀ x ∈ b, j.ok x = false)) : jukesCantor (α := α) j K a b = .edivzero := by
  unfold jukesCantor
  rcases h with h | h
  · rw [jcCounts_no_ok j a b hl h]; rfl
  · rw [jcCounts_comm, jcCounts_no_ok j b a hl.symm h]; rfl

/-- saturation (distance = variance = +∞) exactly when the fraction of identities is at most 1/K -/
theorem jukescantor_saturated_iff (n1 n2 K : Nat) (hK : 2 ≤ K) (hpos : 0 < n1 + n2) :
    jukescantor (α := ℝ) n1 n2 K = .saturated ↔ n1 * K ≤ n1 + n2 := by
  have key : (n1 + n2) * (K - 1) ≤ n2 * K ↔ n1 * K ≤ n1 + n2 := by
    obtain ⟨k, rfl⟩ : ∃ k, K = k + 1 := ⟨K - 1, by omega⟩
    simp only [Nat.add_sub_cancel]
    constructor <;> intro h <;> nlinarith
  rw [← key]
  constructor
  · intro h
    by_contra hc
    obtain ⟨d, v, hdv, _⟩ := (jukescantor_spec' n1 n2 K hK hpos).2 (by omega)
    rw [hdv] at h; cases h
  · exact (jukescantor_spec' n1 n2 K hK hpos).1

/-! ### esl_dst_{C,X}DiffMx -/

theorem flatMap_range_getElem? {β : Type} (n : Nat) (f : Nat → Nat → β) (k i j : Nat) (hi : i < k) (hj : j < n) :
    ((List.range k).flatMap fun a => (List.range n).map fun b => f a b)[i * n + j]? = some (f i j) := by
  induction k generalizing i f with
  | zero => omega
  | succ k ih =>
    rw [List.range_succ_eq_map, List.flatMap_cons]
    by_cases h0 : i = 0
    · subst h0
      rw [List.getElem?_append_left (by simpa using hj)]
      simp [hj]
    · obtain ⟨i', rfl⟩ : ∃ i', i = i' + 1 := ⟨i - 1, by omega⟩
      rw [List.getElem?_append_right (by simp; nlinarith)]
      simp only [List.length_map, List.length_range, List.flatMap_map]
      have e : (i' + 1) * n + j - n = i' * n + j := by rw [Nat.succ_mul]; omega
      rw [e]
      simpa [Function.comp_def] using ih (fun a b => f (a + 1) b) i' (by omega)

theorem diffMx_entry (m : Mode) (rows : List Row) (i j : Nat) (hi : i < rows.length) (hj : j < rows.length) :
    (diffMx (α := ℚ) m rows).getD (i * rows.length + j) 0 =
      if i = j then 0 else 1 - pid (α := ℚ) m (rows.getD i []) (rows.getD j []) := by
  unfold diffMx
  rw [Array.getD_eq_getD_getElem?, List.getElem?_toArray]
  rw [flatMap_range_getElem? rows.length _ rows.length i j hi hj]
  simp only [Option.getD_some, beq_iff_eq, ofNat_rat, Nat.cast_zero, Nat.cast_one]
  by_cases h : i = j
  · simp [h]
  · simp only [h, if_false]
    split
    · rfl
    · rw [pid_comm]

theorem diffMx_symm_range (m : Mode) (rows : List Row) (i j : Nat) (hi : i < rows.length) (hj : j < rows.length) :
    (diffMx (α := ℚ) m rows).getD (i * rows.length + j) 0 = (diffMx (α := ℚ) m rows).getD (j * rows.length + i) 0 ∧
    0 ≤ (diffMx (α := ℚ) m rows).getD (i * rows.length + j) 0 ∧ (diffMx (α := ℚ) m rows).getD (i * rows.length + j) 0 ≤ 1 := by
  rw [diffMx_entry m rows i j hi hj, diffMx_entry m rows j i hj hi]
  have hr := pid_range' m (rows.getD i []) (rows.getD j [])
  by_cases h : i = j
  · subst h; simp
  · have h' : ¬ j = i := fun e => h e.symm
    simp only [h, h', if_false]
    rw [pid_comm m (rows.getD j [])]
    exact ⟨rfl, by linarith [hr.2], by linarith [hr.1]⟩

/-! ### esl_dst_XAvgConnectivity -/

theorem connOver_fold (f : Row → Row → ℚ) (thresh : ℚ) (rows : List Row) (pairs : List (Nat × Nat)) (init : ℚ × ℚ) :
    pairs.foldl (fun (acc : ℚ × ℚ) p =>
      (acc.1 + f (rows.getD p.1 []) (rows.getD p.2 []),
       if WNum.ltb thresh (f (rows.getD p.1 []) (rows.getD p.2 [])) then acc.2 + WNum.ofNat 1 else acc.2)) init =
    (init.1 + (pairs.map fun p => f (rows.getD p.1 []) (rows.getD p.2 [])).sum,
     init.2 + (pairs.countP fun p => decide (thresh < f (rows.getD p.1 []) (rows.getD p.2 [])) : Nat)) := by
  induction pairs generalizing init with
  | nil => simp
  | cons p ps ih =>
    rw [List.foldl_cons, ih]
    simp only [List.map_cons, List.sum_cons, List.countP_cons, ltb_rat, ofNat_rat, Nat.cast_one]
    by_cases h : thresh < f (rows.getD p.1 []) (rows.getD p.2 [])
    · simp only [h, decide_true, if_true]
      refine Prod.ext (by ring) ?_
      push_cast; ring
    · simp only [h, decide_false, Bool.false_eq_true, if_false]
      refine Prod.ext (by ring) ?_
      push_cast; ring

/-- (avgid, avgconn) over a pair list: the mean identity and the fraction of pairs strictly above the threshold -/
theorem connOver_eq (f : Row → Row → ℚ) (thresh : ℚ) (rows : List Row) (pairs : List (Nat × Nat)) (denom : Nat) :
    connOver f thresh rows pairs denom =
      ((pairs.map fun p => f (rows.getD p.1 []) (rows.getD p.2 [])).sum / (denom : ℚ),
       ((pairs.countP fun p => decide (thresh < f (rows.getD p.1 []) (rows.getD p.2 [])) : Nat) : ℚ) / (denom : ℚ)) := by
  unfold connOver
  have := connOver_fold f thresh rows pairs (WNum.ofNat 0, WNum.ofNat 0)
  simp only [ofNat_rat, Nat.cast_zero, zero_add] at this ⊢
  rw [this]

/-- the identity half of `esl_dst_XAvgConnectivity` is `esl_dst_XAverageId`; the connectivity half lies in [0,1] -/
theorem avgConnectivity_spec (f : Row → Row → ℚ) (rows : List Row) (maxc : Nat) (thresh : ℚ) (sampled : List (Nat × Nat))
    (hs : sampled.length = maxc) :
    (avgConnectivity f rows maxc thresh sampled).1 = average f rows maxc sampled ∧
    0 ≤ (avgConnectivity f rows maxc thresh sampled).2 ∧ (avgConnectivity f rows maxc thresh sampled).2 ≤ 1 := by
  unfold avgConnectivity average
  simp only []
  split
  · simp
  · split
    · rw [connOver_eq, averageOver_eq]
      refine ⟨rfl, by positivity, ?_⟩
      rw [← allPairs_length rows.length]
      apply div_le_one_of_le₀ _ (by positivity)
      exact_mod_cast List.countP_le_length
    · rw [connOver_eq, averageOver_eq]
      refine ⟨rfl, by positivity, ?_⟩
      rw [← hs]
      apply div_le_one_of_le₀ _ (by positivity)
      exact_mod_cast List.countP_le_length

/-- exhaustive branch: avgconn = #{i<j : id(i,j) > idthresh} / (N(N−1)/2) -/
theorem avgConnectivity_exhaustive (f : Row → Row → ℚ) (rows : List Row) (maxc : Nat) (thresh : ℚ) (sampled : List (Nat × Nat))
    (hN : 2 ≤ rows.length) (hx : rows.length * rows.length ≤ 2 * maxc) :
    (avgConnectivity f rows maxc thresh sampled).2 =
      (((allPairs rows.length).countP fun p => decide (thresh < f (rows.getD p.1 []) (rows.getD p.2 [])) : Nat) : ℚ) /
        ((rows.length * (rows.length - 1) / 2 : Nat) : ℚ) := by
  unfold avgConnectivity
  simp only []
  rw [if_neg (by omega), if_pos ((exhaustive_iff' rows.length maxc hN).mpr hx), connOver_eq]

/-! ### esl_dst_{C,X}JukesCantorMx -/

theorem jcMxEntry_symm (j : JCMode) (K : Nat) (rows : List Row) (a b : Nat) :
    jcMxEntry (α := ℝ) j K rows a b = jcMxEntry j K rows b a := by
  unfold jcMxEntry
  by_cases h : a = b
  · subst h; rfl
  · have h' : ¬ b = a := fun e => h e.symm
    simp only [beq_iff_eq, h, h', if_false]
    rcases Nat.lt_or_gt_of_ne h with hlt | hlt
    · rw [if_pos hlt, if_neg (by omega)]
    · rw [if_neg (by omega), if_pos hlt]

/-- the matrix routine fails iff the distance call of some pair i < j fails; then with that pair's status -/
theorem jcMxError_none_iff (j : JCMode) (K : Nat) (rows : List Row) :
    jcMxError (α := ℝ) j K rows = none ↔
      ∀ a b, a < b → b < rows.length →
        jukesCantor (α := ℝ) j K (rows.getD a []) (rows.getD b []) ≠ .einval ∧
        jukesCantor (α := ℝ) j K (rows.getD a []) (rows.getD b []) ≠ .edivzero := by
  unfold jcMxError
  rw [List.findSome?_eq_none_iff]
  constructor
  · intro h a b hab hb
    have := h (a, b) (mem_upperPairs.mpr ⟨hab, hb⟩)
    simp only [] at this
    cases hjc : jukesCantor (α := ℝ) j K (rows.getD a []) (rows.getD b []) <;> simp_all
  · intro h p hp
    obtain ⟨hab, hb⟩ := mem_upperPairs.mp (show (p.1, p.2) ∈ upperPairs rows.length from hp)
    have := h p.1 p.2 hab hb
    cases hjc : jukesCantor (α := ℝ) j K (rows.getD p.1 []) (rows.getD p.2 []) <;> simp_all

end EaselModel.Weights
