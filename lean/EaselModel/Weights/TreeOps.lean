import EaselModel.Weights.Tree
/-! C16 (round 6) — the functions of esl_tree.c that work on a finished `ESL_TREE`, in the C layout (arrays indexed by node
    number, taxa as `-t`): `esl_tree_SetTaxaParents`, `esl_tree_SetCladesizes` (the C loops themselves — `toCTree` derives the
    same tables from the engine state), `esl_tree_VerifyUltrametric`, `esl_tree_ToDistanceMatrix`, `esl_tree_RenumberNodes`,
    `esl_tree_Compare` (taxa matched by index: neither tree has labels) and `esl_tree_Simulate` (over the stream of draws).
    Core Lean only; loops that the C code leaves unbounded on a malformed tree (`while (parent != 0)`, `while (a != b)`) take
    fuel that a well-formed tree never exhausts; `none` = the `eslEINCONCEIVABLE` exception / no termination. -/
namespace EaselModel.Weights
open WNum

/-- the five arrays of an `ESL_TREE` on `N` taxa (`N-1` internal nodes, root = node 0) -/
structure ETree (α : Type) where
  N : Nat
  left : Array Int
  right : Array Int
  parent : Array Int
  ld : Array α
  rd : Array α

def ETree.ofCTree {α} (n : Nat) (t : CTree α) : ETree α :=
  ⟨n, t.left.toArray, t.right.toArray, t.parent.toArray, t.ld.toArray, t.rd.toArray⟩

/-- `esl_tree_Create(N)`: all links 0, all branch lengths 0. -/
def ETree.create {α} [WNum α] (N : Nat) : ETree α :=
  ⟨N, Array.replicate (N - 1) 0, Array.replicate (N - 1) 0, Array.replicate (N - 1) 0,
   Array.replicate (N - 1) (ofNat 0), Array.replicate (N - 1) (ofNat 0)⟩

section ops
variable {α : Type} [WNum α] (t : ETree α)

def ETree.l (i : Nat) : Int := t.left.getD i 0
def ETree.r (i : Nat) : Int := t.right.getD i 0
def ETree.p (i : Nat) : Nat := (t.parent.getD i 0).toNat
def ETree.dl (i : Nat) : α := t.ld.getD i (ofNat 0)
def ETree.dr (i : Nat) : α := t.rd.getD i (ofNat 0)

/-- `esl_tree_SetTaxaParents`: `for (i = 0; i < N-1; i++) { if (left[i] <= 0) taxaparent[-left[i]] = i; … right … }` -/
def eTaxaParents : Array Int :=
  (List.range (t.N - 1)).foldl (fun tp i =>
    let tp := if t.l i ≤ 0 then tp.setIfInBounds (-(t.l i)).toNat (i : Int) else tp
    if t.r i ≤ 0 then tp.setIfInBounds (-(t.r i)).toNat (i : Int) else tp) (Array.replicate t.N 0)

/-- `esl_tree_SetCladesizes`: `for (i = N-2; i >= 0; i--)`, a taxon counts 1, an internal child its (already final) size -/
def eCladesizes : Array Nat :=
  (List.range (t.N - 1)).reverse.foldl (fun cs i =>
    let cs := cs.setIfInBounds i (if t.l i ≤ 0 then cs.getD i 0 + 1 else cs.getD i 0 + cs.getD (t.l i).toNat 0)
    cs.setIfInBounds i (if t.r i ≤ 0 then cs.getD i 0 + 1 else cs.getD i 0 + cs.getD (t.r i).toNat 0))
    (Array.replicate (t.N - 1) 0)

/-- the `while (parent != 0)` loop of `esl_tree_VerifyUltrametric`, upwards to the root -/
def eUp : Nat → Nat → α → Option α
  | 0, _, _ => none
  | fuel + 1, parent, d =>
    if parent == 0 then some d else
    let child := parent
    let parent := t.p child
    if t.l parent == (child : Int) then eUp fuel parent (d + t.dl parent)
    else if t.r parent == (child : Int) then eUp fuel parent (d + t.dr parent)
    else none

/-- `d[i]` of `esl_tree_VerifyUltrametric`: distance from the root to taxon `i` -/
def eRootDist (tp : Array Int) (i : Nat) : Option α :=
  let parent := (tp.getD i 0).toNat
  if t.l parent == -(i : Int) then eUp t t.N parent (ofNat 0 + t.dl parent)
  else if t.r parent == -(i : Int) then eUp t t.N parent (ofNat 0 + t.dr parent)
  else none

inductive VU | ok | fail | oops
deriving DecidableEq, Repr

/-- `esl_tree_VerifyUltrametric`; `cmp a b` = `esl_DCompare_old(a, b, 0.0001) == eslOK` -/
def eVerifyUltrametric (cmp : α → α → Bool) : VU :=
  let tp := eTaxaParents t
  match (List.range t.N).mapM (eRootDist t tp) with
  | none => .oops
  | some ds =>
    match ds with
    | [] => .ok
    | d0 :: rest => if rest.all (cmp d0) then .ok else .fail

/-- the `while (a != b)` loop of `esl_tree_ToDistanceMatrix` (the deeper = larger-numbered node moves up) -/
def eLca : Nat → Nat → Nat → α → Option α
  | 0, _, _, _ => none
  | fuel + 1, a, b, d =>
    if a == b then some d else
    let a' := if a < b then b else a
    let b' := if a < b then a else b
    let p := t.p a'
    eLca fuel p b' (d + (if t.l p == (a' : Int) then t.dl p else t.dr p))

/-- entry (i, j), i < j, of `esl_tree_ToDistanceMatrix` -/
def eDist (tp : Array Int) (i j : Nat) : Option α :=
  let a := (tp.getD i 0).toNat
  let b := (tp.getD j 0).toNat
  let d := if t.l a == -(i : Int) then t.dl a else t.dr a
  let d := d + (if t.l b == -(j : Int) then t.dl b else t.dr b)
  eLca t (2 * t.N) a b d

/-- `esl_tree_ToDistanceMatrix`: the upper triangle in row-major order -/
def eToDistanceMatrix : Option (List α) :=
  let tp := eTaxaParents t
  (upperPairs t.N).mapM fun p => eDist t tp p.1 p.2

/-- pass 1 of `esl_tree_RenumberNodes`: preorder by an explicit stack (`vs`), `map[old] = new`, and `needs_rearranging` -/
def eRenumMap : Nat → List Nat → Nat → Array Nat → Bool → Array Nat × Bool
  | 0, _, _, map, nr => (map, nr)
  | _ + 1, [], _, map, nr => (map, nr)
  | fuel + 1, v :: stk, new, map, nr =>
    let stk := if t.r v > 0 then (t.r v).toNat :: stk else stk
    let stk := if t.l v > 0 then (t.l v).toNat :: stk else stk
    eRenumMap fuel stk (new + 1) (map.setIfInBounds v new) (nr || v != new)

/-- `esl_tree_RenumberNodes` (pass 2 and the swap); `tp` = `T->taxaparent` if the caller had it set -/
def eRenumber (tp : Option (Array Int)) : ETree α × Option (Array Int) × Bool :=
  let (map, nr) := eRenumMap t (t.N - 1) [0] 0 (Array.replicate (t.N - 1) 0) false
  if !nr then (t, tp, false) else
  let m := fun (v : Nat) => (map.getD v 0 : Int)
  let nodes := List.range (t.N - 1)
  let t2 : ETree α := ETree.create t.N
  let t2 := nodes.foldl (fun (acc : ETree α) v =>
    { acc with
      parent := acc.parent.setIfInBounds (map.getD v 0) (m (t.p v))
      left := acc.left.setIfInBounds (map.getD v 0) (if t.l v > 0 then m (t.l v).toNat else t.l v)
      right := acc.right.setIfInBounds (map.getD v 0) (if t.r v > 0 then m (t.r v).toNat else t.r v)
      ld := acc.ld.setIfInBounds (map.getD v 0) (t.dl v)
      rd := acc.rd.setIfInBounds (map.getD v 0) (t.dr v) }) t2
  let tp2 := tp.map fun _ =>
    nodes.foldl (fun (acc : Array Int) v =>
      let acc := if t.l v ≤ 0 then acc.setIfInBounds (-(t.l v)).toNat (m v) else acc
      if t.r v ≤ 0 then acc.setIfInBounds (-(t.r v)).toNat (m v) else acc) (Array.replicate t.N 0)
  (t2, tp2, true)

/-- `esl_tree_Compare(T1, T2)`, neither tree labelled (`Mgt[a] = a`): the SDI mapping by postorder over T1, `false` (eslFAIL)
    as soon as the two children of a node of T1 map below different nodes of T2 -/
def eCompare (t2 : ETree α) : Bool :=
  let tp2 := eTaxaParents t2
  ((List.range (t.N - 1)).reverse.foldl (fun (acc : Option (Array Int)) g =>
    match acc with
    | none => none
    | some Mg =>
      let a := if t.l g ≤ 0 then tp2.getD (-(t.l g)).toNat 0 else t2.parent.getD (Mg.getD (t.l g).toNat 0).toNat 0
      let b := if t.r g ≤ 0 then tp2.getD (-(t.r g)).toNat 0 else t2.parent.getD (Mg.getD (t.r g).toNat 0).toNat 0
      if a != b then none else some (Mg.setIfInBounds g a)) (some (Array.replicate (t.N - 1) 0))).isSome
end ops

/-! ### `esl_tree_Simulate` over the stream of draws -/

structure SimSt (α : Type) where
  T : ETree α
  papa : Array Nat
  side : Array Nat
  nactive : Nat
  node : Nat

/-- add `d` to the active branch `b` -/
def simAdd {α} [WNum α] (T : ETree α) (papa side : Array Nat) (b : Nat) (d : α) : ETree α :=
  if side.getD b 0 == 0 then { T with ld := T.ld.setIfInBounds (papa.getD b 0) (T.dl (papa.getD b 0) + d) }
  else { T with rd := T.rd.setIfInBounds (papa.getD b 0) (T.dr (papa.getD b 0) + d) }

def simInit {α} [WNum α] (N : Nat) : SimSt α :=
  { T := ETree.create N
    papa := (Array.replicate N 0)
    side := (Array.replicate N 0).setIfInBounds 1 1
    nactive := 2
    node := 1 }

/-- one turn of `while (nactive < N)`: split time `d`, active branch `bidx` -/
def simStep {α} [WNum α] (s : SimSt α) (d : α) (bidx : Nat) : SimSt α :=
  let pb := s.papa.getD bidx 0
  let T := { s.T with parent := s.T.parent.setIfInBounds s.node (pb : Int) }
  let T := if s.side.getD bidx 0 == 0 then { T with left := T.left.setIfInBounds pb (s.node : Int) }
           else { T with right := T.right.setIfInBounds pb (s.node : Int) }
  let T := simAdd T s.papa s.side bidx d
  let papa := s.papa.swapIfInBounds bidx (s.nactive - 1)
  let side := s.side.swapIfInBounds bidx (s.nactive - 1)
  let T := (List.range (s.nactive - 1)).foldl (fun T b => simAdd T papa side b d) T
  { T := T
    papa := (papa.setIfInBounds (s.nactive - 1) s.node).setIfInBounds s.nactive s.node
    side := (side.setIfInBounds (s.nactive - 1) 0).setIfInBounds s.nactive 1
    nactive := s.nactive + 1
    node := s.node + 1 }

/-- "Terminate by adding the N taxa to the N active branches", all at length `d` -/
def simFinish {α} [WNum α] (N : Nat) (s : SimSt α) (d : α) : ETree α :=
  (List.range N).foldl (fun T b =>
    let T := if s.side.getD b 0 == 0 then { T with left := T.left.setIfInBounds (s.papa.getD b 0) (-(b : Int)) }
             else { T with right := T.right.setIfInBounds (s.papa.getD b 0) (-(b : Int)) }
    simAdd T s.papa s.side b d) s.T

/-- `esl_tree_Simulate(r, N, &T)` for the draws the generator delivers: `draws` = the N-2 pairs (d, bidx), `dlast` the final d -/
def eSimulate {α} [WNum α] (N : Nat) (draws : List (α × Nat)) (dlast : α) : ETree α :=
  simFinish N (draws.foldl (fun s x => simStep s x.1 x.2) (simInit N)) dlast

end EaselModel.Weights
