import EaselModel.Weights.PBCounts
import EaselModel.Weights.Adv
import Mathlib.Data.List.Range
/-! C16 helper lemmas, part 18: the consensus-column selection of `esl_msaweight_PB_adv` / `esl_msaweight_IDFilter_adv`
    (`consensus_by_rf`, `consensus_by_all`, `consensus_by_sample`) selects EXACTLY the columns meeting the documented rule. -/
namespace EaselModel.Weights

/-- gap symbols a column receives: rows that count the column (a full-length row always, a fragment only between its first and
    last residue) and have the gap code `K` there -/
def colGap (abc : Abc) (infos : List RowInfo) (apos : Nat) : Nat :=
  infos.countP fun ri => ri.counted apos && ((ri.row.getD apos 0).toNat == abc.K)

/-- residues + gaps a column receives: counted rows whose code is below `Kp-2` (canonical, gap or degenerate; not `*`, `~`) -/
def colTot (abc : Abc) (infos : List RowInfo) (apos : Nat) : Nat :=
  infos.countP fun ri => ri.counted apos && decide ((ri.row.getD apos 0).toNat < abc.Kp - 2)

theorem countP_range_eq (w v : Nat) : (List.range w).countP (fun a => some v == some a) = if v < w then 1 else 0 := by
  induction w with
  | zero => simp
  | succ w ih =>
    rw [List.range_succ, List.countP_append, ih]
    by_cases h1 : v < w
    · have h2 : v ≠ w := by omega
      have h3 : v < w + 1 := by omega
      simp [h1, h2, h3]
    · by_cases h2 : v = w
      · subst h2; simp
      · have : ¬ v < w + 1 := by omega
        simp [h1, this, h2]

theorem sum_colCounts (w : Nat) (col : List (Option Nat)) :
    ((List.range w).map fun a => col.countP (· == some a)).sum =
      col.countP fun o => match o with | some v => decide (v < w) | none => false := by
  induction col with
  | nil => simp
  | cons o col ih =>
    simp only [List.countP_cons]
    rw [← ih]
    have : ((List.range w).map fun a => List.countP (fun x => x == some a) col + if (o == some a) = true then 1 else 0).sum =
        ((List.range w).map fun a => List.countP (fun x => x == some a) col).sum +
        ((List.range w).map fun a => if (o == some a) = true then 1 else 0).sum := by
      induction (List.range w) with
      | nil => simp
      | cons x xs ihx => simp only [List.map_cons, List.sum_cons, ihx]; omega
    rw [this]
    congr 1
    cases o with
    | none => simp
    | some v =>
      have e : ((List.range w).map fun a => if (some v == some a) = true then 1 else 0).sum =
          (List.range w).countP (fun a => some v == some a) := by
        induction (List.range w) with
        | nil => simp
        | cons x xs ihx =>
          simp only [List.map_cons, List.sum_cons, List.countP_cons, ihx]; omega
      rw [e, countP_range_eq]
      by_cases h : v < w <;> simp [h]

theorem foldl_add_nat (l : List Nat) (init : Nat) : l.foldl (· + ·) init = init + l.sum := by
  induction l generalizing init with
  | nil => simp
  | cons x xs ih => simp only [List.foldl_cons, List.sum_cons, ih]; omega

theorem digCol_gap (abc : Abc) (infos : List RowInfo) (apos : Nat) (hK : abc.K < abc.Kp) :
    (colCounts abc.Kp (digCol infos apos)).getD abc.K 0 = colGap abc infos apos := by
  rw [colCounts_getD abc.Kp abc.K hK]
  unfold digCol colGap
  rw [List.countP_map]
  congr 1
  funext ri
  simp only [Function.comp]
  cases ri.counted apos <;> simp

theorem digCol_tot (abc : Abc) (infos : List RowInfo) (apos : Nat) :
    ((colCounts abc.Kp (digCol infos apos)).take (abc.Kp - 2)).foldl (· + ·) 0 = colTot abc infos apos := by
  rw [foldl_add_nat, Nat.zero_add]
  unfold colCounts
  rw [← List.map_take, List.take_range, Nat.min_eq_left (Nat.sub_le _ _), sum_colCounts]
  unfold digCol colTot
  rw [List.countP_map]
  congr 1
  funext ri
  simp only [Function.comp]
  cases ri.counted apos <;> simp

/-- `consensus_by_all` / the second half of `consensus_by_sample`: column `apos` is selected iff the rule
    (`(float) gaps / (float) tot < symfrac`) holds of its two counts -/
theorem consByAll_mem (abc : Abc) (rule : Nat → Nat → Bool) (infos : List RowInfo) (alen apos : Nat) (hK : abc.K < abc.Kp) :
    apos ∈ consByAll abc rule infos alen ↔ apos < alen ∧ rule (colGap abc infos apos) (colTot abc infos apos) = true := by
  unfold consByAll
  simp only [List.mem_filter, List.mem_range]
  rw [digCol_gap abc infos apos hK, digCol_tot abc infos apos]

theorem consByRf_mem (rf : Row) (alen apos : Nat) :
    apos ∈ consByRf rf alen ↔ apos < alen ∧ isGapChar (rf.getD apos 45) = false := by
  unfold consByRf
  simp [List.mem_filter, List.mem_range]

theorem filter_range_sorted (p : Nat → Bool) (n : Nat) : ((List.range n).filter p).Pairwise (· < ·) :=
  List.Pairwise.sublist List.filter_sublist (List.pairwise_lt_range)

theorem consByAll_sorted (abc : Abc) (rule : Nat → Nat → Bool) (infos : List RowInfo) (alen : Nat) :
    (consByAll abc rule infos alen).Pairwise (· < ·) := filter_range_sorted _ _

theorem consByRf_sorted (rf : Row) (alen : Nat) : (consByRf rf alen).Pairwise (· < ·) := filter_range_sorted _ _

/-- the sampling branch: a rejected sample (more than `maxfrag` fragments among the sampled rows) yields no column; otherwise
    exactly the columns where the rule holds of the counts over the SAMPLED rows -/
theorem consBySample_spec (abc : Abc) (cfg : WCfg) (rows : List Row) (samp : List Nat) (alen : Nat) (hK : abc.K < abc.Kp) :
    let infos := samp.map fun idx => rowInfo abc cfg.minspan (rows.getD idx [])
    (consBySample abc cfg rows samp alen).nfrag = infos.countP (·.frag) ∧
    ((consBySample abc cfg rows samp alen).rejected = true ↔ cfg.maxfrag < (infos.countP (·.frag) : Int)) ∧
    ((consBySample abc cfg rows samp alen).rejected = true → (consBySample abc cfg rows samp alen).cols = []) ∧
    ((consBySample abc cfg rows samp alen).rejected = false → ∀ apos,
      apos ∈ (consBySample abc cfg rows samp alen).cols ↔
        apos < alen ∧ cfg.rule (colGap abc infos apos) (colTot abc infos apos) = true) := by
  intro infos
  unfold consBySample
  simp only []
  by_cases h : ((infos.countP (·.frag) : Nat) : Int) ≤ cfg.maxfrag
  · rw [if_pos h]
    refine ⟨rfl, ?_, ?_, ?_⟩
    · simp; omega
    · intro hh; simp at hh
    · intro _ apos; exact consByAll_mem abc cfg.rule infos alen apos hK
  · rw [if_neg h]
    refine ⟨rfl, ?_, ?_, ?_⟩
    · simp; omega
    · intro _; rfl
    · intro hh; simp at hh

end EaselModel.Weights
