import EaselModel.Weights.Lemmas
import Mathlib.Data.List.Perm.Basic
import Mathlib.Data.List.Nodup
import Mathlib.Data.List.Range
/-! C16 helper lemmas, part 4: `esl_quicksort` only ever swaps, so `sorted_at[]` is a permutation of 0..n-1 whatever
    the comparison function does; hence the %id filter of `esl_msaweight_IDFilter_adv` tries every row exactly once. -/
namespace EaselModel.Weights

theorem aswap_perm (a : Array Nat) (i j : Nat) : (aswap a i j).Perm a := by
  unfold aswap Array.swapIfInBounds
  split
  · split
    · exact Array.swap_perm _ _
    · exact Array.Perm.refl _
  · exact Array.Perm.refl _

theorem qsLoop_perm (cmp : Nat → Nat → Int) (lo hi fuel : Nat) (ord : Array Nat) (i j : Nat) :
    (qsLoop cmp lo hi fuel ord i j).1.Perm ord := by
  induction fuel generalizing ord i j with
  | zero => exact Array.Perm.refl _
  | succ fuel ih =>
    simp only [qsLoop]
    split
    · exact (ih _ _ _).trans (aswap_perm _ _ _)
    · exact Array.Perm.refl _

theorem qsPartition_perm (cmp : Nat → Nat → Int) (fuel : Nat) (ord : Array Nat) (lo hi : Nat) :
    (qsPartition cmp fuel ord lo hi).Perm ord := by
  induction fuel generalizing ord lo hi with
  | zero => exact Array.Perm.refl _
  | succ fuel ih =>
    simp only [qsPartition]
    generalize hp : (if cmp (aget ord (lo + (hi - lo) / 2)) (aget ord lo) < 0 then lo
      else if cmp (aget ord (lo + (hi - lo) / 2)) (aget ord hi) > 0 then hi else lo + (hi - lo) / 2) = pivot
    have h1 : (aswap ord pivot lo).Perm ord := aswap_perm _ _ _
    have h2 := qsLoop_perm cmp lo hi (hi + 2) (aswap ord pivot lo) lo (hi + 1)
    generalize hq : qsLoop cmp lo hi (hi + 2) (aswap ord pivot lo) lo (hi + 1) = q at h2
    obtain ⟨o2, j⟩ := q
    simp only at h2 ⊢
    have h3 : (aswap o2 lo j).Perm ord := (aswap_perm _ _ _).trans (h2.trans h1)
    split
    · split <;> split <;> first
        | exact ((ih _ _ _).trans ((ih _ _ _).trans h3))
        | exact ((ih _ _ _).trans h3)
        | exact h3
    · split <;> split <;> first
        | exact ((ih _ _ _).trans ((ih _ _ _).trans h3))
        | exact ((ih _ _ _).trans h3)
        | exact h3

/-- `sorted_at[]` is a permutation of 0..n-1 for ANY comparison function -/
theorem quicksort_perm (cmp : Nat → Nat → Int) (n : Nat) : (quicksort cmp n).Perm (List.range n) := by
  unfold quicksort
  split
  · have := qsPartition_perm cmp (n + 1) (Array.range n) 0 (n - 1)
    rw [Array.perm_iff_toList_perm, Array.toList_range] at this
    exact this
  · exact List.Perm.refl _

theorem quicksort_nodup (cmp : Nat → Nat → Int) (n : Nat) : (quicksort cmp n).Nodup :=
  (quicksort_perm cmp n).nodup_iff.mpr List.nodup_range

theorem mem_quicksort (cmp : Nat → Nat → Int) (n r : Nat) : r ∈ quicksort cmp n ↔ r < n := by
  rw [(quicksort_perm cmp n).mem_iff, List.mem_range]

end EaselModel.Weights
