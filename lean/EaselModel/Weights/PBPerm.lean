import EaselModel.Weights.PB
import Mathlib.Data.List.Perm.Basic
/-! C16 helper lemmas, part 7: PB weights are attached to the rows, not to their positions: listing the rows in another
    order gives every row the same weight. -/
namespace EaselModel.Weights
open WNum

theorem normalizeToN_eq_map (xs : List ℚ) :
    normalizeToN xs = xs.map fun x => if xs.sum = 0 then 1 else x / xs.sum * xs.length := by
  apply List.ext_getElem
  · rw [normalizeToN_length, List.length_map]
  · intro i h1 h2
    have hi : i < xs.length := by rw [normalizeToN_length] at h1; exact h1
    rw [normalizeToN_getElem xs i hi, List.getElem_map]

/-- the weight PB gives a row, as a function of the row, the column statistics, the raw-weight total and N -/
noncomputable def pbWeightOf (p : PBParams) (stats : List ColStat) (S : ℚ) (N : Nat) (row : Row) : ℚ :=
  if N = 1 then 1 else if S = 0 then 1 else pbRaw p stats row / S * N

theorem pbWeights_eq_map (p : PBParams) (stats : List ColStat) (rows : List Row) (hne : rows ≠ []) :
    pbWeights (α := ℚ) p stats rows =
      rows.map (pbWeightOf p stats (rows.map (pbRaw (α := ℚ) p stats)).sum rows.length) := by
  unfold pbWeights
  split
  · rename_i h
    simp only [beq_iff_eq] at h
    obtain ⟨r, rfl⟩ := List.length_eq_one_iff.mp h
    simp [pbWeightOf]
  · rename_i h
    simp only [beq_iff_eq] at h
    rw [normalizeToN_eq_map, List.map_map]
    apply List.map_congr_left
    intro row _
    simp [pbWeightOf, h]

theorem colCounts_perm (width : Nat) {c1 c2 : List (Option Nat)} (h : c1.Perm c2) : colCounts width c1 = colCounts width c2 := by
  unfold colCounts
  apply List.map_congr_left
  intro a _
  exact h.countP_eq _

theorem digCol_perm {i1 i2 : List RowInfo} (h : i1.Perm i2) (apos : Nat) : (digCol i1 apos).Perm (digCol i2 apos) :=
  h.map _

theorem digStats_perm (abc : Abc) {i1 i2 : List RowInfo} (h : i1.Perm i2) (cols : List Nat) :
    digStats abc i1 cols = digStats abc i2 cols := by
  unfold digStats mkStat
  apply List.map_congr_left
  intro apos _
  simp only [colCounts_perm _ (digCol_perm h apos)]

theorem consByAll_perm (abc : Abc) (rule : Nat → Nat → Bool) {i1 i2 : List RowInfo} (h : i1.Perm i2) (alen : Nat) :
    consByAll abc rule i1 alen = consByAll abc rule i2 alen := by
  unfold consByAll
  apply List.filter_congr
  intro apos _
  simp only [colCounts_perm _ (digCol_perm h apos)]

theorem pbConsensus_perm (abc : Abc) (rule : Nat → Nat → Bool) (rf : Option Row) {i1 i2 : List RowInfo} (h : i1.Perm i2)
    (alen : Nat) : (pbConsensus abc rule rf i1 alen).cols = (pbConsensus abc rule rf i2 alen).cols := by
  unfold pbConsensus
  simp only [consByAll_perm abc rule h alen]

theorem alenOf_eq {rows : List Row} {L : Nat} (hne : rows ≠ []) (hrect : ∀ row ∈ rows, row.length = L) : alenOf rows = L := by
  cases rows with
  | nil => exact absurd rfl hne
  | cons r rs => simpa [alenOf] using hrect r (by simp)

/-- digital PB weights under relisting: one weight function serves both orders -/
theorem pbDigital_perm (abc : Abc) (rule : Nat → Nat → Bool) (minspan : Int) (rf : Option Row) {rows rows' : List Row}
    (hp : rows.Perm rows') (hne : rows ≠ []) (L : Nat) (hrect : ∀ row ∈ rows, row.length = L) :
    ∃ f : Row → ℚ, pbDigital (α := ℚ) abc rule minspan rf rows = rows.map f ∧
                   pbDigital (α := ℚ) abc rule minspan rf rows' = rows'.map f := by
  have hne' : rows' ≠ [] := by
    intro h; subst h; exact hne (List.Perm.eq_nil hp)
  have hrect' : ∀ row ∈ rows', row.length = L := fun row hr => hrect row (hp.mem_iff.mpr hr)
  have hi : (rows.map (rowInfo abc minspan)).Perm (rows'.map (rowInfo abc minspan)) := hp.map _
  have hal : alenOf rows' = alenOf rows := by rw [alenOf_eq hne hrect, alenOf_eq hne' hrect']
  have hcols := pbConsensus_perm abc rule rf hi (alenOf rows)
  have hstats := digStats_perm abc hi (pbConsensus abc rule rf (rows.map (rowInfo abc minspan)) (alenOf rows)).cols
  refine ⟨pbWeightOf (PBParams.digital abc)
    (digStats abc (rows.map (rowInfo abc minspan)) (pbConsensus abc rule rf (rows.map (rowInfo abc minspan)) (alenOf rows)).cols)
    (rows.map (pbRaw (α := ℚ) (PBParams.digital abc) (digStats abc (rows.map (rowInfo abc minspan))
      (pbConsensus abc rule rf (rows.map (rowInfo abc minspan)) (alenOf rows)).cols))).sum rows.length, ?_, ?_⟩
  · unfold pbDigital pbDigitalWith
    exact pbWeights_eq_map _ _ rows hne
  · unfold pbDigital pbDigitalWith
    rw [pbWeights_eq_map _ _ rows' hne', hal, ← hcols, ← hstats, hp.length_eq, ((hp.map _).sum_eq)]

theorem txtStats_perm {rows rows' : List Row} (hp : rows.Perm rows') (hne : rows ≠ []) (L : Nat)
    (hrect : ∀ row ∈ rows, row.length = L) : txtStats rows' = txtStats rows := by
  have hne' : rows' ≠ [] := by
    intro h; subst h; exact hne (List.Perm.eq_nil hp)
  have hrect' : ∀ row ∈ rows', row.length = L := fun row hr => hrect row (hp.mem_iff.mpr hr)
  unfold txtStats mkStat
  rw [alenOf_eq hne hrect, alenOf_eq hne' hrect']
  apply List.map_congr_left
  intro apos _
  simp only [colCounts_perm _ ((hp.symm.map _))]

/-- text PB weights under relisting -/
theorem pbText_perm {rows rows' : List Row} (hp : rows.Perm rows') (hne : rows ≠ []) (L : Nat)
    (hrect : ∀ row ∈ rows, row.length = L) :
    ∃ f : Row → ℚ, pbText (α := ℚ) rows = rows.map f ∧ pbText (α := ℚ) rows' = rows'.map f := by
  have hne' : rows' ≠ [] := by
    intro h; subst h; exact hne (List.Perm.eq_nil hp)
  refine ⟨pbWeightOf PBParams.text (txtStats rows) (rows.map (pbRaw (α := ℚ) PBParams.text (txtStats rows))).sum rows.length, ?_, ?_⟩
  · unfold pbText
    exact pbWeights_eq_map _ _ rows hne
  · unfold pbText
    rw [pbWeights_eq_map _ _ rows' hne', txtStats_perm hp hne L hrect, hp.length_eq, ((hp.map _).sum_eq)]

end EaselModel.Weights
