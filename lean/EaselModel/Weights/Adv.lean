import EaselModel.Weights.Model
/-! C16 — `esl_msaweight_PB_adv` and `esl_msaweight_IDFilter_adv` with every field of `ESL_MSAWEIGHT_CFG`
    (`fragthresh symfrac ignore_rf allow_samp sampthresh nsamp maxfrag seed filterpref`), including
    `consensus_by_sample`. Core Lean only.

    The two binary32 parameters enter as what the code derives from them: `minspan = (int) ceil(fragthresh * (float) alen)`
    and the predicate `rule gap tot = ((float) gap / (float) tot) < symfrac` (the driver computes both in `Float32`).
    The random sample enters as a function `deal m n` (the driver passes `esl_rand64_Deal` seeded with `cfg->seed`,
    `Weights/Deal64.lean`); every theorem holds for every such function. -/
namespace EaselModel.Weights
open WNum

structure WCfg where
  minspan : Int
  rule : Nat → Nat → Bool
  ignoreRf : Bool := false
  allowSamp : Bool := true
  sampthresh : Int := 50000
  nsamp : Nat := 10000
  maxfrag : Int := 5000

structure SampInfo where
  /-- `dat->samp_nfrag` -/
  nfrag : Nat
  /-- `dat->rejected_sample` (status eslFAIL, ncons = 0) -/
  rejected : Bool
  cols : List Nat

/-- `consensus_by_sample` on the sampled row indices `samp` (sorted, as `esl_rand64_Deal` returns them): the counts of the
    sampled rows under the fragment rule, then the `symfrac` rule — unless more than `maxfrag` of them are fragments -/
def consBySample (abc : Abc) (cfg : WCfg) (rows : List Row) (samp : List Nat) (alen : Nat) : SampInfo :=
  let infos := samp.map fun idx => rowInfo abc cfg.minspan (rows.getD idx [])
  let nfrag := infos.countP (·.frag)
  if (nfrag : Int) ≤ cfg.maxfrag then ⟨nfrag, false, consByAll abc cfg.rule infos alen⟩ else ⟨nfrag, true, []⟩

/-- `if (nsamp > msa->nseq) nsamp = msa->nseq; esl_rand64_Deal(rng, nsamp, nseq, sampidx)` -/
def sampleRows (cfg : WCfg) (deal : Nat → Nat → List Nat) (nseq : Nat) : List Nat :=
  deal (if cfg.nsamp > nseq then nseq else cfg.nsamp) nseq

/-- which of the three ways the code takes: `if (!ignore_rf && msa->rf) … else if (allow_samp && nseq > sampthresh) …` -/
inductive ConsWay | byRf (rf : Row) | bySample | neither

def consWay (cfg : WCfg) (rf : Option Row) (nseq : Nat) : ConsWay :=
  match (if cfg.ignoreRf then none else rf) with
  | some r => .byRf r
  | none => if cfg.allowSamp && decide ((nseq : Int) > cfg.sampthresh) then .bySample else .neither

structure AdvInfo where
  byRf : Bool := false
  bySample : Bool := false
  rejected : Bool := false
  byAll : Bool := false
  allCols : Bool := false
  sampNfrag : Nat := 0
  cols : List Nat

/-- consensus columns of `esl_msaweight_PB_adv` -/
def pbConsensusAdv (abc : Abc) (cfg : WCfg) (deal : Nat → Nat → List Nat) (rf : Option Row) (rows : List Row) : AdvInfo :=
  let alen := alenOf rows
  let infos := rows.map (rowInfo abc cfg.minspan)
  let early : AdvInfo := match consWay cfg rf rows.length with
    | .byRf r => { byRf := true, cols := consByRf r alen }
    | .bySample =>
      let si := consBySample abc cfg rows (sampleRows cfg deal rows.length) alen
      { bySample := !si.rejected, rejected := si.rejected, sampNfrag := si.nfrag, cols := si.cols }
    | .neither => { cols := [] }
  -- `collect_counts`, then `if (! ncons) consensus_by_all(...)`, then `if (! ncons)` all columns
  let c2 := if early.cols.isEmpty then consByAll abc cfg.rule infos alen else early.cols
  let c3 := if c2.isEmpty then List.range alen else c2
  { early with byAll := early.cols.isEmpty, allCols := c2.isEmpty, cols := c3 }

/-- `esl_msaweight_PB_adv(cfg, msa, dat)` -/
def pbAdv {α} [WNum α] (abc : Abc) (cfg : WCfg) (deal : Nat → Nat → List Nat) (rf : Option Row) (rows : List Row) : List α :=
  pbDigitalWith abc cfg.minspan (pbConsensusAdv abc cfg deal rf rows).cols rows

/-- consensus columns of `esl_msaweight_IDFilter_adv` (only for the "conscover" preference): a rejected or empty sample
    goes straight to "all columns" — there is no `consensus_by_all` retry here, unlike in `PB_adv` -/
def filterConsensusAdv (abc : Abc) (cfg : WCfg) (deal : Nat → Nat → List Nat) (rf : Option Row) (rows : List Row) : List Nat :=
  let alen := alenOf rows
  let c := match consWay cfg rf rows.length with
    | .byRf r => consByRf r alen
    | .bySample => (consBySample abc cfg rows (sampleRows cfg deal rows.length) alen).cols
    | .neither => consByAll abc cfg.rule (rows.map (rowInfo abc cfg.minspan)) alen
  if c.isEmpty then List.range alen else c

/-- `cfg->filterpref` -/
inductive FilterPref
  | conscover
  /-- the `nseq` draws of `esl_rand64_double`, as numerators over 2^53 -/
  | random (nums : List Nat)
  | origorder

/-- `set_preference_conscover` / `_randomly` / `_origorder`: the vector `sortwgt[]` -/
def sortwgtOf {α} [WNum α] (abc : Abc) (cfg : WCfg) (deal : Nat → Nat → List Nat) (rf : Option Row) (rows : List Row) :
    FilterPref → List α
  | .conscover =>
    let cols := filterConsensusAdv abc cfg deal rf rows
    rows.map fun r => (List.range (conscover abc cols r)).foldl (fun acc _ => acc + ofNat 1) (ofNat 0)
  | .random nums => (List.range rows.length).map fun i => ofNat (nums.getD i 0) * (ofNat 1 / ofNat 9007199254740992)
  | .origorder => (List.range rows.length).map fun i => ofNat (rows.length - i)

/-- `esl_msaweight_IDFilter_adv(cfg, msa, maxid, &newmsa)`: kept row indices in the order they were accepted -/
def idFilterAdv {α} [WNum α] (abc : Abc) (cfg : WCfg) (deal : Nat → Nat → List Nat) (pref : FilterPref) (maxid : α)
    (rf : Option Row) (rows : List Row) : List Nat :=
  idFilterDigital abc maxid (sortwgtOf abc cfg deal rf rows pref) rows

end EaselModel.Weights
