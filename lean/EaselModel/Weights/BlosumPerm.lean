import EaselModel.Weights.Blosum
/-! C16 helper lemmas, part 10: BLOSUM weights are attached to the rows, not to their positions. The cluster size and
    the number of clusters are re-expressed through connectivity between row CONTENTS, which only depends on which rows
    occur in the alignment. -/
namespace EaselModel.Weights
open WNum
open Classical

section
variable (m : Mode) (maxid : ℚ)

/-- `c` can be reached from `a` by at least one link step through rows satisfying `S` -/
inductive RT (S : Row → Prop) : Row → Row → Prop
  | single {a c : Row} : S c → linked m maxid a c = true → RT S a c
  | step {a b c : Row} : RT S a b → S c → linked m maxid b c = true → RT S a c

theorem RT.congr {S S' : Row → Prop} (h : ∀ r, S r ↔ S' r) {a c : Row} (hr : RT m maxid S a c) : RT m maxid S' a c := by
  induction hr with
  | single hs hl => exact RT.single ((h _).mp hs) hl
  | step _ hs hl ih => exact RT.step ih ((h _).mp hs) hl

/-- index-level version: at least one link step between vertices `< n` -/
inductive Reach1 (link : Nat → Nat → Bool) (n : Nat) : Nat → Nat → Prop
  | single {x z : Nat} : z < n → link x z = true → Reach1 link n x z
  | step {x y z : Nat} : Reach1 link n x y → z < n → link y z = true → Reach1 link n x z

theorem Reach1.toReach {link : Nat → Nat → Bool} {n x z : Nat} (hx : x < n) (h : Reach1 link n x z) : Reach link n x z := by
  induction h with
  | single hz hl => exact Reach.single hx hz hl
  | step h1 hz hl ih => exact Reach.step ih (Reach.lt_of_lt hx ih) hz hl

theorem Reach.toReach1 {link : Nat → Nat → Bool} {n x z : Nat} (h : Reach link n x z) : z = x ∨ Reach1 link n x z := by
  induction h with
  | refl => exact Or.inl rfl
  | step _ _ hz hl ih =>
    rcases ih with rfl | ih
    · exact Or.inr (Reach1.single hz hl)
    · exact Or.inr (Reach1.step ih hz hl)

/-- the link function `esl_msacluster_SingleLinkage` hands to the clustering routine -/
def rowLink (rows : List Row) : Nat → Nat → Bool := fun v w => linked m maxid (rows.getD v []) (rows.getD w [])

theorem getD_eq (rows : List Row) {i : Nat} (hi : i < rows.length) : rows.getD i [] = rows[i] := by
  rw [List.getD_eq_getElem?_getD, List.getElem?_eq_getElem hi]; rfl

theorem rowLink_eq (rows : List Row) {i k : Nat} (hi : i < rows.length) (hk : k < rows.length) :
    rowLink m maxid rows i k = linked m maxid rows[i] rows[k] := by
  unfold rowLink; rw [getD_eq rows hi, getD_eq rows hk]

theorem reach1_iff (rows : List Row) {i w : Nat} (hi : i < rows.length) (hw : w < rows.length) :
    Reach1 (rowLink m maxid rows) rows.length i w ↔ RT m maxid (· ∈ rows) rows[i] rows[w] := by
  constructor
  · intro h
    induction h with
    | single hz hl =>
      apply RT.single (List.getElem_mem hz)
      rw [rowLink_eq m maxid rows hi hz] at hl; exact hl
    | step h1 hz hl ih =>
      rename_i y z
      have hy : y < rows.length := Reach.lt_of_lt hi (h1.toReach hi)
      apply RT.step (ih hy) (List.getElem_mem hz)
      rw [rowLink_eq m maxid rows hy hz] at hl; exact hl
  · intro h
    generalize ha : rows[i] = a at h
    generalize hc : rows[w] = c at h
    induction h generalizing w with
    | single hs hl =>
      subst ha hc
      apply Reach1.single hw
      rw [rowLink_eq m maxid rows hi hw]; exact hl
    | step h1 hs hl ih =>
      rename_i b c'
      subst ha hc
      have hb : b ∈ rows := by
        cases h1 with
        | single hs' _ => exact hs'
        | step _ hs' _ => exact hs'
      obtain ⟨y, hy, rfl⟩ := List.mem_iff_getElem.mp hb
      apply Reach1.step (ih hy rfl) hw
      rw [rowLink_eq m maxid rows hy hw]; exact hl

/-- size of the cluster of a row, from row contents only -/
noncomputable def sizeC (rows : List Row) (a : Row) : Nat :=
  if ∃ c ∈ rows, linked m maxid a c = true then rows.countP (fun r => decide (RT m maxid (· ∈ rows) a r)) else 1

theorem countP_range_getElem (rows : List Row) (p : Row → Bool) :
    (List.range rows.length).countP (fun w => p (rows.getD w [])) = rows.countP p := by
  have : rows = (List.range rows.length).map (fun w => rows.getD w []) := by
    apply List.ext_getElem
    · simp
    · intro i h1 h2
      simp only [List.getElem_map, List.getElem_range]
      exact (getD_eq rows h1).symm
  conv_rhs => rw [this]
  rw [List.countP_map]; rfl

theorem sum_range_getElem (rows : List Row) (g : Row → ℚ) :
    ((List.range rows.length).map (fun w => g (rows.getD w []))).sum = (rows.map g).sum := by
  have : rows = (List.range rows.length).map (fun w => rows.getD w []) := by
    apply List.ext_getElem
    · simp
    · intro i h1 h2
      simp only [List.getElem_map, List.getElem_range]
      exact (getD_eq rows h1).symm
  conv_rhs => rw [this]
  rw [List.map_map]; rfl

/-- the index-level cluster of row `i` has `sizeC rows rows[i]` members -/
theorem cluster_size_eq (rows : List Row) {i : Nat} (hi : i < rows.length) :
    ((msaSingleLinkage m maxid rows).getD (clusterIndex (msaSingleLinkage m maxid rows) i) []).length =
      sizeC m maxid rows rows[i] := by
  have hsym : ∀ x y, rowLink m maxid rows x y = rowLink m maxid rows y x := fun x y => linked_comm m maxid _ _
  have inv := singleLinkage_inv hsym rows.length
  have hp : IsPartition (singleLinkage (rowLink m maxid rows) rows.length) rows.length :=
    singleLinkage_isPartition hsym rows.length
  show ((singleLinkage (rowLink m maxid rows) rows.length).getD
      (clusterIndex (singleLinkage (rowLink m maxid rows) rows.length) i) []).length = _
  have hk := hp.index_lt hi
  rw [List.getD_eq_getElem?_getD, List.getElem?_eq_getElem hk]
  simp only [Option.getD_some]
  have hmem := List.getElem_mem hk
  have hcomp := inv.comp _ hmem i (hp.mem_own hi)
  have hnd : ((singleLinkage (rowLink m maxid rows) rows.length)[clusterIndex (singleLinkage (rowLink m maxid rows) rows.length) i]).Nodup :=
    (List.nodup_flatten.mp hp.nodup).1 _ hmem
  have hlt : ∀ w ∈ (singleLinkage (rowLink m maxid rows) rows.length)[clusterIndex (singleLinkage (rowLink m maxid rows) rows.length) i],
      w < rows.length := fun w hw => hp.mem_flatten.mp (List.mem_flatten.mpr ⟨_, hmem, hw⟩)
  unfold sizeC
  by_cases hex : ∃ c ∈ rows, linked m maxid rows[i] c = true
  · rw [if_pos hex]
    obtain ⟨c, hc, hl⟩ := hex
    obtain ⟨k, hk', rfl⟩ := List.mem_iff_getElem.mp hc
    have hlik : rowLink m maxid rows i k = true := by rw [rowLink_eq m maxid rows hi hk']; exact hl
    have hself : Reach1 (rowLink m maxid rows) rows.length i i :=
      Reach1.step (Reach1.single hk' hlik) hi (by rw [hsym]; exact hlik)
    -- the cluster = the vertices reachable in ≥ 1 steps
    have hperm : ((List.range rows.length).filter fun w => decide (Reach1 (rowLink m maxid rows) rows.length i w)).Perm
        (singleLinkage (rowLink m maxid rows) rows.length)[clusterIndex (singleLinkage (rowLink m maxid rows) rows.length) i] := by
      rw [List.perm_ext_iff_of_nodup (List.nodup_range.filter _) hnd]
      intro w
      simp only [List.mem_filter, List.mem_range, decide_eq_true_eq]
      constructor
      · rintro ⟨hw, hr⟩
        exact (hcomp w hw).mpr (hr.toReach hi)
      · intro hw
        have hwl := hlt w hw
        refine ⟨hwl, ?_⟩
        rcases ((hcomp w hwl).mp hw).toReach1 with rfl | h
        · exact hself
        · exact h
    rw [← hperm.length_eq, ← List.countP_eq_length_filter]
    rw [← countP_range_getElem rows (fun r => decide (RT m maxid (· ∈ rows) rows[i] r))]
    apply List.countP_congr
    intro w hw
    have hw' := List.mem_range.mp hw
    simp only [decide_eq_true_eq, getD_eq rows hw']
    exact reach1_iff m maxid rows hi hw'
  · rw [if_neg hex]
    apply length_one_of_all_eq hnd (hp.ne _ hmem)
    intro w hw
    have hno : ∀ k, k < rows.length → rowLink m maxid rows i k = false := by
      intro k hk'
      by_contra hc
      apply hex
      refine ⟨rows[k], List.getElem_mem hk', ?_⟩
      have : rowLink m maxid rows i k = true := by simpa using hc
      rw [rowLink_eq m maxid rows hi hk'] at this; exact this
    exact reach_eq_of_no_link hno ((hcomp w (hlt w hw)).mp hw)

/-- number of clusters, from row contents only -/
noncomputable def ncC (rows : List Row) : ℚ := (rows.map fun a => 1 / (sizeC m maxid rows a : ℚ)).sum

theorem nclusters_eq (rows : List Row) : ((msaSingleLinkage m maxid rows).length : ℚ) = ncC m maxid rows := by
  have hp := msaSingleLinkage_isPartition m maxid rows
  rw [← hp.sum_rawW]
  unfold ncC
  rw [← sum_range_getElem rows (fun a => 1 / (sizeC m maxid rows a : ℚ))]
  congr 1
  apply List.map_congr_left
  intro u hu
  have hu' := List.mem_range.mp hu
  unfold IsPartition.rawW
  rw [cluster_size_eq m maxid rows hu', getD_eq rows hu']

theorem sizeC_perm {rows rows' : List Row} (hp : rows.Perm rows') (a : Row) : sizeC m maxid rows' a = sizeC m maxid rows a := by
  unfold sizeC
  have hmem : ∀ r, r ∈ rows ↔ r ∈ rows' := fun r => hp.mem_iff
  have h1 : (∃ c ∈ rows', linked m maxid a c = true) ↔ (∃ c ∈ rows, linked m maxid a c = true) := by
    constructor
    · rintro ⟨c, hc, hl⟩; exact ⟨c, (hmem c).mpr hc, hl⟩
    · rintro ⟨c, hc, hl⟩; exact ⟨c, (hmem c).mp hc, hl⟩
  by_cases h : ∃ c ∈ rows, linked m maxid a c = true
  · rw [if_pos h, if_pos (h1.mpr h), ← hp.countP_eq]
    apply List.countP_congr
    intro r _
    simp only [decide_eq_true_eq]
    exact ⟨RT.congr m maxid (fun r => (hmem r).symm), RT.congr m maxid hmem⟩
  · rw [if_neg h, if_neg (fun h' => h (h1.mp h'))]

theorem ncC_perm {rows rows' : List Row} (hp : rows.Perm rows') : ncC m maxid rows' = ncC m maxid rows := by
  unfold ncC
  rw [← (hp.map _).sum_eq]
  congr 1
  apply List.map_congr_left
  intro a _
  rw [sizeC_perm m maxid hp]

/-- the BLOSUM weight of a row as a function of its content -/
noncomputable def blosumWeightOf (rows : List Row) (a : Row) : ℚ :=
  if rows.length = 1 then 1 else (rows.length : ℚ) / ncC m maxid rows / sizeC m maxid rows a

theorem blosum_eq_map (rows : List Row) (hne : rows ≠ []) :
    blosum m maxid rows = rows.map (blosumWeightOf m maxid rows) := by
  by_cases hn : rows.length = 1
  · obtain ⟨r, rfl⟩ := List.length_eq_one_iff.mp hn
    simp [blosum, blosumWeightOf]
  · have hlen : (blosum m maxid rows).length = rows.length := by
      unfold blosum
      simp only [beq_iff_eq, hn, ↓reduceIte]
      rw [normalizeToN_length]; simp [assignment]
    apply List.ext_getElem
    · rw [hlen, List.length_map]
    · intro i h1 h2
      have hi : i < rows.length := by rw [hlen] at h1; exact h1
      rw [blosum_getElem m maxid rows hn i hi h1, List.getElem_map, cluster_size_eq m maxid rows hi,
        nclusters_eq m maxid rows]
      simp [blosumWeightOf, hn]

/-- BLOSUM weights under relisting: one weight function serves both orders -/
theorem blosum_perm {rows rows' : List Row} (hp : rows.Perm rows') (hne : rows ≠ []) :
    ∃ f : Row → ℚ, blosum m maxid rows = rows.map f ∧ blosum m maxid rows' = rows'.map f := by
  have hne' : rows' ≠ [] := by
    intro h; subst h; exact hne (List.Perm.eq_nil hp)
  refine ⟨blosumWeightOf m maxid rows, blosum_eq_map m maxid rows hne, ?_⟩
  rw [blosum_eq_map m maxid rows' hne']
  apply List.map_congr_left
  intro a _
  unfold blosumWeightOf
  rw [hp.length_eq, ncC_perm m maxid hp, sizeC_perm m maxid hp]

end
end EaselModel.Weights
