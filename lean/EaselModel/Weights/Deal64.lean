import EaselModel.Random.Model
/-! C16 — `esl_rand64_Deal` (Vitter's sequential sampling, methods D and A) as `consensus_by_sample` uses it, in binary64
    (`Float` = C double; `Float.exp`/`Float.log`/`Float.floor`/`Float.round` are the libm functions the C code calls).
    Core Lean only. The loops of the C code are unbounded (they end with probability 1); here they carry fuel.
    No theorem is stated about the sample itself: the weighting theorems hold for EVERY sample list. -/
namespace EaselModel.Weights
open EaselModel.Random

/-- `esl_rand64_double`: `(double) (x >> 11) * (1.0 / 9007199254740992.0)` -/
def r64double (r : Rng64) : Float × Rng64 :=
  let (x, r') := r.next
  (Float.ofNat (dblNum x) * (1.0 / 9007199254740992.0), r')

/-- `esl_rand64_double_open`: `((double) (x >> 12) + 0.5) * (1.0/4503599627370496.0)` -/
def r64open (r : Rng64) : Float × Rng64 :=
  let (x, r') := r.next
  ((Float.ofNat (x >>> 12).toNat + 0.5) * (1.0 / 4503599627370496.0), r')

/-- `(int64_t) floor(x)` for the non-negative values that occur -/
def floorNat (x : Float) : Nat := x.floor.toUInt64.toNat

/-- the skip-length loop of `vitter_a`: `while (quot > U) { S++; top -= 1.; nreal -= 1.; quot = (quot * top)/nreal; }` -/
def vaSkip (U : Float) : Nat → Float → Float → Float → Nat → Nat × Float × Float
  | 0, _, top, nreal, S => (S, top, nreal)
  | fuel + 1, quot, top, nreal, S =>
    if quot > U then
      let top := top - 1.0
      let nreal := nreal - 1.0
      vaSkip U fuel ((quot * top) / nreal) top nreal (S + 1)
    else (S, top, nreal)

/-- `vitter_a(rng, m, n, j, deal)`: `j` is kept as `jn = j + 1` (the C code starts from j = -1); returns the indices in order -/
def vitterA (fuelN : Nat) : Nat → Rng64 → Nat → Float → Float → Nat → List Nat → List Nat × Rng64
  | 0, r, _, _, _, _, acc => (acc.reverse, r)
  | fuel + 1, r, m, top, nreal, jn, acc =>
    if m ≥ 2 then
      let (U, r) := r64open r
      let (S, top, nreal) := vaSkip U fuelN (top / nreal) top nreal 0
      let jn := jn + S + 1
      vitterA fuelN fuel r (m - 1) top (nreal - 1.0) jn ((jn - 1) :: acc)
    else
      let (u, r) := r64double r
      let S := floorNat (nreal.round * u)
      let jn := jn + S + 1
      (((jn - 1) :: acc).reverse, r)

structure DState where
  r : Rng64
  m : Nat
  n : Nat
  jn : Nat            -- j + 1
  qu1 : Nat
  threshold : Int
  mreal : Float
  nreal : Float
  minv : Float
  qu1real : Float
  vprime : Float
  acc : List Nat

/-- the innermost `while (1)`: `X = nreal * (-Vprime + 1.0); if ((S = floor(X)) < qu1) break; Vprime = exp(minv * log(open))` -/
def dFindS (nreal minv : Float) (qu1 : Nat) : Nat → Float → Rng64 → Float × Nat × Float × Rng64
  | 0, vprime, r => (nreal * (-vprime + 1.0), floorNat (nreal * (-vprime + 1.0)), vprime, r)
  | fuel + 1, vprime, r =>
    let X := nreal * (-vprime + 1.0)
    let S := floorNat X
    if S < qu1 then (X, S, vprime, r)
    else
      let (u, r) := r64open r
      dFindS nreal minv qu1 fuel (Float.exp (minv * Float.log u)) r

/-- `for (t = n-1; t >= limit; t--) { y2 = (y2 * top) / bottom; top--; bottom--; }` -/
def dY2 : Nat → Float → Float → Float → Float
  | 0, y2, _, _ => y2
  | k + 1, y2, top, bottom => dY2 k ((y2 * top) / bottom) (top - 1.0) (bottom - 1.0)

/-- the middle `while (1)` of method D; returns (S, new Vprime, rng) -/
def dTry (n qu1 : Nat) (mreal nreal minv mmin1inv qu1real : Float) : Nat → Float → Rng64 → Nat × Float × Rng64
  | 0, vprime, r => (0, vprime, r)
  | fuel + 1, vprime, r =>
    let (X, S, _, r) := dFindS nreal minv qu1 1000 vprime r
    let (U, r) := r64open r
    let negSreal := -(Float.ofNat S)
    let y1 := Float.exp (mmin1inv * Float.log (U * nreal / qu1real))
    let vprime := y1 * (-X / nreal + 1.0) * (qu1real / (negSreal + qu1real))
    if vprime ≤ 1.0 then (S, vprime, r)
    else
      let top := nreal - 1.0
      let (bottom, limit) := if n - 1 > S then (nreal - mreal, n - S) else (nreal + negSreal - 1.0, qu1)
      let y2 := dY2 (n - limit) 1.0 top bottom
      if nreal / (nreal - X) ≥ y1 * Float.exp (mmin1inv * Float.log y2) then
        let (u, r) := r64open r
        (S, Float.exp (mmin1inv * Float.log u), r)
      else
        let (u, r) := r64open r
        dTry n qu1 mreal nreal minv mmin1inv qu1real fuel (Float.exp (minv * Float.log u)) r

/-- the outer `while (m > 1 && n > threshold)` loop of `esl_rand64_Deal` -/
def dLoop : Nat → DState → DState
  | 0, s => s
  | fuel + 1, s =>
    if s.m > 1 ∧ (s.n : Int) > s.threshold then
      let mmin1inv := 1.0 / (-1.0 + s.mreal)
      let (S, vprime, r) := dTry s.n s.qu1 s.mreal s.nreal s.minv mmin1inv s.qu1real 1000 s.vprime s.r
      let negSreal := -(Float.ofNat S)
      let jn := s.jn + S + 1
      dLoop fuel
        { r := r, m := s.m - 1, n := s.n - S - 1, jn := jn, qu1 := s.qu1 - S, threshold := s.threshold - 13,
          mreal := s.mreal - 1.0, nreal := s.nreal + negSreal - 1.0, minv := mmin1inv, qu1real := s.qu1real + negSreal,
          vprime := vprime, acc := (jn - 1) :: s.acc }
    else s

/-- `esl_rand64_Deal(rng, m, n, deal)` for 1 ≤ m ≤ n: the sorted sample and the generator afterwards -/
def deal64 (r : Rng64) (m n : Nat) : List Nat × Rng64 :=
  let mreal := Float.ofNat m
  let nreal := Float.ofNat n
  let minv := 1.0 / mreal
  let (u, r) := r64double r
  let s := dLoop (m + 1)
    { r := r, m := m, n := n, jn := 0, qu1 := n - m + 1, threshold := 13 * (m : Int), mreal := mreal, nreal := nreal,
      minv := minv, qu1real := nreal - mreal + 1.0, vprime := Float.exp (minv * Float.log u), acc := [] }
  if s.m > 1 then
    let (rest, r) := vitterA (s.n + 2) (s.m + 1) s.r s.m (Float.ofNat (s.n - s.m)) (Float.ofNat s.n) s.jn []
    (s.acc.reverse ++ rest, r)
  else
    let S := floorNat (Float.ofNat s.n * s.vprime)
    (s.acc.reverse ++ [s.jn + S], s.r)

end EaselModel.Weights
