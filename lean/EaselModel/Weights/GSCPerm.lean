import EaselModel.Weights.GSC
import EaselModel.Weights.FindMin
import EaselModel.Weights.PBPerm
import EaselModel.Weights.Sort
import Mathlib.Data.List.Perm.Basic
import Mathlib.Data.List.Nodup
import Mathlib.Data.List.Forall2
import Mathlib.Data.List.Range
/-! C16 helper lemmas, part 14: GSC weights follow the rows under relisting when no pass of UPGMA has a tie for the minimum.

  Two runs are compared: A on `rows`, B on `p.map (rows.getD · [])` for a permutation `p` of 0..n-1. Cluster numbers of B
  are translated into those of A by `relab` (taxon x of B is taxon p[x] of A; internal nodes keep their number). The relation
  `Rel` between the two states is static in the distances (they are keyed by cluster identity, rows are append-only); the
  only moving part is the table of active clusters, which need only agree as a multiset. -/
namespace EaselModel.Weights
open WNum

/-! ### relabelling -/

def relab (n : Nat) (p : List Nat) (x : Nat) : Nat := if x < n then p.getD x 0 else x

section relab
variable {n : Nat} {p : List Nat} (hp : p.Perm (List.range n))
include hp

theorem p_length : p.length = n := by simpa using hp.length_eq

theorem p_getD_lt {x : Nat} (hx : x < n) : p.getD x 0 < n := by
  have hl := p_length hp
  rw [List.getD_eq_getElem?_getD, List.getElem?_eq_getElem (by omega)]
  simp only [Option.getD_some]
  exact List.mem_range.mp (hp.mem_iff.mp (List.getElem_mem _))

theorem relab_lt {x : Nat} (hx : x < n) : relab n p x < n := by
  unfold relab; rw [if_pos hx]; exact p_getD_lt hp hx

theorem relab_ge {x : Nat} (hx : n ≤ x) : relab n p x = x := by
  unfold relab; rw [if_neg (by omega)]

theorem relab_ge_iff {x : Nat} : n ≤ relab n p x ↔ n ≤ x := by
  by_cases hx : x < n
  · have := relab_lt hp hx; omega
  · rw [relab_ge hp (by omega)]

theorem relab_lt_of_lt {x m : Nat} (hm : n ≤ m) (hx : x < m) : relab n p x < m := by
  by_cases h : x < n
  · have := relab_lt hp h; omega
  · rw [relab_ge hp (by omega)]; exact hx

theorem relab_inj {x y : Nat} (h : relab n p x = relab n p y) : x = y := by
  have hl := p_length hp
  have hnd : p.Nodup := hp.nodup_iff.mpr List.nodup_range
  by_cases hx : x < n <;> by_cases hy : y < n
  · unfold relab at h
    rw [if_pos hx, if_pos hy, List.getD_eq_getElem?_getD, List.getD_eq_getElem?_getD,
      List.getElem?_eq_getElem (by omega), List.getElem?_eq_getElem (by omega)] at h
    simp only [Option.getD_some] at h
    exact (hnd.getElem_inj_iff).mp h
  · have := relab_lt hp hx; rw [h, relab_ge hp (by omega)] at this; omega
  · have := relab_lt hp hy; rw [← h, relab_ge hp (by omega)] at this; omega
  · rw [relab_ge hp (by omega), relab_ge hp (by omega)] at h; exact h

theorem map_relab_range : (List.range n).map (relab n p) = p := by
  have hl := p_length hp
  apply List.ext_getElem
  · simp [hl]
  · intro i h1 h2
    simp only [List.getElem_map, List.getElem_range]
    have hi : i < n := by simpa using h1
    unfold relab
    rw [if_pos hi, List.getD_eq_getElem?_getD, List.getElem?_eq_getElem h2]
    rfl
end relab

/-! ### distances -/

theorem kdist_comm (rows : Array (Array ℚ)) {x y : Nat} (h : x ≠ y) : kdist rows x y = kdist rows y x := by
  unfold kdist
  by_cases h1 : x < y
  · rw [if_pos h1, if_neg (by omega)]
  · rw [if_neg h1, if_pos (by omega)]

theorem getD_push_lt {β : Type} (a : Array β) (v d : β) {i : Nat} (h : i < a.size) : (a.push v).getD i d = a.getD i d := by
  simp only [Array.getD_eq_getD_getElem?, Array.getElem?_push]
  rw [if_neg (by omega)]

theorem getD_push_eq {β : Type} (a : Array β) (v d : β) : (a.push v).getD a.size d = v := by
  simp [Array.getD_eq_getD_getElem?, Array.getElem?_push]

theorem getD_push_gt {β : Type} (a : Array β) (v d : β) {i : Nat} (h : a.size < i) : (a.push v).getD i d = d := by
  simp only [Array.getD_eq_getD_getElem?, Array.getElem?_push]
  rw [if_neg (by omega), Array.getElem?_eq_none (by omega)]
  rfl

theorem kdist_push (rows : Array (Array ℚ)) (r : Array ℚ) {x y : Nat} (hx : x < rows.size) (hy : y < rows.size) :
    kdist (rows.push r) x y = kdist rows x y := by
  unfold kdist
  rw [getD_push_lt rows r #[] hx, getD_push_lt rows r #[] hy]

theorem kdist_push_new (rows : Array (Array ℚ)) (r : Array ℚ) {x : Nat} (hx : x < rows.size) :
    kdist (rows.push r) rows.size x = r.getD x 0 ∧ kdist (rows.push r) x rows.size = r.getD x 0 := by
  unfold kdist
  constructor
  · rw [if_neg (by omega), getD_push_eq]; rfl
  · rw [if_pos hx, getD_push_eq]; rfl

theorem kRow_getD (st : KState ℚ) {x : Nat} (hx : x < st.rows.size) :
    (kRow st).getD x 0 = kmerged st.rows (st.size.getD (kI st) 0) (st.size.getD (kJ st) 0) (kI st) (kJ st) x := by
  unfold kRow
  simp only [Array.getD_eq_getD_getElem?, Array.getElem?_map]
  have : (Array.range st.rows.size)[x]? = some x := by
    rw [Array.getElem?_eq_getElem (by simpa using hx)]; simp
  rw [this]; rfl

/-! ### the table of active clusters -/

theorem agetD_toList (a : Array Nat) (i : Nat) : a.getD i 0 = a.toList.getD i 0 := by
  rw [Array.getD_eq_getD_getElem?, List.getD_eq_getElem?_getD, Array.getElem?_toList]

theorem moveIdx_size (a : Array Nat) (t q : Nat) : (moveIdx a t q).size = a.size := by
  unfold moveIdx; split <;> simp

theorem moveIdx_perm (a : Array Nat) (t q : Nat) : (moveIdx a t q).toList.Perm a.toList := by
  unfold moveIdx
  split
  · have := aswap_perm a q t
    unfold aswap at this
    exact Array.perm_iff_toList_perm.mp this
  · exact List.Perm.refl _

theorem moveIdx_getD (a : Array Nat) (t q k : Nat) (ht : t < a.size) (hq : q < a.size) :
    (moveIdx a t q).getD k 0 = if k = t then a.getD q 0 else if k = q then a.getD t 0 else a.getD k 0 := by
  unfold moveIdx
  by_cases h : q = t
  · subst h; simp only [bne_self_eq_false, Bool.false_eq_true, ↓reduceIte]
    split <;> simp_all
  · have hb : (q != t) = true := by simpa using h
    rw [if_pos hb]
    unfold Array.swapIfInBounds
    rw [dif_pos hq, dif_pos ht]
    simp only [Array.getD_eq_getD_getElem?, Array.getElem?_swap]
    by_cases h1 : k = t
    · subst h1
      simp [Array.getElem?_eq_getElem hq]
    · have h1' : ¬ t = k := fun e => h1 e.symm
      by_cases h2 : k = q
      · subst h2
        simp [h1', h1, Array.getElem?_eq_getElem ht]
      · have h2' : ¬ q = k := fun e => h2 e.symm
        simp [h1, h2, h1', h2']

theorem list_split_last_two (L : List Nat) (N : Nat) (hN : 2 ≤ N) (hl : L.length = N) :
    L = L.take (N - 2) ++ [L.getD (N - 2) 0, L.getD (N - 1) 0] := by
  apply List.ext_getElem
  · simp; omega
  · intro k h1 h2
    by_cases hk : k < N - 2
    · rw [List.getElem_append_left (by simp; omega), List.getElem_take]
    · rw [List.getElem_append_right (by simp; omega)]
      simp only [List.length_take]
      have hm : min (N - 2) L.length = N - 2 := by omega
      simp only [hm]
      have : k = N - 2 ∨ k = N - 1 := by omega
      rcases this with rfl | rfl
      · simp [List.getD_eq_getElem?_getD, List.getElem?_eq_getElem h1]
      · have : N - 1 - (N - 2) = 1 := by omega
        simp [this, List.getD_eq_getElem?_getD, List.getElem?_eq_getElem h1]

/-- after the two moves the joined clusters sit in the last two positions; the rest is what `kAct` keeps -/
theorem kAct_spec (st : KState ℚ) (hN : 2 ≤ st.act.size) (hij : kPosI st < kPosJ st) (hj : kPosJ st < st.act.size) :
    ∃ L' : List Nat, (kAct st).toList = L' ++ [st.rows.size] ∧ (L' ++ [kI st, kJ st]).Perm st.act.toList := by
  set N := st.act.size with hNdef
  set b := moveIdx st.act (N - 1) (kPosJ st) with hb
  set a1 := moveIdx b (N - 2) (kPosI st) with ha1
  have hbs : b.size = N := moveIdx_size _ _ _
  have ha1s : a1.size = N := by rw [ha1, moveIdx_size, hbs]
  have hperm : a1.toList.Perm st.act.toList := (moveIdx_perm b _ _).trans (moveIdx_perm st.act _ _)
  have hbJ : b.getD (N - 1) 0 = kJ st := by
    rw [hb, moveIdx_getD _ _ _ _ (by omega) hj, if_pos rfl]; rfl
  have hbI : b.getD (kPosI st) 0 = kI st := by
    rw [hb, moveIdx_getD _ _ _ _ (by omega) hj, if_neg (by omega), if_neg (by omega)]; rfl
  have h1 : a1.getD (N - 2) 0 = kI st := by
    rw [ha1, moveIdx_getD _ _ _ _ (by omega) (by omega), if_pos rfl, hbI]
  have h2 : a1.getD (N - 1) 0 = kJ st := by
    rw [ha1, moveIdx_getD _ _ _ _ (by omega) (by omega), if_neg (by omega)]
    by_cases h : N - 1 = kPosI st
    · omega
    · rw [if_neg h, hbJ]
  have hsplit := list_split_last_two a1.toList N hN (by simpa using ha1s)
  rw [← agetD_toList, ← agetD_toList, h1, h2] at hsplit
  refine ⟨a1.toList.take (N - 2), ?_, ?_⟩
  · show ((a1.setIfInBounds (N - 2) st.rows.size).pop).toList = _
    rw [Array.toList_pop, Array.toList_setIfInBounds]
    apply List.ext_getElem
    · simp; omega
    · intro k hk1 hk2
      rw [List.getElem_dropLast, List.getElem_set]
      have hlen : a1.toList.length = N := by simpa using ha1s
      by_cases hk : k < N - 2
      · rw [if_neg (by omega), List.getElem_append_left (by simp; omega), List.getElem_take]
      · have : k = N - 2 := by
          simp only [List.length_dropLast, List.length_set] at hk1; omega
        subst this
        rw [if_pos rfl, List.getElem_append_right (by simp)]
        have hz : N - 2 - (List.take (N - 2) a1.toList).length = 0 := by simp; omega
        simp only [hz, List.getElem_cons_zero]
  · rw [← hsplit]; exact hperm

/-! ### positions and members of the active table -/

theorem mem_of_getD (a : Array Nat) {r : Nat} (hr : r < a.size) : a.getD r 0 ∈ a.toList := by
  rw [agetD_toList, List.getD_eq_getElem?_getD, List.getElem?_eq_getElem (by simpa using hr)]
  exact List.getElem_mem _

theorem pos_of_mem (a : Array Nat) {x : Nat} (hx : x ∈ a.toList) : ∃ r, r < a.size ∧ a.getD r 0 = x := by
  obtain ⟨r, hr, rfl⟩ := List.mem_iff_getElem.mp hx
  refine ⟨r, by simpa using hr, ?_⟩
  rw [agetD_toList, List.getD_eq_getElem?_getD, List.getElem?_eq_getElem hr]; rfl

theorem pos_inj (a : Array Nat) (hnd : a.toList.Nodup) {r c : Nat} (hr : r < a.size) (hc : c < a.size)
    (h : a.getD r 0 = a.getD c 0) : r = c := by
  rw [agetD_toList, agetD_toList, List.getD_eq_getElem?_getD, List.getD_eq_getElem?_getD,
    List.getElem?_eq_getElem (by simpa using hr), List.getElem?_eq_getElem (by simpa using hc)] at h
  simp only [Option.getD_some] at h
  exact (hnd.getElem_inj_iff).mp h

/-- the minimum found is ≤ the distance of ANY two different active clusters -/
theorem kfindMin_le_pair (rows : Array (Array ℚ)) (act : Array Nat) (hN : 2 ≤ act.size) {x y : Nat}
    (hx : x ∈ act.toList) (hy : y ∈ act.toList) (hxy : x ≠ y) : (kfindMin rows act).1 ≤ kdist rows x y := by
  obtain ⟨r, hr, rfl⟩ := pos_of_mem act hx
  obtain ⟨c, hc, rfl⟩ := pos_of_mem act hy
  have hrc : r ≠ c := fun e => hxy (by rw [e])
  obtain ⟨_, h2, _, _⟩ := kfindMin_spec rows act hN
  rcases Nat.lt_or_gt_of_ne hrc with h | h
  · exact h2 r c h hc
  · rw [kdist_comm rows hxy]; exact h2 c r h hr

/-- no pass of UPGMA on this state has a tie for the minimum: every other pair of active positions is strictly farther -/
def UniqueMin (A : KState ℚ) : Prop :=
  ∀ r c, r < c → c < A.act.size → ¬ (r = kPosI A ∧ c = kPosJ A) →
    kdist A.rows (kI A) (kJ A) < kdist A.rows (A.act.getD r 0) (A.act.getD c 0)

theorem UniqueMin.pair {A : KState ℚ} (hU : UniqueMin A) (hN : 2 ≤ A.act.size) (hnd : A.act.toList.Nodup) {x y : Nat}
    (hx : x ∈ A.act.toList) (hy : y ∈ A.act.toList) (hxy : x ≠ y)
    (hle : kdist A.rows x y ≤ kdist A.rows (kI A) (kJ A)) :
    (x = kI A ∧ y = kJ A) ∨ (x = kJ A ∧ y = kI A) := by
  obtain ⟨r, hr, rfl⟩ := pos_of_mem A.act hx
  obtain ⟨c, hc, rfl⟩ := pos_of_mem A.act hy
  have hrc : r ≠ c := fun e => hxy (by rw [e])
  rcases Nat.lt_or_gt_of_ne hrc with h | h
  · by_cases he : r = kPosI A ∧ c = kPosJ A
    · left; rw [he.1, he.2]; exact ⟨rfl, rfl⟩
    · exact absurd (hU r c h hc he) (not_lt.mpr hle)
  · by_cases he : c = kPosI A ∧ r = kPosJ A
    · right; rw [he.1, he.2]; exact ⟨rfl, rfl⟩
    · rw [kdist_comm A.rows hxy] at hle
      exact absurd (hU c r h hr he) (not_lt.mpr hle)

/-! ### the relation between the two runs -/

def NodeRel (n : Nat) (p : List Nat) (a b : KNode ℚ) : Prop :=
  (relab n p b.I = a.I ∧ relab n p b.J = a.J ∧ b.l = a.l ∧ b.r = a.r) ∨
  (relab n p b.I = a.J ∧ relab n p b.J = a.I ∧ b.l = a.r ∧ b.r = a.l)

structure Rel (n : Nat) (p : List Nat) (A B : KState ℚ) : Prop where
  nle : n ≤ A.rows.size
  rsize : B.rows.size = A.rows.size
  szA : A.size.size = A.rows.size
  szB : B.size.size = B.rows.size
  hgA : A.hgt.size = A.rows.size
  hgB : B.hgt.size = B.rows.size
  actA_lt : ∀ x ∈ A.act.toList, x < A.rows.size
  actA_nd : A.act.toList.Nodup
  act : (B.act.toList.map (relab n p)).Perm A.act.toList
  dist : ∀ x ∈ B.act.toList, ∀ y ∈ B.act.toList, x ≠ y →
    kdist B.rows x y = kdist A.rows (relab n p x) (relab n p y)
  size : ∀ x ∈ B.act.toList, B.size.getD x 0 = A.size.getD (relab n p x) 0
  hgt : ∀ x, n ≤ x → B.hgt.getD x 0 = A.hgt.getD x 0
  nodes : List.Forall₂ (NodeRel n p) A.nodes B.nodes
  nodesA_ne : ∀ nd ∈ A.nodes, nd.I ≠ nd.J

section rel
variable {n : Nat} {p : List Nat} (hp : p.Perm (List.range n)) {A B : KState ℚ} (R : Rel n p A B)
include hp R

theorem Rel.actB_nd : B.act.toList.Nodup :=
  List.Nodup.of_map _ (R.act.nodup_iff.mpr R.actA_nd)

theorem Rel.actB_size : B.act.size = A.act.size := by
  have := R.act.length_eq
  simpa using this

theorem Rel.mem_AB {x : Nat} (hx : x ∈ B.act.toList) : relab n p x ∈ A.act.toList :=
  R.act.mem_iff.mp (List.mem_map_of_mem hx)

theorem Rel.mem_BA {y : Nat} (hy : y ∈ A.act.toList) : ∃ x ∈ B.act.toList, relab n p x = y := by
  have := R.act.mem_iff.mpr hy
  simpa using this

theorem Rel.actB_lt {x : Nat} (hx : x ∈ B.act.toList) : x < B.rows.size := by
  have h1 := R.actA_lt _ (R.mem_AB hp hx)
  rw [R.rsize]
  by_cases h : x < n
  · have := R.nle; omega
  · rw [relab_ge hp (by omega)] at h1; exact h1

/-- with a unique minimum in A, B finds the same minimum at the corresponding pair (possibly in the other orientation) -/
theorem Rel.min_corr (hN : 2 ≤ A.act.size) (hU : UniqueMin A) :
    (kMin B).1 = (kMin A).1 ∧ kI A ≠ kJ A ∧ kI B ≠ kJ B ∧
    kI A ∈ A.act.toList ∧ kJ A ∈ A.act.toList ∧ kI B ∈ B.act.toList ∧ kJ B ∈ B.act.toList ∧
    ((relab n p (kI B) = kI A ∧ relab n p (kJ B) = kJ A) ∨ (relab n p (kI B) = kJ A ∧ relab n p (kJ B) = kI A)) := by
  have hNB : 2 ≤ B.act.size := by rw [R.actB_size hp]; exact hN
  obtain ⟨a1, a2, a3, a4⟩ := kfindMin_spec A.rows A.act hN
  obtain ⟨b1, b2, b3, b4⟩ := kfindMin_spec B.rows B.act hNB
  have hIA : kI A ∈ A.act.toList := mem_of_getD A.act (by unfold kPosI kMin; omega)
  have hJA : kJ A ∈ A.act.toList := mem_of_getD A.act a4
  have hIB : kI B ∈ B.act.toList := mem_of_getD B.act (by unfold kPosI kMin; omega)
  have hJB : kJ B ∈ B.act.toList := mem_of_getD B.act b4
  have hneA : kI A ≠ kJ A := by
    intro e
    have h3 : kPosI A < kPosJ A := a3
    have h4 : kPosJ A < A.act.size := a4
    have : kPosI A = kPosJ A := pos_inj A.act R.actA_nd (by omega) h4 e
    omega
  have hneB : kI B ≠ kJ B := by
    intro e
    have h3 : kPosI B < kPosJ B := b3
    have h4 : kPosJ B < B.act.size := b4
    have : kPosI B = kPosJ B := pos_inj B.act (R.actB_nd hp) (by omega) h4 e
    omega
  have hminA : (kMin A).1 = kdist A.rows (kI A) (kJ A) := a1
  have hminB : (kMin B).1 = kdist B.rows (kI B) (kJ B) := b1
  have hrne : relab n p (kI B) ≠ relab n p (kJ B) := fun e => hneB (relab_inj hp e)
  -- minA ≤ minB
  have h1 : (kMin A).1 ≤ (kMin B).1 := by
    rw [hminB, R.dist _ hIB _ hJB hneB]
    exact kfindMin_le_pair A.rows A.act hN (R.mem_AB hp hIB) (R.mem_AB hp hJB) hrne
  -- minB ≤ minA
  obtain ⟨x, hx, hxI⟩ := R.mem_BA hp hIA
  obtain ⟨y, hy, hyJ⟩ := R.mem_BA hp hJA
  have hxy : x ≠ y := by
    intro e; apply hneA; rw [← hxI, ← hyJ, e]
  have h2 : (kMin B).1 ≤ (kMin A).1 := by
    rw [hminA, ← hxI, ← hyJ, ← R.dist _ hx _ hy hxy]
    exact kfindMin_le_pair B.rows B.act hNB hx hy hxy
  have heq : (kMin B).1 = (kMin A).1 := le_antisymm h2 h1
  refine ⟨heq, hneA, hneB, hIA, hJA, hIB, hJB, ?_⟩
  apply hU.pair hN R.actA_nd (R.mem_AB hp hIB) (R.mem_AB hp hJB) hrne
  rw [← R.dist _ hIB _ hJB hneB, ← hminB, heq, hminA]

end rel

theorem kbranch_congr (n : Nat) (h : ℚ) (hA hB : Array ℚ) (cA cB : Nat) (hge : n ≤ cB ↔ n ≤ cA)
    (hv : n ≤ cB → cB = cA ∧ hB.getD cB 0 = hA.getD cA 0) : kbranch n h hB cB = kbranch n h hA cA := by
  unfold kbranch vget
  by_cases hc : n ≤ cB
  · obtain ⟨e, hv'⟩ := hv hc
    rw [if_pos hc, if_pos (hge.mp hc)]
    simp only [ofNat_rat, Nat.cast_zero] at hv' ⊢
    rw [hv']
  · rw [if_neg hc, if_neg (fun h' => hc (hge.mpr h'))]

section relstep
variable {n : Nat} {p : List Nat} (hp : p.Perm (List.range n)) {A B : KState ℚ} (R : Rel n p A B)
include hp R

theorem Rel.step (hN : 2 ≤ A.act.size) (hU : UniqueMin A) : Rel n p (kstep n A) (kstep n B) := by
  obtain ⟨heq, hneA, hneB, hIA, hJA, hIB, hJB, hor⟩ := R.min_corr hp hN hU
  have hNB : 2 ≤ B.act.size := by rw [R.actB_size hp]; exact hN
  obtain ⟨_, _, a3, a4⟩ := kfindMin_spec A.rows A.act hN
  obtain ⟨_, _, b3, b4⟩ := kfindMin_spec B.rows B.act hNB
  obtain ⟨LA, hLA1, hLA2⟩ := kAct_spec A hN a3 a4
  obtain ⟨LB, hLB1, hLB2⟩ := kAct_spec B hNB b3 b4
  have hnle := R.nle
  have hrs := R.rsize
  -- members of LA / LB
  have ndA : (LA ++ [kI A, kJ A]).Nodup := hLA2.nodup_iff.mpr R.actA_nd
  have ndB : (LB ++ [kI B, kJ B]).Nodup := hLB2.nodup_iff.mpr (R.actB_nd hp)
  have memA : ∀ x ∈ LA, x ∈ A.act.toList ∧ x ≠ kI A ∧ x ≠ kJ A := by
    intro x hx
    refine ⟨hLA2.mem_iff.mp (by simp [hx]), ?_, ?_⟩
    · exact (List.nodup_append.mp ndA).2.2 x hx (kI A) (by simp)
    · exact (List.nodup_append.mp ndA).2.2 x hx (kJ A) (by simp)
  have memB : ∀ x ∈ LB, x ∈ B.act.toList ∧ x ≠ kI B ∧ x ≠ kJ B := by
    intro x hx
    refine ⟨hLB2.mem_iff.mp (by simp [hx]), ?_, ?_⟩
    · exact (List.nodup_append.mp ndB).2.2 x hx (kI B) (by simp)
    · exact (List.nodup_append.mp ndB).2.2 x hx (kJ B) (by simp)
  have ltA : ∀ x ∈ LA, x < A.rows.size := fun x hx => R.actA_lt x (memA x hx).1
  have ltB : ∀ x ∈ LB, x < B.rows.size := fun x hx => R.actB_lt hp (memB x hx).1
  -- the kept parts correspond
  have hL : (LB.map (relab n p)).Perm LA := by
    have h1 : ((LB ++ [kI B, kJ B]).map (relab n p)).Perm (LA ++ [kI A, kJ A]) :=
      ((hLB2.map _).trans R.act).trans hLA2.symm
    simp only [List.map_append, List.map_cons, List.map_nil] at h1
    rcases hor with ⟨e1, e2⟩ | ⟨e1, e2⟩
    · rw [e1, e2] at h1
      exact (List.perm_append_right_iff _).mp h1
    · rw [e1, e2] at h1
      have h2 : (LA ++ [kI A, kJ A]).Perm (LA ++ [kJ A, kI A]) := List.Perm.append_left LA (List.Perm.swap _ _ _)
      exact (List.perm_append_right_iff _).mp (h1.trans h2)
  have hmB : relab n p B.rows.size = A.rows.size := by rw [relab_ge hp (by omega), hrs]
  -- merged distances correspond
  have hmerge : ∀ y ∈ LB, (kRow B).getD y 0 = (kRow A).getD (relab n p y) 0 := by
    intro y hy
    obtain ⟨hyB, hy1, hy2⟩ := memB y hy
    have hyA := relab_lt_of_lt hp hnle (by rw [← hrs]; exact ltB y hy)
    rw [kRow_getD B (ltB y hy), kRow_getD A hyA]
    have dI := R.dist _ hIB _ hyB (Ne.symm hy1)
    have dJ := R.dist _ hJB _ hyB (Ne.symm hy2)
    have sI := R.size _ hIB
    have sJ := R.size _ hJB
    unfold kmerged
    rw [dI, dJ, sI, sJ]
    rcases hor with ⟨e1, e2⟩ | ⟨e1, e2⟩
    · rw [e1, e2]
    · rw [e1, e2]
      simp only [ofNat_rat]; push_cast; ring
  have hsum : B.size.getD (kI B) 0 + B.size.getD (kJ B) 0 = A.size.getD (kI A) 0 + A.size.getD (kJ A) 0 := by
    rw [R.size _ hIB, R.size _ hJB]
    rcases hor with ⟨e1, e2⟩ | ⟨e1, e2⟩
    · rw [e1, e2]
    · rw [e1, e2]; omega
  have hH : kH B = kH A := by unfold kH; rw [heq]
  refine
    { nle := by show n ≤ (A.rows.push _).size; simp; omega
      rsize := by show (B.rows.push _).size = (A.rows.push _).size; simp [hrs]
      szA := by show (A.size.push _).size = (A.rows.push _).size; simp [R.szA]
      szB := by show (B.size.push _).size = (B.rows.push _).size; simp [R.szB]
      hgA := by show (A.hgt.push _).size = (A.rows.push _).size; simp [R.hgA]
      hgB := by show (B.hgt.push _).size = (B.rows.push _).size; simp [R.hgB]
      actA_lt := ?_, actA_nd := ?_, act := ?_, dist := ?_, size := ?_, hgt := ?_, nodes := ?_, nodesA_ne := ?_ }
  · intro x hx
    show x < (A.rows.push _).size
    have hx' : x ∈ LA ++ [A.rows.size] := by rw [← hLA1]; exact hx
    simp only [Array.size_push]
    rcases List.mem_append.mp hx' with h | h
    · have := ltA x h; omega
    · simp at h; omega
  · show (kAct A).toList.Nodup
    rw [hLA1, List.nodup_append]
    refine ⟨(List.nodup_append.mp ndA).1, by simp, ?_⟩
    intro x hx y hy
    simp at hy; subst hy
    have := ltA x hx; omega
  · show ((kAct B).toList.map (relab n p)).Perm (kAct A).toList
    rw [hLB1, hLA1, List.map_append]
    simp only [List.map_cons, List.map_nil, hmB]
    exact List.Perm.append_right _ hL
  · intro x hx y hy hxy
    show kdist (B.rows.push (kRow B)) x y = kdist (A.rows.push (kRow A)) (relab n p x) (relab n p y)
    have hx' : x ∈ LB ++ [B.rows.size] := by rw [← hLB1]; exact hx
    have hy' : y ∈ LB ++ [B.rows.size] := by rw [← hLB1]; exact hy
    rcases List.mem_append.mp hx' with hx1 | hx1 <;> rcases List.mem_append.mp hy' with hy1 | hy1
    · rw [kdist_push _ _ (ltB x hx1) (ltB y hy1),
        kdist_push _ _ (relab_lt_of_lt hp hnle (by rw [← hrs]; exact ltB x hx1))
          (relab_lt_of_lt hp hnle (by rw [← hrs]; exact ltB y hy1))]
      exact R.dist x (memB x hx1).1 y (memB y hy1).1 hxy
    · simp at hy1; subst hy1
      rw [(kdist_push_new B.rows (kRow B) (ltB x hx1)).2, hmB,
        (kdist_push_new A.rows (kRow A) (relab_lt_of_lt hp hnle (by rw [← hrs]; exact ltB x hx1))).2]
      exact hmerge x hx1
    · simp at hx1; subst hx1
      rw [(kdist_push_new B.rows (kRow B) (ltB y hy1)).1, hmB,
        (kdist_push_new A.rows (kRow A) (relab_lt_of_lt hp hnle (by rw [← hrs]; exact ltB y hy1))).1]
      exact hmerge y hy1
    · simp at hx1 hy1; omega
  · intro x hx
    show (B.size.push _).getD x 0 = (A.size.push _).getD (relab n p x) 0
    have hx' : x ∈ LB ++ [B.rows.size] := by rw [← hLB1]; exact hx
    rcases List.mem_append.mp hx' with hx1 | hx1
    · rw [getD_push_lt _ _ _ (by rw [R.szB]; exact ltB x hx1),
        getD_push_lt _ _ _ (by rw [R.szA]; exact relab_lt_of_lt hp hnle (by rw [← hrs]; exact ltB x hx1))]
      exact R.size x (memB x hx1).1
    · simp at hx1; subst hx1
      rw [hmB, ← R.szB, getD_push_eq, ← R.szA, getD_push_eq]
      exact hsum
  · intro x hx
    show (B.hgt.push (kH B)).getD x 0 = (A.hgt.push (kH A)).getD x 0
    rw [hH]
    have e : B.hgt.size = A.hgt.size := by rw [R.hgB, R.hgA, hrs]
    rcases Nat.lt_trichotomy x A.hgt.size with h | h | h
    · rw [getD_push_lt _ _ _ (by omega), getD_push_lt _ _ _ h]; exact R.hgt x hx
    · subst h; rw [getD_push_eq, ← e, getD_push_eq]
    · rw [getD_push_gt _ _ _ (by omega), getD_push_gt _ _ _ h]
  · show List.Forall₂ (NodeRel n p) (_ :: A.nodes) (_ :: B.nodes)
    refine List.Forall₂.cons ?_ R.nodes
    rw [hH]
    have kb : ∀ cA cB, relab n p cB = cA → kbranch n (kH A) B.hgt cB = kbranch n (kH A) A.hgt cA := by
      intro cA cB e
      apply kbranch_congr
      · rw [← e]; exact (relab_ge_iff hp).symm
      · intro hc
        have : cB = cA := by rw [← e, relab_ge hp hc]
        exact ⟨this, by rw [← this]; exact R.hgt cB hc⟩
    rcases hor with ⟨e1, e2⟩ | ⟨e1, e2⟩
    · exact Or.inl ⟨e1, e2, kb _ _ e1, kb _ _ e2⟩
    · exact Or.inr ⟨e1, e2, kb _ _ e1, kb _ _ e2⟩
  · intro nd hnd
    have hnd' : nd ∈ (⟨kI A, kJ A, kbranch n (kH A) A.hgt (kI A), kbranch n (kH A) A.hgt (kJ A)⟩ : KNode ℚ) :: A.nodes := hnd
    rcases List.mem_cons.mp hnd' with rfl | h
    · exact hneA
    · exact R.nodesA_ne nd h

end relstep

/-! ### the initial states, the runs -/

theorem kinit_kdist (m : Mode) (rws : List Row) {x y : Nat} (hxy : x < y) (hy : y < rws.length) :
    kdist (kinit (α := ℚ) m rws).rows x y = 1 - pid (α := ℚ) m (rws.getD x []) (rws.getD y []) := by
  unfold kdist kinit
  rw [if_pos hxy]
  simp only [Array.getD_eq_getD_getElem?, List.getElem?_toArray, List.getElem?_map, List.getElem?_range hy,
    Option.map_some, Option.getD_some, List.getElem?_range hxy, ofNat_rat, Nat.cast_one]

theorem getD_map_perm (rws : List Row) (p : List Nat) {x : Nat} (hx : x < p.length) :
    (p.map (fun i => rws.getD i [])).getD x [] = rws.getD (p.getD x 0) [] := by
  rw [List.getD_eq_getElem?_getD, List.getElem?_map, List.getElem?_eq_getElem hx, List.getD_eq_getElem?_getD (l := p),
    List.getElem?_eq_getElem hx]
  rfl

theorem getD_replicate {β : Type} (k : Nat) (v d : β) (x : Nat) : (Array.replicate k v).getD x d = if x < k then v else d := by
  simp only [Array.getD_eq_getD_getElem?, Array.getElem?_replicate]
  split <;> rfl

theorem Rel.init (m : Mode) (rws : List Row) (p : List Nat) (hp : p.Perm (List.range rws.length)) :
    Rel rws.length p (kinit (α := ℚ) m rws) (kinit (α := ℚ) m (p.map fun i => rws.getD i [])) := by
  have hl := p_length hp
  have hlB : (p.map fun i => rws.getD i []).length = rws.length := by simp [hl]
  refine
    { nle := by simp [kinit]
      rsize := by simp [kinit, hl]
      szA := by simp [kinit]
      szB := by simp [kinit]
      hgA := by simp [kinit]
      hgB := by simp [kinit]
      actA_lt := by intro x hx; simpa [kinit] using hx
      actA_nd := by simpa [kinit] using List.nodup_range
      act := ?_, dist := ?_, size := ?_, hgt := ?_
      nodes := by simp [kinit]
      nodesA_ne := by intro nd h; simp [kinit] at h }
  · show ((Array.range (p.map fun i => rws.getD i []).length).toList.map (relab rws.length p)).Perm (Array.range rws.length).toList
    rw [hlB, Array.toList_range, map_relab_range hp]
    exact hp
  · intro x hx y hy hxy
    have hx' : x < rws.length := by simpa [kinit, hl] using hx
    have hy' : y < rws.length := by simpa [kinit, hl] using hy
    have rx := relab_lt hp hx'
    have ry := relab_lt hp hy'
    have rne : relab rws.length p x ≠ relab rws.length p y := fun e => hxy (relab_inj hp e)
    have ex : relab rws.length p x = p.getD x 0 := by unfold relab; rw [if_pos hx']
    have ey : relab rws.length p y = p.getD y 0 := by unfold relab; rw [if_pos hy']
    have key : ∀ a b, a < b → b < rws.length →
        kdist (kinit (α := ℚ) m (p.map fun i => rws.getD i [])).rows a b =
          kdist (kinit (α := ℚ) m rws).rows (relab rws.length p a) (relab rws.length p b) := by
      intro a b hab hb
      have ha : a < rws.length := by omega
      have ra := relab_lt hp ha
      have rb := relab_lt hp hb
      have ea : relab rws.length p a = p.getD a 0 := by unfold relab; rw [if_pos ha]
      have eb : relab rws.length p b = p.getD b 0 := by unfold relab; rw [if_pos hb]
      have rne' : relab rws.length p a ≠ relab rws.length p b := fun e => by have := relab_inj hp e; omega
      rw [kinit_kdist m _ hab (by rw [hlB]; exact hb), getD_map_perm rws p (by omega), getD_map_perm rws p (by omega),
        ← ea, ← eb]
      rcases Nat.lt_or_gt_of_ne rne' with h | h
      · rw [kinit_kdist m rws h rb]
      · rw [kdist_comm _ rne', kinit_kdist m rws h ra, pid_comm]
    rcases Nat.lt_or_gt_of_ne hxy with h | h
    · exact key x y h hy'
    · rw [kdist_comm _ hxy, kdist_comm _ rne]; exact key y x h hx'
  · intro x hx
    have hx' : x < rws.length := by simpa [kinit, hl] using hx
    show (Array.replicate _ 1).getD x 0 = (Array.replicate _ 1).getD _ 0
    rw [getD_replicate, getD_replicate, hlB, if_pos hx', if_pos (relab_lt hp hx')]
  · intro x hx
    show (Array.replicate _ (ofNat 0 : ℚ)).getD x 0 = (Array.replicate _ (ofNat 0 : ℚ)).getD x 0
    rw [getD_replicate, getD_replicate, hlB]

theorem kstep_act_size (n : Nat) (st : KState ℚ) (hN : 2 ≤ st.act.size) : (kstep n st).act.size = st.act.size - 1 := by
  obtain ⟨_, _, a3, a4⟩ := kfindMin_spec st.rows st.act hN
  obtain ⟨L, h1, h2⟩ := kAct_spec st hN a3 a4
  have e1 : (kstep n st).act.toList.length = L.length + 1 := by
    show (kAct st).toList.length = _
    rw [h1]; simp
  have e2 := h2.length_eq
  simp only [List.length_append, List.length_cons, List.length_nil, Array.length_toList] at e1 e2
  omega

theorem krun_act_size (m : Mode) (rws : List Row) (k : Nat) (hk : k + 1 ≤ rws.length) :
    (krun rws.length (kinit (α := ℚ) m rws) k).act.size = rws.length - k := by
  induction k with
  | zero => simp [krun, kinit]
  | succ k ih =>
    have := ih (by omega)
    show (kstep _ _).act.size = _
    rw [kstep_act_size _ _ (by omega), this]; omega

/-- no pass of UPGMA on this alignment has a tie for the minimum -/
def TieFree (m : Mode) (rws : List Row) : Prop :=
  ∀ k, k + 1 < rws.length → UniqueMin (krun rws.length (kinit (α := ℚ) m rws) k)

theorem Rel.run (m : Mode) (rws : List Row) (p : List Nat) (hp : p.Perm (List.range rws.length))
    (htf : TieFree m rws) (k : Nat) (hk : k + 1 ≤ rws.length) :
    Rel rws.length p (krun rws.length (kinit (α := ℚ) m rws) k)
      (krun rws.length (kinit (α := ℚ) m (p.map fun i => rws.getD i [])) k) := by
  induction k with
  | zero => exact Rel.init m rws p hp
  | succ k ih =>
    have R := ih (by omega)
    have hs := krun_act_size m rws k (by omega)
    exact R.step hp (by omega) (htf k (by omega))

/-! ### the traversals on related trees -/

section trav
variable {n : Nat} {p : List Nat} (hp : p.Perm (List.range n))
include hp

theorem clades_rel (la lb : List (KNode ℚ)) (h : List.Forall₂ (NodeRel n p) la lb) :
    ∀ (ca cb : Array Nat), ca.size = cb.size → n ≤ ca.size → (∀ x, cb.getD x 0 = ca.getD (relab n p x) 0) →
      ∀ x, (lb.foldl (fun cs nd => cs.push (cs.getD nd.I 0 + cs.getD nd.J 0)) cb).getD x 0 =
           (la.foldl (fun cs nd => cs.push (cs.getD nd.I 0 + cs.getD nd.J 0)) ca).getD (relab n p x) 0 := by
  induction h with
  | nil => intro ca cb _ _ hr; simpa using hr
  | @cons a b la' lb' hab _ ih =>
    intro ca cb hs hn hr
    simp only [List.foldl_cons]
    apply ih
    · simp [hs]
    · simp; omega
    · intro x
      have hsum : cb.getD b.I 0 + cb.getD b.J 0 = ca.getD a.I 0 + ca.getD a.J 0 := by
        rw [hr b.I, hr b.J]
        rcases hab with ⟨e1, e2, _, _⟩ | ⟨e1, e2, _, _⟩
        · rw [e1, e2]
        · rw [e1, e2]; omega
      rcases Nat.lt_trichotomy x cb.size with hx | hx | hx
      · rw [getD_push_lt _ _ _ hx, getD_push_lt _ _ _ (relab_lt_of_lt hp hn (by omega))]
        exact hr x
      · subst hx
        rw [getD_push_eq, relab_ge hp (by omega), ← hs, getD_push_eq]
        exact hsum
      · rw [getD_push_gt _ _ _ hx, relab_ge hp (by omega), getD_push_gt _ _ _ (by omega)]

theorem up_rel (la lb : List (KNode ℚ)) (h : List.Forall₂ (NodeRel n p) la lb) :
    ∀ (xa xb : Array ℚ), xa.size = xb.size → n ≤ xa.size → (∀ x, xb.getD x 0 = xa.getD (relab n p x) 0) →
      ∀ x, (lb.foldl (fun xs nd => xs.push
              (let x0 := nd.l + nd.r
               let x1 := if nd.I ≥ n then x0 + vget xs nd.I else x0
               if nd.J ≥ n then x1 + vget xs nd.J else x1)) xb).getD x 0 =
           (la.foldl (fun xs nd => xs.push
              (let x0 := nd.l + nd.r
               let x1 := if nd.I ≥ n then x0 + vget xs nd.I else x0
               if nd.J ≥ n then x1 + vget xs nd.J else x1)) xa).getD (relab n p x) 0 := by
  induction h with
  | nil => intro xa xb _ _ hr; simpa using hr
  | @cons a b la' lb' hab _ ih =>
    intro xa xb hs hn hr
    simp only [List.foldl_cons]
    apply ih
    · simp [hs]
    · simp; omega
    · intro x
      have hv : ∀ c, vget xb c = vget xa (relab n p c) := fun c => by
        unfold vget; simpa using hr c
      have hval : (let x0 := b.l + b.r
                   let x1 := if b.I ≥ n then x0 + vget xb b.I else x0
                   if b.J ≥ n then x1 + vget xb b.J else x1) =
                  (let x0 := a.l + a.r
                   let x1 := if a.I ≥ n then x0 + vget xa a.I else x0
                   if a.J ≥ n then x1 + vget xa a.J else x1) := by
        simp only []
        rw [hv b.I, hv b.J]
        rcases hab with ⟨e1, e2, e3, e4⟩ | ⟨e1, e2, e3, e4⟩
        · have g1 : b.I ≥ n ↔ a.I ≥ n := by rw [← e1]; exact (relab_ge_iff hp).symm
          have g2 : b.J ≥ n ↔ a.J ≥ n := by rw [← e2]; exact (relab_ge_iff hp).symm
          rw [e1, e2, e3, e4]
          simp only [g1, g2]
        · have g1 : b.I ≥ n ↔ a.J ≥ n := by rw [← e1]; exact (relab_ge_iff hp).symm
          have g2 : b.J ≥ n ↔ a.I ≥ n := by rw [← e2]; exact (relab_ge_iff hp).symm
          rw [e1, e2, e3, e4]
          simp only [g1, g2]
          split_ifs <;> ring
      rcases Nat.lt_trichotomy x xb.size with hx | hx | hx
      · rw [getD_push_lt _ _ _ hx, getD_push_lt _ _ _ (relab_lt_of_lt hp hn (by omega))]
        exact hr x
      · subst hx
        rw [getD_push_eq, relab_ge hp (by omega), ← hs, getD_push_eq]
        exact hval
      · rw [getD_push_gt _ _ _ hx, relab_ge hp (by omega), getD_push_gt _ _ _ (by omega)]

omit hp in
theorem lookupD_cons (k : Nat) (v : ℚ) (l : List (Nat × ℚ)) (x : Nat) :
    lookupD ((k, v) :: l) x = if k = x then v else lookupD l x := by
  unfold lookupD
  by_cases h : k = x
  · subst h; simp [List.find?_cons]
  · have hb : ((k, v).1 == x) = false := by simpa using h
    rw [List.find?_cons, hb, if_neg h]

theorem down_rel (csA csB : Array Nat) (xsA xsB : Array ℚ)
    (hcs : ∀ x, csB.getD x 0 = csA.getD (relab n p x) 0) (hxs : ∀ x, xsB.getD x 0 = xsA.getD (relab n p x) 0)
    (la lb : List (KNode ℚ)) (h : List.Forall₂ (NodeRel n p) la lb) (hne : ∀ nd ∈ la, nd.I ≠ nd.J) :
    ∀ (abA abB : List (Nat × ℚ)) (c : Nat), n + la.length ≤ c + 1 →
      (∀ x, lookupD abB x = lookupD abA (relab n p x)) →
      ∀ x, lookupD (lb.foldl (kdownStep n csB xsB) (abB, c)).1 x =
           lookupD (la.foldl (kdownStep n csA xsA) (abA, c)).1 (relab n p x) := by
  induction h with
  | nil => intro abA abB c _ hr; simpa using hr
  | @cons a b la' lb' hab _ ih =>
    intro abA abB c hc hr
    simp only [List.foldl_cons]
    have hcn : n ≤ c := by simp only [List.length_cons] at hc; omega
    have hneab : a.I ≠ a.J := hne a (by simp)
    unfold kdownStep
    simp only []
    apply ih (fun nd hnd => hne nd (by simp [hnd]))
    · simp only [List.length_cons] at hc; omega
    · intro x
      have hxi : lookupD abB c = lookupD abA c := by rw [hr c, relab_ge hp hcn]
      have hv : ∀ d, vget xsB d = vget xsA (relab n p d) := fun d => by unfold vget; simpa using hxs d
      have hside : ∀ (d : ℚ) (cA cB : Nat), relab n p cB = cA → kside n xsB d cB = kside n xsA d cA := by
        intro d cA cB e
        unfold kside
        have g : cB ≥ n ↔ cA ≥ n := by rw [← e]; exact (relab_ge_iff hp).symm
        rw [hv cB, e]; simp only [g]
      have hshare : ∀ (cA cB : Nat) (xi mine total : ℚ), relab n p cB = cA →
          kshare n csB cB c xi mine total = kshare n csA cA c xi mine total := by
        intro cA cB xi mine total e
        unfold kshare
        have g : cB ≥ n ↔ cA ≥ n := by rw [← e]; exact (relab_ge_iff hp).symm
        have hc' : csB.getD c 0 = csA.getD c 0 := by rw [hcs c, relab_ge hp hcn]
        rw [hcs cB, e, hc']; simp only [g]
      rw [lookupD_cons, lookupD_cons, lookupD_cons, lookupD_cons, hxi]
      rcases hab with ⟨e1, e2, e3, e4⟩ | ⟨e1, e2, e3, e4⟩
      · have i1 : (b.J = x) ↔ (a.J = relab n p x) := by
          rw [← e2]; exact ⟨fun h => by rw [h], fun h => relab_inj hp h⟩
        have i2 : (b.I = x) ↔ (a.I = relab n p x) := by
          rw [← e1]; exact ⟨fun h => by rw [h], fun h => relab_inj hp h⟩
        rw [hside b.l a.I b.I e1, hside b.r a.J b.J e2, hshare a.J b.J _ _ _ e2, hshare a.I b.I _ _ _ e1, e3, e4]
        simp only [i1, i2]
        rw [hr x]
      · have i1 : (b.J = x) ↔ (a.I = relab n p x) := by
          rw [← e2]; exact ⟨fun h => by rw [h], fun h => relab_inj hp h⟩
        have i2 : (b.I = x) ↔ (a.J = relab n p x) := by
          rw [← e1]; exact ⟨fun h => by rw [h], fun h => relab_inj hp h⟩
        rw [hside b.l a.J b.I e1, hside b.r a.I b.J e2, hshare a.I b.J _ _ _ e2, hshare a.J b.I _ _ _ e1, e3, e4]
        simp only [i1, i2]
        rw [hr x, add_comm (kside n xsA a.r a.J) (kside n xsA a.l a.I)]
        by_cases h1 : a.I = relab n p x
        · have h2 : ¬ a.J = relab n p x := fun e => hneab (h1.trans e.symm)
          simp [h1, h2]
        · simp [h1]

end trav

/-! ### assembling -/

/-- the shares handed down by the preorder pass on the tree UPGMA builds for `rws` -/
def gscAbove (m : Mode) (rws : List Row) : List (Nat × ℚ) :=
  let n := rws.length
  let st := krun n (kinit (α := ℚ) m rws) (n - 1)
  kdown n (kclades n st.nodes.reverse) (kup n st.nodes.reverse) st.nodes

theorem gscRaw_eq (m : Mode) (rws : List Row) :
    gscRaw (α := ℚ) m rws = (List.range rws.length).map (lookupD (gscAbove m rws)) := rfl

theorem replicate_rel {β : Type} {n : Nat} {p : List Nat} (hp : p.Perm (List.range n)) (v d : β) (x : Nat) :
    (Array.replicate n v).getD x d = (Array.replicate n v).getD (relab n p x) d := by
  rw [getD_replicate, getD_replicate]
  by_cases h : x < n
  · rw [if_pos h, if_pos (relab_lt hp h)]
  · rw [relab_ge hp (by omega)]

theorem gscAbove_perm (m : Mode) (rws : List Row) (p : List Nat) (hp : p.Perm (List.range rws.length))
    (htf : TieFree m rws) (hn : 1 ≤ rws.length) (x : Nat) :
    lookupD (gscAbove m (p.map fun i => rws.getD i [])) x = lookupD (gscAbove m rws) (relab rws.length p x) := by
  have hl := p_length hp
  have hlB : (p.map fun i => rws.getD i []).length = rws.length := by simp [hl]
  have R := Rel.run m rws p hp htf (rws.length - 1) (by omega)
  unfold gscAbove
  simp only [hlB]
  generalize krun rws.length (kinit (α := ℚ) m rws) (rws.length - 1) = stA at R
  generalize krun rws.length (kinit (α := ℚ) m (p.map fun i => rws.getD i [])) (rws.length - 1) = stB at R
  have hrev : List.Forall₂ (NodeRel rws.length p) stA.nodes.reverse stB.nodes.reverse :=
    List.forall₂_reverse_iff.mpr R.nodes
  have hcs : ∀ y, (kclades rws.length stB.nodes.reverse).getD y 0 =
      (kclades rws.length stA.nodes.reverse).getD (relab rws.length p y) 0 :=
    clades_rel hp _ _ hrev _ _ rfl (by simp) (replicate_rel hp 1 0)
  have hxs : ∀ y, (kup rws.length stB.nodes.reverse).getD y 0 =
      (kup rws.length stA.nodes.reverse).getD (relab rws.length p y) 0 :=
    up_rel hp _ _ hrev _ _ rfl (by simp) (replicate_rel hp (ofNat 0 : ℚ) 0)
  have hlen : stB.nodes.length = stA.nodes.length := R.nodes.length_eq.symm
  unfold kdown
  rw [hlen]
  exact down_rel hp _ _ _ _ hcs hxs _ _ R.nodes R.nodesA_ne [] [] _ (by omega) (fun _ => rfl) x

/-- raw GSC weights of the relisted alignment: row x of the new list carries what row p[x] carried -/
theorem gscRaw_perm (m : Mode) (rws : List Row) (p : List Nat) (hp : p.Perm (List.range rws.length))
    (htf : TieFree m rws) (hn : 1 ≤ rws.length) :
    gscRaw (α := ℚ) m (p.map fun i => rws.getD i []) = p.map (lookupD (gscAbove m rws)) := by
  have hl := p_length hp
  have hlB : (p.map fun i => rws.getD i []).length = rws.length := by simp [hl]
  rw [gscRaw_eq, hlB]
  conv_rhs => rw [← map_relab_range hp]
  rw [List.map_map]
  apply List.map_congr_left
  intro x _
  exact gscAbove_perm m rws p hp htf hn x

/-- GSC weights follow the rows under relisting when no pass of UPGMA ties -/
theorem gsc_perm (m : Mode) (rws : List Row) (p : List Nat) (hp : p.Perm (List.range rws.length))
    (htf : TieFree m rws) :
    gsc (α := ℚ) m (p.map fun i => rws.getD i []) = p.map (fun i => (gsc (α := ℚ) m rws).getD i 0) := by
  have hl := p_length hp
  have hlB : (p.map fun i => rws.getD i []).length = rws.length := by simp [hl]
  rcases Nat.lt_or_ge rws.length 1 with h0 | h1
  · have : rws.length = 0 := by omega
    have hp0 : p = [] := List.eq_nil_of_length_eq_zero (by omega)
    subst hp0
    simp [gsc, gscRaw, this, normalizeToN, dnorm]
  · by_cases h : rws.length = 1
    · have hpl : p.length = 1 := by omega
      obtain ⟨a, rfl⟩ := List.length_eq_one_iff.mp hpl
      have ha : a = 0 := by
        have := hp.mem_iff.mp (List.mem_singleton.mpr rfl)
        rw [h] at this; simpa using this
      subst ha
      simp [gsc, h]
    · unfold gsc
      simp only [hlB, beq_iff_eq, h, ↓reduceIte]
      rw [gscRaw_perm m rws p hp htf h1, gscRaw_eq, normalizeToN_eq_map, normalizeToN_eq_map]
      have hs : (p.map (lookupD (gscAbove m rws))).sum = ((List.range rws.length).map (lookupD (gscAbove m rws))).sum :=
        (hp.map _).sum_eq
      rw [hs, List.map_map, List.length_map, List.length_map, hl, List.length_range]
      apply List.map_congr_left
      intro i hi
      have hi' : i < rws.length := List.mem_range.mp (hp.mem_iff.mp hi)
      simp only [Function.comp, List.map_map]
      rw [List.getD_eq_getElem?_getD, List.getElem?_map, List.getElem?_range hi']
      rfl

/-! ### identical rows, and a checkable form of the hypothesis -/

def swapIdx (i j x : Nat) : Nat := if x = i then j else if x = j then i else x

theorem swapIdx_invol (i j x : Nat) : swapIdx i j (swapIdx i j x) = x := by
  unfold swapIdx; split_ifs <;> omega

theorem swapIdx_perm (n i j : Nat) (hi : i < n) (hj : j < n) : ((List.range n).map (swapIdx i j)).Perm (List.range n) := by
  have hinj : Function.Injective (swapIdx i j) := fun a b h => by
    have := congrArg (swapIdx i j) h
    rwa [swapIdx_invol, swapIdx_invol] at this
  rw [List.perm_ext_iff_of_nodup (List.nodup_range.map hinj) List.nodup_range]
  intro x
  simp only [List.mem_map, List.mem_range]
  constructor
  · rintro ⟨y, hy, rfl⟩
    unfold swapIdx; split_ifs <;> omega
  · intro hx
    refine ⟨swapIdx i j x, ?_, swapIdx_invol i j x⟩
    unfold swapIdx; split_ifs <;> omega

/-- with no tie in any UPGMA pass, identical rows get identical GSC weights -/
theorem gsc_eq_of_rows_eq (m : Mode) (rws : List Row) (htf : TieFree m rws) (i j : Nat) (hi : i < rws.length)
    (hj : j < rws.length) (h : rws.getD i [] = rws.getD j []) :
    (gsc (α := ℚ) m rws).getD i 0 = (gsc (α := ℚ) m rws).getD j 0 := by
  have hp := swapIdx_perm rws.length i j hi hj
  have hrows : ((List.range rws.length).map (swapIdx i j)).map (fun k => rws.getD k []) = rws := by
    apply List.ext_getElem
    · simp
    · intro k h1 h2
      simp only [List.getElem_map, List.getElem_range]
      have e : rws.getD (swapIdx i j k) [] = rws.getD k [] := by
        unfold swapIdx; split_ifs with h3 h4
        · rw [h3, h]
        · rw [h4, h]
        · rfl
      rw [e, List.getD_eq_getElem?_getD, List.getElem?_eq_getElem h2]; rfl
  have key := gsc_perm m rws _ hp htf
  rw [hrows] at key
  have hlen : (gsc (α := ℚ) m rws).length = rws.length := by
    unfold gsc; split
    · rename_i h1; simp at h1; simp [h1]
    · rw [normalizeToN_length, gscRaw_length]
  have : (gsc (α := ℚ) m rws).getD i 0 =
      (((List.range rws.length).map (swapIdx i j)).map fun k => (gsc (α := ℚ) m rws).getD k 0).getD i 0 := by
    rw [← key]
  rw [this, List.getD_eq_getElem?_getD, List.getElem?_map, List.getElem?_map, List.getElem?_range hi]
  simp [swapIdx]

/-- executable form of `UniqueMin` -/
def uniqueMinB (A : KState ℚ) : Bool :=
  (upperPairs A.act.size).all fun rc =>
    decide (rc.1 = kPosI A ∧ rc.2 = kPosJ A) ||
      decide (kdist A.rows (kI A) (kJ A) < kdist A.rows (A.act.getD rc.1 0) (A.act.getD rc.2 0))

theorem uniqueMin_of_check (A : KState ℚ) (h : uniqueMinB A = true) : UniqueMin A := by
  intro r c hrc hc hne
  unfold uniqueMinB at h
  rw [List.all_eq_true] at h
  have := h (r, c) (mem_upperPairs.mpr ⟨hrc, hc⟩)
  simp only [Bool.or_eq_true, decide_eq_true_eq] at this
  rcases this with h1 | h1
  · exact absurd h1 hne
  · exact h1

/-- executable form of `TieFree` -/
def tieFreeB (m : Mode) (rws : List Row) : Bool :=
  (List.range (rws.length - 1)).all fun k => uniqueMinB (krun rws.length (kinit (α := ℚ) m rws) k)

theorem tieFree_of_check (m : Mode) (rws : List Row) (h : tieFreeB m rws = true) : TieFree m rws := by
  intro k hk
  unfold tieFreeB at h
  rw [List.all_eq_true] at h
  exact uniqueMin_of_check _ (h k (List.mem_range.mpr (by omega)))

end EaselModel.Weights
