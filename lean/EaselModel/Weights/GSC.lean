import EaselModel.Weights.Lemmas
/-! C16 helper lemmas, part 8: GSC weights over `ℚ` are non-negative and sum to N. Every number the UPGMA step and the
    two traversals write is a sum / product / quotient / `max(0,·)` of numbers that are already non-negative. -/
namespace EaselModel.Weights
open WNum

theorem foldl_inv {σ β : Type} (P : σ → Prop) (f : σ → β → σ) (l : List β) (init : σ)
    (h0 : P init) (hstep : ∀ s x, P s → P (f s x)) : P (l.foldl f init) := by
  induction l generalizing init with
  | nil => exact h0
  | cons x xs ih => exact ih _ (hstep _ _ h0)

/-- every entry (and the out-of-range default 0) is ≥ 0 -/
def NN (a : Array ℚ) : Prop := ∀ i, 0 ≤ a.getD i 0

theorem NN.set {a : Array ℚ} (h : NN a) (i : Nat) {v : ℚ} (hv : 0 ≤ v) : NN (a.setIfInBounds i v) := by
  intro j
  have hj := h j
  simp only [Array.getD_eq_getD_getElem?, Array.getElem?_setIfInBounds] at hj ⊢
  split
  · split
    · simpa using hv
    · simp
  · exact hj

theorem NN.replicate (k : Nat) {c : ℚ} (hc : 0 ≤ c) : NN (Array.replicate k c) := by
  intro j
  simp only [Array.getD_eq_getD_getElem?, Array.getElem?_replicate]
  split <;> simp [hc]

theorem NN.mget {D : Array ℚ} (h : NN D) (n r c : Nat) : 0 ≤ mget D n r c := by
  unfold EaselModel.Weights.mget; simpa using h (r * n + c)

theorem NN.vget {x : Array ℚ} (h : NN x) (i : Nat) : 0 ≤ vget x i := by
  unfold EaselModel.Weights.vget; simpa using h i

theorem NN.mset {D : Array ℚ} (h : NN D) (n r c : Nat) {v : ℚ} (hv : 0 ≤ v) : NN (mset D n r c v) := by
  unfold EaselModel.Weights.mset; exact h.set _ hv

theorem max0_nonneg (x : ℚ) : 0 ≤ max0 x := by
  unfold max0
  simp only [ltb_rat, ofNat_rat, Nat.cast_zero, decide_eq_true_eq]
  split
  · exact le_refl 0
  · linarith

/-! ### the distance matrix -/

theorem pid_range' (m : Mode) (a b : Row) : 0 ≤ pid (α := ℚ) m a b ∧ pid (α := ℚ) m a b ≤ 1 := by
  by_cases h : a.length = b.length
  · rw [pid_eq m a b h]; exact ⟨pidSpec_nonneg m a b, pidSpec_le_one m a b⟩
  · unfold pid; rw [pairId_unaligned' m a b h]; simp

theorem diffMx_NN (m : Mode) (rows : List Row) : NN (diffMx (α := ℚ) m rows) := by
  intro i
  simp only [Array.getD_eq_getD_getElem?]
  cases h : (diffMx (α := ℚ) m rows)[i]? with
  | none => simp
  | some v =>
    simp only [Option.getD_some]
    have hm : v ∈ (diffMx (α := ℚ) m rows).toList := by
      rw [Array.getElem?_eq_some_iff] at h
      obtain ⟨hi, rfl⟩ := h
      exact Array.getElem_mem_toList hi
    unfold diffMx at hm
    simp only [List.mem_flatMap, List.mem_map] at hm
    obtain ⟨r, _, c, _, rfl⟩ := hm
    split
    · simp
    · split
      · have := (pid_range' m (rows.getD r []) (rows.getD c [])).2
        simp only [ofNat_rat, Nat.cast_one]; linarith
      · have := (pid_range' m (rows.getD c []) (rows.getD r [])).2
        simp only [ofNat_rat, Nat.cast_one]; linarith

/-! ### cluster_engine -/

theorem swapCols_NN {D : Array ℚ} (h : NN D) (n N a b : Nat) : NN (swapCols D n N a b) := by
  unfold swapCols
  apply foldl_inv NN _ _ _ h
  intro D row hD
  exact (hD.mset _ _ _ (hD.mget _ _ _)).mset _ _ _ (hD.mget _ _ _)

theorem swapRows_NN {D : Array ℚ} (h : NN D) (n N a b : Nat) : NN (swapRows D n N a b) := by
  unfold swapRows
  apply foldl_inv NN _ _ _ h
  intro D col hD
  exact (hD.mset _ _ _ (hD.mget _ _ _)).mset _ _ _ (hD.mget _ _ _)

theorem mergeCols_NN {D : Array ℚ} (h : NN D) (n N ni nj : Nat) : NN (mergeCols D n N ni nj) := by
  unfold mergeCols
  apply foldl_inv NN _ _ _ h
  intro D col hD
  have h1 := hD.mget n (N - 2) col
  have h2 := hD.mget n (N - 1) col
  have hv : 0 ≤ ((ofNat ni : ℚ) * mget D n (N - 2) col + ofNat nj * mget D n (N - 1) col) / ofNat (ni + nj) := by
    simp only [ofNat_rat]; positivity
  exact (hD.mset _ _ _ hv).mset _ _ _ hv

theorem findMin_nonneg {D : Array ℚ} (h : NN D) (n N : Nat) : 0 ≤ (findMin D n N).1 := by
  unfold findMin
  apply foldl_inv (fun st : ℚ × Nat × Nat => 0 ≤ st.1) _ _ _ (h.mget _ _ _)
  intro st row hst
  apply foldl_inv (fun st : ℚ × Nat × Nat => 0 ≤ st.1) _ _ _ hst
  intro st col hst
  split
  · exact h.mget _ _ _
  · exact hst

theorem moveTo_NN {D : Array ℚ} (h : NN D) (n N t p : Nat) : NN (moveTo D n N t p) := by
  unfold moveTo
  split
  · exact swapRows_NN (swapCols_NN h _ _ _ _) _ _ _ _
  · exact h

theorem branchLen_nonneg (h : ℚ) (hh : 0 ≤ h) (height : Array ℚ) (child : Int) : 0 ≤ branchLen h height child := by
  unfold branchLen
  split
  · exact max0_nonneg _
  · exact hh

/-- what the UPGMA loop keeps true -/
structure UInv (st : UState ℚ) : Prop where
  D : NN st.D
  ld : NN st.ld
  rd : NN st.rd

theorem stepH_nonneg (n : Nat) (st : UState ℚ) (step : Nat) (h : NN st.D) : 0 ≤ stepH n st step := by
  have := findMin_nonneg h n (n - step)
  unfold stepH stepMin
  simp only [ofNat_rat]; positivity

theorem upgmaStep_inv (n : Nat) (st : UState ℚ) (step : Nat) (h : UInv st) : UInv (upgmaStep n st step) := by
  refine ⟨?_, ?_, ?_⟩
  · show NN (mergeCols (stepMoved n st step) n (n - step) _ _)
    apply mergeCols_NN
    unfold stepMoved
    exact moveTo_NN (moveTo_NN h.D _ _ _ _) _ _ _ _
  · show NN (st.ld.setIfInBounds _ _)
    exact h.ld.set _ (branchLen_nonneg _ (stepH_nonneg n st step h.D) _ _)
  · show NN (st.rd.setIfInBounds _ _)
    exact h.rd.set _ (branchLen_nonneg _ (stepH_nonneg n st step h.D) _ _)

theorem upgma_NN (n : Nat) (D0 : Array ℚ) (h : NN D0) : NN (upgma n D0).ld ∧ NN (upgma n D0).rd := by
  have : UInv ((List.range (n - 1)).foldl (upgmaStep n) (upgmaInit n D0)) := by
    apply foldl_inv UInv
    · exact ⟨h, NN.replicate _ (by simp), NN.replicate _ (by simp)⟩
    · intro st x hst; exact upgmaStep_inv n st x hst
  exact ⟨this.ld, this.rd⟩

/-! ### the traversals -/

theorem gscUp_NN (T : Tree ℚ) (n : Nat) (hl : NN T.ld) (hr : NN T.rd) : NN (gscUp T n) := by
  unfold gscUp
  apply foldl_inv NN _ _ _ (NN.replicate _ (by simp))
  intro x k hx
  apply hx.set
  have h0 : 0 ≤ vget T.ld (n - 2 - k) + vget T.rd (n - 2 - k) := add_nonneg (hl.vget _) (hr.vget _)
  have h1 : 0 ≤ (if T.left.getD (n - 2 - k) 0 > 0 then vget T.ld (n - 2 - k) + vget T.rd (n - 2 - k) + vget x (T.left.getD (n - 2 - k) 0).toNat
      else vget T.ld (n - 2 - k) + vget T.rd (n - 2 - k)) := by
    split
    · exact add_nonneg h0 (hx.vget _)
    · exact h0
  split
  · exact add_nonneg h1 (hx.vget _)
  · exact h1

theorem sideLen_nonneg {d x : Array ℚ} (hd : NN d) (hx : NN x) (child : Array Int) (i : Nat) : 0 ≤ sideLen d child x i := by
  unfold sideLen
  split
  · exact add_nonneg (hd.vget _) (hx.vget _)
  · exact hd.vget _

theorem share_nonneg (cs : Array Nat) (child : Array Int) (xi mine total : ℚ) (i : Nat)
    (hxi : 0 ≤ xi) (hm : 0 ≤ mine) (ht : 0 ≤ total) : 0 ≤ share cs child xi mine total i := by
  unfold share
  split
  · split <;> (simp only [ofNat_rat]; positivity)
  · positivity

theorem putChild_NN (st : Array ℚ × Array ℚ) (child : Int) (v : ℚ) (h : NN st.1 ∧ NN st.2) (hv : 0 ≤ v) :
    NN (putChild st child v).1 ∧ NN (putChild st child v).2 := by
  unfold putChild
  split
  · exact ⟨h.1, h.2.set _ hv⟩
  · exact ⟨h.1.set _ hv, h.2⟩

theorem gscDownStep_NN (T : Tree ℚ) (cs : Array Nat) (hl : NN T.ld) (hr : NN T.rd) (st : Array ℚ × Array ℚ) (i : Nat)
    (h : NN st.1 ∧ NN st.2) : NN (gscDownStep T cs st i).1 ∧ NN (gscDownStep T cs st i).2 := by
  have hlw := sideLen_nonneg hl h.1 T.left i
  have hrw := sideLen_nonneg hr h.1 T.right i
  have hxi := h.1.vget i
  have ht := add_nonneg hlw hrw
  unfold gscDownStep
  simp only []
  apply putChild_NN
  · apply putChild_NN _ _ _ h
    exact add_nonneg (share_nonneg _ _ _ _ _ _ hxi hlw ht) (hl.vget i)
  · exact add_nonneg (share_nonneg _ _ _ _ _ _ hxi hrw ht) (hr.vget i)

theorem gscTraverse_NN (T : Tree ℚ) (n : Nat) (hl : NN T.ld) (hr : NN T.rd) : NN (gscTraverse T n) := by
  unfold gscTraverse
  have := foldl_inv (fun st : Array ℚ × Array ℚ => NN st.1 ∧ NN st.2) (gscDownStep T (cladesizes T n))
    (List.range (n - 1)) (((gscUp T n).setIfInBounds 0 (ofNat 0)), Array.replicate n (ofNat 1))
    ⟨(gscUp_NN T n hl hr).set 0 (by simp), NN.replicate _ (by simp)⟩
    (fun st i h => gscDownStep_NN T _ hl hr st i h)
  exact this.2

theorem gscRaw_nonneg (m : Mode) (rows : List Row) : ∀ w ∈ gscRaw (α := ℚ) m rows, 0 ≤ w := by
  intro w hw
  unfold gscRaw at hw
  simp only [List.mem_map] at hw
  obtain ⟨i, _, rfl⟩ := hw
  have hT := upgma_NN rows.length (diffMx (α := ℚ) m rows) (diffMx_NN m rows)
  exact (gscTraverse_NN _ _ hT.1 hT.2).vget i

theorem gscRaw_length (m : Mode) (rows : List Row) : (gscRaw (α := ℚ) m rows).length = rows.length := by
  unfold gscRaw; simp

/-- GSC weights are ≥ 0 -/
theorem gsc_nonneg' (m : Mode) (rows : List Row) : ∀ w ∈ gsc (α := ℚ) m rows, 0 ≤ w := by
  unfold gsc
  split
  · intro w hw; simp at hw; subst hw; exact zero_le_one
  · exact normalizeToN_nonneg _ (gscRaw_nonneg m rows)

/-- GSC weights sum to N -/
theorem gsc_sum' (m : Mode) (rows : List Row) (hne : rows ≠ []) : (gsc (α := ℚ) m rows).sum = rows.length := by
  unfold gsc
  split
  · rename_i h; simp at h; simp [h]
  · rw [normalizeToN_sum, gscRaw_length]
    intro h
    have := gscRaw_length m rows
    rw [h] at this
    exact hne (List.eq_nil_of_length_eq_zero this.symm)

end EaselModel.Weights
