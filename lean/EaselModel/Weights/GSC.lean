import EaselModel.Weights.Lemmas
/-! C16 helper lemmas, part 8: GSC weights over `ℚ` are non-negative and sum to N. Every number the UPGMA step and the
    two traversals write is a sum / product / quotient / `max(0,·)` of numbers that are already non-negative. -/
namespace EaselModel.Weights
open WNum

theorem foldl_inv {σ β : Type} (P : σ → Prop) (f : σ → β → σ) (l : List β) (init : σ)
    (h0 : P init) (hstep : ∀ s x, P s → P (f s x)) : P (l.foldl f init) := by
  induction l generalizing init with
  | nil => exact h0
  | cons x xs ih => exact ih _ (hstep _ _ h0)

/-- every entry (and the out-of-range default 0) is ≥ 0 -/
def NN (a : Array ℚ) : Prop := ∀ i, 0 ≤ a.getD i 0

theorem NN.set {a : Array ℚ} (h : NN a) (i : Nat) {v : ℚ} (hv : 0 ≤ v) : NN (a.setIfInBounds i v) := by
  intro j
  have hj := h j
  simp only [Array.getD_eq_getD_getElem?, Array.getElem?_setIfInBounds] at hj ⊢
  split
  · split
    · simpa using hv
    · simp
  · exact hj

theorem NN.replicate (k : Nat) {c : ℚ} (hc : 0 ≤ c) : NN (Array.replicate k c) := by
  intro j
  simp only [Array.getD_eq_getD_getElem?, Array.getElem?_replicate]
  split <;> simp [hc]

theorem NN.vget {x : Array ℚ} (h : NN x) (i : Nat) : 0 ≤ vget x i := by
  unfold EaselModel.Weights.vget; simpa using h i

theorem NN.push {a : Array ℚ} (h : NN a) {v : ℚ} (hv : 0 ≤ v) : NN (a.push v) := by
  intro j
  have hj := h j
  simp only [Array.getD_eq_getD_getElem?, Array.getElem?_push] at hj ⊢
  split
  · simpa using hv
  · exact hj

theorem max0_nonneg (x : ℚ) : 0 ≤ max0 x := by
  unfold max0
  simp only [ltb_rat, ofNat_rat, Nat.cast_zero, decide_eq_true_eq]
  split
  · exact le_refl 0
  · linarith

/-! ### the distance matrix -/

theorem pid_range' (m : Mode) (a b : Row) : 0 ≤ pid (α := ℚ) m a b ∧ pid (α := ℚ) m a b ≤ 1 := by
  by_cases h : a.length = b.length
  · rw [pid_eq m a b h]; exact ⟨pidSpec_nonneg m a b, pidSpec_le_one m a b⟩
  · unfold pid; rw [pairId_unaligned' m a b h]; simp

/-- every stored distance (and every default) is ≥ 0 -/
def RowsNN (rows : Array (Array ℚ)) : Prop := ∀ y x, 0 ≤ (rows.getD y #[]).getD x 0

theorem RowsNN.kdist {rows : Array (Array ℚ)} (h : RowsNN rows) (x y : Nat) : 0 ≤ kdist rows x y := by
  unfold EaselModel.Weights.kdist
  split
  · simpa using h y x
  · simpa using h x y

theorem RowsNN.push {rows : Array (Array ℚ)} (h : RowsNN rows) {r : Array ℚ} (hr : ∀ x, 0 ≤ r.getD x 0) :
    RowsNN (rows.push r) := by
  intro y x
  have hy := h y x
  simp only [Array.getD_eq_getD_getElem?, Array.getElem?_push] at hy ⊢
  split
  · simpa [Array.getD_eq_getD_getElem?] using hr x
  · exact hy

theorem kinit_RowsNN (m : Mode) (rws : List Row) : RowsNN (kinit (α := ℚ) m rws).rows := by
  intro y x
  unfold kinit
  simp only [Array.getD_eq_getD_getElem?, List.getElem?_toArray, List.getElem?_map]
  cases h1 : (List.range rws.length)[y]? with
  | none => simp
  | some y' =>
    simp only [Option.map_some, Option.getD_some, List.getElem?_toArray, List.getElem?_map]
    cases h2 : (List.range y')[x]? with
    | none => simp
    | some x' =>
      simp only [Option.map_some, Option.getD_some, ofNat_rat, Nat.cast_one]
      have := (pid_range' m (rws.getD x' []) (rws.getD y' [])).2
      linarith

theorem kfindMin_nonneg {rows : Array (Array ℚ)} (h : RowsNN rows) (act : Array Nat) : 0 ≤ (kfindMin rows act).1 := by
  unfold kfindMin
  apply foldl_inv (fun st : ℚ × Nat × Nat => 0 ≤ st.1) _ _ _ (h.kdist _ _)
  intro st rc hst
  split
  · exact h.kdist _ _
  · exact hst

theorem kH_nonneg (st : KState ℚ) (h : RowsNN st.rows) : 0 ≤ kH st := by
  have := kfindMin_nonneg h st.act
  unfold kH kMin
  simp only [ofNat_rat]; positivity

theorem kbranch_nonneg (n : Nat) (h : ℚ) (hh : 0 ≤ h) (hgt : Array ℚ) (c : Nat) : 0 ≤ kbranch n h hgt c := by
  unfold kbranch
  split
  · exact max0_nonneg _
  · exact hh

theorem kRow_nonneg (st : KState ℚ) (h : RowsNN st.rows) : ∀ x, 0 ≤ (kRow st).getD x 0 := by
  intro x
  unfold kRow
  simp only [Array.getD_eq_getD_getElem?, Array.getElem?_map]
  cases hx : (Array.range st.rows.size)[x]? with
  | none => simp
  | some x' =>
    simp only [Option.map_some, Option.getD_some, kmerged, ofNat_rat]
    have h1 := h.kdist (kI st) x'
    have h2 := h.kdist (kJ st) x'
    positivity

/-- what the UPGMA loop keeps true -/
structure KInv (st : KState ℚ) : Prop where
  rows : RowsNN st.rows
  nodes : ∀ nd ∈ st.nodes, 0 ≤ nd.l ∧ 0 ≤ nd.r

theorem kstep_inv (n : Nat) (st : KState ℚ) (h : KInv st) : KInv (kstep n st) := by
  refine ⟨?_, ?_⟩
  · show RowsNN (st.rows.push (kRow st))
    exact h.rows.push (kRow_nonneg st h.rows)
  · intro nd hnd
    have hnd' : nd ∈ (⟨kI st, kJ st, kbranch n (kH st) st.hgt (kI st), kbranch n (kH st) st.hgt (kJ st)⟩ : KNode ℚ) :: st.nodes := hnd
    rcases List.mem_cons.mp hnd' with rfl | h'
    · exact ⟨kbranch_nonneg _ _ (kH_nonneg st h.rows) _ _, kbranch_nonneg _ _ (kH_nonneg st h.rows) _ _⟩
    · exact h.nodes nd h'

theorem krun_inv (n : Nat) (st : KState ℚ) (h : KInv st) (k : Nat) : KInv (krun n st k) := by
  induction k with
  | zero => exact h
  | succ k ih => exact kstep_inv n _ ih

/-! ### the traversals -/

theorem kup_NN (n : Nat) (created : List (KNode ℚ)) (h : ∀ nd ∈ created, 0 ≤ nd.l ∧ 0 ≤ nd.r) : NN (kup n created) := by
  unfold kup
  induction created using List.reverseRecOn with
  | nil => exact NN.replicate _ (by simp)
  | append_singleton cr nd ih =>
    rw [List.foldl_append]
    have hx := ih (fun x hx => h x (by simp [hx]))
    have hnd := h nd (by simp)
    simp only [List.foldl_cons, List.foldl_nil]
    apply hx.push
    have h0 : 0 ≤ nd.l + nd.r := add_nonneg hnd.1 hnd.2
    split <;> split <;> first
      | exact add_nonneg (add_nonneg h0 (hx.vget _)) (hx.vget _)
      | exact add_nonneg h0 (hx.vget _)
      | exact h0

theorem lookupD_nonneg (l : List (Nat × ℚ)) (h : ∀ p ∈ l, 0 ≤ p.2) (x : Nat) : 0 ≤ lookupD l x := by
  unfold lookupD
  cases hf : l.find? (fun p => p.1 == x) with
  | none => simp
  | some p => exact h p (List.mem_of_find?_eq_some hf)

theorem kside_nonneg (n : Nat) {xs : Array ℚ} (hx : NN xs) {d : ℚ} (hd : 0 ≤ d) (child : Nat) : 0 ≤ kside n xs d child := by
  unfold kside
  split
  · exact add_nonneg hd (hx.vget _)
  · exact hd

theorem kshare_nonneg (n : Nat) (cs : Array Nat) (child c : Nat) (xi mine total : ℚ)
    (hxi : 0 ≤ xi) (hm : 0 ≤ mine) (ht : 0 ≤ total) : 0 ≤ kshare n cs child c xi mine total := by
  unfold kshare
  split
  · split <;> (simp only [ofNat_rat]; positivity)
  · positivity

theorem kdown_nonneg (n : Nat) (cs : Array Nat) (xs : Array ℚ) (hx : NN xs) (nodes : List (KNode ℚ))
    (h : ∀ nd ∈ nodes, 0 ≤ nd.l ∧ 0 ≤ nd.r) : ∀ p ∈ kdown n cs xs nodes, 0 ≤ p.2 := by
  unfold kdown
  generalize (n + nodes.length - 1) = c0
  suffices H : ∀ (init : List (Nat × ℚ) × Nat), (∀ p ∈ init.1, 0 ≤ p.2) →
      ∀ p ∈ (nodes.foldl (kdownStep n cs xs) init).1, 0 ≤ p.2 from H ([], c0) (by simp)
  induction nodes with
  | nil => intro init hi; simpa using hi
  | cons nd rest ih =>
    intro init hi
    rw [List.foldl_cons]
    apply ih (fun x hx => h x (by simp [hx]))
    have hnd := h nd (by simp)
    have hxi := lookupD_nonneg init.1 hi init.2
    have hlw := kside_nonneg n hx hnd.1 nd.I
    have hrw := kside_nonneg n hx hnd.2 nd.J
    have ht := add_nonneg hlw hrw
    intro p hp
    unfold kdownStep at hp
    simp only [List.mem_cons] at hp
    rcases hp with rfl | rfl | hp
    · exact add_nonneg (kshare_nonneg _ _ _ _ _ _ _ hxi hrw ht) hnd.2
    · exact add_nonneg (kshare_nonneg _ _ _ _ _ _ _ hxi hlw ht) hnd.1
    · exact hi p hp

theorem gscRaw_nonneg (m : Mode) (rows : List Row) : ∀ w ∈ gscRaw (α := ℚ) m rows, 0 ≤ w := by
  intro w hw
  unfold gscRaw at hw
  simp only [List.mem_map] at hw
  obtain ⟨i, _, rfl⟩ := hw
  have inv := krun_inv rows.length (kinit (α := ℚ) m rows) ⟨kinit_RowsNN m rows, by intro nd h; simp [kinit] at h⟩ (rows.length - 1)
  apply lookupD_nonneg
  apply kdown_nonneg
  · exact kup_NN _ _ (fun nd hnd => inv.nodes nd (List.mem_reverse.mp hnd))
  · exact inv.nodes

theorem gscRaw_length (m : Mode) (rows : List Row) : (gscRaw (α := ℚ) m rows).length = rows.length := by
  unfold gscRaw; simp

/-- GSC weights are ≥ 0 -/
theorem gsc_nonneg' (m : Mode) (rows : List Row) : ∀ w ∈ gsc (α := ℚ) m rows, 0 ≤ w := by
  unfold gsc
  split
  · intro w hw; simp at hw; subst hw; exact zero_le_one
  · exact normalizeToN_nonneg _ (gscRaw_nonneg m rows)

/-- GSC weights sum to N -/
theorem gsc_sum' (m : Mode) (rows : List Row) (hne : rows ≠ []) : (gsc (α := ℚ) m rows).sum = rows.length := by
  unfold gsc
  split
  · rename_i h; simp at h; simp [h]
  · rw [normalizeToN_sum, gscRaw_length]
    intro h
    have := gscRaw_length m rows
    rw [h] at this
    exact hne (List.eq_nil_of_length_eq_zero this.symm)

end EaselModel.Weights
