import EaselModel.Weights.Lemmas
import Mathlib.Data.List.Range
/-! C16 helper lemmas, part 13: the %id filter prefers what comes first in the preference order: a dropped row is always
    linked to a row that was tried BEFORE it and kept. -/
namespace EaselModel.Weights

theorem filterGreedy_append (link : Nat → Nat → Bool) (l1 l2 list : List Nat) :
    filterGreedy link (l1 ++ l2) list = filterGreedy link l2 (filterGreedy link l1 list) := by
  induction l1 generalizing list with
  | nil => rfl
  | cons r rest ih =>
    simp only [List.cons_append, filterGreedy]
    split <;> exact ih _

theorem filterGreedy_dropped_by_earlier (link : Nat → Nat → Bool) (pre post : List Nat) (r : Nat)
    (h : r ∉ filterGreedy link (pre ++ r :: post) []) :
    ∃ k ∈ filterGreedy link pre [], link r k = true ∧ k ∈ filterGreedy link (pre ++ r :: post) [] := by
  rw [filterGreedy_append] at h ⊢
  rw [filterGreedy] at h ⊢
  split at h
  · rename_i hany
    rw [if_pos hany]
    simp only [List.any_eq_true] at hany
    obtain ⟨k, hk, hl⟩ := hany
    exact ⟨k, hk, hl, filterGreedy_mono link post _ k hk⟩
  · exact absurd (filterGreedy_mono link post _ r (by simp)) h

theorem range_split (r n : Nat) (h : r < n) :
    List.range n = List.range r ++ r :: List.range' (r + 1) (n - (r + 1)) := by
  apply List.ext_getElem
  · simp; omega
  · intro i h1 h2
    simp only [List.getElem_range, List.getElem_append, List.length_range, List.getElem_cons, List.getElem_range']
    split
    · rfl
    · split
      · omega
      · omega

/-- text mode: a dropped row reaches the threshold with a kept row of SMALLER index ("keep the earlier sequence") -/
theorem idFilterText_dropped_by_earlier (maxid : ℚ) (rows : List Row) (r : Nat) (hr : r < rows.length)
    (h : r ∉ idFilterText maxid rows) :
    ∃ k ∈ idFilterText maxid rows, k < r ∧ maxid ≤ pid (α := ℚ) Mode.text (rows.getD r []) (rows.getD k []) := by
  unfold idFilterText idFilterOrder at h ⊢
  have hsplit := range_split r rows.length hr
  rw [hsplit] at h ⊢
  obtain ⟨k, hk, hl, hkept⟩ := filterGreedy_dropped_by_earlier _ _ _ r h
  refine ⟨k, hkept, ?_, by simpa [linked] using hl⟩
  rcases filterGreedy_subset _ _ _ k hk with h' | h'
  · simp at h'
  · exact List.mem_range.mp h'

/-- when every pair is linked nothing is added to a non-empty kept list -/
theorem filterGreedy_all_linked (link : Nat → Nat → Bool) (hl : ∀ r k, link r k = true) (order : List Nat) (x : Nat)
    (list : List Nat) : filterGreedy link order (x :: list) = x :: list := by
  induction order with
  | nil => rfl
  | cons r rest ih => simp only [filterGreedy, List.any_cons, hl, Bool.true_or, if_true]; exact ih

end EaselModel.Weights
