import EaselModel.Weights.Model
import Mathlib.Data.List.Basic
import Mathlib.Data.List.Perm.Basic
import Mathlib.Data.List.Nodup
import Mathlib.Data.List.Range
/-! C16 helper lemmas, part 2: `esl_cluster_SingleLinkage` returns the connected components of the link graph. -/
namespace EaselModel.Weights

/-- `w` can be reached from `u` along links between vertices `< n` -/
inductive Reach (link : Nat → Nat → Bool) (n : Nat) : Nat → Nat → Prop
  | refl (x : Nat) : Reach link n x x
  | step {x y z : Nat} : Reach link n x y → y < n → z < n → link y z = true → Reach link n x z

namespace Reach
variable {link : Nat → Nat → Bool} {n : Nat}

theorem trans {x y z : Nat} (h1 : Reach link n x y) (h2 : Reach link n y z) : Reach link n x z := by
  induction h2 with
  | refl => exact h1
  | step _ hy hz hl ih => exact Reach.step ih hy hz hl

theorem single {x y : Nat} (hx : x < n) (hy : y < n) (hl : link x y = true) : Reach link n x y :=
  Reach.step (Reach.refl x) hx hy hl

theorem symm (hsym : ∀ x y, link x y = link y x) {x y : Nat} (hx : x < n) (h : Reach link n x y) : Reach link n y x := by
  induction h with
  | refl => exact Reach.refl _
  | step _ hy hz hl ih => exact (single hz hy (by rw [hsym]; exact hl)).trans ih

theorem lt_of_lt {x y : Nat} (hx : x < n) (h : Reach link n x y) : y < n := by
  cases h with
  | refl => exact hx
  | step _ _ hz _ => exact hz
end Reach

/-! ### the scan of the available list -/

theorem rot_perm (K : List Nat) : (rot K).Perm K := by
  cases K with
  | nil => exact List.Perm.refl _
  | cons k ks => simpa [rot] using (List.perm_append_comm : (ks ++ [k]).Perm ([k] ++ ks))

theorem slScan_perm (link : Nat → Nat → Bool) (v : Nat) (R K M : List Nat) :
    ((slScan link v R K M).1 ++ (slScan link v R K M).2).Perm (K ++ M ++ R) := by
  induction R generalizing K M with
  | nil => simp [slScan]
  | cons x R ih =>
    simp only [slScan]
    split
    · refine (ih (rot K) (M ++ [x])).trans ?_
      have h1 : (rot K ++ (M ++ [x]) ++ R).Perm (K ++ (M ++ [x]) ++ R) :=
        ((rot_perm K).append_right _).append_right _
      refine h1.trans ?_
      simp only [List.append_assoc, List.singleton_append]
      exact List.Perm.refl _
    · refine (ih (K ++ [x]) M).trans ?_
      simp only [List.append_assoc, List.singleton_append]
      refine List.Perm.append_left K ?_
      exact (List.perm_middle (l₁ := M) (l₂ := R) (a := x)).symm.trans (by simp)

theorem mem_rot {K : List Nat} {x : Nat} : x ∈ rot K ↔ x ∈ K := (rot_perm K).mem_iff

theorem slScan_fst (link : Nat → Nat → Bool) (v : Nat) (R K M : List Nat) :
    ∀ x ∈ (slScan link v R K M).1, x ∈ K ∨ (x ∈ R ∧ link v x = false) := by
  induction R generalizing K M with
  | nil => intro x hx; exact Or.inl (by simpa [slScan] using hx)
  | cons y R ih =>
    intro x hx
    simp only [slScan] at hx
    split at hx
    · rcases ih _ _ x hx with h | ⟨h, hl⟩
      · exact Or.inl (mem_rot.mp h)
      · exact Or.inr ⟨by simp [h], hl⟩
    · rename_i hn
      rcases ih _ _ x hx with h | ⟨h, hl⟩
      · simp only [List.mem_append, List.mem_singleton] at h
        rcases h with h | rfl
        · exact Or.inl h
        · exact Or.inr ⟨by simp, by simpa using hn⟩
      · exact Or.inr ⟨by simp [h], hl⟩

theorem slScan_snd (link : Nat → Nat → Bool) (v : Nat) (R K M : List Nat) :
    ∀ x ∈ (slScan link v R K M).2, x ∈ M ∨ (x ∈ R ∧ link v x = true) := by
  induction R generalizing K M with
  | nil => intro x hx; exact Or.inl (by simpa [slScan] using hx)
  | cons y R ih =>
    intro x hx
    simp only [slScan] at hx
    split at hx
    · rename_i hy
      rcases ih _ _ x hx with h | ⟨h, hl⟩
      · simp only [List.mem_append, List.mem_singleton] at h
        rcases h with h | rfl
        · exact Or.inl h
        · exact Or.inr ⟨by simp, hy⟩
      · exact Or.inr ⟨by simp [h], hl⟩
    · rcases ih _ _ x hx with h | ⟨h, hl⟩
      · exact Or.inl h
      · exact Or.inr ⟨by simp [h], hl⟩

/-! ### growing one cluster -/

theorem slGrow_perm (link : Nat → Nat → Bool) (b a done : List Nat) :
    ((slGrow link b a done).1 ++ (slGrow link b a done).2).Perm (done ++ b ++ a) := by
  fun_induction slGrow link b a done with
  | case1 a done => simp
  | case2 v b a done ih =>
    refine ih.trans ?_
    have hs := slScan_perm link v a [] []
    simp only [List.nil_append] at hs
    -- (done ++ [v]) ++ (mv.reverse ++ b) ++ a'  ~  done ++ (v :: b) ++ a
    have h1 : ((slScan link v a [] []).2.reverse ++ b ++ (slScan link v a [] []).1).Perm (b ++ a) := by
      have : ((slScan link v a [] []).2.reverse ++ b ++ (slScan link v a [] []).1).Perm
          (b ++ ((slScan link v a [] []).1 ++ (slScan link v a [] []).2)) := by
        rw [List.append_assoc]
        refine (List.perm_append_comm).trans ?_
        rw [List.append_assoc]
        refine List.Perm.append_left b ?_
        exact List.Perm.append_left _ (List.reverse_perm _)
      exact this.trans (List.Perm.append_left b hs)
    simp only [List.append_assoc, List.singleton_append, List.cons_append] at h1 ⊢
    exact List.Perm.append_left done (List.Perm.cons v h1)

theorem slGrow_mem (link : Nat → Nat → Bool) (b a done : List Nat) :
    ∀ x, (x ∈ done ∨ x ∈ b) → x ∈ (slGrow link b a done).1 := by
  fun_induction slGrow link b a done with
  | case1 a done => intro x hx; simpa using hx
  | case2 v b a done ih =>
    intro x hx
    apply ih
    rcases hx with h | h
    · exact Or.inl (by simp [h])
    · rcases List.mem_cons.mp h with rfl | h
      · exact Or.inl (by simp)
      · exact Or.inr (by simp [h])

/-- everything put into the cluster is reachable from the seed -/
theorem slGrow_reach (link : Nat → Nat → Bool) (n s : Nat) (b a done : List Nat)
    (hb : ∀ x ∈ b, x < n) (ha : ∀ x ∈ a, x < n)
    (hr : ∀ x, (x ∈ done ∨ x ∈ b) → Reach link n s x) :
    ∀ x ∈ (slGrow link b a done).1, Reach link n s x := by
  fun_induction slGrow link b a done with
  | case1 a done => intro x hx; exact hr x (Or.inl (by simpa using hx))
  | case2 v b a done ih =>
    apply ih
    · intro x hx
      simp only [List.mem_append, List.mem_reverse] at hx
      rcases hx with h | h
      · rcases slScan_snd link v a [] [] x h with h' | ⟨h', _⟩
        · simp at h'
        · exact ha x h'
      · exact hb x (by simp [h])
    · intro x hx
      rcases slScan_fst link v a [] [] x hx with h' | ⟨h', _⟩
      · simp at h'
      · exact ha x h'
    · intro x hx
      simp only [List.mem_append, List.mem_singleton, List.mem_reverse] at hx
      rcases hx with (h | rfl) | h | h
      · exact hr x (Or.inl h)
      · exact hr x (Or.inr (by simp))
      · rcases slScan_snd link v a [] [] x h with h' | ⟨h', hl⟩
        · simp at h'
        · exact Reach.step (hr v (Or.inr (by simp))) (hb v (by simp)) (ha x h') hl
      · exact hr x (Or.inr (by simp [h]))

theorem slGrow_snd_subset (link : Nat → Nat → Bool) (b a done : List Nat) :
    ∀ y ∈ (slGrow link b a done).2, y ∈ a := by
  fun_induction slGrow link b a done with
  | case1 a done => intro y hy; simpa using hy
  | case2 v b a done ih =>
    intro y hy
    rcases slScan_fst link v a [] [] y (ih y hy) with h' | ⟨h', _⟩
    · simp at h'
    · exact h'

/-- nothing left in the available list is linked to a member of the finished cluster -/
theorem slGrow_closed (link : Nat → Nat → Bool) (b a done : List Nat)
    (h : ∀ x ∈ done, ∀ y ∈ a, link x y = false) :
    ∀ x ∈ (slGrow link b a done).1, ∀ y ∈ (slGrow link b a done).2, link x y = false := by
  fun_induction slGrow link b a done with
  | case1 a done => simpa using h
  | case2 v b a done ih =>
    apply ih
    intro x hx y hy
    rcases slScan_fst link v a [] [] y hy with h' | ⟨hya, hl⟩
    · simp at h'
    · rcases List.mem_append.mp hx with hx | hx
      · exact h x hx y hya
      · simp only [List.mem_singleton] at hx
        subst hx; exact hl

/-! ### the outer loop -/

structure ClInv (link : Nat → Nat → Bool) (n : Nat) (a : List Nat) (acc : List (List Nat)) : Prop where
  perm : (acc.flatten ++ a).Perm (List.range n)
  closed : ∀ cl ∈ acc, ∀ x ∈ cl, ∀ y ∈ a, link x y = false
  comp : ∀ cl ∈ acc, ∀ u ∈ cl, ∀ w, w < n → (w ∈ cl ↔ Reach link n u w)
  ne : ∀ cl ∈ acc, cl ≠ []

theorem ClInv.step {link : Nat → Nat → Bool} {n : Nat} (hsym : ∀ x y, link x y = link y x)
    {s : Nat} {a : List Nat} {acc : List (List Nat)} (inv : ClInv link n (s :: a) acc) :
    ClInv link n (slGrow link [s] a []).2 (acc ++ [(slGrow link [s] a []).1]) := by
  have gp := slGrow_perm link [s] a []
  simp only [List.nil_append, List.singleton_append] at gp
  have hlt : ∀ x ∈ s :: a, x < n := by
    intro x hx
    have : x ∈ acc.flatten ++ s :: a := List.mem_append_right _ hx
    exact List.mem_range.mp (inv.perm.mem_iff.mp this)
  have hs : s < n := hlt s (by simp)
  have ha : ∀ x ∈ a, x < n := fun x hx => hlt x (by simp [hx])
  have hcl_sub : ∀ x ∈ (slGrow link [s] a []).1, x ∈ s :: a := by
    intro x hx; exact gp.mem_iff.mp (List.mem_append_left _ hx)
  have hreach : ∀ x ∈ (slGrow link [s] a []).1, Reach link n s x :=
    slGrow_reach link n s [s] a [] (by intro x hx; simp at hx; subst hx; exact hs) ha
      (by intro x hx; rcases hx with h | h
          · simp at h
          · simp at h; subst h; exact Reach.refl _)
  have hclosed := slGrow_closed link [s] a [] (by intro x hx; simp at hx)
  have newperm : ((acc ++ [(slGrow link [s] a []).1]).flatten ++ (slGrow link [s] a []).2).Perm (List.range n) := by
    simp only [List.flatten_append, List.flatten_cons, List.flatten_nil, List.append_nil, List.append_assoc]
    exact (List.Perm.append_left acc.flatten gp).trans inv.perm
  refine ⟨newperm, ?_, ?_, ?_⟩
  · intro cl hcl x hx y hy
    rcases List.mem_append.mp hcl with hcl | hcl
    · exact inv.closed cl hcl x hx y (List.mem_cons_of_mem _ (slGrow_snd_subset link [s] a [] y hy))
    · simp only [List.mem_singleton] at hcl; subst hcl
      exact hclosed x hx y hy
  · intro cl hcl u hu w hw
    rcases List.mem_append.mp hcl with hcl | hcl
    · exact inv.comp cl hcl u hu w hw
    · simp only [List.mem_singleton] at hcl; subst hcl
      constructor
      · intro hwc
        exact (Reach.symm hsym hs (hreach u hu)).trans (hreach w hwc)
      · intro hr
        induction hr with
        | refl => exact hu
        | step hxy hy hz hl ih =>
          rename_i y z
          have hyc := ih hy
          have hz' : z ∈ (acc ++ [(slGrow link [s] a []).1]).flatten ++ (slGrow link [s] a []).2 :=
            newperm.mem_iff.mpr (List.mem_range.mpr hz)
          simp only [List.flatten_append, List.flatten_cons, List.flatten_nil, List.append_nil, List.mem_append] at hz'
          rcases hz' with (hz' | hz') | hz'
          · obtain ⟨cl0, hcl0, hzcl0⟩ := List.mem_flatten.mp hz'
            have := inv.closed cl0 hcl0 z hzcl0 y (hcl_sub y hyc)
            rw [hsym] at this; rw [this] at hl; exact absurd hl (by simp)
          · exact hz'
          · have := hclosed y hyc z hz'
            rw [this] at hl; exact absurd hl (by simp)
  · intro cl hcl
    rcases List.mem_append.mp hcl with hcl | hcl
    · exact inv.ne cl hcl
    · simp only [List.mem_singleton] at hcl; subst hcl
      have := slGrow_mem link [s] a [] s (Or.inr (by simp))
      exact List.ne_nil_of_mem this

theorem slClusters_inv {link : Nat → Nat → Bool} {n : Nat} (hsym : ∀ x y, link x y = link y x)
    (a : List Nat) (acc : List (List Nat)) (inv : ClInv link n a acc) :
    ClInv link n [] (slClusters link a acc) := by
  fun_induction slClusters link a acc with
  | case1 acc => exact inv
  | case2 s a acc ih => exact ih (inv.step hsym)

/-- `esl_cluster_SingleLinkage` for a symmetric link relation: the clusters partition the vertices, none is empty, and
    each is exactly the set of vertices reachable from any of its members -/
theorem singleLinkage_inv {link : Nat → Nat → Bool} (hsym : ∀ x y, link x y = link y x) (n : Nat) :
    ClInv link n [] (singleLinkage link n) := by
  apply slClusters_inv hsym
  exact ⟨by simp, by intro cl h; simp at h, by intro cl h; simp at h, by intro cl h; simp at h⟩

/-! ### the assignment array -/

theorem clusterIndex_spec (cls : List (List Nat)) (hnd : cls.flatten.Nodup) (v : Nat) (hv : v ∈ cls.flatten) :
    ∃ h : clusterIndex cls v < cls.length, v ∈ cls[clusterIndex cls v] ∧
      ∀ j (hj : j < cls.length), v ∈ cls[j] → j = clusterIndex cls v := by
  obtain ⟨cl, hcl, hvcl⟩ := List.mem_flatten.mp hv
  have hlt : clusterIndex cls v < cls.length := by
    unfold clusterIndex
    exact List.findIdx_lt_length_of_exists ⟨cl, hcl, by simpa using hvcl⟩
  have hmem : v ∈ cls[clusterIndex cls v] := by
    have := List.findIdx_getElem (p := fun c : List Nat => c.contains v) (xs := cls) (w := hlt)
    simpa [clusterIndex] using this
  refine ⟨hlt, hmem, ?_⟩
  intro j hj hvj
  by_contra hne
  have hpw := (List.nodup_flatten.mp hnd).2
  rw [List.pairwise_iff_getElem] at hpw
  rcases Nat.lt_or_gt_of_ne hne with h | h
  · exact (hpw j _ hj hlt h) hvj hmem
  · exact (hpw _ j hlt hj h) hmem hvj

/-- two vertices get the same cluster number iff they are connected -/
theorem assignment_eq_iff {link : Nat → Nat → Bool} (hsym : ∀ x y, link x y = link y x) (n u w : Nat)
    (hu : u < n) (hw : w < n) :
    clusterIndex (singleLinkage link n) u = clusterIndex (singleLinkage link n) w ↔ Reach link n u w := by
  have inv := singleLinkage_inv hsym n
  have hperm := inv.perm
  simp only [List.append_nil] at hperm
  have hnd : (singleLinkage link n).flatten.Nodup := hperm.nodup_iff.mpr List.nodup_range
  have hmem : ∀ x, x < n → x ∈ (singleLinkage link n).flatten := fun x hx => hperm.mem_iff.mpr (List.mem_range.mpr hx)
  obtain ⟨hul, hum, huu⟩ := clusterIndex_spec _ hnd u (hmem u hu)
  obtain ⟨hwl, hwm, hwu⟩ := clusterIndex_spec _ hnd w (hmem w hw)
  constructor
  · intro e
    have hwm' : w ∈ (singleLinkage link n)[clusterIndex (singleLinkage link n) u] := by
      simp only [e]; exact hwm
    exact (inv.comp _ (List.getElem_mem hul) u hum w hw).mp hwm'
  · intro hr
    have := (inv.comp _ (List.getElem_mem hul) u hum w hw).mpr hr
    exact hwu _ hul this

/-- cluster numbers are `< nc`, and every number `< nc` is used -/
theorem assignment_range {link : Nat → Nat → Bool} (hsym : ∀ x y, link x y = link y x) (n : Nat) :
    (∀ u, u < n → clusterIndex (singleLinkage link n) u < (singleLinkage link n).length) ∧
    (∀ k, k < (singleLinkage link n).length → ∃ u, u < n ∧ clusterIndex (singleLinkage link n) u = k) := by
  have inv := singleLinkage_inv hsym n
  have hperm := inv.perm
  simp only [List.append_nil] at hperm
  have hnd : (singleLinkage link n).flatten.Nodup := hperm.nodup_iff.mpr List.nodup_range
  constructor
  · intro u hu
    obtain ⟨h, _, _⟩ := clusterIndex_spec _ hnd u (hperm.mem_iff.mpr (List.mem_range.mpr hu))
    exact h
  · intro k hk
    have hne := inv.ne _ (List.getElem_mem hk)
    obtain ⟨u, hu⟩ := List.exists_mem_of_ne_nil _ hne
    have hfl : u ∈ (singleLinkage link n).flatten := List.mem_flatten.mpr ⟨_, List.getElem_mem hk, hu⟩
    obtain ⟨_, _, huu⟩ := clusterIndex_spec _ hnd u hfl
    exact ⟨u, List.mem_range.mp (hperm.mem_iff.mp hfl), (huu k hk hu).symm⟩

end EaselModel.Weights
