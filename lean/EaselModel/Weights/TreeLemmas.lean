import EaselModel.Weights.GSC
import EaselModel.Weights.FindMin
import EaselModel.Weights.GSCPerm
import EaselModel.Weights.Tree
/-! C16 helper lemmas, part 16: the tree `esl_tree_UPGMA` returns is a well-formed rooted binary tree for EVERY distance
    matrix; heights are monotone and branch lengths are height differences when distances are ≥ 0 (UPGMA is reducible);
    clade sizes count the leaves below; the GSC traversals give weights ≥ 0 summing to N on EVERY tree with branch lengths ≥ 0. -/
namespace EaselModel.Weights
open WNum

/-! ### (b) the traversals on an arbitrary tree -/

theorem gscTreeRaw_length (n : Nat) (nodes : List (KNode ℚ)) : (gscTreeRaw n nodes).length = n := by
  unfold gscTreeRaw; simp

theorem gscTreeRaw_nonneg (n : Nat) (nodes : List (KNode ℚ)) (h : ∀ nd ∈ nodes, 0 ≤ nd.l ∧ 0 ≤ nd.r) :
    ∀ w ∈ gscTreeRaw n nodes, 0 ≤ w := by
  intro w hw
  unfold gscTreeRaw at hw
  simp only [List.mem_map] at hw
  obtain ⟨i, _, rfl⟩ := hw
  apply lookupD_nonneg
  apply kdown_nonneg
  · exact kup_NN _ _ (fun nd hnd => h nd (List.mem_reverse.mp hnd))
  · exact h

theorem gscTree_nonneg (n : Nat) (nodes : List (KNode ℚ)) (h : ∀ nd ∈ nodes, 0 ≤ nd.l ∧ 0 ≤ nd.r) :
    ∀ w ∈ gscTree n nodes, 0 ≤ w :=
  normalizeToN_nonneg _ (gscTreeRaw_nonneg n nodes h)

theorem gscTree_sum (n : Nat) (nodes : List (KNode ℚ)) (hn : 0 < n) : (gscTree n nodes).sum = n := by
  unfold gscTree
  rw [normalizeToN_sum, gscTreeRaw_length]
  intro h
  have := gscTreeRaw_length n nodes
  rw [h] at this
  simp at this; omega

theorem gscTree_length (n : Nat) (nodes : List (KNode ℚ)) : (gscTree n nodes).length = n := by
  unfold gscTree; rw [normalizeToN_length, gscTreeRaw_length]

/-! ### (a1) the UPGMA tree is well formed, for every distance matrix -/

/-- newest-first node list: each node joins two different clusters numbered below its own number -/
def NodesOK (n : Nat) : List (KNode ℚ) → Prop
  | [] => True
  | nd :: rest => nd.I < n + rest.length ∧ nd.J < n + rest.length ∧ nd.I ≠ nd.J ∧ NodesOK n rest

theorem NodesOK.indexed {n : Nat} : ∀ {nodes : List (KNode ℚ)}, NodesOK n nodes →
    ∀ s (h : s < nodes.reverse.length), (nodes.reverse[s]).I < n + s ∧ (nodes.reverse[s]).J < n + s ∧
      (nodes.reverse[s]).I ≠ (nodes.reverse[s]).J
  | [], _, s, h => by simp at h
  | nd :: rest, hok, s, h => by
    obtain ⟨h1, h2, h3, h4⟩ := hok
    have hlen : s < rest.length + 1 := by simpa using h
    by_cases hs : s < rest.length
    · have e : (nd :: rest).reverse[s] = rest.reverse[s]'(by simpa using hs) := by
        simp only [List.reverse_cons]
        rw [List.getElem_append_left (by simpa using hs)]
      rw [e]; exact NodesOK.indexed h4 s (by simpa using hs)
    · have hs' : s = rest.length := by omega
      subst hs'
      have e : (nd :: rest).reverse[rest.length] = nd := by
        simp only [List.reverse_cons]
        rw [List.getElem_append_right (by simp)]
        simp
      rw [e]; exact ⟨h1, h2, h3⟩

theorem childrenOf_reverse_cons (nd : KNode ℚ) (rest : List (KNode ℚ)) :
    childrenOf (nd :: rest).reverse = childrenOf rest.reverse ++ [nd.I, nd.J] := by
  simp [childrenOf, List.flatMap_append]

/-- what `cluster_engine` keeps true after k passes on n taxa -/
structure KStruct (n k : Nat) (st : KState ℚ) : Prop where
  nd : st.act.toList.Nodup
  asize : st.act.size + k = n
  rsize : st.rows.size = n + k
  len : st.nodes.length = k
  alt : ∀ x ∈ st.act.toList, x < n + k
  ok : NodesOK n st.nodes
  perm : (childrenOf st.nodes.reverse ++ st.act.toList).Perm (List.range (n + k))

theorem kinitMx_struct (n : Nat) (d : Nat → Nat → ℚ) : KStruct n 0 (kinitMx n d) := by
  refine ⟨?_, ?_, ?_, rfl, ?_, trivial, ?_⟩
  · show (Array.range n).toList.Nodup
    rw [Array.toList_range]; exact List.nodup_range
  · show (Array.range n).size + 0 = n
    simp
  · show (((List.range n).map _).toArray).size = n + 0
    simp
  · intro x hx
    have hx' : x ∈ (Array.range n).toList := hx
    rw [Array.toList_range] at hx'
    simpa using List.mem_range.mp hx'
  · show (childrenOf ([] : List (KNode ℚ)).reverse ++ (Array.range n).toList).Perm (List.range (n + 0))
    rw [Array.toList_range]; simp [childrenOf]

theorem kstep_struct (n k : Nat) (st : KState ℚ) (h : KStruct n k st) (hk : k + 2 ≤ n) : KStruct n (k + 1) (kstep n st) := by
  have hN : 2 ≤ st.act.size := by have := h.asize; omega
  obtain ⟨_, _, a3, a4⟩ := kfindMin_spec st.rows st.act hN
  have hij : kPosI st < kPosJ st := a3
  have hj : kPosJ st < st.act.size := a4
  obtain ⟨L, hL1, hL2⟩ := kAct_spec st hN hij hj
  have hImem : kI st ∈ st.act.toList := mem_of_getD st.act (by omega)
  have hJmem : kJ st ∈ st.act.toList := mem_of_getD st.act hj
  have hIJ : kI st ≠ kJ st := by
    intro e
    have := pos_inj st.act h.nd (by omega : kPosI st < st.act.size) hj e
    omega
  have hLnd : (L ++ [kI st, kJ st]).Nodup := hL2.nodup_iff.mpr h.nd
  have hLsub : ∀ x ∈ L, x ∈ st.act.toList := fun x hx => hL2.subset (List.mem_append_left _ hx)
  have hact : (kstep n st).act.toList = L ++ [st.rows.size] := hL1
  refine ⟨?_, ?_, ?_, ?_, ?_, ?_, ?_⟩
  · rw [hact]
    have hL' : L.Nodup := (List.nodup_append.mp hLnd).1
    refine List.nodup_append.mpr ⟨hL', by simp, ?_⟩
    intro a ha b hb
    have hb' : b = st.rows.size := by simpa using hb
    have := h.alt a (hLsub a ha)
    rw [hb', h.rsize]; omega
  · have := kstep_act_size n st hN
    have := h.asize
    omega
  · show (st.rows.push (kRow st)).size = n + (k + 1)
    rw [Array.size_push, h.rsize]; omega
  · show ((⟨kI st, kJ st, kbranch n (kH st) st.hgt (kI st), kbranch n (kH st) st.hgt (kJ st)⟩ : KNode ℚ) :: st.nodes).length = k + 1
    rw [List.length_cons, h.len]
  · intro x hx
    rw [hact] at hx
    rcases List.mem_append.mp hx with hx | hx
    · have := h.alt x (hLsub x hx); omega
    · have : x = st.rows.size := by simpa using hx
      rw [this, h.rsize]; omega
  · show NodesOK n ((⟨kI st, kJ st, kbranch n (kH st) st.hgt (kI st), kbranch n (kH st) st.hgt (kJ st)⟩ : KNode ℚ) :: st.nodes)
    refine ⟨?_, ?_, hIJ, h.ok⟩
    · show kI st < n + st.nodes.length
      rw [h.len]; exact h.alt _ hImem
    · show kJ st < n + st.nodes.length
      rw [h.len]; exact h.alt _ hJmem
  · show (childrenOf ((⟨kI st, kJ st, kbranch n (kH st) st.hgt (kI st), kbranch n (kH st) st.hgt (kJ st)⟩ : KNode ℚ) :: st.nodes).reverse ++
      (kstep n st).act.toList).Perm (List.range (n + (k + 1)))
    rw [childrenOf_reverse_cons, hact, h.rsize]
    have e : List.range (n + (k + 1)) = List.range (n + k) ++ [n + k] := by
      rw [show n + (k + 1) = (n + k) + 1 from rfl, List.range_succ]
    rw [e]
    have p1 : (childrenOf st.nodes.reverse ++ [kI st, kJ st] ++ (L ++ [n + k])).Perm
        ((childrenOf st.nodes.reverse ++ (L ++ [kI st, kJ st])) ++ [n + k]) := by
      simp only [List.append_assoc]
      apply List.Perm.append_left
      rw [← List.append_assoc, ← List.append_assoc]
      exact List.Perm.append_right _ List.perm_append_comm
    refine p1.trans (List.Perm.append_right _ ?_)
    exact (List.Perm.append_left _ hL2).trans h.perm

theorem krun_struct (n : Nat) (d : Nat → Nat → ℚ) (k : Nat) (hk : k + 1 ≤ n) : KStruct n k (krun n (kinitMx n d) k) := by
  induction k with
  | zero => exact kinitMx_struct n d
  | succ k ih => exact kstep_struct n k _ (ih (by omega)) (by omega)

/-- (a1) `esl_tree_UPGMA` returns a well-formed rooted binary tree on the n taxa — for every distance matrix, ties or not -/
theorem upgma_wellFormed' (n : Nat) (hn : 2 ≤ n) (d : Nat → Nat → ℚ) : WellFormed n (upgma n d).nodes.reverse := by
  unfold upgma
  have h := krun_struct n d (n - 1) (by omega)
  have hidx := NodesOK.indexed h.ok
  refine ⟨by rw [List.length_reverse]; exact h.len, hidx, ?_⟩
  -- one active cluster is left; it is the root 2n-2, which no node has as a child
  have hsz : (krun n (kinitMx n d) (n - 1)).act.toList.length = 1 := by
    have := h.asize
    simp only [Array.length_toList]
    omega
  obtain ⟨x, hx⟩ := List.length_eq_one_iff.mp hsz
  have hp : (childrenOf (krun n (kinitMx n d) (n - 1)).nodes.reverse ++ [x]).Perm (List.range (2 * n - 2) ++ [2 * n - 2]) := by
    have := h.perm
    rw [show (krun n (kinitMx n d) (n - 1)).act.toList = [x] from hx] at this
    have e : List.range (2 * n - 2) ++ [2 * n - 2] = List.range (n + (n - 1)) := by
      rw [← List.range_succ]; congr 1; omega
    rw [e]; exact this
  have hroot_notin : (2 * n - 2) ∉ childrenOf (krun n (kinitMx n d) (n - 1)).nodes.reverse := by
    intro hmem
    unfold childrenOf at hmem
    obtain ⟨nd, hnd, hc⟩ := List.mem_flatMap.mp hmem
    obtain ⟨s, hs, rfl⟩ := List.mem_iff_getElem.mp hnd
    have hb := hidx s hs
    have hs' : s < n - 1 := by
      have : (krun n (kinitMx n d) (n - 1)).nodes.reverse.length = n - 1 := by rw [List.length_reverse]; exact h.len
      omega
    simp only [List.mem_cons, List.not_mem_nil, or_false] at hc
    rcases hc with hc | hc <;> omega
  have hx2 : x = 2 * n - 2 := by
    have hmem : (2 * n - 2) ∈ childrenOf (krun n (kinitMx n d) (n - 1)).nodes.reverse ++ [x] := hp.symm.subset (by simp)
    rcases List.mem_append.mp hmem with hm | hm
    · exact absurd hm hroot_notin
    · exact (List.mem_singleton.mp hm).symm
  rw [hx2] at hp
  exact (List.perm_append_right_iff _).mp hp

/-! ### (a3), (a4) heights are monotone, branch lengths are height differences (distances ≥ 0) -/

theorem kinitMx_kdist (n : Nat) (d : Nat → Nat → ℚ) {x y : Nat} (hxy : x < y) (hy : y < n) :
    kdist (kinitMx n d).rows x y = d x y := by
  unfold kdist kinitMx
  rw [if_pos hxy]
  simp only [Array.getD_eq_getD_getElem?, List.getElem?_toArray, List.getElem?_map, List.getElem?_range hy,
    Option.map_some, Option.getD_some, List.getElem?_range hxy]

/-- newest-first node list against the height table: branch lengths are height differences, children are not higher than
    their parent, and each node is at least as high as the node created before it -/
def NodesH (n : Nat) (hgt : Array ℚ) : List (KNode ℚ) → Prop
  | [] => True
  | nd :: rest =>
    nd.l = hgt.getD (n + rest.length) 0 - hgt.getD nd.I 0 ∧ nd.r = hgt.getD (n + rest.length) 0 - hgt.getD nd.J 0 ∧
    hgt.getD nd.I 0 ≤ hgt.getD (n + rest.length) 0 ∧ hgt.getD nd.J 0 ≤ hgt.getD (n + rest.length) 0 ∧
    (rest ≠ [] → hgt.getD (n + rest.length - 1) 0 ≤ hgt.getD (n + rest.length) 0) ∧ NodesH n hgt rest

theorem NodesH.push {n : Nat} {hgt : Array ℚ} (v : ℚ) : ∀ {nodes : List (KNode ℚ)}, NodesH n hgt nodes → NodesOK n nodes →
    n + nodes.length ≤ hgt.size → NodesH n (hgt.push v) nodes
  | [], _, _, _ => trivial
  | nd :: rest, h, hok, hsz => by
    obtain ⟨h1, h2, h3, h4, h5, h6⟩ := h
    obtain ⟨o1, o2, _, o4⟩ := hok
    simp only [List.length_cons] at hsz
    have e0 : (hgt.push v).getD (n + rest.length) 0 = hgt.getD (n + rest.length) 0 := getD_push_lt _ _ _ (by omega)
    have e1 : (hgt.push v).getD nd.I 0 = hgt.getD nd.I 0 := getD_push_lt _ _ _ (by omega)
    have e2 : (hgt.push v).getD nd.J 0 = hgt.getD nd.J 0 := getD_push_lt _ _ _ (by omega)
    have e3 : (hgt.push v).getD (n + rest.length - 1) 0 = hgt.getD (n + rest.length - 1) 0 := getD_push_lt _ _ _ (by omega)
    refine ⟨by rw [e0, e1]; exact h1, by rw [e0, e2]; exact h2, by rw [e0, e1]; exact h3, by rw [e0, e2]; exact h4,
      fun hne => by rw [e0, e3]; exact h5 hne, NodesH.push v h6 o4 (by omega)⟩

theorem NodesH.indexed {n : Nat} {hgt : Array ℚ} : ∀ {nodes : List (KNode ℚ)}, NodesH n hgt nodes →
    ∀ s (h : s < nodes.reverse.length),
      (nodes.reverse[s]).l = hgt.getD (n + s) 0 - hgt.getD (nodes.reverse[s]).I 0 ∧
      (nodes.reverse[s]).r = hgt.getD (n + s) 0 - hgt.getD (nodes.reverse[s]).J 0 ∧
      hgt.getD (nodes.reverse[s]).I 0 ≤ hgt.getD (n + s) 0 ∧ hgt.getD (nodes.reverse[s]).J 0 ≤ hgt.getD (n + s) 0 ∧
      (0 < s → hgt.getD (n + s - 1) 0 ≤ hgt.getD (n + s) 0)
  | [], _, s, h => by simp at h
  | nd :: rest, hh, s, h => by
    obtain ⟨h1, h2, h3, h4, h5, h6⟩ := hh
    by_cases hs : s < rest.length
    · have e : (nd :: rest).reverse[s] = rest.reverse[s]'(by simpa using hs) := by
        simp only [List.reverse_cons]
        rw [List.getElem_append_left (by simpa using hs)]
      rw [e]; exact NodesH.indexed h6 s (by simpa using hs)
    · have hlen : s < rest.length + 1 := by simpa using h
      have hs' : s = rest.length := by omega
      subst hs'
      have e : (nd :: rest).reverse[rest.length] = nd := by
        simp only [List.reverse_cons]
        rw [List.getElem_append_right (by simp)]
        simp
      rw [e]
      exact ⟨h1, h2, h3, h4, fun hpos => h5 (by intro hnil; rw [hnil] at hpos; simp at hpos)⟩

/-- heights invariant after k passes: `m` is the last minimum found (0 before the first pass), `U` a bound on all distances -/
structure KHgt (n k : Nat) (st : KState ℚ) (m U : ℚ) : Prop where
  hsize : st.hgt.size = n + k
  ssize : st.size.size = n + k
  mnn : 0 ≤ m
  mU : m ≤ U
  taxa : ∀ t, t < n → st.hgt.getD t 0 = 0
  le : ∀ c, st.hgt.getD c 0 ≤ m / 2
  nn : ∀ c, 0 ≤ st.hgt.getD c 0
  far : ∀ x ∈ st.act.toList, ∀ y ∈ st.act.toList, x ≠ y → m ≤ kdist st.rows x y ∧ kdist st.rows x y ≤ U
  pos : ∀ x ∈ st.act.toList, 0 < st.size.getD x 0
  nodes : NodesH n st.hgt st.nodes

theorem weighted_avg_bounds {a b : Nat} (ha : 0 < a) (hb : 0 < b) {x y lo hi : ℚ} (hx : lo ≤ x ∧ x ≤ hi) (hy : lo ≤ y ∧ y ≤ hi) :
    lo ≤ ((a : ℚ) * x + (b : ℚ) * y) / ((a + b : Nat) : ℚ) ∧ ((a : ℚ) * x + (b : ℚ) * y) / ((a + b : Nat) : ℚ) ≤ hi := by
  have ha' : (0 : ℚ) < a := by exact_mod_cast ha
  have hb' : (0 : ℚ) < b := by exact_mod_cast hb
  have hab : (0 : ℚ) < ((a + b : Nat) : ℚ) := by push_cast; linarith
  constructor
  · rw [le_div_iff₀ hab]; push_cast; nlinarith [hx.1, hy.1]
  · rw [div_le_iff₀ hab]; push_cast; nlinarith [hx.2, hy.2]

theorem kbranch_eq_sub (n : Nat) (h : ℚ) (hgt : Array ℚ) (c : Nat) (hle : hgt.getD c 0 ≤ h) (htax : c < n → hgt.getD c 0 = 0) :
    kbranch n h hgt c = h - hgt.getD c 0 := by
  unfold kbranch
  split
  · unfold max0 vget
    simp only [ltb_rat, ofNat_rat, Nat.cast_zero, decide_eq_true_eq]
    rw [if_neg (by linarith)]
  · rw [htax (by omega)]; ring

theorem kstep_hgt (n k : Nat) (st : KState ℚ) (m U : ℚ) (hs : KStruct n k st) (h : KHgt n k st m U) (hk : k + 2 ≤ n) :
    KHgt n (k + 1) (kstep n st) (kMin st).1 U ∧ m ≤ (kMin st).1 := by
  have hN : 2 ≤ st.act.size := by have := hs.asize; omega
  obtain ⟨a1, _, a3, a4⟩ := kfindMin_spec st.rows st.act hN
  have hij : kPosI st < kPosJ st := a3
  have hj : kPosJ st < st.act.size := a4
  obtain ⟨L, hL1, hL2⟩ := kAct_spec st hN hij hj
  have hImem : kI st ∈ st.act.toList := mem_of_getD st.act (by omega)
  have hJmem : kJ st ∈ st.act.toList := mem_of_getD st.act hj
  have hIJ : kI st ≠ kJ st := by
    intro e
    have := pos_inj st.act hs.nd (by omega : kPosI st < st.act.size) hj e
    omega
  have hLnd : (L ++ [kI st, kJ st]).Nodup := hL2.nodup_iff.mpr hs.nd
  have hLsub : ∀ x ∈ L, x ∈ st.act.toList := fun x hx => hL2.subset (List.mem_append_left _ hx)
  have hLne : ∀ x ∈ L, x ≠ kI st ∧ x ≠ kJ st := by
    intro x hx
    have := (List.nodup_append.mp hLnd).2.2 x hx
    exact ⟨this (kI st) (by simp), this (kJ st) (by simp)⟩
  have hact : (kstep n st).act.toList = L ++ [st.rows.size] := hL1
  have hm' : (kMin st).1 = kdist st.rows (kI st) (kJ st) := a1
  have hmm : m ≤ (kMin st).1 := by rw [hm']; exact (h.far _ hImem _ hJmem hIJ).1
  have hmU : (kMin st).1 ≤ U := by rw [hm']; exact (h.far _ hImem _ hJmem hIJ).2
  have hmin : ∀ x ∈ st.act.toList, ∀ y ∈ st.act.toList, x ≠ y → (kMin st).1 ≤ kdist st.rows x y :=
    fun x hx y hy hxy => kfindMin_le_pair st.rows st.act hN hx hy hxy
  have hH : kH st = (kMin st).1 / 2 := by unfold kH; simp
  have hIlt : kI st < st.hgt.size := by rw [h.hsize]; exact hs.alt _ hImem
  have hJlt : kJ st < st.hgt.size := by rw [h.hsize]; exact hs.alt _ hJmem
  have hrs : st.rows.size = st.hgt.size := by rw [hs.rsize, h.hsize]
  -- distance from the new cluster to a remaining one
  have hnew : ∀ y ∈ L, (kMin st).1 ≤ (kRow st).getD y 0 ∧ (kRow st).getD y 0 ≤ U := by
    intro y hy
    have hylt : y < st.rows.size := by rw [hs.rsize]; exact hs.alt y (hLsub y hy)
    rw [kRow_getD st hylt]
    unfold kmerged
    simp only [ofNat_rat]
    have hy' := hLsub y hy
    have hne := hLne y hy
    exact weighted_avg_bounds (h.pos _ hImem) (h.pos _ hJmem)
      ⟨hmin _ hImem _ hy' (Ne.symm hne.1), (h.far _ hImem _ hy' (Ne.symm hne.1)).2⟩
      ⟨hmin _ hJmem _ hy' (Ne.symm hne.2), (h.far _ hJmem _ hy' (Ne.symm hne.2)).2⟩
  refine ⟨⟨?_, ?_, le_trans h.mnn hmm, hmU, ?_, ?_, ?_, ?_, ?_, ?_⟩, hmm⟩
  · show (st.hgt.push (kH st)).size = n + (k + 1)
    rw [Array.size_push, h.hsize]; omega
  · show (st.size.push _).size = n + (k + 1)
    rw [Array.size_push, h.ssize]; omega
  · intro t ht
    show (st.hgt.push (kH st)).getD t 0 = 0
    rw [getD_push_lt _ _ _ (by rw [h.hsize]; omega)]; exact h.taxa t ht
  · intro c
    show (st.hgt.push (kH st)).getD c 0 ≤ (kMin st).1 / 2
    rcases Nat.lt_trichotomy c st.hgt.size with hc | hc | hc
    · rw [getD_push_lt _ _ _ hc]; have := h.le c; linarith
    · rw [hc, getD_push_eq, hH]
    · rw [getD_push_gt _ _ _ hc]; have := h.mnn; linarith
  · intro c
    show 0 ≤ (st.hgt.push (kH st)).getD c 0
    rcases Nat.lt_trichotomy c st.hgt.size with hc | hc | hc
    · rw [getD_push_lt _ _ _ hc]; exact h.nn c
    · rw [hc, getD_push_eq, hH]; have := h.mnn; linarith
    · rw [getD_push_gt _ _ _ hc]
  · intro x hx y hy hxy
    rw [hact] at hx hy
    show (kMin st).1 ≤ kdist (st.rows.push (kRow st)) x y ∧ kdist (st.rows.push (kRow st)) x y ≤ U
    rcases List.mem_append.mp hx with hx | hx <;> rcases List.mem_append.mp hy with hy | hy
    · have hx' := hLsub x hx
      have hy' := hLsub y hy
      rw [kdist_push _ _ (by rw [hs.rsize]; exact hs.alt x hx') (by rw [hs.rsize]; exact hs.alt y hy')]
      exact ⟨hmin x hx' y hy' hxy, (h.far x hx' y hy' hxy).2⟩
    · have hy2 : y = st.rows.size := by simpa using hy
      have hxlt : x < st.rows.size := by rw [hs.rsize]; exact hs.alt x (hLsub x hx)
      rw [hy2, (kdist_push_new st.rows (kRow st) hxlt).2]
      exact hnew x hx
    · have hx2 : x = st.rows.size := by simpa using hx
      have hylt : y < st.rows.size := by rw [hs.rsize]; exact hs.alt y (hLsub y hy)
      rw [hx2, (kdist_push_new st.rows (kRow st) hylt).1]
      exact hnew y hy
    · have hx2 : x = st.rows.size := by simpa using hx
      have hy2 : y = st.rows.size := by simpa using hy
      exact absurd (hx2.trans hy2.symm) hxy
  · intro x hx
    rw [hact] at hx
    show 0 < (st.size.push (st.size.getD (kI st) 0 + st.size.getD (kJ st) 0)).getD x 0
    rcases List.mem_append.mp hx with hx | hx
    · rw [getD_push_lt _ _ _ (by rw [h.ssize]; exact hs.alt x (hLsub x hx))]; exact h.pos x (hLsub x hx)
    · have hx2 : x = st.size.size := by rw [h.ssize, ← hs.rsize]; simpa using hx
      rw [hx2, getD_push_eq]
      have := h.pos _ hImem; omega
  · show NodesH n (st.hgt.push (kH st))
      ((⟨kI st, kJ st, kbranch n (kH st) st.hgt (kI st), kbranch n (kH st) st.hgt (kJ st)⟩ : KNode ℚ) :: st.nodes)
    have hleI : st.hgt.getD (kI st) 0 ≤ kH st := by rw [hH]; have := h.le (kI st); linarith
    have hleJ : st.hgt.getD (kJ st) 0 ≤ kH st := by rw [hH]; have := h.le (kJ st); linarith
    have e0 : (st.hgt.push (kH st)).getD (n + st.nodes.length) 0 = kH st := by
      rw [hs.len, ← h.hsize, getD_push_eq]
    have e1 : (st.hgt.push (kH st)).getD (kI st) 0 = st.hgt.getD (kI st) 0 := getD_push_lt _ _ _ hIlt
    have e2 : (st.hgt.push (kH st)).getD (kJ st) 0 = st.hgt.getD (kJ st) 0 := getD_push_lt _ _ _ hJlt
    refine ⟨?_, ?_, ?_, ?_, ?_, NodesH.push _ h.nodes hs.ok (by rw [hs.len, h.hsize])⟩
    · show kbranch n (kH st) st.hgt (kI st) = _
      rw [e0, e1]; exact kbranch_eq_sub n _ _ _ hleI (fun hc => h.taxa _ hc)
    · show kbranch n (kH st) st.hgt (kJ st) = _
      rw [e0, e2]; exact kbranch_eq_sub n _ _ _ hleJ (fun hc => h.taxa _ hc)
    · show (st.hgt.push (kH st)).getD (kI st) 0 ≤ _
      rw [e0, e1]; exact hleI
    · show (st.hgt.push (kH st)).getD (kJ st) 0 ≤ _
      rw [e0, e2]; exact hleJ
    · intro hne
      have hk1 : 0 < st.nodes.length := List.length_pos_iff.mpr hne
      rw [e0, getD_push_lt _ _ _ (by rw [h.hsize, hs.len] ; omega), hH]
      have := h.le (n + st.nodes.length - 1); linarith

theorem kinitMx_hgt (n : Nat) (d : Nat → Nat → ℚ) (U : ℚ) (hd : ∀ x y, x < y → y < n → 0 ≤ d x y ∧ d x y ≤ U) (hU : 0 ≤ U) :
    KHgt n 0 (kinitMx n d) 0 U := by
  have hmem : ∀ x, x ∈ (kinitMx n d).act.toList → x < n := by
    intro x hx
    have hx' : x ∈ (Array.range n).toList := hx
    rw [Array.toList_range] at hx'
    exact List.mem_range.mp hx'
  refine ⟨?_, ?_, le_refl 0, hU, ?_, ?_, ?_, ?_, ?_, trivial⟩
  · show (Array.replicate n (ofNat 0 : ℚ)).size = n + 0
    simp
  · show (Array.replicate n 1).size = n + 0
    simp
  · intro t _
    show (Array.replicate n (ofNat 0 : ℚ)).getD t 0 = 0
    rw [getD_replicate]; split <;> simp
  · intro c
    show (Array.replicate n (ofNat 0 : ℚ)).getD c 0 ≤ 0 / 2
    rw [getD_replicate]; split <;> simp
  · intro c
    show 0 ≤ (Array.replicate n (ofNat 0 : ℚ)).getD c 0
    rw [getD_replicate]; split <;> simp
  · intro x hx y hy hxy
    have hx' := hmem x hx
    have hy' := hmem y hy
    rcases Nat.lt_or_gt_of_ne hxy with hlt | hlt
    · rw [kinitMx_kdist n d hlt hy']; exact hd x y hlt hy'
    · rw [kdist_comm _ hxy, kinitMx_kdist n d hlt hx']; exact hd y x hlt hx'
  · intro x hx
    show 0 < (Array.replicate n 1).getD x 0
    rw [getD_replicate, if_pos (hmem x hx)]; exact Nat.one_pos

theorem krun_hgt (n : Nat) (d : Nat → Nat → ℚ) (U : ℚ) (hd : ∀ x y, x < y → y < n → 0 ≤ d x y ∧ d x y ≤ U) (hU : 0 ≤ U)
    (k : Nat) (hk : k + 1 ≤ n) : ∃ m, KHgt n k (krun n (kinitMx n d) k) m U := by
  induction k with
  | zero => exact ⟨0, kinitMx_hgt n d U hd hU⟩
  | succ k ih =>
    obtain ⟨m, hm⟩ := ih (by omega)
    exact ⟨_, (kstep_hgt n k _ m U (krun_struct n d k (by omega)) hm (by omega)).1⟩

/-! ### (a2) clade sizes: `esl_tree_SetCladesizes` counts the taxa below each node; they are the `nin[]` of the UPGMA average -/

/-- the taxa below each cluster, by cluster number (taxon t: just t; a node: those of its two children) -/
def leafSets (n : Nat) (created : List (KNode ℚ)) : Array (List Nat) :=
  created.foldl (fun ls nd => ls.push (ls.getD nd.I [] ++ ls.getD nd.J [])) ((List.range n).map fun t => [t]).toArray

theorem leafSets_snoc (n : Nat) (created : List (KNode ℚ)) (nd : KNode ℚ) :
    leafSets n (created ++ [nd]) =
      (leafSets n created).push ((leafSets n created).getD nd.I [] ++ (leafSets n created).getD nd.J []) := by
  unfold leafSets; rw [List.foldl_append]; rfl

theorem kclades_snoc (n : Nat) (created : List (KNode ℚ)) (nd : KNode ℚ) :
    kclades n (created ++ [nd]) = (kclades n created).push ((kclades n created).getD nd.I 0 + (kclades n created).getD nd.J 0) := by
  unfold kclades; rw [List.foldl_append]; rfl

/-- `cladesize` = number of taxa below, for EVERY node list -/
theorem kclades_eq_leaves (n : Nat) (created : List (KNode ℚ)) :
    (kclades n created).size = (leafSets n created).size ∧
    ∀ c, (kclades n created).getD c 0 = ((leafSets n created).getD c []).length := by
  induction created using List.reverseRecOn with
  | nil =>
    refine ⟨by simp [kclades, leafSets], fun c => ?_⟩
    unfold kclades leafSets
    simp only [List.foldl_nil]
    rw [getD_replicate]
    simp only [Array.getD_eq_getD_getElem?, List.getElem?_toArray, List.getElem?_map]
    by_cases hc : c < n
    · rw [if_pos hc, List.getElem?_range hc]; simp
    · rw [if_neg hc, List.getElem?_eq_none (by simpa using hc)]; simp
  | append_singleton cr nd ih =>
    obtain ⟨hsz, hget⟩ := ih
    rw [kclades_snoc, leafSets_snoc]
    refine ⟨by rw [Array.size_push, Array.size_push, hsz], fun c => ?_⟩
    rcases Nat.lt_trichotomy c (kclades n cr).size with hc | hc | hc
    · rw [getD_push_lt _ _ _ hc, getD_push_lt _ _ _ (by omega)]; exact hget c
    · rw [hc, getD_push_eq, hsz, getD_push_eq, List.length_append, hget, hget]
    · rw [getD_push_gt _ _ _ hc, getD_push_gt _ _ _ (by omega)]; rfl

/-- along the UPGMA run: the leaf sets of the active clusters partition the taxa, and `nin[]` is their size -/
structure KLeaves (n k : Nat) (st : KState ℚ) : Prop where
  lsize : (leafSets n st.nodes.reverse).size = n + k
  ssize : st.size.size = n + k
  part : (st.act.toList.flatMap fun x => (leafSets n st.nodes.reverse).getD x []).Perm (List.range n)
  nin : ∀ c, st.size.getD c 0 = ((leafSets n st.nodes.reverse).getD c []).length

theorem flatMap_congr_mem {β : Type} (l : List Nat) (f g : Nat → List β) (h : ∀ x ∈ l, f x = g x) : l.flatMap f = l.flatMap g := by
  induction l with
  | nil => rfl
  | cons a t ih =>
    simp only [List.flatMap_cons]
    rw [h a (by simp), ih (fun x hx => h x (by simp [hx]))]

theorem kinitMx_leaves (n : Nat) (d : Nat → Nat → ℚ) : KLeaves n 0 (kinitMx n d) := by
  have hls : leafSets n ([] : List (KNode ℚ)).reverse = ((List.range n).map fun t => [t]).toArray := rfl
  have hget : ∀ c, (((List.range n).map fun t => [t]).toArray).getD c [] = if c < n then [c] else [] := by
    intro c
    simp only [Array.getD_eq_getD_getElem?, List.getElem?_toArray, List.getElem?_map]
    by_cases hc : c < n
    · rw [if_pos hc, List.getElem?_range hc]; rfl
    · rw [if_neg hc, List.getElem?_eq_none (by simpa using hc)]; rfl
  refine ⟨?_, ?_, ?_, ?_⟩
  · show (leafSets n ([] : List (KNode ℚ)).reverse).size = n + 0
    rw [hls]; simp
  · show (Array.replicate n 1).size = n + 0
    simp
  · show ((Array.range n).toList.flatMap fun x => (leafSets n ([] : List (KNode ℚ)).reverse).getD x []).Perm (List.range n)
    rw [hls, Array.toList_range]
    rw [flatMap_congr_mem (List.range n) _ (fun x => [x]) (fun x hx => by rw [hget, if_pos (List.mem_range.mp hx)])]
    simp [List.flatMap_singleton']
  · intro c
    show (Array.replicate n 1).getD c 0 = ((leafSets n ([] : List (KNode ℚ)).reverse).getD c []).length
    rw [hls, hget, getD_replicate]
    split <;> rfl

theorem kstep_leaves (n k : Nat) (st : KState ℚ) (hs : KStruct n k st) (h : KLeaves n k st) (hk : k + 2 ≤ n) :
    KLeaves n (k + 1) (kstep n st) := by
  have hN : 2 ≤ st.act.size := by have := hs.asize; omega
  obtain ⟨_, _, a3, a4⟩ := kfindMin_spec st.rows st.act hN
  obtain ⟨L, hL1, hL2⟩ := kAct_spec st hN a3 a4
  have hLsub : ∀ x ∈ L, x ∈ st.act.toList := fun x hx => hL2.subset (List.mem_append_left _ hx)
  have hact : (kstep n st).act.toList = L ++ [st.rows.size] := hL1
  set ls := leafSets n st.nodes.reverse with hlsdef
  have hnodes : (kstep n st).nodes.reverse = st.nodes.reverse ++
      [(⟨kI st, kJ st, kbranch n (kH st) st.hgt (kI st), kbranch n (kH st) st.hgt (kJ st)⟩ : KNode ℚ)] := by
    show ((⟨kI st, kJ st, _, _⟩ : KNode ℚ) :: st.nodes).reverse = _
    rw [List.reverse_cons]
  have hls' : leafSets n (kstep n st).nodes.reverse = ls.push (ls.getD (kI st) [] ++ ls.getD (kJ st) []) := by
    rw [hnodes, leafSets_snoc]
  refine ⟨?_, ?_, ?_, ?_⟩
  · rw [hls', Array.size_push, h.lsize]; omega
  · show (st.size.push _).size = n + (k + 1)
    rw [Array.size_push, h.ssize]; omega
  · rw [hls', hact, List.flatMap_append]
    have e1 : (L.flatMap fun x => (ls.push (ls.getD (kI st) [] ++ ls.getD (kJ st) [])).getD x []) = L.flatMap fun x => ls.getD x [] :=
      flatMap_congr_mem L _ _ (fun x hx => getD_push_lt _ _ _ (by rw [h.lsize]; exact hs.alt x (hLsub x hx)))
    have e2 : ([st.rows.size].flatMap fun x => (ls.push (ls.getD (kI st) [] ++ ls.getD (kJ st) [])).getD x []) =
        ls.getD (kI st) [] ++ ls.getD (kJ st) [] := by
      simp only [List.flatMap_cons, List.flatMap_nil, List.append_nil]
      rw [hs.rsize, ← h.lsize, getD_push_eq]
    rw [e1, e2]
    have e3 : (L.flatMap fun x => ls.getD x []) ++ (ls.getD (kI st) [] ++ ls.getD (kJ st) []) =
        (L ++ [kI st, kJ st]).flatMap fun x => ls.getD x [] := by
      simp [List.flatMap_append]
    rw [e3]
    exact (List.Perm.flatMap_right _ hL2).trans h.part
  · intro c
    show (st.size.push (st.size.getD (kI st) 0 + st.size.getD (kJ st) 0)).getD c 0 = _
    rw [hls']
    rcases Nat.lt_trichotomy c st.size.size with hc | hc | hc
    · rw [getD_push_lt _ _ _ hc, getD_push_lt _ _ _ (by rw [h.lsize, ← h.ssize]; exact hc)]; exact h.nin c
    · rw [hc, getD_push_eq, h.ssize, ← h.lsize, getD_push_eq, List.length_append, h.nin, h.nin]
    · rw [getD_push_gt _ _ _ hc, getD_push_gt _ _ _ (by rw [h.lsize, ← h.ssize]; exact hc)]; rfl

theorem krun_leaves (n : Nat) (d : Nat → Nat → ℚ) (k : Nat) (hk : k + 1 ≤ n) : KLeaves n k (krun n (kinitMx n d) k) := by
  induction k with
  | zero => exact kinitMx_leaves n d
  | succ k ih => exact kstep_leaves n k _ (krun_struct n d k (by omega)) (ih (by omega)) (by omega)

/-! ### final forms -/

/-- after the last pass one cluster is active: the root 2n−2 -/
theorem upgma_act (n : Nat) (hn : 2 ≤ n) (d : Nat → Nat → ℚ) : (upgma n d).act.toList = [2 * n - 2] := by
  unfold upgma
  obtain ⟨k, hk⟩ : ∃ k, n - 1 = k + 1 := ⟨n - 2, by omega⟩
  rw [hk]
  have hs := krun_struct n d k (by omega)
  have hs' := krun_struct n d (k + 1) (by omega)
  have hN : 2 ≤ (krun n (kinitMx n d) k).act.size := by have := hs.asize; omega
  obtain ⟨_, _, a3, a4⟩ := kfindMin_spec (krun n (kinitMx n d) k).rows (krun n (kinitMx n d) k).act hN
  obtain ⟨L, hL1, _⟩ := kAct_spec (krun n (kinitMx n d) k) hN a3 a4
  have hact : (krun n (kinitMx n d) (k + 1)).act.toList = L ++ [(krun n (kinitMx n d) k).rows.size] := hL1
  have hlen : (krun n (kinitMx n d) (k + 1)).act.toList.length = 1 := by
    have := hs'.asize
    simp only [Array.length_toList]; omega
  rw [hact] at hlen ⊢
  have hL : L = [] := by
    cases L with
    | nil => rfl
    | cons a t => simp at hlen
  rw [hL, hs.rsize]
  simp; omega

theorem upgma_heights' (n : Nat) (hn : 2 ≤ n) (d : Nat → Nat → ℚ) (U : ℚ)
    (hd : ∀ x y, x < y → y < n → 0 ≤ d x y ∧ d x y ≤ U) (hU : 0 ≤ U) :
    (∀ t, t < n → (upgma n d).hgt.getD t 0 = 0) ∧
    (∀ c, 0 ≤ (upgma n d).hgt.getD c 0 ∧ (upgma n d).hgt.getD c 0 ≤ U / 2) ∧
    ∀ s (h : s < (upgma n d).nodes.reverse.length),
      ((upgma n d).nodes.reverse[s]).l = (upgma n d).hgt.getD (n + s) 0 - (upgma n d).hgt.getD ((upgma n d).nodes.reverse[s]).I 0 ∧
      ((upgma n d).nodes.reverse[s]).r = (upgma n d).hgt.getD (n + s) 0 - (upgma n d).hgt.getD ((upgma n d).nodes.reverse[s]).J 0 ∧
      0 ≤ ((upgma n d).nodes.reverse[s]).l ∧ 0 ≤ ((upgma n d).nodes.reverse[s]).r ∧
      (0 < s → (upgma n d).hgt.getD (n + s - 1) 0 ≤ (upgma n d).hgt.getD (n + s) 0) := by
  obtain ⟨m, hm⟩ := krun_hgt n d U hd hU (n - 1) (by omega)
  refine ⟨hm.taxa, fun c => ⟨hm.nn c, ?_⟩, fun s h => ?_⟩
  · have := hm.le c; have := hm.mU; show (krun n (kinitMx n d) (n - 1)).hgt.getD c 0 ≤ U / 2; linarith
  · obtain ⟨h1, h2, h3, h4, h5⟩ := NodesH.indexed hm.nodes s h
    refine ⟨h1, h2, ?_, ?_, h5⟩
    · show 0 ≤ ((krun n (kinitMx n d) (n - 1)).nodes.reverse[s]).l
      rw [h1]; linarith
    · show 0 ≤ ((krun n (kinitMx n d) (n - 1)).nodes.reverse[s]).r
      rw [h2]; linarith

theorem upgma_cladesizes' (n : Nat) (hn : 2 ≤ n) (d : Nat → Nat → ℚ) :
    (∀ c, (kclades n (upgma n d).nodes.reverse).getD c 0 = ((leafSets n (upgma n d).nodes.reverse).getD c []).length) ∧
    (∀ c, (upgma n d).size.getD c 0 = (kclades n (upgma n d).nodes.reverse).getD c 0) ∧
    ((leafSets n (upgma n d).nodes.reverse).getD (2 * n - 2) []).Perm (List.range n) := by
  have hl := krun_leaves n d (n - 1) (by omega)
  have hc := (kclades_eq_leaves n (upgma n d).nodes.reverse).2
  refine ⟨hc, fun c => ?_, ?_⟩
  · rw [hc c]; exact hl.nin c
  · have hp := hl.part
    rw [show (krun n (kinitMx n d) (n - 1)).act.toList = [2 * n - 2] from upgma_act n hn d] at hp
    have hp' : ((leafSets n (krun n (kinitMx n d) (n - 1)).nodes.reverse).getD (2 * n - 2) []).Perm (List.range n) := by
      simpa using hp
    exact hp'

/-- in a well-formed tree every cluster but the root has exactly one parent node, found at a smaller C index (preorder) -/
theorem parentIdx_spec {n : Nat} {nodes : List (KNode ℚ)} (hw : WellFormed n nodes.reverse) (hn : 2 ≤ n) (c : Nat)
    (hc : c < 2 * n - 2) :
    ∃ h : parentIdx nodes c < nodes.length,
      ((nodes[parentIdx nodes c]).I = c ∨ (nodes[parentIdx nodes c]).J = c) ∧ c < 2 * n - 2 - parentIdx nodes c := by
  have hlen : nodes.length = n - 1 := by have := hw.length; simpa using this
  have hmem : c ∈ childrenOf nodes.reverse := hw.children.symm.subset (List.mem_range.mpr hc)
  unfold childrenOf at hmem
  obtain ⟨nd, hnd, hcn⟩ := List.mem_flatMap.mp hmem
  have hnd' : nd ∈ nodes := List.mem_reverse.mp hnd
  have hp : (fun nd : KNode ℚ => nd.I == c || nd.J == c) nd = true := by
    simp only [List.mem_cons, List.not_mem_nil, or_false] at hcn
    rcases hcn with e | e <;> simp [e]
  have hlt : nodes.findIdx (fun nd => nd.I == c || nd.J == c) < nodes.length := List.findIdx_lt_length_of_exists ⟨nd, hnd', hp⟩
  generalize hk : nodes.findIdx (fun nd => nd.I == c || nd.J == c) = k at hlt
  have hpi : parentIdx nodes c = k := by
    unfold parentIdx; simp only []; rw [hk, if_pos hlt]
  have hsat : (fun nd : KNode ℚ => nd.I == c || nd.J == c) nodes[k] = true := by
    have := List.findIdx_getElem (xs := nodes) (p := fun nd : KNode ℚ => nd.I == c || nd.J == c) (w := by rw [hk]; exact hlt)
    simpa only [hk] using this
  refine ⟨by rw [hpi]; exact hlt, ?_, ?_⟩
  · simp only [hpi]
    simp only [Bool.or_eq_true, beq_iff_eq] at hsat
    exact hsat
  · -- the node at position k (newest first) was created in pass n-2-k
    obtain ⟨s, hs⟩ : ∃ s, s + k + 1 = nodes.length := ⟨nodes.length - 1 - k, by omega⟩
    have hrev : nodes.reverse[s]'(by simp; omega) = nodes[k] := by
      rw [List.getElem_reverse]; congr 1; omega
    have he := hw.earlier s (by simp; omega)
    rw [hrev] at he
    simp only [Bool.or_eq_true, beq_iff_eq] at hsat
    rw [hpi]
    rcases hsat with e | e
    · have := he.1; omega
    · have := he.2.1; omega

end EaselModel.Weights
