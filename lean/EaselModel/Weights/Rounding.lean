import Mathlib.Tactic.Ring
import Mathlib.Tactic.FieldSimp
import Mathlib.Tactic.Linarith
import Mathlib.Tactic.Positivity
import Mathlib.Algebra.Order.Field.Rat
import Mathlib.Algebra.Order.AbsoluteValue.Basic
/-! C16 helper lemmas, part 11 (L0 bridge): the threshold test `pid >= maxid` evaluated with ANY monotone rounding of
    the quotient whose error is below half the gap between distinct small fractions decides exactly like the rational
    comparison when `maxid` is itself a (rounded) attained identity. That IEEE-754 binary64 division is such a rounding
    (monotone, relative error ≤ 2⁻⁵³) is trusted, not proved. -/
namespace EaselModel.Weights

theorem frac_gap (a n p q : ℕ) (hn : 0 < n) (hq : 0 < q) (hlt : (a : ℚ) / n < (p : ℚ) / q) :
    (1 : ℚ) / (n * q) ≤ (p : ℚ) / q - (a : ℚ) / n := by
  have hn' : (0 : ℚ) < n := by exact_mod_cast hn
  have hq' : (0 : ℚ) < q := by exact_mod_cast hq
  rw [div_lt_div_iff₀ hn' hq'] at hlt
  have h1 : a * q < p * n := by exact_mod_cast hlt
  have h2 : a * q + 1 ≤ p * n := h1
  have h3 : ((a : ℚ) * q + 1) ≤ (p : ℚ) * n := by exact_mod_cast h2
  have : (p : ℚ) / q - (a : ℚ) / n = ((p : ℚ) * n - a * q) / (n * q) := by
    field_simp
  rw [this]
  apply div_le_div_of_nonneg_right _ (by positivity)
  linarith

/-- rounded comparison = exact comparison for fractions with small denominators -/
theorem threshold_decision_exact (fl : ℚ → ℚ) (ε : ℚ)
    (hmono : ∀ x y, x ≤ y → fl x ≤ fl y)
    (herr : ∀ x, 0 ≤ x → x ≤ 1 → |fl x - x| ≤ ε)
    (nid n p q : ℕ) (hn : 0 < n) (hq : 0 < q) (hnid : nid ≤ n) (hp : p ≤ q)
    (hsmall : 2 * ε * (n * q) < 1) :
    fl ((p : ℚ) / q) ≤ fl ((nid : ℚ) / n) ↔ (p : ℚ) / q ≤ (nid : ℚ) / n := by
  have hn' : (0 : ℚ) < n := by exact_mod_cast hn
  have hq' : (0 : ℚ) < q := by exact_mod_cast hq
  constructor
  · intro h
    by_contra hc
    simp only [not_le] at hc
    have hgap := frac_gap nid n p q hn hq hc
    have ha0 : (0 : ℚ) ≤ (nid : ℚ) / n := by positivity
    have ha1 : (nid : ℚ) / n ≤ 1 := by
      rw [div_le_one hn']; exact_mod_cast hnid
    have hb0 : (0 : ℚ) ≤ (p : ℚ) / q := by positivity
    have hb1 : (p : ℚ) / q ≤ 1 := by
      rw [div_le_one hq']; exact_mod_cast hp
    have e1 := abs_le.mp (herr _ ha0 ha1)
    have e2 := abs_le.mp (herr _ hb0 hb1)
    have hnq : (0 : ℚ) < n * q := by positivity
    have : 2 * ε < 1 / (n * q) := by
      rw [lt_div_iff₀ hnq]; exact hsmall
    linarith [e1.1, e1.2, e2.1, e2.2]
  · intro h
    exact hmono _ _ h

end EaselModel.Weights
