import EaselModel.Weights.Lemmas
import EaselModel.Weights.Rounding
import EaselModel.Weights.GSC
/-! C16 helper lemmas, part 33 (round 6b): thresholds exactly AT an attained identity, over a ROUNDED number carrier.

  `Rd fl` is a carrier of the polymorphic model whose division returns the exact quotient rounded by `fl` (the only
  operation `pid` and the test `pid >= maxid` use besides comparisons). For ANY rounding `fl` that is monotone, exact at 0
  and within ε of the exact value on [0,1], and any alignment of rows not longer than `B` with 2·ε·B² < 1 (binary64:
  ε = 2⁻⁵³, B up to ~6·10⁷), a threshold that is itself a rounded quotient `fl(p/q)`, q ≤ B — in particular the identity the
  code computed for some pair — links exactly the pairs that the exact comparison `p/q ≤ nid/n` links. Hence the WHOLE
  functions agree with their exact-arithmetic instances: single linkage (so its clusters are the connected components of
  the exact graph), the clusters behind the BLOSUM weights, and both identity filters. -/
namespace EaselModel.Weights
open WNum

/-- rationals with a rounded division -/
structure Rd (fl : ℚ → ℚ) where
  v : ℚ

variable {fl : ℚ → ℚ}

instance : WNum (Rd fl) where
  add a b := ⟨a.v + b.v⟩
  sub a b := ⟨a.v - b.v⟩
  mul a b := ⟨a.v * b.v⟩
  div a b := ⟨fl (a.v / b.v)⟩
  ofNat n := ⟨(n : ℚ)⟩
  leb a b := decide (a.v ≤ b.v)
  ltb a b := decide (a.v < b.v)
  isZero a := decide (a.v = 0)

theorem rd_div (a b : Rd fl) : (a / b).v = fl (a.v / b.v) := rfl
theorem rd_ofNat (n : Nat) : (WNum.ofNat n : Rd fl).v = (n : ℚ) := rfl
theorem rd_leb (a b : Rd fl) : WNum.leb a b = decide (a.v ≤ b.v) := rfl

/-- the loop of PairId never counts more positions than the first sequence has -/
theorem pairCounts_le (m : Mode) : ∀ (a b : Row) (nid l1 l2 nid' l1' l2' : Nat),
    pairCounts m a b nid l1 l2 = some (nid', l1', l2') → l1' ≤ l1 + a.length := by
  intro a
  induction a with
  | nil =>
    intro b nid l1 l2 nid' l1' l2' h
    cases b with
    | nil => simp only [pairCounts, Option.some.injEq, Prod.mk.injEq] at h; simp; omega
    | cons y ys => simp [pairCounts] at h
  | cons x xs ih =>
    intro b nid l1 l2 nid' l1' l2' h
    cases b with
    | nil => simp [pairCounts] at h
    | cons y ys =>
      simp only [pairCounts] at h
      have := ih ys _ _ _ _ _ _ h
      simp only [List.length_cons]
      split at this <;> omega

/-- what the two carriers compute for one pair: the same counts; the exact quotient resp. its rounding -/
theorem pid_cases (m : Mode) (a b : Row) :
    ((pid (α := Rd fl) m a b).v = 0 ∧ pid (α := ℚ) m a b = 0) ∨
    ∃ nid n : Nat, 0 < n ∧ n ≤ a.length ∧ nid ≤ n ∧
      (pid (α := Rd fl) m a b).v = fl ((nid : ℚ) / n) ∧ pid (α := ℚ) m a b = (nid : ℚ) / n := by
  have hr := pid_range' m a b
  unfold pid pairId at hr ⊢
  cases hc : pairCounts m a b 0 0 0 with
  | none => left; simp [rd_ofNat]
  | some t =>
    obtain ⟨nid, l1, l2⟩ := t
    rw [hc] at hr
    simp only at hr ⊢
    by_cases hn : ((if l1 < l2 then l1 else l2) == 0) = true
    · left
      rw [if_pos hn, if_pos hn]
      exact ⟨rfl, rfl⟩
    · right
      rw [if_neg hn] at hr
      rw [if_neg hn, if_neg hn]
      have hpos : 0 < (if l1 < l2 then l1 else l2) := by
        have : (if l1 < l2 then l1 else l2) ≠ 0 := by simpa using hn
        omega
      have hl := pairCounts_le m a b 0 0 0 nid l1 l2 hc
      refine ⟨nid, (if l1 < l2 then l1 else l2), hpos, by split <;> omega, ?_, rfl, rfl⟩
      have h1 := hr.2
      simp only [ofNat_rat] at h1
      have hq : (0 : ℚ) < ((if l1 < l2 then l1 else l2 : Nat) : ℚ) := by exact_mod_cast hpos
      rw [div_le_one hq] at h1
      exact_mod_cast h1

/-- the hypotheses on the rounding and on the sizes -/
structure RoundingOK (fl : ℚ → ℚ) (ε : ℚ) (B : Nat) : Prop where
  mono : ∀ x y, x ≤ y → fl x ≤ fl y
  err : ∀ x, 0 ≤ x → x ≤ 1 → |fl x - x| ≤ ε
  zero : fl 0 = 0
  small : 2 * ε * ((B : ℚ) * B) < 1

theorem RoundingOK.eps_nonneg {ε : ℚ} {B : Nat} (h : RoundingOK fl ε B) : 0 ≤ ε := by
  have := h.err 0 (le_refl _) (by norm_num)
  exact le_trans (abs_nonneg _) this

theorem RoundingOK.small' {ε : ℚ} {B : Nat} (h : RoundingOK fl ε B) {n q : Nat} (hn : n ≤ B) (hq : q ≤ B) :
    2 * ε * ((n : ℚ) * q) < 1 := by
  have h0 := h.eps_nonneg
  have hn' : (n : ℚ) ≤ B := by exact_mod_cast hn
  have hq' : (q : ℚ) ≤ B := by exact_mod_cast hq
  have : (n : ℚ) * q ≤ (B : ℚ) * B := mul_le_mul hn' hq' (by positivity) (by positivity)
  calc 2 * ε * ((n : ℚ) * q) ≤ 2 * ε * ((B : ℚ) * B) := by
        apply mul_le_mul_of_nonneg_left this; positivity
    _ < 1 := h.small

/-- THE decision: with the threshold `fl(p/q)` the rounded test `pid >= maxid` links a pair iff the exact one does -/
theorem linked_rd {ε : ℚ} {B : Nat} (h : RoundingOK fl ε B) (m : Mode) (p q : Nat) (hq : 0 < q) (hqB : q ≤ B) (hp : p ≤ q)
    (a b : Row) (ha : a.length ≤ B) :
    linked (α := Rd fl) m ⟨fl ((p : ℚ) / q)⟩ a b = linked (α := ℚ) m ((p : ℚ) / q) a b := by
  unfold linked
  rw [rd_leb, leb_rat]
  rcases pid_cases (fl := fl) m a b with ⟨h1, h2⟩ | ⟨nid, n, hn, hna, hnid, h1, h2⟩
  · rw [h1, h2]
    -- no residues in common range: pid = 0 on both sides; fl(p/q) ≤ 0 ↔ p/q ≤ 0
    have key : fl ((p : ℚ) / q) ≤ 0 ↔ (p : ℚ) / q ≤ 0 := by
      have := threshold_decision_exact fl ε h.mono h.err 0 1 p q Nat.one_pos hq (Nat.zero_le _) hp
        (by simpa using h.small' (n := 1) (q := q) (by omega) hqB)
      simpa [h.zero] using this
    simp only [decide_eq_decide]
    exact key
  · rw [h1, h2]
    simp only [decide_eq_decide]
    exact threshold_decision_exact fl ε h.mono h.err nid n p q hn hq hnid hp (h.small' (by omega) hqB)

theorem getD_len_le {rows : List Row} {B : Nat} (hB : ∀ r ∈ rows, r.length ≤ B) (v : Nat) : (rows.getD v []).length ≤ B := by
  rw [List.getD_eq_getElem?_getD]
  cases hv : rows[v]? with
  | none => simp
  | some r => simpa using hB r (List.mem_of_getElem? hv)

section lifted
variable {ε : ℚ} {B : Nat} (h : RoundingOK fl ε B) (m : Mode) (p q : Nat) (hq : 0 < q) (hqB : q ≤ B) (hp : p ≤ q)
  (rows : List Row) (hB : ∀ r ∈ rows, r.length ≤ B)
include h hq hqB hp hB

/-- `esl_msacluster_SingleLinkage` at a threshold that is a rounded attained identity: the rounded run returns the clusters
    of the exact run -/
theorem msaSingleLinkage_rd :
    msaSingleLinkage (α := Rd fl) m ⟨fl ((p : ℚ) / q)⟩ rows = msaSingleLinkage (α := ℚ) m ((p : ℚ) / q) rows := by
  unfold msaSingleLinkage
  congr 1
  funext v w
  exact linked_rd h m p q hq hqB hp _ _ (getD_len_le hB v)

/-- the greedy filter in any order of trial -/
theorem idFilterOrder_rd (order : List Nat) :
    idFilterOrder (α := Rd fl) m ⟨fl ((p : ℚ) / q)⟩ rows order = idFilterOrder (α := ℚ) m ((p : ℚ) / q) rows order := by
  unfold idFilterOrder
  congr 1
  funext r k
  exact linked_rd h m p q hq hqB hp _ _ (getD_len_le hB r)

/-- the clusters behind the BLOSUM weights are those of the exact run (the weights 1/|cluster| are then divisions of small
    integers, rounded once each, and normalised) -/
theorem blosum_rd :
    blosum (α := Rd fl) m ⟨fl ((p : ℚ) / q)⟩ rows =
      if rows.length == 1 then [ofNat 1] else
      normalizeToN ((assignment (msaSingleLinkage (α := ℚ) m ((p : ℚ) / q) rows) rows.length).map fun c =>
        (ofNat 1 : Rd fl) / ofNat ((clusterSizes (assignment (msaSingleLinkage (α := ℚ) m ((p : ℚ) / q) rows) rows.length)
          (msaSingleLinkage (α := ℚ) m ((p : ℚ) / q) rows).length).getD c 0)) := by
  unfold blosum
  rw [msaSingleLinkage_rd h m p q hq hqB hp rows hB]

end lifted

/-- non-vacuity: a genuinely lossy rounding that satisfies the hypotheses with ε > 0 (every value shrunk by the relative
    amount 2⁻²⁰), for alignments up to 400 columns -/
def flRel (x : ℚ) : ℚ := x * (1 - 1 / 1048576)

theorem flRel_ok : RoundingOK flRel (1 / 1048576) 400 := by
  refine ⟨?_, ?_, ?_, by norm_num⟩
  · intro x y hxy
    unfold flRel
    exact mul_le_mul_of_nonneg_right hxy (by norm_num)
  · intro x h0 h1
    unfold flRel
    have : x * (1 - 1 / 1048576) - x = -(x / 1048576) := by ring
    rw [this, abs_neg, abs_of_nonneg (by positivity)]
    apply div_le_div_of_nonneg_right h1 (by norm_num)
  · unfold flRel; simp

end EaselModel.Weights
