import EaselModel.Weights.Model
import Mathlib.Tactic.Ring
import Mathlib.Tactic.FieldSimp
import Mathlib.Tactic.Linarith
import Mathlib.Tactic.Positivity
import Mathlib.Algebra.Order.Field.Rat
import Mathlib.Algebra.BigOperators.Group.List.Basic
/-! C16 helper lemmas, part 1: the exact (`ℚ`) instance of the numeric class, pairwise identity, compensated sum and
    normalisation, the greedy %id filter. -/
namespace EaselModel.Weights
open WNum

/-- exact arithmetic: the instance the theorems are about -/
instance : WNum ℚ where
  ofNat n := (n : ℚ)
  leb a b := decide (a ≤ b)
  ltb a b := decide (a < b)
  isZero a := decide (a = 0)

@[simp] theorem ofNat_rat (n : Nat) : (WNum.ofNat n : ℚ) = (n : ℚ) := rfl
@[simp] theorem leb_rat (a b : ℚ) : WNum.leb a b = decide (a ≤ b) := rfl
@[simp] theorem ltb_rat (a b : ℚ) : WNum.ltb a b = decide (a < b) := rfl
@[simp] theorem isZero_rat (a : ℚ) : WNum.isZero a = decide (a = 0) := rfl

/-! ## pairwise identity -/

/-- identical residue pairs -/
def nidSpec (m : Mode) (a b : Row) : Nat :=
  (List.zip a b).countP fun p => m.isRes p.1 && m.isRes p.2 && m.key p.1 == m.key p.2

/-- ungapped length -/
def lenSpec (m : Mode) (a : Row) : Nat := a.countP m.isRes

theorem pairCounts_eq (m : Mode) (a b : Row) (h : a.length = b.length) (nid l1 l2 : Nat) :
    pairCounts m a b nid l1 l2 = some (nid + nidSpec m a b, l1 + lenSpec m a, l2 + lenSpec m b) := by
  induction a generalizing b nid l1 l2 with
  | nil =>
    cases b with
    | nil => simp [pairCounts, nidSpec, lenSpec]
    | cons y ys => simp at h
  | cons x xs ih =>
    cases b with
    | nil => simp at h
    | cons y ys =>
      simp only [List.length_cons, Nat.add_right_cancel_iff] at h
      rw [pairCounts, ih ys h]
      simp only [nidSpec, lenSpec, List.zip_cons_cons, List.countP_cons]
      congr 2
      · split <;> simp_all <;> omega
      · congr 1
        · split <;> simp_all <;> omega
        · split <;> simp_all <;> omega

theorem pairCounts_none (m : Mode) (a b : Row) (h : a.length ≠ b.length) (nid l1 l2 : Nat) :
    pairCounts m a b nid l1 l2 = none := by
  induction a generalizing b nid l1 l2 with
  | nil =>
    cases b with
    | nil => simp at h
    | cons y ys => simp [pairCounts]
  | cons x xs ih =>
    cases b with
    | nil => simp [pairCounts]
    | cons y ys =>
      rw [pairCounts]
      apply ih
      simpa using h

theorem nidSpec_comm (m : Mode) (a b : Row) : nidSpec m a b = nidSpec m b a := by
  induction a generalizing b with
  | nil => cases b <;> simp [nidSpec]
  | cons x xs ih =>
    cases b with
    | nil => simp [nidSpec]
    | cons y ys =>
      have := ih ys
      simp only [nidSpec, List.zip_cons_cons, List.countP_cons] at this ⊢
      rw [this]
      congr 1
      have e : (m.key x == m.key y) = (m.key y == m.key x) := BEq.comm
      rw [e, Bool.and_comm (m.isRes x)]

theorem nidSpec_self (m : Mode) (a : Row) : nidSpec m a a = lenSpec m a := by
  induction a with
  | nil => simp [nidSpec, lenSpec]
  | cons x xs ih =>
    simp only [nidSpec, lenSpec, List.zip_cons_cons, List.countP_cons] at ih ⊢
    rw [ih]; simp

theorem nidSpec_le_left (m : Mode) (a b : Row) : nidSpec m a b ≤ lenSpec m a := by
  induction a generalizing b with
  | nil => cases b <;> simp [nidSpec]
  | cons x xs ih =>
    cases b with
    | nil => simp [nidSpec]
    | cons y ys =>
      have := ih ys
      simp only [nidSpec, lenSpec, List.zip_cons_cons, List.countP_cons] at this ⊢
      split <;> split <;> simp_all <;> omega

theorem nidSpec_le_right (m : Mode) (a b : Row) : nidSpec m a b ≤ lenSpec m b := by
  rw [nidSpec_comm]; exact nidSpec_le_left m b a

/-- the spec value: identical pairs over the shorter ungapped length, 0 if that is 0 -/
def pidSpec (m : Mode) (a b : Row) : ℚ :=
  if min (lenSpec m a) (lenSpec m b) = 0 then 0 else (nidSpec m a b : ℚ) / (min (lenSpec m a) (lenSpec m b) : ℕ)

theorem pairId_aligned (m : Mode) (a b : Row) (h : a.length = b.length) :
    pairId (α := ℚ) m a b = some (pidSpec m a b, nidSpec m a b, min (lenSpec m a) (lenSpec m b)) := by
  unfold pairId
  rw [pairCounts_eq m a b h]
  simp only [Nat.zero_add, pidSpec, ofNat_rat]
  have e : (if lenSpec m a < lenSpec m b then lenSpec m a else lenSpec m b) = min (lenSpec m a) (lenSpec m b) := by
    split <;> omega
  rw [e]
  by_cases h0 : min (lenSpec m a) (lenSpec m b) = 0 <;> simp [h0]

theorem pairId_unaligned' (m : Mode) (a b : Row) (h : a.length ≠ b.length) : pairId (α := ℚ) m a b = none := by
  unfold pairId; rw [pairCounts_none m a b h]

theorem pid_eq (m : Mode) (a b : Row) (h : a.length = b.length) : pid (α := ℚ) m a b = pidSpec m a b := by
  unfold pid; rw [pairId_aligned m a b h]

theorem pidSpec_comm (m : Mode) (a b : Row) : pidSpec m a b = pidSpec m b a := by
  unfold pidSpec; rw [nidSpec_comm, Nat.min_comm]

theorem pid_comm (m : Mode) (a b : Row) : pid (α := ℚ) m a b = pid m b a := by
  by_cases h : a.length = b.length
  · rw [pid_eq m a b h, pid_eq m b a h.symm, pidSpec_comm]
  · unfold pid; rw [pairId_unaligned' m a b h, pairId_unaligned' m b a (Ne.symm h)]

theorem pidSpec_nonneg (m : Mode) (a b : Row) : 0 ≤ pidSpec m a b := by
  unfold pidSpec; split
  · exact le_refl 0
  · positivity

theorem pidSpec_le_one (m : Mode) (a b : Row) : pidSpec m a b ≤ 1 := by
  unfold pidSpec; split
  · exact zero_le_one
  · rename_i h
    have hpos : (0 : ℚ) < (min (lenSpec m a) (lenSpec m b) : ℕ) := by
      have : 0 < min (lenSpec m a) (lenSpec m b) := Nat.pos_of_ne_zero h
      exact_mod_cast this
    rw [div_le_one hpos]
    have : nidSpec m a b ≤ min (lenSpec m a) (lenSpec m b) :=
      Nat.le_min.mpr ⟨nidSpec_le_left m a b, nidSpec_le_right m a b⟩
    exact_mod_cast this

/-- threshold links are symmetric -/
theorem linked_comm (m : Mode) (maxid : ℚ) (a b : Row) : linked m maxid a b = linked m maxid b a := by
  unfold linked; rw [pid_comm]

/-! ## compensated sum, normalisation -/

theorem kahan_foldl (xs : List ℚ) (s : ℚ) : xs.foldl kahanStep (s, 0) = (s + xs.sum, 0) := by
  induction xs generalizing s with
  | nil => simp
  | cons x xs ih =>
    have : kahanStep (s, (0 : ℚ)) x = (s + x, 0) := by
      simp only [kahanStep, Prod.mk.injEq]; constructor <;> ring
    rw [List.foldl_cons, this, ih, List.sum_cons]; congr 1; ring

/-- in exact arithmetic the compensation term stays 0 and `esl_vec_DSum` is the sum -/
theorem dsum_eq_sum (xs : List ℚ) : dsum xs = xs.sum := by
  unfold dsum; rw [show ((ofNat 0 : ℚ), (ofNat 0 : ℚ)) = ((0 : ℚ), (0 : ℚ)) by simp, kahan_foldl]; simp

theorem sum_map_div (xs : List ℚ) (c : ℚ) : (xs.map (· / c)).sum = xs.sum / c := by
  induction xs with
  | nil => simp
  | cons x xs ih => simp only [List.map_cons, List.sum_cons, ih]; ring

theorem sum_map_mul (xs : List ℚ) (c : ℚ) : (xs.map (· * c)).sum = xs.sum * c := by
  induction xs with
  | nil => simp
  | cons x xs ih => simp only [List.map_cons, List.sum_cons, ih]; ring

theorem sum_map_const (xs : List ℚ) (c : ℚ) : (xs.map (fun _ => c)).sum = xs.length * c := by
  induction xs with
  | nil => simp
  | cons x xs ih => simp only [List.map_cons, List.sum_cons, ih, List.length_cons]; push_cast; ring

theorem dnorm_sum (xs : List ℚ) (hne : xs ≠ []) : (dnorm xs).sum = 1 := by
  unfold dnorm
  simp only [dsum_eq_sum, isZero_rat, ofNat_rat, Nat.cast_one]
  have hl : (xs.length : ℚ) ≠ 0 := by
    have : xs.length ≠ 0 := by simpa using hne
    exact_mod_cast this
  by_cases h : xs.sum = 0
  · simp only [h, decide_true, ↓reduceIte, sum_map_const]
    field_simp
  · simp only [h, decide_false, Bool.false_eq_true, ↓reduceIte, sum_map_div]
    field_simp

/-- `esl_vec_DNorm` + `esl_vec_DScale(N)`: the result sums to N (for any input, including the all-zero vector) -/
theorem normalizeToN_sum (xs : List ℚ) (hne : xs ≠ []) : (normalizeToN xs).sum = xs.length := by
  unfold normalizeToN
  simp only [ofNat_rat, sum_map_mul, dnorm_sum xs hne, one_mul]

theorem normalizeToN_length (xs : List ℚ) : (normalizeToN xs).length = xs.length := by
  unfold normalizeToN dnorm; simp only [List.length_map]; split <;> simp

theorem list_sum_nonneg (xs : List ℚ) (h : ∀ x ∈ xs, 0 ≤ x) : 0 ≤ xs.sum := by
  induction xs with
  | nil => simp
  | cons x xs ih =>
    simp only [List.sum_cons]
    have := h x (by simp)
    have := ih (fun y hy => h y (by simp [hy]))
    linarith

theorem normalizeToN_nonneg (xs : List ℚ) (h : ∀ x ∈ xs, 0 ≤ x) : ∀ y ∈ normalizeToN xs, 0 ≤ y := by
  intro y hy
  unfold normalizeToN dnorm at hy
  simp only [dsum_eq_sum, isZero_rat, ofNat_rat] at hy
  have hs := list_sum_nonneg xs h
  split at hy
  · simp only [List.map_map, List.mem_map, Function.comp] at hy
    obtain ⟨x, _, rfl⟩ := hy
    positivity
  · simp only [List.map_map, List.mem_map, Function.comp] at hy
    obtain ⟨x, hx, rfl⟩ := hy
    have := h x hx
    positivity

/-- closed form of the normalisation: `w_i = x_i / Σx · N`, or 1 when `Σx = 0` -/
theorem normalizeToN_getElem (xs : List ℚ) (i : Nat) (hi : i < xs.length) :
    (normalizeToN xs)[i]'(by rw [normalizeToN_length]; exact hi) =
      if xs.sum = 0 then 1 else xs[i] / xs.sum * xs.length := by
  unfold normalizeToN dnorm
  simp only [dsum_eq_sum, isZero_rat, ofNat_rat, Nat.cast_one]
  have hl : (xs.length : ℚ) ≠ 0 := by
    have : xs.length ≠ 0 := by omega
    exact_mod_cast this
  by_cases h : xs.sum = 0
  · simp only [h, decide_true, ↓reduceIte, List.map_map, List.getElem_map, Function.comp]
    field_simp
  · simp [h]

theorem normalizeToN_map_eq (xs : List ℚ) (i j : Nat) (hi : i < xs.length) (hj : j < xs.length) (h : xs[i] = xs[j]) :
    (normalizeToN xs)[i]'(by rw [normalizeToN_length]; exact hi) = (normalizeToN xs)[j]'(by rw [normalizeToN_length]; exact hj) := by
  rw [normalizeToN_getElem xs i hi, normalizeToN_getElem xs j hj, h]

/-! ## the greedy %id filter -/

theorem filterGreedy_mono (link : Nat → Nat → Bool) (order list : List Nat) :
    ∀ x ∈ list, x ∈ filterGreedy link order list := by
  induction order generalizing list with
  | nil => intro x hx; simpa [filterGreedy] using hx
  | cons r rest ih =>
    intro x hx
    rw [filterGreedy]; split
    · exact ih list x hx
    · exact ih _ x (by simp [hx])

theorem filterGreedy_subset (link : Nat → Nat → Bool) (order list : List Nat) :
    ∀ x ∈ filterGreedy link order list, x ∈ list ∨ x ∈ order := by
  induction order generalizing list with
  | nil => intro x hx; left; simpa [filterGreedy] using hx
  | cons r rest ih =>
    intro x hx
    rw [filterGreedy] at hx; split at hx
    · rcases ih list x hx with h | h
      · exact Or.inl h
      · exact Or.inr (by simp [h])
    · rcases ih _ x hx with h | h
      · simp only [List.mem_append, List.mem_singleton] at h
        rcases h with h | h
        · exact Or.inl h
        · exact Or.inr (by simp [h])
      · exact Or.inr (by simp [h])

/-- no candidate is linked to a row accepted before it: the kept list is pairwise unlinked (candidate first, as the
    C code calls the comparison) provided the candidates are distinct -/
theorem filterGreedy_independent (link : Nat → Nat → Bool) (order list : List Nat)
    (hnd : order.Nodup) (hdisj : ∀ x ∈ order, x ∉ list)
    (hl : list.Pairwise (fun k r => link r k = false)) :
    (filterGreedy link order list).Pairwise (fun k r => link r k = false) := by
  induction order generalizing list with
  | nil => simpa [filterGreedy] using hl
  | cons r rest ih =>
    rw [filterGreedy]
    have hnd' := (List.nodup_cons.mp hnd).2
    split
    · exact ih list hnd' (fun x hx => hdisj x (by simp [hx])) hl
    · rename_i hany
      apply ih _ hnd'
      · intro x hx
        simp only [List.mem_append, List.mem_singleton, not_or]
        refine ⟨hdisj x (by simp [hx]), ?_⟩
        rintro rfl
        exact (List.nodup_cons.mp hnd).1 hx
      · rw [List.pairwise_append]
        refine ⟨hl, by simp, ?_⟩
        intro k hk r' hr'
        simp only [List.mem_singleton] at hr'
        subst hr'
        simp only [List.any_eq_true, not_exists, not_and, Bool.not_eq_true] at hany
        exact hany k hk

/-- every candidate that was not kept is linked to a kept row -/
theorem filterGreedy_maximal (link : Nat → Nat → Bool) (order list : List Nat) :
    ∀ r ∈ order, r ∉ filterGreedy link order list → ∃ k ∈ filterGreedy link order list, link r k = true := by
  induction order generalizing list with
  | nil => intro r hr; simp at hr
  | cons c rest ih =>
    intro r hr hnot
    rw [filterGreedy] at hnot ⊢
    split at hnot
    · rename_i hany
      rw [if_pos hany]
      simp only [List.mem_cons] at hr
      rcases hr with rfl | hr
      · simp only [List.any_eq_true] at hany
        obtain ⟨k, hk, hlk⟩ := hany
        exact ⟨k, filterGreedy_mono link rest list k hk, hlk⟩
      · exact ih list r hr hnot
    · rename_i hany
      rw [if_neg hany]
      simp only [List.mem_cons] at hr
      rcases hr with rfl | hr
      · exact absurd (filterGreedy_mono link rest _ r (by simp)) hnot
      · exact ih _ r hr hnot

end EaselModel.Weights
