import EaselModel.Weights.Model
/-! C16 — `esl_tree_UPGMA` on an ARBITRARY distance matrix and the tree it returns in the layout of `ESL_TREE`
    (`left right parent ld rd`, `taxaparent` of `esl_tree_SetTaxaParents`, `cladesize` of `esl_tree_SetCladesizes`), and the
    GSC traversals on an arbitrary tree. Core Lean only; the engine is `kstep`/`krun` of `Weights/Model.lean`.

    `cluster_engine` reads only the upper triangle `D->mx[row][col]`, row < col, of the matrix it is given (the minimum
    search) and mirrors every value it writes; a distance function `d x y` for x < y therefore stands for "every symmetric
    matrix with any diagonal" (the C code asserts a zero diagonal and symmetry at debug level ≥ 1 only). -/
namespace EaselModel.Weights
open WNum

/-- the state `cluster_engine` starts from, for distances `d x y` (x < y < n) -/
def kinitMx {α} [WNum α] (n : Nat) (d : Nat → Nat → α) : KState α :=
  { rows := ((List.range n).map fun y => ((List.range y).map fun x => d x y).toArray).toArray
    size := Array.replicate n 1
    hgt := Array.replicate n (ofNat 0)
    act := Array.range n
    nodes := [] }

/-- the alignment entry point is the instance "d = 1 − pairwise identity" -/
theorem kinit_eq_kinitMx {α} [WNum α] (m : Mode) (rws : List Row) :
    kinit (α := α) m rws = kinitMx rws.length (fun x y => ofNat 1 - pid m (rws.getD x []) (rws.getD y [])) := rfl

/-- `esl_tree_UPGMA(D, &T)` for n ≥ 2 taxa: the state after the n−1 passes -/
def upgma {α} [WNum α] (n : Nat) (d : Nat → Nat → α) : KState α := krun n (kinitMx n d) (n - 1)

/-- how `ESL_TREE` refers to a cluster: taxon t as `-t`, the node created in pass s (cluster n+s) as node n−2−s -/
def cRef (n c : Nat) : Int := if c < n then -(c : Int) else ((2 * n - 2 - c : Nat) : Int)

/-- position (= C node index when the tree is complete) of the node that has cluster `c` as a child; 0 if none (root) -/
def parentIdx {α} (nodes : List (KNode α)) (c : Nat) : Nat :=
  let k := nodes.findIdx fun nd => nd.I == c || nd.J == c
  if k < nodes.length then k else 0

structure CTree (α : Type) where
  left : List Int
  right : List Int
  parent : List Int
  ld : List α
  rd : List α
  taxaparent : List Int
  cladesize : List Nat

/-- the finished tree in C layout; `st.nodes` is newest first, i.e. already in C node order 0..n−2 -/
def toCTree {α} (n : Nat) (st : KState α) : CTree α :=
  let cs := kclades n st.nodes.reverse
  { left := st.nodes.map fun nd => cRef n nd.I
    right := st.nodes.map fun nd => cRef n nd.J
    parent := (List.range st.nodes.length).map fun k => (parentIdx st.nodes (2 * n - 2 - k) : Int)
    ld := st.nodes.map (·.l)
    rd := st.nodes.map (·.r)
    taxaparent := (List.range n).map fun t => (parentIdx st.nodes t : Int)
    cladesize := (List.range st.nodes.length).map fun k => cs.getD (2 * n - 2 - k) 0 }

/-- all children named by the nodes, in creation order -/
def childrenOf {α} (created : List (KNode α)) : List Nat := created.flatMap fun nd => [nd.I, nd.J]

/-- a rooted binary tree on n taxa given as its internal nodes in creation order (node s is cluster n+s): n−1 nodes, each
    joining two different, earlier clusters, and every taxon and every node but the last is a child exactly once -/
structure WellFormed {α} (n : Nat) (created : List (KNode α)) : Prop where
  length : created.length = n - 1
  earlier : ∀ s (h : s < created.length), created[s].I < n + s ∧ created[s].J < n + s ∧ created[s].I ≠ created[s].J
  children : (childrenOf created).Perm (List.range (2 * n - 2))

def wellFormedB {α} (n : Nat) (created : List (KNode α)) : Bool :=
  created.length == n - 1 &&
  (List.range created.length).all (fun s => match created[s]? with
    | some nd => decide (nd.I < n + s) && decide (nd.J < n + s) && nd.I != nd.J
    | none => false) &&
  (List.range (2 * n - 2)).all (fun c => (childrenOf created).count c == 1) && (childrenOf created).length == 2 * n - 2

/-- the two traversals of `esl_msaweight_GSC` on an arbitrary node list (newest = root first), before normalisation -/
def gscTreeRaw {α} [WNum α] (n : Nat) (nodes : List (KNode α)) : List α :=
  let created := nodes.reverse
  let above := kdown n (kclades n created) (kup n created) nodes
  (List.range n).map (lookupD above)

/-- GSC weights of an arbitrary tree on n ≥ 2 taxa -/
def gscTree {α} [WNum α] (n : Nat) (nodes : List (KNode α)) : List α := normalizeToN (gscTreeRaw n nodes)

theorem gscRaw_eq_gscTreeRaw {α} [WNum α] (m : Mode) (rows : List Row) :
    gscRaw (α := α) m rows = gscTreeRaw rows.length (krun rows.length (kinit (α := α) m rows) (rows.length - 1)).nodes := rfl

/-- `esl_msaweight_GSC` = the traversals applied to the UPGMA tree of the difference matrix -/
theorem gsc_eq_gscTree {α} [WNum α] (m : Mode) (rows : List Row) (h : (rows.length == 1) = false) :
    gsc (α := α) m rows =
      gscTree rows.length (upgma rows.length (fun x y => ofNat 1 - pid m (rows.getD x []) (rows.getD y []))).nodes := by
  unfold gsc; rw [h]; rfl

end EaselModel.Weights
