import EaselModel.Weights.TreeLemmas
import EaselModel.Weights.Engine
/-! C16 helper lemmas, part 17: `cluster_engine` in every mode (UPGMA, WPGMA, single, complete linkage), for EVERY matrix:
    the result is a well-formed rooted binary tree; the recorded join values never decrease (all four rules are reducible:
    a distance to the merged cluster is a minimum / maximum / (weighted) mean of two distances that were ≥ the current
    minimum); branch lengths are `height` in a linkage tree and exact height differences in an additive tree (the clamp
    `ESL_MAX(0., …)` never acts in exact arithmetic), hence ≥ 0 as soon as the FIRST join value is ≥ 0. -/
namespace EaselModel.Weights
open WNum

/-! ### structure -/

theorem lstep_act_size (L : Link) (n : Nat) (st : KState ℚ) (hN : 2 ≤ st.act.size) :
    (lstep L n st).act.size = st.act.size - 1 := kstep_act_size n st hN

theorem lstep_struct (L : Link) (n k : Nat) (st : KState ℚ) (h : KStruct n k st) (hk : k + 2 ≤ n) :
    KStruct n (k + 1) (lstep L n st) := by
  have hN : 2 ≤ st.act.size := by have := h.asize; omega
  obtain ⟨_, _, a3, a4⟩ := kfindMin_spec st.rows st.act hN
  have hij : kPosI st < kPosJ st := a3
  have hj : kPosJ st < st.act.size := a4
  obtain ⟨L', hL1, hL2⟩ := kAct_spec st hN hij hj
  have hImem : kI st ∈ st.act.toList := mem_of_getD st.act (by omega)
  have hJmem : kJ st ∈ st.act.toList := mem_of_getD st.act hj
  have hIJ : kI st ≠ kJ st := by
    intro e
    have := pos_inj st.act h.nd (by omega : kPosI st < st.act.size) hj e
    omega
  have hLnd : (L' ++ [kI st, kJ st]).Nodup := hL2.nodup_iff.mpr h.nd
  have hLsub : ∀ x ∈ L', x ∈ st.act.toList := fun x hx => hL2.subset (List.mem_append_left _ hx)
  have hact : (lstep L n st).act.toList = L' ++ [st.rows.size] := hL1
  have hnodes : (lstep L n st).nodes =
      (⟨kI st, kJ st, lbranch L n st (lH L st) (kI st), lbranch L n st (lH L st) (kJ st)⟩ : KNode ℚ) :: st.nodes := rfl
  refine ⟨?_, ?_, ?_, ?_, ?_, ?_, ?_⟩
  · rw [hact]
    have hL' : L'.Nodup := (List.nodup_append.mp hLnd).1
    refine List.nodup_append.mpr ⟨hL', by simp, ?_⟩
    intro a ha b hb
    have hb' : b = st.rows.size := by simpa using hb
    have := h.alt a (hLsub a ha)
    rw [hb', h.rsize]; omega
  · have := lstep_act_size L n st hN
    have := h.asize
    omega
  · show (st.rows.push (lRow L st)).size = n + (k + 1)
    rw [Array.size_push, h.rsize]; omega
  · rw [hnodes, List.length_cons, h.len]
  · intro x hx
    rw [hact] at hx
    rcases List.mem_append.mp hx with hx | hx
    · have := h.alt x (hLsub x hx); omega
    · have : x = st.rows.size := by simpa using hx
      rw [this, h.rsize]; omega
  · rw [hnodes]
    refine ⟨?_, ?_, hIJ, h.ok⟩
    · show kI st < n + st.nodes.length
      rw [h.len]; exact h.alt _ hImem
    · show kJ st < n + st.nodes.length
      rw [h.len]; exact h.alt _ hJmem
  · rw [hnodes, childrenOf_reverse_cons, hact, h.rsize]
    show (childrenOf st.nodes.reverse ++ [kI st, kJ st] ++ (L' ++ [n + k])).Perm (List.range (n + (k + 1)))
    have e : List.range (n + (k + 1)) = List.range (n + k) ++ [n + k] := by
      rw [show n + (k + 1) = (n + k) + 1 from rfl, List.range_succ]
    rw [e]
    have p1 : (childrenOf st.nodes.reverse ++ [kI st, kJ st] ++ (L' ++ [n + k])).Perm
        ((childrenOf st.nodes.reverse ++ (L' ++ [kI st, kJ st])) ++ [n + k]) := by
      simp only [List.append_assoc]
      apply List.Perm.append_left
      rw [← List.append_assoc, ← List.append_assoc]
      exact List.Perm.append_right _ List.perm_append_comm
    refine p1.trans (List.Perm.append_right _ ?_)
    exact (List.Perm.append_left _ hL2).trans h.perm

theorem lrun_struct (L : Link) (n : Nat) (d : Nat → Nat → ℚ) (k : Nat) (hk : k + 1 ≤ n) :
    KStruct n k (lrun L n (kinitMx n d) k) := by
  induction k with
  | zero => exact kinitMx_struct n d
  | succ k ih => exact lstep_struct L n k _ (ih (by omega)) (by omega)

/-- a complete run (n−1 passes, one active cluster left) whose state satisfies `KStruct` is a well-formed tree -/
theorem wellFormed_of_struct (n : Nat) (hn : 2 ≤ n) (st : KState ℚ) (h : KStruct n (n - 1) st) :
    WellFormed n st.nodes.reverse := by
  have hidx := NodesOK.indexed h.ok
  refine ⟨by rw [List.length_reverse]; exact h.len, hidx, ?_⟩
  have hsz : st.act.toList.length = 1 := by
    have := h.asize
    simp only [Array.length_toList]
    omega
  obtain ⟨x, hx⟩ := List.length_eq_one_iff.mp hsz
  have hp : (childrenOf st.nodes.reverse ++ [x]).Perm (List.range (2 * n - 2) ++ [2 * n - 2]) := by
    have := h.perm
    rw [hx] at this
    have e : List.range (2 * n - 2) ++ [2 * n - 2] = List.range (n + (n - 1)) := by
      rw [← List.range_succ]; congr 1; omega
    rw [e]; exact this
  have hroot_notin : (2 * n - 2) ∉ childrenOf st.nodes.reverse := by
    intro hmem
    unfold childrenOf at hmem
    obtain ⟨nd, hnd, hc⟩ := List.mem_flatMap.mp hmem
    obtain ⟨s, hs, rfl⟩ := List.mem_iff_getElem.mp hnd
    have hb := hidx s hs
    have hs' : s < n - 1 := by
      have : st.nodes.reverse.length = n - 1 := by rw [List.length_reverse]; exact h.len
      omega
    simp only [List.mem_cons, List.not_mem_nil, or_false] at hc
    rcases hc with hc | hc <;> omega
  have hx2 : x = 2 * n - 2 := by
    have hmem : (2 * n - 2) ∈ childrenOf st.nodes.reverse ++ [x] := hp.symm.subset (by simp)
    rcases List.mem_append.mp hmem with hm | hm
    · exact absurd hm hroot_notin
    · exact (List.mem_singleton.mp hm).symm
  rw [hx2] at hp
  exact (List.perm_append_right_iff _).mp hp

theorem linkTree_wellFormed (L : Link) (n : Nat) (hn : 2 ≤ n) (d : Nat → Nat → ℚ) :
    WellFormed n (linkTree L n d).nodes.reverse :=
  wellFormed_of_struct n hn _ (lrun_struct L n d (n - 1) (by omega))

/-! ### join values are monotone; branch lengths -/

/-- the value a join at distance `m` is recorded with (`height[N-2]`) -/
def Link.hOf (L : Link) (m : ℚ) : ℚ := if L.isLinkage then m else m / 2

theorem Link.hOf_mono (L : Link) {a b : ℚ} (h : a ≤ b) : L.hOf a ≤ L.hOf b := by
  unfold Link.hOf; split <;> linarith

theorem lH_eq (L : Link) (st : KState ℚ) : lH L st = L.hOf (kMin st).1 := by
  unfold lH Link.hOf; split <;> simp

/-- newest-first node list against the height table, in mode `L` -/
def NodesL (L : Link) (n : Nat) (hgt : Array ℚ) : List (KNode ℚ) → Prop
  | [] => True
  | nd :: rest =>
    nd.l = (if L.isLinkage then hgt.getD (n + rest.length) 0 else hgt.getD (n + rest.length) 0 - hgt.getD nd.I 0) ∧
    nd.r = (if L.isLinkage then hgt.getD (n + rest.length) 0 else hgt.getD (n + rest.length) 0 - hgt.getD nd.J 0) ∧
    (n ≤ nd.I → hgt.getD nd.I 0 ≤ hgt.getD (n + rest.length) 0) ∧
    (n ≤ nd.J → hgt.getD nd.J 0 ≤ hgt.getD (n + rest.length) 0) ∧
    (rest ≠ [] → hgt.getD (n + rest.length - 1) 0 ≤ hgt.getD (n + rest.length) 0) ∧ NodesL L n hgt rest

theorem NodesL.push {L : Link} {n : Nat} {hgt : Array ℚ} (v : ℚ) : ∀ {nodes : List (KNode ℚ)}, NodesL L n hgt nodes →
    NodesOK n nodes → n + nodes.length ≤ hgt.size → NodesL L n (hgt.push v) nodes
  | [], _, _, _ => trivial
  | nd :: rest, h, hok, hsz => by
    obtain ⟨h1, h2, h3, h4, h5, h6⟩ := h
    obtain ⟨o1, o2, _, o4⟩ := hok
    simp only [List.length_cons] at hsz
    have e0 : (hgt.push v).getD (n + rest.length) 0 = hgt.getD (n + rest.length) 0 := getD_push_lt _ _ _ (by omega)
    have e1 : (hgt.push v).getD nd.I 0 = hgt.getD nd.I 0 := getD_push_lt _ _ _ (by omega)
    have e2 : (hgt.push v).getD nd.J 0 = hgt.getD nd.J 0 := getD_push_lt _ _ _ (by omega)
    have e3 : (hgt.push v).getD (n + rest.length - 1) 0 = hgt.getD (n + rest.length - 1) 0 := getD_push_lt _ _ _ (by omega)
    refine ⟨by rw [e0, e1]; exact h1, by rw [e0, e2]; exact h2, fun hc => by rw [e0, e1]; exact h3 hc,
      fun hc => by rw [e0, e2]; exact h4 hc, fun hne => by rw [e0, e3]; exact h5 hne, NodesL.push v h6 o4 (by omega)⟩

theorem NodesL.indexed {L : Link} {n : Nat} {hgt : Array ℚ} : ∀ {nodes : List (KNode ℚ)}, NodesL L n hgt nodes →
    ∀ s (h : s < nodes.reverse.length),
      (nodes.reverse[s]).l = (if L.isLinkage then hgt.getD (n + s) 0 else hgt.getD (n + s) 0 - hgt.getD (nodes.reverse[s]).I 0) ∧
      (nodes.reverse[s]).r = (if L.isLinkage then hgt.getD (n + s) 0 else hgt.getD (n + s) 0 - hgt.getD (nodes.reverse[s]).J 0) ∧
      (n ≤ (nodes.reverse[s]).I → hgt.getD (nodes.reverse[s]).I 0 ≤ hgt.getD (n + s) 0) ∧
      (n ≤ (nodes.reverse[s]).J → hgt.getD (nodes.reverse[s]).J 0 ≤ hgt.getD (n + s) 0) ∧
      (0 < s → hgt.getD (n + s - 1) 0 ≤ hgt.getD (n + s) 0)
  | [], _, s, h => by simp at h
  | nd :: rest, hh, s, h => by
    obtain ⟨h1, h2, h3, h4, h5, h6⟩ := hh
    by_cases hs : s < rest.length
    · have e : (nd :: rest).reverse[s] = rest.reverse[s]'(by simpa using hs) := by
        simp only [List.reverse_cons]
        rw [List.getElem_append_left (by simpa using hs)]
      rw [e]; exact NodesL.indexed h6 s (by simpa using hs)
    · have hlen : s < rest.length + 1 := by simpa using h
      have hs' : s = rest.length := by omega
      subst hs'
      have e : (nd :: rest).reverse[rest.length] = nd := by
        simp only [List.reverse_cons]
        rw [List.getElem_append_right (by simp)]
        simp
      rw [e]
      exact ⟨h1, h2, h3, h4, fun hpos => h5 (by intro hnil; rw [hnil] at hpos; simp at hpos)⟩

/-- invariant after k passes in mode `L`: `m` ≤ every distance between two active clusters, and every recorded height of a
    node is ≤ the value a join at `m` would be recorded with -/
structure LMono (L : Link) (n k : Nat) (st : KState ℚ) (m : ℚ) : Prop where
  hsize : st.hgt.size = n + k
  ssize : st.size.size = n + k
  taxa : ∀ t, t < n → st.hgt.getD t 0 = 0
  le : ∀ c, n ≤ c → c < n + k → st.hgt.getD c 0 ≤ L.hOf m
  far : ∀ x ∈ st.act.toList, ∀ y ∈ st.act.toList, x ≠ y → m ≤ kdist st.rows x y
  pos : ∀ x ∈ st.act.toList, 0 < st.size.getD x 0
  nodes : NodesL L n st.hgt st.nodes

theorem weighted_avg_lower {a b : Nat} (ha : 0 < a) (hb : 0 < b) {x y lo : ℚ} (hx : lo ≤ x) (hy : lo ≤ y) :
    lo ≤ ((a : ℚ) * x + (b : ℚ) * y) / ((a + b : Nat) : ℚ) := by
  have ha' : (0 : ℚ) < a := by exact_mod_cast ha
  have hb' : (0 : ℚ) < b := by exact_mod_cast hb
  have hab : (0 : ℚ) < ((a + b : Nat) : ℚ) := by push_cast; linarith
  rw [le_div_iff₀ hab]; push_cast; nlinarith [hx, hy]

/-- every merge rule returns a value ≥ any common lower bound of its two operands -/
theorem lmerged_lower (L : Link) (rows : Array (Array ℚ)) (nI nJ I J x : Nat) (hI : 0 < nI) (hJ : 0 < nJ) {lo : ℚ}
    (h1 : lo ≤ kdist rows I x) (h2 : lo ≤ kdist rows J x) : lo ≤ lmerged L rows nI nJ I J x := by
  cases L with
  | upgma => exact weighted_avg_lower hI hJ h1 h2
  | wpgma =>
    show lo ≤ (kdist rows I x + kdist rows J x) / ((2 : Nat) : ℚ)
    rw [le_div_iff₀ (by norm_num)]; push_cast; linarith
  | single => show lo ≤ eslMin _ _; unfold eslMin; split <;> assumption
  | complete => show lo ≤ eslMax _ _; unfold eslMax; split <;> assumption

theorem lRow_getD (L : Link) (st : KState ℚ) {x : Nat} (hx : x < st.rows.size) :
    (lRow L st).getD x 0 = lmerged L st.rows (st.size.getD (kI st) 0) (st.size.getD (kJ st) 0) (kI st) (kJ st) x := by
  unfold lRow
  simp only [Array.getD_eq_getD_getElem?, Array.getElem?_map]
  have : (Array.range st.rows.size)[x]? = some x := by
    rw [Array.getElem?_eq_getElem (by simpa using hx)]; simp
  rw [this]; rfl

theorem kbranch_eq_sub' (n : Nat) (h : ℚ) (hgt : Array ℚ) (c : Nat) (hle : n ≤ c → hgt.getD c 0 ≤ h)
    (htax : c < n → hgt.getD c 0 = 0) : kbranch n h hgt c = h - hgt.getD c 0 := by
  unfold kbranch
  split
  · rename_i hc
    unfold max0 vget
    simp only [ltb_rat, ofNat_rat, Nat.cast_zero, decide_eq_true_eq]
    rw [if_neg (by have := hle hc; linarith)]
  · rw [htax (by omega)]; ring

theorem lstep_mono (L : Link) (n k : Nat) (st : KState ℚ) (m : ℚ) (hs : KStruct n k st) (h : LMono L n k st m)
    (hk : k + 2 ≤ n) : LMono L n (k + 1) (lstep L n st) (kMin st).1 ∧ m ≤ (kMin st).1 := by
  have hN : 2 ≤ st.act.size := by have := hs.asize; omega
  obtain ⟨a1, _, a3, a4⟩ := kfindMin_spec st.rows st.act hN
  have hij : kPosI st < kPosJ st := a3
  have hj : kPosJ st < st.act.size := a4
  obtain ⟨L', hL1, hL2⟩ := kAct_spec st hN hij hj
  have hImem : kI st ∈ st.act.toList := mem_of_getD st.act (by omega)
  have hJmem : kJ st ∈ st.act.toList := mem_of_getD st.act hj
  have hIJ : kI st ≠ kJ st := by
    intro e
    have := pos_inj st.act hs.nd (by omega : kPosI st < st.act.size) hj e
    omega
  have hLnd : (L' ++ [kI st, kJ st]).Nodup := hL2.nodup_iff.mpr hs.nd
  have hLsub : ∀ x ∈ L', x ∈ st.act.toList := fun x hx => hL2.subset (List.mem_append_left _ hx)
  have hLne : ∀ x ∈ L', x ≠ kI st ∧ x ≠ kJ st := by
    intro x hx
    have := (List.nodup_append.mp hLnd).2.2 x hx
    exact ⟨this (kI st) (by simp), this (kJ st) (by simp)⟩
  have hact : (lstep L n st).act.toList = L' ++ [st.rows.size] := hL1
  have hm' : (kMin st).1 = kdist st.rows (kI st) (kJ st) := a1
  have hmm : m ≤ (kMin st).1 := by rw [hm']; exact h.far _ hImem _ hJmem hIJ
  have hmin : ∀ x ∈ st.act.toList, ∀ y ∈ st.act.toList, x ≠ y → (kMin st).1 ≤ kdist st.rows x y :=
    fun x hx y hy hxy => kfindMin_le_pair st.rows st.act hN hx hy hxy
  have hH : lH L st = L.hOf (kMin st).1 := lH_eq L st
  have hIlt : kI st < st.hgt.size := by rw [h.hsize]; exact hs.alt _ hImem
  have hJlt : kJ st < st.hgt.size := by rw [h.hsize]; exact hs.alt _ hJmem
  have hnew : ∀ y ∈ L', (kMin st).1 ≤ (lRow L st).getD y 0 := by
    intro y hy
    have hylt : y < st.rows.size := by rw [hs.rsize]; exact hs.alt y (hLsub y hy)
    rw [lRow_getD L st hylt]
    have hy' := hLsub y hy
    have hne := hLne y hy
    exact lmerged_lower L _ _ _ _ _ _ (h.pos _ hImem) (h.pos _ hJmem)
      (hmin _ hImem _ hy' (Ne.symm hne.1)) (hmin _ hJmem _ hy' (Ne.symm hne.2))
  have hhgt : (lstep L n st).hgt = st.hgt.push (lH L st) := rfl
  have hrows : (lstep L n st).rows = st.rows.push (lRow L st) := rfl
  have hnodes : (lstep L n st).nodes =
      (⟨kI st, kJ st, lbranch L n st (lH L st) (kI st), lbranch L n st (lH L st) (kJ st)⟩ : KNode ℚ) :: st.nodes := rfl
  have hleI : n ≤ kI st → st.hgt.getD (kI st) 0 ≤ lH L st := fun hc => by
    rw [hH]; exact le_trans (h.le _ hc (hs.alt _ hImem)) (L.hOf_mono hmm)
  have hleJ : n ≤ kJ st → st.hgt.getD (kJ st) 0 ≤ lH L st := fun hc => by
    rw [hH]; exact le_trans (h.le _ hc (hs.alt _ hJmem)) (L.hOf_mono hmm)
  refine ⟨⟨?_, ?_, ?_, ?_, ?_, ?_, ?_⟩, hmm⟩
  · rw [hhgt, Array.size_push, h.hsize]; omega
  · show (st.size.push _).size = n + (k + 1)
    rw [Array.size_push, h.ssize]; omega
  · intro t ht
    rw [hhgt, getD_push_lt _ _ _ (by rw [h.hsize]; omega)]; exact h.taxa t ht
  · intro c hc1 hc2
    rw [hhgt]
    by_cases hc : c < st.hgt.size
    · rw [getD_push_lt _ _ _ hc]
      exact le_trans (h.le c hc1 (by rw [← h.hsize]; exact hc)) (L.hOf_mono hmm)
    · have : c = st.hgt.size := by rw [h.hsize] at hc ⊢; omega
      rw [this, getD_push_eq, hH]
  · intro x hx y hy hxy
    rw [hact] at hx hy
    rw [hrows]
    rcases List.mem_append.mp hx with hx | hx <;> rcases List.mem_append.mp hy with hy | hy
    · have hx' := hLsub x hx
      have hy' := hLsub y hy
      rw [kdist_push _ _ (by rw [hs.rsize]; exact hs.alt x hx') (by rw [hs.rsize]; exact hs.alt y hy')]
      exact hmin x hx' y hy' hxy
    · have hy2 : y = st.rows.size := by simpa using hy
      have hxlt : x < st.rows.size := by rw [hs.rsize]; exact hs.alt x (hLsub x hx)
      rw [hy2, (kdist_push_new st.rows (lRow L st) hxlt).2]
      exact hnew x hx
    · have hx2 : x = st.rows.size := by simpa using hx
      have hylt : y < st.rows.size := by rw [hs.rsize]; exact hs.alt y (hLsub y hy)
      rw [hx2, (kdist_push_new st.rows (lRow L st) hylt).1]
      exact hnew y hy
    · have hx2 : x = st.rows.size := by simpa using hx
      have hy2 : y = st.rows.size := by simpa using hy
      exact absurd (hx2.trans hy2.symm) hxy
  · intro x hx
    rw [hact] at hx
    show 0 < (st.size.push (st.size.getD (kI st) 0 + st.size.getD (kJ st) 0)).getD x 0
    rcases List.mem_append.mp hx with hx | hx
    · rw [getD_push_lt _ _ _ (by rw [h.ssize]; exact hs.alt x (hLsub x hx))]; exact h.pos x (hLsub x hx)
    · have hx2 : x = st.size.size := by rw [h.ssize, ← hs.rsize]; simpa using hx
      rw [hx2, getD_push_eq]
      have := h.pos _ hImem; omega
  · rw [hnodes, hhgt]
    have e0 : (st.hgt.push (lH L st)).getD (n + st.nodes.length) 0 = lH L st := by
      rw [hs.len, ← h.hsize, getD_push_eq]
    have e1 : (st.hgt.push (lH L st)).getD (kI st) 0 = st.hgt.getD (kI st) 0 := getD_push_lt _ _ _ hIlt
    have e2 : (st.hgt.push (lH L st)).getD (kJ st) 0 = st.hgt.getD (kJ st) 0 := getD_push_lt _ _ _ hJlt
    refine ⟨?_, ?_, ?_, ?_, ?_, NodesL.push _ h.nodes hs.ok (by rw [hs.len, h.hsize])⟩
    · show lbranch L n st (lH L st) (kI st) = _
      rw [e0, e1]; unfold lbranch
      cases hl : L.isLinkage
      · simp only [Bool.false_eq_true, if_false]; exact kbranch_eq_sub' n _ _ _ hleI (fun hc => h.taxa _ hc)
      · simp only [if_true]
    · show lbranch L n st (lH L st) (kJ st) = _
      rw [e0, e2]; unfold lbranch
      cases hl : L.isLinkage
      · simp only [Bool.false_eq_true, if_false]; exact kbranch_eq_sub' n _ _ _ hleJ (fun hc => h.taxa _ hc)
      · simp only [if_true]
    · intro hc
      show (st.hgt.push (lH L st)).getD (kI st) 0 ≤ _
      rw [e0, e1]; exact hleI hc
    · intro hc
      show (st.hgt.push (lH L st)).getD (kJ st) 0 ≤ _
      rw [e0, e2]; exact hleJ hc
    · intro hne
      have hk1 : 0 < st.nodes.length := List.length_pos_iff.mpr hne
      rw [e0, getD_push_lt _ _ _ (by rw [h.hsize, hs.len]; omega), hH]
      exact le_trans (h.le _ (by omega) (by rw [hs.len] at hk1 ⊢; omega)) (L.hOf_mono hmm)

theorem kinitMx_mono (L : Link) (n : Nat) (hn : 2 ≤ n) (d : Nat → Nat → ℚ) :
    LMono L n 0 (kinitMx n d) (kMin (kinitMx n d)).1 := by
  have hmem : ∀ x, x ∈ (kinitMx n d).act.toList → x < n := by
    intro x hx
    have hx' : x ∈ (Array.range n).toList := hx
    rw [Array.toList_range] at hx'
    exact List.mem_range.mp hx'
  have hN : 2 ≤ (kinitMx n d).act.size := by show 2 ≤ (Array.range n).size; simpa using hn
  refine ⟨?_, ?_, ?_, ?_, ?_, ?_, trivial⟩
  · show (Array.replicate n (ofNat 0 : ℚ)).size = n + 0
    simp
  · show (Array.replicate n 1).size = n + 0
    simp
  · intro t _
    show (Array.replicate n (ofNat 0 : ℚ)).getD t 0 = 0
    rw [getD_replicate]; split <;> simp
  · intro c h1 h2; omega
  · intro x hx y hy hxy
    exact kfindMin_le_pair _ _ hN hx hy hxy
  · intro x hx
    show 0 < (Array.replicate n 1).getD x 0
    rw [getD_replicate, if_pos (hmem x hx)]; exact Nat.one_pos

/-- after k ≥ 0 passes there is a bound `m` ≥ the first minimum for which the invariant holds -/
theorem lrun_mono (L : Link) (n : Nat) (hn : 2 ≤ n) (d : Nat → Nat → ℚ) (k : Nat) (hk : k + 1 ≤ n) :
    ∃ m, (kMin (kinitMx n d)).1 ≤ m ∧ LMono L n k (lrun L n (kinitMx n d) k) m := by
  induction k with
  | zero => exact ⟨_, le_refl _, kinitMx_mono L n hn d⟩
  | succ k ih =>
    obtain ⟨m, hm0, hm⟩ := ih (by omega)
    have := lstep_mono L n k _ m (lrun_struct L n d k (by omega)) hm (by omega)
    exact ⟨_, le_trans hm0 this.2, this.1⟩

/-- the first join value of the run is the minimum of the matrix -/
theorem lrun_first_height (L : Link) (n : Nat) (d : Nat → Nat → ℚ) (k : Nat) :
    (lrun L n (kinitMx n d) (k + 1)).hgt.getD n 0 = L.hOf (kMin (kinitMx n d)).1 := by
  induction k with
  | zero =>
    show ((kinitMx n d).hgt.push (lH L (kinitMx n d))).getD n 0 = _
    have : (kinitMx n d).hgt.size = n := by show (Array.replicate n (ofNat 0 : ℚ)).size = n; simp
    rw [← lH_eq]
    have h2 := getD_push_eq (kinitMx n d).hgt (lH L (kinitMx n d)) (0 : ℚ)
    rw [this] at h2; exact h2
  | succ k ih =>
    show ((lrun L n (kinitMx n d) (k + 1)).hgt.push _).getD n 0 = _
    have hsz : ∀ j, (lrun L n (kinitMx n d) j).hgt.size = n + j := by
      intro j
      induction j with
      | zero => show (Array.replicate n (ofNat 0 : ℚ)).size = n + 0; simp
      | succ j ihj => show ((lrun L n (kinitMx n d) j).hgt.push _).size = _; rw [Array.size_push, ihj]; omega
    rw [getD_push_lt _ _ _ (by rw [hsz]; omega)]
    exact ih

theorem linkTree_nodes_length (L : Link) (n : Nat) (hn : 2 ≤ n) (d : Nat → Nat → ℚ) :
    (linkTree L n d).nodes.reverse.length = n - 1 := by
  rw [List.length_reverse]; exact (lrun_struct L n d (n - 1) (by omega)).len

/-- heights of taxa, the first join value, and per node: branch lengths, children not higher, join values monotone -/
theorem linkTree_heights' (L : Link) (n : Nat) (hn : 2 ≤ n) (d : Nat → Nat → ℚ) :
    (∀ t, t < n → (linkTree L n d).hgt.getD t 0 = 0) ∧
    (linkTree L n d).hgt.getD n 0 = L.hOf (kMin (kinitMx n d)).1 ∧
    ∀ s (h : s < (linkTree L n d).nodes.reverse.length),
      ((linkTree L n d).nodes.reverse[s]).l =
        (if L.isLinkage then (linkTree L n d).hgt.getD (n + s) 0
         else (linkTree L n d).hgt.getD (n + s) 0 - (linkTree L n d).hgt.getD ((linkTree L n d).nodes.reverse[s]).I 0) ∧
      ((linkTree L n d).nodes.reverse[s]).r =
        (if L.isLinkage then (linkTree L n d).hgt.getD (n + s) 0
         else (linkTree L n d).hgt.getD (n + s) 0 - (linkTree L n d).hgt.getD ((linkTree L n d).nodes.reverse[s]).J 0) ∧
      (n ≤ ((linkTree L n d).nodes.reverse[s]).I →
        (linkTree L n d).hgt.getD ((linkTree L n d).nodes.reverse[s]).I 0 ≤ (linkTree L n d).hgt.getD (n + s) 0) ∧
      (n ≤ ((linkTree L n d).nodes.reverse[s]).J →
        (linkTree L n d).hgt.getD ((linkTree L n d).nodes.reverse[s]).J 0 ≤ (linkTree L n d).hgt.getD (n + s) 0) ∧
      (0 < s → (linkTree L n d).hgt.getD (n + s - 1) 0 ≤ (linkTree L n d).hgt.getD (n + s) 0) := by
  obtain ⟨m, _, hm⟩ := lrun_mono L n hn d (n - 1) (by omega)
  refine ⟨hm.taxa, ?_, fun s h => NodesL.indexed hm.nodes s h⟩
  have e : n - 1 = (n - 2) + 1 := by omega
  unfold linkTree; rw [e]; exact lrun_first_height L n d (n - 2)

theorem kMin_init_nonneg (n : Nat) (hn : 2 ≤ n) (d : Nat → Nat → ℚ) (hd : ∀ x y, x < y → y < n → 0 ≤ d x y) :
    0 ≤ (kMin (kinitMx n d)).1 := by
  have hsz : (kinitMx n d).act.size = n := by show (Array.range n).size = n; simp
  have hN : 2 ≤ (kinitMx n d).act.size := by rw [hsz]; exact hn
  obtain ⟨a1, _, a3, a4⟩ := kfindMin_spec (kinitMx n d).rows (kinitMx n d).act hN
  have hg : ∀ i, i < n → (kinitMx n d).act.getD i 0 = i := by
    intro i hi
    show (Array.range n).getD i 0 = i
    simp [Array.getD_eq_getD_getElem?, hi]
  rw [hsz] at a4
  unfold kMin
  rw [a1, hg _ (by omega), hg _ a4, kinitMx_kdist n d a3 a4]
  exact hd _ _ a3 a4

theorem linkTree_height_ge_first (L : Link) (n : Nat) (hn : 2 ≤ n) (d : Nat → Nat → ℚ) (s : Nat) (hs : s < n - 1) :
    (linkTree L n d).hgt.getD n 0 ≤ (linkTree L n d).hgt.getD (n + s) 0 := by
  induction s with
  | zero => exact le_refl _
  | succ s ih =>
    have h5 := ((linkTree_heights' L n hn d).2.2 (s + 1) (by rw [linkTree_nodes_length L n hn d]; exact hs)).2.2.2.2 (by omega)
    exact le_trans (ih (by omega)) h5

/-- distances ≥ 0 ⇒ every branch length is ≥ 0, in every mode -/
theorem linkTree_branch_nonneg (L : Link) (n : Nat) (hn : 2 ≤ n) (d : Nat → Nat → ℚ)
    (hd : ∀ x y, x < y → y < n → 0 ≤ d x y) (s : Nat) (h : s < (linkTree L n d).nodes.reverse.length) :
    0 ≤ ((linkTree L n d).nodes.reverse[s]).l ∧ 0 ≤ ((linkTree L n d).nodes.reverse[s]).r := by
  obtain ⟨htax, hfirst, hnodes⟩ := linkTree_heights' L n hn d
  obtain ⟨h1, h2, h3, h4, _⟩ := hnodes s h
  have hs : s < n - 1 := by rw [linkTree_nodes_length L n hn d] at h; exact h
  have h0 : 0 ≤ (linkTree L n d).hgt.getD (n + s) 0 := by
    refine le_trans ?_ (linkTree_height_ge_first L n hn d s hs)
    rw [hfirst]
    have := kMin_init_nonneg n hn d hd
    unfold Link.hOf; split <;> linarith
  constructor
  · rw [h1]
    split
    · exact h0
    · by_cases hc : n ≤ ((linkTree L n d).nodes.reverse[s]).I
      · have := h3 hc; linarith
      · rw [htax _ (Nat.lt_of_not_le hc)]; linarith
  · rw [h2]
    split
    · exact h0
    · by_cases hc : n ≤ ((linkTree L n d).nodes.reverse[s]).J
      · have := h4 hc; linarith
      · rw [htax _ (Nat.lt_of_not_le hc)]; linarith

/-! ### clade sizes in every mode -/

theorem lstep_leaves (L : Link) (n k : Nat) (st : KState ℚ) (hs : KStruct n k st) (h : KLeaves n k st) (hk : k + 2 ≤ n) :
    KLeaves n (k + 1) (lstep L n st) := by
  have hN : 2 ≤ st.act.size := by have := hs.asize; omega
  obtain ⟨_, _, a3, a4⟩ := kfindMin_spec st.rows st.act hN
  obtain ⟨L', hL1, hL2⟩ := kAct_spec st hN a3 a4
  have hLsub : ∀ x ∈ L', x ∈ st.act.toList := fun x hx => hL2.subset (List.mem_append_left _ hx)
  have hact : (lstep L n st).act.toList = L' ++ [st.rows.size] := hL1
  set ls := leafSets n st.nodes.reverse with hlsdef
  have hnodes : (lstep L n st).nodes.reverse = st.nodes.reverse ++
      [(⟨kI st, kJ st, lbranch L n st (lH L st) (kI st), lbranch L n st (lH L st) (kJ st)⟩ : KNode ℚ)] := by
    show ((⟨kI st, kJ st, _, _⟩ : KNode ℚ) :: st.nodes).reverse = _
    rw [List.reverse_cons]
  have hls' : leafSets n (lstep L n st).nodes.reverse = ls.push (ls.getD (kI st) [] ++ ls.getD (kJ st) []) := by
    rw [hnodes, leafSets_snoc]
  refine ⟨?_, ?_, ?_, ?_⟩
  · rw [hls', Array.size_push, h.lsize]; omega
  · show (st.size.push _).size = n + (k + 1)
    rw [Array.size_push, h.ssize]; omega
  · rw [hls', hact, List.flatMap_append]
    have e1 : (L'.flatMap fun x => (ls.push (ls.getD (kI st) [] ++ ls.getD (kJ st) [])).getD x []) = L'.flatMap fun x => ls.getD x [] :=
      flatMap_congr_mem L' _ _ (fun x hx => getD_push_lt _ _ _ (by rw [h.lsize]; exact hs.alt x (hLsub x hx)))
    have e2 : ([st.rows.size].flatMap fun x => (ls.push (ls.getD (kI st) [] ++ ls.getD (kJ st) [])).getD x []) =
        ls.getD (kI st) [] ++ ls.getD (kJ st) [] := by
      simp only [List.flatMap_cons, List.flatMap_nil, List.append_nil]
      rw [hs.rsize, ← h.lsize, getD_push_eq]
    rw [e1, e2]
    have e3 : (L'.flatMap fun x => ls.getD x []) ++ (ls.getD (kI st) [] ++ ls.getD (kJ st) []) =
        (L' ++ [kI st, kJ st]).flatMap fun x => ls.getD x [] := by
      simp [List.flatMap_append]
    rw [e3]
    exact (List.Perm.flatMap_right _ hL2).trans h.part
  · intro c
    show (st.size.push (st.size.getD (kI st) 0 + st.size.getD (kJ st) 0)).getD c 0 = _
    rw [hls']
    rcases Nat.lt_trichotomy c st.size.size with hc | hc | hc
    · rw [getD_push_lt _ _ _ hc, getD_push_lt _ _ _ (by rw [h.lsize, ← h.ssize]; exact hc)]; exact h.nin c
    · rw [hc, getD_push_eq, h.ssize, ← h.lsize, getD_push_eq, List.length_append, h.nin, h.nin]
    · rw [getD_push_gt _ _ _ hc, getD_push_gt _ _ _ (by rw [h.lsize, ← h.ssize]; exact hc)]; rfl

theorem lrun_leaves (L : Link) (n : Nat) (d : Nat → Nat → ℚ) (k : Nat) (hk : k + 1 ≤ n) :
    KLeaves n k (lrun L n (kinitMx n d) k) := by
  induction k with
  | zero => exact kinitMx_leaves n d
  | succ k ih => exact lstep_leaves L n k _ (lrun_struct L n d k (by omega)) (ih (by omega)) (by omega)

/-- `nin[]` of the run is the clade size, and the root's clade is all n taxa, each once — in every mode -/
theorem linkTree_cladesizes' (L : Link) (n : Nat) (hn : 2 ≤ n) (d : Nat → Nat → ℚ) :
    (∀ c, (linkTree L n d).size.getD c 0 = (kclades n (linkTree L n d).nodes.reverse).getD c 0) ∧
    ((leafSets n (linkTree L n d).nodes.reverse).getD (2 * n - 2) []).Perm (List.range n) ∧
    (kclades n (linkTree L n d).nodes.reverse).getD (2 * n - 2) 0 = n := by
  have hl := lrun_leaves L n d (n - 1) (by omega)
  have hs := lrun_struct L n d (n - 1) (by omega)
  have hc := (kclades_eq_leaves n (linkTree L n d).nodes.reverse).2
  -- the single active cluster left is the root 2n-2
  have hw := wellFormed_of_struct n hn _ hs
  have hsz : (lrun L n (kinitMx n d) (n - 1)).act.toList.length = 1 := by
    have := hs.asize
    simp only [Array.length_toList]; omega
  obtain ⟨x, hx⟩ := List.length_eq_one_iff.mp hsz
  have hxr : x = 2 * n - 2 := by
    have hp := hs.perm
    rw [hx] at hp
    have hmem : (2 * n - 2) ∈ childrenOf (lrun L n (kinitMx n d) (n - 1)).nodes.reverse ++ [x] := by
      apply hp.symm.subset
      rw [List.mem_range]; omega
    rcases List.mem_append.mp hmem with hm | hm
    · have := hw.children.subset hm
      rw [List.mem_range] at this; omega
    · exact (List.mem_singleton.mp hm).symm
  have hroot : ((leafSets n (linkTree L n d).nodes.reverse).getD (2 * n - 2) []).Perm (List.range n) := by
    have hp := hl.part
    rw [hx, hxr] at hp
    show ((leafSets n (lrun L n (kinitMx n d) (n - 1)).nodes.reverse).getD (2 * n - 2) []).Perm (List.range n)
    simpa using hp
  refine ⟨fun c => ?_, hroot, ?_⟩
  · rw [hc c]; exact hl.nin c
  · rw [hc, hroot.length_eq]; simp

end EaselModel.Weights
