import EaselModel.Weights.SortSorted
import EaselModel.Weights.FilterOrder
import EaselModel.Weights.Adv
import Mathlib.Data.List.Sort
/-! C16 helper lemmas, part 20: the three preference rules of `esl_msaweight_IDFilter_adv` (`cfg->filterpref`): with the order
    `esl_quicksort` really produces, a dropped row always reaches the threshold with a kept row that the rule prefers at least
    as much — covers at least as many consensus columns / has a larger random number / comes earlier in the alignment. -/
namespace EaselModel.Weights
open WNum

theorem cmpDecreasing_le_iff (w : List ℚ) (a b : Nat) (ha : a < w.length) (hb : b < w.length) :
    cmpDecreasing w a b ≤ 0 ↔ w.getD b 0 ≤ w.getD a 0 := by
  unfold cmpDecreasing
  rw [List.getElem?_eq_getElem ha, List.getElem?_eq_getElem hb]
  simp only [List.getD_eq_getElem?_getD, List.getElem?_eq_getElem ha, List.getElem?_eq_getElem hb, Option.getD_some, ltb_rat,
    decide_eq_true_eq]
  split
  · constructor
    · intro _; linarith
    · intro _; omega
  · split
    · constructor
      · intro h; omega
      · intro h; linarith
    · constructor
      · intro _; linarith
      · intro _; omega

theorem cmpDecreasing_ok (w : List ℚ) : CmpOK (cmpDecreasing w) (· < w.length) := by
  refine ⟨?_, ?_, ?_⟩
  · intro a
    unfold cmpDecreasing
    cases w[a]? with
    | none => rfl
    | some x => simp
  · intro a b h
    unfold cmpDecreasing at h ⊢
    cases ha : w[a]? with
    | none => cases w[b]? <;> simp
    | some x =>
      cases hb : w[b]? with
      | none => simp
      | some y =>
        simp only [ha, hb, ltb_rat, decide_eq_true_eq] at h ⊢
        by_cases h1 : y < x
        · rw [if_pos h1] at h; omega
        · rw [if_neg h1] at h
          by_cases h2 : x < y
          · rw [if_pos h2]; omega
          · rw [if_neg h2, if_neg h1]
  · intro a b c ha hb hc h1 h2
    rw [cmpDecreasing_le_iff w a b ha hb] at h1
    rw [cmpDecreasing_le_iff w b c hb hc] at h2
    rw [cmpDecreasing_le_iff w a c ha hc]
    linarith

/-- `esl_quicksort` with `sort_doubles_decreasing`: the weights along `sorted_at[]` never increase -/
theorem quicksort_decreasing (w : List ℚ) (x y : Nat) (hxy : x < y) (hy : y < w.length) :
    w.getD ((quicksort (cmpDecreasing w) w.length).getD y 0) 0 ≤ w.getD ((quicksort (cmpDecreasing w) w.length).getD x 0) 0 := by
  have hs := quicksort_sorted (cmpDecreasing_ok w) x y hxy hy
  have hlen : (quicksort (cmpDecreasing w) w.length).length = w.length := by
    rw [(quicksort_perm _ _).length_eq]; simp
  have hmem : ∀ k, k < w.length → (quicksort (cmpDecreasing w) w.length).getD k 0 < w.length := by
    intro k hk
    rw [List.getD_eq_getElem?_getD, List.getElem?_eq_getElem (by omega)]
    exact (mem_quicksort _ _ _).mp (List.getElem_mem _)
  exact (cmpDecreasing_le_iff w _ _ (hmem x (by omega)) (hmem y hy)).mp hs

/-- any preference vector: a dropped row reaches the threshold with a DIFFERENT kept row whose preference value is at least
    its own -/
theorem idFilterDigital_keeps_preferred (abc : Abc) (maxid : ℚ) (sortwgt : List ℚ) (rows : List Row)
    (hlen : sortwgt.length = rows.length) (r : Nat) (hr : r < rows.length) (h : r ∉ idFilterDigital abc maxid sortwgt rows) :
    ∃ k ∈ idFilterDigital abc maxid sortwgt rows, k ≠ r ∧ k < rows.length ∧ sortwgt.getD r 0 ≤ sortwgt.getD k 0 ∧
      maxid ≤ pid (α := ℚ) (Mode.digital abc) (rows.getD r []) (rows.getD k []) := by
  obtain ⟨pre, post, hsplit⟩ := List.append_of_mem ((mem_quicksort (cmpDecreasing sortwgt) rows.length r).mpr hr)
  have hnd := quicksort_nodup (cmpDecreasing sortwgt) rows.length
  unfold idFilterDigital idFilterOrder at h ⊢
  rw [hsplit] at h ⊢ hnd
  obtain ⟨k, hk, hl, hkept⟩ := filterGreedy_dropped_by_earlier _ _ _ r h
  have hkpre : k ∈ pre := by
    rcases filterGreedy_subset _ _ _ k hk with h' | h'
    · simp at h'
    · exact h'
  have hne : k ≠ r := by
    intro e; subst e
    have := (List.nodup_append.mp hnd).2.2 k hkpre k (by simp)
    exact this rfl
  obtain ⟨x, hx, hxk⟩ := List.mem_iff_getElem.mp hkpre
  have hklt : k < rows.length := (mem_quicksort (cmpDecreasing sortwgt) rows.length k).mp (by rw [hsplit]; simp [hkpre])
  refine ⟨k, hkept, hne, hklt, ?_, by simpa [linked] using hl⟩
  have hq := quicksort_decreasing sortwgt x pre.length hx (by
    have : (quicksort (cmpDecreasing sortwgt) rows.length).length = rows.length := by
      rw [(quicksort_perm _ _).length_eq]; simp
    rw [hsplit] at this; simp at this; omega)
  rw [hlen, hsplit] at hq
  have e1 : (pre ++ r :: post).getD x 0 = k := by
    rw [List.getD_eq_getElem?_getD, List.getElem?_append_left hx, List.getElem?_eq_getElem hx, hxk]; rfl
  have e2 : (pre ++ r :: post).getD pre.length 0 = r := by
    rw [List.getD_eq_getElem?_getD, List.getElem?_append_right (le_refl _)]; simp
  rw [e1, e2] at hq
  exact hq

theorem foldl_ones (k : Nat) (init : ℚ) : (List.range k).foldl (fun acc _ => acc + (WNum.ofNat 1 : ℚ)) init = init + k := by
  induction k generalizing init with
  | zero => simp
  | succ k ih => rw [List.range_succ, List.foldl_append, ih]; simp; ring

theorem sortwgtOf_length (abc : Abc) (cfg : WCfg) (deal : Nat → Nat → List Nat) (rf : Option Row) (rows : List Row)
    (pref : FilterPref) : (sortwgtOf (α := ℚ) abc cfg deal rf rows pref).length = rows.length := by
  cases pref <;> simp [sortwgtOf]

/-- the preference values: conscover = number of consensus columns within the row's first..last residue; random = the
    row's draw / 2^53; origorder = nseq − index -/
theorem sortwgtOf_getD (abc : Abc) (cfg : WCfg) (deal : Nat → Nat → List Nat) (rf : Option Row) (rows : List Row) (i : Nat)
    (hi : i < rows.length) :
    (sortwgtOf (α := ℚ) abc cfg deal rf rows .conscover).getD i 0 =
      (conscover abc (filterConsensusAdv abc cfg deal rf rows) (rows.getD i []) : ℚ) ∧
    (∀ nums, (sortwgtOf (α := ℚ) abc cfg deal rf rows (.random nums)).getD i 0 = (nums.getD i 0 : ℚ) / 9007199254740992) ∧
    (sortwgtOf (α := ℚ) abc cfg deal rf rows .origorder).getD i 0 = ((rows.length - i : Nat) : ℚ) := by
  refine ⟨?_, ?_, ?_⟩
  · simp only [sortwgtOf, List.getD_eq_getElem?_getD, List.getElem?_map, List.getElem?_eq_getElem hi, Option.map_some,
      Option.getD_some]
    rw [foldl_ones]; simp
  · intro nums
    simp only [sortwgtOf, List.getD_eq_getElem?_getD, List.getElem?_map, List.getElem?_range hi, Option.map_some,
      Option.getD_some, ofNat_rat]
    simp [div_eq_mul_inv]
  · simp only [sortwgtOf, List.getD_eq_getElem?_getD, List.getElem?_map, List.getElem?_range hi, Option.map_some,
      Option.getD_some, ofNat_rat]

/-- "origorder": the sort leaves the rows in their original order — the filter is the text-mode rule "keep the earlier row" -/
theorem quicksort_origorder (n : Nat) :
    quicksort (cmpDecreasing ((List.range n).map fun i => ((n - i : Nat) : ℚ))) n = List.range n := by
  set w : List ℚ := (List.range n).map fun i => ((n - i : Nat) : ℚ) with hw
  have hwl : w.length = n := by simp [hw]
  have hperm := quicksort_perm (cmpDecreasing w) n
  have hnd := quicksort_nodup (cmpDecreasing w) n
  have hlen : (quicksort (cmpDecreasing w) n).length = n := by rw [hperm.length_eq]; simp
  have hwget : ∀ i, i < n → w.getD i 0 = ((n - i : Nat) : ℚ) := by
    intro i hi
    simp [hw, List.getD_eq_getElem?_getD, List.getElem?_range hi]
  have hsorted : (quicksort (cmpDecreasing w) n).Pairwise (· < ·) := by
    rw [List.pairwise_iff_getElem]
    intro x y hx hy hxy
    have hq := quicksort_decreasing w x y hxy (by omega)
    rw [hwl] at hq
    have ex : (quicksort (cmpDecreasing w) n).getD x 0 = (quicksort (cmpDecreasing w) n)[x] := by
      rw [List.getD_eq_getElem?_getD, List.getElem?_eq_getElem hx]; rfl
    have ey : (quicksort (cmpDecreasing w) n).getD y 0 = (quicksort (cmpDecreasing w) n)[y] := by
      rw [List.getD_eq_getElem?_getD, List.getElem?_eq_getElem hy]; rfl
    rw [ex, ey] at hq
    have hxm : (quicksort (cmpDecreasing w) n)[x] < n := (mem_quicksort _ _ _).mp (List.getElem_mem _)
    have hym : (quicksort (cmpDecreasing w) n)[y] < n := (mem_quicksort _ _ _).mp (List.getElem_mem _)
    rw [hwget _ hxm, hwget _ hym] at hq
    have hq' : n - (quicksort (cmpDecreasing w) n)[y] ≤ n - (quicksort (cmpDecreasing w) n)[x] := by exact_mod_cast hq
    have hne : (quicksort (cmpDecreasing w) n)[x] ≠ (quicksort (cmpDecreasing w) n)[y] := by
      intro e
      have := (List.nodup_iff_injective_getElem.mp hnd) (a₁ := ⟨x, hx⟩) (a₂ := ⟨y, hy⟩) e
      simp at this; omega
    omega
  exact List.Perm.eq_of_pairwise (fun a b _ _ h1 h2 => by omega) hsorted List.pairwise_lt_range hperm

end EaselModel.Weights
