import EaselModel.Weights.Lemmas
/-! C16 helper lemmas, part 3: position-based weights over `ℚ`. -/
namespace EaselModel.Weights
open WNum

/-- the per-column terms a row collects: `1/(r·c)` for each used column in which the row has a canonical residue -/
def pbTerms (p : PBParams) (stats : List ColStat) (row : Row) : List ℚ :=
  stats.filterMap fun st => (p.sym (row.getD st.apos 0)).map fun a => 1 / ((st.r * st.ct.getD a 0 : ℕ) : ℚ)

theorem pbBump_foldl (p : PBParams) (row : Row) (stats : List ColStat) (w : ℚ) (k : Nat) :
    stats.foldl (pbBump p row) (w, k) = (w + (pbTerms p stats row).sum, k + (pbTerms p stats row).length) := by
  induction stats generalizing w k with
  | nil => simp [pbTerms]
  | cons st stats ih =>
    rw [List.foldl_cons]
    cases h : p.sym (row.getD st.apos 0) with
    | none =>
      have hb : pbBump p row (w, k) st = (w, k) := by simp only [pbBump, h]
      rw [hb, ih]
      simp only [pbTerms, List.filterMap_cons, h, Option.map_none]
    | some a =>
      have hb : pbBump p row (w, k) st = (w + 1 / ((st.r * st.ct.getD a 0 : ℕ) : ℚ), k + 1) := by
        simp only [pbBump, h, ofNat_rat, Nat.cast_one]
      rw [hb, ih]
      simp only [pbTerms, List.filterMap_cons, h, Option.map_some, List.sum_cons, List.length_cons]
      refine Prod.ext ?_ ?_
      · simp only []; ring
      · simp only []; omega

/-- raw weight = (Σ over used columns with a canonical residue of 1/(r·c)) / (number of such columns), 0 if none -/
theorem pbRaw_eq (p : PBParams) (stats : List ColStat) (row : Row) :
    pbRaw (α := ℚ) p stats row =
      if (pbTerms p stats row).length = 0 then 0 else (pbTerms p stats row).sum / (pbTerms p stats row).length := by
  unfold pbRaw
  rw [show ((ofNat 0 : ℚ), 0) = ((0 : ℚ), 0) by simp, pbBump_foldl]
  simp only [zero_add, Nat.zero_add, ofNat_rat]
  by_cases h : (pbTerms p stats row).length = 0
  · have : pbTerms p stats row = [] := List.eq_nil_of_length_eq_zero h
    simp [this]
  · have : (pbTerms p stats row).length > 0 := Nat.pos_of_ne_zero h
    simp [h, this]

theorem pbTerms_nonneg (p : PBParams) (stats : List ColStat) (row : Row) : ∀ t ∈ pbTerms p stats row, 0 ≤ t := by
  intro t ht
  simp only [pbTerms, List.mem_filterMap, Option.map_eq_some_iff] at ht
  obtain ⟨st, _, a, _, rfl⟩ := ht
  positivity

theorem pbRaw_nonneg (p : PBParams) (stats : List ColStat) (row : Row) : 0 ≤ pbRaw (α := ℚ) p stats row := by
  rw [pbRaw_eq]
  split
  · exact le_refl 0
  · have := list_sum_nonneg _ (pbTerms_nonneg p stats row)
    positivity

theorem pbWeights_length (p : PBParams) (stats : List ColStat) (rows : List Row) (hne : rows ≠ []) :
    (pbWeights (α := ℚ) p stats rows).length = rows.length := by
  unfold pbWeights
  split
  · rename_i h; simp at h; simp [h]
  · rw [normalizeToN_length, List.length_map]

/-- PB weights sum to the number of sequences -/
theorem pbWeights_sum (p : PBParams) (stats : List ColStat) (rows : List Row) (hne : rows ≠ []) :
    (pbWeights (α := ℚ) p stats rows).sum = rows.length := by
  unfold pbWeights
  split
  · rename_i h; simp at h; simp [h]
  · rw [normalizeToN_sum _ (by simpa using hne), List.length_map]

theorem pbWeights_nonneg (p : PBParams) (stats : List ColStat) (rows : List Row) :
    ∀ w ∈ pbWeights (α := ℚ) p stats rows, 0 ≤ w := by
  unfold pbWeights
  split
  · intro w hw; simp at hw; subst hw; exact zero_le_one
  · apply normalizeToN_nonneg
    intro x hx
    simp only [List.mem_map] at hx
    obtain ⟨row, _, rfl⟩ := hx
    exact pbRaw_nonneg p stats row

/-- closed form: `w_i = raw_i / Σ raw · N` (all 1 when every raw weight is 0), for N ≥ 2 -/
theorem pbWeights_getElem (p : PBParams) (stats : List ColStat) (rows : List Row) (hn : rows.length ≠ 1)
    (i : Nat) (hi : i < rows.length) (hi' : i < (pbWeights (α := ℚ) p stats rows).length) :
    (pbWeights (α := ℚ) p stats rows)[i] =
      if (rows.map (pbRaw (α := ℚ) p stats)).sum = 0 then 1
      else pbRaw p stats rows[i] / (rows.map (pbRaw (α := ℚ) p stats)).sum * rows.length := by
  have e : pbWeights (α := ℚ) p stats rows = normalizeToN (rows.map (pbRaw p stats)) := by
    unfold pbWeights; simp [hn]
  simp only [e]
  rw [normalizeToN_getElem _ i (by simpa using hi)]
  simp

/-- identical rows get identical weights -/
theorem pbWeights_eq_of_eq (p : PBParams) (stats : List ColStat) (rows : List Row)
    (i j : Nat) (hi : i < rows.length) (hj : j < rows.length) (h : rows[i] = rows[j])
    (hi' : i < (pbWeights (α := ℚ) p stats rows).length) (hj' : j < (pbWeights (α := ℚ) p stats rows).length) :
    (pbWeights (α := ℚ) p stats rows)[i] = (pbWeights (α := ℚ) p stats rows)[j] := by
  by_cases hn : rows.length = 1
  · have : i = j := by omega
    subst this; rfl
  · rw [pbWeights_getElem p stats rows hn i hi, pbWeights_getElem p stats rows hn j hj, h]

end EaselModel.Weights
