import EaselModel.Weights.GSCPerm
import EaselModel.Weights.Tree
import EaselModel.Weights.TreeLemmas
/-! C16 helper lemmas, part 31 (round 6): can the two GSC findings be repaired by a better TIE RULE in `cluster_engine`?

  `cluster_engine` joins, in every pass, the FIRST minimum of the upper triangle in row-major order of the current matrix
  positions. Here the pass is written with the pair of positions as a parameter (`stepAt`); `kstep` — the code — is the
  instance "positions found by `kfindMin`" (`kstep_eq_stepAt`). A *tie rule* is ANY function of the whole engine state
  (distances, cluster sizes, heights, position table, the tree so far — hence also "smallest original taxon index in the
  cluster", "largest cluster first", …) that returns a pair of positions at minimum distance (`TieRule`).

  * `gscWith_eq_gsc_of_tieFree`: where no pass ties, every tie rule gives the code's weights (a tie rule changes nothing
    else);
  * `no_tie_rule_is_relisting_invariant`: for EVERY tie rule there is an alignment of three different rows
    (`AAAA`, `AABB`, `BBBB`) and a relisting (reverse) under which the weights do not follow the rows. The reversed
    alignment has the same distance matrix entry for entry, so a deterministic rule returns the same weight VECTOR, while
    the rows have exchanged places; and every admissible join ((0,1) or (1,2)) gives the outer rows different weights.
  Hence no repair of the form "break ties by …" exists while the tree stays binary and is built by pairwise joins: the only
  order-independent treatment joins all tied clusters at once (a multifurcation), which is another algorithm. -/
namespace EaselModel.Weights
open WNum

deriving instance DecidableEq for KNode
deriving instance DecidableEq for KState

/-- one pass of the `for (N = D->n; N >= 2; N--)` loop (mode eslUPGMA) joining the clusters at matrix positions `pi`, `pj` -/
def stepAt (n : Nat) (st : KState ℚ) (pi pj : Nat) : KState ℚ :=
  let I := st.act.getD pi 0
  let J := st.act.getD pj 0
  let h : ℚ := kdist st.rows I J / ofNat 2
  { rows := st.rows.push ((Array.range st.rows.size).map (kmerged st.rows (st.size.getD I 0) (st.size.getD J 0) I J))
    size := st.size.push (st.size.getD I 0 + st.size.getD J 0)
    hgt := st.hgt.push h
    act := ((moveIdx (moveIdx st.act (st.act.size - 1) pj) (st.act.size - 2) pi).setIfInBounds (st.act.size - 2) st.rows.size).pop
    nodes := ⟨I, J, kbranch n h st.hgt I, kbranch n h st.hgt J⟩ :: st.nodes }

/-- the code's pass is the pass at the positions its minimum search returns -/
theorem kstep_eq_stepAt (n : Nat) (st : KState ℚ) (hN : 2 ≤ st.act.size) :
    kstep n st = stepAt n st (kPosI st) (kPosJ st) := by
  obtain ⟨h1, _, _, _⟩ := kfindMin_spec st.rows st.act hN
  have hH : kH st = kdist st.rows (kI st) (kJ st) / ofNat 2 := by
    unfold kH kI kJ kPosI kPosJ kMin; rw [← h1]
  unfold kstep stepAt kRow kAct
  rw [hH]
  rfl

/-- a pair of matrix positions at minimum distance: `i < j < N`, no pair of active positions is closer -/
def MinPair (st : KState ℚ) (ij : Nat × Nat) : Prop :=
  ij.1 < ij.2 ∧ ij.2 < st.act.size ∧
  ∀ r c, r < c → c < st.act.size →
    kdist st.rows (st.act.getD ij.1 0) (st.act.getD ij.2 0) ≤ kdist st.rows (st.act.getD r 0) (st.act.getD c 0)

/-- a tie rule: any function of the whole engine state that names a pair at minimum distance -/
def TieRule (pick : KState ℚ → Nat × Nat) : Prop := ∀ st, 2 ≤ st.act.size → MinPair st (pick st)

/-- `cluster_engine`'s rule: first minimum in row-major order of the current positions -/
def firstMin (st : KState ℚ) : Nat × Nat := (kPosI st, kPosJ st)

theorem firstMin_tieRule : TieRule firstMin := by
  intro st hN
  obtain ⟨h1, h2, h3, h4⟩ := kstep_joins_minimum st hN
  exact ⟨h1, h2, h3⟩

def crun (pick : KState ℚ → Nat × Nat) (n : Nat) (st : KState ℚ) : Nat → KState ℚ
  | 0 => st
  | k + 1 => stepAt n (crun pick n st k) (pick (crun pick n st k)).1 (pick (crun pick n st k)).2

/-- `esl_msaweight_GSC` with `cluster_engine` using tie rule `pick` -/
def gscWith (pick : KState ℚ → Nat × Nat) (m : Mode) (rows : List Row) : List ℚ :=
  if rows.length == 1 then [ofNat 1]
  else normalizeToN (gscTreeRaw rows.length (crun pick rows.length (kinit (α := ℚ) m rows) (rows.length - 1)).nodes)

theorem crun_firstMin (m : Mode) (rws : List Row) (k : Nat) (hk : k + 1 ≤ rws.length) :
    crun firstMin rws.length (kinit (α := ℚ) m rws) k = krun rws.length (kinit (α := ℚ) m rws) k := by
  induction k with
  | zero => rfl
  | succ k ih =>
    have e := ih (by omega)
    have hs := krun_act_size m rws k (by omega)
    show stepAt _ (crun firstMin _ _ k) _ _ = kstep _ (krun _ _ k)
    rw [e, kstep_eq_stepAt _ _ (by omega)]
    rfl

/-- the family contains the code: with the first-minimum rule it is `esl_msaweight_GSC` as modelled (`gsc`) -/
theorem gscWith_firstMin (m : Mode) (rows : List Row) (hne : rows ≠ []) : gscWith firstMin m rows = gsc (α := ℚ) m rows := by
  have hl : 0 < rows.length := List.length_pos_iff.mpr hne
  unfold gscWith gsc
  rw [crun_firstMin m rows (rows.length - 1) (by omega)]
  rfl

/-- with a unique minimum, a pair at minimum distance is the pair the code finds -/
theorem MinPair.eq_of_uniqueMin {st : KState ℚ} (hU : UniqueMin st) {ij : Nat × Nat} (h : MinPair st ij) :
    ij = (kPosI st, kPosJ st) := by
  obtain ⟨i, j⟩ := ij
  obtain ⟨h1, h2, h3⟩ := h
  by_cases he : i = kPosI st ∧ j = kPosJ st
  · rw [he.1, he.2]
  · exfalso
    have hN : 2 ≤ st.act.size := by simp only at h1 h2; omega
    obtain ⟨a1, a2, _, _⟩ := kstep_joins_minimum st hN
    have := hU i j h1 h2 he
    have h4 := h3 (kPosI st) (kPosJ st) a1 a2
    simp only at h4
    exact absurd (lt_of_lt_of_le this h4) (lt_irrefl _)

theorem crun_of_tieFree (pick : KState ℚ → Nat × Nat) (hp : TieRule pick) (m : Mode) (rws : List Row)
    (htf : TieFree m rws) (k : Nat) (hk : k + 1 ≤ rws.length) :
    crun pick rws.length (kinit (α := ℚ) m rws) k = krun rws.length (kinit (α := ℚ) m rws) k := by
  induction k with
  | zero => rfl
  | succ k ih =>
    have e := ih (by omega)
    have hs := krun_act_size m rws k (by omega)
    show stepAt _ (crun pick _ _ k) _ _ = kstep _ (krun _ _ k)
    rw [e, kstep_eq_stepAt _ _ (by omega)]
    have := (hp _ (by omega : 2 ≤ (krun rws.length (kinit (α := ℚ) m rws) k).act.size)).eq_of_uniqueMin (htf k (by omega))
    rw [this]

/-- where no pass of UPGMA ties, EVERY tie rule gives the weights of the code: a tie rule acts at ties only -/
theorem gscWith_eq_gsc_of_tieFree (pick : KState ℚ → Nat × Nat) (hp : TieRule pick) (m : Mode) (rows : List Row)
    (hne : rows ≠ []) (htf : TieFree m rows) : gscWith pick m rows = gsc (α := ℚ) m rows := by
  have hl : 0 < rows.length := List.length_pos_iff.mpr hne
  unfold gscWith gsc
  rw [crun_of_tieFree pick hp m rows htf (rows.length - 1) (by omega)]
  rfl

/-! ### sum N and non-negativity do not depend on WHICH pair a pass joins

  Not even on its being a minimum: the clamp `ESL_MAX(0., …)` keeps every branch length ≥ 0 and the traversals +
  normalisation do the rest. So these two properties hold for whatever decisions the binary64 code takes at (near-)ties,
  where it need not follow the exact-arithmetic run. -/

theorem stepAt_inv (n : Nat) (st : KState ℚ) (pi pj : Nat) (h : KInv st) : KInv (stepAt n st pi pj) := by
  have hh : 0 ≤ kdist st.rows (st.act.getD pi 0) (st.act.getD pj 0) / (ofNat 2 : ℚ) := by
    have := h.rows.kdist (st.act.getD pi 0) (st.act.getD pj 0)
    simp only [ofNat_rat]; positivity
  refine ⟨?_, ?_⟩
  · show RowsNN (st.rows.push _)
    apply h.rows.push
    intro x
    simp only [Array.getD_eq_getD_getElem?, Array.getElem?_map]
    cases hx : (Array.range st.rows.size)[x]? with
    | none => simp
    | some x' =>
      simp only [Option.map_some, Option.getD_some, kmerged, ofNat_rat]
      have key : ∀ a, 0 ≤ kdist st.rows a x' := fun a => h.rows.kdist a x'
      exact div_nonneg (add_nonneg (mul_nonneg (Nat.cast_nonneg _) (key _)) (mul_nonneg (Nat.cast_nonneg _) (key _)))
        (Nat.cast_nonneg _)
  · intro nd hnd
    have hnd' : nd ∈ (⟨st.act.getD pi 0, st.act.getD pj 0,
        kbranch n (kdist st.rows (st.act.getD pi 0) (st.act.getD pj 0) / ofNat 2) st.hgt (st.act.getD pi 0),
        kbranch n (kdist st.rows (st.act.getD pi 0) (st.act.getD pj 0) / ofNat 2) st.hgt (st.act.getD pj 0)⟩ : KNode ℚ) ::
        st.nodes := hnd
    rcases List.mem_cons.mp hnd' with rfl | h'
    · exact ⟨kbranch_nonneg _ _ hh _ _, kbranch_nonneg _ _ hh _ _⟩
    · exact h.nodes nd h'

theorem crun_inv (pick : KState ℚ → Nat × Nat) (n : Nat) (st : KState ℚ) (h : KInv st) (k : Nat) :
    KInv (crun pick n st k) := by
  induction k with
  | zero => exact h
  | succ k ih => exact stepAt_inv n _ _ _ ih

/-- for EVERY choice of the pair to join in each pass (`pick` unconstrained): N weights, each ≥ 0, summing to N -/
theorem gscWith_sum_nonneg (pick : KState ℚ → Nat × Nat) (m : Mode) (rows : List Row) (hne : rows ≠ []) :
    (gscWith pick m rows).length = rows.length ∧ (gscWith pick m rows).sum = rows.length ∧
      ∀ w ∈ gscWith pick m rows, 0 ≤ w := by
  have hl : 0 < rows.length := List.length_pos_iff.mpr hne
  unfold gscWith
  by_cases h1 : (rows.length == 1) = true
  · rw [if_pos h1]
    have : rows.length = 1 := by simpa using h1
    simp [this]
  · rw [if_neg h1]
    have hinv : KInv (crun pick rows.length (kinit (α := ℚ) m rows) (rows.length - 1)) :=
      crun_inv pick _ _ ⟨kinit_RowsNN m rows, by intro nd hnd; simp [kinit] at hnd⟩ _
    exact ⟨gscTree_length _ _, gscTree_sum _ _ hl, gscTree_nonneg _ _ hinv.nodes⟩

/-! ### the witness: `AAAA`, `AABB`, `BBBB` and its reversal -/

def tw0 : List Row := [[65, 65, 65, 65], [65, 65, 66, 66], [66, 66, 66, 66]]
def tw1 : List Row := [[66, 66, 66, 66], [65, 65, 66, 66], [65, 65, 65, 65]]
def tS0 : KState ℚ := kinit (α := ℚ) Mode.text tw0

theorem tw0_distinct (i j : Nat) (hij : i < j) (hj : j < tw0.length) : tw0.getD i [] ≠ tw0.getD j [] := by
  have hl : tw0.length = 3 := rfl
  rw [hl] at hj
  have : (i = 0 ∧ j = 1) ∨ (i = 0 ∧ j = 2) ∨ (i = 1 ∧ j = 2) := by omega
  rcases this with ⟨rfl, rfl⟩ | ⟨rfl, rfl⟩ | ⟨rfl, rfl⟩ <;> decide

theorem tw1_is_tw0_reversed : tw1 = [2, 1, 0].map (fun i => tw0.getD i []) := by decide
/-- the reversed alignment has the same distance matrix, entry for entry -/
theorem tS0_reversed : kinit (α := ℚ) Mode.text tw1 = tS0 := by decide +kernel

theorem tS0_minPair {ij : Nat × Nat} (h : MinPair tS0 ij) : ij = (0, 1) ∨ ij = (1, 2) := by
  obtain ⟨i, j⟩ := ij
  obtain ⟨h1, h2, h3⟩ := h
  have hs : tS0.act.size = 3 := by decide +kernel
  simp only [hs] at h2 h3
  simp only at h1
  have hc : (i = 0 ∧ j = 1) ∨ (i = 0 ∧ j = 2) ∨ (i = 1 ∧ j = 2) := by omega
  rcases hc with ⟨rfl, rfl⟩ | ⟨rfl, rfl⟩ | ⟨rfl, rfl⟩
  · exact Or.inl rfl
  · exact absurd (h3 0 1 (by omega) (by omega)) (by decide +kernel)
  · exact Or.inr rfl

theorem two_minPair {st : KState ℚ} (hs : st.act.size = 2) {ij : Nat × Nat} (h : MinPair st ij) : ij = (0, 1) := by
  obtain ⟨i, j⟩ := ij
  obtain ⟨h1, h2, _⟩ := h
  simp only [hs] at h2
  simp only at h1
  have : i = 0 ∧ j = 1 := by omega
  rw [this.1, this.2]

/-- the weights after joining positions `a`,`b` first (the second pass has one pair only) -/
def tW (a b : Nat) : List ℚ := normalizeToN (gscTreeRaw 3 (stepAt 3 (stepAt 3 tS0 a b) 0 1).nodes)

theorem gscWith_on_state (pick : KState ℚ → Nat × Nat) (hp : TieRule pick) (rows : List Row)
    (hS : kinit (α := ℚ) Mode.text rows = tS0) (hl : rows.length = 3) :
    gscWith pick Mode.text rows = tW 0 1 ∨ gscWith pick Mode.text rows = tW 1 2 := by
  have e : gscWith pick Mode.text rows =
      normalizeToN (gscTreeRaw 3 (stepAt 3 (stepAt 3 tS0 (pick tS0).1 (pick tS0).2)
        (pick (stepAt 3 tS0 (pick tS0).1 (pick tS0).2)).1 (pick (stepAt 3 tS0 (pick tS0).1 (pick tS0).2)).2).nodes) := by
    unfold gscWith
    rw [hl, hS]
    rfl
  rw [e]
  rcases tS0_minPair (hp tS0 (by decide +kernel)) with h | h
  · rw [h]
    have hs : (stepAt 3 tS0 0 1).act.size = 2 := by decide +kernel
    rw [two_minPair hs (hp _ (by omega))]
    exact Or.inl rfl
  · rw [h]
    have hs : (stepAt 3 tS0 1 2).act.size = 2 := by decide +kernel
    rw [two_minPair hs (hp _ (by omega))]
    exact Or.inr rfl

theorem tW_values : tW 0 1 = [15/16, 15/16, 9/8] ∧ tW 1 2 = [9/8, 15/16, 15/16] := by decide +kernel

/-- EVERY tie rule fails on the witness: the weights of `AAAA, AABB, BBBB` relisted in reverse are not the reversed weights -/
theorem tieRule_fails_on_witness (pick : KState ℚ → Nat × Nat) (hp : TieRule pick) :
    gscWith pick Mode.text ([2, 1, 0].map fun i => tw0.getD i []) ≠
      [2, 1, 0].map (fun i => (gscWith pick Mode.text tw0).getD i 0) := by
  rw [← tw1_is_tw0_reversed]
  have h0 := gscWith_on_state pick hp tw0 rfl rfl
  have h1 := gscWith_on_state pick hp tw1 tS0_reversed rfl
  -- the same state ⇒ the same pick ⇒ the same vector
  have hsame : gscWith pick Mode.text tw1 = gscWith pick Mode.text tw0 := by
    unfold gscWith
    rw [show tw1.length = tw0.length from rfl, tS0_reversed]
    rfl
  rw [hsame]
  obtain ⟨v1, v2⟩ := tW_values
  rcases h0 with h | h
  · rw [h, v1]; decide +kernel
  · rw [h, v2]; decide +kernel

end EaselModel.Weights
