import EaselModel.Weights.Lemmas
import EaselModel.Weights.Adv
/-! C16 helper lemmas, part 15: the configured PB routine without its sampling branch is the default-path model. -/
namespace EaselModel.Weights

theorem pbConsensusAdv_cols_no_sampling (abc : Abc) (cfg : WCfg) (deal : Nat → Nat → List Nat) (rf : Option Row)
    (rows : List Row) (h : (cfg.allowSamp && decide ((rows.length : Int) > cfg.sampthresh)) = false) :
    (pbConsensusAdv abc cfg deal rf rows).cols =
      (pbConsensus abc cfg.rule (if cfg.ignoreRf then none else rf) (rows.map (rowInfo abc cfg.minspan)) (alenOf rows)).cols := by
  unfold pbConsensusAdv pbConsensus consWay
  cases hrf : (if cfg.ignoreRf then none else rf) with
  | none => simp [h]
  | some r => simp

theorem pbAdv_eq_pbDigital (abc : Abc) (cfg : WCfg) (deal : Nat → Nat → List Nat) (rf : Option Row) (rows : List Row)
    (h : (cfg.allowSamp && decide ((rows.length : Int) > cfg.sampthresh)) = false) :
    pbAdv (α := ℚ) abc cfg deal rf rows =
      pbDigital abc cfg.rule cfg.minspan (if cfg.ignoreRf then none else rf) rows := by
  unfold pbAdv pbDigital
  rw [pbConsensusAdv_cols_no_sampling abc cfg deal rf rows h]

end EaselModel.Weights
