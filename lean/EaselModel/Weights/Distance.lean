import EaselModel.Weights.Model
import EaselModel.Random.Model
/-! C16 — the rest of the pairwise functions of esl_distance.c: `esl_dst_{C,X}PairMatch`, `esl_dst_{C,X}JukesCantor`
    (+ static `jukescantor()`), `esl_dst_{C,X}AverageId`, `esl_dst_{C,X}AverageMatch` with their sampling branch.
    Core Lean only. `Float` instance = the C doubles (same libm `log`/`exp`); `ℚ`/`ℝ` instances carry the theorems
    (`Weights/DistanceLemmas.lean`). -/
namespace EaselModel.Weights
open WNum EaselModel.Random

/-! ## esl_dst_CPairMatch / esl_dst_XPairMatch -/

/-- the loop: `len` = columns where either is a residue, `nm` = columns where both are; `none` = ends do not coincide -/
def matchCounts (m : Mode) : Row → Row → Nat → Nat → Option (Nat × Nat)
  | [], [], nm, len => some (nm, len)
  | x :: xs, y :: ys, nm, len =>
    matchCounts m xs ys (if m.isRes x && m.isRes y then nm + 1 else nm) (if m.isRes x || m.isRes y then len + 1 else len)
  | _, _, _, _ => none

/-- `(pm, nm, n)`; `pm = (len==0 ? 0. : (double) nm / (double) len)`; `none` = eslEINVAL -/
def pairMatch {α} [WNum α] (m : Mode) (a b : Row) : Option (α × Nat × Nat) :=
  match matchCounts m a b 0 0 with
  | none => none
  | some (nm, len) => some (if len == 0 then ofNat 0 else ofNat nm / ofNat len, nm, len)

/-- the value the averaging routines use (they stop at the first error; rows of one alignment never produce one) -/
def pmatch {α} [WNum α] (m : Mode) (a b : Row) : α :=
  match pairMatch (α := α) m a b with
  | some (p, _, _) => p
  | none => ofNat 0

/-! ## esl_dst_CJukesCantor / esl_dst_XJukesCantor -/

/-- which cells are compared and how: text = `isalpha` both, `toupper` equal; digital = `esl_abc_XIsCanonical` both, same code -/
structure JCMode where
  ok : UInt8 → Bool
  key : UInt8 → UInt8

def JCMode.text : JCMode := ⟨isAlpha, toUpper⟩
def JCMode.digital (abc : Abc) : JCMode := ⟨fun x => decide (x.toNat < abc.K), id⟩

/-- `n1` identities, `n2` substitutions over the columns where both cells qualify; `none` = ends do not coincide -/
def jcCounts (j : JCMode) : Row → Row → Nat → Nat → Option (Nat × Nat)
  | [], [], n1, n2 => some (n1, n2)
  | x :: xs, y :: ys, n1, n2 =>
    if j.ok x && j.ok y then
      (if j.key x == j.key y then jcCounts j xs ys (n1 + 1) n2 else jcCounts j xs ys n1 (n2 + 1))
    else jcCounts j xs ys n1 n2
  | _, _, _, _ => none

/-- what the Jukes-Cantor formula needs beyond `WNum` -/
class WLog (α : Type) extends WNum α where
  log : α → α
  exp : α → α
  neg : α → α

instance : WLog Float where
  log := Float.log
  exp := Float.exp
  neg x := -x

inductive JCResult (α : Type)
  | einval                       -- strings not same length
  | edivzero                     -- no column compared; outputs HUGE_VAL
  | saturated                    -- eslOK with distance = variance = HUGE_VAL (x <= 0)
  | ok (distance variance : α)

/-- static `jukescantor(n1, n2, alphabet_size, …)`, operand order as in the C expressions:
    `D = n2/(n1+n2); x = 1. - D * K/(K-1.); x <= 0 ? HUGE : distance = -log(x) * K/(K-1),
     variance = exp( 2.*K*distance/(K-1) ) * D * (1.-D) / N` -/
def jukescantor {α} [WLog α] (n1 n2 K : Nat) : JCResult α :=
  if n1 + n2 == 0 then .edivzero else
  let k : α := ofNat K
  let D : α := ofNat n2 / ofNat (n1 + n2)
  let N : α := ofNat (n1 + n2)
  let x : α := ofNat 1 - D * k / (k - ofNat 1)
  if leb x (ofNat 0) then .saturated
  else
    let distance := WLog.neg (WLog.log x) * k / (k - ofNat 1)
    .ok distance (WLog.exp (ofNat 2 * k * distance / (k - ofNat 1)) * D * (ofNat 1 - D) / N)

def jukesCantor {α} [WLog α] (j : JCMode) (K : Nat) (a b : Row) : JCResult α :=
  match jcCounts j a b 0 0 with
  | none => .einval
  | some (n1, n2) => jukescantor n1 n2 K

/-! ## esl_dst_{C,X}AverageId, esl_dst_{C,X}AverageMatch -/

/-- the test that selects the exhaustive branch: `N <= max_comparisons && N <= sqrt(2. * max_comparisons) &&
    (N * (N-1) / 2) <= max_comparisons`; the middle conjunct is written over ℕ (`N ≤ sqrt(2m)` ⇔ `N² ≤ 2m`; the binary64
    `sqrt` agrees for N < 2^20) -/
def exhaustive (N maxc : Nat) : Bool := decide (N ≤ maxc) && decide (N * N ≤ 2 * maxc) && decide (N * (N - 1) / 2 ≤ maxc)

/-- `for i, for j = i+1..`: the pairs in the order the C loops visit them -/
def allPairs (N : Nat) : List (Nat × Nat) := upperPairs N

/-- `avg = 0.; for (...) avg += f(i,j);` then `avg /= (double) denom` -/
def averageOver {α} [WNum α] (f : Row → Row → α) (rows : List Row) (pairs : List (Nat × Nat)) (denom : Nat) : α :=
  (pairs.foldl (fun acc p => acc + f (rows.getD p.1 []) (rows.getD p.2 [])) (ofNat 0)) / ofNat denom

/-- `do { i = esl_rnd_Roll(rng, N); j = esl_rnd_Roll(rng, N); } while (j == i);` -/
def samplePair (N : Nat) : Nat → Rng → Option ((Nat × Nat) × Rng)
  | 0, _ => none
  | fuel + 1, r =>
    match r.roll N 1000 with
    | none => none
    | some (i, r1) =>
      match r1.roll N 1000 with
      | none => none
      | some (j, r2) => if j == i then samplePair N fuel r2 else some ((i, j), r2)

/-- the `max_comparisons` pairs the sampling branch visits, from `esl_randomness_Create(42)` -/
def samplePairs (N : Nat) : Nat → Rng → List (Nat × Nat) → List (Nat × Nat)
  | 0, _, acc => acc.reverse
  | k + 1, r, acc =>
    match samplePair N 10000 r with
    | none => acc.reverse
    | some (p, r') => samplePairs N k r' (p :: acc)

/-- `esl_dst_{C,X}AverageId` (f = pid) / `AverageMatch` (f = pmatch): `sampled` = the pairs of the sampling branch -/
def average {α} [WNum α] (f : Row → Row → α) (rows : List Row) (maxc : Nat) (sampled : List (Nat × Nat)) : α :=
  let N := rows.length
  if N ≤ 1 then ofNat 1
  else if exhaustive N maxc then averageOver f rows (allPairs N) (N * (N - 1) / 2)
  else averageOver f rows sampled maxc

def averageId {α} [WNum α] (m : Mode) (rows : List Row) (maxc : Nat) (sampled : List (Nat × Nat)) : α :=
  average (pid m) rows maxc sampled

def averageMatch {α} [WNum α] (m : Mode) (rows : List Row) (maxc : Nat) (sampled : List (Nat × Nat)) : α :=
  average (pmatch m) rows maxc sampled

/-! ## esl_dst_{C,X}JukesCantorMx -/

/-- entry (a, b) of the two matrices: `D->mx[i][i] = V->mx[i][i] = 0.`, the upper triangle computed by
    `esl_dst_{C,X}JukesCantor(as[i], as[j])`, i < j, and mirrored -/
def jcMxEntry {α} [WLog α] (j : JCMode) (K : Nat) (rows : List Row) (a b : Nat) : JCResult α :=
  if a == b then .ok (ofNat 0) (ofNat 0)
  else if a < b then jukesCantor j K (rows.getD a []) (rows.getD b [])
  else jukesCantor j K (rows.getD b []) (rows.getD a [])

/-- the status the matrix routine throws: that of the first pair (row-major, i < j) whose distance call fails
    (eslEINVAL unaligned, eslEDIVZERO no compared column); both matrices are then returned NULL -/
def jcMxError {α} [WLog α] (j : JCMode) (K : Nat) (rows : List Row) : Option (JCResult α) :=
  (upperPairs rows.length).findSome? fun p =>
    match jukesCantor (α := α) j K (rows.getD p.1 []) (rows.getD p.2 []) with
    | .einval => some .einval
    | .edivzero => some .edivzero
    | _ => none

/-- `esl_dst_{C,X}JukesCantorMx`: `none` after a failure, else the N×N table of (distance, variance) entries -/
def jukesCantorMx {α} [WLog α] (j : JCMode) (K : Nat) (rows : List Row) : Except (JCResult α) (List (List (JCResult α))) :=
  match jcMxError (α := α) j K rows with
  | some e => .error e
  | none => .ok ((List.range rows.length).map fun a => (List.range rows.length).map fun b => jcMxEntry j K rows a b)

/-! ## esl_dst_XAvgConnectivity, esl_dst_XAvgSubsetConnectivity -/

/-- `if (id > idthresh) avgconn += 1.; avgid += id;` over the given pairs, then both divided by `denom` -/
def connOver {α} [WNum α] (f : Row → Row → α) (thresh : α) (rows : List Row) (pairs : List (Nat × Nat)) (denom : Nat) : α × α :=
  let acc := pairs.foldl (fun (acc : α × α) p =>
    let id := f (rows.getD p.1 []) (rows.getD p.2 [])
    (acc.1 + id, if ltb thresh id then acc.2 + ofNat 1 else acc.2)) (ofNat 0, ofNat 0)
  (acc.1 / ofNat denom, acc.2 / ofNat denom)

/-- `esl_dst_XAvgConnectivity`: (avgid, avgconn); the same three branches as `esl_dst_XAverageId` -/
def avgConnectivity {α} [WNum α] (f : Row → Row → α) (rows : List Row) (maxc : Nat) (thresh : α)
    (sampled : List (Nat × Nat)) : α × α :=
  let N := rows.length
  if N ≤ 1 then (ofNat 1, ofNat 1)
  else if exhaustive N maxc then connOver f thresh rows (allPairs N) (N * (N - 1) / 2)
  else connOver f thresh rows sampled maxc

/-- `esl_dst_XAvgSubsetConnectivity`: the same computation on the rows `ax[V[0]], …, ax[V[nV-1]]` (the rolls are over nV) -/
def avgSubsetConnectivity {α} [WNum α] (f : Row → Row → α) (rows : List Row) (V : List Nat) (maxc : Nat) (thresh : α)
    (sampled : List (Nat × Nat)) : α × α :=
  avgConnectivity f (V.map fun v => rows.getD v []) maxc thresh sampled

/-! ## error paths: sequences that are not aligned (different lengths) -/

/-- the pairs an averaging routine calls its pairwise function on: none for N ≤ 1, all i < j in the exhaustive branch, the
    sampled ones otherwise -/
def visitedPairs (N maxc : Nat) (sampled : List (Nat × Nat)) : List (Nat × Nat) :=
  if N ≤ 1 then [] else if exhaustive N maxc then allPairs N else sampled

/-- the matrix and averaging routines stop with the pairwise function's eslEINVAL at the first visited pair whose two
    sequences differ in length (outputs NULL resp. 0) -/
def unalignedVisited (rows : List Row) (pairs : List (Nat × Nat)) : Bool :=
  pairs.any fun p => (rows.getD p.1 []).length != (rows.getD p.2 []).length

end EaselModel.Weights
