import EaselModel.Weights.TreeOps
import EaselModel.Weights.Lemmas
/-! C16 helper lemmas, part 34 (round 6b): `esl_tree_ToDistanceMatrix` returns the PATH METRIC of the tree.

  Specification, independent of the algorithm (`TreePath t a b w`: the path between internal nodes a and b has length w):
  a node is at distance 0 from itself; if a is not an ancestor-or-self of b, every path from a to b starts with the branch
  above a; symmetrically for b. The C loop `while (a != b) { if (a < b) swap; d += branch above a; a = parent[a]; }` always
  lifts the LARGER-numbered node; that is sound because in Easel's numbering a parent has a smaller number than its child
  (`ParentsSmaller`), so the larger of two different nodes is never an ancestor of the other — and it terminates for the
  same reason (a + b decreases). -/
namespace EaselModel.Weights
open WNum

/-- length of the branch above internal node `v` (as the C code reads it: `(T->left[p] == v) ? T->ld[p] : T->rd[p]`) -/
def upLen (t : ETree ℚ) (v : Nat) : ℚ := if t.l (t.p v) == (v : Int) then t.dl (t.p v) else t.dr (t.p v)

/-- the k-th ancestor by `parent[]` -/
def anc (t : ETree ℚ) : Nat → Nat → Nat
  | 0, v => v
  | k + 1, v => anc t k (t.p v)

/-- a is an ancestor of b, or b itself -/
def IsAnc (t : ETree ℚ) (a b : Nat) : Prop := ∃ k, anc t k b = a

inductive TreePath (t : ETree ℚ) : Nat → Nat → ℚ → Prop
  | refl (v : Nat) : TreePath t v v 0
  | up_left {a b : Nat} {w : ℚ} : ¬ IsAnc t a b → TreePath t (t.p a) b w → TreePath t a b (w + upLen t a)
  | up_right {a b : Nat} {w : ℚ} : ¬ IsAnc t b a → TreePath t a (t.p b) w → TreePath t a b (w + upLen t b)

theorem TreePath.symm {t : ETree ℚ} {a b : Nat} {w : ℚ} (h : TreePath t a b w) : TreePath t b a w := by
  induction h with
  | refl v => exact TreePath.refl v
  | up_left hn _ ih => exact TreePath.up_right hn ih
  | up_right hn _ ih => exact TreePath.up_left hn ih

/-- Easel's numbering: the root is node 0 and is its own parent; every other node has a smaller-numbered parent -/
structure ParentsSmaller (t : ETree ℚ) : Prop where
  root : t.p 0 = 0
  lt : ∀ v, 0 < v → t.p v < v

theorem anc_le {t : ETree ℚ} (h : ParentsSmaller t) (k v : Nat) : anc t k v ≤ v := by
  induction k generalizing v with
  | zero => exact Nat.le_refl v
  | succ k ih =>
    show anc t k (t.p v) ≤ v
    have h1 := ih (t.p v)
    by_cases hv : v = 0
    · subst hv; rw [h.root]; exact ih 0
    · have := h.lt v (by omega); omega

theorem not_isAnc_of_lt {t : ETree ℚ} (h : ParentsSmaller t) {a b : Nat} (hab : b < a) : ¬ IsAnc t a b := by
  rintro ⟨k, hk⟩
  have := anc_le h k b
  omega

/-- the `while (a != b)` loop adds the length of a tree path between a and b -/
theorem eLca_path {t : ETree ℚ} (h : ParentsSmaller t) (fuel a b : Nat) (d r : ℚ)
    (hr : eLca t fuel a b d = some r) : ∃ w, TreePath t a b w ∧ r = d + w := by
  induction fuel generalizing a b d with
  | zero => simp [eLca] at hr
  | succ f ih =>
    unfold eLca at hr
    by_cases hab : (a == b) = true
    · rw [if_pos hab] at hr
      have e : a = b := by simpa using hab
      subst e
      exact ⟨0, TreePath.refl a, by simp only [Option.some.injEq] at hr; rw [← hr]; ring⟩
    · rw [if_neg hab] at hr
      have hne : a ≠ b := by simpa using hab
      simp only at hr
      by_cases hlt : a < b
      · simp only [if_pos hlt] at hr
        obtain ⟨w, hw, e⟩ := ih _ _ _ hr
        refine ⟨w + upLen t b, TreePath.up_right (not_isAnc_of_lt h hlt) hw.symm, ?_⟩
        rw [e]; unfold upLen; ring
      · simp only [if_neg hlt] at hr
        obtain ⟨w, hw, e⟩ := ih _ _ _ hr
        refine ⟨w + upLen t a, TreePath.up_left (not_isAnc_of_lt h (by omega)) hw, ?_⟩
        rw [e]; unfold upLen; ring

/-- and it ends: a + b decreases -/
theorem eLca_terminates {t : ETree ℚ} (h : ParentsSmaller t) (fuel a b : Nat) (d : ℚ) (hf : a + b < fuel) :
    (eLca t fuel a b d).isSome = true := by
  induction fuel generalizing a b d with
  | zero => omega
  | succ f ih =>
    unfold eLca
    by_cases hab : (a == b) = true
    · rw [if_pos hab]; rfl
    · rw [if_neg hab]
      have hne : a ≠ b := by simpa using hab
      simp only
      by_cases hlt : a < b
      · simp only [if_pos hlt]
        have := h.lt b (by omega)
        exact ih _ _ _ (by omega)
      · simp only [if_neg hlt]
        have := h.lt a (by omega)
        exact ih _ _ _ (by omega)

/-- entry (i, j) of `esl_tree_ToDistanceMatrix`: the two terminal branches plus the length of a tree path between the two
    parent nodes; always defined when the `taxaparent` entries are node numbers -/
theorem eDist_path {t : ETree ℚ} (h : ParentsSmaller t) (tp : Array Int) (i j : Nat)
    (hi : (tp.getD i 0).toNat < t.N) (hj : (tp.getD j 0).toNat < t.N) :
    ∃ w, TreePath t (tp.getD i 0).toNat (tp.getD j 0).toNat w ∧
      eDist t tp i j = some
        ((if t.l (tp.getD i 0).toNat == -(i : Int) then t.dl (tp.getD i 0).toNat else t.dr (tp.getD i 0).toNat) +
         (if t.l (tp.getD j 0).toNat == -(j : Int) then t.dl (tp.getD j 0).toNat else t.dr (tp.getD j 0).toNat) + w) := by
  have hs := eLca_terminates h (2 * t.N) (tp.getD i 0).toNat (tp.getD j 0).toNat
    ((if t.l (tp.getD i 0).toNat == -(i : Int) then t.dl (tp.getD i 0).toNat else t.dr (tp.getD i 0).toNat) +
     (if t.l (tp.getD j 0).toNat == -(j : Int) then t.dl (tp.getD j 0).toNat else t.dr (tp.getD j 0).toNat)) (by omega)
  obtain ⟨r, hr⟩ := Option.isSome_iff_exists.mp hs
  obtain ⟨w, hw, e⟩ := eLca_path h _ _ _ _ _ hr
  refine ⟨w, hw, ?_⟩
  unfold eDist
  simp only
  rw [hr, e]

end EaselModel.Weights
