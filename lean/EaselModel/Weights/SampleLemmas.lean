import EaselModel.Weights.DistanceLemmas
import EaselModel.Random.Lemmas
/-! C16 helper lemmas, part 21: the sampling branch of `esl_dst_*Average*` / `*Connectivity`, for EVERY generator state: each
    sampled pair names two DIFFERENT rows inside the alignment, and at most `max_comparisons` pairs are drawn. -/
namespace EaselModel.Weights
open EaselModel.Random

theorem roll_lt' (r : Rng) (n fuel v : Nat) (r' : Rng) (h : r.roll n fuel = some (v, r')) : v < n := by
  induction fuel generalizing r with
  | zero => simp [Rng.roll] at h
  | succ fuel ih =>
    simp only [Rng.roll] at h
    split at h
    · rename_i v' hv; cases h; exact rollWord_lt _ _ _ hv
    · exact ih _ h

theorem samplePair_valid (N : Nat) : ∀ (fuel : Nat) (r : Rng) (p : Nat × Nat) (r' : Rng),
    samplePair N fuel r = some (p, r') → p.1 < N ∧ p.2 < N ∧ p.2 ≠ p.1 := by
  intro fuel
  induction fuel with
  | zero => intro r p r' h; simp [samplePair] at h
  | succ fuel ih =>
    intro r p r' h
    simp only [samplePair] at h
    cases h1 : r.roll N 1000 with
    | none => simp [h1] at h
    | some ir =>
      obtain ⟨i, r1⟩ := ir
      simp only [h1] at h
      cases h2 : r1.roll N 1000 with
      | none => simp [h2] at h
      | some jr =>
        obtain ⟨j, r2⟩ := jr
        simp only [h2] at h
        by_cases hji : (j == i) = true
        · rw [if_pos hji] at h; exact ih _ _ _ h
        · rw [if_neg hji] at h
          cases h
          exact ⟨roll_lt' _ _ _ _ _ h1, roll_lt' _ _ _ _ _ h2, by simpa using hji⟩

theorem samplePairs_valid (N : Nat) : ∀ (k : Nat) (r : Rng) (acc : List (Nat × Nat)),
    (∀ p ∈ acc, p.1 < N ∧ p.2 < N ∧ p.2 ≠ p.1) →
    (∀ p ∈ samplePairs N k r acc, p.1 < N ∧ p.2 < N ∧ p.2 ≠ p.1) ∧ (samplePairs N k r acc).length ≤ acc.length + k := by
  intro k
  induction k with
  | zero =>
    intro r acc hacc
    simp only [samplePairs]
    exact ⟨fun p hp => hacc p (List.mem_reverse.mp hp), by simp⟩
  | succ k ih =>
    intro r acc hacc
    simp only [samplePairs]
    cases h : samplePair N 10000 r with
    | none => exact ⟨fun p hp => hacc p (List.mem_reverse.mp hp), by simp⟩
    | some pr =>
      obtain ⟨p0, r'⟩ := pr
      have hv := samplePair_valid N _ _ _ _ h
      obtain ⟨a1, a2⟩ := ih r' (p0 :: acc) (by
        intro p hp
        rcases List.mem_cons.mp hp with e | e
        · rw [e]; exact hv
        · exact hacc p e)
      refine ⟨a1, ?_⟩
      simp only [List.length_cons] at a2
      show (samplePairs N k r' (p0 :: acc)).length ≤ acc.length + (k + 1)
      omega

/-- an alignment of residue-free rows: every pairwise value is 0, so both averages are 0 (N ≥ 2; any sample inside the alignment) -/
theorem average_all_zero (f : Row → Row → ℚ) (rows : List Row) (maxc : Nat) (sampled : List (Nat × Nat))
    (hf : ∀ a ∈ rows, ∀ b ∈ rows, f a b = 0) (hN : 2 ≤ rows.length)
    (hs : ∀ p ∈ sampled, p.1 < rows.length ∧ p.2 < rows.length) : average f rows maxc sampled = 0 := by
  have hmem : ∀ i, i < rows.length → rows.getD i [] ∈ rows := by
    intro i hi
    rw [List.getD_eq_getElem?_getD, List.getElem?_eq_getElem hi]; exact List.getElem_mem _
  have hz : ∀ (pairs : List (Nat × Nat)), (∀ p ∈ pairs, p.1 < rows.length ∧ p.2 < rows.length) →
      (pairs.map fun p => f (rows.getD p.1 []) (rows.getD p.2 [])).sum = 0 := by
    intro pairs hp
    apply List.sum_eq_zero
    intro x hx
    obtain ⟨p, hpm, rfl⟩ := List.mem_map.mp hx
    exact hf _ (hmem _ (hp p hpm).1) _ (hmem _ (hp p hpm).2)
  rw [(average_value f rows maxc sampled) hN]
  split
  · rw [hz _ (fun p hp => by
      have := mem_upperPairs.mp (show (p.1, p.2) ∈ upperPairs rows.length from hp)
      exact ⟨by omega, this.2⟩)]
    simp
  · rw [hz _ hs]; simp

end EaselModel.Weights
