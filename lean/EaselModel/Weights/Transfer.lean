import EaselModel.Weights.Lemmas
/-! C16 helper lemmas, part 22: the text and the digital definition of pairwise identity AGREE under any symbol map that
    preserves "is a residue" and "same residue" (e.g. digitising an alignment of canonical residues and gaps). -/
namespace EaselModel.Weights
open WNum

theorem pairCounts_map (m m' : Mode) (φ : UInt8 → UInt8) (S : UInt8 → Prop)
    (hres : ∀ c, S c → m'.isRes (φ c) = m.isRes c)
    (hkey : ∀ c c', S c → S c' → m.isRes c = true → m.isRes c' = true → (m'.key (φ c) == m'.key (φ c')) = (m.key c == m.key c')) :
    ∀ (a b : Row), (∀ c ∈ a, S c) → (∀ c ∈ b, S c) → ∀ nid l1 l2,
      pairCounts m' (a.map φ) (b.map φ) nid l1 l2 = pairCounts m a b nid l1 l2 := by
  intro a
  induction a with
  | nil => intro b _ _ nid l1 l2; cases b <;> simp [pairCounts]
  | cons x xs ih =>
    intro b ha hb nid l1 l2
    cases b with
    | nil => simp [pairCounts]
    | cons y ys =>
      simp only [List.map_cons, pairCounts]
      have hx := ha x (by simp)
      have hy := hb y (by simp)
      rw [hres x hx, hres y hy]
      have hk : (m.isRes x && m.isRes y && m'.key (φ x) == m'.key (φ y)) = (m.isRes x && m.isRes y && m.key x == m.key y) := by
        cases hrx : m.isRes x <;> cases hry : m.isRes y <;> simp only [Bool.false_and, Bool.and_false, Bool.true_and, Bool.and_true]
        exact hkey x y hx hy hrx hry
      rw [hk]
      exact ih ys (fun c hc => ha c (by simp [hc])) (fun c hc => hb c (by simp [hc])) _ _ _

/-- `esl_dst_CPairId` on a text alignment and `esl_dst_XPairId` on its image under `φ` return the same (pid, nid, n) -/
theorem pairId_map {α} [WNum α] (m m' : Mode) (φ : UInt8 → UInt8) (S : UInt8 → Prop)
    (hres : ∀ c, S c → m'.isRes (φ c) = m.isRes c)
    (hkey : ∀ c c', S c → S c' → m.isRes c = true → m.isRes c' = true → (m'.key (φ c) == m'.key (φ c')) = (m.key c == m.key c'))
    (a b : Row) (ha : ∀ c ∈ a, S c) (hb : ∀ c ∈ b, S c) :
    pairId (α := α) m' (a.map φ) (b.map φ) = pairId m a b := by
  unfold pairId
  rw [pairCounts_map m m' φ S hres hkey a b ha hb]

/-- a digitiser for DNA text: A C G T (either case) ↦ 0..3, everything else ↦ the gap code 4 -/
def digitizeDna (c : UInt8) : UInt8 :=
  let u := toUpper c
  if u == 65 then 0 else if u == 67 then 1 else if u == 71 then 2 else if u == 84 then 3 else 4

/-- characters the digitiser handles faithfully: the four canonical letters and every non-letter -/
def dnaOK (c : UInt8) : Prop := isAlpha c = true → (toUpper c = 65 ∨ toUpper c = 67 ∨ toUpper c = 71 ∨ toUpper c = 84)

instance (c : UInt8) : Decidable (dnaOK c) := by unfold dnaOK; infer_instance

theorem digitizeDna_res : ∀ n, n < 256 → dnaOK (UInt8.ofNat n) →
    (Mode.digital Abc.dna).isRes (digitizeDna (UInt8.ofNat n)) = Mode.text.isRes (UInt8.ofNat n) := by decide +kernel

/-- the key condition as a Boolean test on two byte values -/
def dnaKeyOK (n n' : Nat) : Bool :=
  let c := UInt8.ofNat n
  let c' := UInt8.ofNat n'
  !(decide (dnaOK c) && decide (dnaOK c') && Mode.text.isRes c && Mode.text.isRes c') ||
    (((Mode.digital Abc.dna).key (digitizeDna c) == (Mode.digital Abc.dna).key (digitizeDna c')) ==
      (Mode.text.key c == Mode.text.key c'))

theorem dnaKeyOK_all : ((List.range 256).all fun n => (List.range 256).all fun n' => dnaKeyOK n n') = true := by decide +kernel

theorem digitizeDna_key (n : Nat) (hn : n < 256) (n' : Nat) (hn' : n' < 256) (h1 : dnaOK (UInt8.ofNat n))
    (h2 : dnaOK (UInt8.ofNat n')) (h3 : Mode.text.isRes (UInt8.ofNat n) = true) (h4 : Mode.text.isRes (UInt8.ofNat n') = true) :
    ((Mode.digital Abc.dna).key (digitizeDna (UInt8.ofNat n)) == (Mode.digital Abc.dna).key (digitizeDna (UInt8.ofNat n'))) =
      (Mode.text.key (UInt8.ofNat n) == Mode.text.key (UInt8.ofNat n')) := by
  have h := dnaKeyOK_all
  rw [List.all_eq_true] at h
  have h' := h n (List.mem_range.mpr hn)
  rw [List.all_eq_true] at h'
  have h'' := h' n' (List.mem_range.mpr hn')
  unfold dnaKeyOK at h''
  simp only [h1, h2, h3, h4, decide_true, Bool.and_self, Bool.not_true, Bool.false_or, beq_iff_eq] at h''
  exact h''

theorem uint8_ofNat_toNat (c : UInt8) : UInt8.ofNat c.toNat = c := by simp

/-- text-mode and digital-mode pairwise identity agree on DNA alignments of canonical residues and gap symbols -/
theorem pairId_text_eq_digital_dna {α} [WNum α] (a b : Row) (ha : ∀ c ∈ a, dnaOK c) (hb : ∀ c ∈ b, dnaOK c) :
    pairId (α := α) (Mode.digital Abc.dna) (a.map digitizeDna) (b.map digitizeDna) = pairId Mode.text a b := by
  apply pairId_map Mode.text (Mode.digital Abc.dna) digitizeDna dnaOK
  · intro c hc
    have := digitizeDna_res c.toNat (UInt8.toNat_lt c) (by rw [uint8_ofNat_toNat]; exact hc)
    rwa [uint8_ofNat_toNat] at this
  · intro c c' hc hc' h1 h2
    have := digitizeDna_key c.toNat (UInt8.toNat_lt c) c'.toNat (UInt8.toNat_lt c')
      (by rw [uint8_ofNat_toNat]; exact hc) (by rw [uint8_ofNat_toNat]; exact hc')
      (by rw [uint8_ofNat_toNat]; exact h1) (by rw [uint8_ofNat_toNat]; exact h2)
    rwa [uint8_ofNat_toNat, uint8_ofNat_toNat] at this
  · exact ha
  · exact hb

end EaselModel.Weights
