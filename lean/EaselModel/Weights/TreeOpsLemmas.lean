import EaselModel.Weights.TreeOps
import EaselModel.Random.Lemmas
/-! C16 helper lemmas, part 32 (round 6): `esl_tree_Simulate` stays inside its arrays, for every generator state.

  The C code indexes `T->parent[node]`, `T->left/right/ld/rd[branchpapa[bidx]]`, `branchpapa/branchside[bidx]`,
  `[nactive-1]`, `[nactive]` without any check. `SimOK` is what the loop keeps true (nactive = node+1 ≤ N, every active
  branch hangs off an existing node); from it every one of those indices is in range (`simStep_in_bounds`,
  `simFinish_in_bounds`), and it is kept for EVERY sequence of draws whose branch index is an active branch
  (`simRun_ok`) — which `esl_rnd_Roll(r, nactive)` guarantees for every generator state (`roll_lt`). -/
namespace EaselModel.Weights
open WNum EaselModel.Random

theorem roll_lt (r : Rng) (n fuel v : Nat) (r' : Rng) (h : r.roll n fuel = some (v, r')) : v < n := by
  induction fuel generalizing r with
  | zero => simp [Rng.roll] at h
  | succ f ih =>
    unfold Rng.roll at h
    simp only at h
    split at h
    · rename_i w hw
      simp only [Option.some.injEq, Prod.mk.injEq] at h
      rw [← h.1]; exact rollWord_lt _ _ _ hw
    · exact ih _ h

theorem swapIB_getD (a : Array Nat) (i j k : Nat) (hi : i < a.size) (hj : j < a.size) :
    (a.swapIfInBounds i j).getD k 0 = if k = i then a.getD j 0 else if k = j then a.getD i 0 else a.getD k 0 := by
  unfold Array.swapIfInBounds
  rw [dif_pos hi, dif_pos hj]
  simp only [Array.getD_eq_getD_getElem?, Array.getElem?_swap]
  by_cases h1 : k = i
  · subst h1
    by_cases h2 : k = j
    · subst h2; simp [Array.getElem?_eq_getElem hi]
    · have h2' : ¬ j = k := fun e => h2 e.symm
      simp [h2', Array.getElem?_eq_getElem hj]
  · have h1' : ¬ i = k := fun e => h1 e.symm
    by_cases h2 : k = j
    · subst h2; simp [h1, h1', Array.getElem?_eq_getElem hi]
    · have h2' : ¬ j = k := fun e => h2 e.symm
      simp [h1, h2, h1', h2']

theorem setIB_getD (a : Array Nat) (i k v : Nat) :
    (a.setIfInBounds i v).getD k 0 = if k = i ∧ i < a.size then v else a.getD k 0 := by
  simp only [Array.getD_eq_getD_getElem?, Array.getElem?_setIfInBounds]
  by_cases h : i = k
  · subst h
    by_cases h2 : i < a.size
    · simp [h2]
    · simp [h2]
  · have h' : ¬ k = i := fun e => h e.symm
    simp [h, h']

section sim
variable {α : Type} [WNum α]

/-- all five arrays of the tree have their `N-1` entries -/
structure TSz (N : Nat) (T : ETree α) : Prop where
  p : T.parent.size = N - 1
  l : T.left.size = N - 1
  r : T.right.size = N - 1
  ld : T.ld.size = N - 1
  rd : T.rd.size = N - 1

theorem simAdd_sz {N : Nat} {T : ETree α} (h : TSz N T) (papa side : Array Nat) (b : Nat) (d : α) :
    TSz N (simAdd T papa side b d) := by
  unfold simAdd
  split
  · exact ⟨h.p, h.l, h.r, by simp [h.ld], h.rd⟩
  · exact ⟨h.p, h.l, h.r, h.ld, by simp [h.rd]⟩

theorem foldl_simAdd_sz {N : Nat} (papa side : Array Nat) (d : α) (l : List Nat) {T : ETree α} (h : TSz N T) :
    TSz N (l.foldl (fun T b => simAdd T papa side b d) T) := by
  induction l generalizing T with
  | nil => exact h
  | cons b l ih => exact ih (simAdd_sz h papa side b d)

/-- what the loop of `esl_tree_Simulate` keeps true -/
structure SimOK (N : Nat) (s : SimSt α) : Prop where
  act : s.nactive = s.node + 1
  le : s.nactive ≤ N
  one : 1 ≤ s.node
  papaSz : s.papa.size = N
  sideSz : s.side.size = N
  sz : TSz N s.T
  papaLt : ∀ b, b < s.nactive → s.papa.getD b 0 < s.node

theorem simInit_ok (N : Nat) (hN : 2 ≤ N) : SimOK N (simInit (α := α) N) := by
  refine ⟨rfl, hN, Nat.le_refl 1, by simp [simInit], by simp [simInit], ⟨?_, ?_, ?_, ?_, ?_⟩, ?_⟩
  all_goals try (simp [simInit, ETree.create])
  intro b _
  simp [Array.getD_eq_getD_getElem?, Array.getElem?_replicate]
  split <;> simp

/-- every index one turn of the `while (nactive < N)` loop uses is inside its array -/
theorem simStep_in_bounds {N : Nat} {s : SimSt α} (h : SimOK N s) (hlt : s.nactive < N) {bidx : Nat}
    (hb : bidx < s.nactive) :
    s.node < s.T.parent.size ∧                                   -- T->parent[node]
    bidx < s.papa.size ∧ bidx < s.side.size ∧                    -- branchpapa[bidx], branchside[bidx]
    s.papa.getD bidx 0 < s.T.left.size ∧ s.papa.getD bidx 0 < s.T.right.size ∧
    s.papa.getD bidx 0 < s.T.ld.size ∧ s.papa.getD bidx 0 < s.T.rd.size ∧
    s.nactive - 1 < s.papa.size ∧ s.nactive < s.papa.size ∧     -- the swap and the two new branches
    (∀ b, b < s.nactive - 1 →                                    -- the `for (bidx = 0; bidx < nactive-1; bidx++)` loop
      (s.papa.swapIfInBounds bidx (s.nactive - 1)).getD b 0 < s.T.ld.size) := by
  have h1 := h.act; have h2 := h.papaSz; have h3 := h.sideSz
  have hp := h.papaLt bidx hb
  have hz := h.sz
  refine ⟨by rw [hz.p]; omega, by omega, by omega, by rw [hz.l]; omega, by rw [hz.r]; omega, by rw [hz.ld]; omega,
    by rw [hz.rd]; omega, by omega, by omega, ?_⟩
  intro b hb'
  rw [swapIB_getD _ _ _ _ (by omega) (by omega), hz.ld]
  have := h.papaLt b (by omega)
  have := h.papaLt (s.nactive - 1) (by omega)
  split
  · omega
  · split <;> omega

theorem simStep_ok {N : Nat} {s : SimSt α} (h : SimOK N s) (hlt : s.nactive < N) (d : α) {bidx : Nat}
    (hb : bidx < s.nactive) : SimOK N (simStep s d bidx) ∧ (simStep s d bidx).nactive = s.nactive + 1 := by
  have h1 := h.act; have h2 := h.papaSz; have h3 := h.sideSz
  refine ⟨⟨?_, ?_, ?_, ?_, ?_, ?_, ?_⟩, rfl⟩
  · show s.nactive + 1 = s.node + 1 + 1; omega
  · show s.nactive + 1 ≤ N; omega
  · show 1 ≤ s.node + 1; omega
  · show (((s.papa.swapIfInBounds bidx (s.nactive - 1)).setIfInBounds (s.nactive - 1) s.node).setIfInBounds s.nactive s.node).size = N
    simp [h2]
  · show (((s.side.swapIfInBounds bidx (s.nactive - 1)).setIfInBounds (s.nactive - 1) 0).setIfInBounds s.nactive 1).size = N
    simp [h3]
  · show TSz N (simStep s d bidx).T
    unfold simStep
    apply foldl_simAdd_sz
    apply simAdd_sz
    have hz := h.sz
    split
    · exact ⟨by simp [hz.p], by simp [hz.l], hz.r, hz.ld, hz.rd⟩
    · exact ⟨by simp [hz.p], hz.l, by simp [hz.r], hz.ld, hz.rd⟩
  · intro b hb'
    show (((s.papa.swapIfInBounds bidx (s.nactive - 1)).setIfInBounds (s.nactive - 1) s.node).setIfInBounds s.nactive s.node).getD b 0 < s.node + 1
    have hb'' : b < s.nactive + 1 := hb'
    rw [setIB_getD, setIB_getD, swapIB_getD _ _ _ _ (by omega) (by omega)]
    simp only [Array.size_setIfInBounds, Array.size_swapIfInBounds, h2]
    split
    · omega
    · split
      · omega
      · have := h.papaLt b (by omega)
        have := h.papaLt (s.nactive - 1) (by omega)
        have := h.papaLt bidx hb
        split
        · omega
        · split <;> omega

/-- the branch index of the k-th draw names an active branch (k-th turn: nactive = first + k) -/
def drawsOK : Nat → List (α × Nat) → Prop
  | _, [] => True
  | na, x :: rest => x.2 < na ∧ drawsOK (na + 1) rest

theorem simRun_ok {N : Nat} (draws : List (α × Nat)) {s : SimSt α} (h : SimOK N s)
    (hlen : s.nactive + draws.length ≤ N) (hd : drawsOK s.nactive draws) :
    SimOK N (draws.foldl (fun s x => simStep s x.1 x.2) s) ∧
      (draws.foldl (fun s x => simStep s x.1 x.2) s).nactive = s.nactive + draws.length := by
  induction draws generalizing s with
  | nil => exact ⟨h, rfl⟩
  | cons x rest ih =>
    simp only [List.length_cons] at hlen
    obtain ⟨hx, hrest⟩ := hd
    obtain ⟨hok, hna⟩ := simStep_ok h (by omega) x.1 hx
    have := ih hok (by rw [hna]; omega) (by rw [hna]; exact hrest)
    simp only [List.foldl_cons, List.length_cons]
    refine ⟨this.1, ?_⟩
    rw [this.2, hna]; omega

/-- the final loop `for (bidx = 0; bidx < N; bidx++)` writes inside the tree arrays -/
theorem simFinish_in_bounds {N : Nat} {s : SimSt α} (h : SimOK N s) (hN : s.nactive = N) (b : Nat) (hb : b < N) :
    b < s.papa.size ∧ b < s.side.size ∧ s.papa.getD b 0 < s.T.left.size ∧ s.papa.getD b 0 < s.T.right.size ∧
      s.papa.getD b 0 < s.T.ld.size ∧ s.papa.getD b 0 < s.T.rd.size := by
  have := h.papaLt b (by omega)
  have h1 := h.act
  have hz := h.sz
  exact ⟨by rw [h.papaSz]; exact hb, by rw [h.sideSz]; exact hb, by rw [hz.l]; omega, by rw [hz.r]; omega,
    by rw [hz.ld]; omega, by rw [hz.rd]; omega⟩

end sim
/-! ### `esl_tree_Compare(T, T)` succeeds on every tree whose link tables agree -/

section compare
variable {α : Type}

/-- the link tables of the tree agree: a taxon child names this node as its `taxaparent` (as `esl_tree_SetTaxaParents` computes
    it), an internal child has a larger number (parents before children) and names this node as its `parent` -/
def ChildOK (t : ETree α) (g : Nat) (c : Int) : Prop :=
  (c ≤ 0 → (eTaxaParents t).getD (-c).toNat 0 = (g : Int)) ∧
  (0 < c → g < c.toNat ∧ c.toNat < t.N - 1 ∧ t.parent.getD c.toNat 0 = (g : Int))

def LinksAgree (t : ETree α) : Prop := ∀ g, g < t.N - 1 → ChildOK t g (t.l g) ∧ ChildOK t g (t.r g)

/-- one node of the postorder pass of `esl_tree_Compare` (the body of `eCompare`'s fold) -/
def cmpStep (t t2 : ETree α) (tp2 : Array Int) (acc : Option (Array Int)) (g : Nat) : Option (Array Int) :=
  match acc with
  | none => none
  | some Mg =>
    let a := if t.l g ≤ 0 then tp2.getD (-(t.l g)).toNat 0 else t2.parent.getD (Mg.getD (t.l g).toNat 0).toNat 0
    let b := if t.r g ≤ 0 then tp2.getD (-(t.r g)).toNat 0 else t2.parent.getD (Mg.getD (t.r g).toNat 0).toNat 0
    if a != b then none else some (Mg.setIfInBounds g a)

theorem eCompare_eq (t t2 : ETree α) :
    eCompare t t2 = ((List.range (t.N - 1)).reverse.foldl (cmpStep t t2 (eTaxaParents t2))
      (some (Array.replicate (t.N - 1) 0))).isSome := rfl

theorem cmp_child (t : ETree α) (g : Nat) (c : Int) (h : ChildOK t g c) (Mg : Array Int)
    (hM : ∀ x, g < x → x < t.N - 1 → Mg.getD x 0 = (x : Int)) :
    (if c ≤ 0 then (eTaxaParents t).getD (-c).toNat 0 else t.parent.getD (Mg.getD c.toNat 0).toNat 0) = (g : Int) := by
  by_cases hc : c ≤ 0
  · rw [if_pos hc]; exact h.1 hc
  · rw [if_neg hc]
    obtain ⟨h1, h2, h3⟩ := h.2 (by omega)
    rw [hM _ h1 h2, Int.toNat_natCast]
    exact h3

theorem cmp_fold_self (t : ETree α) (h : LinksAgree t) (k : Nat) (hk : k ≤ t.N - 1) (Mg : Array Int)
    (hsz : Mg.size = t.N - 1) (hM : ∀ x, k ≤ x → x < t.N - 1 → Mg.getD x 0 = (x : Int)) :
    ((List.range k).reverse.foldl (cmpStep t t (eTaxaParents t)) (some Mg)).isSome = true := by
  induction k generalizing Mg with
  | zero => rfl
  | succ k ih =>
    rw [List.range_succ, List.reverse_append, List.reverse_singleton, List.singleton_append, List.foldl_cons]
    obtain ⟨hl, hr⟩ := h k (by omega)
    have ha := cmp_child t k (t.l k) hl Mg (fun x hx hx' => hM x (by omega) hx')
    have hb := cmp_child t k (t.r k) hr Mg (fun x hx hx' => hM x (by omega) hx')
    have hstep : cmpStep t t (eTaxaParents t) (some Mg) k = some (Mg.setIfInBounds k (k : Int)) := by
      unfold cmpStep
      simp only [ha, hb, bne_self_eq_false, Bool.false_eq_true, ↓reduceIte]
    rw [hstep]
    apply ih (by omega) _ (by simp [hsz])
    intro x hx hx'
    simp only [Array.getD_eq_getD_getElem?, Array.getElem?_setIfInBounds]
    by_cases e : k = x
    · subst e; simp [hsz, hx']
    · have := hM x (by omega) hx'
      simp only [Array.getD_eq_getD_getElem?] at this
      simp [e, this]

/-- `esl_tree_Compare(T, T) == eslOK` for every tree whose link tables agree -/
theorem eCompare_self (t : ETree α) (h : LinksAgree t) : eCompare t t = true := by
  rw [eCompare_eq]
  exact cmp_fold_self t h (t.N - 1) (Nat.le_refl _) _ (by simp) (fun x hx hx' => absurd hx' (by omega))

end compare

end EaselModel.Weights
