import EaselModel.Weights.Sort
/-! C16 helper lemmas, part 19: `esl_quicksort` SORTS — for every comparison function that is reflexive, total and transitive on
    the indices it is given (e.g. `sort_doubles_decreasing` on any vector of rationals), `sorted_at[]` is in non-decreasing
    order of the comparison. Hoare partition with the pivot parked at `lo`; the model's fuel never runs out. -/
namespace EaselModel.Weights

theorem aswap_size (a : Array Nat) (i j : Nat) : (aswap a i j).size = a.size := by
  unfold aswap; simp

theorem aget_aswap (a : Array Nat) (i j k : Nat) (hi : i < a.size) (hj : j < a.size) :
    aget (aswap a i j) k = if k = j then aget a i else if k = i then aget a j else aget a k := by
  unfold aget aswap
  rw [Array.swapIfInBounds_def, dif_pos hi, dif_pos hj]
  simp only [Array.getD_eq_getD_getElem?, Array.getElem?_swap]
  by_cases h1 : j = k
  · subst h1; simp [Array.getElem?_eq_getElem hi]
  · have h1' : ¬ k = j := fun e => h1 e.symm
    by_cases h2 : i = k
    · subst h2; simp [h1, h1', Array.getElem?_eq_getElem hj]
    · have h2' : ¬ k = i := fun e => h2 e.symm
      simp [h1, h2, h1', h2']

/-- `ord'` has the size of `ord`, agrees with it outside [lo,hi], and every value inside came from inside -/
structure SegPerm (lo hi : Nat) (ord ord' : Array Nat) : Prop where
  size : ord'.size = ord.size
  frame : ∀ k, (k < lo ∨ hi < k) → aget ord' k = aget ord k
  inside : ∀ k, lo ≤ k → k ≤ hi → ∃ k0, lo ≤ k0 ∧ k0 ≤ hi ∧ aget ord' k = aget ord k0

theorem SegPerm.refl (lo hi : Nat) (ord : Array Nat) : SegPerm lo hi ord ord :=
  ⟨rfl, fun _ _ => rfl, fun k h1 h2 => ⟨k, h1, h2, rfl⟩⟩

theorem SegPerm.trans {lo hi : Nat} {a b c : Array Nat} (h1 : SegPerm lo hi a b) (h2 : SegPerm lo hi b c) : SegPerm lo hi a c := by
  refine ⟨h2.size.trans h1.size, fun k hk => (h2.frame k hk).trans (h1.frame k hk), ?_⟩
  intro k hk1 hk2
  obtain ⟨k1, a1, a2, e1⟩ := h2.inside k hk1 hk2
  obtain ⟨k0, b1, b2, e0⟩ := h1.inside k1 a1 a2
  exact ⟨k0, b1, b2, e1.trans e0⟩

theorem SegPerm.widen {lo hi lo' hi' : Nat} {a b : Array Nat} (h : SegPerm lo' hi' a b) (h1 : lo ≤ lo') (h2 : hi' ≤ hi) :
    SegPerm lo hi a b := by
  refine ⟨h.size, fun k hk => h.frame k (by omega), ?_⟩
  intro k hk1 hk2
  by_cases hin : lo' ≤ k ∧ k ≤ hi'
  · obtain ⟨k0, a1, a2, e⟩ := h.inside k hin.1 hin.2
    exact ⟨k0, by omega, by omega, e⟩
  · exact ⟨k, hk1, hk2, h.frame k (by omega)⟩

theorem SegPerm.swap (lo hi : Nat) (ord : Array Nat) (i j : Nat) (hi1 : lo ≤ i) (hi2 : i ≤ hi) (hj1 : lo ≤ j) (hj2 : j ≤ hi)
    (hsz : hi < ord.size) : SegPerm lo hi ord (aswap ord i j) := by
  refine ⟨aswap_size _ _ _, ?_, ?_⟩
  · intro k hk
    rw [aget_aswap ord i j k (by omega) (by omega), if_neg (by omega), if_neg (by omega)]
  · intro k hk1 hk2
    rw [aget_aswap ord i j k (by omega) (by omega)]
    by_cases h1 : k = j
    · exact ⟨i, hi1, hi2, by rw [if_pos h1]⟩
    · by_cases h2 : k = i
      · exact ⟨j, hj1, hj2, by rw [if_neg h1, if_pos h2]⟩
      · exact ⟨k, hk1, hk2, by rw [if_neg h1, if_neg h2]⟩

section
variable (cmp : Nat → Nat → Int)

theorem qsUp_spec (ord : Array Nat) (lo hi : Nat) : ∀ fuel i, hi + 1 ≤ i + fuel →
    i < qsUp cmp ord lo hi i fuel ∧ (i ≤ hi → qsUp cmp ord lo hi i fuel ≤ hi + 1) ∧
    (∀ k, i < k → k < qsUp cmp ord lo hi i fuel → cmp (aget ord k) (aget ord lo) < 0) ∧
    (qsUp cmp ord lo hi i fuel ≤ hi → ¬ cmp (aget ord (qsUp cmp ord lo hi i fuel)) (aget ord lo) < 0) := by
  intro fuel
  induction fuel with
  | zero =>
    intro i h
    simp only [qsUp]
    exact ⟨by omega, fun _ => by omega, fun k h1 h2 => by omega, fun h' => by omega⟩
  | succ fuel ih =>
    intro i h
    simp only [qsUp]
    by_cases hc : (decide (i + 1 ≤ hi) && decide (cmp (aget ord (i + 1)) (aget ord lo) < 0)) = true
    · rw [if_pos hc]
      simp only [Bool.and_eq_true, decide_eq_true_eq] at hc
      obtain ⟨a1, a2, a3, a4⟩ := ih (i + 1) (by omega)
      refine ⟨by omega, fun _ => a2 hc.1, ?_, a4⟩
      intro k h1 h2
      by_cases hk : k = i + 1
      · subst hk; exact hc.2
      · exact a3 k (by omega) h2
    · rw [if_neg hc]
      simp only [Bool.and_eq_true, decide_eq_true_eq, not_and] at hc
      exact ⟨by omega, fun _ => by omega, fun k h1 h2 => by omega, fun h' => hc h'⟩

theorem qsDown_spec (ord : Array Nat) (lo : Nat) (hrefl : ¬ cmp (aget ord lo) (aget ord lo) > 0) : ∀ j, lo < j →
    lo ≤ qsDown cmp ord lo j ∧ qsDown cmp ord lo j < j ∧
    (∀ k, qsDown cmp ord lo j < k → k < j → cmp (aget ord k) (aget ord lo) > 0) ∧
    ¬ cmp (aget ord (qsDown cmp ord lo j)) (aget ord lo) > 0 := by
  intro j
  induction j with
  | zero => intro h; omega
  | succ j ih =>
    intro h
    simp only [qsDown]
    by_cases hc : cmp (aget ord j) (aget ord lo) > 0
    · rw [if_pos hc]
      have hne : j ≠ lo := fun e => hrefl (by rw [e] at hc; exact hc)
      obtain ⟨a1, a2, a3, a4⟩ := ih (by omega)
      refine ⟨a1, by omega, ?_, a4⟩
      intro k h1 h2
      by_cases hk : k = j
      · subst hk; exact hc
      · exact a3 k h1 (by omega)
    · rw [if_neg hc]
      exact ⟨by omega, by omega, fun k h1 h2 => by omega, hc⟩

/-- what the partition loop keeps true: everything right of the pivot up to `i` is ≤ pivot, everything from `j` on is ≥ pivot -/
structure LoopInv (lo hi : Nat) (ord0 ord : Array Nat) (i j : Nat) : Prop where
  seg : SegPerm (lo + 1) hi ord0 ord
  ilo : lo ≤ i
  ij : i < j
  jhi : j ≤ hi + 1
  left : ∀ k, lo < k → k ≤ i → cmp (aget ord k) (aget ord lo) ≤ 0
  right : ∀ k, j ≤ k → k ≤ hi → 0 ≤ cmp (aget ord k) (aget ord lo)

theorem qsLoop_spec (lo hi : Nat) (ord0 : Array Nat) (hrefl : ¬ cmp (aget ord0 lo) (aget ord0 lo) > 0) :
    ∀ fuel (ord : Array Nat) (i j : Nat), LoopInv cmp lo hi ord0 ord i j → hi < ord.size → hi + 2 ≤ i + fuel →
    SegPerm (lo + 1) hi ord0 (qsLoop cmp lo hi fuel ord i j).1 ∧
    lo ≤ (qsLoop cmp lo hi fuel ord i j).2 ∧ (qsLoop cmp lo hi fuel ord i j).2 ≤ hi ∧
    (∀ k, lo < k → k ≤ (qsLoop cmp lo hi fuel ord i j).2 →
      cmp (aget (qsLoop cmp lo hi fuel ord i j).1 k) (aget ord0 lo) ≤ 0) ∧
    (∀ k, (qsLoop cmp lo hi fuel ord i j).2 < k → k ≤ hi →
      0 ≤ cmp (aget (qsLoop cmp lo hi fuel ord i j).1 k) (aget ord0 lo)) := by
  intro fuel
  induction fuel with
  | zero =>
    intro ord i j inv hsz hf
    have := inv.ij; have := inv.jhi; omega
  | succ fuel ih =>
    intro ord i j inv hsz hf
    have hP : aget ord lo = aget ord0 lo := inv.seg.frame lo (by omega)
    have hrefl' : ¬ cmp (aget ord lo) (aget ord lo) > 0 := by rw [hP]; exact hrefl
    have hihi : i ≤ hi := by have := inv.ij; have := inv.jhi; omega
    obtain ⟨u1, u2, u3, u4⟩ := qsUp_spec cmp ord lo hi (hi + 1) i (by omega)
    obtain ⟨d1, d2, d3, d4⟩ := qsDown_spec cmp ord lo hrefl' j (by have := inv.ilo; have := inv.ij; omega)
    simp only [qsLoop]
    generalize hi' : qsUp cmp ord lo hi i (hi + 1) = i' at u1 u2 u3 u4
    generalize hj' : qsDown cmp ord lo j = j' at d1 d2 d3 d4
    have u2' := u2 hihi
    by_cases hgt : j' > i'
    · rw [if_pos hgt]
      have hj'hi : j' ≤ hi := by have := inv.jhi; omega
      have hi'hi : i' ≤ hi := by omega
      have hilo : lo < i' := by have := inv.ilo; omega
      have hsw : ∀ k, aget (aswap ord j' i') k = if k = i' then aget ord j' else if k = j' then aget ord i' else aget ord k :=
        fun k => aget_aswap ord j' i' k (by omega) (by omega)
      have hP2 : aget (aswap ord j' i') lo = aget ord lo := by rw [hsw, if_neg (by omega), if_neg (by omega)]
      refine ih (aswap ord j' i') i' j' ⟨?_, by omega, hgt, by omega, ?_, ?_⟩ (by rw [aswap_size]; exact hsz) (by omega)
      · exact inv.seg.trans (SegPerm.swap (lo + 1) hi ord j' i' (by omega) hj'hi (by omega) hi'hi hsz)
      · intro k h1 h2
        rw [hP2, hsw]
        by_cases hk : k = i'
        · rw [if_pos hk]; omega
        · rw [if_neg hk, if_neg (by omega)]
          by_cases hki : k ≤ i
          · exact inv.left k h1 hki
          · have := u3 k (by omega) (by omega); omega
      · intro k h1 h2
        rw [hP2, hsw]
        by_cases hk : k = j'
        · rw [if_neg (by omega), if_pos hk]
          have := u4 hi'hi; omega
        · rw [if_neg (by omega), if_neg hk]
          by_cases hkj : j ≤ k
          · exact inv.right k hkj h2
          · have := d3 k (by omega) (by omega); omega
    · rw [if_neg hgt]
      have hj'hi : j' ≤ hi := by have := inv.jhi; omega
      refine ⟨inv.seg, d1, hj'hi, ?_, ?_⟩
      · intro k h1 h2
        show cmp (aget ord k) (aget ord0 lo) ≤ 0
        rw [← hP]
        by_cases hki : k ≤ i
        · exact inv.left k h1 hki
        · by_cases hk : k < i'
          · have := u3 k (by omega) hk; omega
          · have : k = j' := by omega
            subst this; omega
      · intro k h1 h2
        show 0 ≤ cmp (aget ord k) (aget ord0 lo)
        rw [← hP]
        by_cases hkj : j ≤ k
        · exact inv.right k hkj h2
        · have := d3 k h1 (by omega); omega
end

/-- what is asked of the comparison function on the index set `S` -/
structure CmpOK (cmp : Nat → Nat → Int) (S : Nat → Prop) : Prop where
  refl : ∀ a, cmp a a = 0
  anti : ∀ a b, 0 ≤ cmp a b → cmp b a ≤ 0
  trans : ∀ a b c, S a → S b → S c → cmp a b ≤ 0 → cmp b c ≤ 0 → cmp a c ≤ 0

/-- `ord[lo..hi]` is in order -/
def SortedSeg (cmp : Nat → Nat → Int) (ord : Array Nat) (lo hi : Nat) : Prop :=
  ∀ x y, lo ≤ x → x < y → y ≤ hi → cmp (aget ord x) (aget ord y) ≤ 0

/-- the segment is partitioned around position `j` -/
structure Part (cmp : Nat → Nat → Int) (ord : Array Nat) (lo j hi : Nat) : Prop where
  left : ∀ k, lo ≤ k → k < j → cmp (aget ord k) (aget ord j) ≤ 0
  right : ∀ k, j < k → k ≤ hi → 0 ≤ cmp (aget ord k) (aget ord j)

theorem Part.of_left {cmp : Nat → Nat → Int} {ord ord' : Array Nat} {lo j hi b : Nat} (h : Part cmp ord lo j hi)
    (hs : SegPerm lo b ord ord') (hb : b < j) : Part cmp ord' lo j hi := by
  have hj : aget ord' j = aget ord j := hs.frame j (by omega)
  refine ⟨?_, ?_⟩
  · intro k h1 h2
    rw [hj]
    by_cases hk : k ≤ b
    · obtain ⟨k0, a1, a2, e⟩ := hs.inside k h1 hk
      rw [e]; exact h.left k0 a1 (by omega)
    · rw [hs.frame k (by omega)]; exact h.left k h1 h2
  · intro k h1 h2
    rw [hj, hs.frame k (by omega)]; exact h.right k h1 h2

theorem Part.of_right {cmp : Nat → Nat → Int} {ord ord' : Array Nat} {lo j hi a : Nat} (h : Part cmp ord lo j hi)
    (hs : SegPerm a hi ord ord') (ha : j < a) : Part cmp ord' lo j hi := by
  have hj : aget ord' j = aget ord j := hs.frame j (by omega)
  refine ⟨?_, ?_⟩
  · intro k h1 h2
    rw [hj, hs.frame k (by omega)]; exact h.left k h1 h2
  · intro k h1 h2
    rw [hj]
    by_cases hk : a ≤ k
    · obtain ⟨k0, a1, a2, e⟩ := hs.inside k hk h2
      rw [e]; exact h.right k0 (by omega) a2
    · rw [hs.frame k (by omega)]; exact h.right k h1 h2

theorem SortedSeg.of_frame {cmp : Nat → Nat → Int} {ord ord' : Array Nat} {lo hi a b : Nat} (h : SortedSeg cmp ord lo hi)
    (hs : SegPerm a b ord ord') (hd : hi < a ∨ b < lo) : SortedSeg cmp ord' lo hi := by
  intro x y h1 h2 h3
  rw [hs.frame x (by omega), hs.frame y (by omega)]; exact h x y h1 h2 h3

theorem sorted_of_part {cmp : Nat → Nat → Int} {S : Nat → Prop} (hc : CmpOK cmp S) {ord : Array Nat} {lo j hi : Nat}
    (hS : ∀ k, lo ≤ k → k ≤ hi → S (aget ord k)) (hj1 : lo ≤ j) (hj2 : j ≤ hi) (hp : Part cmp ord lo j hi)
    (hl : ∀ x y, lo ≤ x → x < y → y < j → cmp (aget ord x) (aget ord y) ≤ 0)
    (hr : ∀ x y, j < x → x < y → y ≤ hi → cmp (aget ord x) (aget ord y) ≤ 0) : SortedSeg cmp ord lo hi := by
  intro x y h1 h2 h3
  by_cases hyj : y < j
  · exact hl x y h1 h2 hyj
  · by_cases hxj : j < x
    · exact hr x y hxj h2 h3
    · by_cases hxe : x = j
      · subst hxe
        exact hc.anti _ _ (hp.right y (by omega) h3)
      · have hxl := hp.left x h1 (by omega)
        by_cases hye : y = j
        · subst hye; exact hxl
        · have hyr := hc.anti _ _ (hp.right y (by omega) h3)
          exact hc.trans _ _ _ (hS x h1 (by omega)) (hS j hj1 hj2) (hS y (by omega) h3) hxl hyr

theorem qsPartition_sorted {cmp : Nat → Nat → Int} {S : Nat → Prop} (hc : CmpOK cmp S) :
    ∀ fuel (ord : Array Nat) (lo hi : Nat), lo ≤ hi → hi < ord.size → hi - lo < fuel →
      (∀ k, lo ≤ k → k ≤ hi → S (aget ord k)) →
      SegPerm lo hi ord (qsPartition cmp fuel ord lo hi) ∧ SortedSeg cmp (qsPartition cmp fuel ord lo hi) lo hi := by
  intro fuel
  induction fuel with
  | zero => intro ord lo hi _ _ h; omega
  | succ fuel ih =>
    intro ord lo hi hlh hsz hf hS
    simp only [qsPartition]
    generalize hp : (if cmp (aget ord (lo + (hi - lo) / 2)) (aget ord lo) < 0 then lo
      else if cmp (aget ord (lo + (hi - lo) / 2)) (aget ord hi) > 0 then hi else lo + (hi - lo) / 2) = pivot
    have hpiv : lo ≤ pivot ∧ pivot ≤ hi := by
      rw [← hp]; split
      · omega
      · split <;> omega
    have s1 : SegPerm lo hi ord (aswap ord pivot lo) := SegPerm.swap lo hi ord pivot lo hpiv.1 hpiv.2 (le_refl _) hlh hsz
    have hsz1 : hi < (aswap ord pivot lo).size := by rw [aswap_size]; exact hsz
    have hrefl : ¬ cmp (aget (aswap ord pivot lo) lo) (aget (aswap ord pivot lo) lo) > 0 := by rw [hc.refl]; omega
    have inv0 : LoopInv cmp lo hi (aswap ord pivot lo) (aswap ord pivot lo) lo (hi + 1) :=
      ⟨SegPerm.refl _ _ _, le_refl _, by omega, le_refl _, fun k h1 h2 => by omega, fun k h1 h2 => by omega⟩
    obtain ⟨l1, l2, l3, l4, l5⟩ := qsLoop_spec cmp lo hi (aswap ord pivot lo) hrefl (hi + 2) (aswap ord pivot lo) lo (hi + 1)
      inv0 hsz1 (by omega)
    generalize hq : qsLoop cmp lo hi (hi + 2) (aswap ord pivot lo) lo (hi + 1) = q at l1 l2 l3 l4 l5
    obtain ⟨o2, j⟩ := q
    simp only at l1 l2 l3 l4 l5 ⊢
    have hsz2 : hi < o2.size := by rw [l1.size]; exact hsz1
    have hPlo : aget o2 lo = aget (aswap ord pivot lo) lo := l1.frame lo (by omega)
    have s2 : SegPerm lo hi ord o2 := s1.trans (l1.widen (by omega) (le_refl _))
    have s3 : SegPerm lo hi ord (aswap o2 lo j) := s2.trans (SegPerm.swap lo hi o2 lo j (le_refl _) hlh l2 l3 hsz2)
    have hsw : ∀ k, aget (aswap o2 lo j) k = if k = j then aget o2 lo else if k = lo then aget o2 j else aget o2 k :=
      fun k => aget_aswap o2 lo j k (by omega) (by omega)
    have hpart : Part cmp (aswap o2 lo j) lo j hi := by
      have hj : aget (aswap o2 lo j) j = aget (aswap ord pivot lo) lo := by rw [hsw, if_pos rfl, hPlo]
      refine ⟨?_, ?_⟩
      · intro k h1 h2
        rw [hj, hsw, if_neg (by omega)]
        by_cases hk : k = lo
        · rw [if_pos hk]; exact l4 j (by omega) (le_refl _)
        · rw [if_neg hk]; exact l4 k (by omega) (by omega)
      · intro k h1 h2
        rw [hj, hsw, if_neg (by omega), if_neg (by omega)]
        exact l5 k h1 h2
    have hS3 : ∀ k, lo ≤ k → k ≤ hi → S (aget (aswap o2 lo j) k) := by
      intro k h1 h2
      obtain ⟨k0, a1, a2, e⟩ := s3.inside k h1 h2
      rw [e]; exact hS k0 a1 a2
    have hsz3 : hi < (aswap o2 lo j).size := by rw [aswap_size]; exact hsz2
    -- the two recursive calls, in either order
    have left_step : ∀ (a : Array Nat), SegPerm lo hi ord a → Part cmp a lo j hi → hi < a.size →
        SegPerm lo hi ord (if j - lo > 1 then qsPartition cmp fuel a lo (j - 1) else a) ∧
        Part cmp (if j - lo > 1 then qsPartition cmp fuel a lo (j - 1) else a) lo j hi ∧
        hi < (if j - lo > 1 then qsPartition cmp fuel a lo (j - 1) else a).size ∧
        (∀ x y, lo ≤ x → x < y → y < j →
          cmp (aget (if j - lo > 1 then qsPartition cmp fuel a lo (j - 1) else a) x)
              (aget (if j - lo > 1 then qsPartition cmp fuel a lo (j - 1) else a) y) ≤ 0) ∧
        ((∀ x y, j < x → x < y → y ≤ hi → cmp (aget a x) (aget a y) ≤ 0) →
          ∀ x y, j < x → x < y → y ≤ hi →
            cmp (aget (if j - lo > 1 then qsPartition cmp fuel a lo (j - 1) else a) x)
                (aget (if j - lo > 1 then qsPartition cmp fuel a lo (j - 1) else a) y) ≤ 0) := by
      intro a sa pa hsa
      by_cases hcnd : j - lo > 1
      · simp only [if_pos hcnd]
        have hSa : ∀ k, lo ≤ k → k ≤ j - 1 → S (aget a k) := by
          intro k h1 h2
          obtain ⟨k0, a1, a2, e⟩ := sa.inside k h1 (by omega)
          rw [e]; exact hS k0 a1 a2
        obtain ⟨r1, r2⟩ := ih a lo (j - 1) (by omega) (by omega) (by omega) hSa
        refine ⟨sa.trans (r1.widen (le_refl _) (by omega)), pa.of_left r1 (by omega), by rw [r1.size]; exact hsa, ?_, ?_⟩
        · intro x y h1 h2 h3; exact r2 x y h1 h2 (by omega)
        · intro hr x y h1 h2 h3
          rw [r1.frame x (by omega), r1.frame y (by omega)]; exact hr x y h1 h2 h3
      · simp only [if_neg hcnd]
        exact ⟨sa, pa, hsa, fun x y h1 h2 h3 => by omega, fun hr => hr⟩
    have right_step : ∀ (a : Array Nat), SegPerm lo hi ord a → Part cmp a lo j hi → hi < a.size →
        SegPerm lo hi ord (if hi - j > 1 then qsPartition cmp fuel a (j + 1) hi else a) ∧
        Part cmp (if hi - j > 1 then qsPartition cmp fuel a (j + 1) hi else a) lo j hi ∧
        hi < (if hi - j > 1 then qsPartition cmp fuel a (j + 1) hi else a).size ∧
        (∀ x y, j < x → x < y → y ≤ hi →
          cmp (aget (if hi - j > 1 then qsPartition cmp fuel a (j + 1) hi else a) x)
              (aget (if hi - j > 1 then qsPartition cmp fuel a (j + 1) hi else a) y) ≤ 0) ∧
        ((∀ x y, lo ≤ x → x < y → y < j → cmp (aget a x) (aget a y) ≤ 0) →
          ∀ x y, lo ≤ x → x < y → y < j →
            cmp (aget (if hi - j > 1 then qsPartition cmp fuel a (j + 1) hi else a) x)
                (aget (if hi - j > 1 then qsPartition cmp fuel a (j + 1) hi else a) y) ≤ 0) := by
      intro a sa pa hsa
      by_cases hcnd : hi - j > 1
      · simp only [if_pos hcnd]
        have hSa : ∀ k, j + 1 ≤ k → k ≤ hi → S (aget a k) := by
          intro k h1 h2
          obtain ⟨k0, a1, a2, e⟩ := sa.inside k (by omega) h2
          rw [e]; exact hS k0 a1 a2
        obtain ⟨r1, r2⟩ := ih a (j + 1) hi (by omega) hsa (by omega) hSa
        refine ⟨sa.trans (r1.widen (by omega) (le_refl _)), pa.of_right r1 (by omega), by rw [r1.size]; exact hsa, ?_, ?_⟩
        · intro x y h1 h2 h3; exact r2 x y (by omega) h2 h3
        · intro hl x y h1 h2 h3
          rw [r1.frame x (by omega), r1.frame y (by omega)]; exact hl x y h1 h2 h3
      · simp only [if_neg hcnd]
        exact ⟨sa, pa, hsa, fun x y h1 h2 h3 => by omega, fun hl => hl⟩
    have finish : ∀ (a : Array Nat), SegPerm lo hi ord a → Part cmp a lo j hi →
        (∀ x y, lo ≤ x → x < y → y < j → cmp (aget a x) (aget a y) ≤ 0) →
        (∀ x y, j < x → x < y → y ≤ hi → cmp (aget a x) (aget a y) ≤ 0) → SegPerm lo hi ord a ∧ SortedSeg cmp a lo hi := by
      intro a sa pa hl hr
      refine ⟨sa, sorted_of_part hc ?_ l2 l3 pa hl hr⟩
      intro k h1 h2
      obtain ⟨k0, a1, a2, e⟩ := sa.inside k h1 h2
      rw [e]; exact hS k0 a1 a2
    split
    · obtain ⟨a1, a2, a3, a4, _⟩ := left_step _ s3 hpart hsz3
      obtain ⟨b1, b2, _, b4, b5⟩ := right_step _ a1 a2 a3
      exact finish _ b1 b2 (b5 a4) b4
    · obtain ⟨a1, a2, a3, a4, _⟩ := right_step _ s3 hpart hsz3
      obtain ⟨b1, b2, _, b4, b5⟩ := left_step _ a1 a2 a3
      exact finish _ b1 b2 b4 (b5 a4)

/-- `esl_quicksort` sorts: `sorted_at[x]` never comes after `sorted_at[y]` for x < y, for every comparison function that is
    reflexive, total and transitive on 0..n-1 -/
theorem quicksort_sorted {cmp : Nat → Nat → Int} {n : Nat} (hc : CmpOK cmp (· < n)) (x y : Nat) (hxy : x < y) (hy : y < n) :
    cmp ((quicksort cmp n).getD x 0) ((quicksort cmp n).getD y 0) ≤ 0 := by
  unfold quicksort
  have hn : n > 1 := by omega
  simp only [if_pos hn]
  have hS : ∀ k, 0 ≤ k → k ≤ n - 1 → aget (Array.range n) k < n := by
    intro k _ hk
    unfold aget
    rw [Array.getD_eq_getD_getElem?, Array.getElem?_eq_getElem (by simp; omega)]
    simp; omega
  obtain ⟨_, r2⟩ := qsPartition_sorted hc (n + 1) (Array.range n) 0 (n - 1) (by omega) (by simp; omega) (by omega) hS
  have := r2 x y (by omega) hxy (by omega)
  unfold aget at this
  rw [List.getD_eq_getElem?_getD, List.getD_eq_getElem?_getD, Array.getElem?_toList, Array.getElem?_toList,
    ← Array.getD_eq_getD_getElem?, ← Array.getD_eq_getD_getElem?]
  exact this

end EaselModel.Weights
