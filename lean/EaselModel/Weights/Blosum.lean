import EaselModel.Weights.Lemmas
import EaselModel.Weights.Linkage
/-! C16 helper lemmas, part 5: cluster sizes are consistent with the assignment, BLOSUM weights = (N/#clusters)/|cluster|. -/
namespace EaselModel.Weights
open WNum

/-- a partition of 0..n-1 into non-empty clusters (what `singleLinkage_inv` provides) -/
structure IsPartition (cls : List (List Nat)) (n : Nat) : Prop where
  perm : cls.flatten.Perm (List.range n)
  ne : ∀ cl ∈ cls, cl ≠ []

namespace IsPartition
variable {cls : List (List Nat)} {n : Nat}

theorem nodup (h : IsPartition cls n) : cls.flatten.Nodup := h.perm.nodup_iff.mpr List.nodup_range

theorem mem_flatten (h : IsPartition cls n) {u : Nat} : u ∈ cls.flatten ↔ u < n := by
  rw [h.perm.mem_iff, List.mem_range]

/-- a member of cluster k has cluster number k -/
theorem index_of_mem (h : IsPartition cls n) {k : Nat} (hk : k < cls.length) {u : Nat} (hu : u ∈ cls[k]) :
    clusterIndex cls u = k := by
  have hfl : u ∈ cls.flatten := List.mem_flatten.mpr ⟨_, List.getElem_mem hk, hu⟩
  obtain ⟨_, _, huu⟩ := clusterIndex_spec cls h.nodup u hfl
  exact (huu k hk hu).symm

theorem index_lt (h : IsPartition cls n) {u : Nat} (hu : u < n) : clusterIndex cls u < cls.length := by
  obtain ⟨hl, _, _⟩ := clusterIndex_spec cls h.nodup u (h.mem_flatten.mpr hu)
  exact hl

theorem mem_own (h : IsPartition cls n) {u : Nat} (hu : u < n) :
    u ∈ cls[clusterIndex cls u]'(h.index_lt hu) := by
  obtain ⟨_, hm, _⟩ := clusterIndex_spec cls h.nodup u (h.mem_flatten.mpr hu)
  exact hm

/-- the vertices numbered k are exactly cluster k -/
theorem filter_perm (h : IsPartition cls n) {k : Nat} (hk : k < cls.length) :
    ((List.range n).filter fun u => clusterIndex cls u == k).Perm cls[k] := by
  have hndk : cls[k].Nodup := (List.nodup_flatten.mp h.nodup).1 _ (List.getElem_mem hk)
  rw [List.perm_ext_iff_of_nodup (List.nodup_range.filter _) hndk]
  intro u
  simp only [List.mem_filter, List.mem_range, beq_iff_eq]
  constructor
  · rintro ⟨hu, he⟩
    have := h.mem_own hu
    simpa [he] using this
  · intro hu
    have hfl : u ∈ cls.flatten := List.mem_flatten.mpr ⟨_, List.getElem_mem hk, hu⟩
    exact ⟨h.mem_flatten.mp hfl, h.index_of_mem hk hu⟩

/-- `nin[k]` (counted from the assignment array as the C code does) = size of cluster k -/
theorem clusterSizes_getElem (h : IsPartition cls n) {k : Nat} (hk : k < cls.length) :
    (clusterSizes (assignment cls n) cls.length).getD k 0 = cls[k].length := by
  unfold clusterSizes assignment
  rw [List.getD_eq_getElem?_getD, List.getElem?_map, List.getElem?_range hk]
  simp only [Option.map_some, Option.getD_some, List.countP_map]
  rw [List.countP_eq_length_filter]
  exact (h.filter_perm hk).length_eq

/-- cluster sizes add up to n -/
theorem sizes_sum (h : IsPartition cls n) : (cls.map List.length).sum = n := by
  have := h.perm.length_eq
  rw [List.length_flatten, List.length_range] at this
  exact this

/-- the un-normalised BLOSUM weight of a vertex: 1 / size of its cluster -/
noncomputable def rawW (cls : List (List Nat)) (u : Nat) : ℚ := 1 / ((cls.getD (clusterIndex cls u) []).length : ℚ)

theorem sum_rawW_cluster (h : IsPartition cls n) {cl : List Nat} (hcl : cl ∈ cls) :
    (cl.map (rawW cls)).sum = 1 := by
  obtain ⟨k, hk, rfl⟩ := List.mem_iff_getElem.mp hcl
  have hne := h.ne _ hcl
  have hall : ∀ x ∈ (cls[k].map (rawW cls)), x = 1 / (cls[k].length : ℚ) := by
    intro x hx
    obtain ⟨u, hu, rfl⟩ := List.mem_map.mp hx
    unfold rawW
    rw [h.index_of_mem hk hu, List.getD_eq_getElem?_getD, List.getElem?_eq_getElem hk]
    rfl
  rw [List.sum_eq_card_nsmul _ _ hall, List.length_map]
  have : (cls[k].length : ℚ) ≠ 0 := by
    have : cls[k].length ≠ 0 := by simpa using hne
    exact_mod_cast this
  simp only [nsmul_eq_mul]
  field_simp

theorem sum_rawW (h : IsPartition cls n) : ((List.range n).map (rawW cls)).sum = cls.length := by
  rw [← (h.perm.map (rawW cls)).sum_eq, List.map_flatten, List.sum_flatten, List.map_map]
  have hall : ∀ x ∈ (cls.map (List.sum ∘ List.map (rawW cls))), x = (1 : ℚ) := by
    intro x hx
    obtain ⟨cl, hcl, rfl⟩ := List.mem_map.mp hx
    exact h.sum_rawW_cluster hcl
  rw [List.sum_eq_card_nsmul _ _ hall, List.length_map]
  simp

end IsPartition

theorem singleLinkage_isPartition {link : Nat → Nat → Bool} (hsym : ∀ x y, link x y = link y x) (n : Nat) :
    IsPartition (singleLinkage link n) n := by
  have inv := singleLinkage_inv hsym n
  exact ⟨by simpa using inv.perm, inv.ne⟩

theorem msaSingleLinkage_isPartition (m : Mode) (maxid : ℚ) (rows : List Row) :
    IsPartition (msaSingleLinkage m maxid rows) rows.length :=
  singleLinkage_isPartition (fun x y => linked_comm m maxid _ _) rows.length

/-- the vector BLOSUM normalises: entry u = 1 / |cluster(u)| -/
theorem blosum_raw_eq (cls : List (List Nat)) (n : Nat) (h : IsPartition cls n) :
    ((assignment cls n).map fun c => (ofNat 1 : ℚ) / ofNat ((clusterSizes (assignment cls n) cls.length).getD c 0)) =
      (List.range n).map (IsPartition.rawW cls) := by
  unfold assignment
  rw [List.map_map]
  apply List.map_congr_left
  intro u hu
  have hu' := List.mem_range.mp hu
  simp only [Function.comp, ofNat_rat, Nat.cast_one, IsPartition.rawW]
  have hk := h.index_lt hu'
  have := h.clusterSizes_getElem hk
  unfold assignment at this
  rw [this, List.getD_eq_getElem?_getD, List.getElem?_eq_getElem hk]
  rfl

/-- BLOSUM: `w_i = (N / #clusters) / |cluster(i)|` -/
theorem blosum_getElem (m : Mode) (maxid : ℚ) (rows : List Row) (hn : rows.length ≠ 1) (i : Nat) (hi : i < rows.length)
    (hi' : i < (blosum m maxid rows).length) :
    (blosum m maxid rows)[i] =
      (rows.length : ℚ) / (msaSingleLinkage m maxid rows).length /
        ((msaSingleLinkage m maxid rows).getD (clusterIndex (msaSingleLinkage m maxid rows) i) []).length := by
  have hp := msaSingleLinkage_isPartition m maxid rows
  have e : blosum m maxid rows = normalizeToN ((List.range rows.length).map (IsPartition.rawW (msaSingleLinkage m maxid rows))) := by
    unfold blosum
    simp only [beq_iff_eq, hn, ↓reduceIte]
    rw [blosum_raw_eq _ _ hp]
  simp only [e]
  rw [normalizeToN_getElem _ i (by simpa using hi)]
  have hs := hp.sum_rawW
  have hnc : ((msaSingleLinkage m maxid rows).length : ℚ) ≠ 0 := by
    have hk := hp.index_lt hi
    have : (msaSingleLinkage m maxid rows).length ≠ 0 := by omega
    exact_mod_cast this
  rw [hs, if_neg hnc]
  simp only [List.getElem_map, List.getElem_range, List.length_map, List.length_range, IsPartition.rawW]
  field_simp

theorem blosum_sum (m : Mode) (maxid : ℚ) (rows : List Row) (hne : rows ≠ []) :
    (blosum m maxid rows).sum = rows.length := by
  unfold blosum
  split
  · rename_i h; simp at h; simp [h]
  · rw [normalizeToN_sum]
    · simp [assignment]
    · simpa [assignment] using hne

theorem blosum_nonneg (m : Mode) (maxid : ℚ) (rows : List Row) : ∀ w ∈ blosum m maxid rows, 0 ≤ w := by
  unfold blosum
  split
  · intro w hw; simp at hw; subst hw; exact zero_le_one
  · apply normalizeToN_nonneg
    intro x hx
    simp only [List.mem_map] at hx
    obtain ⟨c, _, rfl⟩ := hx
    simp only [ofNat_rat]
    positivity

/-! ### identical rows -/

theorem length_one_of_all_eq {l : List Nat} {a : Nat} (hnd : l.Nodup) (hne : l ≠ []) (hall : ∀ w ∈ l, w = a) : l.length = 1 := by
  match l, hnd, hne, hall with
  | [x], _, _, _ => rfl
  | x :: y :: t, hnd, _, hall =>
    have hx := hall x (by simp)
    have hy := hall y (by simp)
    have : x ≠ y := by
      have := (List.nodup_cons.mp hnd).1
      intro e; apply this; simp [e]
    exact absurd (hx.trans hy.symm) this

theorem reach_eq_of_no_link {link : Nat → Nat → Bool} {n i w : Nat} (hno : ∀ k, k < n → link i k = false)
    (h : Reach link n i w) : w = i := by
  induction h with
  | refl => rfl
  | step _ _ hz hl ih => subst ih; rw [hno _ hz] at hl; exact absurd hl (by simp)

/-- rows with the same content sit in clusters of the same size -/
theorem cluster_size_eq_of_rows_eq (m : Mode) (maxid : ℚ) (rows : List Row) (i j : Nat) (hi : i < rows.length)
    (hj : j < rows.length) (h : rows[i] = rows[j]) :
    ((msaSingleLinkage m maxid rows).getD (clusterIndex (msaSingleLinkage m maxid rows) i) []).length =
    ((msaSingleLinkage m maxid rows).getD (clusterIndex (msaSingleLinkage m maxid rows) j) []).length := by
  let link : Nat → Nat → Bool := fun v w => linked m maxid (rows.getD v []) (rows.getD w [])
  have hsym : ∀ x y, link x y = link y x := fun x y => linked_comm m maxid _ _
  have hrow : rows.getD i [] = rows.getD j [] := by
    rw [List.getD_eq_getElem?_getD, List.getD_eq_getElem?_getD, List.getElem?_eq_getElem hi, List.getElem?_eq_getElem hj, h]
  have hlink : ∀ k, link i k = link j k := fun k => by show linked _ _ _ _ = linked _ _ _ _; rw [hrow]
  have inv := singleLinkage_inv hsym rows.length
  have hp : IsPartition (singleLinkage link rows.length) rows.length := singleLinkage_isPartition hsym rows.length
  show ((singleLinkage link rows.length).getD (clusterIndex (singleLinkage link rows.length) i) []).length =
       ((singleLinkage link rows.length).getD (clusterIndex (singleLinkage link rows.length) j) []).length
  by_cases hex : ∃ k, k < rows.length ∧ link i k = true
  · obtain ⟨k, hk, hl⟩ := hex
    have hr : Reach link rows.length i j :=
      (Reach.single hi hk hl).trans (Reach.single hk hj (by rw [hsym, ← hlink]; exact hl))
    rw [(assignment_eq_iff hsym rows.length i j hi hj).mpr hr]
  · have hno : ∀ k, k < rows.length → link i k = false := by
      intro k hk
      by_contra hc
      exact hex ⟨k, hk, by simpa using hc⟩
    have hno' : ∀ k, k < rows.length → link j k = false := fun k hk => by rw [← hlink]; exact hno k hk
    have one : ∀ u, u < rows.length → (∀ k, k < rows.length → link u k = false) →
        ((singleLinkage link rows.length).getD (clusterIndex (singleLinkage link rows.length) u) []).length = 1 := by
      intro u hu hnou
      have hk := hp.index_lt hu
      rw [List.getD_eq_getElem?_getD, List.getElem?_eq_getElem hk]
      simp only [Option.getD_some]
      have hmem := List.getElem_mem hk
      apply length_one_of_all_eq ((List.nodup_flatten.mp hp.nodup).1 _ hmem) (hp.ne _ hmem)
      intro w hw
      have hwn : w < rows.length := hp.mem_flatten.mp (List.mem_flatten.mpr ⟨_, hmem, hw⟩)
      exact reach_eq_of_no_link hnou ((inv.comp _ hmem u (hp.mem_own hu) w hwn).mp hw)
    rw [one i hi hno, one j hj hno']

/-- BLOSUM: identical rows get identical weights -/
theorem blosum_eq_of_rows_eq (m : Mode) (maxid : ℚ) (rows : List Row) (i j : Nat) (hi : i < rows.length)
    (hj : j < rows.length) (h : rows[i] = rows[j])
    (hi' : i < (blosum m maxid rows).length) (hj' : j < (blosum m maxid rows).length) :
    (blosum m maxid rows)[i] = (blosum m maxid rows)[j] := by
  by_cases hn : rows.length = 1
  · have : i = j := by omega
    subst this; rfl
  · rw [blosum_getElem m maxid rows hn i hi, blosum_getElem m maxid rows hn j hj,
      cluster_size_eq_of_rows_eq m maxid rows i j hi hj h]

end EaselModel.Weights
