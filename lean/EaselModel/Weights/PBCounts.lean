import EaselModel.Weights.PB
/-! C16 helper lemmas, part 6: the count tables PB uses are the true column counts of canonical residues
    (the fragment rule of `collect_counts` only affects gap counts, hence only the choice of consensus columns). -/
namespace EaselModel.Weights

theorem colCounts_getD (width a : Nat) (h : a < width) (col : List (Option Nat)) :
    (colCounts width col).getD a 0 = col.countP (· == some a) := by
  unfold colCounts
  rw [List.getD_eq_getElem?_getD, List.getElem?_map, List.getElem?_range h]
  rfl

theorem findIdx_le_of_true {α : Type} (p : α → Bool) (xs : List α) (i : Nat) (hi : i < xs.length) (h : p xs[i] = true) :
    xs.findIdx p ≤ i := by
  by_contra hc
  have := List.not_of_lt_findIdx (p := p) (xs := xs) (i := i) (by omega)
  rw [this] at h; exact absurd h (by simp)

/-- a row counts every column in which it has a residue, fragment or not -/
theorem counted_of_residue (abc : Abc) (minspan : Int) (row : Row) (apos : Nat) (hi : apos < row.length)
    (hres : abc.isResidue row[apos] = true) : (rowInfo abc minspan row).counted apos = true := by
  unfold RowInfo.counted rowInfo
  simp only []
  split
  · have h1 : lposOf abc row ≤ apos := findIdx_le_of_true _ _ _ hi hres
    have h2 : row.reverse.findIdx abc.isResidue ≤ row.length - 1 - apos := by
      apply findIdx_le_of_true _ _ _ (by simp; omega)
      rw [List.getElem_reverse]
      have : row.length - 1 - (row.length - 1 - apos) = apos := by omega
      simp only [this]; exact hres
    simp only [Bool.and_eq_true, decide_eq_true_eq]
    refine ⟨h1, ?_⟩
    unfold rposOf
    omega
  · rfl

/-- digital mode: `ct[apos][a]` for a canonical residue `a` is the number of rows having `a` in that column -/
theorem digital_ct_true (abc : Abc) (minspan : Int) (rows : List Row) (apos a : Nat) (hK : abc.K ≤ abc.Kp)
    (ha : a < abc.K) (hrect : ∀ row ∈ rows, apos < row.length) :
    (mkStat (PBParams.digital abc) apos (digCol (rows.map (rowInfo abc minspan)) apos)).ct.getD a 0 =
      rows.countP (fun row => (row.getD apos 0).toNat == a) := by
  unfold mkStat
  simp only []
  rw [colCounts_getD _ _ (by simp only [PBParams.digital]; omega)]
  unfold digCol
  rw [List.map_map, List.countP_map]
  apply List.countP_congr
  intro row hrow
  have hi := hrect row hrow
  show ((if (rowInfo abc minspan row).counted apos = true then some ((rowInfo abc minspan row).row.getD apos 0).toNat
    else none) == some a) = true ↔ _
  have hrw : (rowInfo abc minspan row).row = row := rfl
  rw [hrw]
  by_cases hc : (rowInfo abc minspan row).counted apos = true
  · rw [if_pos hc]; simp
  · rw [if_neg hc]
    constructor
    · intro h; simp at h
    · intro h
      exfalso; apply hc
      have hget : row.getD apos 0 = row[apos] := by
        rw [List.getD_eq_getElem?_getD, List.getElem?_eq_getElem hi]; rfl
      have hres : abc.isResidue row[apos] = true := by
        unfold Abc.isResidue
        rw [hget] at h
        simp only [beq_iff_eq] at h
        simp only [Bool.or_eq_true, decide_eq_true_eq]
        left; omega
      exact counted_of_residue abc minspan row apos hi hres

theorem digital_r_true (abc : Abc) (minspan : Int) (rows : List Row) (apos : Nat) (hK : abc.K ≤ abc.Kp)
    (hrect : ∀ row ∈ rows, apos < row.length) :
    (mkStat (PBParams.digital abc) apos (digCol (rows.map (rowInfo abc minspan)) apos)).r =
      (List.range abc.K).countP (fun a => rows.countP (fun row => (row.getD apos 0).toNat == a) > 0) := by
  have h := fun a (ha : a < abc.K) => digital_ct_true abc minspan rows apos a hK ha hrect
  unfold mkStat at h ⊢
  simp only [] at h ⊢
  apply List.countP_congr
  intro a ha
  rw [h a (by simpa [PBParams.digital] using ha)]

/-- text mode: `ct[letter]` = number of rows with that letter (either case) in the column -/
theorem text_ct_true (rows : List Row) (apos a : Nat) (ha : a < 26) :
    (mkStat PBParams.text apos (rows.map fun row => PBParams.text.sym (row.getD apos 0))).ct.getD a 0 =
      rows.countP (fun row => PBParams.text.sym (row.getD apos 0) == some a) := by
  unfold mkStat
  simp only []
  rw [colCounts_getD _ _ (by simpa [PBParams.text] using ha), List.countP_map]
  rfl

theorem text_r_true (rows : List Row) (apos : Nat) :
    (mkStat PBParams.text apos (rows.map fun row => PBParams.text.sym (row.getD apos 0))).r =
      (List.range 26).countP (fun a => rows.countP (fun row => PBParams.text.sym (row.getD apos 0) == some a) > 0) := by
  have h := fun a (ha : a < 26) => text_ct_true rows apos a ha
  unfold mkStat at h ⊢
  simp only [] at h ⊢
  apply List.countP_congr
  intro a ha
  rw [h a (by simpa [PBParams.text] using ha)]

end EaselModel.Weights
