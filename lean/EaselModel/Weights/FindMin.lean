import EaselModel.Weights.GSC
/-! C16 helper lemmas, part 12: the minimum search of `cluster_engine` returns a minimum of the upper triangle. -/
namespace EaselModel.Weights
open WNum

/-- generic "keep the first strict minimum" fold -/
theorem argmin_fold {β : Type} (f : β → ℚ) (g : β → Nat × Nat) (l : List β) (init : ℚ × Nat × Nat) :
    let r := l.foldl (fun st x => if ltb (f x) st.1 then (f x, g x) else st) init
    r.1 ≤ init.1 ∧ (∀ x ∈ l, r.1 ≤ f x) ∧ (r = init ∨ ∃ x ∈ l, r = (f x, g x)) := by
  induction l generalizing init with
  | nil => simp
  | cons a l ih =>
    simp only [List.foldl_cons]
    by_cases h : f a < init.1
    · have hs : (if ltb (f a) init.1 = true then (f a, g a) else init) = (f a, g a) := by simp [h]
      rw [hs]
      obtain ⟨h1, h2, h3⟩ := ih (f a, g a)
      refine ⟨le_trans h1 (le_of_lt h), ?_, ?_⟩
      · intro x hx
        rcases List.mem_cons.mp hx with rfl | hx
        · exact h1
        · exact h2 x hx
      · rcases h3 with h3 | ⟨x, hx, h3⟩
        · exact Or.inr ⟨a, by simp, h3⟩
        · exact Or.inr ⟨x, by simp [hx], h3⟩
    · have hs : (if ltb (f a) init.1 = true then (f a, g a) else init) = init := by simp [h]
      rw [hs]
      obtain ⟨h1, h2, h3⟩ := ih init
      refine ⟨h1, ?_, ?_⟩
      · intro x hx
        rcases List.mem_cons.mp hx with rfl | hx
        · exact le_trans h1 (not_lt.mp h)
        · exact h2 x hx
      · rcases h3 with h3 | ⟨x, hx, h3⟩
        · exact Or.inl h3
        · exact Or.inr ⟨x, by simp [hx], h3⟩

/-- the upper-triangle positions in the order the C loops visit them -/
def upperPairs (N : Nat) : List (Nat × Nat) :=
  (List.range N).flatMap fun row => (List.range' (row + 1) (N - (row + 1))).map fun col => (row, col)

theorem mem_upperPairs {N r c : Nat} : (r, c) ∈ upperPairs N ↔ r < c ∧ c < N := by
  unfold upperPairs
  simp only [List.mem_flatMap, List.mem_range, List.mem_map, List.mem_range', Prod.mk.injEq]
  constructor
  · rintro ⟨row, hrow, col, ⟨i, hi, rfl⟩, rfl, rfl⟩
    omega
  · rintro ⟨h1, h2⟩
    exact ⟨r, by omega, c, ⟨c - (r + 1), by omega, by omega⟩, rfl, rfl⟩

theorem findMin_eq_fold (D : Array ℚ) (n N : Nat) :
    findMin D n N = (upperPairs N).foldl
      (fun st x => if ltb (mget D n x.1 x.2) st.1 then (mget D n x.1 x.2, x) else st) (mget D n 0 1, 0, 1) := by
  unfold findMin upperPairs
  rw [List.foldl_flatMap]
  congr 1
  funext st row
  rw [List.foldl_map]

/-- `findMin`: the value returned is the entry at the returned position, it is ≤ every entry of the upper triangle
    of the current N×N matrix, and (N ≥ 2) the position is inside the upper triangle -/
theorem findMin_spec (D : Array ℚ) (n N : Nat) (hN : 2 ≤ N) :
    (findMin D n N).1 = mget D n (findMin D n N).2.1 (findMin D n N).2.2 ∧
    (∀ r c, r < c → c < N → (findMin D n N).1 ≤ mget D n r c) ∧
    (findMin D n N).2.1 < (findMin D n N).2.2 ∧ (findMin D n N).2.2 < N := by
  rw [findMin_eq_fold]
  have h := argmin_fold (fun x : Nat × Nat => mget D n x.1 x.2) id (upperPairs N) (mget D n 0 1, 0, 1)
  simp only [id] at h
  obtain ⟨_, h2, h3⟩ := h
  refine ⟨?_, ?_, ?_⟩
  · rcases h3 with h3 | ⟨x, _, h3⟩
    · rw [h3]
    · rw [h3]
  · intro r c hrc hc
    exact h2 (r, c) (mem_upperPairs.mpr ⟨hrc, hc⟩)
  · rcases h3 with h3 | ⟨x, hx, h3⟩
    · rw [h3]; exact ⟨by show 0 < 1; omega, by show 1 < N; omega⟩
    · rw [h3]
      obtain ⟨r, c⟩ := x
      exact mem_upperPairs.mp hx

/-- every pass of the UPGMA loop joins a pair at minimum distance among the N = n - step active rows/columns, at
    height half that distance -/
theorem upgmaStep_joins_minimum (n : Nat) (st : UState ℚ) (step : Nat) (hN : 2 ≤ n - step) :
    stepI n st step < stepJ n st step ∧ stepJ n st step < n - step ∧
    (∀ r c, r < c → c < n - step → mget st.D n (stepI n st step) (stepJ n st step) ≤ mget st.D n r c) ∧
    stepH n st step = mget st.D n (stepI n st step) (stepJ n st step) / 2 := by
  obtain ⟨h1, h2, h3, h4⟩ := findMin_spec st.D n (n - step) hN
  refine ⟨h3, h4, ?_, ?_⟩
  · intro r c hrc hc
    have := h2 r c hrc hc
    unfold stepI stepJ stepMin
    rw [← h1]; exact this
  · unfold stepH stepI stepJ stepMin
    rw [← h1]; simp
end EaselModel.Weights
