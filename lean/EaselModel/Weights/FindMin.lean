import EaselModel.Weights.GSC
/-! C16 helper lemmas, part 12: the minimum search of `cluster_engine` returns a minimum of the upper triangle. -/
namespace EaselModel.Weights
open WNum

/-- generic "keep the first strict minimum" fold -/
theorem argmin_fold {β : Type} (f : β → ℚ) (g : β → Nat × Nat) (l : List β) (init : ℚ × Nat × Nat) :
    let r := l.foldl (fun st x => if ltb (f x) st.1 then (f x, g x) else st) init
    r.1 ≤ init.1 ∧ (∀ x ∈ l, r.1 ≤ f x) ∧ (r = init ∨ ∃ x ∈ l, r = (f x, g x)) := by
  induction l generalizing init with
  | nil => simp
  | cons a l ih =>
    simp only [List.foldl_cons]
    by_cases h : f a < init.1
    · have hs : (if ltb (f a) init.1 = true then (f a, g a) else init) = (f a, g a) := by simp [h]
      rw [hs]
      obtain ⟨h1, h2, h3⟩ := ih (f a, g a)
      refine ⟨le_trans h1 (le_of_lt h), ?_, ?_⟩
      · intro x hx
        rcases List.mem_cons.mp hx with rfl | hx
        · exact h1
        · exact h2 x hx
      · rcases h3 with h3 | ⟨x, hx, h3⟩
        · exact Or.inr ⟨a, by simp, h3⟩
        · exact Or.inr ⟨x, by simp [hx], h3⟩
    · have hs : (if ltb (f a) init.1 = true then (f a, g a) else init) = init := by simp [h]
      rw [hs]
      obtain ⟨h1, h2, h3⟩ := ih init
      refine ⟨h1, ?_, ?_⟩
      · intro x hx
        rcases List.mem_cons.mp hx with rfl | hx
        · exact le_trans h1 (not_lt.mp h)
        · exact h2 x hx
      · rcases h3 with h3 | ⟨x, hx, h3⟩
        · exact Or.inl h3
        · exact Or.inr ⟨x, by simp [hx], h3⟩

theorem mem_upperPairs {N r c : Nat} : (r, c) ∈ upperPairs N ↔ r < c ∧ c < N := by
  unfold upperPairs
  simp only [List.mem_flatMap, List.mem_range, List.mem_map, List.mem_range', Prod.mk.injEq]
  constructor
  · rintro ⟨row, hrow, col, ⟨i, hi, rfl⟩, rfl, rfl⟩
    omega
  · rintro ⟨h1, h2⟩
    exact ⟨r, by omega, c, ⟨c - (r + 1), by omega, by omega⟩, rfl, rfl⟩

/-- `kfindMin`: the value returned is the distance of the clusters at the returned positions, it is ≤ the distance of every
    pair of active positions, and (N ≥ 2) the positions satisfy i < j < N -/
theorem kfindMin_spec (rows : Array (Array ℚ)) (act : Array Nat) (hN : 2 ≤ act.size) :
    (kfindMin rows act).1 = kdist rows (act.getD (kfindMin rows act).2.1 0) (act.getD (kfindMin rows act).2.2 0) ∧
    (∀ r c, r < c → c < act.size → (kfindMin rows act).1 ≤ kdist rows (act.getD r 0) (act.getD c 0)) ∧
    (kfindMin rows act).2.1 < (kfindMin rows act).2.2 ∧ (kfindMin rows act).2.2 < act.size := by
  have h := argmin_fold (fun x : Nat × Nat => kdist rows (act.getD x.1 0) (act.getD x.2 0)) id (upperPairs act.size)
    (kdist rows (act.getD 0 0) (act.getD 1 0), 0, 1)
  simp only [id] at h
  obtain ⟨_, h2, h3⟩ := h
  unfold kfindMin
  refine ⟨?_, ?_, ?_⟩
  · rcases h3 with h3 | ⟨x, _, h3⟩
    · rw [h3]
    · rw [h3]
  · intro r c hrc hc
    exact h2 (r, c) (mem_upperPairs.mpr ⟨hrc, hc⟩)
  · rcases h3 with h3 | ⟨x, hx, h3⟩
    · rw [h3]; exact ⟨by show 0 < 1; omega, by show 1 < act.size; omega⟩
    · rw [h3]
      obtain ⟨r, c⟩ := x
      exact mem_upperPairs.mp hx

/-- every pass of the UPGMA loop joins a pair of clusters at minimum distance among the active ones, at height half that
    distance -/
theorem kstep_joins_minimum (st : KState ℚ) (hN : 2 ≤ st.act.size) :
    kPosI st < kPosJ st ∧ kPosJ st < st.act.size ∧
    (∀ r c, r < c → c < st.act.size → kdist st.rows (kI st) (kJ st) ≤ kdist st.rows (st.act.getD r 0) (st.act.getD c 0)) ∧
    kH st = kdist st.rows (kI st) (kJ st) / 2 := by
  obtain ⟨h1, h2, h3, h4⟩ := kfindMin_spec st.rows st.act hN
  refine ⟨h3, h4, ?_, ?_⟩
  · intro r c hrc hc
    have := h2 r c hrc hc
    unfold kI kJ kPosI kPosJ kMin
    rw [← h1]; exact this
  · unfold kH kI kJ kPosI kPosJ kMin
    rw [← h1]; simp

end EaselModel.Weights
