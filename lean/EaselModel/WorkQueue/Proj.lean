import EaselModel.WorkQueue.Model
/-! Projection lemmas (all `rfl`) for the building blocks of `step`; generated once by a script, kept as source. -/
namespace EaselModel.WorkQueue

@[simp] theorem give_size (s : Sys) (t : Nat) (ob : Option Block) : (give s t ob).size = s.size := rfl
@[simp] theorem give_rq (s : Sys) (t : Nat) (ob : Option Block) : (give s t ob).rq = s.rq := rfl
@[simp] theorem give_wq (s : Sys) (t : Nat) (ob : Option Block) : (give s t ob).wq = s.wq := rfl
@[simp] theorem give_pending (s : Sys) (t : Nat) (ob : Option Block) : (give s t ob).pending = s.pending := rfl
@[simp] theorem give_rWait (s : Sys) (t : Nat) (ob : Option Block) : (give s t ob).rWait = s.rWait := rfl
@[simp] theorem give_wWait (s : Sys) (t : Nat) (ob : Option Block) : (give s t ob).wWait = s.wWait := rfl
@[simp] theorem give_held (s : Sys) (t : Nat) (ob : Option Block) : (give s t ob).held = heldAdd t ob s.held := rfl
@[simp] theorem give_inited (s : Sys) (t : Nat) (ob : Option Block) : (give s t ob).inited = s.inited := rfl
@[simp] theorem give_rEnq (s : Sys) (t : Nat) (ob : Option Block) : (give s t ob).rEnq = s.rEnq := rfl
@[simp] theorem give_rDeq (s : Sys) (t : Nat) (ob : Option Block) : (give s t ob).rDeq = s.rDeq := rfl
@[simp] theorem give_wEnq (s : Sys) (t : Nat) (ob : Option Block) : (give s t ob).wEnq = s.wEnq := rfl
@[simp] theorem give_wDeq (s : Sys) (t : Nat) (ob : Option Block) : (give s t ob).wDeq = s.wDeq := rfl

@[simp] theorem putReader_size (s : Sys) (b : Block) : (putReader s b).size = s.size := rfl
@[simp] theorem putReader_rq (s : Sys) (b : Block) : (putReader s b).rq = s.rq.push s.size (some b) := rfl
@[simp] theorem putReader_wq (s : Sys) (b : Block) : (putReader s b).wq = s.wq := rfl
@[simp] theorem putReader_pending (s : Sys) (b : Block) : (putReader s b).pending = s.pending := rfl
@[simp] theorem putReader_rWait (s : Sys) (b : Block) : (putReader s b).rWait = if s.rq.cnt = 0 then s.rWait.map (fun _ => true) else s.rWait := rfl
@[simp] theorem putReader_wWait (s : Sys) (b : Block) : (putReader s b).wWait = s.wWait := rfl
@[simp] theorem putReader_held (s : Sys) (b : Block) : (putReader s b).held = s.held := rfl
@[simp] theorem putReader_inited (s : Sys) (b : Block) : (putReader s b).inited = s.inited := rfl
@[simp] theorem putReader_rEnq (s : Sys) (b : Block) : (putReader s b).rEnq = s.rEnq ++ [b] := rfl
@[simp] theorem putReader_rDeq (s : Sys) (b : Block) : (putReader s b).rDeq = s.rDeq := rfl
@[simp] theorem putReader_wEnq (s : Sys) (b : Block) : (putReader s b).wEnq = s.wEnq := rfl
@[simp] theorem putReader_wDeq (s : Sys) (b : Block) : (putReader s b).wDeq = s.wDeq := rfl

@[simp] theorem putWorker_size (s : Sys) (b : Block) : (putWorker s b).size = s.size := rfl
@[simp] theorem putWorker_rq (s : Sys) (b : Block) : (putWorker s b).rq = s.rq := rfl
@[simp] theorem putWorker_wq (s : Sys) (b : Block) : (putWorker s b).wq = s.wq.push s.size (some b) := rfl
@[simp] theorem putWorker_pending (s : Sys) (b : Block) : (putWorker s b).pending = s.pending := rfl
@[simp] theorem putWorker_rWait (s : Sys) (b : Block) : (putWorker s b).rWait = s.rWait := rfl
@[simp] theorem putWorker_wWait (s : Sys) (b : Block) : (putWorker s b).wWait = if s.pending ≠ 0 then s.wWait.map (fun e => (e.1, true)) else s.wWait := rfl
@[simp] theorem putWorker_held (s : Sys) (b : Block) : (putWorker s b).held = s.held := rfl
@[simp] theorem putWorker_inited (s : Sys) (b : Block) : (putWorker s b).inited = s.inited := rfl
@[simp] theorem putWorker_rEnq (s : Sys) (b : Block) : (putWorker s b).rEnq = s.rEnq := rfl
@[simp] theorem putWorker_rDeq (s : Sys) (b : Block) : (putWorker s b).rDeq = s.rDeq := rfl
@[simp] theorem putWorker_wEnq (s : Sys) (b : Block) : (putWorker s b).wEnq = s.wEnq ++ [b] := rfl
@[simp] theorem putWorker_wDeq (s : Sys) (b : Block) : (putWorker s b).wDeq = s.wDeq := rfl

@[simp] theorem takeReader_size (s : Sys) : (takeReader s).size = s.size := rfl
@[simp] theorem takeReader_rq (s : Sys) : (takeReader s).rq = (s.rq.pop s.size).2 := rfl
@[simp] theorem takeReader_wq (s : Sys) : (takeReader s).wq = s.wq := rfl
@[simp] theorem takeReader_pending (s : Sys) : (takeReader s).pending = s.pending := rfl
@[simp] theorem takeReader_rWait (s : Sys) : (takeReader s).rWait = s.rWait := rfl
@[simp] theorem takeReader_wWait (s : Sys) : (takeReader s).wWait = s.wWait := rfl
@[simp] theorem takeReader_held (s : Sys) : (takeReader s).held = heldAdd 0 (s.rq.pop s.size).1 s.held := rfl
@[simp] theorem takeReader_inited (s : Sys) : (takeReader s).inited = s.inited := rfl
@[simp] theorem takeReader_rEnq (s : Sys) : (takeReader s).rEnq = s.rEnq := rfl
@[simp] theorem takeReader_rDeq (s : Sys) : (takeReader s).rDeq = s.rDeq ++ (s.rq.pop s.size).1.toList := rfl
@[simp] theorem takeReader_wEnq (s : Sys) : (takeReader s).wEnq = s.wEnq := rfl
@[simp] theorem takeReader_wDeq (s : Sys) : (takeReader s).wDeq = s.wDeq := rfl

@[simp] theorem takeWorker_size (s : Sys) (w : Nat) : (takeWorker s w).size = s.size := rfl
@[simp] theorem takeWorker_rq (s : Sys) (w : Nat) : (takeWorker s w).rq = s.rq := rfl
@[simp] theorem takeWorker_wq (s : Sys) (w : Nat) : (takeWorker s w).wq = (s.wq.pop s.size).2 := rfl
@[simp] theorem takeWorker_pending (s : Sys) (w : Nat) : (takeWorker s w).pending = s.pending := rfl
@[simp] theorem takeWorker_rWait (s : Sys) (w : Nat) : (takeWorker s w).rWait = s.rWait := rfl
@[simp] theorem takeWorker_wWait (s : Sys) (w : Nat) : (takeWorker s w).wWait = s.wWait := rfl
@[simp] theorem takeWorker_held (s : Sys) (w : Nat) : (takeWorker s w).held = heldAdd w (s.wq.pop s.size).1 s.held := rfl
@[simp] theorem takeWorker_inited (s : Sys) (w : Nat) : (takeWorker s w).inited = s.inited := rfl
@[simp] theorem takeWorker_rEnq (s : Sys) (w : Nat) : (takeWorker s w).rEnq = s.rEnq := rfl
@[simp] theorem takeWorker_rDeq (s : Sys) (w : Nat) : (takeWorker s w).rDeq = s.rDeq := rfl
@[simp] theorem takeWorker_wEnq (s : Sys) (w : Nat) : (takeWorker s w).wEnq = s.wEnq := rfl
@[simp] theorem takeWorker_wDeq (s : Sys) (w : Nat) : (takeWorker s w).wDeq = s.wDeq ++ (s.wq.pop s.size).1.toList := rfl

@[simp] theorem signalReader_size (s : Sys) : (signalReader s).size = s.size := rfl
@[simp] theorem signalReader_rq (s : Sys) : (signalReader s).rq = s.rq := rfl
@[simp] theorem signalReader_wq (s : Sys) : (signalReader s).wq = s.wq := rfl
@[simp] theorem signalReader_pending (s : Sys) : (signalReader s).pending = s.pending := rfl
@[simp] theorem signalReader_rWait (s : Sys) : (signalReader s).rWait = s.rWait.map fun _ => true := rfl
@[simp] theorem signalReader_wWait (s : Sys) : (signalReader s).wWait = s.wWait := rfl
@[simp] theorem signalReader_held (s : Sys) : (signalReader s).held = s.held := rfl
@[simp] theorem signalReader_inited (s : Sys) : (signalReader s).inited = s.inited := rfl
@[simp] theorem signalReader_rEnq (s : Sys) : (signalReader s).rEnq = s.rEnq := rfl
@[simp] theorem signalReader_rDeq (s : Sys) : (signalReader s).rDeq = s.rDeq := rfl
@[simp] theorem signalReader_wEnq (s : Sys) : (signalReader s).wEnq = s.wEnq := rfl
@[simp] theorem signalReader_wDeq (s : Sys) : (signalReader s).wDeq = s.wDeq := rfl

@[simp] theorem broadcastWorkers_size (s : Sys) : (broadcastWorkers s).size = s.size := rfl
@[simp] theorem broadcastWorkers_rq (s : Sys) : (broadcastWorkers s).rq = s.rq := rfl
@[simp] theorem broadcastWorkers_wq (s : Sys) : (broadcastWorkers s).wq = s.wq := rfl
@[simp] theorem broadcastWorkers_pending (s : Sys) : (broadcastWorkers s).pending = s.pending := rfl
@[simp] theorem broadcastWorkers_rWait (s : Sys) : (broadcastWorkers s).rWait = s.rWait := rfl
@[simp] theorem broadcastWorkers_wWait (s : Sys) : (broadcastWorkers s).wWait = s.wWait.map fun e => (e.1, true) := rfl
@[simp] theorem broadcastWorkers_held (s : Sys) : (broadcastWorkers s).held = s.held := rfl
@[simp] theorem broadcastWorkers_inited (s : Sys) : (broadcastWorkers s).inited = s.inited := rfl
@[simp] theorem broadcastWorkers_rEnq (s : Sys) : (broadcastWorkers s).rEnq = s.rEnq := rfl
@[simp] theorem broadcastWorkers_rDeq (s : Sys) : (broadcastWorkers s).rDeq = s.rDeq := rfl
@[simp] theorem broadcastWorkers_wEnq (s : Sys) : (broadcastWorkers s).wEnq = s.wEnq := rfl
@[simp] theorem broadcastWorkers_wDeq (s : Sys) : (broadcastWorkers s).wDeq = s.wDeq := rfl

end EaselModel.WorkQueue
