import EaselModel.WorkQueue.RingLemmas
/-! Invariant of the work-queue transition system and its preservation by every step. -/
namespace EaselModel.WorkQueue

/-- The inductive invariant (all theorems of Props/C12 about the work queue are projections of it). -/
structure Inv (s : Sys) : Prop where
  rwf : s.rq.Wf s.size
  wwf : s.wq.Wf s.size
  rsome : s.rq.AllSome s.size
  wsome : s.wq.AllSome s.size
  cons : s.allBlocks.Perm s.inited
  nodup : s.inited.Nodup
  cap : s.inited.length ≤ s.size
  fifoR : s.rEnq = s.rDeq ++ s.rBlocks
  fifoW : s.wEnq = s.wDeq ++ s.wBlocks
  pend : s.pending = (s.wWait.length : Int)
  nlwW : ∀ e ∈ s.wWait, e.2 = false → s.wq.cnt = 0
  nlwR : s.rWait = some false → s.rq.cnt = 0

/-- The caller's side of the contract (everything else is "every schedule"):
    a block is handed to `Init` once, no more blocks than the queue size are ever handed in,
    and `Reset` ("for another run") is not called while a worker sleeps inside `WorkerUpdate`. -/
def Admissible (s : Sys) : Label → Prop
  | .init b => b ∉ s.inited ∧ s.inited.length < s.size
  | .reset => s.wWait = []
  | _ => True

theorem inv_create (size : Nat) (h : 0 < size) : Inv (Sys.create size) := by
  refine ⟨Ring.wf_empty _ h, Ring.wf_empty _ h, Ring.allSome_empty _, Ring.allSome_empty _, ?_, ?_, ?_, ?_, ?_, ?_, ?_, ?_⟩ <;>
    simp [Sys.create, Sys.allBlocks, Sys.rBlocks, Sys.wBlocks, Ring.blocks_empty]

/-- number of blocks = queue counters + held -/
theorem Inv.count (h : Inv s) : s.rq.cnt + s.wq.cnt + s.held.length = s.inited.length := by
  have := h.cons.length_eq
  simp only [Sys.allBlocks, Sys.rBlocks, Sys.wBlocks, List.length_append, List.length_map] at this
  rw [Ring.length_blocks _ _ h.rsome, Ring.length_blocks _ _ h.wsome] at this
  exact this

theorem held_erase_count (held : List (Nat × Block)) (t : Nat) (b : Block) (hm : (t, b) ∈ held) (x : Block) :
    List.count x (held.map (·.2)) = List.count x ((held.erase (t, b)).map (·.2)) + if b == x then 1 else 0 := by
  have := ((List.perm_cons_erase hm).map (·.2)).count_eq x
  simpa [List.count_cons] using this

/-! ### building blocks -/

theorem inv_initPut (s : Sys) (b : Block) (h : Inv s) (hb : b ∉ s.inited) (hl : s.inited.length < s.size)
    (hc : s.rq.cnt < s.size) : Inv (putReader { s with inited := s.inited ++ [b] } b) := by
  have hperm := h.cons
  rw [List.perm_iff_count] at hperm
  refine ⟨?_, ?_, ?_, ?_, ?_, ?_, ?_, ?_, ?_, ?_, ?_, ?_⟩
  · simpa using Ring.wf_push _ _ _ h.rwf hc
  · simpa using h.wwf
  · simpa using Ring.allSome_push _ _ _ h.rwf hc h.rsome
  · simpa using h.wsome
  · rw [List.perm_iff_count]; intro x; have := hperm x
    simp only [Sys.allBlocks, Sys.rBlocks, Sys.wBlocks, putReader_rq, putReader_wq, putReader_size, putReader_held,
      putReader_inited, Ring.blocks_push _ _ _ h.rwf hc, List.count_append, List.count_cons, List.count_nil] at *
    omega
  · simp only [putReader_inited, List.nodup_append]
    exact ⟨h.nodup, by simp, by intro a ha c hc; simp at hc; subst hc; intro e; subst e; exact hb ha⟩
  · simp; omega
  · simp [Sys.rBlocks, Ring.blocks_push _ _ _ h.rwf hc, h.fifoR]
  · simpa [Sys.wBlocks] using h.fifoW
  · simpa using h.pend
  · simpa using h.nlwW
  · simp only [putReader_rWait, putReader_rq]
    intro hw
    split at hw
    · cases hr : s.rWait <;> simp [hr] at hw
    · have := h.nlwR hw; omega

theorem inv_handToReader (s : Sys) (t : Nat) (b : Block) (h : Inv s) (hm : (t, b) ∈ s.held)
    (hc : s.rq.cnt < s.size) : Inv (putReader { s with held := s.held.erase (t, b) } b) := by
  have hperm := h.cons
  rw [List.perm_iff_count] at hperm
  refine ⟨?_, ?_, ?_, ?_, ?_, ?_, ?_, ?_, ?_, ?_, ?_, ?_⟩
  · simpa using Ring.wf_push _ _ _ h.rwf hc
  · simpa using h.wwf
  · simpa using Ring.allSome_push _ _ _ h.rwf hc h.rsome
  · simpa using h.wsome
  · rw [List.perm_iff_count]; intro x; have := hperm x; have he := held_erase_count _ _ _ hm x
    simp only [Sys.allBlocks, Sys.rBlocks, Sys.wBlocks, putReader_rq, putReader_wq, putReader_size, putReader_held,
      putReader_inited, Ring.blocks_push _ _ _ h.rwf hc, List.count_append, List.count_cons, List.count_nil] at *
    omega
  · simpa using h.nodup
  · simpa using h.cap
  · simp [Sys.rBlocks, Ring.blocks_push _ _ _ h.rwf hc, h.fifoR]
  · simpa [Sys.wBlocks] using h.fifoW
  · simpa using h.pend
  · simpa using h.nlwW
  · simp only [putReader_rWait, putReader_rq]
    intro hw
    split at hw
    · cases hr : s.rWait <;> simp [hr] at hw
    · have := h.nlwR hw; omega

theorem inv_handToWorkers (s : Sys) (b : Block) (h : Inv s) (hm : (0, b) ∈ s.held)
    (hc : s.wq.cnt < s.size) : Inv (putWorker { s with held := s.held.erase (0, b) } b) := by
  have hperm := h.cons
  rw [List.perm_iff_count] at hperm
  refine ⟨?_, ?_, ?_, ?_, ?_, ?_, ?_, ?_, ?_, ?_, ?_, ?_⟩
  · simpa using h.rwf
  · simpa using Ring.wf_push _ _ _ h.wwf hc
  · simpa using h.rsome
  · simpa using Ring.allSome_push _ _ _ h.wwf hc h.wsome
  · rw [List.perm_iff_count]; intro x; have := hperm x; have he := held_erase_count _ _ _ hm x
    simp only [Sys.allBlocks, Sys.rBlocks, Sys.wBlocks, putWorker_rq, putWorker_wq, putWorker_size, putWorker_held,
      putWorker_inited, Ring.blocks_push _ _ _ h.wwf hc, List.count_append, List.count_cons, List.count_nil] at *
    omega
  · simpa using h.nodup
  · simpa using h.cap
  · simpa [Sys.rBlocks] using h.fifoR
  · simp [Sys.wBlocks, Ring.blocks_push _ _ _ h.wwf hc, h.fifoW]
  · have := h.pend
    simp only [putWorker_pending, putWorker_wWait]
    split <;> simp [this]
  · simp only [putWorker_wWait, putWorker_wq, putWorker_pending]
    intro e he hf
    split at he
    · simp at he; obtain ⟨a, c, _, rfl⟩ := he; simp at hf
    · rename_i hp
      have := h.pend
      simp only [ne_eq, Decidable.not_not] at hp
      rw [hp] at this
      have : s.wWait = [] := List.eq_nil_of_length_eq_zero (by omega)
      rw [this] at he; simp at he
  · simpa using h.nlwR

theorem inv_setRWaitNone (s : Sys) (h : Inv s) : Inv { s with rWait := none } :=
  ⟨h.rwf, h.wwf, h.rsome, h.wsome, h.cons, h.nodup, h.cap, h.fifoR, h.fifoW, h.pend, h.nlwW, by simp⟩

theorem inv_takeReader (s : Sys) (h : Inv s) (hc : s.rq.cnt ≠ 0) (hr : s.rWait ≠ some false) : Inv (takeReader s) := by
  obtain ⟨b, hb1, hb2, hb3⟩ := Ring.pop_spec _ _ h.rwf (by omega) h.rsome
  have hperm := h.cons
  rw [List.perm_iff_count] at hperm
  refine ⟨?_, ?_, ?_, ?_, ?_, ?_, ?_, ?_, ?_, ?_, ?_, ?_⟩
  · simpa using Ring.wf_pop _ _ h.rwf
  · simpa using h.wwf
  · simpa using hb3
  · simpa using h.wsome
  · rw [List.perm_iff_count]; intro x; have := hperm x
    simp only [Sys.allBlocks, Sys.rBlocks, Sys.wBlocks, takeReader_rq, takeReader_wq, takeReader_size, takeReader_held,
      takeReader_inited, hb1, hb2, heldAdd, List.map_cons, List.count_append, List.count_cons, List.count_nil] at *
    omega
  · simpa using h.nodup
  · simpa using h.cap
  · have := h.fifoR
    simp only [Sys.rBlocks, hb2] at this
    simp [Sys.rBlocks, hb1, this]
  · simpa [Sys.wBlocks] using h.fifoW
  · simpa using h.pend
  · simpa using h.nlwW
  · simp only [takeReader_rWait]; intro hw; exact absurd hw hr

theorem inv_readerOut (s : Sys) (h : Inv s) : Inv (readerOut s) := by
  unfold readerOut
  split
  · rename_i hc
    exact ⟨h.rwf, h.wwf, h.rsome, h.wsome, h.cons, h.nodup, h.cap, h.fifoR, h.fifoW, h.pend, h.nlwW, fun _ => hc⟩
  · rename_i hc
    exact inv_takeReader _ (inv_setRWaitNone s h) hc (by simp)

theorem inv_takeWorker (s : Sys) (w : Nat) (h : Inv s) (hc : s.wq.cnt ≠ 0) : Inv (takeWorker s w) := by
  obtain ⟨b, hb1, hb2, hb3⟩ := Ring.pop_spec _ _ h.wwf (by omega) h.wsome
  have hperm := h.cons
  rw [List.perm_iff_count] at hperm
  refine ⟨?_, ?_, ?_, ?_, ?_, ?_, ?_, ?_, ?_, ?_, ?_, ?_⟩
  · simpa using h.rwf
  · simpa using Ring.wf_pop _ _ h.wwf
  · simpa using h.rsome
  · simpa using hb3
  · rw [List.perm_iff_count]; intro x; have := hperm x
    simp only [Sys.allBlocks, Sys.rBlocks, Sys.wBlocks, takeWorker_rq, takeWorker_wq, takeWorker_size, takeWorker_held,
      takeWorker_inited, hb1, hb2, heldAdd, List.map_cons, List.count_append, List.count_cons, List.count_nil] at *
    omega
  · simpa using h.nodup
  · simpa using h.cap
  · simpa [Sys.rBlocks] using h.fifoR
  · have := h.fifoW
    simp only [Sys.wBlocks, hb2] at this
    simp [Sys.wBlocks, hb1, this]
  · simpa using h.pend
  · simp only [takeWorker_wWait]
    intro e he hf; exact absurd (h.nlwW e he hf) hc
  · simpa using h.nlwR

theorem inv_workerOut (s : Sys) (w : Nat) (h : Inv s) : Inv (workerOut s w) := by
  unfold workerOut
  split
  · rename_i hc
    refine ⟨h.rwf, h.wwf, h.rsome, h.wsome, h.cons, h.nodup, h.cap, h.fifoR, h.fifoW, ?_, ?_, h.nlwR⟩
    · have := h.pend; simp [this]
    · intro e he hf; exact hc
  · rename_i hc
    exact inv_takeWorker s w h hc

theorem inv_remove (s : Sys) (h : Inv s) (hc : 0 < s.rq.cnt) (hr : s.rWait = none) :
    Inv (give { s with rq := (s.rq.popLast s.size).2, rEnq := s.rEnq.dropLast } 0 (s.rq.popLast s.size).1) := by
  obtain ⟨b, hb1, hb2, hb3⟩ := Ring.popLast_spec _ _ h.rwf hc h.rsome
  have hperm := h.cons
  rw [List.perm_iff_count] at hperm
  refine ⟨?_, ?_, ?_, ?_, ?_, ?_, ?_, ?_, ?_, ?_, ?_, ?_⟩
  · simpa using Ring.wf_popLast _ _ h.rwf
  · simpa using h.wwf
  · simpa using hb3
  · simpa using h.wsome
  · rw [List.perm_iff_count]; intro x; have := hperm x
    simp only [Sys.allBlocks, Sys.rBlocks, Sys.wBlocks, give_rq, give_wq, give_size, give_held,
      give_inited, hb1, hb2, heldAdd, List.map_cons, List.count_append, List.count_cons, List.count_nil] at *
    omega
  · simpa using h.nodup
  · simpa using h.cap
  · have := h.fifoR
    simp only [Sys.rBlocks, hb2] at this
    simp only [Sys.rBlocks, give_rEnq, give_rDeq, give_rq, give_size, this]
    rw [← List.append_assoc, List.dropLast_concat]
  · simpa [Sys.wBlocks] using h.fifoW
  · simpa using h.pend
  · simpa using h.nlwW
  · simp [hr]

theorem inv_got (s : Sys) (h : Inv s) (g : List (Nat × Option Block)) : Inv { s with got := g } :=
  ⟨h.rwf, h.wwf, h.rsome, h.wsome, h.cons, h.nodup, h.cap, h.fifoR, h.fifoW, h.pend, h.nlwW, h.nlwR⟩

theorem inv_broadcast (s : Sys) (h : Inv s) : Inv (broadcastWorkers s) := by
  refine ⟨h.rwf, h.wwf, h.rsome, h.wsome, h.cons, h.nodup, h.cap, h.fifoR, h.fifoW, ?_, ?_, h.nlwR⟩
  · have := h.pend; simp [this]
  · intro e he hf
    simp at he; obtain ⟨a, c, _, rfl⟩ := he; simp at hf

/-- one iteration of the `esl_workqueue_Reset` loop -/
theorem inv_resetStep (s : Sys) (h : Inv s) (hc : 0 < s.wq.cnt) (hr : s.rWait = none) (hw : s.wWait = []) :
    Inv { s with rq := s.rq.push s.size (s.wq.pop s.size).1, wq := (s.wq.pop s.size).2,
                 wDeq := s.wDeq ++ (s.wq.pop s.size).1.toList, rEnq := s.rEnq ++ (s.wq.pop s.size).1.toList } := by
  obtain ⟨b, hb1, hb2, hb3⟩ := Ring.pop_spec _ _ h.wwf hc h.wsome
  have hcnt := h.count
  have hcap := h.cap
  have hrc : s.rq.cnt < s.size := by omega
  have hperm := h.cons
  rw [List.perm_iff_count] at hperm
  rw [hb1]
  refine ⟨?_, ?_, ?_, ?_, ?_, ?_, ?_, ?_, ?_, ?_, ?_, ?_⟩
  · simpa using Ring.wf_push _ _ _ h.rwf hrc
  · simpa using Ring.wf_pop _ _ h.wwf
  · simpa using Ring.allSome_push _ _ _ h.rwf hrc h.rsome
  · simpa using hb3
  · rw [List.perm_iff_count]; intro x; have := hperm x
    simp only [Sys.allBlocks, Sys.rBlocks, Sys.wBlocks, hb2, Ring.blocks_push _ _ _ h.rwf hrc,
      List.count_append, List.count_cons, List.count_nil] at *
    omega
  · exact h.nodup
  · exact h.cap
  · simp [Sys.rBlocks, Ring.blocks_push _ _ _ h.rwf hrc, h.fifoR]
  · have := h.fifoW
    simp only [Sys.wBlocks, hb2] at this
    simp [Sys.wBlocks, this]
  · exact h.pend
  · simp [hw]
  · simp [hr]

theorem inv_resetLoop (n : Nat) (s : Sys) (h : Inv s) (hr : s.rWait = none) (hw : s.wWait = []) (hn : s.wq.cnt ≤ n) :
    Inv (resetLoop n s) ∧ (resetLoop n s).wq.cnt = 0 ∧ (resetLoop n s).wWait = [] ∧ (resetLoop n s).rWait = none := by
  induction n generalizing s with
  | zero => exact ⟨h, by simp only [resetLoop]; omega, hw, hr⟩
  | succ n ih =>
    unfold resetLoop
    split
    · rename_i hc
      refine ih _ (inv_resetStep s h hc hr hw) hr hw ?_
      simp [Ring.pop]; omega
    · rename_i hc
      exact ⟨h, by omega, hw, hr⟩

theorem inv_reset (s : Sys) (h : Inv s) (hr : s.rWait = none) (hw : s.wWait = []) :
    Inv { resetLoop s.wq.cnt s with pending := 0 } := by
  obtain ⟨hi, hc, hww, _⟩ := inv_resetLoop s.wq.cnt s h hr hw (Nat.le_refl _)
  exact ⟨hi.rwf, hi.wwf, hi.rsome, hi.wsome, hi.cons, hi.nodup, hi.cap, hi.fifoR, hi.fifoW,
    by simp [hww], by simp [hww], hi.nlwR⟩

theorem inv_wakeSleep (s : Sys) (w : Nat) (e : Nat × Bool) (h : Inv s) (he : e ∈ s.wWait) (hc : s.wq.cnt = 0) :
    Inv { s with wWait := (w, false) :: s.wWait.erase e } := by
  refine ⟨h.rwf, h.wwf, h.rsome, h.wsome, h.cons, h.nodup, h.cap, h.fifoR, h.fifoW, ?_, ?_, h.nlwR⟩
  · have := h.pend
    have hl := List.length_erase_of_mem he
    have hp : 0 < s.wWait.length := List.length_pos_of_mem he
    simp only [List.length_cons, hl, this]
    omega
  · intro _ _ _; exact hc

theorem inv_wakeTake (s : Sys) (w : Nat) (e : Nat × Bool) (h : Inv s) (he : e ∈ s.wWait) (hc : s.wq.cnt ≠ 0) :
    Inv (takeWorker { s with pending := s.pending - 1, wWait := s.wWait.erase e } w) := by
  refine inv_takeWorker _ w ?_ hc
  refine ⟨h.rwf, h.wwf, h.rsome, h.wsome, h.cons, h.nodup, h.cap, h.fifoR, h.fifoW, ?_, ?_, h.nlwR⟩
  · have := h.pend
    have hl := List.length_erase_of_mem he
    have hp : 0 < s.wWait.length := List.length_pos_of_mem he
    simp only [hl, this]
    omega
  · intro x hx hf; exact h.nlwW x (List.mem_of_mem_erase hx) hf

/-! ### the step theorem -/

theorem step_inv (s s' : Sys) (l : Label) (h : Inv s) (ha : Admissible s l) (hs : step s l = .ok s') : Inv s' := by
  cases l with
  | init b =>
    simp only [step] at hs
    split at hs; · cases hs
    rename_i hc
    cases hs
    exact inv_initPut s b h ha.1 ha.2 (by omega)
  | remove =>
    simp only [step] at hs
    split at hs; · cases hs
    rename_i hr
    split at hs
    · rename_i hc; cases hs
      exact inv_remove s h hc (by simpa using hr)
    · cases hs; exact inv_got s h _
  | reset =>
    simp only [step] at hs
    split at hs; · cases hs
    rename_i hr
    cases hs
    exact inv_reset s h (by simpa using hr) ha
  | complete =>
    simp only [step] at hs
    split at hs; · cases hs
    cases hs
    split
    · exact inv_broadcast s h
    · exact h
  | readerUpdate inp out =>
    simp only [step] at hs
    split at hs; · cases hs
    rename_i hr
    cases inp with
    | none =>
      simp only at hs
      cases hs
      split
      · exact inv_readerOut s h
      · exact h
    | some b =>
      simp only at hs
      split at hs
      · rename_i hm
        split at hs; · cases hs
        rename_i hc
        cases hs
        have h1 := inv_handToWorkers s b h hm (by omega)
        split
        · exact inv_readerOut _ h1
        · exact h1
      · cases hs
  | readerWake =>
    simp only [step] at hs
    split at hs
    · cases hs; exact inv_readerOut s h
    · cases hs
  | workerUpdate w inp out =>
    simp only [step] at hs
    split at hs
    · cases inp with
      | none =>
        simp only at hs
        cases hs
        split
        · exact inv_workerOut s w h
        · exact h
      | some b =>
        simp only at hs
        split at hs
        · rename_i hm
          split at hs; · cases hs
          rename_i hc
          cases hs
          have h1 := inv_handToReader s w b h hm (by omega)
          split
          · exact inv_workerOut _ w h1
          · exact h1
        · cases hs
    · cases hs
  | workerWake w =>
    simp only [step] at hs
    split at hs
    · cases hs
    · rename_i e hf
      have he := List.mem_of_find?_eq_some hf
      split at hs
      · rename_i hc; cases hs; exact inv_wakeSleep s w e h he hc
      · rename_i hc; cases hs; exact inv_wakeTake s w e h he hc

/-- under the caller's contract the "queue overflow" exception is unreachable -/
theorem step_no_overflow (s : Sys) (l : Label) (h : Inv s) (ha : Admissible s l) : step s l ≠ .overflow := by
  have hcnt := h.count
  have hcap := h.cap
  cases l with
  | init b =>
    simp only [step]
    have := ha.2
    split
    · omega
    · simp
  | remove =>
    simp only [step]
    split
    · simp
    · split <;> simp
  | reset => simp only [step]; split <;> simp
  | complete => simp only [step]; split <;> simp
  | readerUpdate inp out =>
    simp only [step]
    split; · simp
    cases inp with
    | none => simp
    | some b =>
      simp only
      split
      · rename_i hm
        have := List.length_pos_of_mem hm
        split
        · omega
        · simp
      · simp
  | readerWake => simp only [step]; split <;> simp
  | workerUpdate w inp out =>
    simp only [step]
    split
    · cases inp with
      | none => simp
      | some b =>
        simp only
        split
        · rename_i hm
          have := List.length_pos_of_mem hm
          split
          · omega
          · simp
        · simp
    · simp
  | workerWake w =>
    simp only [step]
    split
    · simp
    · split <;> simp

/-! ### reachable states: every schedule of one reader and any number of workers -/

/-- states reachable from `esl_workqueue_Create(size)` by any interleaving of reader and worker steps that respects
    the caller's contract `Admissible` -/
inductive Reachable (size : Nat) : Sys → Prop
  | create : Reachable size (Sys.create size)
  | step {s s' : Sys} {l : Label} : Reachable size s → Admissible s l → step s l = .ok s' → Reachable size s'

theorem reachable_inv {size : Nat} (hs : 0 < size) {s : Sys} (h : Reachable size s) : Inv s := by
  induction h with
  | create => exact inv_create size hs
  | step _ ha hst ih => exact step_inv _ _ _ ih ha hst

/-- list formulation: running any admissible schedule keeps the invariant -/
def AdmissibleRun : Sys → List Label → Prop
  | _, [] => True
  | s, l :: ls => Admissible s l ∧ match step s l with
    | .ok s' => AdmissibleRun s' ls
    | _ => True

instance (s : Sys) (l : Label) : Decidable (Admissible s l) := by
  cases l <;> simp only [Admissible] <;> infer_instance

def decAdmissibleRun : (s : Sys) → (ls : List Label) → Decidable (AdmissibleRun s ls)
  | _, [] => isTrue trivial
  | s, l :: ls =>
    match h : step s l with
    | .ok s' =>
      have : Decidable (AdmissibleRun s' ls) := decAdmissibleRun s' ls
      decidable_of_iff (Admissible s l ∧ AdmissibleRun s' ls) (by simp [AdmissibleRun, h])
    | .disabled => decidable_of_iff (Admissible s l) (by simp [AdmissibleRun, h])
    | .overflow => decidable_of_iff (Admissible s l) (by simp [AdmissibleRun, h])

instance (s : Sys) (ls : List Label) : Decidable (AdmissibleRun s ls) := decAdmissibleRun s ls

theorem run_reachable {size : Nat} (s : Sys) (ls : List Label) (s' : Sys) (h : Reachable size s)
    (ha : AdmissibleRun s ls) (hr : run s ls = some s') : Reachable size s' := by
  induction ls generalizing s with
  | nil => simp [run] at hr; subst hr; exact h
  | cons l ls ih =>
    simp only [run] at hr
    simp only [AdmissibleRun] at ha
    split at hr
    · rename_i s1 hs1
      rw [hs1] at ha
      exact ih s1 (Reachable.step h ha.1 hs1) ha.2 hr
    · cases hr

/-- a waiting worker whose queue is non-empty gets the head block as soon as it takes its wake step -/
theorem wake_delivers (s : Sys) (w : Nat) (sg : Bool) (h : Inv s) (hw : (w, sg) ∈ s.wWait) (hc : s.wq.cnt ≠ 0) :
    ∃ s' b bs, step s (.workerWake w) = .ok s' ∧ s.wBlocks = b :: bs ∧ s'.wBlocks = bs ∧
      s'.got = (w, some b) :: s.got ∧ (w, b) ∈ s'.held := by
  obtain ⟨b, hb1, hb2, _⟩ := Ring.pop_spec _ _ h.wwf (by omega) h.wsome
  cases hf : s.wWait.find? (fun e => e.1 == w) with
  | none =>
    rw [List.find?_eq_none] at hf
    exact absurd (by simp) (hf _ hw)
  | some e =>
    refine ⟨_, b, _, by simp only [step, hf]; rw [if_neg hc], hb2, ?_, ?_, ?_⟩
    · rfl
    · simp [takeWorker, hb1]
    · simp [hb1, heldAdd]

/-- the history variables after the `Reset` loop: the same list of moved blocks is appended to "dequeued by workers"
    and to "enqueued for the reader"; nothing else in the histories changes -/
theorem resetLoop_hist (n : Nat) (s : Sys) :
    ∃ moved, (resetLoop n s).wDeq = s.wDeq ++ moved ∧ (resetLoop n s).rEnq = s.rEnq ++ moved ∧
      (resetLoop n s).rDeq = s.rDeq ∧ (resetLoop n s).wEnq = s.wEnq ∧ (resetLoop n s).size = s.size := by
  induction n generalizing s with
  | zero => exact ⟨[], by simp [resetLoop]⟩
  | succ n ih =>
    unfold resetLoop
    split
    · obtain ⟨m, h1, h2, h3, h4, h5⟩ := ih _
      exact ⟨(s.wq.pop s.size).1.toList ++ m, by rw [h1]; simp, by rw [h2]; simp, h3, h4, h5⟩
    · exact ⟨[], by simp, by simp, rfl, rfl, rfl⟩

/-- **`esl_workqueue_Reset` moves every queued block to the reader's list, keeping the order**: afterwards the worker
    queue is empty and the reader queue is its old contents followed by the old worker-queue contents -/
theorem reset_spec (s s' : Sys) (h : Inv s) (ha : Admissible s .reset) (hs : step s .reset = .ok s') :
    s'.wBlocks = [] ∧ s'.rBlocks = s.rBlocks ++ s.wBlocks ∧ s'.pending = 0 := by
  have hi' := step_inv s s' .reset h ha hs
  simp only [step] at hs
  split at hs
  · cases hs
  rename_i hr
  cases hs
  obtain ⟨hi, hc, _, _⟩ := inv_resetLoop s.wq.cnt s h (by simpa using hr) ha (Nat.le_refl _)
  obtain ⟨moved, h1, h2, h3, h4, h5⟩ := resetLoop_hist s.wq.cnt s
  have hw : (resetLoop s.wq.cnt s).wBlocks = [] := by
    apply List.eq_nil_of_length_eq_zero
    have := Ring.length_blocks _ _ hi.wsome
    simp only [Sys.wBlocks]; omega
  have hmoved : moved = s.wBlocks := by
    have e1 := hi.fifoW
    rw [h4, h1, hw, List.append_nil, h.fifoW] at e1
    exact (List.append_cancel_left e1).symm
  have hrb : (resetLoop s.wq.cnt s).rBlocks = s.rBlocks ++ s.wBlocks := by
    have e2 := hi.fifoR
    rw [h2, h3, h.fifoR, List.append_assoc] at e2
    rw [← hmoved]
    exact (List.append_cancel_left e2).symm
  exact ⟨hw, hrb, rfl⟩

end EaselModel.WorkQueue
