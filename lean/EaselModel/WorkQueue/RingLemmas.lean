import EaselModel.WorkQueue.Model
import EaselModel.WorkQueue.Proj
/-! Ring-buffer lemmas: `push` appends, `pop` removes the first, `popLast` removes the last element of `contents`. -/
namespace EaselModel.WorkQueue

theorem getD_set_eq {α} (l : List α) (i : Nat) (a d : α) (h : i < l.length) : (l.set i a).getD i d = a := by
  simp [List.getD_eq_getElem?_getD, h]

theorem getD_set_ne {α} (l : List α) (i j : Nat) (a d : α) (h : i ≠ j) : (l.set i a).getD j d = l.getD j d := by
  simp [List.getD_eq_getElem?_getD, h]

/-- two offsets below `n` from the same head land on different slots -/
theorem ring_idx_ne (h n i j : Nat) (hij : i < j) (hj : j < n) : (h + i) % n ≠ (h + j) % n := by
  intro e
  have h1 := Nat.sub_mod_eq_zero_of_mod_eq e.symm
  have h2 : h + j - (h + i) = j - i := by omega
  rw [h2, Nat.mod_eq_of_lt (by omega)] at h1
  omega

/-- well-formed ring of capacity `size` -/
structure Ring.Wf (r : Ring) (size : Nat) : Prop where
  len : r.slots.length = size
  head : r.head < size
  cnt : r.cnt ≤ size

theorem Ring.wf_empty (size : Nat) (h : 0 < size) : (Ring.empty size).Wf size :=
  ⟨by simp [Ring.empty], h, by simp [Ring.empty]⟩

theorem Ring.contents_empty (size : Nat) : (Ring.empty size).contents size = [] := by
  simp [Ring.empty, Ring.contents]

theorem Ring.length_contents (r : Ring) (size : Nat) : (r.contents size).length = r.cnt := by
  simp [Ring.contents]

theorem Ring.wf_push (r : Ring) (size : Nat) (b : Option Block) (h : r.Wf size) (hc : r.cnt < size) :
    (r.push size b).Wf size :=
  ⟨by simp [Ring.push, h.len], h.head, by simp [Ring.push]; omega⟩

theorem Ring.contents_push (r : Ring) (size : Nat) (b : Option Block) (h : r.Wf size) (hc : r.cnt < size) :
    (r.push size b).contents size = r.contents size ++ [b] := by
  have hs : 0 < size := by have := h.head; omega
  simp only [Ring.contents, Ring.push, List.range_succ, List.map_append, List.map_cons, List.map_nil, Ring.get]
  congr 1
  · apply List.map_congr_left
    intro i hi
    rw [List.mem_range] at hi
    exact getD_set_ne _ _ _ _ _ (Ne.symm (ring_idx_ne _ _ _ _ hi hc))
  · rw [getD_set_eq]
    rw [h.len]; exact Nat.mod_lt _ hs

theorem Ring.wf_pop (r : Ring) (size : Nat) (h : r.Wf size) : (r.pop size).2.Wf size :=
  ⟨by simp [Ring.pop, h.len], Nat.mod_lt _ (by have := h.head; omega), by have := h.cnt; simp [Ring.pop]; omega⟩

theorem Ring.contents_pop (r : Ring) (size : Nat) (h : r.Wf size) (hc : 0 < r.cnt) :
    r.contents size = (r.pop size).1 :: (r.pop size).2.contents size := by
  have hcnt := h.cnt
  obtain ⟨c, hc'⟩ : ∃ c, r.cnt = c + 1 := ⟨r.cnt - 1, by omega⟩
  simp only [Ring.contents, Ring.pop, hc', List.range_succ_eq_map, List.map_cons, List.map_map, Ring.get,
    Nat.add_zero, Nat.add_sub_cancel]
  congr 1
  · rw [Nat.mod_eq_of_lt h.head]
  · apply List.map_congr_left
    intro i hi
    rw [List.mem_range] at hi
    simp only [Function.comp, Nat.succ_eq_add_one]
    have e : ((r.head + 1) % size + i) % size = (r.head + (i + 1)) % size := by
      rw [Nat.mod_add_mod]; congr 1; omega
    rw [e]
    have hne : r.head ≠ (r.head + (i + 1)) % size := by
      have := ring_idx_ne r.head size 0 (i + 1) (by omega) (by omega)
      rwa [Nat.add_zero, Nat.mod_eq_of_lt h.head] at this
    exact (getD_set_ne _ _ _ _ _ hne).symm

theorem Ring.wf_popLast (r : Ring) (size : Nat) (h : r.Wf size) : (r.popLast size).2.Wf size :=
  ⟨by simp [Ring.popLast, h.len], h.head, by have := h.cnt; simp [Ring.popLast]; omega⟩

theorem Ring.contents_popLast (r : Ring) (size : Nat) (h : r.Wf size) (hc : 0 < r.cnt) :
    r.contents size = (r.popLast size).2.contents size ++ [(r.popLast size).1] := by
  have hcnt := h.cnt
  obtain ⟨c, hc'⟩ : ∃ c, r.cnt = c + 1 := ⟨r.cnt - 1, by omega⟩
  simp only [Ring.contents, Ring.popLast, hc', List.range_succ, List.map_append, List.map_cons, List.map_nil,
    Ring.get, Nat.add_sub_cancel]
  have e : r.head + (c + 1) - 1 = r.head + c := by omega
  rw [e]
  congr 1
  apply List.map_congr_left
  intro i hi
  rw [List.mem_range] at hi
  exact (getD_set_ne _ _ _ _ _ (Ne.symm (ring_idx_ne _ _ _ _ hi (by omega)))).symm

/-! ### block view: every queued pointer is non-NULL -/

theorem eq_map_some_of_all_isSome (l : List (Option Block)) (h : ∀ x ∈ l, x.isSome) :
    l = (l.filterMap id).map some := by
  induction l with
  | nil => rfl
  | cons x xs ih =>
    cases x with
    | none => have := h none (by simp); simp at this
    | some y =>
      have := ih (fun x hx => h x (by simp [hx]))
      simp only [List.filterMap_cons, id, List.map_cons]
      rw [← this]

/-- all queued pointers are non-NULL: `contents = blocks.map some` -/
def Ring.AllSome (r : Ring) (size : Nat) : Prop := r.contents size = (r.blocks size).map some

theorem Ring.allSome_empty (size : Nat) : (Ring.empty size).AllSome size := by
  simp [Ring.AllSome, Ring.blocks, Ring.contents_empty]

theorem Ring.blocks_empty (size : Nat) : (Ring.empty size).blocks size = [] := by
  simp [Ring.blocks, Ring.contents_empty]

theorem Ring.length_blocks (r : Ring) (size : Nat) (h : r.AllSome size) : (r.blocks size).length = r.cnt := by
  have := congrArg List.length h
  rw [Ring.length_contents, List.length_map] at this
  exact this.symm

theorem Ring.blocks_push (r : Ring) (size : Nat) (b : Block) (h : r.Wf size) (hc : r.cnt < size) :
    (r.push size (some b)).blocks size = r.blocks size ++ [b] := by
  simp [Ring.blocks, Ring.contents_push r size (some b) h hc, List.filterMap_append]

theorem Ring.allSome_push (r : Ring) (size : Nat) (b : Block) (h : r.Wf size) (hc : r.cnt < size)
    (ha : r.AllSome size) : (r.push size (some b)).AllSome size := by
  unfold Ring.AllSome
  rw [Ring.blocks_push r size b h hc, Ring.contents_push r size (some b) h hc, ha]
  simp

/-- popping a non-empty all-non-NULL ring yields its first block -/
theorem Ring.pop_spec (r : Ring) (size : Nat) (h : r.Wf size) (hc : 0 < r.cnt) (ha : r.AllSome size) :
    ∃ b, (r.pop size).1 = some b ∧ r.blocks size = b :: (r.pop size).2.blocks size ∧ (r.pop size).2.AllSome size := by
  have hp := Ring.contents_pop r size h hc
  unfold Ring.AllSome at ha
  rw [hp] at ha
  cases hb : r.blocks size with
  | nil => rw [hb] at ha; simp at ha
  | cons b bs =>
    rw [hb] at ha
    simp only [List.map_cons, List.cons.injEq] at ha
    refine ⟨b, ha.1, ?_, ?_⟩
    · have : (r.pop size).2.blocks size = bs := by
        simp [Ring.blocks, ha.2, List.filterMap_map]
      rw [this]
    · unfold Ring.AllSome
      have : (r.pop size).2.blocks size = bs := by
        simp [Ring.blocks, ha.2, List.filterMap_map]
      rw [this, ha.2]

theorem Ring.popLast_spec (r : Ring) (size : Nat) (h : r.Wf size) (hc : 0 < r.cnt) (ha : r.AllSome size) :
    ∃ b, (r.popLast size).1 = some b ∧ r.blocks size = (r.popLast size).2.blocks size ++ [b]
      ∧ (r.popLast size).2.AllSome size := by
  have hp := Ring.contents_popLast r size h hc
  have hbl : r.blocks size = (r.popLast size).2.blocks size ++ ((r.popLast size).1).toList := by
    simp only [Ring.blocks, hp, List.filterMap_append]
    cases (r.popLast size).1 <;> simp
  have hall : ∀ x ∈ r.contents size, x.isSome := by
    rw [ha]; intro x hx; simp at hx; obtain ⟨a, _, rfl⟩ := hx; rfl
  cases hl : (r.popLast size).1 with
  | none =>
    have := hall none (by rw [hp, hl]; simp)
    simp at this
  | some b =>
    refine ⟨b, rfl, by rw [hbl, hl]; rfl, ?_⟩
    exact eq_map_some_of_all_isSome _ (fun x hx => hall x (by rw [hp]; simp [hx]))

end EaselModel.WorkQueue
