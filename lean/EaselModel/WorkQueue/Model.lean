/-! # esl_workqueue.c as a transition system (executable model, core Lean only)

State = the `ESL_WORK_QUEUE` fields (two ring buffers, `pendingWorkers`) + the two condition-variable wait sets +
the blocks held by threads + history (ghost) variables.  One `step` per mutex-protected region: from
`pthread_mutex_lock` (or the return of `pthread_cond_wait`) to `pthread_mutex_unlock` (or the next
`pthread_cond_wait`).  A wait set entry carries a flag "has been signalled since it went to sleep"; a waiting thread
may take its wake step at any time (spurious wake-ups are allowed), the flag is only used to *state* the
no-lost-wake-up theorem.

Thread ids: the reader (producer) is thread 0, workers are arbitrary other naturals - any number of workers.
Blocks are naturals (`NULL` is `none`).

`esl_workqueue_Remove` is modelled with the corrected slot index `(head + cnt - 1) % size` (DESIGN §7 item 1). -/
namespace EaselModel.WorkQueue

abbrev Block := Nat

/-- one of the two circular buffers: `xQueue[]`, `xQueueHead`, `xQueueCnt` -/
structure Ring where
  slots : List (Option Block)
  head : Nat
  cnt : Nat
deriving Repr, DecidableEq

namespace Ring
def get (r : Ring) (i : Nat) : Option Block := r.slots.getD i none

/-- `inx = (head + cnt) % size; q[inx] = ptr; ++cnt;` -/
def push (r : Ring) (size : Nat) (b : Option Block) : Ring :=
  { r with slots := r.slots.set ((r.head + r.cnt) % size) b, cnt := r.cnt + 1 }

/-- `inx = head; *out = q[inx]; q[inx] = NULL; head = (head + 1) % size; --cnt;` -/
def pop (r : Ring) (size : Nat) : Option Block × Ring :=
  (r.get r.head, { slots := r.slots.set r.head none, head := (r.head + 1) % size, cnt := r.cnt - 1 })

/-- `esl_workqueue_Remove` (corrected): `inx = (head + cnt - 1) % size; *obj = q[inx]; q[inx] = NULL; --cnt;` -/
def popLast (r : Ring) (size : Nat) : Option Block × Ring :=
  let inx := (r.head + r.cnt - 1) % size
  (r.get inx, { r with slots := r.slots.set inx none, cnt := r.cnt - 1 })

/-- the queued pointers in queue order: slots `head, head+1, …, head+cnt-1` (mod size) -/
def contents (r : Ring) (size : Nat) : List (Option Block) :=
  (List.range r.cnt).map fun i => r.get ((r.head + i) % size)

def empty (size : Nat) : Ring := { slots := List.replicate size none, head := 0, cnt := 0 }
end Ring

structure Sys where
  size : Nat
  rq : Ring                        -- readerQueue: blocks the workers have completed
  wq : Ring                        -- workerQueue: blocks ready for the workers
  pending : Int                    -- pendingWorkers (C `int`)
  rWait : Option Bool              -- reader asleep on readerQueueCond? (flag: signalled since)
  wWait : List (Nat × Bool)        -- workers asleep on workerQueueCond (id, signalled since)
  held : List (Nat × Block)        -- (thread, block) pairs: blocks owned by threads outside the queue
  -- history variables
  inited : List Block              -- every block ever handed in by esl_workqueue_Init, in order
  rEnq : List Block                -- blocks appended to the reader queue (minus those withdrawn by Remove)
  rDeq : List Block                -- blocks taken from the head of the reader queue
  wEnq : List Block
  wDeq : List Block
  got : List (Nat × Option Block)  -- (thread, pointer stored through *out / *obj), most recent first
deriving Repr

def Sys.create (size : Nat) : Sys :=
  { size := size, rq := Ring.empty size, wq := Ring.empty size, pending := 0, rWait := none, wWait := [], held := [],
    inited := [], rEnq := [], rDeq := [], wEnq := [], wDeq := [], got := [] }

inductive Label
  | init (b : Block)
  | remove
  | reset
  | complete
  | readerUpdate (inp : Option Block) (out : Bool)
  | readerWake
  | workerUpdate (w : Nat) (inp : Option Block) (out : Bool)
  | workerWake (w : Nat)
deriving Repr, DecidableEq

inductive Res
  | ok (s : Sys)
  | disabled          -- the label is not a step of this state (thread not idle / block not held by the caller)
  | overflow          -- the C code raises "queue overflow" (and returns with the mutex still locked)
deriving Repr

/-- `pthread_cond_signal(&readerQueueCond)`: at most the one reader can be waiting -/
def signalReader (s : Sys) : Sys := { s with rWait := s.rWait.map fun _ => true }

/-- `pthread_cond_broadcast(&workerQueueCond)` -/
def broadcastWorkers (s : Sys) : Sys := { s with wWait := s.wWait.map fun e => (e.1, true) }

/-- blocks added to a thread's holdings by a pointer returned through `*out` (`NULL` adds nothing) -/
def heldAdd (t : Nat) (ob : Option Block) (held : List (Nat × Block)) : List (Nat × Block) :=
  match ob with
  | some b => (t, b) :: held
  | none => held

/-- thread `t` acquires pointer `ob` through `*out` -/
def give (s : Sys) (t : Nat) (ob : Option Block) : Sys :=
  { s with held := heldAdd t ob s.held, got := (t, ob) :: s.got }

/-- append `b` to the reader queue; `if (cnt == 0) pthread_cond_signal(&readerQueueCond)` -/
def putReader (s : Sys) (b : Block) : Sys :=
  { s with rq := s.rq.push s.size (some b), rEnq := s.rEnq ++ [b],
           rWait := if s.rq.cnt = 0 then s.rWait.map (fun _ => true) else s.rWait }

/-- append `b` to the worker queue; `if (pendingWorkers != 0) pthread_cond_broadcast(&workerQueueCond)` -/
def putWorker (s : Sys) (b : Block) : Sys :=
  { s with wq := s.wq.push s.size (some b), wEnq := s.wEnq ++ [b],
           wWait := if s.pending ≠ 0 then s.wWait.map (fun e => (e.1, true)) else s.wWait }

/-- take the head of the reader queue for thread 0 -/
def takeReader (s : Sys) : Sys :=
  { s with rq := (s.rq.pop s.size).2, rDeq := s.rDeq ++ (s.rq.pop s.size).1.toList,
           held := heldAdd 0 (s.rq.pop s.size).1 s.held, got := (0, (s.rq.pop s.size).1) :: s.got }

/-- take the head of the worker queue for worker `w` -/
def takeWorker (s : Sys) (w : Nat) : Sys :=
  { s with wq := (s.wq.pop s.size).2, wDeq := s.wDeq ++ (s.wq.pop s.size).1.toList,
           held := heldAdd w (s.wq.pop s.size).1 s.held, got := (w, (s.wq.pop s.size).1) :: s.got }

/-- the `while (workerQueueCnt > 0)` loop of `esl_workqueue_Reset` (`fuel` = initial `workerQueueCnt`) -/
def resetLoop : Nat → Sys → Sys
  | 0, s => s
  | fuel + 1, s =>
    if s.wq.cnt > 0 then
      resetLoop fuel { s with rq := s.rq.push s.size (s.wq.pop s.size).1, wq := (s.wq.pop s.size).2,
                              wDeq := s.wDeq ++ (s.wq.pop s.size).1.toList,
                              rEnq := s.rEnq ++ (s.wq.pop s.size).1.toList }
    else s

def workerIdle (s : Sys) (w : Nat) : Bool := s.wWait.all fun e => e.1 != w

/-- second half of `esl_workqueue_ReaderUpdate` (`out != NULL`) -/
def readerOut (s : Sys) : Sys :=
  if s.rq.cnt = 0 then { s with rWait := some false }      -- pthread_cond_wait(&readerQueueCond, …)
  else takeReader { s with rWait := none }

/-- second half of `esl_workqueue_WorkerUpdate` (`out != NULL`), first entry -/
def workerOut (s : Sys) (w : Nat) : Sys :=
  if s.wq.cnt = 0 then { s with pending := s.pending + 1, wWait := (w, false) :: s.wWait }
  else takeWorker s w

def step (s : Sys) : Label → Res
  | .init b =>
    -- `esl_workqueue_Init` may be called by any thread - also by a controller thread while the reader is already asleep
    -- in `ReaderUpdate` on an empty queue (blocks handed in lazily): its `pthread_cond_signal` then wakes the reader
    if s.rq.cnt ≥ s.size then .overflow
    else .ok (putReader { s with inited := s.inited ++ [b] } b)
  | .remove =>
    if s.rWait.isSome then .disabled
    else if s.rq.cnt > 0 then
      .ok (give { s with rq := (s.rq.popLast s.size).2, rEnq := s.rEnq.dropLast } 0 (s.rq.popLast s.size).1)
    else .ok { s with got := (0, none) :: s.got }
  | .reset =>
    if s.rWait.isSome then .disabled
    else .ok { resetLoop s.wq.cnt s with pending := 0 }
  | .complete =>
    if s.rWait.isSome then .disabled
    else .ok (if s.pending ≠ 0 then broadcastWorkers s else s)
  | .readerUpdate inp out =>
    if s.rWait.isSome then .disabled
    else
      match inp with
      | some b =>
        if (0, b) ∈ s.held then
          if s.wq.cnt ≥ s.size then .overflow
          else
            let s1 := putWorker { s with held := s.held.erase (0, b) } b
            .ok (if out then readerOut s1 else s1)
        else .disabled
      | none => .ok (if out then readerOut s else s)
  | .readerWake =>
    if s.rWait.isSome then .ok (readerOut s) else .disabled
  | .workerUpdate w inp out =>
    if workerIdle s w then
      match inp with
      | some b =>
        if (w, b) ∈ s.held then
          if s.rq.cnt ≥ s.size then .overflow
          else
            let s1 := putReader { s with held := s.held.erase (w, b) } b
            .ok (if out then workerOut s1 w else s1)
        else .disabled
      | none => .ok (if out then workerOut s w else s)
    else .disabled
  | .workerWake w =>
    match s.wWait.find? (fun e => e.1 == w) with
    | none => .disabled
    | some e =>
      if s.wq.cnt = 0 then .ok { s with wWait := (w, false) :: s.wWait.erase e }
      else .ok (takeWorker { s with pending := s.pending - 1, wWait := s.wWait.erase e } w)

/-- run a schedule; `none` as soon as a label is not enabled or overflows -/
def run (s : Sys) : List Label → Option Sys
  | [] => some s
  | l :: ls => match step s l with
    | .ok s' => run s' ls
    | _ => none

/-! ## Observables used by the theorems and by the trace validator -/

/-- blocks in a ring in queue order (NULL slots skipped) -/
def Ring.blocks (r : Ring) (size : Nat) : List Block := (r.contents size).filterMap id

def Sys.rBlocks (s : Sys) : List Block := s.rq.blocks s.size
def Sys.wBlocks (s : Sys) : List Block := s.wq.blocks s.size

/-- every block in the system: reader queue ∪ worker queue ∪ held by threads -/
def Sys.allBlocks (s : Sys) : List Block := s.rBlocks ++ s.wBlocks ++ s.held.map (·.2)

/-- a worker asleep on `workerQueueCond` that has not been signalled since it went to sleep -/
abbrev Sys.workerAsleepUnsignalled (s : Sys) (w : Nat) : Prop := (w, false) ∈ s.wWait

/-- executable check of the invariants on one state (used on every state of an observed trace) -/
def checkState (s : Sys) : Option String :=
  if ¬ (s.rq.cnt ≤ s.size ∧ s.wq.cnt ≤ s.size) then some "counter-out-of-range"
  else if ¬ (s.rq.head < s.size ∧ s.wq.head < s.size) then some "head-out-of-range"
  else if s.pending ≠ (s.wWait.length : Int) then some "pending-mismatch"
  else if (s.rq.contents s.size).any Option.isNone ∨ (s.wq.contents s.size).any Option.isNone then some "null-in-queue"
  else if ¬ (s.allBlocks.Perm s.inited) then some "conservation"
  else if s.rEnq ≠ s.rDeq ++ s.rBlocks then some "reader-fifo"
  else if s.wEnq ≠ s.wDeq ++ s.wBlocks then some "worker-fifo"
  else if s.wq.cnt ≠ 0 ∧ s.wWait.any (fun e => !e.2) then some "lost-wakeup-worker"
  else if s.rq.cnt ≠ 0 ∧ s.rWait = some false then some "lost-wakeup-reader"
  else none

end EaselModel.WorkQueue
