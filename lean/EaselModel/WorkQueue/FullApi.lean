import EaselModel.WorkQueue.Lemmas
/-! # The work queue under the FULL API, `esl_workqueue_Reset` at any moment

`Lemmas.lean` proves the invariant `Inv` for every schedule under the caller's contract `Admissible`, which forbids `Reset` while a
worker sleeps in `WorkerUpdate` (the contract is needed: `wq_reset_while_pending_loses_wakeup`). Here the contract on `Reset` is
dropped. What `Reset` with sleepers breaks is exactly the bookkeeping of the sleepers (`pendingWorkers` is zeroed while they still
sleep); everything the property says about BLOCKS - conservation, exclusivity, FIFO on both sides, counters in range, no NULL queued,
no overflow - does not depend on it. `Sys.awake` forgets the sleepers; `CoreInv s := Inv s.awake`; every step of the full API is,
after forgetting the sleepers, a step of the contract-abiding system (`step_awake`), so `CoreInv` is inductive for every history of
`Init` (each block once, at most `size` of them), `Remove`, `Reset`, `Complete`, `ReaderUpdate`, `WorkerUpdate` and wake-ups. -/
namespace EaselModel.WorkQueue

/-- forget who sleeps on `workerQueueCond` and the `pendingWorkers` count -/
def Sys.awake (s : Sys) : Sys := { s with wWait := [], pending := 0 }

theorem Inv.awake {s : Sys} (h : Inv s) : Inv s.awake :=
  ⟨h.rwf, h.wwf, h.rsome, h.wsome, h.cons, h.nodup, h.cap, h.fifoR, h.fifoW, rfl, (by intro e he; cases he), h.nlwR⟩

theorem resetLoop_awake : ∀ (n : Nat) (s : Sys), resetLoop n s.awake = (resetLoop n s).awake
  | 0, _ => rfl
  | n + 1, s => by
    simp only [resetLoop]
    by_cases hc : s.wq.cnt > 0
    · have hc' : s.awake.wq.cnt > 0 := hc
      rw [if_pos hc, if_pos hc']
      exact resetLoop_awake n { s with rq := s.rq.push s.size (s.wq.pop s.size).1, wq := (s.wq.pop s.size).2,
                                       wDeq := s.wDeq ++ (s.wq.pop s.size).1.toList,
                                       rEnq := s.rEnq ++ (s.wq.pop s.size).1.toList }
    · have hc' : ¬ s.awake.wq.cnt > 0 := hc
      rw [if_neg hc, if_neg hc']

/-- the caller's contract that remains: a block is handed to `Init` once, at most `size` blocks -/
def AdmissibleCore (s : Sys) : Label → Prop
  | .init b => b ∉ s.inited ∧ s.inited.length < s.size
  | _ => True

/-- everything `Inv` says that is not about the sleepers -/
def CoreInv (s : Sys) : Prop := Inv s.awake

/-- a step of the full API, sleepers forgotten, is a step of the system without sleepers: the same call - or, for a sleeper that
    wakes up and takes a block, a fresh `WorkerUpdate(NULL, &out)` - or no change at all (a sleeper that goes back to sleep) -/
def okAwake (r : Res) (s' : Sys) : Prop := match r with
  | .ok t => t.awake = s'.awake
  | _ => False

theorem step_awake (s s' : Sys) (l : Label) (hs : step s l = .ok s') :
    s'.awake = s.awake ∨ ∃ l', okAwake (step s.awake l') s' ∧
      (l' = l ∨ ∃ w, l = .workerWake w ∧ l' = .workerUpdate w none true) := by
  cases l with
  | init b =>
    simp only [step] at hs
    split at hs; · cases hs
    rename_i hc
    cases hs
    have hc' : ¬ s.awake.rq.cnt ≥ s.awake.size := hc
    exact Or.inr ⟨.init b, by simp only [okAwake, step]; rw [if_neg hc']; rfl, Or.inl rfl⟩
  | remove =>
    simp only [step] at hs
    split at hs; · cases hs
    rename_i hr
    have hr' : ¬ s.awake.rWait.isSome = true := hr
    split at hs
    · rename_i hc; cases hs
      have hc' : s.awake.rq.cnt > 0 := hc
      exact Or.inr ⟨.remove, by simp only [okAwake, step]; rw [if_neg hr', if_pos hc']; rfl, Or.inl rfl⟩
    · rename_i hc; cases hs
      have hc' : ¬ s.awake.rq.cnt > 0 := hc
      exact Or.inr ⟨.remove, by simp only [okAwake, step]; rw [if_neg hr', if_neg hc']; rfl, Or.inl rfl⟩
  | reset =>
    simp only [step] at hs
    split at hs; · cases hs
    rename_i hr
    have hr' : ¬ s.awake.rWait.isSome = true := hr
    cases hs
    refine Or.inr ⟨.reset, ?_, Or.inl rfl⟩
    simp only [okAwake, step]; rw [if_neg hr']; dsimp only
    show ({ resetLoop s.wq.cnt s.awake with pending := 0 } : Sys).awake = _
    rw [resetLoop_awake]; rfl
  | complete =>
    simp only [step] at hs
    split at hs; · cases hs
    cases hs
    left
    split <;> rfl
  | readerUpdate inp out =>
    simp only [step] at hs
    split at hs; · cases hs
    rename_i hr
    have hr' : ¬ s.awake.rWait.isSome = true := hr
    cases inp with
    | none =>
      simp only at hs
      cases hs
      refine Or.inr ⟨.readerUpdate none out, ?_, Or.inl rfl⟩
      simp only [okAwake, step]; rw [if_neg hr']; dsimp only
      cases out
      · rfl
      · simp only [if_true, readerOut]
        by_cases hc : s.rq.cnt = 0
        · have hc' : s.awake.rq.cnt = 0 := hc
          rw [if_pos hc, if_pos hc']; rfl
        · have hc' : ¬ s.awake.rq.cnt = 0 := hc
          rw [if_neg hc, if_neg hc']; rfl
    | some b =>
      simp only at hs
      split at hs
      · rename_i hm
        split at hs; · cases hs
        rename_i hc
        cases hs
        have hm' : (0, b) ∈ s.awake.held := hm
        have hc' : ¬ s.awake.wq.cnt ≥ s.awake.size := hc
        refine Or.inr ⟨.readerUpdate (some b) out, ?_, Or.inl rfl⟩
        simp only [okAwake, step]; rw [if_neg hr', if_pos hm', if_neg hc']; dsimp only
        have hpw : (putWorker { s.awake with held := s.awake.held.erase (0, b) } b).awake
            = (putWorker { s with held := s.held.erase (0, b) } b).awake := rfl
        cases out
        · exact hpw
        · simp only [if_true, readerOut]
          by_cases hq : s.rq.cnt = 0
          · have h1 : (putWorker { s with held := s.held.erase (0, b) } b).rq.cnt = 0 := hq
            have h2 : (putWorker { s.awake with held := s.awake.held.erase (0, b) } b).rq.cnt = 0 := hq
            rw [if_pos h1, if_pos h2]; rfl
          · have h1 : ¬ (putWorker { s with held := s.held.erase (0, b) } b).rq.cnt = 0 := hq
            have h2 : ¬ (putWorker { s.awake with held := s.awake.held.erase (0, b) } b).rq.cnt = 0 := hq
            rw [if_neg h1, if_neg h2]; rfl
      · cases hs
  | readerWake =>
    simp only [step] at hs
    split at hs
    · rename_i hr
      cases hs
      have hr' : s.awake.rWait.isSome = true := hr
      refine Or.inr ⟨.readerWake, ?_, Or.inl rfl⟩
      simp only [okAwake, step]; rw [if_pos hr']; dsimp only
      simp only [readerOut]
      by_cases hc : s.rq.cnt = 0
      · have hc' : s.awake.rq.cnt = 0 := hc
        rw [if_pos hc, if_pos hc']; rfl
      · have hc' : ¬ s.awake.rq.cnt = 0 := hc
        rw [if_neg hc, if_neg hc']; rfl
    · cases hs
  | workerUpdate w inp out =>
    simp only [step] at hs
    split at hs
    · have hi : workerIdle s.awake w = true := rfl
      cases inp with
      | none =>
        simp only at hs
        cases hs
        refine Or.inr ⟨.workerUpdate w none out, ?_, Or.inl rfl⟩
        simp only [okAwake, step]; rw [if_pos hi]; dsimp only
        cases out
        · rfl
        · simp only [if_true, workerOut]
          by_cases hc : s.wq.cnt = 0
          · have hc' : s.awake.wq.cnt = 0 := hc
            rw [if_pos hc, if_pos hc']; rfl
          · have hc' : ¬ s.awake.wq.cnt = 0 := hc
            rw [if_neg hc, if_neg hc']; rfl
      | some b =>
        simp only at hs
        split at hs
        · rename_i hm
          split at hs; · cases hs
          rename_i hc
          cases hs
          have hm' : (w, b) ∈ s.awake.held := hm
          have hc' : ¬ s.awake.rq.cnt ≥ s.awake.size := hc
          refine Or.inr ⟨.workerUpdate w (some b) out, ?_, Or.inl rfl⟩
          simp only [okAwake, step]; rw [if_pos hi, if_pos hm', if_neg hc']; dsimp only
          cases out
          · rfl
          · simp only [if_true, workerOut]
            by_cases hq : s.wq.cnt = 0
            · have h1 : (putReader { s with held := s.held.erase (w, b) } b).wq.cnt = 0 := hq
              have h2 : (putReader { s.awake with held := s.awake.held.erase (w, b) } b).wq.cnt = 0 := hq
              rw [if_pos h1, if_pos h2]; rfl
            · have h1 : ¬ (putReader { s with held := s.held.erase (w, b) } b).wq.cnt = 0 := hq
              have h2 : ¬ (putReader { s.awake with held := s.awake.held.erase (w, b) } b).wq.cnt = 0 := hq
              rw [if_neg h1, if_neg h2]; rfl
        · cases hs
    · cases hs
  | workerWake w =>
    simp only [step] at hs
    split at hs
    · cases hs
    · rename_i e hf
      split at hs
      · cases hs; left; rfl
      · rename_i hc; cases hs
        have hi : workerIdle s.awake w = true := rfl
        have hc' : ¬ s.awake.wq.cnt = 0 := hc
        refine Or.inr ⟨.workerUpdate w none true, ?_, Or.inr ⟨w, rfl, rfl⟩⟩
        simp only [okAwake, step]; rw [if_pos hi]; dsimp only
        simp only [if_true, workerOut]
        rw [if_neg hc']; rfl

/-- `CoreInv` is inductive for the full API: only the contract on `Init` is needed -/
theorem step_coreInv (s s' : Sys) (l : Label) (h : CoreInv s) (ha : AdmissibleCore s l) (hs : step s l = .ok s') : CoreInv s' := by
  rcases step_awake s s' l hs with he | ⟨l', hok, hl⟩
  · unfold CoreInv; rw [he]; exact h
  · cases ht : step s.awake l' with
    | disabled => rw [ht] at hok; exact hok.elim
    | overflow => rw [ht] at hok; exact hok.elim
    | ok t =>
    rw [ht] at hok
    have he : t.awake = s'.awake := hok
    have hadm : Admissible s.awake l' := by
      rcases hl with rfl | ⟨w, rfl, rfl⟩
      · cases l' with
        | init b => exact ha
        | reset => rfl
        | _ => trivial
      · trivial
    have := (step_inv s.awake t l' h hadm ht).awake
    unfold CoreInv; rw [← he]; exact this


theorem resetLoop_frame : ∀ (n : Nat) (s : Sys), (resetLoop n s).wWait = s.wWait ∧ (resetLoop n s).held = s.held ∧ (resetLoop n s).pending = s.pending
  | 0, _ => ⟨rfl, rfl, rfl⟩
  | n + 1, s => by
    simp only [resetLoop]
    split
    · exact resetLoop_frame n _
    · exact ⟨rfl, rfl, rfl⟩

/-- **`Reset` in ANY state of the full API** (blocks still queued on both sides, workers asleep, the reader ring wrapped around): every
    block of the worker queue goes back to the reader's queue, behind the blocks already there, in order; only the sleepers'
    bookkeeping is the casualty (`pendingWorkers = 0` while `wWait` is unchanged - `wq_reset_while_pending_loses_wakeup`) -/
theorem reset_any (s s' : Sys) (h : CoreInv s) (hs : step s .reset = .ok s') :
    s'.wBlocks = [] ∧ s'.rBlocks = s.rBlocks ++ s.wBlocks ∧ s'.pending = 0 ∧ s'.wWait = s.wWait ∧ s'.held = s.held ∧ CoreInv s' := by
  have hci := step_coreInv s s' .reset h trivial hs
  simp only [step] at hs
  split at hs
  · cases hs
  rename_i hr
  have hr' : ¬ s.awake.rWait.isSome = true := hr
  cases hs
  have e : step s.awake .reset = .ok { resetLoop s.awake.wq.cnt s.awake with pending := 0 } := by
    simp only [step]; rw [if_neg hr']
  obtain ⟨a, b, _⟩ := reset_spec s.awake _ h rfl e
  have hl : resetLoop s.awake.wq.cnt s.awake = (resetLoop s.wq.cnt s).awake := resetLoop_awake _ _
  rw [hl] at a b
  refine ⟨a, b, rfl, ?_, ?_, hci⟩
  · exact (resetLoop_frame _ _).1
  · exact (resetLoop_frame _ _).2.1

/-- every history of the full API (`Reset` at any moment); the only contract left is the one on `Init` -/
inductive ReachableFull (size : Nat) : Sys → Prop
  | create : ReachableFull size (Sys.create size)
  | step {s s' : Sys} {l : Label} : ReachableFull size s → AdmissibleCore s l → step s l = .ok s' → ReachableFull size s'

theorem reachableFull_coreInv {size : Nat} (hs : 0 < size) {s : Sys} (h : ReachableFull size s) : CoreInv s := by
  induction h with
  | create => exact (inv_create size hs).awake
  | step _ ha hst ih => exact step_coreInv _ _ _ ih ha hst

/-- the "queue overflow" exception stays unreachable under the full API -/
theorem step_no_overflow_full (s : Sys) (l : Label) (h : CoreInv s) (ha : AdmissibleCore s l) : step s l ≠ .overflow := by
  have hcnt := h.count
  have hcap := h.cap
  have e1 : s.awake.rq.cnt = s.rq.cnt := rfl
  have e2 : s.awake.wq.cnt = s.wq.cnt := rfl
  have e3 : s.awake.held = s.held := rfl
  have e4 : s.awake.inited = s.inited := rfl
  have e5 : s.awake.size = s.size := rfl
  rw [e1, e2, e3, e4] at hcnt
  rw [e4, e5] at hcap
  cases l with
  | init b =>
    simp only [step]
    have := ha.2
    split
    · omega
    · simp
  | remove => simp only [step]; split; · simp
              split <;> simp
  | reset => simp only [step]; split <;> simp
  | complete => simp only [step]; split <;> simp
  | readerUpdate inp out =>
    simp only [step]; split; · simp
    cases inp with
    | none => simp
    | some b =>
      simp only
      split
      · rename_i hm
        have : 0 < s.held.length := List.length_pos_of_mem hm
        split
        · omega
        · simp
      · simp
  | readerWake => simp only [step]; split <;> simp
  | workerUpdate w inp out =>
    simp only [step]; split
    · cases inp with
      | none => simp
      | some b =>
        simp only
        split
        · rename_i hm
          have : 0 < s.held.length := List.length_pos_of_mem hm
          split
          · omega
          · simp
        · simp
    · simp
  | workerWake w =>
    simp only [step]
    split
    · simp
    · split <;> simp

end EaselModel.WorkQueue
