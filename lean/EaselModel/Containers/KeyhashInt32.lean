import EaselModel.Containers.KeyhashLemmas
/-! # ESL_KEYHASH at the edge of `int`: what the C arithmetic does AT the bound

`Keyhash.lean` computes in `Nat`; `KeyhashBounds.lean` shows that below `2^30 - 1` keys / arena bytes no C field overflows.
This file models the three places where the C types matter, in the C types, and says what happens at and beyond the bound:

* `while (kh->sn + n + 1 > kh->salloc) { ESL_REALLOC(kh->smem, sizeof(char) * kh->salloc * 2); kh->salloc *= 2; }`
  — `need = sn + n + 1` is 64-bit (`esl_pos_t`), the `realloc` size is `size_t`, `kh->salloc` is an `int`: the doubling is a
  signed 32-bit multiplication (`growC`);
* `if (kh->nkeys == kh->kalloc) { …; kh->kalloc *= 2; }` — the same for the index arrays (`doubleC`);
* `if (kh->nkeys > 3*kh->hashsize) key_upsize(kh)` and `kh->hashsize << 3` — `uint32_t` arithmetic, growth stops at
  `hashsize >= 2^28` ("quasi-success"): no wrap-around can change what the `Nat` model computes (`upsize_trigger_exact`,
  `upsize_shift_exact`; for `hashsize >= 2^28` `upsize` is the identity whatever the wrapped comparison says).

`guarded = true` is the code with `if (kh->salloc > INT_MAX / 2) ESL_XEXCEPTION(eslEMEM, …)` in front of the doubling. -/
namespace EaselModel.Containers.Keyhash

def INT_MAX : Nat := 2147483647

inductive GrowC where
  | ok (salloc : Nat)        -- the loop is left with this `salloc` (`need ≤ salloc`)
  | overflow (salloc : Nat)  -- `kh->salloc *= 2` is executed with this value and `2*salloc > INT_MAX`: signed overflow (UB)
  | emem (salloc : Nat)      -- guarded code: `eslEMEM` thrown, `salloc` unchanged
  | nofuel
deriving DecidableEq, Repr

/-- the arena growth loop of `esl_keyhash_Store` in C arithmetic -/
def growC (guarded : Bool) (need : Nat) : Nat → Nat → GrowC
  | 0, _ => .nofuel
  | fuel+1, s =>
    if need > s then
      if guarded && decide (s > INT_MAX / 2) then .emem s
      else if s * 2 > INT_MAX then .overflow s
      else growC guarded need fuel (s * 2)
    else .ok s

/-- the index-array doubling of `esl_keyhash_Store` in C arithmetic -/
def doubleC (guarded : Bool) (kalloc : Nat) : GrowC :=
  if guarded && decide (kalloc > INT_MAX / 2) then .emem kalloc
  else if kalloc * 2 > INT_MAX then .overflow kalloc
  else .ok (kalloc * 2)

theorem pow_step (s k : Nat) : s * 2 * 2 ^ k = s * 2 ^ (k + 1) := by
  rw [Nat.mul_assoc, Nat.pow_succ, Nat.mul_comm 2]

/-- COMPLETE DESCRIPTION of the loop, for every start value representable in `int` and every need: either some doubling
    `s·2^k ≤ INT_MAX` covers the need — then the loop ends there, with the least such `k`, without overflow — or none does, and
    then the loop reaches the last representable doubling `s·2^k < need` and executes `salloc *= 2` on it: signed overflow
    (unguarded code) / `eslEMEM` with `salloc` unchanged (guarded code) -/
theorem growC_char (g : Bool) (need : Nat) : ∀ (fuel s : Nat), 0 < s → s ≤ INT_MAX → INT_MAX < s * 2 ^ fuel →
    (∃ k, growC g need fuel s = .ok (s * 2 ^ k) ∧ need ≤ s * 2 ^ k ∧ s * 2 ^ k ≤ INT_MAX ∧ ∀ j, j < k → s * 2 ^ j < need) ∨
    (∃ k, growC g need fuel s = (if g then .emem (s * 2 ^ k) else .overflow (s * 2 ^ k)) ∧ s * 2 ^ k < need ∧
      s * 2 ^ k ≤ INT_MAX ∧ INT_MAX < s * 2 ^ (k + 1))
  | 0, s, _, h1, h2 => by simp at h2; omega
  | fuel+1, s, h0, h1, h2 => by
    by_cases hn : need > s
    · by_cases ho : s * 2 > INT_MAX
      · refine Or.inr ⟨0, ?_, by simpa using hn, by simpa using h1, by simpa using ho⟩
        have hg : s > INT_MAX / 2 := by simp only [INT_MAX] at ho ⊢; omega
        cases g
        · simp [growC, hn, ho]
        · simp [growC, hn, hg]
      · have hg : ¬ s > INT_MAX / 2 := by simp only [INT_MAX] at ho ⊢; omega
        have hrec : growC g need (fuel + 1) s = growC g need fuel (s * 2) := by
          simp [growC, hn, ho, hg]
        have h2' : INT_MAX < s * 2 * 2 ^ fuel := by rw [pow_step]; exact h2
        rcases growC_char g need fuel (s * 2) (by omega) (by omega) h2' with ⟨k, e1, e2, e3, e4⟩ | ⟨k, e1, e2, e3, e4⟩
        · refine Or.inl ⟨k + 1, ?_, ?_, ?_, fun j hj => ?_⟩
          · rw [hrec, e1, pow_step]
          · rw [← pow_step]; exact e2
          · rw [← pow_step]; exact e3
          · cases j with
            | zero => simpa using hn
            | succ j => rw [← pow_step]; exact e4 j (by omega)
        · refine Or.inr ⟨k + 1, ?_, ?_, ?_, ?_⟩
          · rw [hrec, e1, pow_step]
          · rw [← pow_step]; exact e2
          · rw [← pow_step]; exact e3
          · rw [← pow_step]; exact e4
    · exact Or.inl ⟨0, by simp [growC, hn], by simp; omega, by simpa using h1, fun j hj => by omega⟩

/-- wherever the C loop ends without overflow it ends where the `Nat` model ends -/
theorem growC_ok_model (g : Bool) (need : Nat) : ∀ (fuel s r : Nat), growC g need fuel s = .ok r → growTo need fuel s = some r
  | 0, s, r, h => by simp [growC] at h
  | fuel+1, s, r, h => by
    by_cases hn : need > s
    · have hle : ¬ need ≤ s := by omega
      simp only [growC, hn, ↓reduceIte] at h
      simp only [growTo, hle, ↓reduceIte]
      split at h
      · cases h
      · split at h
        · cases h
        · rw [Nat.mul_comm]; exact growC_ok_model g need fuel (s * 2) r h
    · have hle : need ≤ s := by omega
      simp only [growC, hn, ↓reduceIte] at h
      cases h
      simp [growTo, hle]


/-- if SOME doubling representable in `int` covers the need, the C loop never overflows (and never throws), and ends where the
    `Nat` model ends -/
theorem growC_ok_of_fits (g : Bool) (need s : Nat) (h0 : 0 < s) (h1 : s ≤ INT_MAX)
    (hfit : ∃ k, need ≤ s * 2 ^ k ∧ s * 2 ^ k ≤ INT_MAX) :
    ∃ r, growC g need 32 s = .ok r ∧ growTo need 32 s = some r ∧ need ≤ r ∧ r ≤ INT_MAX := by
  have hbig : INT_MAX < s * 2 ^ 32 := by
    have : 2 ^ 32 ≤ s * 2 ^ 32 := Nat.le_mul_of_pos_left _ h0
    simp only [INT_MAX]; omega
  rcases growC_char g need 32 s h0 h1 hbig with ⟨k, e1, e2, e3, _⟩ | ⟨k', _, e2, _, e4⟩
  · exact ⟨_, e1, growC_ok_model g need 32 s _ e1, e2, e3⟩
  · exfalso
    obtain ⟨k, f1, f2⟩ := hfit
    have hlt : s * 2 ^ k' < s * 2 ^ k := by omega
    have hpow : 2 ^ k' < 2 ^ k := Nat.lt_of_mul_lt_mul_left hlt
    have hk : k' < k := (Nat.pow_lt_pow_iff_right (by omega)).mp hpow
    have hle : 2 ^ (k' + 1) ≤ 2 ^ k := Nat.pow_le_pow_right (by omega) hk
    have := Nat.mul_le_mul_left s hle
    omega

/-- the index-array doubling: exact below `2^30`, overflow / `eslEMEM` from `2^30` on -/
theorem doubleC_char (g : Bool) (kalloc : Nat) :
    (kalloc * 2 ≤ INT_MAX → doubleC g kalloc = .ok (kalloc * 2)) ∧
    (INT_MAX < kalloc * 2 → doubleC g kalloc = if g then .emem kalloc else .overflow kalloc) := by
  constructor
  · intro h
    have hg : ¬ kalloc > INT_MAX / 2 := by simp only [INT_MAX] at h ⊢; omega
    have ho : ¬ kalloc * 2 > INT_MAX := by omega
    simp [doubleC, hg, ho]
  · intro h
    have hg : kalloc > INT_MAX / 2 := by simp only [INT_MAX] at h ⊢; omega
    cases g
    · simp [doubleC, h]
    · simp [doubleC, hg]


/-- the guarded code never executes an overflowing doubling: whatever the start value and the need, the loop ends with a
    covering `salloc` or throws `eslEMEM` -/
theorem growC_guarded_no_overflow (need : Nat) : ∀ (fuel s r : Nat), growC true need fuel s ≠ .overflow r
  | 0, _, _ => by simp [growC]
  | fuel+1, s, r => by
    simp only [growC, Bool.true_and]
    by_cases hn : need > s
    · by_cases hg : s > INT_MAX / 2
      · simp [hn, hg]
      · have ho : ¬ s * 2 > INT_MAX := by simp only [INT_MAX] at hg ⊢; omega
        simp only [hn, hg, ho, ↓reduceIte, decide_false, Bool.false_eq_true]
        exact growC_guarded_no_overflow need fuel (s * 2) r
    · simp [hn]

theorem doubleC_guarded_no_overflow (kalloc r : Nat) : doubleC true kalloc ≠ .overflow r := by
  by_cases hg : kalloc > INT_MAX / 2
  · simp [doubleC, hg]
  · have ho : ¬ kalloc * 2 > INT_MAX := by simp only [INT_MAX] at hg ⊢; omega
    simp [doubleC, hg, ho]

/-- `3*kh->hashsize` in `uint32_t`: below the growth stop (`hashsize < 2^28`) it does not wrap, so the test
    `nkeys > 3*hashsize` is the one the `Nat` model evaluates -/
theorem upsize_trigger_exact (h : UInt32) (hh : h.toNat < 2 ^ 28) : (3 * h).toNat = 3 * h.toNat := by
  rw [UInt32.toNat_mul]
  have : (3 : UInt32).toNat = 3 := rfl
  rw [this]
  exact Nat.mod_eq_of_lt (by omega)

/-- `kh->hashsize << 3` in `uint32_t` below the growth stop is `8 * hashsize` (`< 2^31`) -/
theorem upsize_shift_exact (h : UInt32) (hh : h.toNat < 2 ^ 28) : (h <<< 3).toNat = 8 * h.toNat ∧ 8 * h.toNat < 2 ^ 31 := by
  refine ⟨?_, by omega⟩
  rw [UInt32.toNat_shiftLeft]
  have : (3 : UInt32).toNat % 32 = 3 := rfl
  rw [this, Nat.shiftLeft_eq]
  rw [Nat.mod_eq_of_lt (by omega)]
  omega

/-- at and beyond the stop the table is not grown any more, whatever the (possibly wrapped) comparison says -/
theorem upsize_stops (H : Key → Nat → Nat) (kh : KH) (h : 2 ^ 28 ≤ kh.hashsize) : upsize H kh = some kh := by
  simp [upsize, h]

end EaselModel.Containers.Keyhash
