import EaselModel.Containers.Stack
/-! Lemmas about the stack model: LIFO, discards, shuffle keeps the multiset, no faults. -/
namespace EaselModel.Containers.Stack
open EaselModel.Random
variable {α : Type}

/-- allocation invariant: `n ≤ nalloc`, `nalloc > 0` -/
def Inv (s : Stack α) : Prop := s.data.size ≤ s.nalloc ∧ 0 < s.nalloc

theorem inv_create : Inv (create : Stack α) := by simp [Inv, create]

theorem push_spec (s : Stack α) (x : α) (h : Inv s) :
    ∃ s', push s x = some s' ∧ Inv s' ∧ s'.data = s.data.push x := by
  obtain ⟨h1, h2⟩ := h
  unfold push
  by_cases he : s.data.size = s.nalloc
  · have e : (s.data.size == s.nalloc) = true := by simpa using he
    simp only [e, ↓reduceIte]
    have hlt : s.data.size < s.nalloc + s.nalloc := by omega
    simp only [hlt, ↓reduceIte]
    refine ⟨_, rfl, ?_, rfl⟩
    simp only [Inv, Array.size_push]; omega
  · have e : (s.data.size == s.nalloc) = false := by simpa using he
    simp only [e]
    have hlt : s.data.size < s.nalloc := by omega
    simp only [Bool.false_eq_true, ↓reduceIte, hlt]
    refine ⟨_, rfl, ?_, rfl⟩
    simp only [Inv, Array.size_push]; omega

theorem pop_push (s s' : Stack α) (x : α) (h : s'.data = s.data.push x) :
    pop s' = ({ s' with data := s.data }, some x) := by
  unfold pop
  simp [h]

theorem pop_empty (s : Stack α) (h : s.data.size = 0) : pop s = (s, none) := by
  unfold pop
  have : s.data = #[] := Array.eq_empty_of_size_eq_zero h
  simp [this]

theorem pop_inv (s : Stack α) (h : Inv s) : Inv (pop s).1 := by
  unfold pop
  cases hb : s.data.back? with
  | none => simpa using h
  | some x => simp only [Inv, Array.size_pop] at *; omega

theorem pushAll_spec (s : Stack α) (xs : List α) (h : Inv s) :
    ∃ s', pushAll s xs = some s' ∧ Inv s' ∧ s'.data = s.data ++ xs.toArray := by
  induction xs generalizing s with
  | nil => exact ⟨s, rfl, h, by simp⟩
  | cons x xs ih =>
    obtain ⟨s1, h1, hi1, hd1⟩ := push_spec s x h
    obtain ⟨s2, h2, hi2, hd2⟩ := ih s1 hi1
    refine ⟨s2, ?_, hi2, ?_⟩
    · simp [pushAll, h1, h2]
    · rw [hd2, hd1]; simp

/-- LIFO: popping everything after pushing `xs` returns `xs` reversed, then the older content -/
theorem popAll_pushAll (s s' : Stack α) (xs : List α) (h : s'.data = s.data ++ xs.toArray) :
    popAll s' = xs.reverse ++ popAll s := by
  simp [popAll, h]

/-- `popAll` is what repeated `pop` returns -/
theorem popAll_cons_of_pop (s : Stack α) (x : α) (s' : Stack α) (h : pop s = (s', some x)) :
    popAll s = x :: popAll s' := by
  unfold pop at h
  cases hb : s.data.back? with
  | none => simp [hb] at h
  | some y =>
    simp only [hb, Prod.mk.injEq, Option.some.injEq] at h
    obtain ⟨h1, h2⟩ := h
    subst h2
    rw [← h1]
    simp only [popAll]
    have h2 : s.data.toList.getLast? = some y := by simpa using hb
    obtain ⟨ys, hys⟩ := List.getLast?_eq_some_iff.mp h2
    simp only [Array.toList_pop, hys, List.dropLast_concat]
    simp

theorem popAll_nil_of_pop (s : Stack α) (s' : Stack α) (h : pop s = (s', none)) : popAll s = [] ∧ s' = s := by
  unfold pop at h
  cases hb : s.data.back? with
  | none =>
    simp only [hb, Prod.mk.injEq, and_true] at h
    have : s.data = #[] := by simpa using hb
    subst h
    simp [popAll, this]
  | some y => simp [hb] at h

theorem discardTopN_toList (s : Stack α) (n : Nat) :
    (discardTopN s n).data.toList = s.data.toList.take (s.data.size - n) := by
  unfold discardTopN
  split
  · simp
  · have : s.data.size - n = 0 := by omega
    simp [this]

/-- loop invariant of the compaction -/
theorem discardLoop_spec (discard : α → Bool) (todo : Nat) (d : Array α) (opos npos : Nat) (orig : List α)
    (hsz : d.size = orig.length) (hle : npos ≤ opos) (hto : opos + todo = d.size)
    (hkept : (d.toList.take npos) = (orig.take opos).filter (fun x => !discard x))
    (hrest : d.toList.drop opos = orig.drop opos) :
    ∃ d' npos', discardLoop discard todo d opos npos = some (d', npos') ∧ d'.size = d.size ∧
      d'.toList.take npos' = orig.filter (fun x => !discard x) := by
  induction todo generalizing d opos npos with
  | zero =>
    refine ⟨d, npos, rfl, rfl, ?_⟩
    have : opos = orig.length := by omega
    rw [hkept, this, List.take_length]
  | succ todo ih =>
    have hop : opos < d.size := by omega
    have hx : d[opos]? = some d[opos] := Array.getElem?_eq_getElem hop
    have hox : orig[opos]? = some d[opos] := by
      have := congrArg (fun l => l[0]?) hrest
      simp only [List.getElem?_drop, Nat.add_zero] at this
      rw [← this]; simp [hop]
    have hopo : opos < orig.length := by omega
    have htake : orig.take (opos+1) = orig.take opos ++ [d[opos]] := by
      rw [List.take_add_one, hox]; rfl
    simp only [discardLoop, hx]
    by_cases hdx : discard d[opos] = true
    · simp only [hdx, ↓reduceIte]
      apply ih d (opos+1) npos hsz (by omega) (by omega)
      · rw [hkept, htake, List.filter_append]; simp [hdx]
      · rw [← List.drop_drop, hrest, List.drop_drop]
    · have hdx' : discard d[opos] = false := by simpa using hdx
      simp only [hdx', Bool.false_eq_true, ↓reduceIte]
      have hnp : npos < d.size := by omega
      simp only [hnp, ↓reduceIte]
      obtain ⟨d', npos', h1, h2, h3⟩ := ih (d.set! npos d[opos]) (opos+1) (npos+1) (by simpa using hsz) (by omega)
        (by simp; omega)
        (by
          rw [htake, List.filter_append]
          simp only [hdx', Bool.not_false, List.filter_cons_of_pos, List.filter_nil]
          rw [← hkept]
          simp only [Array.set!_eq_setIfInBounds, Array.toList_setIfInBounds]
          rw [List.take_add_one]
          simp [List.take_set_of_le, hnp])
        (by
          simp only [Array.set!_eq_setIfInBounds, Array.toList_setIfInBounds]
          rw [List.drop_set_of_lt (by omega), ← List.drop_drop, hrest, List.drop_drop])
      exact ⟨d', npos', h1, by simpa using h2, h3⟩

/-- `esl_stack_DiscardSelected` never faults and keeps exactly the elements not selected, in order -/
theorem discardSelected_spec (s : Stack α) (discard : α → Bool) :
    ∃ s', discardSelected s discard = some s' ∧ s'.nalloc = s.nalloc ∧
      s'.data.toList = s.data.toList.filter (fun x => !discard x) := by
  obtain ⟨d', npos', h1, h2, h3⟩ := discardLoop_spec discard s.data.size s.data 0 0 s.data.toList
    (by simp) (by omega) (by omega) (by simp) (by simp)
  refine ⟨{ s with data := d'.extract 0 npos' }, ?_, rfl, ?_⟩
  · simp [discardSelected, h1]
  · simp [Array.toList_extract, h3]

theorem perm_cons_set (t : List α) (j : Nat) (a y : α) (h : t[j]? = some y) : (y :: t.set j a).Perm (a :: t) := by
  induction t generalizing j with
  | nil => simp at h
  | cons b t ih =>
    cases j with
    | zero =>
      simp at h; subst h
      exact List.Perm.swap _ _ _
    | succ j =>
      simp at h
      have := ih j h
      simp only [List.set_cons_succ]
      exact (List.Perm.swap _ _ _).trans ((this.cons b).trans (List.Perm.swap _ _ _))

/-- swapping two positions of a list is a permutation -/
theorem swap_perm (l : List α) (i j : Nat) (x y : α) (hx : l[i]? = some x) (hy : l[j]? = some y) :
    ((l.set i y).set j x).Perm l := by
  induction l generalizing i j with
  | nil => simp at hx
  | cons a t ih =>
    cases i with
    | zero =>
      simp at hx; subst hx
      cases j with
      | zero => simp at hy; subst hy; simp
      | succ j =>
        simp at hy
        simp only [List.set_cons_zero, List.set_cons_succ]
        exact perm_cons_set t j _ y hy
    | succ i =>
      simp at hx
      cases j with
      | zero =>
        simp at hy; subst hy
        simp only [List.set_cons_zero, List.set_cons_succ]
        exact perm_cons_set t i _ x hx
      | succ j =>
        simp at hy
        simp only [List.set_cons_succ]
        exact (ih i j hx hy).cons a

theorem swapAt_perm (d d' : Array α) (i j : Nat) (h : swapAt d i j = some d') :
    d'.toList.Perm d.toList ∧ d'.size = d.size := by
  unfold swapAt at h
  cases hi : d[i]? with
  | none => simp [hi] at h
  | some x =>
    cases hj : d[j]? with
    | none => simp [hi, hj] at h
    | some y =>
      simp only [hi, hj, Option.some.injEq] at h
      subst h
      refine ⟨?_, by simp⟩
      simp only [Array.set!_eq_setIfInBounds, Array.toList_setIfInBounds]
      exact swap_perm d.toList i j x y (by simpa using hi) (by simpa using hj)

/-- `esl_stack_Shuffle` keeps the multiset, for every generator state; the only way the model does not return is the
    rejection loop of `esl_rnd_Roll` exhausting its fuel (or a Roll outside `0..n-1`, excluded by `roll_lt` in C09) -/
theorem shuffleLoop_perm (rollFuel n : Nat) (r : Rng) (d d' : Array α) (r' : Rng)
    (h : shuffleLoop rollFuel n r d = some (d', r')) : d'.toList.Perm d.toList ∧ d'.size = d.size := by
  induction n generalizing r d with
  | zero =>
    simp only [shuffleLoop, Option.some.injEq, Prod.mk.injEq] at h
    obtain ⟨rfl, _⟩ := h; exact ⟨List.Perm.refl _, rfl⟩
  | succ n ih =>
    cases n with
    | zero =>
      have h : some (d, r) = some (d', r') := h
      simp only [Option.some.injEq, Prod.mk.injEq] at h
      obtain ⟨rfl, _⟩ := h; exact ⟨List.Perm.refl _, rfl⟩
    | succ n =>
      simp only [shuffleLoop] at h
      cases hroll : r.roll (n + 1 + 1) rollFuel with
      | none => simp [hroll] at h
      | some wr =>
        obtain ⟨w, r1⟩ := wr
        simp only [hroll] at h
        cases hs : swapAt d w (n + 1) with
        | none => simp [hs] at h
        | some d1 =>
          simp only [hs] at h
          obtain ⟨p1, s1⟩ := swapAt_perm _ _ _ _ hs
          obtain ⟨p2, s2⟩ := ih r1 d1 h
          exact ⟨p2.trans p1, s2.trans s1⟩

theorem shuffle_perm (rollFuel : Nat) (r r' : Rng) (s s' : Stack α) (h : shuffle rollFuel r s = some (s', r')) :
    s'.data.toList.Perm s.data.toList ∧ s'.nalloc = s.nalloc := by
  unfold shuffle at h
  split at h
  · cases h
  · rename_i d r1 hl
    simp only [Option.some.injEq, Prod.mk.injEq] at h
    obtain ⟨rfl, _⟩ := h
    exact ⟨(shuffleLoop_perm _ _ _ _ _ _ hl).1, rfl⟩

theorem convert2String_eq (s : Stack UInt8) (h : (0 : UInt8) ∉ s.data.toList) : convert2String s = s.data.toList := by
  unfold convert2String
  generalize s.data.toList = l at h
  induction l with
  | nil => rfl
  | cons a t ih =>
    have ha : a ≠ 0 := by intro h0; subst h0; exact h (by simp)
    have ht : (0 : UInt8) ∉ t := by intro h0; exact h (by simp [h0])
    simp [List.takeWhile_cons, ha, ih ht]

end EaselModel.Containers.Stack
