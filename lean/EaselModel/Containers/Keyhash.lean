/-! # esl_keyhash.c — executable model (core Lean only)

Mirrors `keyhash_create`, `esl_keyhash_Store`, `esl_keyhash_Lookup`, `esl_keyhash_Get`, `esl_keyhash_Reuse`,
`esl_keyhash_Clone`, `key_upsize`, `jenkins_hash`, and `esl_memstrcmp` as used there.

* `hashtable[]` / `nxt[]` hold key indices with the sentinel `-1`; here `Option Nat` (`none` = `-1`).
* `smem` is the key arena; the model keeps exactly its used part `smem[0..sn)` (so `sn = smem.size`); reading at or
  beyond `sn`, writing beyond `salloc`, indexing `key_offset/nxt` beyond `kalloc` or `hashtable` beyond `hashsize`
  is the outcome `none` (= fault).
* every function is generic in the hash function `H key hashsize`; `jenkins` is the instance used by the driver.
-/
namespace EaselModel.Containers.Keyhash

abbrev Key := List UInt8

/-! ## jenkins_hash (C `char` is signed on this platform: `val += *key` adds a sign-extended byte) -/
def sext (c : UInt8) : UInt32 :=
  if c < 0x80 then c.toUInt32 else c.toUInt32 + (0xFFFFFF00 : UInt32)

def jenkinsStep (val : UInt32) (c : UInt8) : UInt32 :=
  let v := val + sext c
  let v := v + (v <<< 10)
  v ^^^ (v >>> 6)

def jenkinsFinal (v : UInt32) : UInt32 :=
  let v := v + (v <<< 3)
  let v := v ^^^ (v >>> 11)
  v + (v <<< 15)

/-- `jenkins_hash(key, n, hashsize)`, buffer version; the string version is this applied to the bytes before the NUL -/
def jenkins (key : Key) (hashsize : Nat) : Nat :=
  (jenkinsFinal (key.foldl jenkinsStep 0)).toNat &&& (hashsize - 1)

/-! ## the object -/
structure KH where
  hashtable : Array (Option Nat)
  hashsize : Nat
  keyOffset : Array Nat
  nxt : Array (Option Nat)
  nkeys : Nat
  kalloc : Nat
  smem : Array UInt8
  salloc : Nat
deriving Repr

instance : Inhabited KH := ⟨⟨#[], 0, #[], #[], 0, 0, #[], 0⟩⟩

/-- `keyhash_create(hashsize, init_key_alloc, init_string_alloc)` -/
def create (hashsize kalloc salloc : Nat) : KH :=
  { hashtable := Array.replicate hashsize none, hashsize := hashsize,
    keyOffset := Array.replicate kalloc 0, nxt := Array.replicate kalloc none,
    nkeys := 0, kalloc := kalloc, smem := #[], salloc := salloc }

/-- read bytes from `pos` up to (not including) the first NUL; `none`: ran off the used arena -/
def cstrLoop (m : Array UInt8) : Nat → Nat → Option Key
  | 0, _ => none
  | f+1, pos =>
    match m[pos]? with
    | none => none
    | some c => if c == 0 then some [] else (cstrLoop m f (pos+1)).map (c :: ·)

/-- the NUL-terminated string starting at `smem + off` (`none`: runs off the used arena) -/
def cstrAt (m : Array UInt8) (off : Nat) : Option Key := cstrLoop m (m.size - off) off

/-- `esl_memstrcmp(p, n, smem+pos)` with `p` non-NULL:
    `for (pos = 0; pos < n && s[pos] != 0; pos++) if (p[pos] != s[pos]) return FALSE;`
    `if (pos != n) return FALSE; if (s[pos] != 0) return FALSE; return TRUE;` -/
def memstrcmpAt : Key → Array UInt8 → Nat → Option Bool
  | [], m, pos => m[pos]?.map (· == 0)
  | c :: rest, m, pos =>
    match m[pos]? with
    | none => none
    | some s =>
      if s == 0 then some false
      else if c != s then some false
      else memstrcmpAt rest m (pos+1)

/-- `for (idx = start; idx != -1; idx = nxt[idx]) if (esl_memstrcmp(key, n, smem + key_offset[idx])) return idx;`
    outer `none` = fault (index out of bounds, or the fuel — the number of keys — ran out: a cyclic chain) -/
def walk (kh : KH) (key : Key) : Nat → Option Nat → Option (Option Nat)
  | _, none => some none
  | 0, some _ => none
  | f+1, some idx =>
    match kh.keyOffset[idx]? with
    | none => none
    | some off =>
      match memstrcmpAt key kh.smem off with
      | none => none
      | some true => some (some idx)
      | some false =>
        match kh.nxt[idx]? with
        | none => none
        | some nx => walk kh key f nx

/-- `while (need > salloc) salloc *= 2;` -/
def growTo (need : Nat) : Nat → Nat → Option Nat
  | 0, a => if need ≤ a then some a else none
  | f+1, a => if need ≤ a then some a else growTo need f (2*a)

/-- one iteration of the re-store loop of `key_upsize` -/
def rehashStep (H : Key → Nat → Nat) (kh : KH) (i : Nat) : Option KH :=
  match kh.keyOffset[i]? with
  | none => none
  | some off =>
    match cstrAt kh.smem off with
    | none => none
    | some k =>
      let val := H k kh.hashsize
      match kh.hashtable[val]? with
      | none => none
      | some head =>
        if i < kh.nxt.size then
          some { kh with nxt := kh.nxt.set! i head, hashtable := kh.hashtable.set! val (some i) }
        else none

def rehashLoop (H : Key → Nat → Nat) : Nat → Nat → KH → Option KH
  | 0, _, kh => some kh
  | c+1, i, kh =>
    match rehashStep H kh i with
    | none => none
    | some kh' => rehashLoop H c (i+1) kh'

/-- `key_upsize` -/
def upsize (H : Key → Nat → Nat) (kh : KH) : Option KH :=
  if kh.hashsize ≥ 2^28 then some kh
  else
    let size := kh.hashsize * 8
    rehashLoop H kh.nkeys 0 { kh with hashsize := size, hashtable := Array.replicate size none }

inductive Status | ok | edup | enotfound
deriving DecidableEq, Repr

/-- `esl_keyhash_Store(kh, key, n, &idx)` with `n = key.length` -/
def store (H : Key → Nat → Nat) (kh : KH) (key : Key) : Option (KH × Status × Nat) :=
  let val := H key kh.hashsize
  match kh.hashtable[val]? with
  | none => none
  | some head =>
    match walk kh key kh.nkeys head with
    | none => none
    | some (some idx) => some (kh, .edup, idx)
    | some none =>
      -- reallocate key ptr/index memory if needed
      let kh := if kh.nkeys == kh.kalloc then
          { kh with keyOffset := kh.keyOffset ++ Array.replicate kh.kalloc 0,
                    nxt := kh.nxt ++ Array.replicate kh.kalloc none, kalloc := kh.kalloc * 2 }
        else kh
      -- reallocate key string memory if needed
      let need := kh.smem.size + key.length + 1
      match growTo need need kh.salloc with
      | none => none
      | some salloc =>
        let idx := kh.nkeys
        if ¬ (idx < kh.keyOffset.size ∧ idx < kh.nxt.size ∧ need ≤ salloc) then none
        else
          let kh := { kh with salloc := salloc, keyOffset := kh.keyOffset.set! idx kh.smem.size,
                              smem := kh.smem ++ key.toArray ++ #[0], nkeys := kh.nkeys + 1 }
          let kh := { kh with nxt := kh.nxt.set! idx head, hashtable := kh.hashtable.set! val (some idx) }
          if kh.nkeys > 3 * kh.hashsize then
            match upsize H kh with
            | none => none
            | some kh' => some (kh', .ok, idx)
          else some (kh, .ok, idx)

/-- `esl_keyhash_Lookup(kh, key, n, &idx)`; the index is meaningful for `.ok` (C sets -1 otherwise) -/
def lookup (H : Key → Nat → Nat) (kh : KH) (key : Key) : Option (Status × Nat) :=
  let val := H key kh.hashsize
  match kh.hashtable[val]? with
  | none => none
  | some head =>
    match walk kh key kh.nkeys head with
    | none => none
    | some (some idx) => some (.ok, idx)
    | some none => some (.enotfound, 0)

/-- `esl_keyhash_Get(kh, idx)` read as a C string (precondition of the C code: `idx < nkeys`) -/
def get (kh : KH) (idx : Nat) : Option Key :=
  if idx < kh.nkeys then
    match kh.keyOffset[idx]? with
    | none => none
    | some off => cstrAt kh.smem off
  else none

/-- `esl_keyhash_Reuse` -/
def reuse (kh : KH) : KH :=
  { kh with hashtable := Array.replicate kh.hashsize none, nkeys := 0, smem := #[] }

/-- `esl_keyhash_Clone`: a fresh object of the same allocation; hashtable copied, `nxt`/`key_offset` copied for
    `0..nkeys-1` only, arena copied for `0..sn-1` -/
def clone (kh : KH) : KH :=
  let nw := create kh.hashsize kh.kalloc kh.salloc
  { nw with hashtable := kh.hashtable,
            nxt := (kh.nxt.extract 0 kh.nkeys) ++ (nw.nxt.extract kh.nkeys nw.nxt.size),
            keyOffset := (kh.keyOffset.extract 0 kh.nkeys) ++ (nw.keyOffset.extract kh.nkeys nw.keyOffset.size),
            nkeys := kh.nkeys, smem := kh.smem }

/-! ## operation histories -/
/-- the C-string view of a key argument passed with `n = -1`: the bytes before the first NUL -/
def cstrOf (k : Key) : Key := k.takeWhile (· != 0)

/-- `store`/`lookup`: the buffer API (`key`, `n = key.length`); `storeStr`/`lookupStr`: the string API (`n = -1`), where
    `jenkins_hash` runs its string loop, `n = strlen(key)`, and `Lookup` compares with `strcmp` -/
inductive Op
  | store (k : Key) | lookup (k : Key) | get (i : Nat) | number | reuse | clone
  | storeStr (k : Key) | lookupStr (k : Key)
deriving Repr

inductive Out
  | stored (dup : Bool) (idx : Nat) | found (idx : Nat) | notfound | key (k : Key) | num (n : Nat) | done
deriving DecidableEq, Repr

/-- one operation; `none` = fault -/
def step (H : Key → Nat → Nat) (kh : KH) : Op → Option (KH × Out)
  | .store k => (store H kh k).map fun (kh', st, idx) => (kh', .stored (st == .edup) idx)
  | .lookup k => (lookup H kh k).map fun (st, idx) => (kh, if st == .ok then .found idx else .notfound)
  | .get i => (get kh i).map fun k => (kh, .key k)
  | .number => some (kh, .num kh.nkeys)
  | .reuse => some (reuse kh, .done)
  | .clone => some (clone kh, .done)
  | .storeStr k => (store H kh (cstrOf k)).map fun (kh', st, idx) => (kh', .stored (st == .edup) idx)
  | .lookupStr k => (lookup H kh (cstrOf k)).map fun (st, idx) => (kh, if st == .ok then .found idx else .notfound)

def run (H : Key → Nat → Nat) : KH → List Op → Option (List Out)
  | _, [] => some []
  | kh, op :: rest =>
    match step H kh op with
    | none => none
    | some (kh', o) => (run H kh' rest).map (o :: ·)

/-! ## the abstract type: an insertion-ordered list of distinct keys -/
def specStep (keys : List Key) : Op → Option (List Key × Out)
  | .store k => if k ∈ keys then some (keys, .stored true (keys.idxOf k)) else some (keys ++ [k], .stored false keys.length)
  | .lookup k => if k ∈ keys then some (keys, .found (keys.idxOf k)) else some (keys, .notfound)
  | .get i => (keys[i]?).map fun k => (keys, .key k)      -- `Get` is specified for stored indices only
  | .number => some (keys, .num keys.length)
  | .reuse => some ([], .done)
  | .clone => some (keys, .done)
  | .storeStr k =>
    let k := cstrOf k
    if k ∈ keys then some (keys, .stored true (keys.idxOf k)) else some (keys ++ [k], .stored false keys.length)
  | .lookupStr k =>
    let k := cstrOf k
    if k ∈ keys then some (keys, .found (keys.idxOf k)) else some (keys, .notfound)

def specRun : List Key → List Op → Option (List Out)
  | _, [] => some []
  | keys, op :: rest =>
    match specStep keys op with
    | none => none
    | some (keys', o) => (specRun keys' rest).map (o :: ·)

end EaselModel.Containers.Keyhash
