/-! # esl_red_black.c — executable model (core Lean only)

The pointer structure (`small`, `large`, `parent`, `color`) is an inductive tree; the `parent` chain that
`esl_red_black_doublekey_insert` walks down and `esl_red_black_doublekey_rebalance` walks back up is the recursion
stack of `ins`. The result type `Res` carries exactly the decisions the C code takes on the way up:

* `check t`  — `t`'s root is the red `node` (freshly linked, or a grand-parent just recoloured red); the caller
               (its parent) tests `parent->color == RED` and, if so, `rebalance(tree, node)` is entered;
* `viol t s` — `t`'s root is the red `parent` and its `s`-child is the red `node`: we are inside `rebalance`, the
               caller is the `grandparent` and looks at the uncle's colour (recolour / one of the four rotations);
* `done t`   — nothing more to do above; `dup` — equal key found (the C function returns NULL, tree unchanged).
At the root: `check` ⇒ `grandparent->parent == NULL` ⇒ recolour black (also the empty-tree case);
`viol` at the root is the `esl_fatal("… parent was both red and graph root")` branch (`fatal`).
Keys are any type with decidable `<` (the C keys are doubles; the harness uses integer-valued doubles). -/
namespace EaselModel.Containers.RedBlack

inductive Color | red | black
deriving DecidableEq, Repr

inductive Tree (α : Type) where
  | nil
  | node (c : Color) (small : Tree α) (key : α) (large : Tree α)
deriving Repr

inductive Side | small | large
deriving DecidableEq, Repr

inductive Res (α : Type) where
  | dup
  | done (t : Tree α)
  | check (t : Tree α)
  | viol (t : Tree α) (s : Side)
  | fatal

namespace Tree
variable {α : Type}

def color : Tree α → Color
  | nil => .black           -- "Null parent-sibling counts as black"
  | node c _ _ _ => c

def setColor (c : Color) : Tree α → Tree α
  | nil => nil
  | node _ a x b => node c a x b

/-- the uncle-is-black branch of `rebalance`: `g` (grandparent, colour irrelevant: it is set to red),
    `p` = child of `g` on side `sp` (set red or black as the code does), `n` = child of `p` on side `sn`. -/
def rotate (gsmall : Tree α) (gkey : α) (glarge : Tree α) (sp sn : Side) : Option (Tree α) :=
  match sp, sn with
  | .small, .small =>
    -- parent small of grandparent, node small of parent: parent becomes the subtree root
    match gsmall with
    | node _ n pk pl => some (node .black (n.setColor .red) pk (node .red pl gkey glarge))
    | nil => none
  | .large, .small =>
    -- parent large of grandparent, node small of parent: node becomes the subtree root
    match glarge with
    | node _ (node _ ns nk nl) pk pl => some (node .black (node .red gsmall gkey ns) nk (node .red nl pk pl))
    | _ => none
  | .small, .large =>
    match gsmall with
    | node _ ps pk (node _ ns nk nl) => some (node .black (node .red ps pk ns) nk (node .red nl gkey glarge))
    | _ => none
  | .large, .large =>
    match glarge with
    | node _ ps pk n => some (node .black (node .red gsmall gkey ps) pk (n.setColor .red))
    | nil => none

/-- what the node `(c, a, x, b)` does with the result coming up from its `s`-child -/
def up (c : Color) (a : Tree α) (x : α) (b : Tree α) (s : Side) : Res α → Res α
  | .dup => .dup
  | .fatal => .fatal
  | .done t =>
    match s with
    | .small => .done (node c t x b)
    | .large => .done (node c a x t)
  | .check t =>
    -- `if (parent->color == RED) rebalance(tree, node) else return tree`
    let me := match s with | .small => node c t x b | .large => node c a x t
    if c = .red then .viol me s else .done me
  | .viol t sn =>
    -- this node is the grandparent
    let uncle := match s with | .small => b | .large => a
    if uncle.color = .red then
      -- push red: parent, uncle black; grandparent red; then the grandparent is the new `node`
      let me := match s with
        | .small => node .red (t.setColor .black) x (b.setColor .black)
        | .large => node .red (a.setColor .black) x (t.setColor .black)
      .check me
    else
      let r := match s with
        | .small => rotate t x b s sn
        | .large => rotate a x t s sn
      match r with
      | some t' => .done t'
      | none => .fatal

/-- descent of `esl_red_black_doublekey_insert` + unwinding -/
def ins [LT α] [DecidableRel (α := α) (· < ·)] (k : α) : Tree α → Res α
  | nil => .check (node .red nil k nil)
  | node c a x b =>
    if x < k then up c a x b .large (ins k b)           -- node->key > current->key
    else if k < x then up c a x b .small (ins k a)
    else .dup

/-- `esl_red_black_doublekey_insert(tree, node)`: `some (tree', inserted?)`; `none` = `esl_fatal` -/
def insert [LT α] [DecidableRel (α := α) (· < ·)] (t : Tree α) (k : α) : Option (Tree α × Bool) :=
  match ins k t with
  | .dup => some (t, false)
  | .done t' => some (t', true)
  | .check t' => some (t'.setColor .black, true)
  | .viol _ _ => none
  | .fatal => none

/-- `esl_red_black_doublekey_lookup` (found?) -/
def lookup [LT α] [DecidableRel (α := α) (· < ·)] [DecidableEq α] (k : α) : Tree α → Bool
  | nil => false
  | node _ a x b => if x = k then true else if x < k then lookup k b else lookup k a

/-- in-order keys, ascending -/
def toList : Tree α → List α
  | nil => []
  | node _ a x b => toList a ++ x :: toList b

/-- `esl_red_black_doublekey_convert_to_sorted_linked_recurse`: large subtree, node, small subtree; the list is
    accumulated from `head` (largest) following `small` links — here the keys in that order, i.e. descending -/
def toLinkedDesc : Tree α → List α → List α
  | nil, acc => acc
  | node _ a x b, acc => toLinkedDesc a (toLinkedDesc b acc ++ [x])

def insertAll [LT α] [DecidableRel (α := α) (· < ·)] : Tree α → List α → Option (Tree α)
  | t, [] => some t
  | t, k :: ks => match insert t k with | none => none | some (t', _) => insertAll t' ks

end Tree
end EaselModel.Containers.RedBlack
