import EaselModel.Containers.RedBlackPtrRebalance
/-! # The four rotations of `esl_red_black_doublekey_rebalance` (uncle black) on the pointer structure -/
namespace EaselModel.Containers.RedBlackPtr
open EaselModel.Containers.RedBlack

/-- node small of parent, parent small of grandparent: the parent becomes the subtree root -/
theorem rot_LL {st : Store} {fuel tree n p g : Nat} {nn pn gn : Node} {a b PS U : Shape} {fs : List Frame} {root : Ptr}
    (hn : rd st n = some nn) (hp : rd st p = some pn) (hg : rd st g = some gn)
    (hnpar : nn.parent = some p) (hpsm : pn.small = some n) (hppar : pn.parent = some g)
    (hgsm : gn.small = some p)
    (ha : ReprP st a nn.small (some n)) (hb : ReprP st b nn.large (some n))
    (hPS : ReprP st PS pn.large (some p)) (hU : ReprP st U gn.large (some g))
    (hctx : ReprCtx st fs (some g) gn.parent root)
    (hnd : ((a.ids ++ n :: b.ids) ++ ((p :: PS.ids) ++ ((g :: U.ids) ++ pathIds fs))).Nodup)
    (hub : (absTree st U).color = .black) :
    ∃ st', rebalance (fuel+1) st tree n = some (st', rootAfter gn.parent p tree) ∧
      ReprP st' (.node (.node a n b) p (.node PS g U)) (some p) gn.parent ∧ CtxUpd st st' fs gn.parent g p ∧
      absTree st' (.node (.node a n b) p (.node PS g U)) =
        .node .black (.node .red (absTree st a) nn.key (absTree st b)) pn.key
          (.node .red (absTree st PS) gn.key (absTree st U)) ∧
      (∀ j, j ∉ (a.ids ++ n :: b.ids) ++ ((p :: PS.ids) ++ ((g :: U.ids) ++ pathIds fs)) → rd st' j = rd st j) := by
  obtain ⟨hA, hB, hC, hD, hAB, hAC, hAD, hBC, hBD, hCD⟩ := nodup4 hnd
  have hnA : n ∈ a.ids ++ n :: b.ids := by simp
  have hpB : p ∈ p :: PS.ids := by simp
  have hgC : g ∈ g :: U.ids := by simp
  have hnp : n ≠ p := fun e => hAB n hnA (e ▸ hpB)
  have hng : n ≠ g := fun e => hAC n hnA (e ▸ hgC)
  have hpg : p ≠ g := fun e => hBC p hpB (e ▸ hgC)
  have hgg := hctx.gpar_isSome
  have hggn : gn.parent ≠ some n := fun e => hAD n hnA (hgg n e).2
  have hggp : gn.parent ≠ some p := fun e => hBD p hpB (hgg p e).2
  have hggg : gn.parent ≠ some g := fun e => hCD g hgC (hgg g e).2
  have hq := hPS.ptr_mem
  have hqn : pn.large ≠ some n := fun e => hAB n hnA (List.mem_cons_of_mem _ (hq n e).1)
  have hqp : pn.large ≠ some p := fun e => by
    have := (hq p e).1
    simp only [List.nodup_cons] at hB
    exact hB.1 this
  have hqg : pn.large ≠ some g := fun e => hBC g (List.mem_cons_of_mem _ (hq g e).1) hgC
  have hqgg : ∀ j, gn.parent = some j → pn.large ≠ some j := fun j e1 e2 =>
    hBD j (List.mem_cons_of_mem _ (hq j e2).1) (hgg j e1).2
  -- the uncle is black
  have hunc : ¬ gn.large = some p := fun e => hBC p hpB (List.mem_cons_of_mem _ (hU.ptr_mem p e).1)
  -- the writes
  obtain ⟨s1, w1, R1⟩ := wr_ex (st := st) (i := g) (fun nd => { nd with small := pn.large }) (by simp [hg])
  obtain ⟨s2, w2, R2⟩ := setParentIf_ex (st := s1) (q := pn.large) g (fun c hc => by
    have := (hq c hc).2
    rw [R1]; split
    · simp [hg]
    · exact this)
  obtain ⟨s3, w3, R3⟩ := wr_ex (st := s2) (i := p) (fun nd => { nd with large := some g }) (by
    simp [R2, R1, hqp, hpg, hp])
  obtain ⟨s4, w4a, w4b, R4⟩ := rootOrChild_ex (st := s3) (gpar := gn.parent) g p (fun gg hgg' => by
    have h1 := (hgg gg hgg').1
    have h2 : gg ≠ p := fun e => hggp (e ▸ hgg')
    have h3 : gg ≠ g := fun e => hggg (e ▸ hgg')
    have h4 := hqgg gg hgg'
    simp [R3, R2, R1, h1, h2, h3, h4])
  obtain ⟨s5, w5, R5⟩ := wr_ex (st := s4) (i := p) (fun nd => { nd with parent := gn.parent, color := .black }) (by
    simp [R4, R3, R2, R1, hqp, hpg, hp, hggp])
  obtain ⟨s6, w6, R6⟩ := wr_ex (st := s5) (i := g) (fun nd => { nd with parent := some p, color := .red }) (by
    simp [R5, R4, R3, R2, R1, hqg, hpg, Ne.symm hpg, hg, hggg])
  obtain ⟨s7, w7, R7⟩ := wr_ex (st := s6) (i := n) (fun nd => { nd with color := .red }) (by
    simp [R6, R5, R4, R3, R2, R1, hqn, hnp, hng, hn, hggn])
  have F : ∀ j, rd s7 j =
      if j = n then some { nn with color := .red }
      else if j = g then some { gn with small := pn.large, parent := some p, color := .red }
      else if j = p then some { pn with large := some g, parent := gn.parent, color := .black }
      else if gn.parent = some j then (rd st j).map (replaceFn g p)
      else if pn.large = some j then (rd st j).map (fun nd => { nd with parent := some g })
      else rd st j := by
    intro j
    by_cases h1 : j = n
    · subst h1; simp [R7, R6, R5, R4, R3, R2, R1, hqn, hnp, hng, hn, hggn]
    · by_cases h2 : j = g
      · subst h2; simp [R7, R6, R5, R4, R3, R2, R1, hqg, hpg, Ne.symm hpg, Ne.symm hng, hg, hggg]
      · by_cases h3 : j = p
        · subst h3; simp [R7, R6, R5, R4, R3, R2, R1, hqp, hpg, Ne.symm hnp, hp, hggp]
        · by_cases h4 : gn.parent = some j
          · have := hqgg j h4
            simp [R7, R6, R5, R4, R3, R2, R1, h1, h2, h3, h4, this]
          · simp [R7, R6, R5, R4, R3, R2, R1, h1, h2, h3, h4]
  obtain ⟨hnA1, hnA2, hAa, hAb, _⟩ := nodup_mid hA
  have hpPS : p ∉ PS.ids := (List.nodup_cons.mp hB).1
  have hgU : g ∉ U.ids := (List.nodup_cons.mp hC).1
  have same : ∀ j, j ≠ n → j ≠ g → j ≠ p → j ∉ pathIds fs → j ∉ PS.ids → rd s7 j = rd st j := fun j h1 h2 h3 h4 h5 => by
    have h6 : ¬ gn.parent = some j := fun e => h4 (hgg j e).2
    have h7 : ¬ pn.large = some j := fun e => h5 (hq j e).1
    rw [F]; simp [h1, h2, h3, h6, h7]
  have Fn : rd s7 n = some { nn with color := .red } := by rw [F]; simp
  have Fg : rd s7 g = some { gn with small := pn.large, parent := some p, color := .red } := by
    rw [F]; simp [Ne.symm hng]
  have Fp : rd s7 p = some { pn with large := some g, parent := gn.parent, color := .black } := by
    rw [F]; simp [Ne.symm hnp, hpg]
  have sa : ∀ j ∈ a.ids, rd s7 j = rd st j := fun j hj =>
    have hjA : j ∈ a.ids ++ n :: b.ids := by simp [hj]
    same j (fun e => hnA1 (e ▸ hj)) (fun e => hAC j hjA (e ▸ hgC)) (fun e => hAB j hjA (e ▸ hpB)) (hAD j hjA)
      (fun h => hAB j hjA (List.mem_cons_of_mem _ h))
  have sb : ∀ j ∈ b.ids, rd s7 j = rd st j := fun j hj =>
    have hjA : j ∈ a.ids ++ n :: b.ids := by simp [hj]
    same j (fun e => hnA2 (e ▸ hj)) (fun e => hAC j hjA (e ▸ hgC)) (fun e => hAB j hjA (e ▸ hpB)) (hAD j hjA)
      (fun h => hAB j hjA (List.mem_cons_of_mem _ h))
  have sU : ∀ j ∈ U.ids, rd s7 j = rd st j := fun j hj =>
    have hjC : j ∈ g :: U.ids := List.mem_cons_of_mem _ hj
    same j (fun e => hAC n hnA (e ▸ hjC)) (fun e => hgU (e ▸ hj)) (fun e => hBC p hpB (e ▸ hjC)) (hCD j hjC)
      (fun h => hBC j (List.mem_cons_of_mem _ h) hjC)
  have sPS : ∀ j ∈ PS.ids, rd s7 j =
      if pn.large = some j then (rd st j).map (fun nd => { nd with parent := some g }) else rd st j := fun j hj => by
    have hjB : j ∈ p :: PS.ids := List.mem_cons_of_mem _ hj
    have h1 : j ≠ n := fun e => hAB n hnA (e ▸ hjB)
    have h2 : j ≠ g := fun e => hBC j hjB (e ▸ hgC)
    have h3 : j ≠ p := fun e => hpPS (e ▸ hj)
    have h6 : ¬ gn.parent = some j := fun e => hBD j hjB (hgg j e).2
    rw [F]; simp [h1, h2, h3, h6]
  refine ⟨s7, ?_, ?_, ?_, ?_, ?_⟩
  · rcases uncle_cases hU hub with hun | ⟨u, un, hun, hur, hucol⟩
    · rcases hgp : gn.parent with _ | gg
      · have e := w4a hgp; subst e
        simp only [hgp] at w5
        simp only [rebalance, hn, hnpar, hp, hppar, hg, hunc, hun, reduceCtorEq, hpsm, hgsm, ↓reduceIte, w1, w2, w3, hgp, w5, w6, w7,
          Option.map_some, rootAfter]
      · have e := w4b gg hgp
        simp only [hgp] at w5
        simp only [rebalance, hn, hnpar, hp, hppar, hg, hunc, hun, reduceCtorEq, hpsm, hgsm, ↓reduceIte, w1, w2, w3, hgp, e, w5, w6, w7,
          Option.map_some, rootAfter]
    · have hup : ¬ u = p := fun e => hunc (by rw [hun, e])
      rcases hgp : gn.parent with _ | gg
      · have e := w4a hgp; subst e
        simp only [hgp] at w5
        simp only [rebalance, hn, hnpar, hp, hppar, hg, hunc, hun, Option.some.injEq, hup, hur, hucol, hpsm, hgsm, ↓reduceIte, w1, w2, w3, hgp, w5,
          w6, w7, Option.map_some, rootAfter]
      · have e := w4b gg hgp
        simp only [hgp] at w5
        simp only [rebalance, hn, hnpar, hp, hppar, hg, hunc, hun, Option.some.injEq, hup, hur, hucol, hpsm, hgsm, ↓reduceIte, w1, w2, w3, hgp, e,
          w5, w6, w7, Option.map_some, rootAfter]
  · refine ⟨rfl, _, Fp, rfl, ?_, ?_⟩
    · show ReprP s7 (.node a n b) pn.small (some p)
      rw [hpsm]
      exact ⟨rfl, _, Fn, hnpar, ReprP.congr sa ha, ReprP.congr sb hb⟩
    · show ReprP s7 (.node PS g U) (some g) (some p)
      exact ⟨rfl, _, Fg, rfl, ReprP.reparent (List.nodup_cons.mp hB).2 hPS sPS, ReprP.congr sU hU⟩
  · intro j hj
    have h1 : j ≠ n := fun e => hAD n hnA (e ▸ hj)
    have h2 : j ≠ g := fun e => hCD g hgC (e ▸ hj)
    have h3 : j ≠ p := fun e => hBD p hpB (e ▸ hj)
    have h7 : ¬ pn.large = some j := fun e => hBD j (List.mem_cons_of_mem _ (hq j e).1) hj
    rw [F]; simp [h1, h2, h3, h7]
  · have e1 : absTree s7 a = absTree st a := absTree_congr sa
    have e2 : absTree s7 b = absTree st b := absTree_congr sb
    have e3 : absTree s7 U = absTree st U := absTree_congr sU
    have e4 : absTree s7 PS = absTree st PS := absTree_congr_kc (fun j hj => by
      rw [sPS j hj]; split
      · cases rd st j <;> rfl
      · rfl)
    simp only [absTree, Fp, Fn, Fg, e1, e2, e3, e4]
  · intro j hj
    simp only [List.mem_append, List.mem_cons, not_or] at hj
    obtain ⟨⟨_, h1, _⟩, ⟨h3, h5⟩, ⟨h2, _⟩, h4⟩ := hj
    exact same j h1 h2 h3 h4 h5


/-- node large of parent, parent large of grandparent: the parent becomes the subtree root -/
theorem rot_RR {st : Store} {fuel tree n p g : Nat} {nn pn gn : Node} {a b PS U : Shape} {fs : List Frame} {root : Ptr}
    (hn : rd st n = some nn) (hp : rd st p = some pn) (hg : rd st g = some gn)
    (hnpar : nn.parent = some p) (hplg : pn.large = some n) (hppar : pn.parent = some g)
    (hglg : gn.large = some p)
    (ha : ReprP st a nn.small (some n)) (hb : ReprP st b nn.large (some n))
    (hPS : ReprP st PS pn.small (some p)) (hU : ReprP st U gn.small (some g))
    (hctx : ReprCtx st fs (some g) gn.parent root)
    (hnd : ((a.ids ++ n :: b.ids) ++ ((p :: PS.ids) ++ ((g :: U.ids) ++ pathIds fs))).Nodup)
    (hub : (absTree st U).color = .black) :
    ∃ st', rebalance (fuel+1) st tree n = some (st', rootAfter gn.parent p tree) ∧
      ReprP st' (.node (.node U g PS) p (.node a n b)) (some p) gn.parent ∧ CtxUpd st st' fs gn.parent g p ∧
      absTree st' (.node (.node U g PS) p (.node a n b)) =
        .node .black (.node .red (absTree st U) gn.key (absTree st PS)) pn.key
          (.node .red (absTree st a) nn.key (absTree st b)) ∧
      (∀ j, j ∉ (a.ids ++ n :: b.ids) ++ ((p :: PS.ids) ++ ((g :: U.ids) ++ pathIds fs)) → rd st' j = rd st j) := by
  obtain ⟨hA, hB, hC, hD, hAB, hAC, hAD, hBC, hBD, hCD⟩ := nodup4 hnd
  have hnA : n ∈ a.ids ++ n :: b.ids := by simp
  have hpB : p ∈ p :: PS.ids := by simp
  have hgC : g ∈ g :: U.ids := by simp
  have hnp : n ≠ p := fun e => hAB n hnA (e ▸ hpB)
  have hng : n ≠ g := fun e => hAC n hnA (e ▸ hgC)
  have hpg : p ≠ g := fun e => hBC p hpB (e ▸ hgC)
  have hgg := hctx.gpar_isSome
  have hggn : gn.parent ≠ some n := fun e => hAD n hnA (hgg n e).2
  have hggp : gn.parent ≠ some p := fun e => hBD p hpB (hgg p e).2
  have hggg : gn.parent ≠ some g := fun e => hCD g hgC (hgg g e).2
  have hq := hPS.ptr_mem
  have hqn : pn.small ≠ some n := fun e => hAB n hnA (List.mem_cons_of_mem _ (hq n e).1)
  have hqp : pn.small ≠ some p := fun e => by
    have := (hq p e).1
    simp only [List.nodup_cons] at hB
    exact hB.1 this
  have hqg : pn.small ≠ some g := fun e => hBC g (List.mem_cons_of_mem _ (hq g e).1) hgC
  have hqgg : ∀ j, gn.parent = some j → pn.small ≠ some j := fun j e1 e2 =>
    hBD j (List.mem_cons_of_mem _ (hq j e2).1) (hgg j e1).2
  have hunc : ¬ gn.small = some p := fun e => hBC p hpB (List.mem_cons_of_mem _ (hU.ptr_mem p e).1)
  -- the writes
  obtain ⟨s1, w1a, w1b, R1⟩ := rootOrChild_ex (st := st) (gpar := gn.parent) g p (fun gg hgg' => (hgg gg hgg').1)
  obtain ⟨s2, w2, R2⟩ := wr_ex (st := s1) (i := p) (fun nd => { nd with parent := gn.parent }) (by
    simp [R1, hp, hggp])
  obtain ⟨s3, w3, R3⟩ := wr_ex (st := s2) (i := g) (fun nd => { nd with large := pn.small }) (by
    simp [R2, R1, Ne.symm hpg, hg, hggg])
  obtain ⟨s4, w4, R4⟩ := setParentIf_ex (st := s3) (q := pn.small) g (fun c hc => by
    have h0 := (hq c hc).2
    have h1 : c ≠ g := fun e => hqg (e ▸ hc)
    have h2 : c ≠ p := fun e => hqp (e ▸ hc)
    have h3 : ¬ gn.parent = some c := fun e => hqgg c e hc
    simp [R3, R2, R1, h0, h1, h2, h3])
  obtain ⟨s5, w5, R5⟩ := wr_ex (st := s4) (i := p) (fun nd => { nd with small := some g, color := .black }) (by
    simp [R4, R3, R2, R1, hqp, hpg, hp, hggp])
  obtain ⟨s6, w6, R6⟩ := wr_ex (st := s5) (i := g) (fun nd => { nd with parent := some p, color := .red }) (by
    simp [R5, R4, R3, R2, R1, hqg, Ne.symm hpg, hg, hggg])
  obtain ⟨s7, w7, R7⟩ := wr_ex (st := s6) (i := n) (fun nd => { nd with color := .red }) (by
    simp [R6, R5, R4, R3, R2, R1, hqn, hnp, hng, hn, hggn])
  have F : ∀ j, rd s7 j =
      if j = n then some { nn with color := .red }
      else if j = g then some { gn with large := pn.small, parent := some p, color := .red }
      else if j = p then some { pn with small := some g, parent := gn.parent, color := .black }
      else if gn.parent = some j then (rd st j).map (replaceFn g p)
      else if pn.small = some j then (rd st j).map (fun nd => { nd with parent := some g })
      else rd st j := by
    intro j
    by_cases h1 : j = n
    · subst h1; simp [R7, R6, R5, R4, R3, R2, R1, hqn, hnp, hng, hn, hggn]
    · by_cases h2 : j = g
      · subst h2; simp [R7, R6, R5, R4, R3, R2, R1, hqg, Ne.symm hpg, Ne.symm hng, hg, hggg]
      · by_cases h3 : j = p
        · subst h3; simp [R7, R6, R5, R4, R3, R2, R1, hqp, hpg, Ne.symm hnp, hp, hggp]
        · by_cases h4 : gn.parent = some j
          · have := hqgg j h4
            simp [R7, R6, R5, R4, R3, R2, R1, h1, h2, h3, h4, this]
          · simp [R7, R6, R5, R4, R3, R2, R1, h1, h2, h3, h4]
  obtain ⟨hnA1, hnA2, hAa, hAb, _⟩ := nodup_mid hA
  have hpPS : p ∉ PS.ids := (List.nodup_cons.mp hB).1
  have hgU : g ∉ U.ids := (List.nodup_cons.mp hC).1
  have same : ∀ j, j ≠ n → j ≠ g → j ≠ p → j ∉ pathIds fs → j ∉ PS.ids → rd s7 j = rd st j := fun j h1 h2 h3 h4 h5 => by
    have h6 : ¬ gn.parent = some j := fun e => h4 (hgg j e).2
    have h7 : ¬ pn.small = some j := fun e => h5 (hq j e).1
    rw [F]; simp [h1, h2, h3, h6, h7]
  have Fn : rd s7 n = some { nn with color := .red } := by rw [F]; simp
  have Fg : rd s7 g = some { gn with large := pn.small, parent := some p, color := .red } := by
    rw [F]; simp [Ne.symm hng]
  have Fp : rd s7 p = some { pn with small := some g, parent := gn.parent, color := .black } := by
    rw [F]; simp [Ne.symm hnp, hpg]
  have sa : ∀ j ∈ a.ids, rd s7 j = rd st j := fun j hj =>
    have hjA : j ∈ a.ids ++ n :: b.ids := by simp [hj]
    same j (fun e => hnA1 (e ▸ hj)) (fun e => hAC j hjA (e ▸ hgC)) (fun e => hAB j hjA (e ▸ hpB)) (hAD j hjA)
      (fun h => hAB j hjA (List.mem_cons_of_mem _ h))
  have sb : ∀ j ∈ b.ids, rd s7 j = rd st j := fun j hj =>
    have hjA : j ∈ a.ids ++ n :: b.ids := by simp [hj]
    same j (fun e => hnA2 (e ▸ hj)) (fun e => hAC j hjA (e ▸ hgC)) (fun e => hAB j hjA (e ▸ hpB)) (hAD j hjA)
      (fun h => hAB j hjA (List.mem_cons_of_mem _ h))
  have sU : ∀ j ∈ U.ids, rd s7 j = rd st j := fun j hj =>
    have hjC : j ∈ g :: U.ids := List.mem_cons_of_mem _ hj
    same j (fun e => hAC n hnA (e ▸ hjC)) (fun e => hgU (e ▸ hj)) (fun e => hBC p hpB (e ▸ hjC)) (hCD j hjC)
      (fun h => hBC j (List.mem_cons_of_mem _ h) hjC)
  have sPS : ∀ j ∈ PS.ids, rd s7 j =
      if pn.small = some j then (rd st j).map (fun nd => { nd with parent := some g }) else rd st j := fun j hj => by
    have hjB : j ∈ p :: PS.ids := List.mem_cons_of_mem _ hj
    have h1 : j ≠ n := fun e => hAB n hnA (e ▸ hjB)
    have h2 : j ≠ g := fun e => hBC j hjB (e ▸ hgC)
    have h3 : j ≠ p := fun e => hpPS (e ▸ hj)
    have h6 : ¬ gn.parent = some j := fun e => hBD j hjB (hgg j e).2
    rw [F]; simp [h1, h2, h3, h6]
  refine ⟨s7, ?_, ?_, ?_, ?_, ?_⟩
  · rcases uncle_cases hU hub with hun | ⟨u, un, hun, hur, hucol⟩
    · rcases hgp : gn.parent with _ | gg
      · have e := w1a hgp; subst e
        simp only [hgp] at w2
        simp only [rebalance, hn, hnpar, hp, hppar, hg, hglg, hunc, hun, reduceCtorEq, hplg, hqn, ↓reduceIte, hgp, w2, w3, w4,
          w5, w6, w7, Option.map_some, rootAfter]
      · have e := w1b gg hgp
        simp only [hgp] at w2
        simp only [rebalance, hn, hnpar, hp, hppar, hg, hglg, hunc, hun, reduceCtorEq, hplg, hqn, ↓reduceIte, hgp, e, w2, w3,
          w4, w5, w6, w7, Option.map_some, rootAfter]
    · have hup : ¬ u = p := fun e => hunc (by rw [hun, e])
      rcases hgp : gn.parent with _ | gg
      · have e := w1a hgp; subst e
        simp only [hgp] at w2
        simp only [rebalance, hn, hnpar, hp, hppar, hg, hglg, hunc, hun, Option.some.injEq, hup, hur, hucol, hplg, hqn, ↓reduceIte, hgp, w2, w3, w4,
          w5, w6, w7, Option.map_some, rootAfter]
      · have e := w1b gg hgp
        simp only [hgp] at w2
        simp only [rebalance, hn, hnpar, hp, hppar, hg, hglg, hunc, hun, Option.some.injEq, hup, hur, hucol, hplg, hqn, ↓reduceIte, hgp, e, w2, w3,
          w4, w5, w6, w7, Option.map_some, rootAfter]
  · refine ⟨rfl, _, Fp, rfl, ?_, ?_⟩
    · show ReprP s7 (.node U g PS) (some g) (some p)
      exact ⟨rfl, _, Fg, rfl, ReprP.congr sU hU, ReprP.reparent (List.nodup_cons.mp hB).2 hPS sPS⟩
    · show ReprP s7 (.node a n b) pn.large (some p)
      rw [hplg]
      exact ⟨rfl, _, Fn, hnpar, ReprP.congr sa ha, ReprP.congr sb hb⟩
  · intro j hj
    have h1 : j ≠ n := fun e => hAD n hnA (e ▸ hj)
    have h2 : j ≠ g := fun e => hCD g hgC (e ▸ hj)
    have h3 : j ≠ p := fun e => hBD p hpB (e ▸ hj)
    have h7 : ¬ pn.small = some j := fun e => hBD j (List.mem_cons_of_mem _ (hq j e).1) hj
    rw [F]; simp [h1, h2, h3, h7]
  · have e1 : absTree s7 a = absTree st a := absTree_congr sa
    have e2 : absTree s7 b = absTree st b := absTree_congr sb
    have e3 : absTree s7 U = absTree st U := absTree_congr sU
    have e4 : absTree s7 PS = absTree st PS := absTree_congr_kc (fun j hj => by
      rw [sPS j hj]; split
      · cases rd st j <;> rfl
      · rfl)
    simp only [absTree, Fp, Fn, Fg, e1, e2, e3, e4]
  · intro j hj
    simp only [List.mem_append, List.mem_cons, not_or] at hj
    obtain ⟨⟨_, h1, _⟩, ⟨h3, h5⟩, ⟨h2, _⟩, h4⟩ := hj
    exact same j h1 h2 h3 h4 h5


/-- node small of parent, parent large of grandparent: the node becomes the subtree root -/
theorem rot_LR {st : Store} {fuel tree n p g : Nat} {nn pn gn : Node} {a b PS U : Shape} {fs : List Frame} {root : Ptr}
    (hn : rd st n = some nn) (hp : rd st p = some pn) (hg : rd st g = some gn)
    (hnpar : nn.parent = some p) (hpX : pn.small = some n) (hppar : pn.parent = some g)
    (hgY : gn.large = some p)
    (ha : ReprP st a nn.small (some n)) (hb : ReprP st b nn.large (some n))
    (hPS : ReprP st PS pn.large (some p)) (hU : ReprP st U gn.small (some g))
    (hctx : ReprCtx st fs (some g) gn.parent root)
    (hnd : ((a.ids ++ n :: b.ids) ++ ((p :: PS.ids) ++ ((g :: U.ids) ++ pathIds fs))).Nodup)
    (hub : (absTree st U).color = .black) :
    ∃ st', rebalance (fuel+1) st tree n = some (st', rootAfter gn.parent n tree) ∧
      ReprP st' (.node (.node U g a) n (.node b p PS)) (some n) gn.parent ∧ CtxUpd st st' fs gn.parent g n ∧
      absTree st' (.node (.node U g a) n (.node b p PS)) = .node .black (.node .red (absTree st U) gn.key (absTree st a)) nn.key (.node .red (absTree st b) pn.key (absTree st PS)) ∧
      (∀ j, j ∉ (a.ids ++ n :: b.ids) ++ ((p :: PS.ids) ++ ((g :: U.ids) ++ pathIds fs)) → rd st' j = rd st j) := by
  obtain ⟨hA, hB, hC, hD, hAB, hAC, hAD, hBC, hBD, hCD⟩ := nodup4 hnd
  obtain ⟨hnA1, hnA2, hAa, hAb, hab⟩ := nodup_mid hA
  have hnA : n ∈ a.ids ++ n :: b.ids := by simp
  have hpB : p ∈ p :: PS.ids := by simp
  have hgC : g ∈ g :: U.ids := by simp
  have hnp : n ≠ p := fun e => hAB n hnA (e ▸ hpB)
  have hng : n ≠ g := fun e => hAC n hnA (e ▸ hgC)
  have hpg : p ≠ g := fun e => hBC p hpB (e ▸ hgC)
  have hgg := hctx.gpar_isSome
  have hggn : gn.parent ≠ some n := fun e => hAD n hnA (hgg n e).2
  have hggp : gn.parent ≠ some p := fun e => hBD p hpB (hgg p e).2
  have hggg : gn.parent ≠ some g := fun e => hCD g hgC (hgg g e).2
  have hqa := ha.ptr_mem
  have hqb := hb.ptr_mem
  have inA1 : ∀ j, j ∈ a.ids → j ∈ a.ids ++ n :: b.ids := fun j hj => by simp [hj]
  have inA2 : ∀ j, j ∈ b.ids → j ∈ a.ids ++ n :: b.ids := fun j hj => by simp [hj]
  have hqan : nn.small ≠ some n := fun e => hnA1 (hqa n e).1
  have hqap : nn.small ≠ some p := fun e => hAB p (inA1 p (hqa p e).1) hpB
  have hqag : nn.small ≠ some g := fun e => hAC g (inA1 g (hqa g e).1) hgC
  have hqagg : ∀ j, gn.parent = some j → nn.small ≠ some j := fun j e1 e2 => hAD j (inA1 j (hqa j e2).1) (hgg j e1).2
  have hqbn : nn.large ≠ some n := fun e => hnA2 (hqb n e).1
  have hqbp : nn.large ≠ some p := fun e => hAB p (inA2 p (hqb p e).1) hpB
  have hqbg : nn.large ≠ some g := fun e => hAC g (inA2 g (hqb g e).1) hgC
  have hqbgg : ∀ j, gn.parent = some j → nn.large ≠ some j := fun j e1 e2 => hAD j (inA2 j (hqb j e2).1) (hgg j e1).2
  have hqab : ∀ j, nn.small = some j → nn.large ≠ some j := fun j e1 e2 => hab j (hqa j e1).1 (hqb j e2).1
  have hunc : ¬ gn.small = some p := fun e => hBC p hpB (List.mem_cons_of_mem _ (hU.ptr_mem p e).1)
  have hpsn : ¬ pn.large = some n := fun e => hAB n hnA (List.mem_cons_of_mem _ (hPS.ptr_mem n e).1)
  -- the writes
  obtain ⟨s1, w1a, w1b, R1⟩ := rootOrChild_ex (st := st) (gpar := gn.parent) g n (fun gg hgg' => (hgg gg hgg').1)
  obtain ⟨s2, w2, R2⟩ := wr_ex (st := s1) (i := n) (fun nd => { nd with parent := gn.parent }) (by
    simp [R1, hn, hggn])
  obtain ⟨s3, w3, R3⟩ := wr_ex (st := s2) (i := g) (fun nd => { nd with large := nn.small }) (by
    simp [R2, R1, Ne.symm hng, hg, hggg])
  obtain ⟨s4, w4, R4⟩ := setParentIf_ex (st := s3) (q := nn.small) g (fun c hc => by
    have h0 := (hqa c hc).2
    have h1 : c ≠ g := fun e => hqag (e ▸ hc)
    have h2 : c ≠ n := fun e => hqan (e ▸ hc)
    have h3 : ¬ gn.parent = some c := fun e => hqagg c e hc
    simp [R3, R2, R1, h0, h1, h2, h3])
  obtain ⟨s5, w5, R5⟩ := wr_ex (st := s4) (i := p) (fun nd => { nd with small := nn.large }) (by
    simp [R4, R3, R2, R1, hqap, hpg, Ne.symm hnp, hp, hggp])
  obtain ⟨s6, w6, R6⟩ := setParentIf_ex (st := s5) (q := nn.large) p (fun c hc => by
    have h0 := (hqb c hc).2
    have h1 : c ≠ g := fun e => hqbg (e ▸ hc)
    have h2 : c ≠ n := fun e => hqbn (e ▸ hc)
    have h4 : c ≠ p := fun e => hqbp (e ▸ hc)
    have h3 : ¬ gn.parent = some c := fun e => hqbgg c e hc
    have h5 : ¬ nn.small = some c := fun e => hqab c e hc
    simp [R5, R4, R3, R2, R1, h0, h1, h2, h3, h4, h5])
  obtain ⟨s7, w7, R7⟩ := wr_ex (st := s6) (i := n)
      (fun nd => { nd with small := some g, large := some p, color := .black }) (by
    simp [R6, R5, R4, R3, R2, R1, hqan, hqbn, hnp, hng, hn, hggn])
  obtain ⟨s8, w8, R8⟩ := wr_ex (st := s7) (i := g) (fun nd => { nd with parent := some n, color := .red }) (by
    simp [R7, R6, R5, R4, R3, R2, R1, hqag, hqbg, Ne.symm hpg, Ne.symm hng, hg, hggg])
  obtain ⟨s9, w9, R9⟩ := wr_ex (st := s8) (i := p) (fun nd => { nd with parent := some n, color := .red }) (by
    simp [R8, R7, R6, R5, R4, R3, R2, R1, hqap, hqbp, hpg, Ne.symm hnp, hp, hggp])
  have F : ∀ j, rd s9 j =
      if j = n then some { nn with parent := gn.parent, small := some g, large := some p, color := .black }
      else if j = g then some { gn with large := nn.small, parent := some n, color := .red }
      else if j = p then some { pn with small := nn.large, parent := some n, color := .red }
      else if gn.parent = some j then (rd st j).map (replaceFn g n)
      else if nn.small = some j then (rd st j).map (fun nd => { nd with parent := some g })
      else if nn.large = some j then (rd st j).map (fun nd => { nd with parent := some p })
      else rd st j := by
    intro j
    by_cases h1 : j = n
    · subst h1; simp [R9, R8, R7, R6, R5, R4, R3, R2, R1, hqan, hqbn, hnp, hng, hn, hggn]
    · by_cases h2 : j = g
      · subst h2; simp [R9, R8, R7, R6, R5, R4, R3, R2, R1, hqag, hqbg, Ne.symm hpg, Ne.symm hng, hg, hggg]
      · by_cases h3 : j = p
        · subst h3; simp [R9, R8, R7, R6, R5, R4, R3, R2, R1, hqap, hqbp, hpg, Ne.symm hnp, hp, hggp]
        · by_cases h4 : gn.parent = some j
          · have t1 := hqagg j h4
            have t2 := hqbgg j h4
            simp [R9, R8, R7, R6, R5, R4, R3, R2, R1, h1, h2, h3, h4, t1, t2]
          · by_cases h5 : nn.small = some j
            · have t1 : ¬ nn.large = some j := fun e => hqab j h5 e
              simp [R9, R8, R7, R6, R5, R4, R3, R2, R1, h1, h2, h3, h4, h5, t1]
            · simp [R9, R8, R7, R6, R5, R4, R3, R2, R1, h1, h2, h3, h4, h5]
  have hpPS : p ∉ PS.ids := (List.nodup_cons.mp hB).1
  have hgU : g ∉ U.ids := (List.nodup_cons.mp hC).1
  have same : ∀ j, j ≠ n → j ≠ g → j ≠ p → j ∉ pathIds fs → j ∉ a.ids → j ∉ b.ids → rd s9 j = rd st j :=
    fun j h1 h2 h3 h4 h5 h6 => by
      have h7 : ¬ gn.parent = some j := fun e => h4 (hgg j e).2
      have h8 : ¬ nn.small = some j := fun e => h5 (hqa j e).1
      have h9 : ¬ nn.large = some j := fun e => h6 (hqb j e).1
      rw [F]; simp [h1, h2, h3, h7, h8, h9]
  have Fn : rd s9 n = some { nn with parent := gn.parent, small := some g, large := some p, color := .black } := by
    rw [F]; simp
  have Fg : rd s9 g = some { gn with large := nn.small, parent := some n, color := .red } := by
    rw [F]; simp [Ne.symm hng]
  have Fp : rd s9 p = some { pn with small := nn.large, parent := some n, color := .red } := by
    rw [F]; simp [Ne.symm hnp, hpg]
  have sPS : ∀ j ∈ PS.ids, rd s9 j = rd st j := fun j hj =>
    have hjB : j ∈ p :: PS.ids := List.mem_cons_of_mem _ hj
    same j (fun e => hAB n hnA (e ▸ hjB)) (fun e => hBC j hjB (e ▸ hgC)) (fun e => hpPS (e ▸ hj)) (hBD j hjB)
      (fun h => hAB j (inA1 j h) hjB) (fun h => hAB j (inA2 j h) hjB)
  have sU : ∀ j ∈ U.ids, rd s9 j = rd st j := fun j hj =>
    have hjC : j ∈ g :: U.ids := List.mem_cons_of_mem _ hj
    same j (fun e => hAC n hnA (e ▸ hjC)) (fun e => hgU (e ▸ hj)) (fun e => hBC p hpB (e ▸ hjC)) (hCD j hjC)
      (fun h => hAC j (inA1 j h) hjC) (fun h => hAC j (inA2 j h) hjC)
  have sa : ∀ j ∈ a.ids, rd s9 j =
      if nn.small = some j then (rd st j).map (fun nd => { nd with parent := some g }) else rd st j := fun j hj => by
    have hjA := inA1 j hj
    have h1 : j ≠ n := fun e => hnA1 (e ▸ hj)
    have h2 : j ≠ g := fun e => hAC j hjA (e ▸ hgC)
    have h3 : j ≠ p := fun e => hAB j hjA (e ▸ hpB)
    have h6 : ¬ gn.parent = some j := fun e => hAD j hjA (hgg j e).2
    have h7 : ¬ nn.large = some j := fun e => hab j hj (hqb j e).1
    rw [F]; simp [h1, h2, h3, h6, h7]
  have sb : ∀ j ∈ b.ids, rd s9 j =
      if nn.large = some j then (rd st j).map (fun nd => { nd with parent := some p }) else rd st j := fun j hj => by
    have hjA := inA2 j hj
    have h1 : j ≠ n := fun e => hnA2 (e ▸ hj)
    have h2 : j ≠ g := fun e => hAC j hjA (e ▸ hgC)
    have h3 : j ≠ p := fun e => hAB j hjA (e ▸ hpB)
    have h6 : ¬ gn.parent = some j := fun e => hAD j hjA (hgg j e).2
    have h7 : ¬ nn.small = some j := fun e => hab j (hqa j e).1 hj
    rw [F]; simp [h1, h2, h3, h6, h7]
  refine ⟨s9, ?_, ?_, ?_, ?_, ?_⟩
  · rcases uncle_cases hU hub with hun | ⟨u, un, hun, hur, hucol⟩
    · rcases hgp : gn.parent with _ | gg
      · have e := w1a hgp; subst e
        simp only [hgp] at w2
        simp only [rebalance, hn, hnpar, hp, hppar, hg, hgY, hunc, hun, reduceCtorEq, hpX, hpsn, ↓reduceIte, hgp, w2, w3, w4,
          w5, w6, w7, w8, w9, Option.map_some, rootAfter]
      · have e := w1b gg hgp
        simp only [hgp] at w2
        simp only [rebalance, hn, hnpar, hp, hppar, hg, hgY, hunc, hun, reduceCtorEq, hpX, hpsn, ↓reduceIte, hgp, e, w2, w3,
          w4, w5, w6, w7, w8, w9, Option.map_some, rootAfter]
    · have hup : ¬ u = p := fun e => hunc (by rw [hun, e])
      rcases hgp : gn.parent with _ | gg
      · have e := w1a hgp; subst e
        simp only [hgp] at w2
        simp only [rebalance, hn, hnpar, hp, hppar, hg, hgY, hunc, hun, Option.some.injEq, hup, hur, hucol, hpX, hpsn,
          ↓reduceIte, hgp, w2, w3, w4, w5, w6, w7, w8, w9, Option.map_some, rootAfter]
      · have e := w1b gg hgp
        simp only [hgp] at w2
        simp only [rebalance, hn, hnpar, hp, hppar, hg, hgY, hunc, hun, Option.some.injEq, hup, hur, hucol, hpX, hpsn,
          ↓reduceIte, hgp, e, w2, w3, w4, w5, w6, w7, w8, w9, Option.map_some, rootAfter]
  · refine ⟨rfl, _, Fn, rfl, ?_, ?_⟩
    · show ReprP s9 (.node U g a) (some g) (some n)
      exact ⟨rfl, _, Fg, rfl, ReprP.congr sU hU, ReprP.reparent hAa ha sa⟩
    · show ReprP s9 (.node b p PS) (some p) (some n)
      exact ⟨rfl, _, Fp, rfl, ReprP.reparent hAb hb sb, ReprP.congr sPS hPS⟩
  · intro j hj
    have h1 : j ≠ n := fun e => hAD n hnA (e ▸ hj)
    have h2 : j ≠ g := fun e => hCD g hgC (e ▸ hj)
    have h3 : j ≠ p := fun e => hBD p hpB (e ▸ hj)
    have h7 : ¬ nn.small = some j := fun e => hAD j (inA1 j (hqa j e).1) hj
    have h8 : ¬ nn.large = some j := fun e => hAD j (inA2 j (hqb j e).1) hj
    rw [F]; simp [h1, h2, h3, h7, h8]
  · have e1 : absTree s9 a = absTree st a := absTree_congr_kc (fun j hj => by
      rw [sa j hj]; split
      · cases rd st j <;> rfl
      · rfl)
    have e2 : absTree s9 b = absTree st b := absTree_congr_kc (fun j hj => by
      rw [sb j hj]; split
      · cases rd st j <;> rfl
      · rfl)
    have e3 : absTree s9 U = absTree st U := absTree_congr sU
    have e4 : absTree s9 PS = absTree st PS := absTree_congr sPS
    simp only [absTree, Fp, Fn, Fg, e1, e2, e3, e4]
  · intro j hj
    simp only [List.mem_append, List.mem_cons, not_or] at hj
    obtain ⟨⟨h5, h1, h6⟩, ⟨h3, _⟩, ⟨h2, _⟩, h4⟩ := hj
    exact same j h1 h2 h3 h4 h5 h6

/-- node large of parent, parent small of grandparent: the node becomes the subtree root -/
theorem rot_RL {st : Store} {fuel tree n p g : Nat} {nn pn gn : Node} {a b PS U : Shape} {fs : List Frame} {root : Ptr}
    (hn : rd st n = some nn) (hp : rd st p = some pn) (hg : rd st g = some gn)
    (hnpar : nn.parent = some p) (hpX : pn.large = some n) (hppar : pn.parent = some g)
    (hgY : gn.small = some p)
    (ha : ReprP st a nn.small (some n)) (hb : ReprP st b nn.large (some n))
    (hPS : ReprP st PS pn.small (some p)) (hU : ReprP st U gn.large (some g))
    (hctx : ReprCtx st fs (some g) gn.parent root)
    (hnd : ((a.ids ++ n :: b.ids) ++ ((p :: PS.ids) ++ ((g :: U.ids) ++ pathIds fs))).Nodup)
    (hub : (absTree st U).color = .black) :
    ∃ st', rebalance (fuel+1) st tree n = some (st', rootAfter gn.parent n tree) ∧
      ReprP st' (.node (.node PS p a) n (.node b g U)) (some n) gn.parent ∧ CtxUpd st st' fs gn.parent g n ∧
      absTree st' (.node (.node PS p a) n (.node b g U)) = .node .black (.node .red (absTree st PS) pn.key (absTree st a)) nn.key (.node .red (absTree st b) gn.key (absTree st U)) ∧
      (∀ j, j ∉ (a.ids ++ n :: b.ids) ++ ((p :: PS.ids) ++ ((g :: U.ids) ++ pathIds fs)) → rd st' j = rd st j) := by
  obtain ⟨hA, hB, hC, hD, hAB, hAC, hAD, hBC, hBD, hCD⟩ := nodup4 hnd
  obtain ⟨hnA1, hnA2, hAa, hAb, hab⟩ := nodup_mid hA
  have hnA : n ∈ a.ids ++ n :: b.ids := by simp
  have hpB : p ∈ p :: PS.ids := by simp
  have hgC : g ∈ g :: U.ids := by simp
  have hnp : n ≠ p := fun e => hAB n hnA (e ▸ hpB)
  have hng : n ≠ g := fun e => hAC n hnA (e ▸ hgC)
  have hpg : p ≠ g := fun e => hBC p hpB (e ▸ hgC)
  have hgg := hctx.gpar_isSome
  have hggn : gn.parent ≠ some n := fun e => hAD n hnA (hgg n e).2
  have hggp : gn.parent ≠ some p := fun e => hBD p hpB (hgg p e).2
  have hggg : gn.parent ≠ some g := fun e => hCD g hgC (hgg g e).2
  have hqa := ha.ptr_mem
  have hqb := hb.ptr_mem
  have inA1 : ∀ j, j ∈ a.ids → j ∈ a.ids ++ n :: b.ids := fun j hj => by simp [hj]
  have inA2 : ∀ j, j ∈ b.ids → j ∈ a.ids ++ n :: b.ids := fun j hj => by simp [hj]
  have hqan : nn.small ≠ some n := fun e => hnA1 (hqa n e).1
  have hqap : nn.small ≠ some p := fun e => hAB p (inA1 p (hqa p e).1) hpB
  have hqag : nn.small ≠ some g := fun e => hAC g (inA1 g (hqa g e).1) hgC
  have hqagg : ∀ j, gn.parent = some j → nn.small ≠ some j := fun j e1 e2 => hAD j (inA1 j (hqa j e2).1) (hgg j e1).2
  have hqbn : nn.large ≠ some n := fun e => hnA2 (hqb n e).1
  have hqbp : nn.large ≠ some p := fun e => hAB p (inA2 p (hqb p e).1) hpB
  have hqbg : nn.large ≠ some g := fun e => hAC g (inA2 g (hqb g e).1) hgC
  have hqbgg : ∀ j, gn.parent = some j → nn.large ≠ some j := fun j e1 e2 => hAD j (inA2 j (hqb j e2).1) (hgg j e1).2
  have hqab : ∀ j, nn.small = some j → nn.large ≠ some j := fun j e1 e2 => hab j (hqa j e1).1 (hqb j e2).1
  have hunc : ¬ gn.large = some p := fun e => hBC p hpB (List.mem_cons_of_mem _ (hU.ptr_mem p e).1)
  have hpsn : ¬ pn.small = some n := fun e => hAB n hnA (List.mem_cons_of_mem _ (hPS.ptr_mem n e).1)
  -- the writes
  obtain ⟨s1, w1a, w1b, R1⟩ := rootOrChild_ex (st := st) (gpar := gn.parent) g n (fun gg hgg' => (hgg gg hgg').1)
  obtain ⟨s2, w2, R2⟩ := wr_ex (st := s1) (i := n) (fun nd => { nd with parent := gn.parent }) (by
    simp [R1, hn, hggn])
  obtain ⟨s3, w3, R3⟩ := wr_ex (st := s2) (i := g) (fun nd => { nd with small := nn.large }) (by
    simp [R2, R1, Ne.symm hng, hg, hggg])
  obtain ⟨s4, w4, R4⟩ := setParentIf_ex (st := s3) (q := nn.large) g (fun c hc => by
    have h0 := (hqb c hc).2
    have h1 : c ≠ g := fun e => hqbg (e ▸ hc)
    have h2 : c ≠ n := fun e => hqbn (e ▸ hc)
    have h3 : ¬ gn.parent = some c := fun e => hqbgg c e hc
    simp [R3, R2, R1, h0, h1, h2, h3])
  obtain ⟨s5, w5, R5⟩ := wr_ex (st := s4) (i := p) (fun nd => { nd with large := nn.small }) (by
    simp [R4, R3, R2, R1, hqbp, hpg, Ne.symm hnp, hp, hggp])
  obtain ⟨s6, w6, R6⟩ := setParentIf_ex (st := s5) (q := nn.small) p (fun c hc => by
    have h0 := (hqa c hc).2
    have h1 : c ≠ g := fun e => hqag (e ▸ hc)
    have h2 : c ≠ n := fun e => hqan (e ▸ hc)
    have h4 : c ≠ p := fun e => hqap (e ▸ hc)
    have h3 : ¬ gn.parent = some c := fun e => hqagg c e hc
    have h5 : ¬ nn.large = some c := fun e => hqab c hc e
    simp [R5, R4, R3, R2, R1, h0, h1, h2, h3, h4, h5])
  obtain ⟨s7, w7, R7⟩ := wr_ex (st := s6) (i := n)
      (fun nd => { nd with large := some g, small := some p, color := .black }) (by
    simp [R6, R5, R4, R3, R2, R1, hqan, hqbn, hnp, hng, hn, hggn])
  obtain ⟨s8, w8, R8⟩ := wr_ex (st := s7) (i := g) (fun nd => { nd with parent := some n, color := .red }) (by
    simp [R7, R6, R5, R4, R3, R2, R1, hqag, hqbg, Ne.symm hpg, Ne.symm hng, hg, hggg])
  obtain ⟨s9, w9, R9⟩ := wr_ex (st := s8) (i := p) (fun nd => { nd with parent := some n, color := .red }) (by
    simp [R8, R7, R6, R5, R4, R3, R2, R1, hqap, hqbp, hpg, Ne.symm hnp, hp, hggp])
  have F : ∀ j, rd s9 j =
      if j = n then some { nn with parent := gn.parent, large := some g, small := some p, color := .black }
      else if j = g then some { gn with small := nn.large, parent := some n, color := .red }
      else if j = p then some { pn with large := nn.small, parent := some n, color := .red }
      else if gn.parent = some j then (rd st j).map (replaceFn g n)
      else if nn.large = some j then (rd st j).map (fun nd => { nd with parent := some g })
      else if nn.small = some j then (rd st j).map (fun nd => { nd with parent := some p })
      else rd st j := by
    intro j
    by_cases h1 : j = n
    · subst h1; simp [R9, R8, R7, R6, R5, R4, R3, R2, R1, hqan, hqbn, hnp, hng, hn, hggn]
    · by_cases h2 : j = g
      · subst h2; simp [R9, R8, R7, R6, R5, R4, R3, R2, R1, hqag, hqbg, Ne.symm hpg, Ne.symm hng, hg, hggg]
      · by_cases h3 : j = p
        · subst h3; simp [R9, R8, R7, R6, R5, R4, R3, R2, R1, hqap, hqbp, hpg, Ne.symm hnp, hp, hggp]
        · by_cases h4 : gn.parent = some j
          · have t1 := hqagg j h4
            have t2 := hqbgg j h4
            simp [R9, R8, R7, R6, R5, R4, R3, R2, R1, h1, h2, h3, h4, t1, t2]
          · by_cases h5 : nn.large = some j
            · have t1 : ¬ nn.small = some j := fun e => hqab j e h5
              simp [R9, R8, R7, R6, R5, R4, R3, R2, R1, h1, h2, h3, h4, h5, t1]
            · simp [R9, R8, R7, R6, R5, R4, R3, R2, R1, h1, h2, h3, h4, h5]
  have hpPS : p ∉ PS.ids := (List.nodup_cons.mp hB).1
  have hgU : g ∉ U.ids := (List.nodup_cons.mp hC).1
  have same : ∀ j, j ≠ n → j ≠ g → j ≠ p → j ∉ pathIds fs → j ∉ a.ids → j ∉ b.ids → rd s9 j = rd st j :=
    fun j h1 h2 h3 h4 h5 h6 => by
      have h7 : ¬ gn.parent = some j := fun e => h4 (hgg j e).2
      have h8 : ¬ nn.small = some j := fun e => h5 (hqa j e).1
      have h9 : ¬ nn.large = some j := fun e => h6 (hqb j e).1
      rw [F]; simp [h1, h2, h3, h7, h8, h9]
  have Fn : rd s9 n = some { nn with parent := gn.parent, large := some g, small := some p, color := .black } := by
    rw [F]; simp
  have Fg : rd s9 g = some { gn with small := nn.large, parent := some n, color := .red } := by
    rw [F]; simp [Ne.symm hng]
  have Fp : rd s9 p = some { pn with large := nn.small, parent := some n, color := .red } := by
    rw [F]; simp [Ne.symm hnp, hpg]
  have sPS : ∀ j ∈ PS.ids, rd s9 j = rd st j := fun j hj =>
    have hjB : j ∈ p :: PS.ids := List.mem_cons_of_mem _ hj
    same j (fun e => hAB n hnA (e ▸ hjB)) (fun e => hBC j hjB (e ▸ hgC)) (fun e => hpPS (e ▸ hj)) (hBD j hjB)
      (fun h => hAB j (inA1 j h) hjB) (fun h => hAB j (inA2 j h) hjB)
  have sU : ∀ j ∈ U.ids, rd s9 j = rd st j := fun j hj =>
    have hjC : j ∈ g :: U.ids := List.mem_cons_of_mem _ hj
    same j (fun e => hAC n hnA (e ▸ hjC)) (fun e => hgU (e ▸ hj)) (fun e => hBC p hpB (e ▸ hjC)) (hCD j hjC)
      (fun h => hAC j (inA1 j h) hjC) (fun h => hAC j (inA2 j h) hjC)
  have sa : ∀ j ∈ a.ids, rd s9 j =
      if nn.small = some j then (rd st j).map (fun nd => { nd with parent := some p }) else rd st j := fun j hj => by
    have hjA := inA1 j hj
    have h1 : j ≠ n := fun e => hnA1 (e ▸ hj)
    have h2 : j ≠ g := fun e => hAC j hjA (e ▸ hgC)
    have h3 : j ≠ p := fun e => hAB j hjA (e ▸ hpB)
    have h6 : ¬ gn.parent = some j := fun e => hAD j hjA (hgg j e).2
    have h7 : ¬ nn.large = some j := fun e => hab j hj (hqb j e).1
    rw [F]; simp [h1, h2, h3, h6, h7]
  have sb : ∀ j ∈ b.ids, rd s9 j =
      if nn.large = some j then (rd st j).map (fun nd => { nd with parent := some g }) else rd st j := fun j hj => by
    have hjA := inA2 j hj
    have h1 : j ≠ n := fun e => hnA2 (e ▸ hj)
    have h2 : j ≠ g := fun e => hAC j hjA (e ▸ hgC)
    have h3 : j ≠ p := fun e => hAB j hjA (e ▸ hpB)
    have h6 : ¬ gn.parent = some j := fun e => hAD j hjA (hgg j e).2
    have h7 : ¬ nn.small = some j := fun e => hab j (hqa j e).1 hj
    rw [F]; simp [h1, h2, h3, h6, h7]
  refine ⟨s9, ?_, ?_, ?_, ?_, ?_⟩
  · rcases uncle_cases hU hub with hun | ⟨u, un, hun, hur, hucol⟩
    · rcases hgp : gn.parent with _ | gg
      · have e := w1a hgp; subst e
        simp only [hgp] at w2
        simp only [rebalance, hn, hnpar, hp, hppar, hg, hgY, hunc, hun, reduceCtorEq, hpX, hpsn, ↓reduceIte, hgp, w2, w3, w4,
          w5, w6, w7, w8, w9, Option.map_some, rootAfter]
      · have e := w1b gg hgp
        simp only [hgp] at w2
        simp only [rebalance, hn, hnpar, hp, hppar, hg, hgY, hunc, hun, reduceCtorEq, hpX, hpsn, ↓reduceIte, hgp, e, w2, w3,
          w4, w5, w6, w7, w8, w9, Option.map_some, rootAfter]
    · have hup : ¬ u = p := fun e => hunc (by rw [hun, e])
      rcases hgp : gn.parent with _ | gg
      · have e := w1a hgp; subst e
        simp only [hgp] at w2
        simp only [rebalance, hn, hnpar, hp, hppar, hg, hgY, hunc, hun, Option.some.injEq, hup, hur, hucol, hpX, hpsn,
          ↓reduceIte, hgp, w2, w3, w4, w5, w6, w7, w8, w9, Option.map_some, rootAfter]
      · have e := w1b gg hgp
        simp only [hgp] at w2
        simp only [rebalance, hn, hnpar, hp, hppar, hg, hgY, hunc, hun, Option.some.injEq, hup, hur, hucol, hpX, hpsn,
          ↓reduceIte, hgp, e, w2, w3, w4, w5, w6, w7, w8, w9, Option.map_some, rootAfter]
  · refine ⟨rfl, _, Fn, rfl, ?_, ?_⟩
    · show ReprP s9 (.node PS p a) (some p) (some n)
      exact ⟨rfl, _, Fp, rfl, ReprP.congr sPS hPS, ReprP.reparent hAa ha sa⟩
    · show ReprP s9 (.node b g U) (some g) (some n)
      exact ⟨rfl, _, Fg, rfl, ReprP.reparent hAb hb sb, ReprP.congr sU hU⟩
  · intro j hj
    have h1 : j ≠ n := fun e => hAD n hnA (e ▸ hj)
    have h2 : j ≠ g := fun e => hCD g hgC (e ▸ hj)
    have h3 : j ≠ p := fun e => hBD p hpB (e ▸ hj)
    have h7 : ¬ nn.small = some j := fun e => hAD j (inA1 j (hqa j e).1) hj
    have h8 : ¬ nn.large = some j := fun e => hAD j (inA2 j (hqb j e).1) hj
    rw [F]; simp [h1, h2, h3, h7, h8]
  · have e1 : absTree s9 a = absTree st a := absTree_congr_kc (fun j hj => by
      rw [sa j hj]; split
      · cases rd st j <;> rfl
      · rfl)
    have e2 : absTree s9 b = absTree st b := absTree_congr_kc (fun j hj => by
      rw [sb j hj]; split
      · cases rd st j <;> rfl
      · rfl)
    have e3 : absTree s9 U = absTree st U := absTree_congr sU
    have e4 : absTree s9 PS = absTree st PS := absTree_congr sPS
    simp only [absTree, Fp, Fn, Fg, e1, e2, e3, e4]
  · intro j hj
    simp only [List.mem_append, List.mem_cons, not_or] at hj
    obtain ⟨⟨h5, h1, h6⟩, ⟨h3, _⟩, ⟨h2, _⟩, h4⟩ := hj
    exact same j h1 h2 h3 h4 h5 h6

end EaselModel.Containers.RedBlackPtr
