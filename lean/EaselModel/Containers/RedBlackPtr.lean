import EaselModel.Containers.RedBlack
/-! # esl_red_black.c — pointer-level executable model (core Lean only)

`RedBlack.lean` replays the insertion on an inductive tree. This file models the C code on the memory it really works
on: a store of `ESL_RED_BLACK_DOUBLEKEY` records addressed by index (a pointer is `Option Nat`, `none` = `NULL`), with
the fields `key`, `color`, `parent`, `small`, `large` read and written in the order the C code reads and writes them.

Modelled line by line: `esl_red_black_doublekey_Create`, `esl_red_black_doublekey_pool_Create` (one block of `number`
records chained through `large`), the caller's "take the head of the free list", `esl_red_black_doublekey_insert`
(descent loop, linking, `rebalance` with its recursion, recolouring, the four rotations including every parent-pointer
update), `esl_red_black_doublekey_lookup`, `esl_red_black_doublekey_convert_to_sorted_linked` (+ `_recurse`), and the
test-only `esl_red_black_doublekey_linked_list_test`.

Outcome `none` = dereference of `NULL` / of an address outside the store, `esl_fatal`, or fuel exhausted (a loop in the
pointer graph). The file has no deletion and no min/max accessor: nothing to model there. -/
namespace EaselModel.Containers.RedBlackPtr
open EaselModel.Containers.RedBlack (Color)

abbrev Ptr := Option Nat

structure Node where
  key : Int
  color : Color
  parent : Ptr
  small : Ptr
  large : Ptr
deriving Repr, DecidableEq

abbrev Store := Array Node

/-- `*p` -/
def rd (st : Store) (i : Nat) : Option Node := st[i]?

/-- `p->field = …` -/
def wr (st : Store) (i : Nat) (f : Node → Node) : Option Store :=
  match st[i]? with
  | none => none
  | some nd => some (st.setIfInBounds i (f nd))

/-- `esl_red_black_doublekey_Create()`: a fresh record, `parent = large = small = NULL` (`key`, `color` are whatever
    `malloc` returned: the caller sets the key, `insert` sets the colour) -/
def create (st : Store) : Store × Nat :=
  (st.push { key := 0, color := .red, parent := none, small := none, large := none }, st.size)

/-- `esl_red_black_doublekey_pool_Create(number)`: `number` records in one block, `new_node[i].large = &new_node[i+1]`,
    the last one `large = NULL`; returns the address of the first. `number ≤ 0`: `ESL_ALLOC` refuses (`NULL`). -/
def poolCreate (st : Store) (number : Nat) : Store × Ptr :=
  if number = 0 then (st, none)
  else
    let base := st.size
    let blk := (List.range number).map fun i =>
      ({ key := 0, color := .red, parent := none, small := none,
         large := if i + 1 < number then some (base + i + 1) else none } : Node)
    (st ++ blk.toArray, some base)

/-- the caller's way to take a record: `node = pool; pool = pool->large;` -/
def poolTake (st : Store) (pool : Ptr) : Option (Nat × Ptr) :=
  match pool with
  | none => none
  | some n => (rd st n).map fun nd => (n, nd.large)

/-- give a record back to the free list (the caller's `node->large = pool; pool = node;`) -/
def poolGive (st : Store) (pool : Ptr) (n : Nat) : Option (Store × Ptr) :=
  (wr st n fun nd => { nd with large := pool }).map fun st' => (st', some n)

/-- `if (gg->small == g) gg->small = x; else gg->large = x;` -/
def replaceChild (st : Store) (gg g x : Nat) : Option Store :=
  match rd st gg with
  | none => none
  | some ggn => if ggn.small = some g then wr st gg (fun nd => { nd with small := some x })
                else wr st gg (fun nd => { nd with large := some x })

/-- `q->parent = p` if `q != NULL` -/
def setParentIf (st : Store) (q : Ptr) (p : Nat) : Option Store :=
  match q with
  | none => some st
  | some c => wr st c (fun nd => { nd with parent := some p })

/-- `esl_red_black_doublekey_rebalance(tree, node)`; returns the (possibly new) root -/
def rebalance : Nat → Store → Nat → Nat → Option (Store × Nat)
  | 0, _, _, _ => none
  | fuel+1, st, tree, node =>
    match rd st node with
    | none => none
    | some nn =>
    match nn.parent with
    | none => none                                  -- esl_fatal("Root node of tree passed …")
    | some parent =>
    match rd st parent with
    | none => none
    | some pn =>
    match pn.parent with
    | none => none                                  -- esl_fatal("… parent was both red and graph root")
    | some grandparent =>
    match rd st grandparent with
    | none => none
    | some gn =>
    -- uncle and its colour ("Null parent-sibling counts as black")
    let uncle : Ptr := if gn.large = some parent then gn.small else gn.large
    let ucolor : Option Color := match uncle with
      | none => some .black
      | some u => (rd st u).map (·.color)
    match ucolor with
    | none => none
    | some .red =>
      match uncle with
      | none => none
      | some u =>
      -- parent->color = BLACK; uncle->color = BLACK; grandparent->color = RED;
      match wr st parent (fun nd => { nd with color := .black }) with
      | none => none
      | some st =>
      match wr st u (fun nd => { nd with color := .black }) with
      | none => none
      | some st =>
      match wr st grandparent (fun nd => { nd with color := .red }) with
      | none => none
      | some st =>
      match gn.parent with
      | none => (wr st grandparent (fun nd => { nd with color := .black })).map fun st => (st, tree)
      | some gg =>
        match rd st gg with
        | none => none
        | some ggn => if ggn.color = .red then rebalance fuel st tree grandparent else some (st, tree)
    | some .black =>
      if pn.small = some node then
        if gn.small = some parent then
          -- node small of parent, parent small of grandparent
          -- grandparent->small = parent->large; if (grandparent->small) grandparent->small->parent = grandparent;
          match wr st grandparent (fun nd => { nd with small := pn.large }) with
          | none => none
          | some st =>
          match setParentIf st pn.large grandparent with
          | none => none
          | some st =>
          -- parent->large = grandparent;
          match wr st parent (fun nd => { nd with large := some grandparent }) with
          | none => none
          | some st =>
          -- root / great-grandparent's child
          match (match gn.parent with
                 | none => some (st, parent)
                 | some gg => (replaceChild st gg grandparent parent).map fun st => (st, tree)) with
          | none => none
          | some (st, root) =>
          -- parent->parent = grandparent->parent; grandparent->parent = parent; colours
          match wr st parent (fun nd => { nd with parent := gn.parent, color := .black }) with
          | none => none
          | some st =>
          match wr st grandparent (fun nd => { nd with parent := some parent, color := .red }) with
          | none => none
          | some st =>
          (wr st node (fun nd => { nd with color := .red })).map fun st => (st, root)
        else
          -- node small of parent, parent large of grandparent: node becomes the subtree root
          match (match gn.parent with
                 | none => some (st, node)
                 | some gg => (replaceChild st gg grandparent node).map fun st => (st, tree)) with
          | none => none
          | some (st, root) =>
          -- node->parent = grandparent->parent;
          match wr st node (fun nd => { nd with parent := gn.parent }) with
          | none => none
          | some st =>
          -- grandparent->large = node->small; if (…) grandparent->large->parent = grandparent;
          match wr st grandparent (fun nd => { nd with large := nn.small }) with
          | none => none
          | some st =>
          match setParentIf st nn.small grandparent with
          | none => none
          | some st =>
          -- parent->small = node->large; if (…) parent->small->parent = parent;
          match wr st parent (fun nd => { nd with small := nn.large }) with
          | none => none
          | some st =>
          match setParentIf st nn.large parent with
          | none => none
          | some st =>
          -- node->small = grandparent; grandparent->parent = node; node->large = parent; parent->parent = node; colours
          match wr st node (fun nd => { nd with small := some grandparent, large := some parent, color := .black }) with
          | none => none
          | some st =>
          match wr st grandparent (fun nd => { nd with parent := some node, color := .red }) with
          | none => none
          | some st =>
          (wr st parent (fun nd => { nd with parent := some node, color := .red })).map fun st => (st, root)
      else
        if gn.small = some parent then
          -- node large of parent, parent small of grandparent: node becomes the subtree root
          match (match gn.parent with
                 | none => some (st, node)
                 | some gg => (replaceChild st gg grandparent node).map fun st => (st, tree)) with
          | none => none
          | some (st, root) =>
          match wr st node (fun nd => { nd with parent := gn.parent }) with
          | none => none
          | some st =>
          -- grandparent->small = node->large; …->parent = grandparent
          match wr st grandparent (fun nd => { nd with small := nn.large }) with
          | none => none
          | some st =>
          match setParentIf st nn.large grandparent with
          | none => none
          | some st =>
          -- parent->large = node->small; …->parent = parent
          match wr st parent (fun nd => { nd with large := nn.small }) with
          | none => none
          | some st =>
          match setParentIf st nn.small parent with
          | none => none
          | some st =>
          match wr st node (fun nd => { nd with large := some grandparent, small := some parent, color := .black }) with
          | none => none
          | some st =>
          match wr st grandparent (fun nd => { nd with parent := some node, color := .red }) with
          | none => none
          | some st =>
          (wr st parent (fun nd => { nd with parent := some node, color := .red })).map fun st => (st, root)
        else
          -- node large of parent, parent large of grandparent: parent becomes the subtree root
          match (match gn.parent with
                 | none => some (st, parent)
                 | some gg => (replaceChild st gg grandparent parent).map fun st => (st, tree)) with
          | none => none
          | some (st, root) =>
          -- parent->parent = grandparent->parent;
          match wr st parent (fun nd => { nd with parent := gn.parent }) with
          | none => none
          | some st =>
          -- grandparent->large = parent->small; if (parent->small != NULL) parent->small->parent = grandparent;
          match wr st grandparent (fun nd => { nd with large := pn.small }) with
          | none => none
          | some st =>
          match setParentIf st pn.small grandparent with
          | none => none
          | some st =>
          -- parent->small = grandparent; grandparent->parent = parent; colours
          match wr st parent (fun nd => { nd with small := some grandparent, color := .black }) with
          | none => none
          | some st =>
          match wr st grandparent (fun nd => { nd with parent := some parent, color := .red }) with
          | none => none
          | some st =>
          (wr st node (fun nd => { nd with color := .red })).map fun st => (st, root)

/-- the descent loop of `insert`: `some (some parent)` = the record the new one becomes a child of,
    `some none` = an equal key exists (the C function returns `NULL`) -/
def descend (st : Store) (key : Int) : Nat → Nat → Option (Option Nat)
  | 0, _ => none
  | fuel+1, current =>
    match rd st current with
    | none => none
    | some cn =>
      if key > cn.key then
        match cn.large with
        | none => some (some current)
        | some nx => descend st key fuel nx
      else if key < cn.key then
        match cn.small with
        | none => some (some current)
        | some nx => descend st key fuel nx
      else some none

/-- `esl_red_black_doublekey_insert(tree, node)`: `(store, returned pointer)`; the returned pointer is `NULL` for a
    duplicate key (the record has then already been reset to red, no children; its `parent` is left alone) -/
def insert (st : Store) (tree : Ptr) (node : Nat) : Option (Store × Ptr) :=
  match wr st node (fun nd => { nd with color := .red, small := none, large := none }) with
  | none => none
  | some st =>
    match tree with
    | none => (wr st node (fun nd => { nd with color := .black })).map fun st => (st, some node)
    | some root =>
      match rd st node with
      | none => none
      | some nn =>
      match descend st nn.key (st.size + 1) root with
      | none => none
      | some none => some (st, none)
      | some (some parent) =>
        match wr st node (fun nd => { nd with parent := some parent }) with
        | none => none
        | some st =>
        match rd st parent with
        | none => none
        | some pn =>
        match (if nn.key < pn.key then wr st parent (fun nd => { nd with small := some node })
               else wr st parent (fun nd => { nd with large := some node })) with
        | none => none
        | some st =>
          if pn.color = .red then (rebalance (st.size + 1) st root node).map fun (st, r) => (st, some r)
          else some (st, some root)

/-- `esl_red_black_doublekey_lookup(tree, keyval)`: the record found (the C function returns its `contents`) -/
def lookup (st : Store) (key : Int) : Nat → Ptr → Option Ptr
  | _, none => some none
  | 0, some _ => none
  | fuel+1, some current =>
    match rd st current with
    | none => none
    | some cn =>
      if cn.key = key then some (some current)
      else if key > cn.key then lookup st key fuel cn.large
      else lookup st key fuel cn.small

/-- `if (*tail != NULL) { tree->large = *tail; (*tail)->small = tree; }` -/
def linkTail (st : Store) (tree : Nat) (tail : Ptr) : Option Store :=
  match tail with
  | none => some st
  | some tl =>
    match wr st tree (fun nd => { nd with large := some tl }) with
    | none => none
    | some st => wr st tl (fun nd => { nd with small := some tree })

/-- `esl_red_black_doublekey_convert_to_sorted_linked_recurse(tree, head, tail)` -/
def convRec : Nat → Store → Ptr → Ptr → Ptr → Option (Store × Ptr × Ptr)
  | _, st, none, head, tail => some (st, head, tail)
  | 0, _, some _, _, _ => none
  | fuel+1, st, some tree, head, tail =>
    match rd st tree with
    | none => none
    | some tn =>
    -- recursively sort the large side of the tree
    match convRec fuel st tn.large head tail with
    | none => none
    | some (st, head, tail) =>
    match linkTail st tree tail with
    | none => none
    | some st =>
    -- if (*head == NULL) *head = tree;   *tail = tree;   then recurse on tree->small (read now)
    match rd st tree with
    | none => none
    | some tn' => convRec fuel st tn'.small (if head = none then some tree else head) (some tree)

/-- `esl_red_black_doublekey_convert_to_sorted_linked(tree, &head, &tail)`: `some none` = `eslFAIL` (NULL tree) -/
def convert (st : Store) (tree : Ptr) : Option (Option (Store × Ptr × Ptr)) :=
  match tree with
  | none => some none
  | some _ => (convRec (st.size + 1) st tree none none).map some

inductive TestRes | ok | fail | fatal
deriving DecidableEq, Repr

/-- first loop of `linked_list_test` (from the small end along `large`): `(count, prev)`; `esl_fatal` = `.inl` -/
def testUp (st : Store) : Nat → Ptr → Nat → Ptr → Option (Sum Unit (Nat × Ptr))
  | _, none, cnt, prev => some (.inr (cnt, prev))
  | 0, some _, _, _ => none
  | fuel+1, some t, cnt, _ =>
    match rd st t with
    | none => none
    | some tn =>
      match tn.large with
      | none => testUp st fuel none (cnt+1) (some t)
      | some l =>
        match rd st l with
        | none => none
        | some ln =>
          if ln.key ≤ tn.key then some (.inl ())
          else if ln.small ≠ some t then some (.inl ())
          else testUp st fuel (some l) (cnt+1) (some t)

/-- second loop (from the large end along `small`): failure is `eslFAIL` (`.inl`) -/
def testDown (st : Store) : Nat → Ptr → Nat → Ptr → Option (Sum Unit (Nat × Ptr))
  | _, none, cnt, prev => some (.inr (cnt, prev))
  | 0, some _, _, _ => none
  | fuel+1, some h, cnt, _ =>
    match rd st h with
    | none => none
    | some hn =>
      match hn.small with
      | none => testDown st fuel none (cnt+1) (some h)
      | some s =>
        match rd st s with
        | none => none
        | some sn =>
          if sn.key ≥ hn.key then some (.inl ())
          else if sn.large ≠ some h then some (.inl ())
          else testDown st fuel (some s) (cnt+1) (some h)

/-- `esl_red_black_doublekey_linked_list_test(&head, &tail)` with both list ends non-NULL (with a NULL end the C code
    compares the uninitialised `prev`: outcome `none`) -/
def linkedListTest (st : Store) (head tail : Ptr) : Option TestRes :=
  match head, tail with
  | some _, some _ =>
    match testUp st (st.size + 1) tail 0 none with
    | none => none
    | some (.inl _) => some .fatal
    | some (.inr (c1, prev)) =>
      if prev ≠ head then some .fatal
      else
        match testDown st (st.size + 1) head 0 none with
        | none => none
        | some (.inl _) => some .fail
        | some (.inr (c2, prev2)) =>
          if prev2 ≠ tail then some .fail
          else if c1 ≠ c2 then some .fail else some .ok
  | _, _ => none

/-- walk a list along a link field (for dumps and statements): at most `fuel` records -/
def follow (st : Store) (next : Node → Ptr) : Nat → Ptr → List Nat
  | _, none => []
  | 0, some _ => []
  | fuel+1, some i =>
    match rd st i with
    | none => []
    | some nd => i :: follow st next fuel (next nd)

end EaselModel.Containers.RedBlackPtr
