import EaselModel.Containers.StackLemmas
/-! # esl_stack.c — histories: every sequence of operations refines the abstract LIFO list

`stack_history_refines`: every history without shuffle, from any valid stack, never faults and returns exactly the
outputs of the abstract LIFO list.  `stack_history_multiset`: with shuffles (any generator states) the content stays a
permutation of what the abstract list predicts.  `stepS_isSome`: the only operation that can fail is a shuffle whose Roll
ran out of fuel. -/
namespace EaselModel.Containers.Stack
open EaselModel.Random
variable {α : Type}

/-- operations of a history (`discardSelected` carries the caller's predicate) -/
inductive SOp (α : Type)
  | push (x : α) | pop | discardTopN (n : Nat) | discardSelected (p : α → Bool) | reuse | count
  | shuffle (seed : Rng)        -- shuffle with a generator in an arbitrary state

inductive SOut (α : Type) | done | val (x : α) | eod | num (n : Nat)
deriving DecidableEq

/-- one operation on the model stack; `none` = fault (or a Roll that ran out of fuel) -/
def stepS (rollFuel : Nat) (s : Stack α) : SOp α → Option (Stack α × SOut α)
  | .push x => (push s x).map fun s' => (s', .done)
  | .pop => some (match pop s with | (s', some x) => (s', .val x) | (s', none) => (s', .eod))
  | .discardTopN n => some (discardTopN s n, .done)
  | .discardSelected p => (discardSelected s p).map fun s' => (s', .done)
  | .reuse => some (reuse s, .done)
  | .count => some (s, .num (count s))
  | .shuffle r => (shuffle rollFuel r s).map fun (s', _) => (s', .done)

def runS (rollFuel : Nat) : Stack α → List (SOp α) → Option (List (SOut α))
  | _, [] => some []
  | s, op :: rest =>
    match stepS rollFuel s op with
    | none => none
    | some (s', o) => (runS rollFuel s' rest).map (o :: ·)

/-- the abstract LIFO: a list whose LAST element is the top (= `data.toList`); defined for histories without shuffle -/
def specStepS (l : List α) : SOp α → (List α × SOut α)
  | .push x => (l ++ [x], .done)
  | .pop => match l.getLast? with | none => (l, .eod) | some x => (l.dropLast, .val x)
  | .discardTopN n => (l.take (l.length - n), .done)
  | .discardSelected p => (l.filter (fun x => !p x), .done)
  | .reuse => ([], .done)
  | .count => (l, .num l.length)
  | .shuffle _ => (l, .done)        -- only used through `NoShuffle` histories

def specRunS : List α → List (SOp α) → List (SOut α)
  | _, [] => []
  | l, op :: rest => let (l', o) := specStepS l op; o :: specRunS l' rest

def SOp.isShuffle : SOp α → Bool | .shuffle _ => true | _ => false

/-- the multiset evolution: `discardSelected`, `push`, `reuse`, `count`, `shuffle` commute with permutations -/
def SOp.orderFree : SOp α → Bool | .pop => false | .discardTopN _ => false | _ => true

def finalS (rollFuel : Nat) : Stack α → List (SOp α) → Option (Stack α)
  | s, [] => some s
  | s, op :: rest => match stepS rollFuel s op with | none => none | some (s', _) => finalS rollFuel s' rest

def specFinalS : List α → List (SOp α) → List α
  | l, [] => l
  | l, op :: rest => specFinalS (specStepS l op).1 rest

/-! ## single operations -/

theorem discardTopN_nalloc (s : Stack α) (n : Nat) : (discardTopN s n).nalloc = s.nalloc := by
  unfold discardTopN
  split <;> rfl

theorem discardTopN_inv (s : Stack α) (n : Nat) (hi : Inv s) : Inv (discardTopN s n) := by
  have h1 := congrArg List.length (discardTopN_toList s n)
  have h2 := discardTopN_nalloc s n
  simp only [Array.length_toList, List.length_take] at h1
  simp only [Inv] at *
  omega

theorem discardSelected_inv (s s' : Stack α) (p : α → Bool) (hi : Inv s) (hn : s'.nalloc = s.nalloc)
    (hd : s'.data.toList = s.data.toList.filter (fun x => !p x)) : Inv s' := by
  have h1 := congrArg List.length hd
  have h2 := List.length_filter_le (fun x => !p x) s.data.toList
  simp only [Array.length_toList] at h1 h2
  simp only [Inv] at *
  omega

theorem reuse_inv (s : Stack α) (hi : Inv s) : Inv (reuse s) := by
  simp only [Inv, reuse] at *
  simp; omega

theorem shuffle_inv (f : Nat) (r r' : Rng) (s s' : Stack α) (hi : Inv s) (h : shuffle f r s = some (s', r')) :
    Inv s' := by
  obtain ⟨hp, hn⟩ := shuffle_perm f r r' s s' h
  have := hp.length_eq
  simp only [Array.length_toList] at this
  simp only [Inv] at *
  omega

/-- `pop` seen on the list `data.toList`: empty list -/
theorem pop_of_getLast?_none (s : Stack α) (h : s.data.toList.getLast? = none) : pop s = (s, none) := by
  have hb : s.data.back? = none := by simpa using h
  simp [pop, hb]

/-- `pop` seen on the list `data.toList`: the last element is returned and dropped -/
theorem pop_of_getLast?_some (s : Stack α) (x : α) (h : s.data.toList.getLast? = some x) :
    ∃ s', pop s = (s', some x) ∧ s'.nalloc = s.nalloc ∧ s'.data.toList = s.data.toList.dropLast := by
  have hb : s.data.back? = some x := by simpa using h
  refine ⟨{ s with data := s.data.pop }, ?_, rfl, ?_⟩
  · simp [pop, hb]
  · simp [Array.toList_pop]

/-- one step without shuffle: no fault, the output and the new content are those of the abstract list -/
theorem stepS_refines (f : Nat) (s : Stack α) (hi : Inv s) (op : SOp α) (hns : op.isShuffle = false) :
    ∃ s', stepS f s op = some (s', (specStepS s.data.toList op).2) ∧ Inv s' ∧
      s'.data.toList = (specStepS s.data.toList op).1 := by
  cases op with
  | push x =>
    obtain ⟨s', h1, h2, h3⟩ := push_spec s x hi
    refine ⟨s', ?_, h2, ?_⟩
    · simp [stepS, specStepS, h1]
    · simp [specStepS, h3]
  | pop =>
    cases hl : s.data.toList.getLast? with
    | none =>
      refine ⟨s, ?_, hi, ?_⟩
      · simp only [stepS, specStepS, hl, pop_of_getLast?_none s hl]
      · simp only [specStepS, hl]
    | some x =>
      obtain ⟨s', h1, h2, h3⟩ := pop_of_getLast?_some s x hl
      refine ⟨s', ?_, ?_, ?_⟩
      · simp only [stepS, specStepS, hl, h1]
      · have := pop_inv s hi
        rw [h1] at this
        exact this
      · simp only [specStepS, hl, h3]
  | discardTopN n =>
    refine ⟨discardTopN s n, ?_, discardTopN_inv s n hi, ?_⟩
    · simp only [stepS, specStepS]
    · simp only [specStepS, discardTopN_toList, Array.length_toList]
  | discardSelected p =>
    obtain ⟨s', h1, h2, h3⟩ := discardSelected_spec s p
    refine ⟨s', ?_, discardSelected_inv s s' p hi h2 h3, ?_⟩
    · simp [stepS, specStepS, h1]
    · simp only [specStepS, h3]
  | reuse =>
    refine ⟨reuse s, ?_, reuse_inv s hi, ?_⟩
    · simp only [stepS, specStepS]
    · simp [specStepS, reuse]
  | count =>
    refine ⟨s, ?_, hi, ?_⟩
    · simp [stepS, specStepS, count]
    · simp only [specStepS]
  | shuffle r => simp [SOp.isShuffle] at hns

/-- the only way `stepS` returns `none` on a valid stack is a `shuffle` (whose Roll ran out of fuel) -/
theorem stepS_isSome (rollFuel : Nat) (s : Stack α) (hi : Inv s) (op : SOp α) (hns : op.isShuffle = false) :
    (stepS rollFuel s op).isSome = true := by
  obtain ⟨s', h, _, _⟩ := stepS_refines rollFuel s hi op hns
  simp [h]

/-- a failing step on a valid stack is a shuffle whose `shuffle` returned `none` -/
theorem stepS_none_iff (rollFuel : Nat) (s : Stack α) (hi : Inv s) (op : SOp α) :
    stepS rollFuel s op = none ↔ ∃ r, op = .shuffle r ∧ shuffle rollFuel r s = none := by
  constructor
  · intro h
    cases hsh : op.isShuffle with
    | false =>
      have := stepS_isSome rollFuel s hi op hsh
      simp [h] at this
    | true =>
      cases op with
      | shuffle r =>
        refine ⟨r, rfl, ?_⟩
        simpa [stepS] using h
      | _ => simp [SOp.isShuffle] at hsh
  · rintro ⟨r, rfl, h⟩
    simp [stepS, h]

/-- one order-free step (shuffle allowed): the multiset follows the abstract list, `Inv` is kept, and a `count` output
    is the length of the abstract list -/
theorem stepS_multiset (f : Nat) (s : Stack α) (hi : Inv s) (l : List α) (hp : s.data.toList.Perm l) (op : SOp α)
    (hof : op.orderFree = true) (s' : Stack α) (o : SOut α) (h : stepS f s op = some (s', o)) :
    s'.data.toList.Perm (specStepS l op).1 ∧ Inv s' ∧ o = (specStepS l op).2 := by
  cases op with
  | pop => simp [SOp.orderFree] at hof
  | discardTopN n => simp [SOp.orderFree] at hof
  | shuffle r =>
    simp only [stepS, Option.map_eq_some_iff, Prod.mk.injEq] at h
    obtain ⟨⟨s1, r1⟩, h1, h2, h3⟩ := h
    subst h2; subst h3
    exact ⟨(shuffle_perm f r r1 s s1 h1).1.trans hp, shuffle_inv f r r1 s s1 hi h1, rfl⟩
  | push x =>
    obtain ⟨s1, h1, h2, h3⟩ := push_spec s x hi
    simp only [stepS, h1, Option.map_some, Option.some.injEq, Prod.mk.injEq] at h
    obtain ⟨rfl, rfl⟩ := h
    refine ⟨?_, h2, rfl⟩
    simp only [specStepS, h3, Array.toList_push]
    exact hp.append_right [x]
  | discardSelected p =>
    obtain ⟨s1, h1, h2, h3⟩ := discardSelected_spec s p
    simp only [stepS, h1, Option.map_some, Option.some.injEq, Prod.mk.injEq] at h
    obtain ⟨rfl, rfl⟩ := h
    refine ⟨?_, discardSelected_inv s s1 p hi h2 h3, rfl⟩
    simp only [specStepS, h3]
    exact hp.filter _
  | reuse =>
    simp only [stepS, Option.some.injEq, Prod.mk.injEq] at h
    obtain ⟨rfl, rfl⟩ := h
    refine ⟨?_, reuse_inv s hi, rfl⟩
    simp [specStepS, reuse]
  | count =>
    simp only [stepS, Option.some.injEq, Prod.mk.injEq] at h
    obtain ⟨rfl, rfl⟩ := h
    refine ⟨by simpa [specStepS] using hp, hi, ?_⟩
    have := hp.length_eq
    simp only [Array.length_toList] at this
    simp [specStepS, count, this]

/-! ## histories -/

/-- MAIN 1: every history without shuffle, from any valid stack: no fault and exactly the outputs of the abstract LIFO
    list -/
theorem stack_history_refines (rollFuel : Nat) (s : Stack α) (hi : Inv s) (ops : List (SOp α))
    (hns : ∀ op ∈ ops, op.isShuffle = false) :
    runS rollFuel s ops = some (specRunS s.data.toList ops) := by
  induction ops generalizing s with
  | nil => rfl
  | cons op rest ih =>
    obtain ⟨s', h1, h2, h3⟩ := stepS_refines rollFuel s hi op (hns op (by simp))
    have := ih s' h2 (fun o ho => hns o (by simp [ho]))
    simp only [runS, h1, this, specRunS, h3, Option.map_some]

/-- the final stack of a history without shuffle is valid and holds the abstract final list -/
theorem stack_history_final (rollFuel : Nat) (s : Stack α) (hi : Inv s) (ops : List (SOp α))
    (hns : ∀ op ∈ ops, op.isShuffle = false) :
    ∃ s', finalS rollFuel s ops = some s' ∧ Inv s' ∧ s'.data.toList = specFinalS s.data.toList ops := by
  induction ops generalizing s with
  | nil => exact ⟨s, rfl, hi, rfl⟩
  | cons op rest ih =>
    obtain ⟨s1, h1, h2, h3⟩ := stepS_refines rollFuel s hi op (hns op (by simp))
    obtain ⟨s2, g1, g2, g3⟩ := ih s1 h2 (fun o ho => hns o (by simp [ho]))
    exact ⟨s2, by simp only [finalS, h1, g1], g2, by simp only [specFinalS, ← h3, g3]⟩

/-- MAIN 2: for histories made of push / discardSelected / reuse / count / shuffle (any generator states), whenever the
    run returns, the stack content is a permutation of what the abstract list predicts (shuffles and discards keep the
    multiset in step with the spec) -/
theorem stack_history_multiset (rollFuel : Nat) (s : Stack α) (hi : Inv s) (l : List α) (hp : s.data.toList.Perm l)
    (ops : List (SOp α)) (hof : ∀ op ∈ ops, op.orderFree = true) (s' : Stack α)
    (h : finalS rollFuel s ops = some s') :
    s'.data.toList.Perm (specFinalS l ops) ∧ Inv s' := by
  induction ops generalizing s l with
  | nil =>
    simp only [finalS, Option.some.injEq] at h
    subst h
    exact ⟨hp, hi⟩
  | cons op rest ih =>
    simp only [finalS] at h
    cases hs : stepS rollFuel s op with
    | none => simp [hs] at h
    | some so =>
      obtain ⟨s1, o⟩ := so
      simp only [hs] at h
      obtain ⟨p1, i1, _⟩ := stepS_multiset rollFuel s hi l hp op (hof op (by simp)) s1 o hs
      exact ih s1 i1 _ p1 (fun o ho => hof o (by simp [ho])) h

/-- MAIN 2, outputs: in the same histories, whenever the run returns, the outputs (all `done`, and the `count` answers)
    are exactly those of the abstract list started from any permutation of the content -/
theorem stack_history_multiset_outputs (rollFuel : Nat) (s : Stack α) (hi : Inv s) (l : List α)
    (hp : s.data.toList.Perm l) (ops : List (SOp α)) (hof : ∀ op ∈ ops, op.orderFree = true) (outs : List (SOut α))
    (h : runS rollFuel s ops = some outs) : outs = specRunS l ops := by
  induction ops generalizing s l outs with
  | nil =>
    simp only [runS, Option.some.injEq] at h
    subst h; rfl
  | cons op rest ih =>
    simp only [runS] at h
    cases hs : stepS rollFuel s op with
    | none => simp [hs] at h
    | some so =>
      obtain ⟨s1, o⟩ := so
      simp only [hs, Option.map_eq_some_iff] at h
      obtain ⟨outs1, g1, rfl⟩ := h
      obtain ⟨p1, i1, ho⟩ := stepS_multiset rollFuel s hi l hp op (hof op (by simp)) s1 o hs
      have := ih s1 i1 _ p1 (fun o ho => hof o (by simp [ho])) outs1 g1
      simp only [specRunS, this, ho]

/-- a run and its final state succeed together -/
theorem runS_isSome_iff (rollFuel : Nat) (s : Stack α) (ops : List (SOp α)) :
    (runS rollFuel s ops).isSome = (finalS rollFuel s ops).isSome := by
  induction ops generalizing s with
  | nil => rfl
  | cons op rest ih =>
    simp only [runS, finalS]
    cases hs : stepS rollFuel s op with
    | none => rfl
    | some so =>
      obtain ⟨s1, o⟩ := so
      simp [ih s1]

/-! ## non-vacuity -/

/-- a concrete history on a `Stack Nat`: push 1 2 3 4, count, pop, discard the even ones, count, discardTopN 1, pop,
    pop (empty), reuse, count -/
example :
    runS 0 (create : Stack Nat)
      [.push 1, .push 2, .push 3, .push 4, .count, .pop, .discardSelected (fun x => x % 2 == 0), .count,
       .discardTopN 1, .pop, .pop, .reuse, .count]
    = some [.done, .done, .done, .done, .num 4, .val 4, .done, .num 2, .done, .val 1, .eod, .done, .num 0] := by
  decide

/-- and the abstract list gives the same answers (instance of `stack_history_refines`) -/
example :
    specRunS ([] : List Nat)
      [.push 1, .push 2, .push 3, .push 4, .count, .pop, .discardSelected (fun x => x % 2 == 0), .count,
       .discardTopN 1, .pop, .pop, .reuse, .count]
    = [.done, .done, .done, .done, .num 4, .val 4, .done, .num 2, .done, .val 1, .eod, .done, .num 0] := by
  decide

end EaselModel.Containers.Stack
