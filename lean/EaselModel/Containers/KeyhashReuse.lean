import EaselModel.Containers.KeyhashSlots
import EaselModel.Containers.KeyhashFixedLemmas
/-! # `esl_keyhash_Reuse`: every slot is empty afterwards, at any fill -/
namespace EaselModel.Containers.Keyhash

theorem foldl_zero_replicate (n : Nat) (acc : SlotStats) :
    (List.replicate n SlotStats.zero).foldl SlotStats.add acc = acc := by
  induction n with
  | zero => rfl
  | succ n ih =>
    simp only [List.replicate_succ, List.foldl_cons]
    have : acc.add SlotStats.zero = acc := by cases acc; simp [SlotStats.add, SlotStats.zero]
    rw [this]; exact ih

/-- after `Reuse` the table has `hashsize` slots and every one of them is `-1`, whatever it held before -/
theorem reuse_slots_empty (kh : KH) :
    (reuse kh).hashtable.size = kh.hashsize ∧ (reuse kh).hashsize = kh.hashsize ∧ (reuse kh).nkeys = 0 ∧
    (reuse kh).smem.size = 0 ∧ ∀ i, i < kh.hashsize → (reuse kh).hashtable[i]? = some none := by
  refine ⟨by simp [reuse], rfl, rfl, rfl, fun i hi => ?_⟩
  simp [reuse, hi]

/-- … so a direct walk over `hashtable[]` finds no used slot, no chained record, no bad pointer and no cycle -/
theorem reuse_slotStats (kh : KH) : slotStats (reuse kh) = SlotStats.zero := by
  simp only [slotStats, reuse, Array.toList_replicate, List.map_replicate, slotStat]
  exact foldl_zero_replicate _ _

/-- after `Reuse` a lookup of ANY key (any bytes, any length) answers not-found at once: the slot is empty, no record of
    `nxt[]` / `key_offset[]` / the arena is read — stale contents of those arrays (left as they were) cannot matter, and no
    chain walk can run on -/
theorem reuse_lookup_notfound (H : Key → Nat → Nat) (hH : HashOK H) (kh : KH) (h0 : 0 < kh.hashsize) (key : Key) :
    lookupF H (reuse kh) key = some (.enotfound, 0) := by
  have hv : H key kh.hashsize < kh.hashsize := hH key kh.hashsize h0
  have hs : (reuse kh).hashtable[H key (reuse kh).hashsize]? = some none := (reuse_slots_empty kh).2.2.2.2 _ hv
  simp only [lookupF, hs, walkF]

end EaselModel.Containers.Keyhash
