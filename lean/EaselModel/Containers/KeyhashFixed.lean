import EaselModel.Containers.Keyhash
import EaselModel.Containers.KeyhashApi
/-! # esl_keyhash.c after the repair of `C19:keyhash:embedded-nul` — executable model (core Lean only)

The repaired code delimits a stored key by its offsets in the arena, not by `strlen`:
`key_length(kh, idx) = ((idx+1 < nkeys) ? key_offset[idx+1] : sn) - key_offset[idx] - 1`,
`key_matches(kh, idx, key, n) = key_length(kh, idx) == n && (n == 0 || memcmp(key, smem + key_offset[idx], n) == 0)`;
`Store` and `Lookup` walk their chain with `key_matches` (`Lookup` with `n = -1` first sets `n = strlen(key)`), and
`key_upsize` re-hashes `jenkins_hash(smem + key_offset[i], key_length(kh, i), hashsize)`.
Everything else (`keyhash_create`, reallocation, linking, `Reuse`, `Clone`, `Get`) is the code of `Keyhash.lean`. -/
namespace EaselModel.Containers.Keyhash

/-- `key_length(kh, idx)` together with `key_offset[idx]`; the C arithmetic is `int` (a negative result is possible in a
    corrupted table: it then compares unequal to every `n ≥ 0`); `none`: an index array is read out of bounds -/
def keyLen (kh : KH) (idx : Nat) : Option (Nat × Int) :=
  match kh.keyOffset[idx]? with
  | none => none
  | some off =>
    match (if idx + 1 < kh.nkeys then kh.keyOffset[idx+1]? else some kh.smem.size) with
    | none => none
    | some e => some (off, (e : Int) - (off : Int) - 1)

/-- `key_matches(kh, idx, key, n)`; `memcmp` reads `n` bytes at `smem + off`: out of the used arena = fault -/
def keyMatches (kh : KH) (idx : Nat) (key : Key) : Option Bool :=
  match keyLen kh idx with
  | none => none
  | some (off, len) =>
    if len ≠ (key.length : Int) then some false
    else if key.length = 0 then some true
    else if off + key.length ≤ kh.smem.size then some ((kh.smem.extract off (off + key.length)).toList == key)
    else none

/-- the chain walk of the repaired `Store` / `Lookup` -/
def walkF (kh : KH) (key : Key) : Nat → Option Nat → Option (Option Nat)
  | _, none => some none
  | 0, some _ => none
  | f+1, some idx =>
    match keyMatches kh idx key with
    | none => none
    | some true => some (some idx)
    | some false =>
      match kh.nxt[idx]? with
      | none => none
      | some nx => walkF kh key f nx

/-- the bytes `jenkins_hash(smem + key_offset[i], key_length(kh, i), …)` reads: `n = -1` would be the string loop, another
    negative `n` reads nothing -/
def keyBytes (kh : KH) (idx : Nat) : Option Key :=
  match keyLen kh idx with
  | none => none
  | some (off, len) =>
    if len = -1 then cstrAt kh.smem off
    else if len < 0 then some []
    else if off + len.toNat ≤ kh.smem.size then some (kh.smem.extract off (off + len.toNat)).toList else none

def rehashStepF (H : Key → Nat → Nat) (kh : KH) (i : Nat) : Option KH :=
  match keyBytes kh i with
  | none => none
  | some k =>
    let val := H k kh.hashsize
    match kh.hashtable[val]? with
    | none => none
    | some head =>
      if i < kh.nxt.size then
        some { kh with nxt := kh.nxt.set! i head, hashtable := kh.hashtable.set! val (some i) }
      else none

def rehashLoopF (H : Key → Nat → Nat) : Nat → Nat → KH → Option KH
  | 0, _, kh => some kh
  | c+1, i, kh =>
    match rehashStepF H kh i with
    | none => none
    | some kh' => rehashLoopF H c (i+1) kh'

def upsizeF (H : Key → Nat → Nat) (kh : KH) : Option KH :=
  if kh.hashsize ≥ 2^28 then some kh
  else
    let size := kh.hashsize * 8
    rehashLoopF H kh.nkeys 0 { kh with hashsize := size, hashtable := Array.replicate size none }

/-- repaired `esl_keyhash_Store(kh, key, n, &idx)` with `n = key.length` (any bytes) -/
def storeF (H : Key → Nat → Nat) (kh : KH) (key : Key) : Option (KH × Status × Nat) :=
  let val := H key kh.hashsize
  match kh.hashtable[val]? with
  | none => none
  | some head =>
    match walkF kh key kh.nkeys head with
    | none => none
    | some (some idx) => some (kh, .edup, idx)
    | some none =>
      let kh := if kh.nkeys == kh.kalloc then
          { kh with keyOffset := kh.keyOffset ++ Array.replicate kh.kalloc 0,
                    nxt := kh.nxt ++ Array.replicate kh.kalloc none, kalloc := kh.kalloc * 2 }
        else kh
      let need := kh.smem.size + key.length + 1
      match growTo need need kh.salloc with
      | none => none
      | some salloc =>
        let idx := kh.nkeys
        if ¬ (idx < kh.keyOffset.size ∧ idx < kh.nxt.size ∧ need ≤ salloc) then none
        else
          let kh := { kh with salloc := salloc, keyOffset := kh.keyOffset.set! idx kh.smem.size,
                              smem := kh.smem ++ key.toArray ++ #[0], nkeys := kh.nkeys + 1 }
          let kh := { kh with nxt := kh.nxt.set! idx head, hashtable := kh.hashtable.set! val (some idx) }
          if kh.nkeys > 3 * kh.hashsize then
            match upsizeF H kh with
            | none => none
            | some kh' => some (kh', .ok, idx)
          else some (kh, .ok, idx)

/-- repaired `esl_keyhash_Lookup` (both the `n ≥ 0` call and, after `n = strlen(key)`, the `n = -1` call) -/
def lookupF (H : Key → Nat → Nat) (kh : KH) (key : Key) : Option (Status × Nat) :=
  let val := H key kh.hashsize
  match kh.hashtable[val]? with
  | none => none
  | some head =>
    match walkF kh key kh.nkeys head with
    | none => none
    | some (some idx) => some (.ok, idx)
    | some none => some (.enotfound, 0)

/-- `esl_keyhash_Get(kh, idx)` = `smem + key_offset[idx]`: the stored key is the `key_length` bytes at that address
    (a caller reading it as a C string sees `Keyhash.get`: the bytes before the first NUL) -/
def getF (kh : KH) (idx : Nat) : Option Key :=
  if idx < kh.nkeys then
    match keyLen kh idx with
    | none => none
    | some (off, len) =>
      if 0 ≤ len ∧ off + len.toNat ≤ kh.smem.size then some (kh.smem.extract off (off + len.toNat)).toList else none
  else none

def stepF (H : Key → Nat → Nat) (kh : KH) : Op → Option (KH × Out)
  | .store k => (storeF H kh k).map fun (kh', st, idx) => (kh', .stored (st == .edup) idx)
  | .lookup k => (lookupF H kh k).map fun (st, idx) => (kh, if st == .ok then .found idx else .notfound)
  | .get i => (getF kh i).map fun k => (kh, .key k)
  | .number => some (kh, .num kh.nkeys)
  | .reuse => some (reuse kh, .done)
  | .clone => some (clone kh, .done)
  | .storeStr k => (storeF H kh (cstrOf k)).map fun (kh', st, idx) => (kh', .stored (st == .edup) idx)
  | .lookupStr k => (lookupF H kh (cstrOf k)).map fun (st, idx) => (kh, if st == .ok then .found idx else .notfound)

def runF (H : Key → Nat → Nat) : KH → List Op → Option (List Out)
  | _, [] => some []
  | kh, op :: rest =>
    match stepF H kh op with
    | none => none
    | some (kh', o) => (runF H kh' rest).map (o :: ·)

/-! ## the `n = -1` calls of the repaired code, as written: `val = jenkins_hash(key, -1, hashsize)` (string loop),
`n = strlen(key)`, then the buffer code on `key[0..n)` -/
def lookupStrCF (Hs : Key → Nat → Nat) (kh : KH) (key : Key) : Option (Status × Nat) :=
  let val := Hs key kh.hashsize
  match kh.hashtable[val]? with
  | none => none
  | some head =>
    match walkF kh (key.take (strlen key)) kh.nkeys head with
    | none => none
    | some (some idx) => some (.ok, idx)
    | some none => some (.enotfound, 0)

/-- the slot of the new key comes from the string loop `Hs` on the raw argument; the re-store loop of `key_upsize` uses `H` -/
def storeStrCF (Hs : Key → Nat → Nat) (H : Key → Nat → Nat) (kh : KH) (key : Key) : Option (KH × Status × Nat) :=
  storeF (fun k sz => if k = key.take (strlen key) ∧ sz = kh.hashsize then Hs key sz else H k sz) kh (key.take (strlen key))

/-- state after a history (`none` = fault) -/
def finalKhF (H : Key → Nat → Nat) : KH → List Op → Option KH
  | kh, [] => some kh
  | kh, op :: rest => match stepF H kh op with | none => none | some (kh', _) => finalKhF H kh' rest

end EaselModel.Containers.Keyhash
