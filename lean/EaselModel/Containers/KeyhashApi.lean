import EaselModel.Containers.Keyhash
/-! # esl_keyhash.c — the rest of the public API, line by line (core Lean only; imported by the driver)

* the `n == -1` paths as written: `jenkins_hash`'s string loop (`jenkinsStr`), `esl_keyhash_Lookup`'s `strcmp` chain walk
  (`strcmpAt`, `walkStr`, `lookupStrC`), `esl_keyhash_Store`'s `n = strlen(key)` (`storeStrC`);
* the observers `esl_keyhash_GetNumber`, `esl_keyhash_Sizeof`, `esl_keyhash_Dump`.
`KeyhashApiLemmas.lean` proves that the string paths are the buffer paths applied to the bytes before the first NUL. -/
namespace EaselModel.Containers.Keyhash

/-- the string loop of `jenkins_hash`: `for (; *key != '\0'; key++) { val += *key; … }` (the list end is the terminator of a
    key without NUL) -/
def jenkinsStrLoop : UInt32 → Key → UInt32
  | v, [] => v
  | v, c :: rest => if c == 0 then v else jenkinsStrLoop (jenkinsStep v c) rest

def jenkinsStr (key : Key) (hashsize : Nat) : Nat :=
  (jenkinsFinal (jenkinsStrLoop 0 key)).toNat &&& (hashsize - 1)

/-- `strcmp(key, smem + pos) == 0`; `none`: ran off the used arena -/
def strcmpAt : Key → Array UInt8 → Nat → Option Bool
  | [], m, pos => m[pos]?.map (· == 0)
  | c :: rest, m, pos =>
    match m[pos]? with
    | none => none
    | some s =>
      if c == 0 then some (s == 0)          -- key ends here: equal iff the stored string ends too
      else if c != s then some false
      else strcmpAt rest m (pos+1)

/-- the `n == -1` loop of `esl_keyhash_Lookup`:
    `for (idx = hashtable[val]; idx != -1; idx = nxt[idx]) if (strcmp(key, smem + key_offset[idx]) == 0) return idx;` -/
def walkStr (kh : KH) (key : Key) : Nat → Option Nat → Option (Option Nat)
  | _, none => some none
  | 0, some _ => none
  | f+1, some idx =>
    match kh.keyOffset[idx]? with
    | none => none
    | some off =>
      match strcmpAt key kh.smem off with
      | none => none
      | some true => some (some idx)
      | some false =>
        match kh.nxt[idx]? with
        | none => none
        | some nx => walkStr kh key f nx

/-- `esl_keyhash_Lookup(kh, key, -1, &idx)` as written (string hash, `strcmp` walk) -/
def lookupStrC (Hs : Key → Nat → Nat) (kh : KH) (key : Key) : Option (Status × Nat) :=
  let val := Hs key kh.hashsize
  match kh.hashtable[val]? with
  | none => none
  | some head =>
    match walkStr kh key kh.nkeys head with
    | none => none
    | some (some idx) => some (.ok, idx)
    | some none => some (.enotfound, 0)

/-- `strlen(key)` -/
def strlen : Key → Nat
  | [] => 0
  | c :: rest => if c == 0 then 0 else strlen rest + 1

/-- `esl_keyhash_Store(kh, key, -1, &idx)`: `val = jenkins_hash(key, -1, hashsize); n = strlen(key);` and from there the
    buffer code on `key[0..n)`. The slot of the new key comes from the string loop `Hs` on the raw argument; every other
    hash evaluation (the re-store loop of `key_upsize`, which re-hashes the stored strings) is `H` as in `store`. -/
def storeStrC (Hs : Key → Nat → Nat) (H : Key → Nat → Nat) (kh : KH) (key : Key) : Option (KH × Status × Nat) :=
  store (fun k sz => if k = key.take (strlen key) ∧ sz = kh.hashsize then Hs key sz else H k sz) kh (key.take (strlen key))

/-- `esl_keyhash_GetNumber` -/
def getNumber (kh : KH) : Nat := kh.nkeys

/-- `esl_keyhash_Sizeof(kh) - sizeof(ESL_KEYHASH)`: `sizeof(int)*hashsize + sizeof(int)*kalloc*2 + sizeof(char)*salloc` -/
def sizeofArrays (kh : KH) : Nat := 4 * kh.hashsize + 4 * kh.kalloc * 2 + kh.salloc

/-- `for (nkeys = 0, idx = hashtable[h]; idx != -1; idx = nxt[idx]) nkeys++;` — `none`: index out of bounds or a cycle -/
def chainLen (kh : KH) : Nat → Option Nat → Option Nat
  | _, none => some 0
  | 0, some _ => none
  | f+1, some idx =>
    match kh.nxt[idx]? with
    | none => none
    | some nx => (chainLen kh f nx).map (· + 1)

structure DumpInfo where
  nkeys : Nat
  hashsize : Nat
  nempty : Nat
  maxkeys : Int        -- initialised to -1
  minkeys : Int        -- initialised to INT_MAX
  kalloc : Nat
  salloc : Nat
  sn : Nat
deriving Repr, DecidableEq

/-- the slot loop of `esl_keyhash_Dump` -/
def dumpLoop (kh : KH) : Nat → Nat → Nat → Int → Int → Option (Nat × Int × Int)
  | 0, _, nempty, mx, mn => some (nempty, mx, mn)
  | c+1, h, nempty, mx, mn =>
    match kh.hashtable[h]? with
    | none => none
    | some head =>
      match chainLen kh kh.nkeys head with
      | none => none
      | some n =>
        dumpLoop kh c (h+1) (if n = 0 then nempty + 1 else nempty) (if (n : Int) > mx then n else mx) (if (n : Int) < mn then n else mn)

/-- `esl_keyhash_Dump`: the numbers it prints -/
def dump (kh : KH) : Option DumpInfo :=
  match dumpLoop kh kh.hashsize 0 0 (-1) 2147483647 with
  | none => none
  | some (nempty, mx, mn) =>
    some { nkeys := kh.nkeys, hashsize := kh.hashsize, nempty := nempty, maxkeys := mx, minkeys := mn,
           kalloc := kh.kalloc, salloc := kh.salloc, sn := kh.smem.size }

end EaselModel.Containers.Keyhash
