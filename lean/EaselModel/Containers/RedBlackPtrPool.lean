import EaselModel.Containers.RedBlackPtrHistory
/-! # Pointer histories with the node pool: take a record from the free list, write the key, insert; a refused record
(duplicate key) goes back to the free list and is the next one taken. No record is lost, none is handed out twice. -/
namespace EaselModel.Containers.RedBlackPtr
open EaselModel.Containers.RedBlack

/-- the free list: a `large`-chain of records that are not linked into any tree (`parent == NULL`) -/
def FreeList (st : Store) : Ptr → List Nat → Prop
  | p, [] => p = none
  | p, n :: l => p = some n ∧ ∃ nd, rd st n = some nd ∧ nd.parent = none ∧ FreeList st nd.large l

theorem FreeList.congr {st st' : Store} : ∀ {l : List Nat} {p : Ptr}, (∀ i ∈ l, rd st' i = rd st i) → FreeList st p l → FreeList st' p l
  | [], _, _, h => h
  | n :: l, _, hc, ⟨hp, nd, hr, hpar, hrest⟩ =>
    ⟨hp, nd, by rw [hc n List.mem_cons_self]; exact hr, hpar, FreeList.congr (fun i hi => hc i (List.mem_cons_of_mem _ hi)) hrest⟩

/-- the caller's loop with a pool -/
def insertPool (st : Store) (tree pool : Ptr) : List Int → Option (Store × Ptr × Ptr)
  | [] => some (st, tree, pool)
  | k :: ks =>
    match poolTake st pool with
    | none => none
    | some (n, pool') =>
      match wr st n (fun nd => { nd with key := k }) with
      | none => none
      | some st1 =>
        match insert st1 tree n with
        | none => none
        | some (st2, none) =>
          match poolGive st2 pool' n with
          | none => none
          | some (st3, pool'') => insertPool st3 tree pool'' ks
        | some (st2, some r) => insertPool st2 (some r) pool' ks

/-- a refused record is still there afterwards (the only write was its own reset) -/
theorem insert_null_node {st st' : Store} {root node : Nat} {nn : Node} (hr : rd st node = some nn)
    (h : insert st (some root) node = some (st', none)) :
    rd st' node = some { nn with color := .red, small := none, large := none } := by
  have hw := wr_of_rd (fun nd => { nd with color := .red, small := none, large := none }) hr
  have hn1 := rd_set_same ({ nn with color := .red, small := none, large := none } : Node) hr
  simp only [insert, hw, hn1] at h
  split at h
  · cases h
  · simp only [Option.some.injEq, Prod.mk.injEq, and_true] at h
    rw [← h]; exact hn1
  · split at h
    · cases h
    · split at h
      · cases h
      · split at h
        · cases h
        · split at h
          · cases hreb : rebalance _ _ root node with
            | none => rw [hreb] at h; cases h
            | some v => rw [hreb] at h; cases v; simp at h
          · simp at h


/-- EVERY HISTORY THROUGH THE POOL: for any well-formed tree laid out in the store, any free list of distinct unlinked records
    disjoint from it, and any key list no longer than the free list: the loop never fails; afterwards the store lays out exactly
    `Tree.insertAll` of the keys, the free list is again a chain of unlinked records, and tree records + free records are a
    PERMUTATION of what they were before — no record is lost, none is in the tree and in the pool at once, none is handed out
    twice; a refused record is the next one taken; nothing else is written -/
theorem insertPool_refines : ∀ (ks : List Int) (st : Store) (tree pool : Ptr) (t : Shape) (l : List Nat),
    ReprP st t tree none → (t.ids ++ l).Nodup → Tree.WF (absTree st t) → FreeList st pool l → ks.length ≤ l.length →
    ∃ st' tree' pool' t' l', insertPool st tree pool ks = some (st', tree', pool') ∧ ReprP st' t' tree' none ∧
      FreeList st' pool' l' ∧ (t'.ids ++ l').Perm (t.ids ++ l) ∧
      Tree.insertAll (absTree st t) ks = some (absTree st' t') ∧ Tree.WF (absTree st' t') ∧
      (∀ j, j ∉ t.ids ++ l → rd st' j = rd st j)
  | [], st, tree, pool, t, l, hrep, _, hwf, hfree, _ =>
    ⟨st, tree, pool, t, l, rfl, hrep, hfree, List.Perm.refl _, rfl, hwf, fun _ _ => rfl⟩
  | k :: ks, st, tree, pool, t, [], _, _, _, _, hlen => by simp at hlen
  | k :: ks, st, tree, pool, t, n :: l', hrep, hnd, hwf, hfree, hlen => by
    obtain ⟨hpool, nd, hr, hpar, hrest⟩ := hfree
    subst hpool
    obtain ⟨hnt, hnl, hndt, hndl, hdisj⟩ := nodup_mid hnd
    have hw := wr_of_rd (fun nd => { nd with key := k }) hr
    have hn1 : rd (st.setIfInBounds n { nd with key := k }) n = some { nd with key := k } := rd_set_same _ hr
    have hoth : ∀ j, j ≠ n → rd (st.setIfInBounds n { nd with key := k }) j = rd st j := fun j hj => rd_set_ne st _ hj
    generalize hst1 : st.setIfInBounds n { nd with key := k } = st1 at hw hn1 hoth
    have hids1 : ∀ i ∈ t.ids, rd st1 i = rd st i := fun i hi => hoth i (fun e => hnt (e ▸ hi))
    have hrep1 : ReprP st1 t tree none := ReprP.congr hids1 hrep
    have habs1 : absTree st1 t = absTree st t := absTree_congr hids1
    have hl1 : ∀ i ∈ l', rd st1 i = rd st i := fun i hi => hoth i (fun e => hnl (e ▸ hi))
    obtain ⟨T1, b, hins, hwf1, hb1, _, _⟩ := Tree.insert_spec (absTree st t) k hwf
    have step : ∃ st2 tree2 pool2 t2 l2, insertPool st tree (some n) (k :: ks) = insertPool st2 tree2 pool2 ks ∧
        ReprP st2 t2 tree2 none ∧ FreeList st2 pool2 l2 ∧ (t2.ids ++ l2).Perm (t.ids ++ n :: l') ∧ absTree st2 t2 = T1 ∧
        (∀ j, j ∉ t.ids ++ n :: l' → rd st2 j = rd st j) ∧ ks.length ≤ l2.length := by
      have hnotin : ∀ j, j ∉ t.ids ++ n :: l' → j ≠ n := fun j hj e => hj (by simp [e])
      cases tree with
      | none =>
        have ht : t = .nil := by cases t with
          | nil => rfl
          | node a i b => obtain ⟨h, _⟩ := hrep; cases h
        subst ht
        obtain ⟨st2, h1, h2, h3⟩ := insert_empty hn1
        refine ⟨st2, some n, nd.large, .node .nil n .nil, l', by simp only [insertPool, poolTake, hr, Option.map_some, hw, h1],
          ⟨rfl, _, h3, hpar, rfl, rfl⟩, FreeList.congr (fun i hi => by rw [h2 i (fun e => hnl (e ▸ hi)), hl1 i hi]) hrest,
          by simp [Shape.ids], ?_, fun j hj => by rw [h2 j (hnotin j hj), hoth j (hnotin j hj)], by simpa using hlen⟩
        have : Tree.insert (absTree st .nil) k = some (.node .black .nil k .nil, true) := rfl
        rw [this] at hins
        simp only [Option.some.injEq, Prod.mk.injEq] at hins
        rw [← hins.1]
        simp only [absTree, h3]
      | some root =>
        obtain ⟨_, hdupc, hnewc⟩ := insert_refines_insert hrep1 hndt hnt hn1
        have hins1 : Tree.insert (absTree st1 t) k = some (T1, b) := by rw [habs1]; exact hins
        cases b with
        | false =>
          obtain ⟨hT, st2, h1, h2⟩ := hdupc T1 hins1
          have hn2 := insert_null_node hn1 h1
          obtain ⟨st3, g1, _, g3, g4⟩ := poolGive_take (pool := nd.large) hn2
          have hall : ∀ j, j ≠ n → rd st3 j = rd st j := fun j hj => by rw [g3 j hj, h2 j hj, hoth j hj]
          refine ⟨st3, some root, some n, t, n :: l', by simp only [insertPool, poolTake, hr, Option.map_some, hw, h1, g1],
            ReprP.congr (fun i hi => hall i (fun e => hnt (e ▸ hi))) hrep,
            ⟨rfl, _, g4, hpar, FreeList.congr (fun i hi => hall i (fun e => hnl (e ▸ hi))) hrest⟩, List.Perm.refl _, ?_,
            fun j hj => hall j (hnotin j hj), by simp at hlen ⊢; omega⟩
          rw [absTree_congr (fun i hi => hall i (fun e => hnt (e ▸ hi))), hT, habs1]
        | true =>
          obtain ⟨st2, root1, t1, h1, h2, h3, h4, h5⟩ := hnewc T1 hins1
          have hl2 : ∀ i ∈ l', rd st2 i = rd st i := fun i hi => by
            rw [h5 i (by
              simp only [List.mem_cons, not_or]
              exact ⟨fun e => hnl (e ▸ hi), fun h => hdisj i h hi⟩), hl1 i hi]
          refine ⟨st2, some root1, nd.large, t1, l', by simp only [insertPool, poolTake, hr, Option.map_some, hw, h1], h2,
            FreeList.congr hl2 hrest, ?_, h3, fun j hj => ?_, by simp at hlen ⊢; omega⟩
          · exact (h4.append_right l').trans (by simpa using (List.perm_middle (l₁ := t.ids) (l₂ := l') (a := n)).symm)
          · have hj1 : j ∉ n :: t.ids := fun h => hj (by
              rcases List.mem_cons.mp h with e | e
              · simp [e]
              · simp [e])
            rw [h5 j hj1, hoth j (hnotin j hj)]
    obtain ⟨st2, tree2, pool2, t2, l2, e1, hrep2, hfree2, hperm2, habs2, hout2, hlen2⟩ := step
    have hnd2 : (t2.ids ++ l2).Nodup := hperm2.nodup_iff.mpr hnd
    obtain ⟨st', tree', pool', t', l', k1, k2, k3, k4, k5, k6, k7⟩ :=
      insertPool_refines ks st2 tree2 pool2 t2 l2 hrep2 hnd2 (habs2 ▸ hwf1) hfree2 hlen2
    refine ⟨st', tree', pool', t', l', e1.trans k1, k2, k3, k4.trans hperm2, ?_, k6, fun j hj => ?_⟩
    · simp only [Tree.insertAll, hins]
      rw [← habs2]; exact k5
    · rw [k7 j (fun h => hj (hperm2.mem_iff.mp h)), hout2 j hj]


/-- a fresh block of `pool_Create(number)` is a free list of its `number` records in address order -/
theorem freeList_block (st : Store) (number : Nat) : ∀ (k j : Nat), j + k = number →
    FreeList (poolCreate st number).1 (if j < number then some (st.size + j) else none) (List.range' (st.size + j) k)
  | 0, j, h => by
    have : ¬ j < number := by omega
    simp [FreeList, this]
  | k+1, j, h => by
    have hj : j < number := by omega
    simp only [hj, ↓reduceIte, List.range'_succ]
    refine ⟨rfl, _, rd_poolCreate_new st number j hj, rfl, ?_⟩
    have := freeList_block st number k (j + 1) (by omega)
    simpa [Nat.add_assoc] using this

theorem poolCreate_ptr (st : Store) (number : Nat) :
    (poolCreate st number).2 = if 0 < number then some (st.size + 0) else none := by
  unfold poolCreate
  by_cases h : number = 0
  · simp [h]
  · have : 0 < number := by omega
    simp [h, this]

/-- END TO END with give-back: `pool_Create(|ks|)`, then for every key: take the head of the free list, write the key, insert,
    give a refused record back. For EVERY key list: never fails; the tree is `Tree.insertAll .nil ks`; tree records + records
    still free are exactly the block (a permutation) -/
theorem pool_giveback_history (st : Store) (ks : List Int) :
    ∃ st' tree' pool' t' l', insertPool (poolCreate st ks.length).1 none (poolCreate st ks.length).2 ks = some (st', tree', pool') ∧
      ReprP st' t' tree' none ∧ FreeList st' pool' l' ∧ (t'.ids ++ l').Perm (List.range' st.size ks.length) ∧
      Tree.insertAll .nil ks = some (absTree st' t') ∧ Tree.WF (absTree st' t') ∧ (∀ j, j < st.size → rd st' j = rd st j) := by
  have hfree := freeList_block st ks.length ks.length 0 (by omega)
  rw [← poolCreate_ptr] at hfree
  simp only [Nat.add_zero] at hfree
  obtain ⟨st', tree', pool', t', l', h1, h2, h3, h4, h5, h6, h7⟩ :=
    insertPool_refines ks (poolCreate st ks.length).1 none (poolCreate st ks.length).2 .nil (List.range' st.size ks.length)
      rfl (by simpa [Shape.ids] using (List.nodup_range' (s := st.size) (n := ks.length))) Tree.wf_nil hfree (by simp)
  refine ⟨st', tree', pool', t', l', h1, h2, h3, by simpa [Shape.ids] using h4, h5, h6, fun j hj => ?_⟩
  rw [h7 j (by
    simp only [Shape.ids, List.nil_append]
    intro h
    have := (List.mem_range'_1.mp h).1
    omega), rd_poolCreate_old st _ j hj]

end EaselModel.Containers.RedBlackPtr
