import EaselModel.Containers.HeapLemmas
/-! # esl_heap.c — every history of operations refines the sorted-list priority queue -/
namespace EaselModel.Containers.Heap

/-- operations of a history -/
inductive HOp | insert (v : Int) | extract | extractNull | top | count | reuse
deriving Repr

inductive HOut | done | val (v : Int) | eod | num (n : Nat)
deriving DecidableEq, Repr

/-- one operation on the model heap; `none` = fault -/
def stepH (h : Heap) : HOp → Option (Heap × HOut)
  | .insert v => (insert h v).map fun h' => (h', .done)
  | .extract => (extractTop h).map fun (h', ok, v) => (h', if ok then .val v else .eod)
  | .extractNull => (extractTopNull h).map fun (h', ok) => (h', if ok then .done else .eod)
  | .top => some (h, .val (topVal h))
  | .count => some (h, .num h.data.size)
  | .reuse => some (reuse h, .done)

def runH : Heap → List HOp → Option (List HOut)
  | _, [] => some []
  | h, op :: rest =>
    match stepH h op with
    | none => none
    | some (h', o) => (runH h' rest).map (o :: ·)

/-- the abstract type: the multiset kept as a list sorted best-first
    (`isMax = false`: ascending, `true`: descending) -/
def specInsert (isMax : Bool) (v : Int) : List Int → List Int
  | [] => [v]
  | x :: xs => if better isMax x v then x :: specInsert isMax v xs else v :: x :: xs

def specStepH (isMax : Bool) (l : List Int) : HOp → (List Int × HOut)
  | .insert v => (specInsert isMax v l, .done)
  | .extract => match l with | [] => ([], .eod) | x :: xs => (xs, .val x)
  | .extractNull => match l with | [] => ([], .eod) | _ :: xs => (xs, .done)
  | .top => (l, .val (match l with | [] => 0 | x :: _ => x))
  | .count => (l, .num l.length)
  | .reuse => ([], .done)

def specRunH (isMax : Bool) : List Int → List HOp → List HOut
  | _, [] => []
  | l, op :: rest => let (l', o) := specStepH isMax l op; o :: specRunH isMax l' rest

/-- the refinement relation -/
def Rel (h : Heap) (l : List Int) : Prop := Inv h ∧ h.data.toList.Perm l ∧ SortedBy h.isMax l

/-! ## the abstract insert -/

theorem eq_of_not_better (mx : Bool) {a b : Int} (h1 : ¬ better mx a b = true)
    (h2 : ¬ better mx b a = true) : a = b := by
  cases mx <;> simp [better] at * <;> omega

theorem specInsert_perm (mx : Bool) (v : Int) (l : List Int) :
    (specInsert mx v l).Perm (v :: l) := by
  induction l with
  | nil => exact List.Perm.refl _
  | cons x xs ih =>
    unfold specInsert
    split
    · exact (List.Perm.cons x ih).trans (List.Perm.swap v x xs)
    · exact List.Perm.refl _

theorem specInsert_sorted (mx : Bool) (v : Int) (l : List Int) (hs : SortedBy mx l) :
    SortedBy mx (specInsert mx v l) := by
  induction l with
  | nil => exact List.pairwise_singleton _ _
  | cons x xs ih =>
    obtain ⟨hx, hxs⟩ := List.pairwise_cons.1 hs
    unfold specInsert
    split
    · rename_i hb
      refine List.pairwise_cons.2 ⟨?_, ih hxs⟩
      intro y hy
      rcases List.mem_cons.1 ((specInsert_perm mx v xs).mem_iff.1 hy) with rfl | hy
      · exact better_asymm mx hb
      · exact hx y hy
    · rename_i hb
      refine List.pairwise_cons.2 ⟨?_, hs⟩
      intro y hy
      rcases List.mem_cons.1 hy with rfl | hy
      · exact hb
      · exact not_better_trans mx (hx y hy) hb

/-- the best element of a sorted list is its head -/
theorem best_eq_head (mx : Bool) (x v : Int) (xs : List Int) (hs : SortedBy mx (x :: xs))
    (hv : v ∈ x :: xs) (hb : ∀ y ∈ x :: xs, ¬ better mx y v = true) : v = x := by
  obtain ⟨hx, _⟩ := List.pairwise_cons.1 hs
  rcases List.mem_cons.1 hv with rfl | hv
  · rfl
  · exact eq_of_not_better mx (hx v hv) (hb x (List.mem_cons_self))

theorem rel_nil_size {h : Heap} (hr : Rel h []) : h.data.size = 0 := by
  have := hr.2.1.length_eq
  simpa using this

theorem rel_cons_size {h : Heap} {x : Int} {xs : List Int} (hr : Rel h (x :: xs)) :
    0 < h.data.size := by
  have := hr.2.1.length_eq
  simp at this; omega

/-- `topVal` of a non-empty heap is the head of the sorted list -/
theorem topVal_eq_head {h : Heap} {x : Int} {xs : List Int} (hr : Rel h (x :: xs)) :
    topVal h = x := by
  have hne := rel_cons_size hr
  obtain ⟨hi, hp, hs⟩ := hr
  have h0 : h.data[0]? = some (h.data[0]!) := (getElem?_eq_some_iff' _ _ _).2 ⟨hne, rfl⟩
  have ht : topVal h = h.data[0]! := by unfold topVal; rw [h0]
  rw [ht]
  apply best_eq_head h.isMax x _ xs hs
  · exact hp.mem_iff.1 ((mem_toList_iff_get _ _).2 ⟨0, hne, rfl⟩)
  · intro y hy
    obtain ⟨i, hi', he⟩ := (mem_toList_iff_get _ _).1 (hp.mem_iff.2 hy)
    rw [← he]
    exact HO_root (mx := h.isMax) (d := h.data) hi.1 i hi'

/-- non-empty extraction: the extracted value is the head, the rest refines the tail -/
theorem extract_cons {h : Heap} {x : Int} {xs : List Int} (hr : Rel h (x :: xs)) :
    ∃ h', extractTop h = some (h', true, x) ∧ h'.isMax = h.isMax ∧ Rel h' xs := by
  have hne := rel_cons_size hr
  obtain ⟨hi, hp, hs⟩ := hr
  obtain ⟨h', v, he, hi', hmx, hpv, hbest⟩ := extractTop_spec h hi hne
  have hvx : v = x := by
    apply best_eq_head h.isMax x v xs hs
    · exact hp.mem_iff.1 (hpv.mem_iff.1 List.mem_cons_self)
    · intro y hy; exact hbest y (hp.mem_iff.2 hy)
  subst hvx
  refine ⟨h', he, hmx, hi', (hpv.trans hp).cons_inv, ?_⟩
  rw [hmx]
  exact (List.pairwise_cons.1 hs).2

theorem stepH_refines (h : Heap) (l : List Int) (hr : Rel h l) (op : HOp) :
    ∃ h', stepH h op = some (h', (specStepH h.isMax l op).2) ∧ h'.isMax = h.isMax ∧
      Rel h' (specStepH h.isMax l op).1 := by
  cases op with
  | insert v =>
    obtain ⟨hi, hp, hs⟩ := hr
    obtain ⟨h', he, hi', hmx, hp'⟩ := insert_spec h v hi
    refine ⟨h', by simp [stepH, specStepH, he], hmx, hi', ?_, ?_⟩
    · exact (hp'.trans (List.Perm.cons v hp)).trans (specInsert_perm h.isMax v l).symm
    · rw [hmx]; exact specInsert_sorted h.isMax v l hs
  | extract =>
    cases l with
    | nil =>
      refine ⟨h, ?_, rfl, hr⟩
      simp [stepH, specStepH, extractTop_empty h (rel_nil_size hr)]
    | cons x xs =>
      obtain ⟨h', he, hmx, hr'⟩ := extract_cons hr
      exact ⟨h', by simp [stepH, specStepH, he], hmx, hr'⟩
  | extractNull =>
    cases l with
    | nil =>
      refine ⟨h, ?_, rfl, hr⟩
      simp [stepH, specStepH, extractTopNull, extractTop_empty h (rel_nil_size hr)]
    | cons x xs =>
      obtain ⟨h', he, hmx, hr'⟩ := extract_cons hr
      exact ⟨h', by simp [stepH, specStepH, extractTopNull, he], hmx, hr'⟩
  | top =>
    refine ⟨h, ?_, rfl, hr⟩
    cases l with
    | nil =>
      have h0 := rel_nil_size hr
      have : h.data[0]? = none := by simp [h0]
      simp [stepH, specStepH, topVal, this]
    | cons x xs =>
      simp [stepH, specStepH, topVal_eq_head hr]
  | count =>
    refine ⟨h, ?_, rfl, hr⟩
    have := hr.2.1.length_eq
    simp at this
    simp [stepH, specStepH, this]
  | reuse =>
    refine ⟨reuse h, rfl, rfl, ?_, ?_, List.Pairwise.nil⟩
    · obtain ⟨_, _, hpos⟩ := hr.1
      refine ⟨?_, ?_, hpos⟩ <;> simp [reuse]
    · simp [reuse, specStepH]

/-- every history, from any related pair of states -/
theorem runH_refines (ops : List HOp) (h : Heap) (l : List Int) (hr : Rel h l) :
    runH h ops = some (specRunH h.isMax l ops) := by
  induction ops generalizing h l with
  | nil => rfl
  | cons op rest ih =>
    obtain ⟨h', he, hmx, hr'⟩ := stepH_refines h l hr op
    have := ih h' _ hr'
    simp only [runH, he, this, specRunH, hmx, Option.map_some]

/-- MAIN: for every history (any interleaving of insertions, extractions with or without result
    pointer, peeks, counts, reuse) and both heap directions: no fault, and the outputs are those of
    the sorted-list priority queue -/
theorem heap_history_refines (isMax : Bool) (ops : List HOp) :
    runH (create isMax) ops = some (specRunH isMax [] ops) := by
  have hr : Rel (create isMax) [] :=
    ⟨inv_create isMax, by simp [create], List.Pairwise.nil⟩
  exact runH_refines ops (create isMax) [] hr

/-! ## non-vacuity -/

example : runH (create false)
    [.insert 5, .insert 3, .top, .extract, .extractNull, .extract, .count] =
    some [.done, .done, .val 3, .val 3, .done, .eod, .num 0] := by decide +kernel

example : runH (create true)
    [.insert 5, .insert 3, .insert 9, .top, .extract, .count, .reuse, .count, .extractNull] =
    some [.done, .done, .done, .val 9, .val 9, .num 2, .done, .num 0, .eod] := by decide +kernel

end EaselModel.Containers.Heap
