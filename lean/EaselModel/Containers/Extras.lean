import EaselModel.Containers.HeapLemmas
import EaselModel.Containers.StackHistory
import EaselModel.Containers.RedBlackLemmas
/-! # Smaller additions: `heap_grow` as its own step, red-black histories of inserts and lookups, the stack's
mutex mode as atomic operations. -/
namespace EaselModel.Containers

/-! ## heap_grow -/
namespace Heap
/-- `heap_grow(hp)`: `ESL_REALLOC(hp->idata, sizeof(int) * (hp->nalloc*2)); hp->nalloc += hp->nalloc;` — the `n` used cells
    keep their content, the allocation doubles -/
def grow (h : Heap) : Heap := { h with nalloc := h.nalloc + h.nalloc }

/-- growth preserves the heap: same cells in the same places (hence the heap order and the multiset), same direction,
    and afterwards there is room: `n < nalloc`, so the `idata[n]` written by the insertion is inside the allocation -/
theorem grow_inv (h : Heap) (hi : Inv h) :
    Inv (grow h) ∧ (grow h).data = h.data ∧ (grow h).isMax = h.isMax ∧ (grow h).nalloc = 2 * h.nalloc ∧
      h.data.size < (grow h).nalloc := by
  obtain ⟨h1, h2, h3⟩ := hi
  refine ⟨⟨h1, ?_, ?_⟩, rfl, rfl, ?_, ?_⟩ <;> simp only [grow] <;> omega

/-- `esl_heap_IInsert` on a full heap is `heap_grow` followed by the insertion into the grown heap; and it grows only then -/
theorem insert_full_eq (h : Heap) (v : Int) (hi : Inv h) (hfull : h.data.size = h.nalloc) : insert h v = insert (grow h) v := by
  obtain ⟨_, _, hpos⟩ := hi
  have e1 : (h.data.size == h.nalloc) = true := by simpa using hfull
  have e2 : (h.data.size == h.nalloc + h.nalloc) = false := by simp; omega
  have e3 : h.nalloc * 2 = h.nalloc + h.nalloc := by omega
  simp only [insert, grow, e1, e2, e3, ↓reduceIte, Bool.false_eq_true]

theorem insert_nalloc (h h' : Heap) (v : Int) (hi : insert h v = some h') :
    h'.nalloc = if h.data.size = h.nalloc then 2 * h.nalloc else h.nalloc := by
  obtain ⟨d', hd⟩ : ∃ d', h' = { h with data := d', nalloc := if h.data.size == h.nalloc then h.nalloc * 2 else h.nalloc } := by
    unfold insert at hi
    simp only at hi
    by_cases hgt : h.data.size + 1 > (if h.data.size == h.nalloc then h.nalloc * 2 else h.nalloc)
    · rw [if_pos hgt] at hi; cases hi
    · rw [if_neg hgt] at hi
      cases hsu : siftUp h.isMax v ((h.data.push v).size + 1) (h.data.push v) ((h.data.push v).size - 1) with
      | none => rw [hsu] at hi; cases hi
      | some d' => rw [hsu] at hi; exact ⟨d', (Option.some.inj hi).symm⟩
  subst hd
  show (if (h.data.size == h.nalloc) = true then h.nalloc * 2 else h.nalloc) = _
  by_cases he : h.data.size = h.nalloc
  · have e : (h.data.size == h.nalloc) = true := by simpa using he
    rw [if_pos e, if_pos he]; omega
  · have e : (h.data.size == h.nalloc) = false := by simpa using he
    rw [if_neg (by simp [e]), if_neg he]
end Heap

/-! ## red-black: histories of insertions and lookups refine the set of inserted keys -/
namespace RedBlack
open Tree

inductive RbOp | insert (k : Int) | lookup (k : Int)

/-- answers: `insert` ↦ "was inserted" (`false`: the C function returned NULL, duplicate), `lookup` ↦ "found" -/
def runRb : Tree Int → List RbOp → Option (List Bool)
  | _, [] => some []
  | t, .insert k :: r =>
    match Tree.insert t k with
    | none => none
    | some (t', b) => (runRb t' r).map (b :: ·)
  | t, .lookup k :: r => (runRb t r).map (Tree.lookup k t :: ·)

/-- the abstract type: the set of inserted keys (kept as a duplicate-free list) -/
def specRunRb : List Int → List RbOp → List Bool
  | _, [] => []
  | s, .insert k :: r => (!decide (k ∈ s)) :: specRunRb (if k ∈ s then s else k :: s) r
  | s, .lookup k :: r => decide (k ∈ s) :: specRunRb s r

theorem runRb_spec (ops : List RbOp) : ∀ (t : Tree Int) (s : List Int), WF t → (∀ x, x ∈ toList t ↔ x ∈ s) →
    runRb t ops = some (specRunRb s ops) := by
  induction ops with
  | nil => intro t s _ _; rfl
  | cons op rest ih =>
    intro t s hwf hs
    cases op with
    | insert k =>
      obtain ⟨t', b, h1, h2, h3, _, h5⟩ := insert_spec t k hwf
      have hb : b = !decide (k ∈ s) := by
        cases b with
        | false => have := (hs k).mp (h3.mp rfl); simp [this]
        | true =>
          have : ¬ k ∈ s := fun hk => by have := h3.mpr ((hs k).mpr hk); cases this
          simp [this]
      have hs' : ∀ x, x ∈ toList t' ↔ x ∈ (if k ∈ s then s else k :: s) := by
        intro x
        rw [h5 x, hs x]
        by_cases hk : k ∈ s
        · simp only [hk, ↓reduceIte]
          constructor
          · rintro (rfl | h)
            · exact hk
            · exact h
          · exact Or.inr
        · simp [hk]
      simp only [runRb, h1, specRunRb, ih t' _ h2 hs', Option.map_some, hb]
    | lookup k =>
      have : Tree.lookup k t = decide (k ∈ s) := by
        have h := lookup_iff t hwf.1 k
        by_cases hk : k ∈ s
        · simp [hk, h.mpr ((hs k).mpr hk)]
        · have : ¬ Tree.lookup k t = true := fun hl => hk ((hs k).mp (h.mp hl))
          simp [hk, this]
      simp only [runRb, specRunRb, ih t s hwf hs, Option.map_some, this]
end RedBlack

/-! ## stacks in mutex mode: operations are atomic, so a concurrent execution is an interleaving -/
namespace Stack
variable {α : Type}

/-- `l` is an interleaving of `a` and `b` (each thread's operations stay in program order) -/
inductive Interleave {β : Type} : List β → List β → List β → Prop
  | nil : Interleave [] [] []
  | left (x : β) {a b l : List β} : Interleave a b l → Interleave (x :: a) b (x :: l)
  | right (x : β) {a b l : List β} : Interleave a b l → Interleave a (x :: b) (x :: l)

theorem Interleave.mem {β : Type} {a b l : List β} (h : Interleave a b l) : ∀ x ∈ l, x ∈ a ∨ x ∈ b := by
  induction h with
  | nil => intro x hx; cases hx
  | left y _ ih =>
    intro x hx
    rcases List.mem_cons.mp hx with rfl | h
    · left; simp
    · rcases ih x h with h | h
      · left; simp [h]
      · right; exact h
  | right y _ ih =>
    intro x hx
    rcases List.mem_cons.mp hx with rfl | h
    · right; simp
    · rcases ih x h with h | h
      · left; exact h
      · right; simp [h]

/-- with `esl_stack_UseMutex` every public operation runs between `pthread_mutex_lock` and `pthread_mutex_unlock`
    (MODELLING ASSUMPTION: hence atomic). Then whatever the scheduler does with two threads' operation sequences, the
    answers are those of the LIFO list on the interleaving that happened. (A `Pop` that waits on the condition variable
    for a pusher is the same atomic `Pop` taken later in the interleaving.) -/
theorem threads_atomic (rollFuel : Nat) (s : Stack α) (hi : Inv s) (a b l : List (SOp α)) (hl : Interleave a b l)
    (ha : ∀ op ∈ a, op.isShuffle = false) (hb : ∀ op ∈ b, op.isShuffle = false) :
    runS rollFuel s l = some (specRunS s.data.toList l) :=
  stack_history_refines rollFuel s hi l (fun op hop => by
    rcases hl.mem op hop with h | h
    · exact ha op h
    · exact hb op h)
end Stack

end EaselModel.Containers
