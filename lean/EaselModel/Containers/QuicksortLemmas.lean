import EaselModel.Containers.Quicksort

/-! # esl_quicksort.c — correctness of the executable model

Main results: `quicksort_spec` (for `n ≥ 1`, fuel `≥ n`: no fault, no fuel exhaustion, the result is a
permutation of `0..n-1` that orders the data w.r.t. any total-preorder comparison callback) and
`quicksort_zero_faults` (`n = 0` reads `ord[-1]`). -/
namespace EaselModel.Containers.Quicksort

/-- the comparison callback is a total preorder on the identifiers (−/0/+ convention) -/
structure TotalPreorder (cmp : Nat → Nat → Int) : Prop where
  antisymm_sign : ∀ a b, cmp a b < 0 ↔ cmp b a > 0
  trans_le : ∀ a b c, cmp a b ≤ 0 → cmp b c ≤ 0 → cmp a c ≤ 0

theorem TotalPreorder.refl {cmp : Nat → Nat → Int} (hc : TotalPreorder cmp) (a : Nat) : cmp a a = 0 := by
  have h := hc.antisymm_sign a a
  omega

/-- `0 ≤ cmp b a` (i.e. `b ≥ a`) gives `cmp a b ≤ 0` -/
theorem TotalPreorder.flip {cmp : Nat → Nat → Int} (hc : TotalPreorder cmp) {a b : Nat}
    (h : 0 ≤ cmp b a) : cmp a b ≤ 0 := by
  have h' := hc.antisymm_sign b a
  omega

/-! ## the `Out` monad -/

@[simp] theorem bind_ok {α β : Type} (a : α) (f : α → Out β) : (Out.ok a >>= f) = f a := rfl
@[simp] theorem bind_fault {α β : Type} (f : α → Out β) : ((Out.fault : Out α) >>= f) = .fault := rfl
@[simp] theorem bind_nofuel {α β : Type} (f : α → Out β) : ((Out.nofuel : Out α) >>= f) = .nofuel := rfl
@[simp] theorem pure_eq_ok {α : Type} (a : α) : (pure a : Out α) = .ok a := rfl

/-! ## reads, writes, swaps -/

theorem rd_ok (ord : Array Nat) (k : Nat) (hk : k < ord.size) : rd ord (k : Int) = .ok ord[k]! := by
  unfold rd
  have h1 : ¬ ((k : Int) < 0) := by omega
  simp [h1, hk]

theorem wr_ok (ord : Array Nat) (k : Nat) (v : Nat) (hk : k < ord.size) :
    wr ord (k : Int) v = .ok (ord.setIfInBounds k v) := by
  unfold wr
  have h1 : ¬ ((k : Int) < 0) := by omega
  simp [h1, hk]

theorem get_set (ord : Array Nat) (i k v : Nat) :
    (ord.setIfInBounds i v)[k]! = if i = k ∧ i < ord.size then v else ord[k]! := by
  simp only [getElem!_def, Array.getElem?_setIfInBounds]
  by_cases h : i = k
  · subst h
    by_cases h2 : i < ord.size
    · simp [h2]
    · simp [h2]
  · simp [h]

/-- the three-assignment swap `t = ord[i]; ord[i] = ord[j]; ord[j] = t` as the model performs it -/
def sw (ord : Array Nat) (i j : Nat) : Array Nat :=
  (ord.setIfInBounds j ord[i]!).setIfInBounds i ord[j]!

theorem sw_size (ord : Array Nat) (i j : Nat) : (sw ord i j).size = ord.size := by
  simp [sw]

theorem sw_get (ord : Array Nat) (i j k : Nat) (hi : i < ord.size) (hj : j < ord.size) :
    (sw ord i j)[k]! = if k = i then ord[j]! else if k = j then ord[i]! else ord[k]! := by
  simp only [sw, get_set, Array.size_setIfInBounds]
  by_cases h1 : k = i
  · subst h1; simp [hi]
  · by_cases h2 : k = j
    · subst h2
      have : ¬ i = k := fun h => h1 h.symm
      simp [hj, this, h1]
    · have a : ¬ i = k := fun h => h1 h.symm
      have b : ¬ j = k := fun h => h2 h.symm
      simp [h1, h2, a, b]

theorem sw_perm (ord : Array Nat) (i j : Nat) (hi : i < ord.size) (hj : j < ord.size) :
    (sw ord i j).toList.Perm ord.toList := by
  have e1 : ord[i]! = ord.toList[i]'(by simpa using hi) := by simp [hi]
  have e2 : ord[j]! = ord.toList[j]'(by simpa using hj) := by simp [hj]
  simp only [sw, Array.toList_setIfInBounds, e1, e2]
  exact List.set_set_perm (by simpa using hj) (by simpa using hi)

theorem swap_ok {β : Type} (ord : Array Nat) (i j : Nat) (hi : i < ord.size) (hj : j < ord.size)
    (k : Array Nat → Out β) :
    (do let oi ← rd ord (i : Int)
        let oj ← rd ord (j : Int)
        let ord' ← wr ord (j : Int) oi
        let ord'' ← wr ord' (i : Int) oj
        k ord'') = k (sw ord i j) := by
  rw [rd_ok _ _ hi, rd_ok _ _ hj]
  simp only [bind_ok]
  rw [wr_ok _ _ _ hj]
  simp only [bind_ok]
  rw [wr_ok _ _ _ (by simpa using hi)]
  rfl

/-- same swap, the two reads in the other order (as in the pivot swap and the final swap) -/
theorem swap_ok' {β : Type} (ord : Array Nat) (i j : Nat) (hi : i < ord.size) (hj : j < ord.size)
    (k : Array Nat → Out β) :
    (do let oj ← rd ord (j : Int)
        let oi ← rd ord (i : Int)
        let ord' ← wr ord (j : Int) oi
        let ord'' ← wr ord' (i : Int) oj
        k ord'') = k (sw ord i j) := by
  rw [rd_ok _ _ hi, rd_ok _ _ hj]
  simp only [bind_ok]
  rw [wr_ok _ _ _ hj]
  simp only [bind_ok]
  rw [wr_ok _ _ _ (by simpa using hi)]
  rfl

/-! ## permutation confined to a segment `[lo, hi)` -/

/-- `b` is obtained from `a` by permuting the positions `lo ≤ k < hi` only. `pres` is the
multiset-preservation of the segment in the only form the proof needs it. -/
structure SegPerm (lo hi : Nat) (a b : Array Nat) : Prop where
  size : b.size = a.size
  perm : b.toList.Perm a.toList
  outside : ∀ k, k < lo ∨ hi ≤ k → b[k]! = a[k]!
  pres : ∀ P : Nat → Prop, (∀ k, lo ≤ k → k < hi → P a[k]!) → ∀ k, lo ≤ k → k < hi → P b[k]!

theorem SegPerm.rfl' (lo hi : Nat) (a : Array Nat) : SegPerm lo hi a a :=
  ⟨rfl, List.Perm.refl _, fun _ _ => rfl, fun _ h => h⟩

theorem SegPerm.trans {lo hi : Nat} {a b c : Array Nat} (h1 : SegPerm lo hi a b) (h2 : SegPerm lo hi b c) :
    SegPerm lo hi a c :=
  ⟨h2.size.trans h1.size, h2.perm.trans h1.perm,
   fun k hk => (h2.outside k hk).trans (h1.outside k hk),
   fun P hP => h2.pres P (h1.pres P hP)⟩

theorem SegPerm.mono {lo hi lo' hi' : Nat} {a b : Array Nat} (h : SegPerm lo' hi' a b)
    (hlo : lo ≤ lo') (hhi : hi' ≤ hi) : SegPerm lo hi a b := by
  refine ⟨h.size, h.perm, fun k hk => h.outside k (by omega), fun P hP k h1 h2 => ?_⟩
  by_cases hk : lo' ≤ k ∧ k < hi'
  · exact h.pres P (fun k' a1 a2 => hP k' (by omega) (by omega)) k hk.1 hk.2
  · rw [h.outside k (by omega)]
    exact hP k h1 h2

theorem SegPerm.sw (lo hi : Nat) (a : Array Nat) (i j : Nat) (hi' : i < a.size) (hj : j < a.size)
    (h1 : lo ≤ i) (h2 : i < hi) (h3 : lo ≤ j) (h4 : j < hi) : SegPerm lo hi a (sw a i j) := by
  refine ⟨sw_size _ _ _, sw_perm _ _ _ hi' hj, fun k hk => ?_, fun P hP k k1 k2 => ?_⟩
  · rw [sw_get _ _ _ _ hi' hj]
    have a1 : ¬ k = i := by omega
    have a2 : ¬ k = j := by omega
    simp [a1, a2]
  · rw [sw_get _ _ _ _ hi' hj]
    split
    · exact hP j h3 h4
    · split
      · exact hP i h1 h2
      · exact hP k k1 k2

/-! ## the two inner scans -/

theorem scanUp_spec (cmp : Nat → Nat → Int) (ord : Array Nat) (lo hi : Nat)
    (hlo : lo < ord.size) (hhi : hi < ord.size) :
    ∀ (fuel i : Nat), i ≤ hi → hi + 1 - i ≤ fuel →
      ∃ i' : Nat, scanUp cmp ord (lo : Int) (hi : Int) fuel (i : Int) = .ok (i' : Int) ∧
        i < i' ∧ i' ≤ hi + 1 ∧
        (∀ k, i < k → k < i' → cmp ord[k]! ord[lo]! < 0) ∧
        (i' ≤ hi → ¬ cmp ord[i']! ord[lo]! < 0) := by
  intro fuel
  induction fuel with
  | zero => intro i h1 h2; omega
  | succ f ih =>
    intro i h1 h2
    have e : ((i : Int) + 1) = ((i + 1 : Nat) : Int) := by omega
    unfold scanUp
    simp only [e]
    by_cases h3 : i + 1 ≤ hi
    · have h3' : ((i + 1 : Nat) : Int) ≤ (hi : Int) := by omega
      rw [if_pos h3', rd_ok _ _ (show i + 1 < ord.size by omega), rd_ok _ _ hlo]
      simp only [bind_ok]
      by_cases h4 : cmp ord[i+1]! ord[lo]! < 0
      · rw [if_pos h4]
        obtain ⟨i', r1, r2, r3, r4, r5⟩ := ih (i + 1) h3 (by omega)
        refine ⟨i', r1, by omega, r3, fun k k1 k2 => ?_, r5⟩
        by_cases hk : k = i + 1
        · subst hk; exact h4
        · exact r4 k (by omega) k2
      · rw [if_neg h4]
        exact ⟨i + 1, rfl, by omega, by omega, fun k k1 k2 => by omega, fun _ => h4⟩
    · have h3' : ¬ ((i + 1 : Nat) : Int) ≤ (hi : Int) := by omega
      rw [if_neg h3']
      exact ⟨i + 1, rfl, by omega, by omega, fun k k1 k2 => by omega, fun h => by omega⟩

theorem scanDown_spec (cmp : Nat → Nat → Int) (ord : Array Nat) (lo : Nat) (hlo : lo < ord.size) :
    ∀ (fuel j s : Nat), s < j → j ≤ ord.size → ¬ cmp ord[s]! ord[lo]! > 0 → j - s ≤ fuel →
      ∃ j' : Nat, scanDown cmp ord (lo : Int) fuel (j : Int) = .ok (j' : Int) ∧
        s ≤ j' ∧ j' < j ∧
        (∀ k, j' < k → k < j → cmp ord[k]! ord[lo]! > 0) ∧
        ¬ cmp ord[j']! ord[lo]! > 0 := by
  intro fuel
  induction fuel with
  | zero => intro j s h1 h2 h3 h4; omega
  | succ f ih =>
    intro j s h1 h2 h3 h4
    have e : ((j : Int) - 1) = ((j - 1 : Nat) : Int) := by omega
    unfold scanDown
    simp only [e]
    rw [rd_ok _ _ (show j - 1 < ord.size by omega), rd_ok _ _ hlo]
    simp only [bind_ok]
    by_cases h5 : cmp ord[j-1]! ord[lo]! > 0
    · rw [if_pos h5]
      have hs : s ≠ j - 1 := by
        intro hs; subst hs; exact h3 h5
      obtain ⟨j', r1, r2, r3, r4, r5⟩ := ih (j - 1) s (by omega) (by omega) h3 (by omega)
      refine ⟨j', r1, r2, by omega, fun k k1 k2 => ?_, r5⟩
      by_cases hk : k = j - 1
      · subst hk; exact h5
      · exact r4 k k1 (by omega)
    · rw [if_neg h5]
      exact ⟨j - 1, rfl, by omega, by omega, fun k k1 k2 => by omega, h5⟩

/-! ## the partition loop -/

theorem partLoop_spec (cmp : Nat → Nat → Int) (lo hi : Nat) :
    ∀ (fuel : Nat) (ord : Array Nat) (i j : Nat), hi < ord.size → lo ≤ i → i < j → j ≤ hi + 1 →
      (∀ k, lo ≤ k → k ≤ i → cmp ord[k]! ord[lo]! ≤ 0) →
      (∀ k, j ≤ k → k ≤ hi → 0 ≤ cmp ord[k]! ord[lo]!) →
      j - i + 1 ≤ fuel →
      ∃ (ord' : Array Nat) (jn : Nat),
        partLoop cmp (lo : Int) (hi : Int) fuel ord (i : Int) (j : Int) = .ok (ord', (jn : Int)) ∧
        SegPerm (lo + 1) (hi + 1) ord ord' ∧ lo ≤ jn ∧ jn ≤ hi ∧
        (∀ k, lo ≤ k → k ≤ jn → cmp ord'[k]! ord'[lo]! ≤ 0) ∧
        (∀ k, jn < k → k ≤ hi → 0 ≤ cmp ord'[k]! ord'[lo]!) := by
  intro fuel
  induction fuel with
  | zero => intro ord i j h1 h2 h3 h4 h5 h6 h7; omega
  | succ f ih =>
    intro ord i j hsz h2 h3 h4 hL hR hf
    have hlo : lo < ord.size := by omega
    obtain ⟨i', u1, u2, u3, u4, u5⟩ :=
      scanUp_spec cmp ord lo hi hlo hsz (ord.size + 2) i (by omega) (by omega)
    obtain ⟨j', d1, d2, d3, d4, d5⟩ :=
      scanDown_spec cmp ord lo hlo (ord.size + 2) j i h3 (by omega)
        (by have := hL i h2 (Nat.le_refl _); omega) (by omega)
    unfold partLoop
    rw [u1]; simp only [bind_ok]
    rw [d1]; simp only [bind_ok]
    by_cases hji : j' > i'
    · have hji' : (j' : Int) > (i' : Int) := by omega
      rw [if_pos hji']
      have si : i' < ord.size := by omega
      have sj : j' < ord.size := by omega
      rw [swap_ok ord i' j' si sj]
      have g0 : (sw ord i' j')[lo]! = ord[lo]! := by
        rw [sw_get _ _ _ _ si sj]
        have a1 : ¬ lo = i' := by omega
        have a2 : ¬ lo = j' := by omega
        simp [a1, a2]
      obtain ⟨ord', jn, r1, r2, r3, r4, r5, r6⟩ := ih (sw ord i' j') i' j'
        (by rw [sw_size]; exact hsz) (by omega) hji (by omega)
        (by
          intro k k1 k2
          rw [g0, sw_get _ _ _ _ si sj]
          split
          · have := d5; omega
          · split
            · omega
            · by_cases hk : k ≤ i
              · exact hL k k1 hk
              · have := u4 k (by omega) (by omega); omega)
        (by
          intro k k1 k2
          rw [g0, sw_get _ _ _ _ si sj]
          split
          · omega
          · split
            · have := u5 (by omega); omega
            · by_cases hk : j ≤ k
              · exact hR k hk k2
              · have := d4 k (by omega) (by omega); omega)
        (by omega)
      exact ⟨ord', jn, r1,
        (SegPerm.sw (lo + 1) (hi + 1) ord i' j' si sj (by omega) (by omega) (by omega) (by omega)).trans r2,
        r3, r4, r5, r6⟩
    · have hji' : ¬ (j' : Int) > (i' : Int) := by omega
      rw [if_neg hji']
      refine ⟨ord, j', rfl, SegPerm.rfl' _ _ _, by omega, by omega, fun k k1 k2 => ?_, fun k k1 k2 => ?_⟩
      · by_cases hk : k = j'
        · subst hk; omega
        · by_cases hk2 : k ≤ i
          · exact hL k k1 hk2
          · have := u4 k (by omega) (by omega); omega
      · by_cases hk : j ≤ k
        · exact hR k hk k2
        · have := d4 k k1 (by omega); omega

/-! ## `partition` -/

/-- the n = 0 defect of the code before the fix `if (n > 1)`: `partition(0,-1)` reads `ord[-1]` -/
theorem quicksort_zero_faults (cmp : Nat → Nat → Int) (fuel : Nat) : quicksortUnguarded cmp 0 (fuel+1) = .fault := by
  unfold quicksortUnguarded partition
  have : rd (Array.range 0) ((0 : Nat) - 1 : Int) = .fault := by
    unfold rd; simp
  rw [this]; rfl

theorem noop_swap (ord : Array Nat) (hi : Nat) (v : Nat) (hhi : hi < ord.size) :
    (do let ord' ← wr ord (hi : Int) v
        wr ord' (hi : Int) ord[hi]!) = Out.ok ord := by
  rw [wr_ok _ _ _ hhi]
  simp only [bind_ok]
  rw [wr_ok _ _ _ (by simpa using hhi)]
  congr 1
  apply Array.ext_getElem?
  intro k
  simp only [Array.getElem?_setIfInBounds, Array.size_setIfInBounds]
  by_cases h : hi = k
  · subst h; simp [hhi]
  · simp [h]

/-- sortedness of the half-open segment `[lo, hi)` -/
def SortedSeg (cmp : Nat → Nat → Int) (ord : Array Nat) (lo hi : Nat) : Prop :=
  ∀ a b, lo ≤ a → a < b → b < hi → cmp ord[a]! ord[b]! ≤ 0

/-- position `jn` holds a pivot for the closed segment `[lo, hi]` -/
def Piv (cmp : Nat → Nat → Int) (ord : Array Nat) (lo jn hi : Nat) : Prop :=
  (∀ k, lo ≤ k → k < jn → cmp ord[k]! ord[jn]! ≤ 0) ∧ (∀ k, jn < k → k ≤ hi → 0 ≤ cmp ord[k]! ord[jn]!)

theorem Piv.left {cmp : Nat → Nat → Int} {ord ord' : Array Nat} {lo jn hi : Nat}
    (h : Piv cmp ord lo jn hi) (hp : SegPerm lo jn ord ord') : Piv cmp ord' lo jn hi := by
  have e : ord'[jn]! = ord[jn]! := hp.outside jn (by omega)
  refine ⟨fun k k1 k2 => ?_, fun k k1 k2 => ?_⟩
  · rw [e]
    exact hp.pres (fun x => cmp x ord[jn]! ≤ 0) h.1 k k1 k2
  · rw [e, hp.outside k (by omega)]
    exact h.2 k k1 k2

theorem Piv.right {cmp : Nat → Nat → Int} {ord ord' : Array Nat} {lo jn hi : Nat}
    (h : Piv cmp ord lo jn hi) (hp : SegPerm (jn + 1) (hi + 1) ord ord') : Piv cmp ord' lo jn hi := by
  have e : ord'[jn]! = ord[jn]! := hp.outside jn (by omega)
  refine ⟨fun k k1 k2 => ?_, fun k k1 k2 => ?_⟩
  · rw [e, hp.outside k (by omega)]
    exact h.1 k k1 k2
  · rw [e]
    exact hp.pres (fun x => 0 ≤ cmp x ord[jn]!) (fun k a b => h.2 k (by omega) (by omega)) k (by omega) (by omega)

theorem SortedSeg.of_eq {cmp : Nat → Nat → Int} {ord ord' : Array Nat} {lo hi : Nat}
    (h : SortedSeg cmp ord lo hi) (he : ∀ k, lo ≤ k → k < hi → ord'[k]! = ord[k]!) :
    SortedSeg cmp ord' lo hi := by
  intro a b h1 h2 h3
  rw [he a h1 (by omega), he b (by omega) h3]
  exact h a b h1 h2 h3

theorem SortedSeg.combine {cmp : Nat → Nat → Int} (hc : TotalPreorder cmp) {ord : Array Nat} {lo jn hi : Nat}
    (hp : Piv cmp ord lo jn hi) (hl : SortedSeg cmp ord lo jn) (hr : SortedSeg cmp ord (jn + 1) (hi + 1)) :
    SortedSeg cmp ord lo (hi + 1) := by
  intro a b h1 h2 h3
  by_cases hb : b < jn
  · exact hl a b h1 h2 hb
  · by_cases ha : jn < a
    · exact hr a b (by omega) h2 h3
    · -- a ≤ jn ≤ b
      have A : cmp ord[a]! ord[jn]! ≤ 0 := by
        by_cases h : a = jn
        · subst h; rw [hc.refl]; omega
        · exact hp.1 a h1 (by omega)
      have B : cmp ord[jn]! ord[b]! ≤ 0 := by
        by_cases h : b = jn
        · subst h; rw [hc.refl]; omega
        · exact hc.flip (hp.2 b (by omega) (by omega))
      exact hc.trans_le _ _ _ A B

/-- what the induction on the fuel carries -/
def PartSpec (cmp : Nat → Nat → Int) (f : Nat) : Prop :=
  ∀ (ord : Array Nat) (lo hi : Nat), lo ≤ hi → hi < ord.size → hi - lo + 1 ≤ f →
    ∃ ord', partition cmp f ord (lo : Int) (hi : Int) = .ok ord' ∧
      SegPerm lo (hi + 1) ord ord' ∧ SortedSeg cmp ord' lo (hi + 1)

theorem left_step {cmp : Nat → Nat → Int} {f : Nat} (ih : PartSpec cmp f) (ord : Array Nat) (lo jn : Nat)
    (h1 : lo ≤ jn) (h2 : jn ≤ ord.size) (h3 : jn - lo ≤ f) :
    ∃ ord', (if (jn : Int) - (lo : Int) > 1 then partition cmp f ord (lo : Int) ((jn : Int) - 1) else Out.ok ord)
        = .ok ord' ∧ SegPerm lo jn ord ord' ∧ SortedSeg cmp ord' lo jn := by
  by_cases h : jn - lo > 1
  · have h' : (jn : Int) - (lo : Int) > 1 := by omega
    have e : ((jn : Int) - 1) = ((jn - 1 : Nat) : Int) := by omega
    rw [if_pos h', e]
    obtain ⟨ord', r1, r2, r3⟩ := ih ord lo (jn - 1) (by omega) (by omega) (by omega)
    have e2 : jn - 1 + 1 = jn := by omega
    rw [e2] at r2 r3
    exact ⟨ord', r1, r2, r3⟩
  · have h' : ¬ (jn : Int) - (lo : Int) > 1 := by omega
    rw [if_neg h']
    exact ⟨ord, rfl, SegPerm.rfl' _ _ _, fun a b a1 a2 a3 => by omega⟩

theorem right_step {cmp : Nat → Nat → Int} {f : Nat} (ih : PartSpec cmp f) (ord : Array Nat) (jn hi : Nat)
    (h1 : jn ≤ hi) (h2 : hi < ord.size) (h3 : hi - jn ≤ f) :
    ∃ ord', (if (hi : Int) - (jn : Int) > 1 then partition cmp f ord ((jn : Int) + 1) (hi : Int) else Out.ok ord)
        = .ok ord' ∧ SegPerm (jn + 1) (hi + 1) ord ord' ∧ SortedSeg cmp ord' (jn + 1) (hi + 1) := by
  by_cases h : hi - jn > 1
  · have h' : (hi : Int) - (jn : Int) > 1 := by omega
    have e : ((jn : Int) + 1) = ((jn + 1 : Nat) : Int) := by omega
    rw [if_pos h', e]
    exact ih ord (jn + 1) hi (by omega) h2 (by omega)
  · have h' : ¬ (hi : Int) - (jn : Int) > 1 := by omega
    rw [if_neg h']
    exact ⟨ord, rfl, SegPerm.rfl' _ _ _, fun a b a1 a2 a3 => by omega⟩

/-- the two recursive calls, smaller side first -/
theorem recurse_both {cmp : Nat → Nat → Int} (hc : TotalPreorder cmp) {f : Nat} (ih : PartSpec cmp f)
    (ord : Array Nat) (lo jn hi : Nat)
    (h1 : lo ≤ jn) (h2 : jn ≤ hi) (h3 : hi < ord.size) (h4 : hi - lo ≤ f) (hp : Piv cmp ord lo jn hi) :
    ∃ ord',
      (if (jn : Int) - (lo : Int) < (hi : Int) - (jn : Int) then do
          let ord ← (if (jn : Int) - (lo : Int) > 1 then partition cmp f ord (lo : Int) ((jn : Int) - 1) else Out.ok ord)
          if (hi : Int) - (jn : Int) > 1 then partition cmp f ord ((jn : Int) + 1) (hi : Int) else Out.ok ord
        else do
          let ord ← (if (hi : Int) - (jn : Int) > 1 then partition cmp f ord ((jn : Int) + 1) (hi : Int) else Out.ok ord)
          if (jn : Int) - (lo : Int) > 1 then partition cmp f ord (lo : Int) ((jn : Int) - 1) else Out.ok ord)
        = .ok ord' ∧ SegPerm lo (hi + 1) ord ord' ∧ SortedSeg cmp ord' lo (hi + 1) := by
  split
  · obtain ⟨o1, a1, a2, a3⟩ := left_step ih ord lo jn h1 (by omega) (by omega)
    rw [a1]; simp only [bind_ok]
    obtain ⟨o2, b1, b2, b3⟩ := right_step ih o1 jn hi h2 (by rw [a2.size]; exact h3) (by omega)
    refine ⟨o2, b1, (a2.mono (Nat.le_refl _) (by omega)).trans (b2.mono (by omega) (Nat.le_refl _)), ?_⟩
    exact SortedSeg.combine hc ((hp.left a2).right b2)
      (a3.of_eq (fun k k1 k2 => b2.outside k (by omega))) b3
  · obtain ⟨o1, a1, a2, a3⟩ := right_step ih ord jn hi h2 h3 (by omega)
    rw [a1]; simp only [bind_ok]
    obtain ⟨o2, b1, b2, b3⟩ := left_step ih o1 lo jn h1 (by rw [a2.size]; omega) (by omega)
    refine ⟨o2, b1, (a2.mono (by omega) (Nat.le_refl _)).trans (b2.mono (Nat.le_refl _) (by omega)), ?_⟩
    exact SortedSeg.combine hc ((hp.right a2).left b2) b3
      (a3.of_eq (fun k k1 k2 => b2.outside k (by omega)))

theorem partition_step {cmp : Nat → Nat → Int} (hc : TotalPreorder cmp) {f : Nat} (ih : PartSpec cmp f) :
    PartSpec cmp (f + 1) := by
  intro ord lo hi hlh hhi hf
  have hlo : lo < ord.size := by omega
  unfold partition
  rw [rd_ok _ _ hhi, rd_ok _ _ hlo]
  simp only [bind_ok, noop_swap ord hi _ hhi, pure_eq_ok, ite_self]
  have emid : ((lo : Int) + ((hi : Int) - (lo : Int)) / 2) = ((lo + (hi - lo) / 2 : Nat) : Int) := by omega
  rw [emid, rd_ok _ _ (show lo + (hi - lo) / 2 < ord.size by omega), rd_ok _ _ hhi, rd_ok _ _ hlo]
  simp only [bind_ok]
  obtain ⟨pn, hp, p1, p2⟩ : ∃ pn : Nat,
      (if cmp ord[lo + (hi - lo) / 2]! ord[lo]! < 0 then (lo : Int)
        else if cmp ord[lo + (hi - lo) / 2]! ord[hi]! > 0 then (hi : Int)
        else ((lo + (hi - lo) / 2 : Nat) : Int)) = (pn : Int) ∧ lo ≤ pn ∧ pn ≤ hi := by
    split
    · exact ⟨lo, rfl, Nat.le_refl _, hlh⟩
    · split
      · exact ⟨hi, rfl, hlh, Nat.le_refl _⟩
      · exact ⟨lo + (hi - lo) / 2, rfl, by omega, by omega⟩
  have hpn : pn < ord.size := by omega
  rw [hp, rd_ok _ _ hpn]
  simp only [bind_ok]
  rw [wr_ok _ _ _ hpn]
  simp only [bind_ok]
  rw [wr_ok _ _ _ (by simpa using hlo)]
  simp only [bind_ok]
  have esw : (ord.setIfInBounds pn ord[lo]!).setIfInBounds lo ord[pn]! = sw ord lo pn := rfl
  rw [esw]
  -- the loop
  have s1 : (sw ord lo pn).size = ord.size := sw_size _ _ _
  have e1 : ((hi : Int) + 1) = ((hi + 1 : Nat) : Int) := by omega
  obtain ⟨ord2, jn, r1, r2, r3, r4, r5, r6⟩ := partLoop_spec cmp lo hi ((sw ord lo pn).size + 2) (sw ord lo pn) lo (hi + 1)
    (by omega) (Nat.le_refl _) (by omega) (Nat.le_refl _)
    (fun k k1 k2 => by
      have : k = lo := by omega
      subst this; rw [hc.refl]; omega)
    (fun k k1 k2 => by omega) (by omega)
  rw [e1, r1]
  simp only [bind_ok]
  have s2 : ord2.size = ord.size := r2.size.trans s1
  have hlo2 : lo < ord2.size := by omega
  have hjn2 : jn < ord2.size := by omega
  rw [swap_ok' ord2 jn lo hjn2 hlo2]
  -- the recursion
  have hpiv : Piv cmp (sw ord2 jn lo) lo jn hi := by
    have g : (sw ord2 jn lo)[jn]! = ord2[lo]! := by
      rw [sw_get _ _ _ _ hjn2 hlo2]; simp
    refine ⟨fun k k1 k2 => ?_, fun k k1 k2 => ?_⟩
    · rw [g, sw_get _ _ _ _ hjn2 hlo2]
      split
      · omega
      · split
        · exact r5 jn r3 (Nat.le_refl _)
        · exact r5 k k1 (by omega)
    · rw [g, sw_get _ _ _ _ hjn2 hlo2]
      split
      · omega
      · split
        · omega
        · exact r6 k k1 k2
  obtain ⟨ord', t1, t2, t3⟩ := recurse_both hc ih (sw ord2 jn lo) lo jn hi r3 r4
    (by rw [sw_size]; omega) (by omega) hpiv
  refine ⟨ord', t1, ?_, t3⟩
  exact ((SegPerm.sw lo (hi + 1) ord lo pn hlo hpn (Nat.le_refl _) (by omega) p1 (by omega)).trans
    (r2.mono (by omega) (Nat.le_refl _))).trans
    ((SegPerm.sw lo (hi + 1) ord2 jn lo hjn2 hlo2 r3 (by omega) (Nat.le_refl _) (by omega)).trans t2)

theorem partition_spec {cmp : Nat → Nat → Int} (hc : TotalPreorder cmp) : ∀ f, PartSpec cmp f := by
  intro f
  induction f with
  | zero => intro ord lo hi h1 h2 h3; omega
  | succ f ih => exact partition_step hc ih

/-- MAIN: for every n ≥ 1, any fuel ≥ n: no fault, no fuel exhaustion, the result has size n, is a
permutation of 0..n-1, and orders the data -/
theorem quicksortUnguarded_spec (cmp : Nat → Nat → Int) (hc : TotalPreorder cmp) (n : Nat) (hn : 1 ≤ n)
    (fuel : Nat) (hf : n ≤ fuel) :
    ∃ ord, quicksortUnguarded cmp n fuel = .ok ord ∧ ord.size = n ∧ ord.toList.Perm (List.range n) ∧
      ∀ i j, i < j → j < n → cmp (ord[i]!) (ord[j]!) ≤ 0 := by
  unfold quicksortUnguarded
  have e : ((n : Int) - 1) = ((n - 1 : Nat) : Int) := by omega
  obtain ⟨ord, r1, r2, r3⟩ := partition_spec hc fuel (Array.range n) 0 (n - 1) (by omega)
    (by rw [Array.size_range]; omega) (by omega)
  rw [e]
  refine ⟨ord, r1, by rw [r2.size, Array.size_range], ?_, fun i j h1 h2 => r3 i j (by omega) h1 (by omega)⟩
  have := r2.perm
  rwa [Array.toList_range] at this

/-- MAIN, for the code with the guard `if (n > 1)`: for EVERY n (including 0 and 1) and any fuel ≥ n: no fault, no fuel
exhaustion, the result has size n, is a permutation of 0..n-1, and orders the data -/
theorem quicksort_spec (cmp : Nat → Nat → Int) (hc : TotalPreorder cmp) (n : Nat) (fuel : Nat) (hf : n ≤ fuel) :
    ∃ ord, quicksort cmp n fuel = .ok ord ∧ ord.size = n ∧ ord.toList.Perm (List.range n) ∧
      ∀ i j, i < j → j < n → cmp (ord[i]!) (ord[j]!) ≤ 0 := by
  by_cases hn : n > 1
  · have := quicksortUnguarded_spec cmp hc n (by omega) fuel hf
    unfold quicksort; rw [if_pos hn]; exact this
  · unfold quicksort; rw [if_neg hn]
    refine ⟨Array.range n, rfl, by simp, by simp [Array.toList_range], ?_⟩
    intro i j h1 h2; omega

end EaselModel.Containers.Quicksort
