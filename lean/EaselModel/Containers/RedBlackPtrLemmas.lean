import EaselModel.Containers.RedBlackPtr
import EaselModel.Containers.RedBlackLemmas
/-! # Lemmas about the pointer-level red-black model: the store, the representation of a tree in it, the pool,
lookup, and `convert_to_sorted_linked` (the tree becomes a consistently doubly linked, NULL-terminated list in key order). -/
namespace EaselModel.Containers.RedBlackPtr
open EaselModel.Containers.RedBlack (Color Tree)

/-! ## the store -/
theorem wr_eq_some {st st' : Store} {i : Nat} {f : Node → Node} (h : wr st i f = some st') :
    ∃ nd, rd st i = some nd ∧ st' = st.setIfInBounds i (f nd) := by
  unfold wr at h
  unfold rd
  cases hr : st[i]? with
  | none => rw [hr] at h; cases h
  | some nd => rw [hr] at h; exact ⟨nd, rfl, (Option.some.inj h).symm⟩

theorem wr_of_rd {st : Store} {i : Nat} {nd : Node} (f : Node → Node) (h : rd st i = some nd) :
    wr st i f = some (st.setIfInBounds i (f nd)) := by
  unfold rd at h
  unfold wr
  rw [h]

theorem rd_set_same {st : Store} {i : Nat} {nd : Node} (v : Node) (h : rd st i = some nd) :
    rd (st.setIfInBounds i v) i = some v := by
  unfold rd at *
  have hi : i < st.size := by
    apply Classical.byContradiction; intro hn
    rw [Array.getElem?_eq_none (by omega)] at h; cases h
  simp [Array.getElem?_setIfInBounds, hi]

theorem rd_set_ne (st : Store) {i j : Nat} (v : Node) (h : j ≠ i) : rd (st.setIfInBounds i v) j = rd st j := by
  unfold rd
  rw [Array.getElem?_setIfInBounds]
  simp [Ne.symm h]

theorem rd_wr_same {st st' : Store} {i : Nat} {f : Node → Node} {nd : Node} (h : wr st i f = some st') (hr : rd st i = some nd) :
    rd st' i = some (f nd) := by
  rw [wr_of_rd f hr] at h
  cases h
  exact rd_set_same _ hr

theorem rd_wr_ne {st st' : Store} {i j : Nat} {f : Node → Node} (h : wr st i f = some st') (hj : j ≠ i) : rd st' j = rd st j := by
  obtain ⟨nd, _, rfl⟩ := wr_eq_some h
  exact rd_set_ne st _ hj

theorem size_wr {st st' : Store} {i : Nat} {f : Node → Node} (h : wr st i f = some st') : st'.size = st.size := by
  obtain ⟨nd, _, rfl⟩ := wr_eq_some h
  simp

theorem rd_lt {st : Store} {i : Nat} {nd : Node} (h : rd st i = some nd) : i < st.size := by
  unfold rd at h
  apply Classical.byContradiction; intro hn
  rw [Array.getElem?_eq_none (by omega)] at h; cases h

/-! ## a tree laid out in the store -/
/-- the shape of a pointer tree: which record is where -/
inductive Shape
  | nil
  | node (small : Shape) (id : Nat) (large : Shape)

namespace Shape
/-- record ids in order (small subtree, node, large subtree) -/
def ids : Shape → List Nat
  | nil => []
  | node a i b => ids a ++ i :: ids b

def height : Shape → Nat
  | nil => 0
  | node a _ b => max (height a) (height b) + 1

theorem height_le_length : ∀ t : Shape, t.height ≤ t.ids.length
  | nil => Nat.le_refl _
  | node a i b => by
    have := height_le_length a; have := height_le_length b
    simp only [height, ids, List.length_append, List.length_cons]; omega
end Shape

/-- pointer `p` of store `st` is the root of a tree of shape `t`: following `small`/`large` from `p` visits exactly the
    records of `t`, `NULL` exactly at its leaves -/
def Repr (st : Store) : Shape → Ptr → Prop
  | .nil, p => p = none
  | .node a i b, p => p = some i ∧ ∃ nd, rd st i = some nd ∧ Repr st a nd.small ∧ Repr st b nd.large

theorem Repr.congr {st st' : Store} : ∀ {t : Shape} {p : Ptr}, (∀ i ∈ t.ids, rd st' i = rd st i) → Repr st t p → Repr st' t p
  | .nil, _, _, h => h
  | .node a i b, _, hc, ⟨hp, nd, hr, ha, hb⟩ => by
    refine ⟨hp, nd, ?_, ?_, ?_⟩
    · rw [hc i (by simp [Shape.ids])]; exact hr
    · exact Repr.congr (fun j hj => hc j (by simp [Shape.ids, hj])) ha
    · exact Repr.congr (fun j hj => hc j (by simp [Shape.ids, hj])) hb

theorem Repr.rd_some {st : Store} : ∀ {t : Shape} {p : Ptr}, Repr st t p → ∀ i ∈ t.ids, (rd st i).isSome = true
  | .nil, _, _, i, hi => by simp [Shape.ids] at hi
  | .node a j b, _, ⟨_, nd, hr, ha, hb⟩, i, hi => by
    simp only [Shape.ids, List.mem_append, List.mem_cons] at hi
    rcases hi with h | rfl | h
    · exact ha.rd_some i h
    · simp [hr]
    · exact hb.rd_some i h

/-- a list of distinct addresses below `n` has at most `n` entries -/
theorem nodup_length_le : ∀ (n : Nat) (l : List Nat), l.Nodup → (∀ x ∈ l, x < n) → l.length ≤ n
  | 0, l, _, hl => by
    cases l with
    | nil => simp
    | cons a t => exact absurd (hl a (by simp)) (by omega)
  | n+1, l, hn, hl => by
    have h1 : (l.erase n).Nodup := hn.erase n
    have h2 : ∀ x ∈ l.erase n, x < n := by
      intro x hx
      have hx' := (List.Nodup.mem_erase_iff hn).mp hx
      have := hl x hx'.2
      omega
    have h3 := nodup_length_le n (l.erase n) h1 h2
    have h4 : l.length ≤ (l.erase n).length + 1 := by
      by_cases hm : n ∈ l
      · rw [List.length_erase_of_mem hm]; omega
      · rw [List.erase_of_not_mem hm]; omega
    omega

theorem Repr.height_le_size {st : Store} {t : Shape} {p : Ptr} (h : Repr st t p) (hn : t.ids.Nodup) : t.height ≤ st.size := by
  have h1 := Shape.height_le_length t
  have h2 := nodup_length_le st.size t.ids hn (fun x hx => by
    have := h.rd_some x hx
    cases hr : rd st x with
    | none => rw [hr] at this; cases this
    | some nd => exact rd_lt hr)
  omega

/-! ## the pool: one block, chained through `large`, is handed out record by record, never twice -/
theorem rd_poolCreate_old (st : Store) (number i : Nat) (hi : i < st.size) :
    rd (poolCreate st number).1 i = rd st i := by
  unfold poolCreate rd
  split
  · rfl
  · simp [Array.getElem?_append_left hi]

theorem rd_poolCreate_new (st : Store) (number j : Nat) (hj : j < number) :
    rd (poolCreate st number).1 (st.size + j) =
      some { key := 0, color := .red, parent := none, small := none,
             large := if j + 1 < number then some (st.size + j + 1) else none } := by
  unfold poolCreate rd
  have hn : number ≠ 0 := by omega
  simp only [hn, ↓reduceIte]
  rw [Array.getElem?_append_right (by omega)]
  simp [hj]

/-- taking `k ≤ number` records from a fresh block yields the block's records in address order -/
def takeN (st : Store) : Nat → Ptr → Option (List Nat × Ptr)
  | 0, p => some ([], p)
  | k+1, p =>
    match poolTake st p with
    | none => none
    | some (n, p') => (takeN st k p').map fun (l, q) => (n :: l, q)

theorem takeN_fresh (st : Store) (number : Nat) (k j : Nat) (hk : j + k ≤ number) (hj : j < number ∨ k = 0) :
    takeN (poolCreate st number).1 k (if j < number then some (st.size + j) else none) =
      some ((List.range' (st.size + j) k), if j + k < number then some (st.size + j + k) else none) := by
  induction k generalizing j with
  | zero => simp [takeN]
  | succ k ih =>
    have hjn : j < number := by omega
    simp only [takeN, hjn, ↓reduceIte, poolTake, rd_poolCreate_new st number j hjn, Option.map_some]
    have := ih (j+1) (by omega) (by omega)
    have e : st.size + j + 1 = st.size + (j + 1) := by omega
    rw [e, this]
    simp only [Option.map_some, List.range'_succ]
    congr 2
    · have : j + 1 + k = j + (k + 1) := by omega
      rw [this]
      have : st.size + (j + 1) + k = st.size + j + (k + 1) := by omega
      rw [this]

/-- `pool_Create(number)` then `number` takes: `number` DISTINCT records (the block, in address order), all new (none of
    them was in the store before), and then the free list is empty (`NULL`): no record is handed out twice -/
theorem pool_take_all (st : Store) (number : Nat) (hn : 0 < number) :
    (poolCreate st number).2 = some st.size ∧
    ∃ l, takeN (poolCreate st number).1 number (poolCreate st number).2 = some (l, none) ∧
      l = List.range' st.size number ∧ l.Nodup ∧ l.length = number ∧ ∀ x ∈ l, st.size ≤ x := by
  have h2 : (poolCreate st number).2 = some st.size := by
    unfold poolCreate; simp [Nat.ne_of_gt hn]
  refine ⟨h2, List.range' st.size number, ?_, rfl, List.nodup_range', by simp, ?_⟩
  · have := takeN_fresh st number number 0 (by omega) (Or.inl hn)
    simp only [hn, ↓reduceIte, Nat.add_zero, Nat.zero_add, Nat.lt_irrefl] at this
    rw [h2]; exact this
  · intro x hx
    have := List.mem_range'_1.mp hx
    omega

/-! ## lookup -/
/-- the abstract tree (keys and colours) a laid-out shape stands for -/
def absTree (st : Store) : Shape → Tree Int
  | .nil => .nil
  | .node a i b =>
    match rd st i with
    | some nd => .node nd.color (absTree st a) nd.key (absTree st b)
    | none => .nil

/-- the pointer loop of `esl_red_black_doublekey_lookup` computes the tree lookup, and the record it returns carries the key -/
theorem lookup_repr {st : Store} (key : Int) : ∀ {t : Shape} {p : Ptr} (fuel : Nat), Repr st t p → t.height ≤ fuel →
    ∃ r, lookup st key fuel p = some r ∧ (r.isSome = Tree.lookup key (absTree st t)) ∧
      (∀ i, r = some i → i ∈ t.ids ∧ ∃ nd, rd st i = some nd ∧ nd.key = key)
  | .nil, p, fuel, h, _ => by
    cases h
    cases fuel <;> exact ⟨none, rfl, rfl, fun i hi => by cases hi⟩
  | .node a i b, p, fuel, ⟨hp, nd, hr, ha, hb⟩, hf => by
    cases fuel with
    | zero => simp [Shape.height] at hf
    | succ f =>
      subst hp
      simp only [Shape.height] at hf
      simp only [lookup, hr, absTree, Tree.lookup]
      by_cases h1 : nd.key = key
      · simp only [h1, ↓reduceIte]
        exact ⟨some i, rfl, rfl, fun j hj => by cases hj; exact ⟨by simp [Shape.ids], nd, hr, h1⟩⟩
      · simp only [h1, ↓reduceIte]
        by_cases h2 : key > nd.key
        · have h2' : nd.key < key := h2
          simp only [h2, h2', ↓reduceIte]
          obtain ⟨r, e1, e2, e3⟩ := lookup_repr key f hb (by omega)
          exact ⟨r, e1, e2, fun j hj => ⟨by simp [Shape.ids, (e3 j hj).1], (e3 j hj).2⟩⟩
        · have h2' : ¬ nd.key < key := h2
          simp only [h2, h2', ↓reduceIte]
          obtain ⟨r, e1, e2, e3⟩ := lookup_repr key f ha (by omega)
          exact ⟨r, e1, e2, fun j hj => ⟨by simp [Shape.ids, (e3 j hj).1], (e3 j hj).2⟩⟩

/-! ## convert_to_sorted_linked -/
def largeOf (st : Store) (i : Nat) : Option Ptr := (rd st i).map (·.large)
def smallOf (st : Store) (i : Nat) : Option Ptr := (rd st i).map (·.small)

/-- consecutive records of the list point at each other: `a.large = b` and `b.small = a` -/
def Linked (st : Store) : List Nat → Prop
  | [] => True
  | [_] => True
  | a :: b :: r => largeOf st a = some (some b) ∧ smallOf st b = some (some a) ∧ Linked st (b :: r)

theorem Linked.congr {st st' : Store} : ∀ {l : List Nat}, Linked st l → (∀ x ∈ l, largeOf st' x = largeOf st x) →
    (∀ x ∈ l.tail, smallOf st' x = smallOf st x) → Linked st' l
  | [], _, _, _ => trivial
  | [_], _, _, _ => trivial
  | a :: b :: r, ⟨h1, h2, h3⟩, hl, hs => by
    refine ⟨by rw [hl a (by simp)]; exact h1, by rw [hs b (by simp)]; exact h2, ?_⟩
    exact Linked.congr h3 (fun x hx => hl x (by simp [hx])) (fun x hx => hs x (by simp at hx ⊢; exact Or.inr hx))

/-- only link fields differ: same size, every record keeps key, colour and parent -/
def SameData (st st' : Store) : Prop :=
  st'.size = st.size ∧ ∀ i nd, rd st i = some nd → ∃ nd', rd st' i = some nd' ∧ nd'.key = nd.key ∧ nd'.color = nd.color ∧ nd'.parent = nd.parent

theorem SameData.refl (st : Store) : SameData st st := ⟨rfl, fun _ nd h => ⟨nd, h, rfl, rfl, rfl⟩⟩

theorem SameData.trans {a b c : Store} (h1 : SameData a b) (h2 : SameData b c) : SameData a c := by
  refine ⟨h2.1.trans h1.1, fun i nd h => ?_⟩
  obtain ⟨n1, r1, k1, c1, p1⟩ := h1.2 i nd h
  obtain ⟨n2, r2, k2, c2, p2⟩ := h2.2 i n1 r1
  exact ⟨n2, r2, k2.trans k1, c2.trans c1, p2.trans p1⟩

theorem SameData.isSome {a b : Store} (h : SameData a b) {i : Nat} (hi : (rd a i).isSome = true) : (rd b i).isSome = true := by
  cases hr : rd a i with
  | none => rw [hr] at hi; cases hi
  | some nd => obtain ⟨n', r', _⟩ := h.2 i nd hr; simp [r']

theorem sameData_wr {st st' : Store} {i : Nat} {f : Node → Node} (h : wr st i f = some st')
    (hf : ∀ nd, (f nd).key = nd.key ∧ (f nd).color = nd.color ∧ (f nd).parent = nd.parent) : SameData st st' := by
  refine ⟨size_wr h, fun j nd hj => ?_⟩
  by_cases e : j = i
  · subst e
    exact ⟨f nd, rd_wr_same h hj, (hf nd).1, (hf nd).2.1, (hf nd).2.2⟩
  · exact ⟨nd, by rw [rd_wr_ne h e]; exact hj, rfl, rfl, rfl⟩

theorem linkTail_spec {st : Store} {i : Nat} {nd : Node} (tail : Ptr) (hr : rd st i = some nd)
    (ht : ∀ q, tail = some q → q ≠ i ∧ (rd st q).isSome = true) :
    ∃ st2, linkTail st i tail = some st2 ∧ SameData st st2 ∧
      (∀ j, j ≠ i → tail ≠ some j → rd st2 j = rd st j) ∧
      smallOf st2 i = smallOf st i ∧ (tail = none → st2 = st) ∧
      (∀ q, tail = some q → largeOf st2 i = some (some q) ∧ smallOf st2 q = some (some i) ∧ largeOf st2 q = largeOf st q) := by
  cases tail with
  | none =>
    exact ⟨st, rfl, SameData.refl st, fun _ _ _ => rfl, rfl, fun _ => rfl, fun q hq => by cases hq⟩
  | some q =>
    obtain ⟨hqi, hqs⟩ := ht q rfl
    cases hrq : rd st q with
    | none => rw [hrq] at hqs; cases hqs
    | some nq =>
      have w1 := wr_of_rd (fun nd => { nd with large := some q }) hr
      have hq1 : rd (st.setIfInBounds i { nd with large := some q }) q = some nq := by
        rw [rd_set_ne st _ hqi]; exact hrq
      have w2 := wr_of_rd (fun n => { n with small := some i }) hq1
      refine ⟨_, (by simp only [linkTail]; rw [w1]; exact w2), ?_, ?_, ?_, ?_, ?_⟩
      · exact (sameData_wr w1 (fun _ => ⟨rfl, rfl, rfl⟩)).trans (sameData_wr w2 (fun _ => ⟨rfl, rfl, rfl⟩))
      · intro j hji hjq
        have hjq' : j ≠ q := fun e => hjq (by rw [e])
        rw [rd_set_ne _ _ hjq', rd_set_ne _ _ hji]
      · unfold smallOf
        rw [rd_set_ne _ _ (Ne.symm hqi), rd_set_same _ hr, hr]
        rfl
      · intro h; cases h
      · intro q' hq'
        cases hq'
        refine ⟨?_, ?_, ?_⟩
        · unfold largeOf; rw [rd_set_ne _ _ (Ne.symm hqi), rd_set_same _ hr]; rfl
        · unfold smallOf; rw [rd_set_same _ hq1]; rfl
        · unfold largeOf; rw [rd_set_same _ hq1, hrq]; rfl

theorem Repr.of_ids_nil {st : Store} {t : Shape} {p : Ptr} (h : Repr st t p) (hn : t.ids = []) : p = none := by
  cases t with
  | nil => exact h
  | node a i b => simp [Shape.ids] at hn

theorem getLast?_cons_ite (i : Nat) (Q : List Nat) :
    (if Q.getLast? = none then some i else Q.getLast?) = (i :: Q).getLast? := by
  cases Q with
  | nil => simp
  | cons q r => simp [List.getLast?_cons_cons]

theorem getLast?_append_cons (A : List Nat) (i : Nat) (B : List Nat) : (A ++ i :: B).getLast? = (i :: B).getLast? := by
  induction A with
  | nil => rfl
  | cons x A ih =>
    cases h : A ++ i :: B with
    | nil => simp at h
    | cons y r => rw [List.cons_append, h, List.getLast?_cons_cons, ← h, ih]

theorem head?_append_cases {B P : List Nat} {j : Nat} (h : (B ++ P).head? = some j) : j ∈ B ∨ P.head? = some j := by
  cases B with
  | nil => right; simpa using h
  | cons b r => left; simp at h; simp [h]

theorem mem_of_head? {l : List Nat} {j : Nat} (h : l.head? = some j) : j ∈ l := by
  cases l with
  | nil => cases h
  | cons a r => simp at h; simp [h]

theorem mem_of_getLast? {l : List Nat} {j : Nat} (h : l.getLast? = some j) : j ∈ l :=
  List.mem_of_getLast? h

theorem rd_eq_largeOf {st st' : Store} {i : Nat} (h : rd st' i = rd st i) : largeOf st' i = largeOf st i := by
  unfold largeOf; rw [h]
theorem rd_eq_smallOf {st st' : Store} {i : Nat} (h : rd st' i = rd st i) : smallOf st' i = smallOf st i := by
  unfold smallOf; rw [h]

/-- the recursion, with the already converted part `P` (ascending; `tail` its first, `head` its last record) as a ghost -/
theorem convRec_spec : ∀ (t : Shape) (fuel : Nat) (st : Store) (root head tail : Ptr) (P : List Nat),
    Repr st t root → (t.ids ++ P).Nodup → t.height ≤ fuel → tail = P.head? → head = P.getLast? → Linked st P →
    (∀ x ∈ P, (rd st x).isSome = true) →
    ∃ st', convRec fuel st root head tail = some (st', (t.ids ++ P).getLast?, (t.ids ++ P).head?) ∧
      Linked st' (t.ids ++ P) ∧ SameData st st' ∧
      (∀ j, j ∉ t.ids → tail ≠ some j → rd st' j = rd st j) ∧
      (∀ q, tail = some q → largeOf st' q = largeOf st q) ∧
      (t.ids = [] → st' = st) ∧
      (∀ m, t.ids.head? = some m → smallOf st' m = some none) ∧
      (P = [] → ∀ m, t.ids.getLast? = some m → largeOf st' m = some none)
  | .nil, fuel, st, root, head, tail, P, hrep, _, _, htl, hhd, hL, _ => by
    cases hrep
    refine ⟨st, ?_, hL, SameData.refl st, fun _ _ _ => rfl, fun _ _ => rfl, fun _ => rfl, ?_, ?_⟩
    · cases fuel <;> simp [convRec, Shape.ids, htl, hhd]
    · intro m hm; simp [Shape.ids] at hm
    · intro _ m hm; simp [Shape.ids] at hm
  | .node a i b, fuel, st, root, head, tail, P, ⟨hroot, nd, hr, ha, hb⟩, hnd, hf, htl, hhd, hL, hP => by
    subst hroot
    cases fuel with
    | zero => simp [Shape.height] at hf
    | succ f =>
    simp only [Shape.height] at hf
    have hids : (Shape.node a i b).ids ++ P = a.ids ++ i :: (b.ids ++ P) := by simp [Shape.ids]
    rw [hids] at hnd ⊢
    obtain ⟨hndA, hndiQ, hdisj⟩ := List.nodup_append.mp hnd
    obtain ⟨hiQ, hndQ⟩ := List.nodup_cons.mp hndiQ
    have hiB : i ∉ b.ids := fun h => hiQ (by simp [h])
    have hiP : i ∉ P := fun h => hiQ (by simp [h])
    have hAQ : ∀ x ∈ a.ids, x ≠ i ∧ x ∉ b.ids ∧ x ∉ P := fun x hx =>
      ⟨hdisj x hx i (by simp), fun h => hdisj x hx x (by simp [h]) rfl, fun h => hdisj x hx x (by simp [h]) rfl⟩
    have htailP : ∀ j, tail = some j → j ∈ P := fun j hj => mem_of_head? (by rw [← htl]; exact hj)
    -- the large subtree
    obtain ⟨st1, e1, L1, D1, F1, TL1, C01, _, ML1⟩ :=
      convRec_spec b f st nd.large head tail P hb hndQ (by omega) htl hhd hL hP
    have hri1 : rd st1 i = some nd := by
      rw [F1 i hiB (fun h => hiP (htailP i h))]; exact hr
    have hsomeQ : ∀ x ∈ b.ids ++ P, (rd st1 x).isSome = true := by
      intro x hx
      apply D1.isSome
      rcases List.mem_append.mp hx with h | h
      · exact hb.rd_some x h
      · exact hP x h
    -- link the node in front of what has been converted
    obtain ⟨st2, e2, D2, F2, S2, N2, Q2⟩ := linkTail_spec (st := st1) (i := i) (nd := nd) (b.ids ++ P).head? hri1
      (fun q hq => ⟨fun e => hiQ (e ▸ mem_of_head? hq), hsomeQ q (mem_of_head? hq)⟩)
    obtain ⟨nd2, hri2, _, _, _⟩ := D2.2 i nd hri1
    have hsmall2 : nd2.small = nd.small := by
      have := S2; unfold smallOf at this; rw [hri2, hri1] at this; simpa using this
    -- the small subtree
    have hA2 : ∀ x ∈ a.ids, rd st2 x = rd st x := by
      intro x hx
      obtain ⟨hxi, hxB, hxP⟩ := hAQ x hx
      have hxQ : x ∉ b.ids ++ P := fun h => by rcases List.mem_append.mp h with h | h; exact hxB h; exact hxP h
      rw [F2 x hxi (fun h => hxQ (mem_of_head? h)), F1 x hxB (fun h => hxP (htailP x h))]
    have hL2 : Linked st2 (i :: (b.ids ++ P)) := by
      cases hQ : b.ids ++ P with
      | nil => trivial
      | cons q Q' =>
        rw [hQ] at L1 Q2 F2 hndQ
        obtain ⟨q1, q2, q3⟩ := Q2 q rfl
        refine ⟨q1, q2, Linked.congr L1 ?_ ?_⟩
        · intro x hx
          rcases List.mem_cons.mp hx with rfl | hx'
          · exact q3
          · have hxq : x ≠ q := fun e => (List.nodup_cons.mp hndQ).1 (e ▸ hx')
            have hxi : x ≠ i := fun e => hiQ (by rw [hQ, ← e]; simp [hx'])
            exact rd_eq_largeOf (F2 x hxi (by simp; exact fun e => hxq e.symm))
        · intro x hx
          simp only [List.tail_cons] at hx
          have hxq : x ≠ q := fun e => (List.nodup_cons.mp hndQ).1 (e ▸ hx)
          have hxi : x ≠ i := fun e => hiQ (by rw [hQ, ← e]; simp [hx])
          exact rd_eq_smallOf (F2 x hxi (by simp; exact fun e => hxq e.symm))
    have hP2 : ∀ x ∈ i :: (b.ids ++ P), (rd st2 x).isSome = true := by
      intro x hx
      apply D2.isSome
      rcases List.mem_cons.mp hx with rfl | h
      · simp [hri1]
      · exact hsomeQ x h
    obtain ⟨st3, e3, L3, D3, F3, TL3, C03, MS3, _⟩ :=
      convRec_spec a f st2 nd.small (if (b.ids ++ P).getLast? = none then some i else (b.ids ++ P).getLast?) (some i)
        (i :: (b.ids ++ P)) (Repr.congr hA2 ha) hnd (by omega) rfl (getLast?_cons_ite i _) hL2 hP2
    refine ⟨st3, ?_, L3, (D1.trans D2).trans D3, ?_, ?_, ?_, ?_, ?_⟩
    · simp only [convRec, hr, e1, e2, hri2, hsmall2, e3]
    · -- frame
      intro j hj htj
      simp only [Shape.ids, List.mem_append, List.mem_cons, not_or] at hj
      obtain ⟨hjA, hji, hjB⟩ := hj
      have hjh : (b.ids ++ P).head? ≠ some j := by
        intro h
        rcases head?_append_cases h with h | h
        · exact hjB h
        · exact htj (by rw [htl]; exact h)
      rw [F3 j hjA (by simp; exact fun e => hji e.symm), F2 j hji hjh, F1 j hjB htj]
    · -- the old tail keeps its `large`
      intro q hq
      have hqP := htailP q hq
      have hqA : q ∉ a.ids := fun h => (hAQ q h).2.2 hqP
      have hqi : q ≠ i := fun e => hiP (e ▸ hqP)
      rw [rd_eq_largeOf (F3 q hqA (by simp; exact fun e => hqi e.symm)), ← TL1 q hq]
      by_cases hh : (b.ids ++ P).head? = some q
      · exact (Q2 q hh).2.2
      · exact rd_eq_largeOf (F2 q hqi hh)
    · intro h; simp [Shape.ids] at h
    · -- the smallest record keeps `small = NULL`
      intro m hm
      cases hA : a.ids with
      | nil =>
        simp only [Shape.ids, hA, List.nil_append, List.head?_cons, Option.some.injEq] at hm
        subst hm
        rw [C03 hA, S2]
        unfold smallOf
        rw [hri1]; simp [ha.of_ids_nil hA]
      | cons x xs =>
        apply MS3
        simp only [Shape.ids, hA, List.cons_append, List.head?_cons] at hm ⊢
        exact hm
    · -- the largest record keeps `large = NULL` when nothing had been converted before
      intro hPn m hm
      subst hPn
      have hm' : (i :: b.ids).getLast? = some m := by
        simp only [Shape.ids] at hm
        rw [getLast?_append_cons] at hm
        exact hm
      have hmA : ∀ x, x ∈ i :: b.ids → x ∉ a.ids := by
        intro x hx hxa
        obtain ⟨h1, h2, _⟩ := hAQ x hxa
        rcases List.mem_cons.mp hx with e | e
        · exact h1 e
        · exact h2 e
      cases hB : b.ids with
      | nil =>
        rw [hB] at hm'
        simp only [List.getLast?_singleton, Option.some.injEq] at hm'
        subst hm'
        have hQn : (b.ids ++ ([] : List Nat)).head? = none := by simp [hB]
        rw [TL3 i rfl, N2 hQn, C01 hB]
        unfold largeOf
        rw [hr]; simp [hb.of_ids_nil hB]
      | cons y ys =>
        have hmB : m ∈ b.ids := by
          rw [hB] at hm' ⊢
          rw [List.getLast?_cons_cons] at hm'
          exact mem_of_getLast? hm'
        have hmi : m ≠ i := fun e => hiB (e ▸ hmB)
        have hmb : b.ids.getLast? = some m := by
          rw [hB] at hm' ⊢
          rw [List.getLast?_cons_cons] at hm'
          exact hm'
        rw [rd_eq_largeOf (F3 m (hmA m (by simp [hmB])) (by simp; exact fun e => hmi e.symm))]
        rw [← ML1 rfl m hmb]
        by_cases hh : (b.ids ++ ([] : List Nat)).head? = some m
        · exact (Q2 m hh).2.2
        · exact rd_eq_largeOf (F2 m hmi hh)

/-! ## the converted structure, walked from both ends -/
theorem Linked.get {st : Store} : ∀ {l : List Nat}, Linked st l → ∀ k (h : k + 1 < l.length),
    largeOf st l[k] = some (some l[k+1]) ∧ smallOf st l[k+1] = some (some l[k])
  | [], _, k, h => by simp at h
  | [_], _, k, h => by simp at h
  | a :: b :: r, ⟨h1, h2, h3⟩, k, h => by
    cases k with
    | zero => exact ⟨h1, h2⟩
    | succ k => exact Linked.get h3 k (by simp at h ⊢; omega)

theorem follow_none (st : Store) (next : Node → Ptr) (fuel : Nat) : follow st next fuel none = [] := by
  cases fuel <;> rfl

/-- from the smallest record along `large`: the whole list, in order -/
theorem follow_large {st : Store} : ∀ (l : List Nat) (x : Nat) (fuel : Nat), Linked st (x :: l) →
    largeOf st ((x :: l).getLast (by simp)) = some none → l.length < fuel →
    follow st (·.large) fuel (some x) = x :: l
  | [], x, fuel, _, hend, hf => by
    cases fuel with
    | zero => simp at hf
    | succ f =>
      simp only [List.getLast_singleton, largeOf] at hend
      cases hr : rd st x with
      | none => rw [hr] at hend; cases hend
      | some nd =>
        rw [hr] at hend
        have : nd.large = none := by simpa using hend
        simp [follow, hr, this, follow_none]
  | y :: r, x, fuel, ⟨h1, _, h3⟩, hend, hf => by
    cases fuel with
    | zero => simp at hf
    | succ f =>
      unfold largeOf at h1
      cases hr : rd st x with
      | none => rw [hr] at h1; cases h1
      | some nd =>
        rw [hr] at h1
        have hl : nd.large = some y := by simpa using h1
        simp only [follow, hr, hl]
        rw [follow_large r y f h3 (by simpa using hend) (by simp at hf; omega)]

/-- from record number `k` along `small`: the records before it, backwards -/
theorem follow_small {st : Store} {l : List Nat} (hL : Linked st l) (h0 : ∀ h : 0 < l.length, smallOf st l[0] = some none) :
    ∀ (k : Nat) (hk : k < l.length) (fuel : Nat), k < fuel → follow st (·.small) fuel (some l[k]) = (l.take (k+1)).reverse
  | 0, hk, fuel, hf => by
    cases fuel with
    | zero => omega
    | succ f =>
      have := h0 hk
      unfold smallOf at this
      cases hr : rd st l[0] with
      | none => rw [hr] at this; cases this
      | some nd =>
        rw [hr] at this
        have hs : nd.small = none := by simpa using this
        simp only [follow, hr, hs, follow_none]
        cases l with
        | nil => simp at hk
        | cons a r => simp
  | k+1, hk, fuel, hf => by
    cases fuel with
    | zero => omega
    | succ f =>
      have := (hL.get k hk).2
      unfold smallOf at this
      cases hr : rd st l[k+1] with
      | none => rw [hr] at this; cases this
      | some nd =>
        rw [hr] at this
        have hs : nd.small = some l[k] := by simpa using this
        simp only [follow, hr, hs]
        rw [follow_small hL h0 k (by omega) f (by omega)]
        have e : l.take (k+1+1) = l.take (k+1) ++ [l[k+1]] := by
          rw [List.take_succ, List.getElem?_eq_getElem hk]; rfl
        rw [e, List.reverse_append]
        rfl

theorem filterMap_congr' {f g : Nat → Option Int} : ∀ (l : List Nat), (∀ x ∈ l, f x = g x) → l.filterMap f = l.filterMap g
  | [], _ => rfl
  | a :: r, h => by
    simp only [List.filterMap_cons, h a (by simp)]
    rw [filterMap_congr' r (fun x hx => h x (by simp [hx]))]

/-- in-order keys of the laid-out tree -/
theorem ids_keys {st : Store} : ∀ {t : Shape} {p : Ptr}, Repr st t p →
    t.ids.filterMap (fun i => (rd st i).map (·.key)) = Tree.toList (absTree st t)
  | .nil, _, _ => rfl
  | .node a i b, _, ⟨_, nd, hr, ha, hb⟩ => by
    simp only [Shape.ids, List.filterMap_append, List.filterMap_cons, hr, Option.map_some, absTree, Tree.toList]
    rw [ids_keys ha, ids_keys hb]

/-- `esl_red_black_doublekey_convert_to_sorted_linked` on any tree laid out in the store (distinct records) -/
theorem convert_spec {st : Store} {t : Shape} {root : Nat} (hrep : Repr st t (some root)) (hnd : t.ids.Nodup) :
    ∃ st' head tail, convert st (some root) = some (some (st', some head, some tail)) ∧
      t.ids.getLast? = some head ∧ t.ids.head? = some tail ∧
      follow st' (·.large) (st'.size + 1) (some tail) = t.ids ∧
      follow st' (·.small) (st'.size + 1) (some head) = t.ids.reverse ∧
      Linked st' t.ids ∧ smallOf st' tail = some none ∧ largeOf st' head = some none ∧
      SameData st st' ∧ (∀ j, j ∉ t.ids → rd st' j = rd st j) ∧
      t.ids.filterMap (fun i => (rd st' i).map (·.key)) = Tree.toList (absTree st t) := by
  obtain ⟨st', e, L, D, F, _, _, MS, ML⟩ := convRec_spec t (st.size + 1) st (some root) none none [] hrep (by simpa using hnd)
    (by have := hrep.height_le_size hnd; omega) rfl rfl trivial (by simp)
  simp only [List.append_nil] at e L
  have hne : t.ids ≠ [] := by
    cases t with
    | nil => cases hrep
    | node a i b => simp [Shape.ids]
  obtain ⟨tail, l, hl⟩ := List.exists_cons_of_ne_nil hne
  have hlen : t.ids.length ≤ st.size := nodup_length_le st.size t.ids hnd (fun x hx => by
    have := hrep.rd_some x hx
    cases hr : rd st x with
    | none => rw [hr] at this; cases this
    | some nd => exact rd_lt hr)
  have hhead : t.ids.getLast? = some (t.ids.getLast hne) := List.getLast?_eq_some_getLast hne
  have htail : t.ids.head? = some tail := by rw [hl]; rfl
  refine ⟨st', t.ids.getLast hne, tail, ?_, hhead, htail, ?_, ?_, L, MS tail htail, ML rfl _ hhead, D,
    fun j hj => F j hj (by simp), ?_⟩
  · simp only [convert, e, hhead, htail, Option.map_some]
  · have := follow_large (st := st') l tail (st'.size + 1) (by rw [← hl]; exact L)
      (by have := ML rfl _ hhead; simpa [hl] using this) (by rw [D.1]; rw [hl] at hlen; simp at hlen; omega)
    rw [this, hl]
  · have hk : t.ids.length - 1 < t.ids.length := by
      have : 0 < t.ids.length := by rw [hl]; simp
      omega
    have hget : t.ids.getLast hne = t.ids[t.ids.length - 1] := List.getLast_eq_getElem ..
    rw [hget, follow_small L (fun h => by
        have : t.ids[0] = tail := by simp [hl]
        rw [this]; exact MS tail htail) (t.ids.length - 1) hk (st'.size + 1) (by rw [D.1]; omega)]
    have : t.ids.length - 1 + 1 = t.ids.length := by omega
    rw [this, List.take_length]
  · rw [← ids_keys hrep]
    apply filterMap_congr'
    intro i hi
    have := hrep.rd_some i hi
    cases hr : rd st i with
    | none => rw [hr] at this; cases this
    | some nd =>
      obtain ⟨nd', r', k', _⟩ := D.2 i nd hr
      simp [r', k']

/-! ## `linked_list_test` accepts what `convert_to_sorted_linked` produces -/
/-- keys strictly increase along the list -/
def AscKeys (st : Store) : List Nat → Prop
  | [] => True
  | [_] => True
  | a :: b :: r => (∃ na nb, rd st a = some na ∧ rd st b = some nb ∧ na.key < nb.key) ∧ AscKeys st (b :: r)

theorem AscKeys.get {st : Store} : ∀ {l : List Nat}, AscKeys st l → ∀ k (h : k + 1 < l.length),
    ∃ na nb, rd st l[k] = some na ∧ rd st l[k+1] = some nb ∧ na.key < nb.key
  | [], _, k, h => by simp at h
  | [_], _, k, h => by simp at h
  | a :: b :: r, ⟨h1, h2⟩, k, h => by
    cases k with
    | zero => exact h1
    | succ k => exact AscKeys.get h2 k (by simp at h ⊢; omega)

theorem ascKeys_of_pairwise {st : Store} : ∀ (l : List Nat), (∀ x ∈ l, (rd st x).isSome = true) →
    (l.filterMap (fun i => (rd st i).map (·.key))).Pairwise (· < ·) → AscKeys st l
  | [], _, _ => trivial
  | [_], _, _ => trivial
  | a :: b :: r, hs, hp => by
    cases ha : rd st a with
    | none => have := hs a (by simp); rw [ha] at this; cases this
    | some na =>
      cases hb : rd st b with
      | none => have := hs b (by simp); rw [hb] at this; cases this
      | some nb =>
        simp only [List.filterMap_cons, ha, hb, Option.map_some] at hp
        refine ⟨⟨na, nb, ha, hb, ?_⟩, ?_⟩
        · exact (List.pairwise_cons.mp hp).1 nb.key (by simp)
        · apply ascKeys_of_pairwise (b :: r) (fun x hx => hs x (by simp [List.mem_cons.mp hx]))
          simp only [List.filterMap_cons, hb, Option.map_some]
          exact (List.pairwise_cons.mp hp).2

theorem testUp_none (st : Store) (fuel cnt : Nat) (prev : Ptr) : testUp st fuel none cnt prev = some (.inr (cnt, prev)) := by
  cases fuel <;> rfl
theorem testDown_none (st : Store) (fuel cnt : Nat) (prev : Ptr) : testDown st fuel none cnt prev = some (.inr (cnt, prev)) := by
  cases fuel <;> rfl

theorem testUp_linked {st : Store} : ∀ (l : List Nat) (x : Nat) (fuel cnt : Nat) (prev : Ptr), Linked st (x :: l) → AscKeys st (x :: l) →
    largeOf st ((x :: l).getLast (by simp)) = some none → l.length < fuel →
    testUp st fuel (some x) cnt prev = some (.inr (cnt + l.length + 1, some ((x :: l).getLast (by simp))))
  | [], x, fuel, cnt, prev, _, _, hend, hf => by
    cases fuel with
    | zero => simp at hf
    | succ f =>
      simp only [List.getLast_singleton, largeOf] at hend
      cases hr : rd st x with
      | none => rw [hr] at hend; cases hend
      | some nd =>
        rw [hr] at hend
        have : nd.large = none := by simpa using hend
        simp [testUp, hr, this, testUp_none]
  | y :: r, x, fuel, cnt, prev, ⟨h1, h2, h3⟩, ⟨⟨na, nb, ra, rb, hk⟩, hk2⟩, hend, hf => by
    cases fuel with
    | zero => simp at hf
    | succ f =>
      unfold largeOf at h1
      unfold smallOf at h2
      rw [ra] at h1
      rw [rb] at h2
      have hl : na.large = some y := by simpa using h1
      have hs : nb.small = some x := by simpa using h2
      have hk' : ¬ nb.key ≤ na.key := by omega
      simp only [testUp, ra, hl, rb, hk', hs, ↓reduceIte, ne_eq, not_true_eq_false]
      rw [testUp_linked r y f (cnt+1) (some x) h3 hk2 (by simpa using hend) (by simp at hf; omega)]
      simp only [List.length_cons, List.getLast_cons_cons]
      congr 3
      omega

theorem testDown_linked {st : Store} {l : List Nat} (hL : Linked st l) (hK : AscKeys st l)
    (h0 : ∀ h : 0 < l.length, smallOf st l[0] = some none) :
    ∀ (k : Nat) (hk : k < l.length) (fuel cnt : Nat) (prev : Ptr), k < fuel →
      testDown st fuel (some l[k]) cnt prev = some (.inr (cnt + k + 1, some (l[0]'(by omega))))
  | 0, hk, fuel, cnt, prev, hf => by
    cases fuel with
    | zero => omega
    | succ f =>
      have := h0 hk
      unfold smallOf at this
      cases hr : rd st l[0] with
      | none => rw [hr] at this; cases this
      | some nd =>
        rw [hr] at this
        have hs : nd.small = none := by simpa using this
        simp [testDown, hr, hs, testDown_none]
  | k+1, hk, fuel, cnt, prev, hf => by
    cases fuel with
    | zero => omega
    | succ f =>
      obtain ⟨hlg, hsm⟩ := hL.get k hk
      obtain ⟨na, nb, ra, rb, hlt⟩ := hK.get k hk
      unfold largeOf at hlg
      unfold smallOf at hsm
      rw [ra] at hlg
      rw [rb] at hsm
      have hl : na.large = some l[k+1] := by simpa using hlg
      have hs : nb.small = some l[k] := by simpa using hsm
      have hk' : ¬ na.key ≥ nb.key := by omega
      simp only [testDown, rb, hs, ra, hk', hl, ↓reduceIte, ne_eq, not_true_eq_false]
      rw [testDown_linked hL hK h0 k (by omega) f (cnt+1) (some l[k+1]) (by omega)]
      congr 3
      omega

/-- on a consistently doubly linked, NULL-terminated list with strictly increasing keys, `linked_list_test(&head, &tail)`
    returns `eslOK` (no `esl_fatal`, no `eslFAIL`, both walks end) -/
theorem linkedListTest_ok {st : Store} {l : List Nat} (hne : l ≠ []) (hL : Linked st l) (hK : AscKeys st l)
    (hs : smallOf st (l.head hne) = some none) (hg : largeOf st (l.getLast hne) = some none) (hlen : l.length ≤ st.size) :
    linkedListTest st (some (l.getLast hne)) (some (l.head hne)) = some .ok := by
  obtain ⟨x, r, rfl⟩ := List.exists_cons_of_ne_nil hne
  have hup := testUp_linked r x (st.size + 1) 0 none hL hK hg (by simp at hlen; omega)
  have hk : (x :: r).length - 1 < (x :: r).length := by simp
  have hdown := testDown_linked hL hK (fun _ => by simpa using hs) ((x :: r).length - 1) hk (st.size + 1) 0 none (by omega)
  have hget : (x :: r).getLast hne = (x :: r)[(x :: r).length - 1] := List.getLast_eq_getElem ..
  rw [← hget] at hdown
  simp only [linkedListTest, List.head_cons, hup, hdown]
  simp

/-- converting a search tree and then running the library's own list test: `eslOK` -/
theorem convert_then_test {st : Store} {t : Shape} {root : Nat} (hrep : Repr st t (some root)) (hnd : t.ids.Nodup)
    (hbst : (Tree.toList (absTree st t)).Pairwise (· < ·)) :
    ∃ st' head tail, convert st (some root) = some (some (st', some head, some tail)) ∧
      linkedListTest st' (some head) (some tail) = some .ok := by
  obtain ⟨st', head, tail, e, hh, ht, _, _, L, hs, hg, D, _, hkeys⟩ := convert_spec hrep hnd
  refine ⟨st', head, tail, e, ?_⟩
  have hne : t.ids ≠ [] := by intro h; rw [h] at hh; cases hh
  have hsome : ∀ x ∈ t.ids, (rd st' x).isSome = true := fun x hx => D.isSome (hrep.rd_some x hx)
  have hK : AscKeys st' t.ids := ascKeys_of_pairwise t.ids hsome (by rw [hkeys]; exact hbst)
  have e1 : t.ids.getLast hne = head := by
    have := List.getLast?_eq_some_getLast hne
    rw [hh] at this; exact (Option.some.inj this).symm
  have e2 : t.ids.head hne = tail := by
    have := List.head?_eq_some_head hne
    rw [ht] at this; exact (Option.some.inj this).symm
  have hlen : t.ids.length ≤ st'.size := nodup_length_le st'.size t.ids hnd (fun x hx => by
    have := hsome x hx
    cases hr : rd st' x with
    | none => rw [hr] at this; cases this
    | some nd => exact rd_lt hr)
  have := linkedListTest_ok hne L hK (by rw [e2]; exact hs) (by rw [e1]; exact hg) hlen
  rw [e1, e2] at this
  exact this

end EaselModel.Containers.RedBlackPtr
