import EaselModel.Containers.RedBlackPtrZip
/-! # `esl_red_black_doublekey_rebalance` on the pointer structure: the steps

Every write of the C function is followed on the store (`wr_ex`: what each record reads afterwards). The four rotations and
the recolouring are proved to turn a laid-out tree (`ReprP` for the subtree below the grandparent, `ReprCtx` for the path
above it) into the laid-out tree that `RedBlack.Tree.up` computes. -/
namespace EaselModel.Containers.RedBlackPtr
open EaselModel.Containers.RedBlack

/-! ## single writes, as functions on what every address reads -/
theorem wr_ex {st : Store} {i : Nat} (f : Node → Node) (h : (rd st i).isSome = true) :
    ∃ st', wr st i f = some st' ∧ ∀ j, rd st' j = if j = i then (rd st i).map f else rd st j := by
  obtain ⟨nd, hr⟩ := Option.isSome_iff_exists.mp h
  refine ⟨_, wr_of_rd f hr, fun j => ?_⟩
  by_cases hj : j = i
  · subst hj; simp only [↓reduceIte, hr, Option.map_some]; exact rd_set_same _ hr
  · simp only [hj, ↓reduceIte]; exact rd_set_ne st _ hj

theorem setParentIf_ex {st : Store} {q : Ptr} (g : Nat) (h : ∀ c, q = some c → (rd st c).isSome = true) :
    ∃ st', setParentIf st q g = some st' ∧
      ∀ j, rd st' j = if q = some j then (rd st j).map (fun nd => { nd with parent := some g }) else rd st j := by
  cases q with
  | none => exact ⟨st, rfl, fun j => by simp⟩
  | some c =>
    obtain ⟨st', hw, hr⟩ := wr_ex (fun nd => { nd with parent := some g }) (h c rfl)
    refine ⟨st', hw, fun j => ?_⟩
    rw [hr j]
    by_cases hj : j = c
    · subst hj; simp
    · have : ¬ c = j := fun e => hj e.symm
      simp [hj, this]

/-- `if (gg->small == g) gg->small = x; else gg->large = x;` as a record update -/
def replaceFn (g x : Nat) (nd : Node) : Node :=
  if nd.small = some g then { nd with small := some x } else { nd with large := some x }

theorem replaceChild_ex {st : Store} {gg : Nat} (g x : Nat) (h : (rd st gg).isSome = true) :
    ∃ st', replaceChild st gg g x = some st' ∧ ∀ j, rd st' j = if j = gg then (rd st gg).map (replaceFn g x) else rd st j := by
  obtain ⟨nd, hr⟩ := Option.isSome_iff_exists.mp h
  by_cases hs : nd.small = some g
  · obtain ⟨st', hw, hrd⟩ := wr_ex (fun nd => { nd with small := some x }) h
    refine ⟨st', by simp only [replaceChild, hr, hs, ↓reduceIte, hw], fun j => ?_⟩
    rw [hrd j, hr]; simp [replaceFn, hs]
  · obtain ⟨st', hw, hrd⟩ := wr_ex (fun nd => { nd with large := some x }) h
    refine ⟨st', by simp only [replaceChild, hr, hs, ↓reduceIte, hw], fun j => ?_⟩
    rw [hrd j, hr]; simp [replaceFn, hs]

/-- the tree's root after record `x` took the place of `g`: `x` itself if `g` was the root -/
def rootAfter (gpar : Ptr) (x tree : Nat) : Nat :=
  match gpar with
  | none => x
  | some _ => tree

/-- the "root or great-grandparent's child" step shared by the four rotations -/
theorem rootOrChild_ex {st : Store} {gpar : Ptr} (g x : Nat) (h : ∀ gg, gpar = some gg → (rd st gg).isSome = true) :
    ∃ st', (gpar = none → st' = st) ∧ (∀ gg, gpar = some gg → replaceChild st gg g x = some st') ∧
      ∀ j, rd st' j = if gpar = some j then (rd st j).map (replaceFn g x) else rd st j := by
  cases gpar with
  | none => exact ⟨st, fun _ => rfl, fun gg h => by simp at h, fun j => by simp⟩
  | some gg =>
    obtain ⟨st', hw, hr⟩ := replaceChild_ex g x (h gg rfl)
    refine ⟨st', fun h => by simp at h, fun gg' h' => by simp at h'; subst h'; exact hw, fun j => ?_⟩
    rw [hr j]
    by_cases hj : j = gg
    · subst hj; simp
    · have : ¬ gg = j := fun e => hj e.symm
      simp [hj, this]

theorem uncle_cases {st : Store} {U : Shape} {q par : Ptr} (h : ReprP st U q par) (hb : (absTree st U).color = .black) :
    q = none ∨ ∃ u un, q = some u ∧ rd st u = some un ∧ un.color = .black := by
  cases U with
  | nil => exact Or.inl h
  | node ua u ub =>
    obtain ⟨hq, un, hr, _⟩ := h
    refine Or.inr ⟨u, un, hq, hr, ?_⟩
    simpa only [absTree, hr, Tree.color] using hb

theorem uncle_cases_red {st : Store} {U : Shape} {q par : Ptr} (h : ReprP st U q par) (hb : (absTree st U).color = .red) :
    ∃ ua u ub un, U = .node ua u ub ∧ q = some u ∧ rd st u = some un ∧ un.color = .red := by
  cases U with
  | nil => simp [absTree, Tree.color] at hb
  | node ua u ub =>
    obtain ⟨hq, un, hr, _⟩ := h
    refine ⟨ua, u, ub, un, rfl, hq, hr, ?_⟩
    simpa only [absTree, hr, Tree.color] using hb

/-- the abstract tree depends on key and colour of the records only -/
theorem absTree_congr_kc {st st' : Store} : ∀ {t : Shape},
    (∀ i ∈ t.ids, (rd st' i).map (fun nd => (nd.key, nd.color)) = (rd st i).map (fun nd => (nd.key, nd.color))) →
    absTree st' t = absTree st t
  | .nil, _ => rfl
  | .node a i b, hc => by
    have hi := hc i (by simp [Shape.ids])
    have ha := absTree_congr_kc (t := a) (fun j hj => hc j (by simp [Shape.ids, hj]))
    have hb := absTree_congr_kc (t := b) (fun j hj => hc j (by simp [Shape.ids, hj]))
    simp only [absTree, ha, hb]
    cases h1 : rd st i with
    | none => rw [h1] at hi; cases h2 : rd st' i with
      | none => rfl
      | some nd' => rw [h2] at hi; cases hi
    | some nd =>
      rw [h1] at hi
      cases h2 : rd st' i with
      | none => rw [h2] at hi; cases hi
      | some nd' =>
        rw [h2] at hi
        simp only [Option.map_some, Option.some.injEq, Prod.mk.injEq] at hi
        simp only [hi.1, hi.2]

theorem nodup_mid {A B : List Nat} {n : Nat} (h : (A ++ n :: B).Nodup) :
    n ∉ A ∧ n ∉ B ∧ A.Nodup ∧ B.Nodup ∧ ∀ x ∈ A, x ∉ B := by
  simp only [List.nodup_append, List.nodup_cons, List.mem_cons] at h
  obtain ⟨hA, ⟨hnB, hB⟩, hAB⟩ := h
  exact ⟨fun hx => hAB n hx n (Or.inl rfl) rfl, hnB, hA, hB, fun x hx hb => hAB x hx x (Or.inr hb) rfl⟩

/-! ## the path above the grandparent after a rotation / the root -/

/-- how the records of the path above the grandparent `g` read after `x` took `g`'s place -/
def CtxUpd (st st' : Store) (fs : List Frame) (gpar : Ptr) (g x : Nat) : Prop :=
  ∀ j ∈ pathIds fs, rd st' j = if gpar = some j then (rd st j).map (replaceFn g x) else rd st j

theorem CtxUpd.repr {st st' : Store} {fs : List Frame} {gpar root : Ptr} {g x tree : Nat}
    (hctx : ReprCtx st fs (some g) gpar root) (hroot : root = some tree) (hnd : (pathIds fs).Nodup) (hg : g ∉ pathIds fs)
    (hu : CtxUpd st st' fs gpar g x) :
    ReprCtx st' fs (some x) gpar (some (rootAfter gpar x tree)) := by
  cases fs with
  | nil =>
    obtain ⟨hpar, _⟩ := hctx
    subst hpar
    exact ⟨rfl, rfl⟩
  | cons f rest =>
    have hfid : gpar = some f.id := by cases f <;> exact hctx.1
    subst hfid
    subst hroot
    refine ReprCtx.rehole hctx hnd (fun j hj hne => ?_) (fun nd hr => ?_)
    · have := hu j hj
      have hne' : ¬ f.id = j := fun e => hne e.symm
      simpa [hne'] using this
    · have := hu f.id (by simp [pathIds, Frame.ids])
      simp only [↓reduceIte, hr, Option.map_some] at this
      rw [this]
      cases f with
      | L i b =>
        obtain ⟨_, nd0, hr0, hs, _, _⟩ := hctx
        simp only [Frame.id] at hr
        rw [hr0] at hr; cases hr
        simp [replaceFn, hs]
      | R a i =>
        obtain ⟨_, nd0, hr0, hs, ha, _⟩ := hctx
        simp only [Frame.id] at hr
        rw [hr0] at hr; cases hr
        have : nd.small ≠ some g := fun e => by
          rw [e] at ha
          exact hg (by simp [pathIds, Frame.ids, Frame.sib, ha.root_mem])
        simp [replaceFn, this]

theorem CtxUpd.upPath_eq {st st' : Store} {fs : List Frame} {gpar root : Ptr} {g x : Nat}
    (hctx : ReprCtx st fs (some g) gpar root) (hnd : (pathIds fs).Nodup)
    (hu : CtxUpd st st' fs gpar g x) (r : Res Int) : upPath st' fs r = upPath st fs r := by
  cases fs with
  | nil => rfl
  | cons f rest =>
    have hfid : gpar = some f.id := by cases f <;> exact hctx.1
    subst hfid
    have hsame : ∀ j ∈ pathIds (f :: rest), j ≠ f.id → rd st' j = rd st j := fun j hj hne => by
      have := hu j hj
      have hne' : ¬ f.id = j := fun e => hne e.symm
      simpa [hne'] using this
    have hf : (rd st' f.id) = (rd st f.id).map (replaceFn g x) := by
      have := hu f.id (by simp [pathIds, Frame.ids])
      simpa using this
    simp only [pathIds, Frame.ids, List.cons_append, List.nodup_cons, List.mem_append, not_or] at hnd
    obtain ⟨⟨hsib, hrest⟩, _⟩ := hnd
    have hrestEq : ∀ j ∈ pathIds rest, rd st' j = rd st j := fun j hj =>
      hsame j (by simp [pathIds, hj]) (fun e => hrest (e ▸ hj))
    cases f with
    | L i b =>
      obtain ⟨_, nd, hr, _, _, hrst⟩ := hctx
      simp only [Frame.id] at hf hsib
      have hb : absTree st' b = absTree st b :=
        absTree_congr (fun j hj => hsame j (by simp [pathIds, Frame.ids, Frame.sib, hj]) (fun e => hsib (by simp only [Frame.id] at e; subst e; exact hj)))
      simp only [upPath, upFrame, hf, hr, Option.map_some, hb]
      have hk : (replaceFn g x nd).key = nd.key := by unfold replaceFn; split <;> rfl
      have hc : (replaceFn g x nd).color = nd.color := by unfold replaceFn; split <;> rfl
      rw [hk, hc]
      exact upPath_congr_eq _ hrst hrestEq
    | R a i =>
      obtain ⟨_, nd, hr, _, _, hrst⟩ := hctx
      simp only [Frame.id] at hf hsib
      have hb : absTree st' a = absTree st a :=
        absTree_congr (fun j hj => hsame j (by simp [pathIds, Frame.ids, Frame.sib, hj]) (fun e => hsib (by simp only [Frame.id] at e; subst e; exact hj)))
      simp only [upPath, upFrame, hf, hr, Option.map_some, hb]
      have hk : (replaceFn g x nd).key = nd.key := by unfold replaceFn; split <;> rfl
      have hc : (replaceFn g x nd).color = nd.color := by unfold replaceFn; split <;> rfl
      rw [hk, hc]
      exact upPath_congr_eq _ hrst hrestEq

theorem ReprCtx.gpar_isSome {st : Store} {fs : List Frame} {hp gpar root : Ptr} (hctx : ReprCtx st fs hp gpar root) :
    ∀ gg, gpar = some gg → (rd st gg).isSome = true ∧ gg ∈ pathIds fs := by
  intro gg hgg
  cases fs with
  | nil => obtain ⟨h, _⟩ := hctx; rw [h] at hgg; cases hgg
  | cons f rest =>
    cases f with
    | L i b =>
      obtain ⟨h, nd, hr, _⟩ := hctx
      rw [h] at hgg; cases hgg
      exact ⟨by simp [hr], by simp [pathIds, Frame.ids, Frame.id]⟩
    | R a i =>
      obtain ⟨h, nd, hr, _⟩ := hctx
      rw [h] at hgg; cases hgg
      exact ⟨by simp [hr], by simp [pathIds, Frame.ids, Frame.id]⟩

/-- a pointer that is the root of a laid-out subtree points into that subtree -/
theorem ReprP.ptr_mem {st : Store} {t : Shape} {q par : Ptr} (h : ReprP st t q par) : ∀ c, q = some c → c ∈ t.ids ∧ (rd st c).isSome = true := by
  intro c hc
  subst hc
  refine ⟨h.root_mem, ?_⟩
  cases t with
  | nil => cases h
  | node a i b =>
    obtain ⟨hp, nd, hr, _⟩ := h
    cases hp
    simp [hr]

theorem nodup4 {A B C D : List Nat} (h : (A ++ (B ++ (C ++ D))).Nodup) :
    A.Nodup ∧ B.Nodup ∧ C.Nodup ∧ D.Nodup ∧ (∀ x ∈ A, x ∉ B) ∧ (∀ x ∈ A, x ∉ C) ∧ (∀ x ∈ A, x ∉ D) ∧
    (∀ x ∈ B, x ∉ C) ∧ (∀ x ∈ B, x ∉ D) ∧ (∀ x ∈ C, x ∉ D) := by
  simp only [List.nodup_append, List.mem_append] at h
  obtain ⟨hA, ⟨hB, ⟨hC, hD, hCD⟩, hBCD⟩, hABCD⟩ := h
  refine ⟨hA, hB, hC, hD, ?_, ?_, ?_, ?_, ?_, ?_⟩
  · exact fun x hx hb => hABCD x hx x (Or.inl hb) rfl
  · exact fun x hx hb => hABCD x hx x (Or.inr (Or.inl hb)) rfl
  · exact fun x hx hb => hABCD x hx x (Or.inr (Or.inr hb)) rfl
  · exact fun x hx hb => hBCD x hx x (Or.inl hb) rfl
  · exact fun x hx hb => hBCD x hx x (Or.inr hb) rfl
  · exact fun x hx hb => hCD x hx x hb rfl

end EaselModel.Containers.RedBlackPtr
