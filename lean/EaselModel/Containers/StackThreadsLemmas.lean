import EaselModel.Containers.StackThreads
/-! # Lemmas: safety of the thread-communication mode of esl_stack.c under every schedule -/
namespace EaselModel.Containers.StackThreads
open EaselModel.Containers.Stack

variable {α : Type}

theorem pop_some_toList (s s' : Stack α) (x : α) (h : pop s = (s', some x)) :
    s.data.toList = s'.data.toList ++ [x] ∧ s'.nalloc = s.nalloc := by
  have h1 := popAll_cons_of_pop s x s' h
  unfold popAll at h1
  have h2 : s.data.toList = (x :: s'.data.toList.reverse).reverse := by rw [← h1]; simp
  refine ⟨by simpa using h2, ?_⟩
  unfold pop at h
  cases hb : s.data.back? with
  | none => simp [hb] at h
  | some y => simp [hb] at h; rw [← h.1]

theorem pop_none_eq (s s' : Stack α) (h : pop s = (s', none)) : s' = s ∧ s.data.size = 0 := by
  obtain ⟨h1, h2⟩ := popAll_nil_of_pop s s' h
  refine ⟨h2, ?_⟩
  unfold popAll at h1
  have : s.data.toList = [] := by simpa using h1
  simpa using congrArg List.length this

theorem pending_set (ths : List (Thread α)) (t : Nat) (th : Thread α) (h : ths[t]? = some th) :
    ∃ A B, pending ths = A ++ pushesOf th.prog ++ B ∧ ∀ th', pending (ths.set t th') = A ++ pushesOf th'.prog ++ B := by
  induction ths generalizing t with
  | nil => simp at h
  | cons a l ih =>
    cases t with
    | zero =>
      simp at h; subst h
      exact ⟨[], pending l, by simp [pending], fun th' => by simp [pending]⟩
    | succ t =>
      obtain ⟨A, B, h1, h2⟩ := ih t (by simpa using h)
      refine ⟨pushesOf a.prog ++ A, B, ?_, fun th' => ?_⟩
      · simp only [pending, List.flatMap_cons] at h1 ⊢; rw [h1]; simp
      · have := h2 th'
        simp only [pending, List.flatMap_cons, List.set_cons_succ] at this ⊢; rw [this]; simp

/-- the invariant of the transition system. `base` = content of the stack at the start, `all` = every value some thread's
    program pushes -/
structure WF (base all : List α) (st : TS α) : Prop where
  inv : Stack.Inv st.stack
  excl : ∀ (t : Nat) (th : Thread α), st.threads[t]? = some th → (th.phase = .holding ↔ st.lock = some t)
  owner : ∀ t, st.lock = some t → t < st.threads.length
  busy : ∀ (t : Nat) (th : Thread α), st.threads[t]? = some th → th.phase ≠ .start → th.prog ≠ []
  cons : (base ++ st.pushed).Perm (st.stack.data.toList ++ st.popped)
  pend : (st.pushed ++ pending st.threads).Perm all
  eod : st.doCond = true → ∀ th ∈ st.threads, TOut.eod ∉ th.outs

theorem wf_initial (s : Stack α) (hi : Stack.Inv s) (progs : List (List (TOp α))) :
    WF s.data.toList (progs.flatMap pushesOf) (initial s progs) where
  inv := hi
  excl := by
    intro t th h
    simp only [initial, List.getElem?_map] at h
    cases hp : progs[t]? with
    | none => simp [hp] at h
    | some p => simp [hp] at h; subst h; simp [initial]
  owner := by intro t h; simp [initial] at h
  busy := by
    intro t th h
    simp only [initial, List.getElem?_map] at h
    cases hp : progs[t]? with
    | none => simp [hp] at h
    | some p => simp [hp] at h; subst h; simp
  cons := by simp [initial]
  pend := by
    simp only [initial, List.nil_append, pending, List.flatMap_map]
    exact List.Perm.refl _
  eod := by
    intro _ th hth
    simp only [initial, List.mem_map] at hth
    obtain ⟨p, _, rfl⟩ := hth
    simp

/-- what one critical section does -/
theorem bodyOf_spec {base : List α} (st st' : TS α) (th th' : Thread α) (hinv : Stack.Inv st.stack)
    (hc : (base ++ st.pushed).Perm (st.stack.data.toList ++ st.popped)) (hne : TOut.eod ∉ th.outs ∨ st.doCond = false)
    (h : bodyOf st th = some (st', th')) :
    st'.threads = st.threads ∧ st'.lock = none ∧ th'.phase ≠ .holding ∧ (th'.phase ≠ .start → th'.prog ≠ []) ∧
    Stack.Inv st'.stack ∧ (base ++ st'.pushed).Perm (st'.stack.data.toList ++ st'.popped) ∧
    (∀ A B : List α, (st'.pushed ++ (A ++ pushesOf th'.prog ++ B)).Perm (st.pushed ++ (A ++ pushesOf th.prog ++ B))) ∧
    (st'.doCond = true → st.doCond = true ∧ TOut.eod ∉ th'.outs) := by
  unfold bodyOf at h
  have heod : ∀ o : TOut α, o ≠ .eod → st.doCond = true → TOut.eod ∉ th.outs ++ [o] := by
    intro o ho hd hm
    rcases hne with hne | hne
    · rcases List.mem_append.mp hm with h1 | h1
      · exact hne h1
      · simp at h1; exact ho h1.symm
    · rw [hne] at hd; cases hd
  split at h
  · cases h
  · -- push
    rename_i x rest hp
    obtain ⟨s', hs, hi', hd⟩ := push_spec st.stack x hinv
    rw [hs] at h
    simp only [Option.some.injEq, Prod.mk.injEq] at h
    obtain ⟨rfl, rfl⟩ := h
    refine ⟨rfl, rfl, by simp, by simp, hi', ?_, ?_, ?_⟩
    · show (base ++ (st.pushed ++ [x])).Perm (s'.data.toList ++ st.popped)
      rw [hd]; simp only [Array.toList_push]
      have h1 := List.Perm.append_right [x] hc
      have h2 : (st.stack.data.toList ++ st.popped ++ [x]).Perm (st.stack.data.toList ++ [x] ++ st.popped) := by
        simp only [List.append_assoc]
        exact List.Perm.append_left _ List.perm_append_comm
      simpa [List.append_assoc] using h1.trans h2
    · intro A B
      show ((st.pushed ++ [x]) ++ (A ++ pushesOf rest ++ B)).Perm (st.pushed ++ (A ++ pushesOf th.prog ++ B))
      rw [hp]; simp only [pushesOf, List.append_assoc]
      apply List.Perm.append_left
      simp only [List.singleton_append]
      exact (List.perm_middle (a := x) (l₁ := A) (l₂ := pushesOf rest ++ B)).symm
    · intro hd'
      exact ⟨hd', heod .done (by simp) hd'⟩
  · -- pop
    rename_i rest hp
    split at h
    · simp only [Option.some.injEq, Prod.mk.injEq] at h
      obtain ⟨rfl, rfl⟩ := h
      refine ⟨rfl, rfl, by simp, by simp [hp], hinv, hc, fun A B => List.Perm.refl _, ?_⟩
      intro hd'
      rcases hne with hne | hne
      · exact ⟨hd', hne⟩
      · exact absurd hd' (by simp [hne])
    · rename_i hcond
      split at h
      · rename_i s' x hpop
        simp only [Option.some.injEq, Prod.mk.injEq] at h
        obtain ⟨rfl, rfl⟩ := h
        obtain ⟨hl, hna⟩ := pop_some_toList _ _ _ hpop
        have hi' : Stack.Inv s' := by have := pop_inv st.stack hinv; rw [hpop] at this; exact this
        refine ⟨rfl, rfl, by simp, by simp, hi', ?_, ?_, ?_⟩
        · show (base ++ st.pushed).Perm (s'.data.toList ++ (st.popped ++ [x]))
          rw [hl] at hc
          refine hc.trans ?_
          simp only [List.append_assoc]
          exact List.Perm.append_left _ List.perm_append_comm
        · intro A B; rw [hp]; exact List.Perm.refl _
        · intro hd'; exact ⟨hd', heod (.val x) (by simp) hd'⟩
      · rename_i s' hpop
        simp only [Option.some.injEq, Prod.mk.injEq] at h
        obtain ⟨rfl, rfl⟩ := h
        obtain ⟨rfl, hsz⟩ := pop_none_eq _ _ hpop
        refine ⟨rfl, rfl, by simp, by simp, hinv, hc, ?_, ?_⟩
        · intro A B; rw [hp]; exact List.Perm.refl _
        · intro hd'
          have hd'' : st.doCond = true := hd'
          exact absurd hcond (by simp [hd'', hsz])
  · -- drain
    rename_i rest hp
    split at h
    · simp only [Option.some.injEq, Prod.mk.injEq] at h
      obtain ⟨rfl, rfl⟩ := h
      refine ⟨rfl, rfl, by simp, by simp [hp], hinv, hc, fun A B => List.Perm.refl _, ?_⟩
      intro hd'
      rcases hne with hne | hne
      · exact ⟨hd', hne⟩
      · exact absurd hd' (by simp [hne])
    · rename_i hcond
      split at h
      · rename_i s' x hpop
        simp only [Option.some.injEq, Prod.mk.injEq] at h
        obtain ⟨rfl, rfl⟩ := h
        obtain ⟨hl, hna⟩ := pop_some_toList _ _ _ hpop
        have hi' : Stack.Inv s' := by have := pop_inv st.stack hinv; rw [hpop] at this; exact this
        refine ⟨rfl, rfl, by simp, by simp, hi', ?_, ?_, ?_⟩
        · show (base ++ st.pushed).Perm (s'.data.toList ++ (st.popped ++ [x]))
          rw [hl] at hc
          refine hc.trans ?_
          simp only [List.append_assoc]
          exact List.Perm.append_left _ List.perm_append_comm
        · intro A B; rw [hp]
        · intro hd'; exact ⟨hd', heod (.val x) (by simp) hd'⟩
      · rename_i s' hpop
        simp only [Option.some.injEq, Prod.mk.injEq] at h
        obtain ⟨rfl, rfl⟩ := h
        obtain ⟨rfl, hsz⟩ := pop_none_eq _ _ hpop
        refine ⟨rfl, rfl, by simp, by simp, hinv, hc, ?_, ?_⟩
        · intro A B; rw [hp]; simp only [pushesOf]; exact List.Perm.refl _
        · intro hd'
          have hd'' : st.doCond = true := hd'
          exact absurd hcond (by simp [hd'', hsz])
  · -- release
    rename_i rest hp
    split at h
    · simp only [Option.some.injEq, Prod.mk.injEq] at h
      obtain ⟨rfl, rfl⟩ := h
      refine ⟨rfl, rfl, by simp, by simp, hinv, hc, ?_, ?_⟩
      · intro A B; rw [hp]; simp only [pushesOf]; exact List.Perm.refl _
      · intro hd'; simp at hd'
    · rename_i hdc
      simp only [Option.some.injEq, Prod.mk.injEq] at h
      obtain ⟨rfl, rfl⟩ := h
      refine ⟨rfl, rfl, by simp, by simp, hinv, hc, ?_, ?_⟩
      · intro A B; rw [hp]; simp only [pushesOf]; exact List.Perm.refl _
      · intro hd'; exact absurd hd' hdc

theorem fire_wf {base all : List α} {st st' : TS α} (a : Act) (hw : WF base all st) (h : fire st a = some st') :
    WF base all st' := by
  cases a with
  | acquire t =>
    simp only [fire] at h
    split at h
    · rename_i th hth hlock
      split at h
      · rename_i hph
        simp only [Option.some.injEq] at h; subst h
        have htl : t < st.threads.length := by
          apply Classical.byContradiction; intro hn; rw [List.getElem?_eq_none (by omega)] at hth; cases hth
        refine ⟨hw.inv, ?_, ?_, ?_, hw.cons, ?_, ?_⟩
        · intro u thu hu
          simp only [List.getElem?_set] at hu
          by_cases htu : t = u
          · subst htu; simp [htl] at hu; subst hu; simp
          · simp [htu] at hu
            have := hw.excl u thu hu
            rw [hlock] at this
            simp only [Option.some.injEq]
            constructor
            · intro hh; exact absurd (this.mp hh) (by simp)
            · intro hh; exact absurd hh htu
        · intro u hu; simp at hu; subst hu; simpa using htl
        · intro u thu hu hns
          simp only [List.getElem?_set] at hu
          by_cases htu : t = u
          · subst htu; simp [htl] at hu; subst hu; exact hph.2
          · simp [htu] at hu; exact hw.busy u thu hu hns
        · obtain ⟨A, B, h1, h2⟩ := pending_set st.threads t th hth
          have := hw.pend
          rw [h1] at this
          show (st.pushed ++ pending (st.threads.set t _)).Perm all
          rw [h2]; exact this
        · intro hd thu hu
          rcases List.mem_or_eq_of_mem_set hu with hu | hu
          · exact hw.eod hd thu hu
          · subst hu; exact hw.eod hd th (List.mem_of_getElem? hth)
      · cases h
    · cases h
  | wake t =>
    simp only [fire] at h
    split at h
    · rename_i th hth
      split at h
      · rename_i hph
        simp only [Option.some.injEq] at h; subst h
        have htl : t < st.threads.length := by
          apply Classical.byContradiction; intro hn; rw [List.getElem?_eq_none (by omega)] at hth; cases hth
        have hnl : st.lock ≠ some t := by
          intro hl; have := (hw.excl t th hth).mpr hl; rw [hph] at this; cases this
        refine ⟨hw.inv, ?_, ?_, ?_, hw.cons, ?_, ?_⟩
        · intro u thu hu
          simp only [List.getElem?_set] at hu
          by_cases htu : t = u
          · subst htu; simp [htl] at hu; subst hu
            simp only []
            constructor
            · intro hh; cases hh
            · intro hh; exact absurd hh hnl
          · simp [htu] at hu; exact hw.excl u thu hu
        · intro u hu; simpa using hw.owner u hu
        · intro u thu hu hns
          simp only [List.getElem?_set] at hu
          by_cases htu : t = u
          · subst htu; simp [htl] at hu; subst hu; exact absurd rfl hns
          · simp [htu] at hu; exact hw.busy u thu hu hns
        · obtain ⟨A, B, h1, h2⟩ := pending_set st.threads t th hth
          have := hw.pend
          rw [h1] at this
          show (st.pushed ++ pending (st.threads.set t _)).Perm all
          rw [h2]; exact this
        · intro hd thu hu
          rcases List.mem_or_eq_of_mem_set hu with hu | hu
          · exact hw.eod hd thu hu
          · subst hu; exact hw.eod hd th (List.mem_of_getElem? hth)
      · cases h
    · cases h
  | body t =>
    simp only [fire] at h
    split at h
    · rename_i th hth
      split at h
      · rename_i hph
        split at h
        · cases h
        · rename_i st1 th1 hb
          simp only [Option.some.injEq] at h; subst h
          have htl : t < st.threads.length := by
            apply Classical.byContradiction; intro hn; rw [List.getElem?_eq_none (by omega)] at hth; cases hth
          have hne : TOut.eod ∉ th.outs ∨ st.doCond = false := by
            cases hd : st.doCond with
            | false => right; rfl
            | true => left; exact hw.eod hd th (List.mem_of_getElem? hth)
          obtain ⟨e1, e2, e3, e4, e5, e6, e7, e8⟩ := bodyOf_spec (base := base) st st1 th th1 hw.inv hw.cons hne hb
          refine ⟨e5, ?_, ?_, ?_, e6, ?_, ?_⟩
          · intro u thu hu
            simp only [e1, List.getElem?_set] at hu
            simp only [e2]
            by_cases htu : t = u
            · subst htu; simp [htl] at hu; subst hu
              constructor
              · intro hh; exact absurd hh e3
              · intro hh; cases hh
            · simp [htu] at hu
              constructor
              · intro hh
                have := (hw.excl u thu hu).mp hh
                rw [hph.2] at this
                simp at this; exact absurd this htu
              · intro hh; cases hh
          · intro u hu; rw [e2] at hu; cases hu
          · intro u thu hu hns
            simp only [e1, List.getElem?_set] at hu
            by_cases htu : t = u
            · subst htu; simp [htl] at hu; subst hu; exact e4 hns
            · simp [htu] at hu; exact hw.busy u thu hu hns
          · obtain ⟨A, B, h1, h2⟩ := pending_set st.threads t th hth
            have := hw.pend
            rw [h1] at this
            show (st1.pushed ++ pending (st1.threads.set t th1)).Perm all
            rw [e1, h2]
            exact (e7 A B).trans this
          · intro hd thu hu
            have hd' : st1.doCond = true := hd
            obtain ⟨hd0, hno⟩ := e8 hd'
            simp only [e1] at hu
            rcases List.mem_or_eq_of_mem_set hu with hu | hu
            · exact hw.eod hd0 thu hu
            · subst hu; exact hno
      · cases h
    · cases h

theorem runSched_wf {base all : List α} (acts : List Act) {st st' : TS α} (hw : WF base all st)
    (h : runSched st acts = some st') : WF base all st' := by
  induction acts generalizing st with
  | nil => simp [runSched] at h; subst h; exact hw
  | cons a rest ih =>
    simp only [runSched] at h
    split at h
    · cases h
    · rename_i st1 hf
      exact ih (fire_wf a hw hf) h

theorem pending_finished (st : TS α) (h : finished st) : pending st.threads = [] := by
  unfold pending
  apply List.flatMap_eq_nil_iff.mpr
  intro th hth
  rw [h th hth]; rfl

/-- no deadlock by the mutex discipline: while some thread has work left, some action is enabled -/
theorem progress {base all : List α} (st : TS α) (hw : WF base all st) (t : Nat) (th : Thread α)
    (hth : st.threads[t]? = some th) (hp : th.prog ≠ []) : ∃ a, (fire st a).isSome = true := by
  cases hl : st.lock with
  | some u =>
    have hu := hw.owner u hl
    have hthu : st.threads[u]? = some st.threads[u] := by simp [hu]
    have hph := (hw.excl u _ hthu).mpr hl
    have hne := hw.busy u _ hthu (by rw [hph]; simp)
    refine ⟨.body u, ?_⟩
    simp only [fire, hthu, hph, hl, and_self, ↓reduceIte]
    have : ∃ r, bodyOf st st.threads[u] = some r := by
      unfold bodyOf
      cases hpr : st.threads[u].prog with
      | nil => exact absurd hpr hne
      | cons op rest =>
        cases op with
        | push x =>
          obtain ⟨s', hs, _, _⟩ := push_spec st.stack x hw.inv
          simp [hs]
        | pop =>
          simp only
          split
          · exact ⟨_, rfl⟩
          · split <;> exact ⟨_, rfl⟩
        | drain =>
          simp only
          split
          · exact ⟨_, rfl⟩
          · split <;> exact ⟨_, rfl⟩
        | release =>
          simp only
          split <;> exact ⟨_, rfl⟩
    obtain ⟨r, hr⟩ := this
    simp [hr]
  | none =>
    cases hph : th.phase with
    | start => exact ⟨.acquire t, by simp [fire, hth, hl, hph, hp]⟩
    | waiting => exact ⟨.wake t, by simp [fire, hth, hph]⟩
    | holding =>
      have := (hw.excl t th hth).mp hph
      rw [hl] at this; cases this

end EaselModel.Containers.StackThreads
