import EaselModel.Containers.StackThreads
/-! # Lemmas: safety of the thread-communication mode of esl_stack.c under every schedule -/
namespace EaselModel.Containers.StackThreads
open EaselModel.Containers.Stack

variable {α : Type}

theorem pop_some_toList (s s' : Stack α) (x : α) (h : pop s = (s', some x)) :
    s.data.toList = s'.data.toList ++ [x] ∧ s'.nalloc = s.nalloc := by
  have h1 := popAll_cons_of_pop s x s' h
  unfold popAll at h1
  have h2 : s.data.toList = (x :: s'.data.toList.reverse).reverse := by rw [← h1]; simp
  refine ⟨by simpa using h2, ?_⟩
  unfold pop at h
  cases hb : s.data.back? with
  | none => simp [hb] at h
  | some y => simp [hb] at h; rw [← h.1]

theorem pop_none_eq (s s' : Stack α) (h : pop s = (s', none)) : s' = s ∧ s.data.size = 0 := by
  obtain ⟨h1, h2⟩ := popAll_nil_of_pop s s' h
  refine ⟨h2, ?_⟩
  unfold popAll at h1
  have : s.data.toList = [] := by simpa using h1
  simpa using congrArg List.length this

theorem pending_set (ths : List (Thread α)) (t : Nat) (th : Thread α) (h : ths[t]? = some th) :
    ∃ A B, pending ths = A ++ pushesOf th.prog ++ B ∧ ∀ th', pending (ths.set t th') = A ++ pushesOf th'.prog ++ B := by
  induction ths generalizing t with
  | nil => simp at h
  | cons a l ih =>
    cases t with
    | zero =>
      simp at h; subst h
      exact ⟨[], pending l, by simp [pending], fun th' => by simp [pending]⟩
    | succ t =>
      obtain ⟨A, B, h1, h2⟩ := ih t (by simpa using h)
      refine ⟨pushesOf a.prog ++ A, B, ?_, fun th' => ?_⟩
      · simp only [pending, List.flatMap_cons] at h1 ⊢; rw [h1]; simp
      · have := h2 th'
        simp only [pending, List.flatMap_cons, List.set_cons_succ] at this ⊢; rw [this]; simp

/-- the invariant of the transition system. `base` = content of the stack at the start, `all` = every value some thread's
    program pushes -/
structure WF (base all : List α) (st : TS α) : Prop where
  inv : Stack.Inv st.stack
  excl : ∀ (t : Nat) (th : Thread α), st.threads[t]? = some th → (th.phase = .holding ↔ st.lock = some t)
  owner : ∀ t, st.lock = some t → t < st.threads.length
  busy : ∀ (t : Nat) (th : Thread α), st.threads[t]? = some th → th.phase ≠ .start → th.prog ≠ []
  cons : (base ++ st.pushed).Perm (st.stack.data.toList ++ st.popped)
  pend : (st.pushed ++ pending st.threads).Perm all
  eod : st.doCond = true → ∀ th ∈ st.threads, TOut.eod ∉ th.outs

theorem wf_initial (s : Stack α) (hi : Stack.Inv s) (progs : List (List (TOp α))) :
    WF s.data.toList (progs.flatMap pushesOf) (initial s progs) where
  inv := hi
  excl := by
    intro t th h
    simp only [initial, List.getElem?_map] at h
    cases hp : progs[t]? with
    | none => simp [hp] at h
    | some p => simp [hp] at h; subst h; simp [initial]
  owner := by intro t h; simp [initial] at h
  busy := by
    intro t th h
    simp only [initial, List.getElem?_map] at h
    cases hp : progs[t]? with
    | none => simp [hp] at h
    | some p => simp [hp] at h; subst h; simp
  cons := by simp [initial]
  pend := by
    simp only [initial, List.nil_append, pending, List.flatMap_map]
    exact List.Perm.refl _
  eod := by
    intro _ th hth
    simp only [initial, List.mem_map] at hth
    obtain ⟨p, _, rfl⟩ := hth
    simp

/-- what one critical section does -/
theorem bodyOf_spec {base : List α} (st st' : TS α) (th th' : Thread α) (hinv : Stack.Inv st.stack)
    (hc : (base ++ st.pushed).Perm (st.stack.data.toList ++ st.popped)) (hne : TOut.eod ∉ th.outs ∨ st.doCond = false)
    (h : bodyOf st th = some (st', th')) :
    st'.threads = st.threads ∧ st'.lock = none ∧ th'.phase ≠ .holding ∧ (th'.phase ≠ .start → th'.prog ≠ []) ∧
    Stack.Inv st'.stack ∧ (base ++ st'.pushed).Perm (st'.stack.data.toList ++ st'.popped) ∧
    (∀ A B : List α, (st'.pushed ++ (A ++ pushesOf th'.prog ++ B)).Perm (st.pushed ++ (A ++ pushesOf th.prog ++ B))) ∧
    (st'.doCond = true → st.doCond = true ∧ TOut.eod ∉ th'.outs) := by
  unfold bodyOf at h
  have heod : ∀ o : TOut α, o ≠ .eod → st.doCond = true → TOut.eod ∉ th.outs ++ [o] := by
    intro o ho hd hm
    rcases hne with hne | hne
    · rcases List.mem_append.mp hm with h1 | h1
      · exact hne h1
      · simp at h1; exact ho h1.symm
    · rw [hne] at hd; cases hd
  split at h
  · cases h
  · -- push
    rename_i x rest hp
    obtain ⟨s', hs, hi', hd⟩ := push_spec st.stack x hinv
    rw [hs] at h
    simp only [Option.some.injEq, Prod.mk.injEq] at h
    obtain ⟨rfl, rfl⟩ := h
    refine ⟨rfl, rfl, by simp, by simp, hi', ?_, ?_, ?_⟩
    · show (base ++ (st.pushed ++ [x])).Perm (s'.data.toList ++ st.popped)
      rw [hd]; simp only [Array.toList_push]
      have h1 := List.Perm.append_right [x] hc
      have h2 : (st.stack.data.toList ++ st.popped ++ [x]).Perm (st.stack.data.toList ++ [x] ++ st.popped) := by
        simp only [List.append_assoc]
        exact List.Perm.append_left _ List.perm_append_comm
      simpa [List.append_assoc] using h1.trans h2
    · intro A B
      show ((st.pushed ++ [x]) ++ (A ++ pushesOf rest ++ B)).Perm (st.pushed ++ (A ++ pushesOf th.prog ++ B))
      rw [hp]; simp only [pushesOf, List.append_assoc]
      apply List.Perm.append_left
      simp only [List.singleton_append]
      exact (List.perm_middle (a := x) (l₁ := A) (l₂ := pushesOf rest ++ B)).symm
    · intro hd'
      exact ⟨hd', heod .done (by simp) hd'⟩
  · -- pop
    rename_i rest hp
    split at h
    · simp only [Option.some.injEq, Prod.mk.injEq] at h
      obtain ⟨rfl, rfl⟩ := h
      refine ⟨rfl, rfl, by simp, by simp [hp], hinv, hc, fun A B => List.Perm.refl _, ?_⟩
      intro hd'
      rcases hne with hne | hne
      · exact ⟨hd', hne⟩
      · exact absurd hd' (by simp [hne])
    · rename_i hcond
      split at h
      · rename_i s' x hpop
        simp only [Option.some.injEq, Prod.mk.injEq] at h
        obtain ⟨rfl, rfl⟩ := h
        obtain ⟨hl, hna⟩ := pop_some_toList _ _ _ hpop
        have hi' : Stack.Inv s' := by have := pop_inv st.stack hinv; rw [hpop] at this; exact this
        refine ⟨rfl, rfl, by simp, by simp, hi', ?_, ?_, ?_⟩
        · show (base ++ st.pushed).Perm (s'.data.toList ++ (st.popped ++ [x]))
          rw [hl] at hc
          refine hc.trans ?_
          simp only [List.append_assoc]
          exact List.Perm.append_left _ List.perm_append_comm
        · intro A B; rw [hp]; exact List.Perm.refl _
        · intro hd'; exact ⟨hd', heod (.val x) (by simp) hd'⟩
      · rename_i s' hpop
        simp only [Option.some.injEq, Prod.mk.injEq] at h
        obtain ⟨rfl, rfl⟩ := h
        obtain ⟨rfl, hsz⟩ := pop_none_eq _ _ hpop
        refine ⟨rfl, rfl, by simp, by simp, hinv, hc, ?_, ?_⟩
        · intro A B; rw [hp]; exact List.Perm.refl _
        · intro hd'
          have hd'' : st.doCond = true := hd'
          exact absurd hcond (by simp [hd'', hsz])
  · -- drain
    rename_i rest hp
    split at h
    · simp only [Option.some.injEq, Prod.mk.injEq] at h
      obtain ⟨rfl, rfl⟩ := h
      refine ⟨rfl, rfl, by simp, by simp [hp], hinv, hc, fun A B => List.Perm.refl _, ?_⟩
      intro hd'
      rcases hne with hne | hne
      · exact ⟨hd', hne⟩
      · exact absurd hd' (by simp [hne])
    · rename_i hcond
      split at h
      · rename_i s' x hpop
        simp only [Option.some.injEq, Prod.mk.injEq] at h
        obtain ⟨rfl, rfl⟩ := h
        obtain ⟨hl, hna⟩ := pop_some_toList _ _ _ hpop
        have hi' : Stack.Inv s' := by have := pop_inv st.stack hinv; rw [hpop] at this; exact this
        refine ⟨rfl, rfl, by simp, by simp, hi', ?_, ?_, ?_⟩
        · show (base ++ st.pushed).Perm (s'.data.toList ++ (st.popped ++ [x]))
          rw [hl] at hc
          refine hc.trans ?_
          simp only [List.append_assoc]
          exact List.Perm.append_left _ List.perm_append_comm
        · intro A B; rw [hp]
        · intro hd'; exact ⟨hd', heod (.val x) (by simp) hd'⟩
      · rename_i s' hpop
        simp only [Option.some.injEq, Prod.mk.injEq] at h
        obtain ⟨rfl, rfl⟩ := h
        obtain ⟨rfl, hsz⟩ := pop_none_eq _ _ hpop
        refine ⟨rfl, rfl, by simp, by simp, hinv, hc, ?_, ?_⟩
        · intro A B; rw [hp]; simp only [pushesOf]; exact List.Perm.refl _
        · intro hd'
          have hd'' : st.doCond = true := hd'
          exact absurd hcond (by simp [hd'', hsz])
  · -- release
    rename_i rest hp
    split at h
    · simp only [Option.some.injEq, Prod.mk.injEq] at h
      obtain ⟨rfl, rfl⟩ := h
      refine ⟨rfl, rfl, by simp, by simp, hinv, hc, ?_, ?_⟩
      · intro A B; rw [hp]; simp only [pushesOf]; exact List.Perm.refl _
      · intro hd'; simp at hd'
    · rename_i hdc
      simp only [Option.some.injEq, Prod.mk.injEq] at h
      obtain ⟨rfl, rfl⟩ := h
      refine ⟨rfl, rfl, by simp, by simp, hinv, hc, ?_, ?_⟩
      · intro A B; rw [hp]; simp only [pushesOf]; exact List.Perm.refl _
      · intro hd'; exact absurd hd' hdc

theorem fire_wf {base all : List α} {st st' : TS α} (a : Act) (hw : WF base all st) (h : fire st a = some st') :
    WF base all st' := by
  cases a with
  | acquire t =>
    simp only [fire] at h
    split at h
    · rename_i th hth hlock
      split at h
      · rename_i hph
        simp only [Option.some.injEq] at h; subst h
        have htl : t < st.threads.length := by
          apply Classical.byContradiction; intro hn; rw [List.getElem?_eq_none (by omega)] at hth; cases hth
        refine ⟨hw.inv, ?_, ?_, ?_, hw.cons, ?_, ?_⟩
        · intro u thu hu
          simp only [List.getElem?_set] at hu
          by_cases htu : t = u
          · subst htu; simp [htl] at hu; subst hu; simp
          · simp [htu] at hu
            have := hw.excl u thu hu
            rw [hlock] at this
            simp only [Option.some.injEq]
            constructor
            · intro hh; exact absurd (this.mp hh) (by simp)
            · intro hh; exact absurd hh htu
        · intro u hu; simp at hu; subst hu; simpa using htl
        · intro u thu hu hns
          simp only [List.getElem?_set] at hu
          by_cases htu : t = u
          · subst htu; simp [htl] at hu; subst hu; exact hph.2
          · simp [htu] at hu; exact hw.busy u thu hu hns
        · obtain ⟨A, B, h1, h2⟩ := pending_set st.threads t th hth
          have := hw.pend
          rw [h1] at this
          show (st.pushed ++ pending (st.threads.set t _)).Perm all
          rw [h2]; exact this
        · intro hd thu hu
          rcases List.mem_or_eq_of_mem_set hu with hu | hu
          · exact hw.eod hd thu hu
          · subst hu; exact hw.eod hd th (List.mem_of_getElem? hth)
      · cases h
    · cases h
  | wake t =>
    simp only [fire] at h
    split at h
    · rename_i th hth
      split at h
      · rename_i hph
        simp only [Option.some.injEq] at h; subst h
        have htl : t < st.threads.length := by
          apply Classical.byContradiction; intro hn; rw [List.getElem?_eq_none (by omega)] at hth; cases hth
        have hnl : st.lock ≠ some t := by
          intro hl; have := (hw.excl t th hth).mpr hl; rw [hph] at this; cases this
        refine ⟨hw.inv, ?_, ?_, ?_, hw.cons, ?_, ?_⟩
        · intro u thu hu
          simp only [List.getElem?_set] at hu
          by_cases htu : t = u
          · subst htu; simp [htl] at hu; subst hu
            simp only []
            constructor
            · intro hh; cases hh
            · intro hh; exact absurd hh hnl
          · simp [htu] at hu; exact hw.excl u thu hu
        · intro u hu; simpa using hw.owner u hu
        · intro u thu hu hns
          simp only [List.getElem?_set] at hu
          by_cases htu : t = u
          · subst htu; simp [htl] at hu; subst hu; exact absurd rfl hns
          · simp [htu] at hu; exact hw.busy u thu hu hns
        · obtain ⟨A, B, h1, h2⟩ := pending_set st.threads t th hth
          have := hw.pend
          rw [h1] at this
          show (st.pushed ++ pending (st.threads.set t _)).Perm all
          rw [h2]; exact this
        · intro hd thu hu
          rcases List.mem_or_eq_of_mem_set hu with hu | hu
          · exact hw.eod hd thu hu
          · subst hu; exact hw.eod hd th (List.mem_of_getElem? hth)
      · cases h
    · cases h
  | body t =>
    simp only [fire] at h
    split at h
    · rename_i th hth
      split at h
      · rename_i hph
        split at h
        · cases h
        · rename_i st1 th1 hb
          simp only [Option.some.injEq] at h; subst h
          have htl : t < st.threads.length := by
            apply Classical.byContradiction; intro hn; rw [List.getElem?_eq_none (by omega)] at hth; cases hth
          have hne : TOut.eod ∉ th.outs ∨ st.doCond = false := by
            cases hd : st.doCond with
            | false => right; rfl
            | true => left; exact hw.eod hd th (List.mem_of_getElem? hth)
          obtain ⟨e1, e2, e3, e4, e5, e6, e7, e8⟩ := bodyOf_spec (base := base) st st1 th th1 hw.inv hw.cons hne hb
          refine ⟨e5, ?_, ?_, ?_, e6, ?_, ?_⟩
          · intro u thu hu
            simp only [e1, List.getElem?_set] at hu
            simp only [e2]
            by_cases htu : t = u
            · subst htu; simp [htl] at hu; subst hu
              constructor
              · intro hh; exact absurd hh e3
              · intro hh; cases hh
            · simp [htu] at hu
              constructor
              · intro hh
                have := (hw.excl u thu hu).mp hh
                rw [hph.2] at this
                simp at this; exact absurd this htu
              · intro hh; cases hh
          · intro u hu; rw [e2] at hu; cases hu
          · intro u thu hu hns
            simp only [e1, List.getElem?_set] at hu
            by_cases htu : t = u
            · subst htu; simp [htl] at hu; subst hu; exact e4 hns
            · simp [htu] at hu; exact hw.busy u thu hu hns
          · obtain ⟨A, B, h1, h2⟩ := pending_set st.threads t th hth
            have := hw.pend
            rw [h1] at this
            show (st1.pushed ++ pending (st1.threads.set t th1)).Perm all
            rw [e1, h2]
            exact (e7 A B).trans this
          · intro hd thu hu
            have hd' : st1.doCond = true := hd
            obtain ⟨hd0, hno⟩ := e8 hd'
            simp only [e1] at hu
            rcases List.mem_or_eq_of_mem_set hu with hu | hu
            · exact hw.eod hd0 thu hu
            · subst hu; exact hno
      · cases h
    · cases h

theorem runSched_wf {base all : List α} (acts : List Act) {st st' : TS α} (hw : WF base all st)
    (h : runSched st acts = some st') : WF base all st' := by
  induction acts generalizing st with
  | nil => simp [runSched] at h; subst h; exact hw
  | cons a rest ih =>
    simp only [runSched] at h
    split at h
    · cases h
    · rename_i st1 hf
      exact ih (fire_wf a hw hf) h

theorem pending_finished (st : TS α) (h : finished st) : pending st.threads = [] := by
  unfold pending
  apply List.flatMap_eq_nil_iff.mpr
  intro th hth
  rw [h th hth]; rfl

/-- no deadlock by the mutex discipline: while some thread has work left, some action is enabled -/
theorem progress {base all : List α} (st : TS α) (hw : WF base all st) (t : Nat) (th : Thread α)
    (hth : st.threads[t]? = some th) (hp : th.prog ≠ []) : ∃ a, (fire st a).isSome = true := by
  cases hl : st.lock with
  | some u =>
    have hu := hw.owner u hl
    have hthu : st.threads[u]? = some st.threads[u] := by simp [hu]
    have hph := (hw.excl u _ hthu).mpr hl
    have hne := hw.busy u _ hthu (by rw [hph]; simp)
    refine ⟨.body u, ?_⟩
    simp only [fire, hthu, hph, hl, and_self, ↓reduceIte]
    have : ∃ r, bodyOf st st.threads[u] = some r := by
      unfold bodyOf
      cases hpr : st.threads[u].prog with
      | nil => exact absurd hpr hne
      | cons op rest =>
        cases op with
        | push x =>
          obtain ⟨s', hs, _, _⟩ := push_spec st.stack x hw.inv
          simp [hs]
        | pop =>
          simp only
          split
          · exact ⟨_, rfl⟩
          · split <;> exact ⟨_, rfl⟩
        | drain =>
          simp only
          split
          · exact ⟨_, rfl⟩
          · split <;> exact ⟨_, rfl⟩
        | release =>
          simp only
          split <;> exact ⟨_, rfl⟩
    obtain ⟨r, hr⟩ := this
    simp [hr]
  | none =>
    cases hph : th.phase with
    | start => exact ⟨.acquire t, by simp [fire, hth, hl, hph, hp]⟩
    | waiting => exact ⟨.wake t, by simp [fire, hth, hph]⟩
    | holding =>
      have := (hw.excl t th hth).mp hph
      rw [hl] at this; cases this

end EaselModel.Containers.StackThreads

namespace EaselModel.Containers.StackThreads
open EaselModel.Containers.Stack
variable {α : Type}

theorem getElem?_set_self' (l : List (Thread α)) (t : Nat) (th x : Thread α) (h : l[t]? = some th) : (l.set t x)[t]? = some x := by
  have htl : t < l.length := by
    apply Classical.byContradiction; intro hn; rw [List.getElem?_eq_none (by omega)] at h; cases h
  simp [List.getElem?_set, htl]

/-- A WAITING `Pop` COMPLETES as soon as there is something to complete with: from any reachable state in which thread `t`
    sleeps in `pthread_cond_wait`, the mutex is free, and either an item has been pushed in the meantime or `ReleaseCond` has
    cleared `do_cond`, the three steps "wake up, re-acquire the mutex, run the critical section" are all enabled and the call
    returns (one more answer: the item, or `eslEOD` after the release) — it does not go back to sleep -/
theorem waiting_pop_completes {base all : List α} (st : TS α) (hw : WF base all st) (t : Nat) (th : Thread α)
    (hth : st.threads[t]? = some th) (hph : th.phase = .waiting) (hlock : st.lock = none)
    (hready : st.doCond = false ∨ 0 < st.stack.data.size) :
    ∃ st' th', runSched st [.wake t, .acquire t, .body t] = some st' ∧ st'.threads[t]? = some th' ∧
      th'.phase = .start ∧ th'.outs.length = th.outs.length + 1 ∧ st'.lock = none := by
  have hne : th.prog ≠ [] := hw.busy t th hth (by rw [hph]; simp)
  have hcond : (st.doCond && st.stack.data.size == 0) = false := by
    rcases hready with h | h
    · simp [h]
    · have : (st.stack.data.size == 0) = false := beq_eq_false_iff_ne.mpr (by omega)
      simp [this]
  -- wake
  have f1 : fire st (.wake t) = some { st with threads := st.threads.set t { th with phase := .start } } := by
    simp [fire, hth, hph]
  -- acquire
  have g1 := getElem?_set_self' st.threads t th { th with phase := .start } hth
  have f2 : fire { st with threads := st.threads.set t { th with phase := .start } } (.acquire t) =
      some { st with lock := some t, threads := (st.threads.set t { th with phase := .start }).set t { th with phase := .holding } } := by
    simp [fire, g1, hlock, hne]
  have g2 := getElem?_set_self' (st.threads.set t { th with phase := .start }) t { th with phase := .start } { th with phase := .holding } g1
  -- body
  have hb : ∃ st3 th3, bodyOf { st with lock := some t, threads := (st.threads.set t { th with phase := .start }).set t { th with phase := .holding } }
        { th with phase := .holding } = some (st3, th3) ∧ th3.phase = .start ∧ th3.outs.length = th.outs.length + 1 ∧ st3.lock = none ∧
        st3.threads = (st.threads.set t { th with phase := .start }).set t { th with phase := .holding } := by
    unfold bodyOf
    cases hp : th.prog with
    | nil => exact absurd hp hne
    | cons op rest =>
      cases op with
      | push x =>
        obtain ⟨s', hs, _, _⟩ := push_spec st.stack x hw.inv
        simp only [hs]
        exact ⟨_, _, rfl, rfl, by simp, rfl, rfl⟩
      | pop =>
        simp only [hcond, Bool.false_eq_true, ↓reduceIte]
        cases hpop : pop st.stack with
        | mk s' r =>
          cases r with
          | some x => exact ⟨_, _, rfl, rfl, by simp, rfl, rfl⟩
          | none => exact ⟨_, _, rfl, rfl, by simp, rfl, rfl⟩
      | drain =>
        simp only [hcond, Bool.false_eq_true, ↓reduceIte]
        cases hpop : pop st.stack with
        | mk s' r =>
          cases r with
          | some x => exact ⟨_, _, rfl, rfl, by simp, rfl, rfl⟩
          | none => exact ⟨_, _, rfl, rfl, by simp, rfl, rfl⟩
      | release =>
        simp only
        split
        · exact ⟨_, _, rfl, rfl, by simp, rfl, rfl⟩
        · exact ⟨_, _, rfl, rfl, by simp, rfl, rfl⟩
  obtain ⟨st3, th3, hb1, hb2, hb3, hb4, hb5⟩ := hb
  have f3 : fire { st with lock := some t, threads := (st.threads.set t { th with phase := .start }).set t { th with phase := .holding } } (.body t) =
      some { st3 with threads := st3.threads.set t th3 } := by
    simp only [fire, g2, hb1]
    simp
  refine ⟨{ st3 with threads := st3.threads.set t th3 }, th3, ?_, ?_, hb2, hb3, hb4⟩
  · simp only [runSched, f1, f2, f3]
  · show (st3.threads.set t th3)[t]? = some th3
    rw [hb5]
    exact getElem?_set_self' _ t _ th3 g2

end EaselModel.Containers.StackThreads

namespace EaselModel.Containers.StackThreads
open EaselModel.Containers.Stack
variable {α : Type}

/-- an action that makes real progress: everything except waking a sleeper that would go straight back to sleep -/
def Useful (st : TS α) : Act → Prop
  | .wake _ => st.doCond = false ∨ 0 < st.stack.data.size
  | _ => True

theorem body_enabled {base all : List α} (st : TS α) (hw : WF base all st) (u : Nat) (hl : st.lock = some u) :
    (fire st (.body u)).isSome = true := by
  have hu := hw.owner u hl
  have hthu : st.threads[u]? = some st.threads[u] := by simp [hu]
  have hph := (hw.excl u _ hthu).mpr hl
  have hne := hw.busy u _ hthu (by rw [hph]; simp)
  simp only [fire, hthu, hph, hl, and_self, ↓reduceIte]
  have : ∃ r, bodyOf st st.threads[u] = some r := by
    unfold bodyOf
    cases hpr : st.threads[u].prog with
    | nil => exact absurd hpr hne
    | cons op rest =>
      cases op with
      | push x =>
        obtain ⟨s', hs, _, _⟩ := push_spec st.stack x hw.inv
        simp [hs]
      | pop =>
        simp only
        split
        · exact ⟨_, rfl⟩
        · split <;> exact ⟨_, rfl⟩
      | drain =>
        simp only
        split
        · exact ⟨_, rfl⟩
        · split <;> exact ⟨_, rfl⟩
      | release =>
        simp only
        split <;> exact ⟨_, rfl⟩
  obtain ⟨r, hr⟩ := this
  simp [hr]

/-- THE ONLY WAY TO GET STUCK: in every reachable state either all threads have finished, or an action that makes real
    progress is enabled, or every unfinished thread sleeps in `pthread_cond_wait` on an EMPTY stack with `do_cond` still set
    and the mutex free — the situation the documented idiom resolves by calling `esl_stack_ReleaseCond` (after which, by
    `waiting_pop_completes`, every sleeper can return). There is no other deadlock. -/
theorem stuck_only_when_all_asleep {base all : List α} (st : TS α) (hw : WF base all st) :
    finished st ∨ (∃ a, (fire st a).isSome = true ∧ Useful st a) ∨
    ((∀ (t : Nat) (th : Thread α), st.threads[t]? = some th → th.prog ≠ [] → th.phase = .waiting) ∧ st.lock = none ∧
      st.doCond = true ∧ st.stack.data.size = 0) := by
  cases hl : st.lock with
  | some u => exact Or.inr (Or.inl ⟨.body u, body_enabled st hw u hl, trivial⟩)
  | none =>
    by_cases hs : ∃ (t : Nat) (th : Thread α), st.threads[t]? = some th ∧ th.prog ≠ [] ∧ th.phase = .start
    · obtain ⟨t, th, hth, hp, hph⟩ := hs
      exact Or.inr (Or.inl ⟨.acquire t, by simp [fire, hth, hl, hph, hp], trivial⟩)
    · have hwait : ∀ (t : Nat) (th : Thread α), st.threads[t]? = some th → th.prog ≠ [] → th.phase = .waiting := by
        intro t th hth hp
        cases hph : th.phase with
        | start => exact absurd ⟨t, th, hth, hp, hph⟩ hs
        | waiting => rfl
        | holding =>
          have := (hw.excl t th hth).mp hph
          rw [hl] at this; cases this
      by_cases hfin : finished st
      · exact Or.inl hfin
      · by_cases hready : st.doCond = false ∨ 0 < st.stack.data.size
        · -- some unfinished thread exists; it is asleep and can be woken usefully
          have : ∃ th ∈ st.threads, th.prog ≠ [] := by
            apply Classical.byContradiction
            intro hno
            apply hfin
            intro th hth
            apply Classical.byContradiction
            intro hp
            exact hno ⟨th, hth, hp⟩
          obtain ⟨th, hmem, hp⟩ := this
          obtain ⟨t, htl, rfl⟩ := List.getElem_of_mem hmem
          have hth : st.threads[t]? = some st.threads[t] := by simp [htl]
          have hph := hwait t _ hth hp
          exact Or.inr (Or.inl ⟨.wake t, by simp [fire, hth, hph], hready⟩)
        · refine Or.inr (Or.inr ⟨hwait, rfl, ?_, ?_⟩)
          · cases hd : st.doCond with
            | true => rfl
            | false => exact absurd (Or.inl hd) hready
          · apply Classical.byContradiction
            intro hne
            exact hready (Or.inr (by omega))

end EaselModel.Containers.StackThreads
