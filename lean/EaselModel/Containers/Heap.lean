/-! # esl_heap.c — executable model (core Lean only)

`idata[0..n)` is the array `data` (its size is `n`); `nalloc` is carried to mirror `heap_grow`.
Every array access is bounds-checked; `none` = fault (or fuel exhausted in `heapify`: a non-terminating loop). -/
namespace EaselModel.Containers.Heap

structure Heap where
  data : Array Int
  nalloc : Nat
  isMax : Bool
deriving Repr

instance : Inhabited Heap := ⟨⟨#[], 128, false⟩⟩

/-- `esl_heap_ICreate(maxormin)`; `eslHEAP_INITALLOC = 128` -/
def create (isMax : Bool) : Heap := { data := #[], nalloc := 128, isMax := isMax }

/-- "`a` is strictly better than `b`": `maxormin == eslHEAP_MIN ? a < b : a > b` -/
def better (isMax : Bool) (a b : Int) : Bool := if isMax then decide (a > b) else decide (a < b)

def parent (i : Nat) : Nat := (i - 1) / 2
def left (i : Nat) : Nat := 2 * i + 1

/-- the hole sift-up loop of `esl_heap_IInsert`:
    `while (idx > 0 && better(val, idata[PARENT(idx)])) { idata[idx] = idata[PARENT(idx)]; idx = PARENT(idx); }`
    `idata[idx] = val;` -/
def siftUp (isMax : Bool) (val : Int) : Nat → Array Int → Nat → Option (Array Int)
  | 0, _, _ => none
  | fuel+1, d, idx =>
    if idx = 0 then (if idx < d.size then some (d.set! idx val) else none)
    else
      match d[parent idx]? with
      | none => none
      | some p =>
        if better isMax val p then
          if idx < d.size then siftUp isMax val fuel (d.set! idx p) (parent idx) else none
        else (if idx < d.size then some (d.set! idx val) else none)

/-- `esl_heap_IInsert` -/
def insert (h : Heap) (val : Int) : Option Heap :=
  let nalloc := if h.data.size == h.nalloc then h.nalloc * 2 else h.nalloc
  if h.data.size + 1 > nalloc then none          -- write past the allocation
  else
    let d := h.data.push val                      -- hp->n++ (the new cell's content is irrelevant: it is overwritten)
    match siftUp h.isMax val (d.size + 1) d (d.size - 1) with
    | none => none
    | some d' => some { h with data := d', nalloc := nalloc }

/-- `iheapify(hp, idx)`; fuel = number of elements -/
def heapify (isMax : Bool) : Nat → Array Int → Nat → Option (Array Int)
  | 0, _, _ => none
  | fuel+1, d, idx =>
    match d[idx]? with
    | none => if d.size = 0 ∧ idx = 0 then some d else none   -- n == 0: no element is read
    | some x =>
      let l := left idx
      let r := l + 1
      let best := idx
      let bestv := x
      let (best, bestv) := match d[l]? with
        | some y => if better isMax y x then (l, y) else (best, bestv)
        | none => (best, bestv)
      let (best, bestv) := match d[r]? with
        | some z => if better isMax z bestv then (r, z) else (best, bestv)
        | none => (best, bestv)
      if best = idx then some d
      else heapify isMax fuel ((d.set! idx bestv).set! best x) best

/-- `esl_heap_IExtractTop`: `(eslOK, best)` or `(eslEOD, 0)` -/
def extractTop (h : Heap) : Option (Heap × Bool × Int) :=
  if h.data.size = 0 then some (h, false, 0)
  else
    match h.data[0]?, h.data[h.data.size - 1]? with
    | some bestval, some last =>
      let d := (h.data.set! 0 last).pop
      match heapify h.isMax (d.size + 1) d 0 with
      | none => none
      | some d' => some ({ h with data := d' }, true, bestval)
    | _, _ => none

/-- `esl_heap_IExtractTop(hp, NULL)` ("to simply delete the topmost value, pass NULL for opt_val"):
    `if (hp->n == 0) { if (opt_val) *opt_val = 0; return eslEOD; }` … `if (opt_val) *opt_val = bestval;` -/
def extractTopNull (h : Heap) : Option (Heap × Bool) :=
  (extractTop h).map fun (h', ok, _) => (h', ok)

/-- the code before the fix: the empty-heap branch stored through the NULL pointer (kept for the regression theorem) -/
def extractTopNullUnguarded (h : Heap) : Option (Heap × Bool) :=
  if h.data.size = 0 then none
  else (extractTop h).map fun (h', ok, _) => (h', ok)

/-- `esl_heap_IGetTopVal` -/
def topVal (h : Heap) : Int := match h.data[0]? with | some v => v | none => 0

/-- `esl_heap_Reuse` -/
def reuse (h : Heap) : Heap := { h with data := #[] }

/-- `esl_heap_Validate` -/
def validate (h : Heap) : Bool :=
  (List.range h.data.size).all fun idx =>
    let x := h.data[idx]!
    (match h.data[left idx]? with | some y => !(better h.isMax y x) | none => true) &&
    (match h.data[left idx + 1]? with | some z => !(better h.isMax z x) | none => true)

/-- insert a list, left to right -/
def insertAll : Heap → List Int → Option Heap
  | h, [] => some h
  | h, v :: vs => match insert h v with | none => none | some h' => insertAll h' vs

/-- extract until empty (fuel = element count) -/
def drain : Nat → Heap → Option (List Int)
  | 0, h => if h.data.size = 0 then some [] else none
  | fuel+1, h =>
    match extractTop h with
    | none => none
    | some (_, false, _) => some []
    | some (h', true, v) => (drain fuel h').map (v :: ·)

end EaselModel.Containers.Heap
