import EaselModel.Containers.StackThreadsLemmas
/-! # After `esl_stack_ReleaseCond` every thread can run to completion (no deadlock, no endless waiting) -/
namespace EaselModel.Containers.StackThreads
open EaselModel.Containers.Stack
variable {α : Type}

/-- twice the number of calls still to be made plus the number of items on the stack: every critical section executed
    after the release makes it smaller -/
def mu (st : TS α) : Nat := 2 * (st.threads.map (fun th => th.prog.length)).sum + st.stack.data.size

theorem sum_map_set (f : Thread α → Nat) : ∀ (l : List (Thread α)) (t : Nat) (a b : Thread α), l[t]? = some a →
    ((l.set t b).map f).sum + f a = (l.map f).sum + f b
  | [], t, a, b, h => by simp at h
  | x :: l, 0, a, b, h => by
    simp at h; subst h
    simp only [List.set_cons_zero, List.map_cons, List.sum_cons]; omega
  | x :: l, t+1, a, b, h => by
    have := sum_map_set f l t a b (by simpa using h)
    simp only [List.set_cons_succ, List.map_cons, List.sum_cons]; omega

theorem runSched_append (st : TS α) (a b : List Act) :
    runSched st (a ++ b) = (runSched st a).bind (fun s => runSched s b) := by
  induction a generalizing st with
  | nil => rfl
  | cons x xs ih =>
    simp only [List.cons_append, runSched]
    cases fire st x with
    | none => rfl
    | some s => exact ih s

/-- a critical section executed while `do_cond` is clear returns (it cannot go to sleep) and decreases the measure -/
theorem body_decreases {base all : List α} (st : TS α) (hw : WF base all st) (hd : st.doCond = false) (u : Nat)
    (hl : st.lock = some u) :
    ∃ st', fire st (.body u) = some st' ∧ mu st' < mu st ∧ st'.doCond = false := by
  have hu := hw.owner u hl
  have hthu : st.threads[u]? = some st.threads[u] := by simp [hu]
  have hph := (hw.excl u _ hthu).mpr hl
  have hne := hw.busy u _ hthu (by rw [hph]; simp)
  have hb : ∃ st3 th3, bodyOf st st.threads[u] = some (st3, th3) ∧ st3.threads = st.threads ∧ st3.doCond = false ∧
      2 * th3.prog.length + st3.stack.data.size < 2 * st.threads[u].prog.length + st.stack.data.size := by
    unfold bodyOf
    cases hp : st.threads[u].prog with
    | nil => exact absurd hp hne
    | cons op rest =>
      cases op with
      | push x =>
        obtain ⟨s', hs, _, hdat⟩ := push_spec st.stack x hw.inv
        simp only [hs]
        refine ⟨_, _, rfl, rfl, hd, ?_⟩
        simp only [hdat, Array.size_push, List.length_cons]; omega
      | pop =>
        simp only [hd, Bool.false_and, Bool.false_eq_true, ↓reduceIte]
        cases hpop : pop st.stack with
        | mk s' r =>
          cases r with
          | some x =>
            have := (pop_some_toList _ _ _ hpop).1
            have hsz : st.stack.data.size = s'.data.size + 1 := by
              have := congrArg List.length this; simpa using this
            exact ⟨_, _, rfl, rfl, rfl, by simp only [List.length_cons]; omega⟩
          | none =>
            obtain ⟨rfl, _⟩ := pop_none_eq _ _ hpop
            exact ⟨_, _, rfl, rfl, rfl, by simp only [List.length_cons]; omega⟩
      | drain =>
        simp only [hd, Bool.false_and, Bool.false_eq_true, ↓reduceIte]
        cases hpop : pop st.stack with
        | mk s' r =>
          cases r with
          | some x =>
            have := (pop_some_toList _ _ _ hpop).1
            have hsz : st.stack.data.size = s'.data.size + 1 := by
              have := congrArg List.length this; simpa using this
            exact ⟨_, _, rfl, rfl, rfl, by simp only [List.length_cons]; omega⟩
          | none =>
            obtain ⟨rfl, _⟩ := pop_none_eq _ _ hpop
            exact ⟨_, _, rfl, rfl, rfl, by simp only [List.length_cons]; omega⟩
      | release =>
        simp only [hd, Bool.false_eq_true, ↓reduceIte]
        exact ⟨_, _, rfl, rfl, rfl, by simp only [List.length_cons]; omega⟩
  obtain ⟨st3, th3, hb1, hb2, hb3, hb4⟩ := hb
  refine ⟨{ st3 with threads := st3.threads.set u th3 }, ?_, ?_, hb3⟩
  · simp only [fire, hthu, hph, hl, and_self, ↓reduceIte, hb1]
  · have hs := sum_map_set (fun th => th.prog.length) st.threads u st.threads[u] th3 hthu
    simp only [mu, hb2]
    omega

theorem fire_keeps {st st' : TS α} (a : Act) (h : fire st a = some st') (hnb : ∀ u, a ≠ .body u) :
    mu st' = mu st ∧ st'.doCond = st.doCond := by
  cases a with
  | body u => exact absurd rfl (hnb u)
  | acquire t =>
    simp only [fire] at h
    split at h
    · rename_i th hth hlock
      split at h
      · simp only [Option.some.injEq] at h; subst h
        have hs := sum_map_set (fun th => th.prog.length) st.threads t th { th with phase := .holding } hth
        simp only [mu] at hs ⊢
        exact ⟨by omega, by first | rfl | trivial⟩
      · cases h
    · cases h
  | wake t =>
    simp only [fire] at h
    split at h
    · rename_i th hth
      split at h
      · simp only [Option.some.injEq] at h; subst h
        have hs := sum_map_set (fun th => th.prog.length) st.threads t th { th with phase := .start } hth
        simp only [mu] at hs ⊢
        exact ⟨by omega, by first | rfl | trivial⟩
      · cases h
    · cases h

/-- one more call completes: from any reachable state with `do_cond` clear and a thread that has calls left, a short
    schedule is enabled that decreases the measure -/
theorem step_decreases {base all : List α} (st : TS α) (hw : WF base all st) (hd : st.doCond = false) (hnf : ¬ finished st) :
    ∃ acts st', runSched st acts = some st' ∧ mu st' < mu st ∧ st'.doCond = false := by
  cases hl : st.lock with
  | some u =>
    obtain ⟨st', h1, h2, h3⟩ := body_decreases st hw hd u hl
    exact ⟨[.body u], st', by simp [runSched, h1], h2, h3⟩
  | none =>
    have : ∃ th ∈ st.threads, th.prog ≠ [] := by
      apply Classical.byContradiction
      intro hno
      apply hnf
      intro th hth
      apply Classical.byContradiction
      intro hp
      exact hno ⟨th, hth, hp⟩
    obtain ⟨th, hmem, hp⟩ := this
    obtain ⟨t, htl, rfl⟩ := List.getElem_of_mem hmem
    have hth : st.threads[t]? = some st.threads[t] := by simp [htl]
    -- bring thread `t` to the point where it holds the mutex
    have hacq : ∀ (s : TS α) (thh : Thread α), WF base all s → s.doCond = false → s.lock = none → s.threads[t]? = some thh →
        thh.phase = .start → thh.prog ≠ [] → mu s = mu st →
        ∃ acts st', runSched s acts = some st' ∧ mu st' < mu st ∧ st'.doCond = false := by
      intro s thh hws hds hls hths hphs hps hmu
      have f1 : fire s (.acquire t) = some { s with lock := some t, threads := s.threads.set t { thh with phase := .holding } } := by
        simp [fire, hths, hls, hphs, hps]
      have hw1 := fire_wf (.acquire t) hws f1
      obtain ⟨k1, k2⟩ := fire_keeps (.acquire t) f1 (fun u h => by cases h)
      obtain ⟨st', h1, h2, h3⟩ := body_decreases _ hw1 (by rw [k2]; exact hds) t rfl
      exact ⟨[.acquire t, .body t], st', by simp [runSched, f1, h1], by omega, h3⟩
    cases hph : st.threads[t].phase with
    | start => exact hacq st _ hw hd hl hth hph hp rfl
    | holding =>
      have := (hw.excl t _ hth).mp hph
      rw [hl] at this; cases this
    | waiting =>
      have f0 : fire st (.wake t) = some { st with threads := st.threads.set t { st.threads[t] with phase := .start } } := by
        simp [fire, hth, hph]
      have hw0 := fire_wf (.wake t) hw f0
      obtain ⟨k1, k2⟩ := fire_keeps (.wake t) f0 (fun u h => by cases h)
      have g1 := getElem?_set_self' st.threads t st.threads[t] { st.threads[t] with phase := .start } hth
      obtain ⟨acts, st', h1, h2, h3⟩ := hacq _ { st.threads[t] with phase := .start } hw0 (by rw [k2]; exact hd) hl g1 rfl hp k1
      exact ⟨.wake t :: acts, st', by simp [runSched, f0, h1], h2, h3⟩

/-- AFTER `esl_stack_ReleaseCond` EVERY THREAD CAN RUN TO COMPLETION: from any reachable state in which `do_cond` is clear
    there is a schedule after which all threads have finished all their calls — pushers, poppers, workers that drain
    until `eslEOD`, sleepers in `pthread_cond_wait`: nobody is left waiting, whatever the state was -/
theorem completes_after_release {base all : List α} : ∀ (n : Nat) (st : TS α), mu st ≤ n → WF base all st → st.doCond = false →
    ∃ acts st', runSched st acts = some st' ∧ finished st'
  | 0, st, hn, hw, hd => by
    by_cases hf : finished st
    · exact ⟨[], st, rfl, hf⟩
    · obtain ⟨acts, st', _, h2, _⟩ := step_decreases st hw hd hf
      omega
  | n+1, st, hn, hw, hd => by
    by_cases hf : finished st
    · exact ⟨[], st, rfl, hf⟩
    · obtain ⟨acts, st1, h1, h2, h3⟩ := step_decreases st hw hd hf
      obtain ⟨acts2, st2, h4, h5⟩ := completes_after_release n st1 (by omega) (runSched_wf acts hw h1) h3
      exact ⟨acts ++ acts2, st2, by rw [runSched_append, h1]; exact h4, h5⟩

end EaselModel.Containers.StackThreads
