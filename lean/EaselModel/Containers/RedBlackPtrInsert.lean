import EaselModel.Containers.RedBlackPtrLemmas
/-! # Lemmas: the descent loop and the duplicate / first-record / black-parent paths of the pointer-level
`esl_red_black_doublekey_insert` (the red-parent path continues into `rebalance`, which is tied to the code by the exact
record-level differential run and whose case analysis is proved on the inductive tree in `RedBlackLemmas`) -/
namespace EaselModel.Containers.RedBlackPtr
open EaselModel.Containers.RedBlack

theorem absTree_congr {st st' : Store} : ∀ {t : Shape}, (∀ i ∈ t.ids, rd st' i = rd st i) → absTree st' t = absTree st t
  | .nil, _ => rfl
  | .node a i b, hc => by
    simp only [absTree]
    rw [hc i (by simp [Shape.ids]), absTree_congr (t := a) (fun j hj => hc j (by simp [Shape.ids, hj])),
      absTree_congr (t := b) (fun j hj => hc j (by simp [Shape.ids, hj]))]

/-- the descent loop of `insert` on any tree laid out in the store: it ends inside the tree without touching anything else;
    it answers "equal key exists" exactly when the lookup on the abstract tree finds the key; otherwise it stops at a record
    of the tree whose child pointer on the key's side is `NULL` (where the new record is attached) -/
theorem descend_repr {st : Store} (key : Int) : ∀ {a : Shape} {i : Nat} {b : Shape} (fuel : Nat),
    Repr st (.node a i b) (some i) → (Shape.node a i b).height ≤ fuel →
    ∃ r, descend st key fuel i = some r ∧ (r = none ↔ Tree.lookup key (absTree st (.node a i b)) = true) ∧
      (∀ p, r = some p → p ∈ (Shape.node a i b).ids ∧ ∃ nd, rd st p = some nd ∧ key ≠ nd.key ∧
        (if key > nd.key then nd.large = none else nd.small = none))
  | a, i, b, fuel, ⟨_, nd, hr, ha, hb⟩, hf => by
    cases fuel with
    | zero => simp [Shape.height] at hf
    | succ f =>
      simp only [Shape.height] at hf
      simp only [descend, hr, absTree, Tree.lookup]
      by_cases h2 : key > nd.key
      · have h1 : ¬ nd.key = key := by omega
        have h2' : nd.key < key := h2
        simp only [h2, h1, h2', ↓reduceIte]
        cases b with
        | nil =>
          have hl : nd.large = none := hb
          simp only [hl, absTree, Tree.lookup]
          refine ⟨some i, rfl, by simp, fun p hp => ?_⟩
          cases hp
          exact ⟨by simp [Shape.ids], nd, hr, by omega, by simp [h2, hl]⟩
        | node b1 j b2 =>
          have hl : nd.large = some j := hb.1
          rw [hl] at hb
          simp only [hl]
          obtain ⟨r, e1, e2, e3⟩ := descend_repr key f hb (by simp only [Shape.height] at hf ⊢; omega)
          exact ⟨r, e1, e2, fun p hp => ⟨List.mem_append_right _ (List.mem_cons_of_mem _ (e3 p hp).1), (e3 p hp).2⟩⟩
      · by_cases h3 : key < nd.key
        · have h1 : ¬ nd.key = key := by omega
          have h2' : ¬ nd.key < key := by omega
          simp only [h2, h3, h1, h2', ↓reduceIte]
          cases a with
          | nil =>
            have hl : nd.small = none := ha
            simp only [hl, absTree, Tree.lookup]
            refine ⟨some i, rfl, by simp, fun p hp => ?_⟩
            cases hp
            exact ⟨by simp [Shape.ids], nd, hr, by omega, by simp [h2, hl]⟩
          | node a1 j a2 =>
            have hl : nd.small = some j := ha.1
            rw [hl] at ha
            simp only [hl]
            obtain ⟨r, e1, e2, e3⟩ := descend_repr key f ha (by simp only [Shape.height] at hf ⊢; omega)
            exact ⟨r, e1, e2, fun p hp => ⟨List.mem_append_left _ (e3 p hp).1, (e3 p hp).2⟩⟩
        · have h1 : nd.key = key := by omega
          simp only [h2, h3, ↓reduceIte]
          simp only [h1, ↓reduceIte]
          exact ⟨none, rfl, by simp, fun p hp => by cases hp⟩

/-- DUPLICATE KEY: `esl_red_black_doublekey_insert(tree, node)` with a key the (search) tree already holds returns `NULL`;
    the tree's records are untouched (same shape, colours, keys, pointers), the root stays; the only write is the reset of
    the offered record itself (red, no children) — the caller still owns it -/
theorem insert_duplicate {st : Store} {a : Shape} {root : Nat} {b : Shape} {node : Nat} {nn : Node}
    (hrep : Repr st (.node a root b) (some root)) (hnd : (Shape.node a root b).ids.Nodup)
    (hnode : node ∉ (Shape.node a root b).ids) (hr : rd st node = some nn)
    (hdup : Tree.lookup nn.key (absTree st (.node a root b)) = true) :
    ∃ st', insert st (some root) node = some (st', none) ∧ (∀ j, j ≠ node → rd st' j = rd st j) ∧
      rd st' node = some { nn with color := .red, small := none, large := none } ∧
      Repr st' (.node a root b) (some root) ∧ absTree st' (.node a root b) = absTree st (.node a root b) := by
  have hw := wr_of_rd (fun nd => { nd with color := .red, small := none, large := none }) hr
  obtain ⟨st1, hw1⟩ : ∃ st1, wr st node (fun nd => { nd with color := .red, small := none, large := none }) = some st1 :=
    ⟨_, hw⟩
  have hsame : ∀ j, j ≠ node → rd st1 j = rd st j := fun j hj => rd_wr_ne hw1 hj
  have hids : ∀ i ∈ (Shape.node a root b).ids, rd st1 i = rd st i := fun i hi => hsame i (fun h => hnode (h ▸ hi))
  have hrep1 : Repr st1 (.node a root b) (some root) := Repr.congr hids hrep
  have habs : absTree st1 (.node a root b) = absTree st (.node a root b) := absTree_congr hids
  have hrn : rd st1 node = some { nn with color := .red, small := none, large := none } := rd_wr_same hw1 hr
  have hh := hrep1.height_le_size hnd
  obtain ⟨r, e1, e2, _⟩ := descend_repr nn.key (st1.size + 1) hrep1 (by omega)
  have hrnone : r = none := e2.mpr (by rw [habs]; exact hdup)
  subst hrnone
  refine ⟨st1, ?_, hsame, hrn, hrep1, habs⟩
  simp only [insert, hw1, hrn, e1]

/-- FIRST RECORD: inserting into the empty tree (`tree == NULL`) makes the record the black root with no children -/
theorem insert_empty {st : Store} {node : Nat} {nn : Node} (hr : rd st node = some nn) :
    ∃ st', insert st none node = some (st', some node) ∧ (∀ j, j ≠ node → rd st' j = rd st j) ∧
      rd st' node = some { nn with color := .black, small := none, large := none } := by
  obtain ⟨st1, hw1⟩ : ∃ st1, wr st node (fun nd => { nd with color := .red, small := none, large := none }) = some st1 :=
    ⟨_, wr_of_rd _ hr⟩
  have hr1 := rd_wr_same hw1 hr
  obtain ⟨st2, hw2⟩ : ∃ st2, wr st1 node (fun nd => { nd with color := .black }) = some st2 := ⟨_, wr_of_rd _ hr1⟩
  refine ⟨st2, by simp only [insert, hw1, hw2, Option.map_some], fun j hj => ?_, ?_⟩
  · rw [rd_wr_ne hw2 hj, rd_wr_ne hw1 hj]
  · exact rd_wr_same hw2 hr1

end EaselModel.Containers.RedBlackPtr
