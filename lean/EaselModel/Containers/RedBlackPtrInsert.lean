import EaselModel.Containers.RedBlackPtrLemmas
/-! # Lemmas: the descent loop and the duplicate / first-record / black-parent paths of the pointer-level
`esl_red_black_doublekey_insert` (the red-parent path continues into `rebalance`: proved in `RedBlackPtrRebalance` / `RedBlackPtrRotate` /
`RedBlackPtrRefine`, where the whole function is shown to refine the inductive insert) -/
namespace EaselModel.Containers.RedBlackPtr
open EaselModel.Containers.RedBlack

theorem absTree_congr {st st' : Store} : ∀ {t : Shape}, (∀ i ∈ t.ids, rd st' i = rd st i) → absTree st' t = absTree st t
  | .nil, _ => rfl
  | .node a i b, hc => by
    simp only [absTree]
    rw [hc i (by simp [Shape.ids]), absTree_congr (t := a) (fun j hj => hc j (by simp [Shape.ids, hj])),
      absTree_congr (t := b) (fun j hj => hc j (by simp [Shape.ids, hj]))]

/-- the descent loop of `insert` on any tree laid out in the store: it ends inside the tree without touching anything else;
    it answers "equal key exists" exactly when the lookup on the abstract tree finds the key; otherwise it stops at a record
    of the tree whose child pointer on the key's side is `NULL` (where the new record is attached) -/
theorem descend_repr {st : Store} (key : Int) : ∀ {a : Shape} {i : Nat} {b : Shape} (fuel : Nat),
    Repr st (.node a i b) (some i) → (Shape.node a i b).height ≤ fuel →
    ∃ r, descend st key fuel i = some r ∧ (r = none ↔ Tree.lookup key (absTree st (.node a i b)) = true) ∧
      (∀ p, r = some p → p ∈ (Shape.node a i b).ids ∧ ∃ nd, rd st p = some nd ∧ key ≠ nd.key ∧
        (if key > nd.key then nd.large = none else nd.small = none))
  | a, i, b, fuel, ⟨_, nd, hr, ha, hb⟩, hf => by
    cases fuel with
    | zero => simp [Shape.height] at hf
    | succ f =>
      simp only [Shape.height] at hf
      simp only [descend, hr, absTree, Tree.lookup]
      by_cases h2 : key > nd.key
      · have h1 : ¬ nd.key = key := by omega
        have h2' : nd.key < key := h2
        simp only [h2, h1, h2', ↓reduceIte]
        cases b with
        | nil =>
          have hl : nd.large = none := hb
          simp only [hl, absTree, Tree.lookup]
          refine ⟨some i, rfl, by simp, fun p hp => ?_⟩
          cases hp
          exact ⟨by simp [Shape.ids], nd, hr, by omega, by simp [h2, hl]⟩
        | node b1 j b2 =>
          have hl : nd.large = some j := hb.1
          rw [hl] at hb
          simp only [hl]
          obtain ⟨r, e1, e2, e3⟩ := descend_repr key f hb (by simp only [Shape.height] at hf ⊢; omega)
          exact ⟨r, e1, e2, fun p hp => ⟨List.mem_append_right _ (List.mem_cons_of_mem _ (e3 p hp).1), (e3 p hp).2⟩⟩
      · by_cases h3 : key < nd.key
        · have h1 : ¬ nd.key = key := by omega
          have h2' : ¬ nd.key < key := by omega
          simp only [h2, h3, h1, h2', ↓reduceIte]
          cases a with
          | nil =>
            have hl : nd.small = none := ha
            simp only [hl, absTree, Tree.lookup]
            refine ⟨some i, rfl, by simp, fun p hp => ?_⟩
            cases hp
            exact ⟨by simp [Shape.ids], nd, hr, by omega, by simp [h2, hl]⟩
          | node a1 j a2 =>
            have hl : nd.small = some j := ha.1
            rw [hl] at ha
            simp only [hl]
            obtain ⟨r, e1, e2, e3⟩ := descend_repr key f ha (by simp only [Shape.height] at hf ⊢; omega)
            exact ⟨r, e1, e2, fun p hp => ⟨List.mem_append_left _ (e3 p hp).1, (e3 p hp).2⟩⟩
        · have h1 : nd.key = key := by omega
          simp only [h2, h3, ↓reduceIte]
          simp only [h1, ↓reduceIte]
          exact ⟨none, rfl, by simp, fun p hp => by cases hp⟩

/-- DUPLICATE KEY: `esl_red_black_doublekey_insert(tree, node)` with a key the (search) tree already holds returns `NULL`;
    the tree's records are untouched (same shape, colours, keys, pointers), the root stays; the only write is the reset of
    the offered record itself (red, no children) — the caller still owns it -/
theorem insert_duplicate {st : Store} {a : Shape} {root : Nat} {b : Shape} {node : Nat} {nn : Node}
    (hrep : Repr st (.node a root b) (some root)) (hnd : (Shape.node a root b).ids.Nodup)
    (hnode : node ∉ (Shape.node a root b).ids) (hr : rd st node = some nn)
    (hdup : Tree.lookup nn.key (absTree st (.node a root b)) = true) :
    ∃ st', insert st (some root) node = some (st', none) ∧ (∀ j, j ≠ node → rd st' j = rd st j) ∧
      rd st' node = some { nn with color := .red, small := none, large := none } ∧
      Repr st' (.node a root b) (some root) ∧ absTree st' (.node a root b) = absTree st (.node a root b) := by
  have hw := wr_of_rd (fun nd => { nd with color := .red, small := none, large := none }) hr
  obtain ⟨st1, hw1⟩ : ∃ st1, wr st node (fun nd => { nd with color := .red, small := none, large := none }) = some st1 :=
    ⟨_, hw⟩
  have hsame : ∀ j, j ≠ node → rd st1 j = rd st j := fun j hj => rd_wr_ne hw1 hj
  have hids : ∀ i ∈ (Shape.node a root b).ids, rd st1 i = rd st i := fun i hi => hsame i (fun h => hnode (h ▸ hi))
  have hrep1 : Repr st1 (.node a root b) (some root) := Repr.congr hids hrep
  have habs : absTree st1 (.node a root b) = absTree st (.node a root b) := absTree_congr hids
  have hrn : rd st1 node = some { nn with color := .red, small := none, large := none } := rd_wr_same hw1 hr
  have hh := hrep1.height_le_size hnd
  obtain ⟨r, e1, e2, _⟩ := descend_repr nn.key (st1.size + 1) hrep1 (by omega)
  have hrnone : r = none := e2.mpr (by rw [habs]; exact hdup)
  subst hrnone
  refine ⟨st1, ?_, hsame, hrn, hrep1, habs⟩
  simp only [insert, hw1, hrn, e1]

/-- FIRST RECORD: inserting into the empty tree (`tree == NULL`) makes the record the black root with no children -/
theorem insert_empty {st : Store} {node : Nat} {nn : Node} (hr : rd st node = some nn) :
    ∃ st', insert st none node = some (st', some node) ∧ (∀ j, j ≠ node → rd st' j = rd st j) ∧
      rd st' node = some { nn with color := .black, small := none, large := none } := by
  obtain ⟨st1, hw1⟩ : ∃ st1, wr st node (fun nd => { nd with color := .red, small := none, large := none }) = some st1 :=
    ⟨_, wr_of_rd _ hr⟩
  have hr1 := rd_wr_same hw1 hr
  obtain ⟨st2, hw2⟩ : ∃ st2, wr st1 node (fun nd => { nd with color := .black }) = some st2 := ⟨_, wr_of_rd _ hr1⟩
  refine ⟨st2, by simp only [insert, hw1, hw2, Option.map_some], fun j hj => ?_, ?_⟩
  · rw [rd_wr_ne hw2 hj, rd_wr_ne hw1 hj]
  · exact rd_wr_same hw2 hr1

/-! ## attaching the new record under a black parent (no rebalancing needed) -/

/-- the shape after hanging record `node` where the descent for `key` ends -/
def attachShape (st : Store) (key : Int) (node : Nat) : Shape → Shape
  | .nil => .node .nil node .nil
  | .node a i b =>
    match rd st i with
    | some nd =>
      if key > nd.key then .node a i (attachShape st key node b)
      else if key < nd.key then .node (attachShape st key node a) i b
      else .node a i b
    | none => .node a i b

/-- the new record's effect on the pointer structure: if `st'` differs from `st` only in record `node` (now a leaf) and in the
    child pointer, on the key's side, of the record `p` where the descent ended, then `st'` lays out the attached shape -/
theorem attach_repr {st st' : Store} (key : Int) (node p : Nat) :
    ∀ (a : Shape) (i : Nat) (b : Shape) (fuel : Nat), Repr st (.node a i b) (some i) → (Shape.node a i b).ids.Nodup →
      node ∉ (Shape.node a i b).ids → descend st key fuel i = some (some p) →
      (∀ j, j ≠ p → j ≠ node → rd st' j = rd st j) →
      (∃ nn', rd st' node = some nn' ∧ nn'.small = none ∧ nn'.large = none) →
      (∀ pn, rd st p = some pn → rd st' p = some (if key > pn.key then { pn with large := some node } else { pn with small := some node })) →
      Repr st' (attachShape st key node (.node a i b)) (some i) ∧ p ∈ (Shape.node a i b).ids
  | a, i, b, fuel, ⟨_, nd, hr, ha, hb⟩, hnd, hnode, hdesc, F1, F2, F3 => by
    cases fuel with
    | zero => simp [descend] at hdesc
    | succ f =>
      simp only [Shape.ids, List.nodup_append, List.nodup_cons, List.mem_cons, List.mem_append, not_or] at hnd hnode
      obtain ⟨nda, ⟨hib, ndb⟩, hdisj⟩ := hnd
      obtain ⟨hna, hni, hnb⟩ := hnode
      have hia : i ∉ a.ids := fun h => hdisj i h i (Or.inl rfl) rfl
      simp only [descend, hr] at hdesc
      simp only [attachShape, hr]
      obtain ⟨nn', hrn, hs0, hl0⟩ := F2
      have keepA : ∀ q, q ≠ i → (p ∉ a.ids) → Repr st' a q → True := fun _ _ _ _ => trivial
      by_cases h2 : key > nd.key
      · simp only [h2, ↓reduceIte] at hdesc ⊢
        cases b with
        | nil =>
          have hl : nd.large = none := hb
          simp only [hl, Option.some.injEq] at hdesc
          subst hdesc
          have hri := F3 nd hr
          simp only [h2, ↓reduceIte] at hri
          refine ⟨⟨rfl, _, hri, ?_, ?_⟩, by simp [Shape.ids]⟩
          · exact Repr.congr (fun j hj => F1 j (fun e => hia (e ▸ hj)) (fun e => hna (e ▸ hj))) ha
          · exact ⟨rfl, nn', hrn, hs0, hl0⟩
        | node b1 j b2 =>
          have hl : nd.large = some j := hb.1
          rw [hl] at hb
          simp only [hl] at hdesc
          obtain ⟨ih1, ih2⟩ := attach_repr key node p b1 j b2 f hb ndb hnb hdesc F1 ⟨nn', hrn, hs0, hl0⟩ F3
          have hpi : p ≠ i := fun e => hib (e ▸ ih2)
          have hpa : p ∉ a.ids := fun h => hdisj p h p (Or.inr ih2) rfl
          have hri : rd st' i = some nd := by rw [F1 i (fun e => hpi e.symm) (fun e => hni e.symm)]; exact hr
          refine ⟨⟨rfl, nd, hri, ?_, ?_⟩, List.mem_append_right _ (List.mem_cons_of_mem _ ih2)⟩
          · exact Repr.congr (fun q hq => F1 q (fun e => hpa (e ▸ hq)) (fun e => hna (e ▸ hq))) ha
          · rw [hl]
            have : attachShape st key node (.node b1 j b2) = attachShape st key node (.node b1 j b2) := rfl
            -- the attached large subtree still starts at record `j`
            cases hrj : rd st j with
            | none => simp only [attachShape, hrj] at ih1 ⊢; exact ih1
            | some ndj => exact ih1
      · by_cases h3 : key < nd.key
        · simp only [h2, h3, ↓reduceIte] at hdesc ⊢
          cases a with
          | nil =>
            have hl : nd.small = none := ha
            simp only [hl, Option.some.injEq] at hdesc
            subst hdesc
            have hri := F3 nd hr
            simp only [h2, ↓reduceIte] at hri
            refine ⟨⟨rfl, _, hri, ?_, ?_⟩, by simp [Shape.ids]⟩
            · exact ⟨rfl, nn', hrn, hs0, hl0⟩
            · exact Repr.congr (fun j hj => F1 j (fun e => hib (e ▸ hj)) (fun e => hnb (e ▸ hj))) hb
          | node a1 j a2 =>
            have hl : nd.small = some j := ha.1
            rw [hl] at ha
            simp only [hl] at hdesc
            obtain ⟨ih1, ih2⟩ := attach_repr key node p a1 j a2 f ha nda hna hdesc F1 ⟨nn', hrn, hs0, hl0⟩ F3
            have hpi : p ≠ i := fun e => hia (e ▸ ih2)
            have hpb : p ∉ b.ids := fun h => hdisj p ih2 p (Or.inr h) rfl
            have hri : rd st' i = some nd := by rw [F1 i (fun e => hpi e.symm) (fun e => hni e.symm)]; exact hr
            refine ⟨⟨rfl, nd, hri, ?_, ?_⟩, List.mem_append_left _ ih2⟩
            · rw [hl]; exact ih1
            · exact Repr.congr (fun q hq => F1 q (fun e => hpb (e ▸ hq)) (fun e => hnb (e ▸ hq))) hb
        · simp only [h2, h3, ↓reduceIte] at hdesc
          cases hdesc

theorem attachShape_congr {st st' : Store} (key : Int) (node : Nat) : ∀ {t : Shape}, (∀ i ∈ t.ids, rd st' i = rd st i) →
    attachShape st' key node t = attachShape st key node t
  | .nil, _ => rfl
  | .node a i b, hc => by
    simp only [attachShape]
    rw [hc i (by simp [Shape.ids]), attachShape_congr key node (t := a) (fun j hj => hc j (by simp [Shape.ids, hj])),
      attachShape_congr key node (t := b) (fun j hj => hc j (by simp [Shape.ids, hj]))]

/-- NEW KEY UNDER A BLACK PARENT: `insert(tree, node)` with a key the tree does not hold descends to a record `p` of the tree
    whose child pointer on the key's side is `NULL`; if `p` is black the function hangs the record there as a red leaf and
    returns the unchanged root: the store then lays out the attached shape, only the records `node` and `p` were written,
    and `p` got exactly one new child pointer. (With a red `p` the function continues into `rebalance`.) -/
theorem insert_black_parent {st : Store} {a : Shape} {root : Nat} {b : Shape} {node : Nat} {nn : Node}
    (hrep : Repr st (.node a root b) (some root)) (hnd : (Shape.node a root b).ids.Nodup)
    (hnode : node ∉ (Shape.node a root b).ids) (hr : rd st node = some nn)
    (hnew : Tree.lookup nn.key (absTree st (.node a root b)) = false) :
    ∃ p pn, p ∈ (Shape.node a root b).ids ∧ rd st p = some pn ∧ nn.key ≠ pn.key ∧
      (if nn.key > pn.key then pn.large = none else pn.small = none) ∧
      (pn.color = .black → ∃ st', insert st (some root) node = some (st', some root) ∧
        Repr st' (attachShape st nn.key node (.node a root b)) (some root) ∧
        (∀ j, j ≠ p → j ≠ node → rd st' j = rd st j) ∧
        rd st' node = some { nn with color := .red, small := none, large := none, parent := some p } ∧
        rd st' p = some (if nn.key > pn.key then { pn with large := some node } else { pn with small := some node })) := by
  obtain ⟨st1, hw1⟩ : ∃ st1, wr st node (fun nd => { nd with color := .red, small := none, large := none }) = some st1 :=
    ⟨_, wr_of_rd _ hr⟩
  have hsame : ∀ j, j ≠ node → rd st1 j = rd st j := fun j hj => rd_wr_ne hw1 hj
  have hids : ∀ i ∈ (Shape.node a root b).ids, rd st1 i = rd st i := fun i hi => hsame i (fun h => hnode (h ▸ hi))
  have hrep1 : Repr st1 (.node a root b) (some root) := Repr.congr hids hrep
  have habs : absTree st1 (.node a root b) = absTree st (.node a root b) := absTree_congr hids
  have hrn : rd st1 node = some { nn with color := .red, small := none, large := none } := rd_wr_same hw1 hr
  have hh := hrep1.height_le_size hnd
  obtain ⟨r, e1, e2, e3⟩ := descend_repr nn.key (st1.size + 1) hrep1 (by omega)
  cases r with
  | none => rw [habs, hnew] at e2; exact absurd (e2.mp rfl) (by simp)
  | some p =>
    obtain ⟨hp, pn, hrp1, hne, hchild⟩ := e3 p rfl
    have hpn : p ≠ node := fun e => hnode (e ▸ hp)
    have hrp : rd st p = some pn := by rw [← hids p hp]; exact hrp1
    refine ⟨p, pn, hp, hrp, hne, hchild, fun hblack => ?_⟩
    obtain ⟨st2, hw2⟩ : ∃ st2, wr st1 node (fun nd => { nd with parent := some p }) = some st2 := ⟨_, wr_of_rd _ hrn⟩
    have hrp2 : rd st2 p = some pn := by rw [rd_wr_ne hw2 hpn]; exact hrp1
    have hrn2 := rd_wr_same hw2 hrn
    by_cases hlt : nn.key < pn.key
    · have hgt : ¬ nn.key > pn.key := by omega
      obtain ⟨st3, hw3⟩ : ∃ st3, wr st2 p (fun nd => { nd with small := some node }) = some st3 := ⟨_, wr_of_rd _ hrp2⟩
      have F1 : ∀ j, j ≠ p → j ≠ node → rd st3 j = rd st1 j := fun j h1 h2 => by rw [rd_wr_ne hw3 h1, rd_wr_ne hw2 h2]
      have hn3 : rd st3 node = some { nn with color := .red, small := none, large := none, parent := some p } := by
        rw [rd_wr_ne hw3 hpn.symm]; exact hrn2
      have hp3 : rd st3 p = some { pn with small := some node } := rd_wr_same hw3 hrp2
      refine ⟨st3, ?_, ?_, fun j h1 h2 => by rw [F1 j h1 h2]; exact hsame j h2, hn3, by simp only [hgt, ↓reduceIte]; exact hp3⟩
      · simp only [insert, hw1, hrn, e1, hw2, hrp2, hlt, ↓reduceIte, hw3, hblack]
        simp
      · rw [← attachShape_congr nn.key node hids]
        exact (attach_repr nn.key node p a root b (st1.size + 1) hrep1 hnd hnode e1 F1 ⟨_, hn3, rfl, rfl⟩
          (fun pn' hpn' => by rw [hrp1] at hpn'; cases hpn'; simp only [hgt, ↓reduceIte]; exact hp3)).1
    · have hgt : nn.key > pn.key := by omega
      obtain ⟨st3, hw3⟩ : ∃ st3, wr st2 p (fun nd => { nd with large := some node }) = some st3 := ⟨_, wr_of_rd _ hrp2⟩
      have F1 : ∀ j, j ≠ p → j ≠ node → rd st3 j = rd st1 j := fun j h1 h2 => by rw [rd_wr_ne hw3 h1, rd_wr_ne hw2 h2]
      have hn3 : rd st3 node = some { nn with color := .red, small := none, large := none, parent := some p } := by
        rw [rd_wr_ne hw3 hpn.symm]; exact hrn2
      have hp3 : rd st3 p = some { pn with large := some node } := rd_wr_same hw3 hrp2
      refine ⟨st3, ?_, ?_, fun j h1 h2 => by rw [F1 j h1 h2]; exact hsame j h2, hn3, by simp only [hgt, ↓reduceIte]; exact hp3⟩
      · simp only [insert, hw1, hrn, e1, hw2, hrp2, hlt, ↓reduceIte, hw3, hblack]
        simp
      · rw [← attachShape_congr nn.key node hids]
        exact (attach_repr nn.key node p a root b (st1.size + 1) hrep1 hnd hnode e1 F1 ⟨_, hn3, rfl, rfl⟩
          (fun pn' hpn' => by rw [hrp1] at hpn'; cases hpn'; simp only [hgt, ↓reduceIte]; exact hp3)).1

end EaselModel.Containers.RedBlackPtr

namespace EaselModel.Containers.RedBlackPtr
/-- REUSE OF A REFUSED RECORD: a record given back to the free list (the caller's `node->large = pool; pool = node` after
    `insert` returned `NULL` for a duplicate) is the next one taken, and taking it restores the free list as it was:
    no record is lost from the pool and none is handed out while it is in the tree -/
theorem poolGive_take {st : Store} {pool : Ptr} {n : Nat} {nd : Node} (hr : rd st n = some nd) :
    ∃ st', poolGive st pool n = some (st', some n) ∧ poolTake st' (some n) = some (n, pool) ∧
      (∀ j, j ≠ n → rd st' j = rd st j) ∧ rd st' n = some { nd with large := pool } := by
  obtain ⟨st', hw⟩ : ∃ st', wr st n (fun nd => { nd with large := pool }) = some st' := ⟨_, wr_of_rd _ hr⟩
  have hrn := rd_wr_same hw hr
  refine ⟨st', by simp [poolGive, hw], by simp [poolTake, hrn], fun j hj => rd_wr_ne hw hj, hrn⟩
end EaselModel.Containers.RedBlackPtr
