/-! # esl_quicksort.c — executable model (core Lean only)

`ord` is the index array `sorted_at`; `cmp o1 o2` is the caller's `comparison(data, o1, o2)` (an `Int`: <0, 0, >0).
Outcomes: `.ok ord`, `.fault` (an index outside `0..n-1` was used to read or write `ord`), `.nofuel`
(the recursion / loop fuel ran out — the termination theorem shows it does not for fuel ≥ n). -/
namespace EaselModel.Containers.Quicksort

inductive Out (α : Type) | ok (a : α) | fault | nofuel
deriving Repr

instance : Monad Out where
  pure := .ok
  bind x f := match x with | .ok a => f a | .fault => .fault | .nofuel => .nofuel

def rd (ord : Array Nat) (i : Int) : Out Nat :=
  if i < 0 then .fault else match ord[i.toNat]? with | some v => .ok v | none => .fault

def wr (ord : Array Nat) (i : Int) (v : Nat) : Out (Array Nat) :=
  if i < 0 then .fault else if i.toNat < ord.size then .ok (ord.set! i.toNat v) else .fault

/-- `do { i++; } while (i <= hi && comparison(data, ord[i], ord[lo]) < 0);`  returns the final `i` -/
def scanUp (cmp : Nat → Nat → Int) (ord : Array Nat) (lo hi : Int) : Nat → Int → Out Int
  | 0, _ => .nofuel
  | f+1, i =>
    let i := i + 1
    if i ≤ hi then do
      let a ← rd ord i
      let p ← rd ord lo
      if cmp a p < 0 then scanUp cmp ord lo hi f i else pure i
    else pure i

/-- `do { j--; } while (comparison(data, ord[j], ord[lo]) > 0);`  returns the final `j` -/
def scanDown (cmp : Nat → Nat → Int) (ord : Array Nat) (lo : Int) : Nat → Int → Out Int
  | 0, _ => .nofuel
  | f+1, j => do
    let j := j - 1
    let a ← rd ord j
    let p ← rd ord lo
    if cmp a p > 0 then scanDown cmp ord lo f j else pure j

/-- the `while (1)` partition loop; returns `(ord, j)` -/
def partLoop (cmp : Nat → Nat → Int) (lo hi : Int) : Nat → Array Nat → Int → Int → Out (Array Nat × Int)
  | 0, _, _, _ => .nofuel
  | f+1, ord, i, j => do
    let i ← scanUp cmp ord lo hi (ord.size + 2) i
    let j ← scanDown cmp ord lo (ord.size + 2) j
    if j > i then
      let oi ← rd ord i
      let oj ← rd ord j
      let ord ← wr ord j oi
      let ord ← wr ord i oj
      partLoop cmp lo hi f ord i j
    else pure (ord, j)

/-- `partition(data, comparison, ord, lo, hi)` -/
def partition (cmp : Nat → Nat → Int) : Nat → Array Nat → Int → Int → Out (Array Nat)
  | 0, _, _, _ => .nofuel
  | f+1, ord, lo, hi => do
    -- median of three; the first "swap" is `swap = ord[hi]; ord[hi] = ord[lo]; ord[hi] = swap;` : a no-op as written
    let ohi ← rd ord hi
    let olo ← rd ord lo
    let ord ← (if cmp ohi olo < 0 then do
                  let swap ← rd ord hi
                  let olo' ← rd ord lo
                  let ord ← wr ord hi olo'
                  wr ord hi swap
                else pure ord)
    let mid := lo + (hi - lo) / 2          -- C integer division; hi ≥ lo ≥ 0 here
    let omid ← rd ord mid
    let olo ← rd ord lo
    let ohi ← rd ord hi
    let pivot := if cmp omid olo < 0 then lo else if cmp omid ohi > 0 then hi else mid
    let opiv ← rd ord pivot
    let olo ← rd ord lo
    let ord ← wr ord pivot olo
    let ord ← wr ord lo opiv
    let (ord, j) ← partLoop cmp lo hi (ord.size + 2) ord lo (hi + 1)
    let olo ← rd ord lo
    let oj ← rd ord j
    let ord ← wr ord lo oj
    let ord ← wr ord j olo
    if j - lo < hi - j then do
      let ord ← (if j - lo > 1 then partition cmp f ord lo (j - 1) else pure ord)
      if hi - j > 1 then partition cmp f ord (j + 1) hi else pure ord
    else do
      let ord ← (if hi - j > 1 then partition cmp f ord (j + 1) hi else pure ord)
      if j - lo > 1 then partition cmp f ord lo (j - 1) else pure ord

/-- `esl_quicksort(data, n, comparison, sorted_at)`:
    `for (i = 0; i < n; i++) sorted_at[i] = i;  if (n > 1) partition(data, comparison, sorted_at, 0, n-1);`
    `fuel ≥ n` suffices (theorem) -/
def quicksort (cmp : Nat → Nat → Int) (n : Nat) (fuel : Nat) : Out (Array Nat) :=
  if n > 1 then partition cmp fuel (Array.range n) 0 ((n : Int) - 1) else .ok (Array.range n)

/-- the code before the fix `if (n > 1)`: `partition` was entered for every `n` (kept for the regression theorem) -/
def quicksortUnguarded (cmp : Nat → Nat → Int) (n : Nat) (fuel : Nat) : Out (Array Nat) :=
  partition cmp fuel (Array.range n) 0 ((n : Int) - 1)

end EaselModel.Containers.Quicksort
